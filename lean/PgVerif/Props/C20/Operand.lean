/-
C20 — "an isotherm created with such a string is linked to that adsorbate", for the documented alternative to the string: the adsorbate
OBJECT as the constructor argument (finding S56-C20).

`BaseIsotherm.__init__` tests its three required descriptors with `None in [material, adsorbate, temperature]`.  Python's `x in list`
is "identical or EQUAL to an element", and `None == element` — `NoneType.__eq__` declines — is answered by the element's reflected
`__eq__(None)`.  For an `Adsorbate` element that is `Adsorbate.__eq__`, which (before the repair) sent every operand that is not an
adsorbate to `other.lower()`: `None.lower()` raises AttributeError, so the constructor refused every adsorbate object although
`Adsorbate.find`, the setter's look-up, returns an object as it is.  Repaired: `__eq__` answers strings and adsorbates as before and
DECLINES (NotImplemented: Python falls back to identity) everything else.

Stated here, over the string model of `Model/Registry.lean` (`eqStr`, any string type `σ`, any normalisation `norm`):
* `adsEq_str` / `adsEq_ads`: the repaired comparison is the old one on strings and adsorbates (nothing about `find` by name changes);
* `noneIn_eq_any`: with the repaired comparison the required check is TOTAL and is exactly "one of the arguments is None";
  `required_check_passes_object`: it lets an adsorbate object through; `find_object`: the setter's look-up holds that very object;
* `raising_eq_refuses_object`: with the old comparison the check raises for EVERY argument list in which an adsorbate object comes before
  the first `None` (the defect class), witness `raising_eq_refuses_object_witness`.
The tie to the real classes is the oracle of `harness/pgv/regroutes.py` (`_object_in_constructor`: the three isotherm classes and the
shorthand, every route's registry).
-/
import PgVerif.Model.Registry
import Mathlib.Tactic

namespace PgVerif.C20
open PgVerif.Model.Registry

section Operand
variable {σ : Type} [DecidableEq σ]

/-- what can stand in a required-descriptor slot of the constructor: `None`, a string, an adsorbate object (name, stored aliases), or any
other object whose own `__eq__` declines an unknown operand (numbers, lists, a `Material` compares its name: not equal to `None`) -/
inductive Arg (σ : Type)
  | none
  | str (s : σ)
  | ads (name : σ) (stored : List σ)
  | other
  deriving DecidableEq

def Arg.isNone : Arg σ → Bool
  | .none => true
  | _ => false

/-- `Adsorbate.__eq__(self, other)` as repaired; `Option.none` is `NotImplemented` -/
def adsEq (norm : σ → σ) (name : σ) (stored : List σ) : Arg σ → Option Bool
  | .ads n _ => some (decide (name = n))
  | .str s => some (eqStr norm stored s)
  | _ => Option.none

/-- `Adsorbate.__eq__` before the repair: whatever is not an adsorbate is sent `.lower()` (`error` = AttributeError) -/
def adsEqRaising (norm : σ → σ) (name : σ) (stored : List σ) : Arg σ → Except Unit (Option Bool)
  | .ads n _ => .ok (some (decide (name = n)))
  | .str s => .ok (some (eqStr norm stored s))
  | _ => .error ()

/-- `None == x`: `NoneType.__eq__` declines, the reflected `x.__eq__(None)` answers; declined on both sides = identity -/
def noneEq (eq : σ → List σ → Arg σ → Except Unit (Option Bool)) (x : Arg σ) : Except Unit Bool :=
  match x with
  | .none => .ok true
  | .ads n al => (eq n al .none).map (·.getD false)
  | _ => .ok false

/-- `None in [x₁, …, xₙ]`: left to right, identical or equal, stops at the first hit — or at the first comparison that raises -/
def noneIn (eq : σ → List σ → Arg σ → Except Unit (Option Bool)) : List (Arg σ) → Except Unit Bool
  | [] => .ok false
  | x :: t =>
    match noneEq eq x with
    | .error e => .error e
    | .ok true => .ok true
    | .ok false => noneIn eq t

/-- the repaired comparison as a total instance of the above -/
def eqTotal (norm : σ → σ) : σ → List σ → Arg σ → Except Unit (Option Bool) := fun n al x => .ok (adsEq norm n al x)

/-- `Adsorbate.find(x)` for the argument kinds it accepts: an object is returned as it is, a string is looked up -/
def findArg (norm : σ → σ) (reg : List ((σ × List σ) × List σ)) : Arg σ → Option (σ × List σ)
  | .ads n al => some (n, al)
  | .str s => findS norm reg s
  | _ => Option.none

/-- the repair keeps the comparison with a string: lower-cased membership among the stored aliases -/
theorem adsEq_str (norm : σ → σ) (name : σ) (stored : List σ) (s : σ) :
    adsEq norm name stored (.str s) = some (eqStr norm stored s) ∧ adsEqRaising norm name stored (.str s) = .ok (some (eqStr norm stored s)) :=
  ⟨rfl, rfl⟩

/-- … and with another adsorbate: equal names -/
theorem adsEq_ads (norm : σ → σ) (name : σ) (stored : List σ) (n : σ) (al : List σ) :
    adsEq norm name stored (.ads n al) = some (decide (name = n)) ∧
      adsEqRaising norm name stored (.ads n al) = .ok (some (decide (name = n))) :=
  ⟨rfl, rfl⟩

/-- **with the repaired comparison the required check is total and says exactly "one of the arguments is None"** -/
theorem noneIn_eq_any (norm : σ → σ) (xs : List (Arg σ)) : noneIn (eqTotal norm) xs = .ok (xs.any Arg.isNone) := by
  induction xs with
  | nil => rfl
  | cons x t ih =>
    cases x <;> simp [noneIn, noneEq, eqTotal, adsEq, Arg.isNone, Except.map, ih]

/-- an adsorbate object passes the required check (the other two descriptors given) … -/
theorem required_check_passes_object (norm : σ → σ) (m t : Arg σ) (n : σ) (al : List σ) (hm : m.isNone = false) (ht : t.isNone = false) :
    noneIn (eqTotal norm) [m, .ads n al, t] = .ok false := by
  rw [noneIn_eq_any]
  have h : (Arg.ads n al : Arg σ).isNone = false := rfl
  simp only [List.any_cons, List.any_nil, hm, ht, h, Bool.or_false]

/-- … and the setter's look-up holds that very object, whatever the registry -/
theorem find_object (norm : σ → σ) (reg : List ((σ × List σ) × List σ)) (n : σ) (al : List σ) :
    findArg norm reg (.ads n al) = some (n, al) := rfl

/-- **the defect class**: with a comparison that raises for operands that are neither strings nor adsorbates, the required check raises for
every argument list in which an adsorbate object comes before the first `None` — in particular for every complete set of descriptors that
contains an adsorbate object -/
theorem raising_eq_refuses_object (norm : σ → σ) (pre post : List (Arg σ)) (n : σ) (al : List σ)
    (hpre : ∀ x ∈ pre, x = .other ∨ ∃ s, x = .str s) :
    noneIn (adsEqRaising norm) (pre ++ .ads n al :: post) = .error () := by
  induction pre with
  | nil => simp [noneIn, noneEq, adsEqRaising, Except.map]
  | cons x t ih =>
    have hx := hpre x (by simp)
    have ht : ∀ y ∈ t, y = .other ∨ ∃ s, y = .str s := fun y hy => hpre y (by simp [hy])
    rcases hx with rfl | ⟨s, rfl⟩ <;> simp [noneIn, noneEq, ih ht]

end Operand

/-- witness on strings: `BaseIsotherm(material='m', adsorbate=<nitrogen object>, temperature=300)` — refused by the raising comparison,
accepted by the repaired one, which still answers `N2` (any letter case) and declines `None` -/
theorem raising_eq_refuses_object_witness :
    noneIn (adsEqRaising String.toLower) [.str "m", .ads "nitrogen" ["n2", "nitrogen"], .other] = .error () ∧
    noneIn (eqTotal String.toLower) [.str "m", .ads "nitrogen" ["n2", "nitrogen"], .other] = .ok false ∧
    noneIn (eqTotal String.toLower) [.str "m", .ads "nitrogen" ["n2", "nitrogen"], .none] = .ok true ∧
    adsEq String.toLower "nitrogen" ["n2", "nitrogen"] (.str "N2") = some true ∧
    adsEq String.toLower "nitrogen" ["n2", "nitrogen"] (.none) = none := by decide +kernel

end PgVerif.C20
