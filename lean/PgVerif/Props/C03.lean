/-
C03 — data accessors in requested units agree with permanent conversion (placeholder; theorems follow).
-/
import PgVerif.Model.Access
import Mathlib.Tactic

namespace PgVerif.C03
open PgVerif.Model
variable {α : Type} [Field α] [LinearOrder α]

/-- limits never add or reorder points: the result is a sublist of the branch data -/
theorem applyLimits_sublist (vs : List α) (l : Option (Option α × Option α)) : (applyLimits vs l).Sublist vs := by
  unfold applyLimits
  cases l with
  | none => exact List.Sublist.refl _
  | some p =>
    obtain ⟨lo, hi⟩ := p
    simp only []
    split_ifs
    · exact List.Sublist.refl _
    · exact List.filter_sublist

end PgVerif.C03
