/-
C03 — data accessors in requested units agree with permanent conversion.

Model: `Model/Access.lean` (read accessors), `Model/IsoState.lean` (permanent conversions), `Model/Units.lean`
(unit functions), `Model/SpreadPoint.lean` (`interpLin`).  Sections (helpers sit above the theorems of their section;
section A's theorems are used by the helpers of section B):
  A  linearity of `c_pressure`, `c_loading`, `c_material` in the value;
  C  branch and limit selection;
  D  branch guessing (`split_ads_data`);
  E  interpolation laws;
  B  accessor = read ∘ permanent conversion, inputs in foreign units, findings S5a/S5b as witnesses.
Everything in A, C, D, E holds over any (ordered) field; B needs characteristic zero (unit factors are non-zero).
-/
import PgVerif.Model.Access
import PgVerif.Props.C01
import Mathlib.Tactic

set_option linter.unusedSectionVars false
set_option linter.unusedSimpArgs false
set_option linter.unusedVariables false

namespace PgVerif.C03
open PgVerif.Model PgVerif.Gen

/-! ## A. Linearity of the unit functions -/

section Linear
variable {α : Type} [Field α]

lemma map_ok {β γ : Type} (f : β → γ) (x : β) : Except.map f (.ok x : Except Err β) = .ok (f x) := rfl
lemma map_error {β γ : Type} (f : β → γ) (e : Err) : Except.map f (.error e : Except Err β) = .error e := rfl

/-- `x >>= F v` is linear in `v` when `x` does not depend on `v` and every `F · b` is linear -/
lemma bind_linear {β : Type} (x : Except Err β) (F : α → β → Except Err α) (v : α)
    (h : ∀ b, F v b = (F 1 b).map (fun f => v * f)) :
    (x >>= F v) = (x >>= F 1).map (fun f => v * f) := by
  cases x with
  | error e => rfl
  | ok b => exact h b

lemma cUnit_linear (t : List (String × Nat × Nat)) (v : α) (uf ut : Option String) (sign : Int) :
    cUnit t v uf ut sign = (cUnit t 1 uf ut sign).map (fun f => v * f) := by
  unfold cUnit
  cases (checkUnit t ut : Except Err α) <;> cases (checkUnit t uf : Except Err α) <;>
    simp [bind, Except.bind, Except.map, pure, Except.pure]

theorem cPressure_linear (psat : Option α) (t : Bool) (v : α) (mf mt uf ut : Option String) :
    cPressure psat t v mf mt uf ut = (cPressure psat t 1 mf mt uf ut).map (fun f => v * f) := by
  unfold cPressure
  cases checkBasis pressureMode mf with
  | error e => rfl
  | ok a =>
  cases checkBasis pressureMode mt with
  | error e => rfl
  | ok b =>
  obtain ⟨a, _⟩ := a
  obtain ⟨b, _⟩ := b
  simp only [bind, Except.bind, pure, Except.pure]
  split_ifs <;> try (first | rfl | exact cUnit_linear ..)
  all_goals (
    cases (checkUnit pressureUnits ut : Except Err α) <;> cases (checkUnit pressureUnits uf : Except Err α) <;>
      cases psat <;> simp only [Except.map, one_mul] <;> (try split) <;> simp_all)

theorem cMaterial_linear (env : Env α) (v : α) (bf bt uf ut : Option String) :
    cMaterial env v bf bt uf ut = (cMaterial env 1 bf bt uf ut).map (fun f => v * f) := by
  unfold cMaterial
  cases checkBasis materialMode bf with
  | error e => rfl
  | ok a =>
  cases checkBasis materialMode bt with
  | error e => rfl
  | ok b =>
  obtain ⟨a, ta⟩ := a
  obtain ⟨b, tb⟩ := b
  simp only [bind, Except.bind, pure, Except.pure]
  split_ifs <;> try (first | rfl | exact cUnit_linear ..)
  all_goals (
    cases (checkUnit (unitTable (tb.getD "")) ut : Except Err α) <;>
    cases (checkUnit (unitTable (ta.getD "")) uf : Except Err α) <;>
    cases leaf materialConst env (some a) (some b) <;>
    simp [Except.map] <;> ring)

theorem cLoading_linear (env : Env α) (v : α) (bf bt uf ut bm um : Option String) :
    cLoading env v bf bt uf ut bm um = (cLoading env 1 bf bt uf ut bm um).map (fun f => v * f) := by
  unfold cLoading
  cases checkBasis loadingMode bf with
  | error e => rfl
  | ok a =>
  cases checkBasis loadingMode bt with
  | error e => rfl
  | ok b =>
  obtain ⟨a, ta⟩ := a
  obtain ⟨b, tb⟩ := b
  by_cases hab : a = b
  · subst hab
    simp only [bind, Except.bind, pure, Except.pure, ne_eq, not_true_eq_false, if_false]
    split_ifs
    · cases ta with
      | none => rfl
      | some t => exact cUnit_linear ..
    · simp [Except.map]
  · cases ta <;> cases tb <;>
      simp only [bind, Except.bind, pure, Except.pure, ne_eq, hab, not_false_eq_true, if_true]
    all_goals (
      repeat' (first | rfl | split)
      all_goals (simp_all [Except.map])
      all_goals (try ring))

end Linear

/-! ## C. Branch and limit selection -/

section Select
variable {α : Type} [Field α] [LinearOrder α]

lemma ads_not_all : ("ads".startsWith "all") = false := by decide +kernel
lemma des_not_all : ("des".startsWith "all") = false := by decide +kernel

/-- adsorption branch: exactly the stored rows marked 0, in stored order -/
theorem dataBranch_ads {β : Type} (rows : List (β × Nat)) :
    dataBranch rows (some "ads") = .ok ((rows.filter (·.2 = 0)).map (·.1)) := by
  simp [dataBranch, ads_not_all]

/-- desorption branch: exactly the stored rows marked 1, in stored order -/
theorem dataBranch_des {β : Type} (rows : List (β × Nat)) :
    dataBranch rows (some "des") = .ok ((rows.filter (·.2 = 1)).map (·.1)) := by
  simp [dataBranch, des_not_all]

/-- no branch argument, or any string that starts with "all": every stored row, in stored order -/
theorem dataBranch_all {β : Type} (rows : List (β × Nat)) (branch : Option String)
    (h : branch = none ∨ ∃ b, branch = some b ∧ b.startsWith "all" = true) :
    dataBranch rows branch = .ok (rows.map (·.1)) := by
  rcases h with rfl | ⟨b, rfl, hb⟩
  · rfl
  · simp [dataBranch, hb]

/-- any other string is refused with a parameter error -/
theorem dataBranch_bad {β : Type} (rows : List (β × Nat)) (b : String)
    (h1 : b.startsWith "all" = false) (h2 : b ≠ "ads") (h3 : b ≠ "des") :
    dataBranch rows (some b) = .error .param := by
  simp [dataBranch, h1, h2, h3]

/-- whatever is returned is a sublist of the stored rows (never reordered, never invented) -/
theorem dataBranch_sublist {β : Type} (rows : List (β × Nat)) (branch : Option String) (out : List β)
    (h : dataBranch rows branch = .ok out) : out.Sublist (rows.map (·.1)) := by
  unfold dataBranch at h
  split at h
  · cases h; exact List.Sublist.refl _
  · split_ifs at h <;> cases h
    · exact List.Sublist.refl _
    · exact List.filter_sublist.map _
    · exact List.filter_sublist.map _

/-- limits never add or reorder points: the result is a sublist of the branch data -/
theorem applyLimits_sublist (vs : List α) (l : Option (Option α × Option α)) : (applyLimits vs l).Sublist vs := by
  unfold applyLimits
  cases l with
  | none => exact List.Sublist.refl _
  | some p =>
    obtain ⟨lo, hi⟩ := p
    simp only []
    split_ifs
    · exact List.Sublist.refl _
    · exact List.filter_sublist

theorem applyLimits_none (vs : List α) : applyLimits vs none = vs := rfl

/-- the Python test `limits and any(limits)`: at least one bound is given and non-zero -/
def limitsActive (lo hi : Option α) : Prop := (∃ a, lo = some a ∧ a ≠ 0) ∨ (∃ b, hi = some b ∧ b ≠ 0)

/-- limits `(None, None)`, `(0, 0)`, `(None, 0)`, `(0, None)` select everything -/
theorem applyLimits_inactive (vs : List α) (lo hi : Option α) (h : ¬ limitsActive lo hi) :
    applyLimits vs (some (lo, hi)) = vs := by
  unfold limitsActive at h
  simp only [not_or, not_exists, not_and, not_not] at h
  unfold applyLimits
  cases lo <;> cases hi <;> simp_all

/-- membership: a stored point is kept iff it lies inside the (inclusive) bounds that were given,
and only when the limits are active -/
theorem applyLimits_spec (vs : List α) (lo hi : Option α) (x : α) :
    x ∈ applyLimits vs (some (lo, hi)) ↔
      x ∈ vs ∧ (limitsActive lo hi → (∀ a, lo = some a → a ≤ x) ∧ (∀ b, hi = some b → x ≤ b)) := by
  unfold limitsActive applyLimits
  cases lo <;> cases hi <;> simp only [] <;> split_ifs <;> simp_all
  tauto

/-- desorption data are returned in reverse stored order, everything else unchanged -/
theorem orderedForBranch_des {β : Type} (xs : List β) : orderedForBranch "des" xs = xs.reverse := by
  simp [orderedForBranch]

theorem orderedForBranch_other {β : Type} (branch : String) (h : branch ≠ "des") (xs : List β) :
    orderedForBranch branch xs = xs := by
  simp [orderedForBranch, h]

end Select

/-! ## D. Branch guessing: a function of the pressure sequence only, split at the first maximum

`splitAds : List α → List Nat` takes the pressures and nothing else, so by its type the marks cannot depend on
row labels, index dtypes or any other column (the Python reads the pressure column positionally). -/

section Split
variable {α : Type} [Field α] [LinearOrder α]

theorem splitAds_length (ps : List α) : (splitAds ps).length = ps.length := by
  unfold splitAds
  simp only []
  split_ifs <;> simp

/-- `firstMaxIdx` is the position of the first maximum: in range, its element dominates every element and strictly
dominates every earlier one -/
theorem firstMaxIdx_spec (ps : List α) (hne : ps ≠ []) :
    ∃ hm : firstMaxIdx ps < ps.length,
      (∀ j (hj : j < ps.length), ps[j] ≤ ps[firstMaxIdx ps]) ∧
      (∀ j (hj : j < firstMaxIdx ps), ps[j]'(hj.trans hm) < ps[firstMaxIdx ps]) := by
  induction ps with
  | nil => exact absurd rfl hne
  | cons x t ih =>
    cases t with
    | nil =>
      refine ⟨by simp [firstMaxIdx], ?_, ?_⟩
      · intro j hj
        simp only [List.length_singleton, Nat.lt_one_iff] at hj
        subst hj; simp [firstMaxIdx]
      · intro j hj; simp [firstMaxIdx] at hj
    | cons y t =>
      obtain ⟨hm, hmax, hfirst⟩ := ih (by simp)
      have hget : (y :: t).getD (firstMaxIdx (y :: t)) y = (y :: t)[firstMaxIdx (y :: t)] := by
        rw [List.getD_eq_getElem?_getD, List.getElem?_eq_getElem hm, Option.getD_some]
      by_cases hle : (y :: t)[firstMaxIdx (y :: t)] ≤ x
      · have h0 : firstMaxIdx (x :: y :: t) = 0 := by
          simp only [firstMaxIdx, hget, hle, if_true]
        refine ⟨by rw [h0]; simp, ?_, ?_⟩
        · intro j hj
          simp only [h0, List.getElem_cons_zero]
          cases j with
          | zero => simp
          | succ j =>
            simp only [List.getElem_cons_succ]
            exact (hmax j (by simpa using hj)).trans hle
        · intro j hj; rw [h0] at hj; exact absurd hj (Nat.not_lt_zero _)
      · have h1 : firstMaxIdx (x :: y :: t) = firstMaxIdx (y :: t) + 1 := by
          simp only [firstMaxIdx, hget, hle, if_false]
        have hlt : x < (y :: t)[firstMaxIdx (y :: t)] := lt_of_not_ge hle
        refine ⟨by rw [h1]; simpa using hm, ?_, ?_⟩
        · intro j hj
          simp only [h1, List.getElem_cons_succ]
          cases j with
          | zero => simpa using hlt.le
          | succ j =>
            simp only [List.getElem_cons_succ]
            exact hmax j (by simpa using hj)
        · intro j hj
          simp only [h1, List.getElem_cons_succ]
          cases j with
          | zero => simpa using hlt
          | succ j =>
            simp only [List.getElem_cons_succ]
            exact hfirst j (by rw [h1] at hj; omega)

/-- the marks: with `m` the position of the first pressure maximum —
* the maximum is the last point: everything is adsorption (0);
* the maximum is the first point (and there is more than one point): everything is desorption (1);
* otherwise points up to and including the maximum are adsorption, the rest desorption. -/
theorem splitAds_spec (ps : List α) :
    (firstMaxIdx ps + 1 = ps.length → splitAds ps = List.replicate ps.length 0) ∧
    (firstMaxIdx ps = 0 → ps.length ≠ 1 → splitAds ps = List.replicate ps.length 1) ∧
    (firstMaxIdx ps + 1 ≠ ps.length → firstMaxIdx ps ≠ 0 →
      ∀ i (hi : i < ps.length),
        (splitAds ps)[i]'(by rw [splitAds_length]; exact hi) = if i ≤ firstMaxIdx ps then 0 else 1) := by
  refine ⟨?_, ?_, ?_⟩
  · intro h; simp [splitAds, h]
  · intro h0 h1
    have : ¬ (1 = ps.length) := fun h => h1 h.symm
    simp [splitAds, h0, this]
  · intro h1 h0 i hi
    simp only [splitAds, h1, if_false, Nat.add_eq_right, h0, List.getElem_map, List.getElem_range]
    by_cases h : i ≤ firstMaxIdx ps
    · rw [if_pos h, if_neg (by omega)]
    · rw [if_neg h, if_pos (by omega)]

/-! non-vacuity of D on concrete sequences -/
example : splitAds ([1, 2, 3, 2, 1] : List ℚ) = [0, 0, 0, 1, 1] := by decide +kernel
example : splitAds ([5, 4, 3] : List ℚ) = [1, 1, 1] := by decide +kernel
example : splitAds ([1, 2, 3] : List ℚ) = [0, 0, 0] := by decide +kernel
/-- a repeated maximum splits at its FIRST occurrence -/
example : splitAds ([1, 3, 3, 1] : List ℚ) = [0, 0, 1, 1] := by decide +kernel
example : firstMaxIdx ([1, 2, 3, 2, 1] : List ℚ) = 2 := by decide +kernel

end Split

/-! ## E. Interpolation laws (`interpLin`, strictly increasing knots) -/

section Interp
variable {α : Type} [Field α] [LinearOrder α]

/-- at a measured pressure the interpolated value is the measured loading -/
theorem interpLin_at_knot (ps ls : List α) (hs : ps.Pairwise (· < ·)) (hl : ps.length = ls.length)
    (i : Nat) (hi : i < ps.length) : interpLin ps ls ps[i] = some (ls[i]'(hl ▸ hi)) := by
  induction ps generalizing ls i with
  | nil => simp at hi
  | cons p0 pt ih =>
    cases ls with
    | nil => simp at hl
    | cons l0 lt =>
      cases pt with
      | nil =>
        cases lt with
        | nil =>
          have : i = 0 := by simpa using hi
          subst this; simp [interpLin]
        | cons _ _ => simp at hl
      | cons p1 pt =>
        cases lt with
        | nil => simp at hl
        | cons l1 lt =>
          have h01 : p0 < p1 := by
            have := (List.pairwise_cons.mp hs).1 p1 (by simp); exact this
          have hs' : (p1 :: pt).Pairwise (· < ·) := (List.pairwise_cons.mp hs).2
          have hne : p1 - p0 ≠ 0 := sub_ne_zero.mpr h01.ne'
          cases i with
          | zero =>
            simp only [List.getElem_cons_zero, interpLin, lt_irrefl, if_false, h01.le, if_true, sub_self,
              mul_zero, add_zero]
          | succ i =>
            simp only [List.getElem_cons_succ]
            have hi' : i < (p1 :: pt).length := by simpa using hi
            have hgt : p0 < (p1 :: pt)[i] := (List.pairwise_cons.mp hs).1 _ (List.getElem_mem hi')
            rw [interpLin, if_neg (not_lt.mpr hgt.le)]
            by_cases hle : (p1 :: pt)[i] ≤ p1
            · rw [if_pos hle]
              have hi0 : i = 0 := by
                by_contra hne0
                obtain ⟨k, rfl⟩ := Nat.exists_eq_succ_of_ne_zero hne0
                have : p1 < (p1 :: pt)[k + 1] := by
                  simp only [List.getElem_cons_succ]
                  exact (List.pairwise_cons.mp hs').1 _ (List.getElem_mem _)
                exact absurd hle (not_le.mpr this)
              subst hi0
              simp only [List.getElem_cons_zero]
              congr 1
              field_simp
              ring
            · rw [if_neg hle]
              exact ih (l1 :: lt) hs' (by simpa using hl) i hi'

lemma interpLin_between_strict (ps ls : List α) (hs : ps.Pairwise (· < ·)) (hl : ps.length = ls.length)
    (i : Nat) (hi : i + 1 < ps.length) (x : α) (h1 : ps[i] < x) (h2 : x ≤ ps[i + 1]) :
    interpLin ps ls x =
      some (ls[i]'(by omega) + (ls[i + 1]'(hl ▸ hi) - ls[i]'(by omega)) / (ps[i + 1] - ps[i]) * (x - ps[i])) := by
  induction ps generalizing ls i with
  | nil => simp at hi
  | cons p0 pt ih =>
    cases pt with
    | nil => simp at hi
    | cons p1 pt =>
      cases ls with
      | nil => simp at hl
      | cons l0 lt =>
        cases lt with
        | nil => simp at hl
        | cons l1 lt =>
          have h01 : p0 < p1 := (List.pairwise_cons.mp hs).1 p1 (by simp)
          have hs' : (p1 :: pt).Pairwise (· < ·) := (List.pairwise_cons.mp hs).2
          cases i with
          | zero =>
            simp only [List.getElem_cons_zero, List.getElem_cons_succ, zero_add] at h1 h2 ⊢
            rw [interpLin, if_neg (not_lt.mpr h1.le), if_pos h2]
          | succ i =>
            simp only [List.getElem_cons_succ] at h1 h2 ⊢
            have hi' : i + 1 < (p1 :: pt).length := by simpa using hi
            have hp1 : p1 ≤ (p1 :: pt)[i] := by
              cases i with
              | zero => simp
              | succ k =>
                simp only [List.getElem_cons_succ]
                exact ((List.pairwise_cons.mp hs').1 _ (List.getElem_mem _)).le
            have hx1 : p1 < x := lt_of_le_of_lt hp1 h1
            rw [interpLin, if_neg (not_lt.mpr (h01.trans hx1).le), if_neg (not_le.mpr hx1)]
            exact ih (l1 :: lt) hs' (by simpa using hl) i hi' h1 h2

/-- between two neighbouring measured pressures the value lies on the straight line through the two points -/
theorem interpLin_between (ps ls : List α) (hs : ps.Pairwise (· < ·)) (hl : ps.length = ls.length)
    (i : Nat) (hi : i + 1 < ps.length) (x : α) (h1 : ps[i] ≤ x) (h2 : x ≤ ps[i + 1]) :
    interpLin ps ls x =
      some (ls[i]'(by omega) + (ls[i + 1]'(hl ▸ hi) - ls[i]'(by omega)) / (ps[i + 1] - ps[i]) * (x - ps[i])) := by
  rcases eq_or_lt_of_le h1 with h | h
  · subst h
    rw [interpLin_at_knot ps ls hs hl i (by omega)]
    simp
  · exact interpLin_between_strict ps ls hs hl i hi x h h2

/-- ... and therefore between the two neighbouring loadings (a convex combination) -/
theorem interpLin_between_bounds [IsStrictOrderedRing α] (ps ls : List α) (hs : ps.Pairwise (· < ·))
    (hl : ps.length = ls.length) (i : Nat) (hi : i + 1 < ps.length) (x : α) (h1 : ps[i] ≤ x) (h2 : x ≤ ps[i + 1]) :
    ∃ y, interpLin ps ls x = some y ∧
      min (ls[i]'(by omega)) (ls[i + 1]'(hl ▸ hi)) ≤ y ∧ y ≤ max (ls[i]'(by omega)) (ls[i + 1]'(hl ▸ hi)) := by
  refine ⟨_, interpLin_between ps ls hs hl i hi x h1 h2, ?_⟩
  have hlt : ps[i] < ps[i + 1] := List.pairwise_iff_getElem.mp hs i (i + 1) (by omega) hi (by omega)
  have hd : 0 < ps[i + 1] - ps[i] := sub_pos.mpr hlt
  set a := ls[i]'(by omega)
  set b := ls[i + 1]'(hl ▸ hi)
  set t := (x - ps[i]) / (ps[i + 1] - ps[i]) with ht
  have ht0 : 0 ≤ t := div_nonneg (sub_nonneg.mpr h1) hd.le
  have ht1 : t ≤ 1 := by rw [ht, div_le_one hd]; linarith
  have e : a + (b - a) / (ps[i + 1] - ps[i]) * (x - ps[i]) = a + (b - a) * t := by
    rw [ht]; field_simp
  rw [e]
  rcases le_total a b with hab | hab
  · rw [min_eq_left hab, max_eq_right hab]
    constructor <;> nlinarith
  · rw [min_eq_right hab, max_eq_left hab]
    constructor <;> nlinarith

/-- a pressure below the first or above the last measured pressure is refused (no fill rule in the model) -/
theorem interpLin_outside (ps ls : List α) (hs : ps.Pairwise (· < ·)) (hne : ps ≠ []) (x : α)
    (h : x < ps.head hne ∨ ps.getLast hne < x) : interpLin ps ls x = none := by
  induction ps generalizing ls with
  | nil => exact absurd rfl hne
  | cons p0 pt ih =>
    cases pt with
    | nil =>
      cases ls with
      | nil => rfl
      | cons l0 lt =>
        cases lt with
        | nil =>
          have : x ≠ p0 := by
            rcases h with h | h
            · exact ne_of_lt (by simpa using h)
            · exact ne_of_gt (by simpa using h)
          simp [interpLin, this]
        | cons _ _ => rfl
    | cons p1 pt =>
      cases ls with
      | nil => rfl
      | cons l0 lt =>
        cases lt with
        | nil => rfl
        | cons l1 lt =>
          have h01 : p0 < p1 := (List.pairwise_cons.mp hs).1 p1 (by simp)
          have hs' : (p1 :: pt).Pairwise (· < ·) := (List.pairwise_cons.mp hs).2
          rcases h with h | h
          · have : x < p0 := by simpa using h
            rw [interpLin, if_pos this]
          · have hlast : (p1 :: pt).getLast (by simp) < x := by simpa using h
            have hp1 : p1 ≤ (p1 :: pt).getLast (by simp) := by
              rcases List.mem_cons.mp (List.getLast_mem (l := p1 :: pt) (by simp)) with h' | h'
              · rw [h']
              · exact ((List.pairwise_cons.mp hs').1 _ h').le
            have hx1 : p1 < x := lt_of_le_of_lt hp1 hlast
            rw [interpLin, if_neg (not_lt.mpr (h01.trans hx1).le), if_neg (not_le.mpr hx1)]
            exact ih (l1 :: lt) hs' (by simp) (Or.inr hlast)

/-! non-vacuity of E -/
example : interpLin ([1, 2, 4] : List ℚ) [10, 20, 60] 3 = some 40 := by decide +kernel
example : interpLin ([1, 2, 4] : List ℚ) [10, 20, 60] 2 = some 20 := by decide +kernel
example : interpLin ([1, 2, 4] : List ℚ) [10, 20, 60] 5 = none := by decide +kernel
example : interpLin ([1, 2, 4] : List ℚ) [10, 20, 60] (1 / 2) = none := by decide +kernel

end Interp

/-! ## B. Accessor = read ∘ permanent conversion -/

section Access
open PgVerif.Units
variable {α : Type} [Field α] [CharZero α]

lemma orDefault_mode (a : Option String) (cur : String) : orDefault a (some cur) = some (orCurrent a cur) := by
  cases a with
  | none => rfl
  | some s => by_cases h : s = "" <;> simp [orDefault, orCurrent, truthy, h]

lemma orDefault_of_truthy {a cur : Option String} (h : truthy a = true) : orDefault a cur = a := by
  simp [orDefault, h]

lemma orDefault_of_falsy {a cur : Option String} (h : truthy a = false) : orDefault a cur = cur := by
  simp [orDefault, h]

lemma checkUnit_falsy (t : List (String × Nat × Nat)) (u : Option String) (h : truthy u = false) :
    (checkUnit t u : Except Err α) = .error .param := by
  cases u with
  | none => rfl
  | some s => simp [truthy] at h; subst h; rfl

lemma checkBasis_ok_fst {modes : List (String × Option String)} {a : String} {x : String × Option String}
    (h : checkBasis modes (some a) = .ok x) : x.1 = a := by
  unfold checkBasis at h
  simp only at h
  split_ifs at h
  split at h <;> simp at h
  rw [← h]

lemma pmode_cases {m : String} (h : (pressureMode.lookup m).isSome) :
    m = "absolute" ∨ m = "relative" ∨ m = "relative%" := by
  by_contra hc
  simp only [not_or] at hc
  obtain ⟨h1, h2, h3⟩ := hc
  have b1 : (m == "absolute") = false := by simpa using h1
  have b2 : (m == "relative") = false := by simpa using h2
  have b3 : (m == "relative%") = false := by simpa using h3
  simp [pressureMode, List.lookup_cons, b1, b2, b3] at h

/-- the part of the constructor's label validation (`BaseIsotherm.__init__`) that concerns pressure:
a supported mode; a supported unit when absolute; no unit when relative (the constructor forces `None`,
`convertPressure` keeps it so) -/
structure PLabelsOk (lab : Labels) : Prop where
  mode : (pressureMode.lookup lab.pmode).isSome = true
  unit_abs : lab.pmode = "absolute" → ∃ u, lab.punit = some u ∧ (pressureUnits.lookup u).isSome = true
  unit_rel : lab.pmode ≠ "absolute" → truthy lab.punit = false

lemma lookup_ne_empty {u : String} (h : (pressureUnits.lookup u).isSome = true) : u ≠ "" := by
  rintro rfl; revert h; decide

/-- converting to the representation the data are already in is the identity -/
lemma cPressure_same (psat : Option α) (t : Bool) (v : α) (lab : Labels) (h : PLabelsOk lab) :
    cPressure psat t v (some lab.pmode) (some lab.pmode) lab.punit lab.punit = .ok v := by
  rcases pmode_cases h.mode with hm | hm | hm
  · obtain ⟨u, hu, hl⟩ := h.unit_abs hm
    have hu0 := lookup_ne_empty hl
    obtain ⟨e, he⟩ := Option.isSome_iff_exists.mp hl
    have hf : (facOf pressureUnits u : Option α) = some ((e.1 : α) / (e.2 : α)) := by simp [facOf, he]
    have hn := facOf_ne_zero _ pressure_ok _ _ hf
    rw [hm, hu]
    simp [cPressure, checkBasis, pressureMode, List.lookup, bind, Except.bind, pure, Except.pure, truthy, hu0,
      cUnit_ok pressureUnits v u u _ _ 1 hu0 hu0 hf hf, div_self hn]
  · rw [hm]
    simp [cPressure, checkBasis, pressureMode, List.lookup, bind, Except.bind, pure, Except.pure]
  · rw [hm]
    simp [cPressure, checkBasis, pressureMode, List.lookup, bind, Except.bind, pure, Except.pure]

/-- the target unit matters only when the target mode is absolute -/
lemma cPressure_ut_irrel (psat : Option α) (t : Bool) (v : α) (a b : String) (uf ut1 ut2 : Option String)
    (hab : a ≠ b) (h : b = "absolute" → truthy ut1 = false ∧ truthy ut2 = false) :
    cPressure psat t v (some a) (some b) uf ut1 = cPressure psat t v (some a) (some b) uf ut2 := by
  unfold cPressure
  cases ha : checkBasis pressureMode (some a) with
  | error e => rfl
  | ok x =>
  cases hb : checkBasis pressureMode (some b) with
  | error e => rfl
  | ok y =>
  have hx := checkBasis_ok_fst ha
  have hy := checkBasis_ok_fst hb
  obtain ⟨x1, x2⟩ := x
  obtain ⟨y1, y2⟩ := y
  simp only at hx hy
  subst hx; subst hy
  simp only [bind, Except.bind, pure, Except.pure, ne_eq, hab, not_false_eq_true, if_true]
  by_cases hb1 : y1 = "absolute"
  · obtain ⟨h1, h2⟩ := h hb1
    simp [hb1, checkUnit_falsy _ _ h1, checkUnit_falsy _ _ h2]
  · by_cases ha1 : x1 = "absolute"
    · simp [hb1, ha1]
    · simp [hb1, ha1]

lemma map_mul_one' (l : List α) : l.map (· * (1 : α)) = l := by simp

/-- the single factor both sides are built from: `c_pressure(1, stored → requested)` -/
def pFactor (c : Ctx α) (lab : Labels) (pm pu : Option String) : Except Err α :=
  cPressure c.psat c.tempOk (1 : α) (some lab.pmode) (some (orCurrent pm lab.pmode)) lab.punit (orDefault pu lab.punit)

lemma accessPressure_eq_factor (c : Ctx α) (lab : Labels) (v : α) (pm pu : Option String)
    (harg : truthy pm = true ∨ truthy pu = true) :
    accessPressure c lab v pm pu =
      match pFactor c lab pm pu with
      | .ok f => .ok (v * f)
      | .error _ => .error .calc := by
  have : (truthy pm || truthy pu) = true := by simpa using harg
  unfold accessPressure pFactor
  rw [if_pos this, orDefault_mode, cPressure_linear]
  cases cPressure c.psat c.tempOk (1 : α) (some lab.pmode) (some (orCurrent pm lab.pmode)) lab.punit
    (orDefault pu lab.punit) <;> rfl

/-- `unit_to` after the defaulting rule of the `convert_*` methods -/
def unitArg (u : Option String) (same : Bool) (cur : Option String) : Option String :=
  if !truthy u && same then cur else u

lemma unitArg_truthy {u : Option String} (h : truthy u = true) (same : Bool) (cur : Option String) :
    unitArg u same cur = u := by simp [unitArg, h]

lemma unitArg_falsy_same {u : Option String} (h : truthy u = false) (cur : Option String) :
    unitArg u true cur = cur := by simp [unitArg, h]

lemma unitArg_diff (u : Option String) (cur : Option String) : unitArg u false cur = u := by simp [unitArg]

def pCore (c : Ctx α) (s : Iso α) (mode' : String) (unit' : Option String) : Iso α × Outcome :=
  if mode' = s.lab.pmode ∧ unit' = s.lab.punit then (s, .ok)
  else
    match cPressure c.psat c.tempOk (1 : α) (some s.lab.pmode) (some mode') s.lab.punit unit' with
    | .error _ => (s, .err .calc)
    | .ok f =>
      let pu := if unit' ≠ s.lab.punit ∧ mode' = "absolute" then unit' else none
      ({ s with ps := s.ps.map (· * f), lab := { s.lab with pmode := mode', punit := pu }, lcache := false, pcache := false }, .ok)

lemma convertPressure_core (c : Ctx α) (s : Iso α) (m u : Option String) :
    convertPressure c s m u =
      pCore c s (orCurrent m s.lab.pmode) (unitArg u (decide (orCurrent m s.lab.pmode = s.lab.pmode)) s.lab.punit) := rfl

lemma pCore_spec (c : Ctx α) (s : Iso α) (mode' : String) (unit' : Option String)
    (r : Except Err α)
    (hsame : mode' = s.lab.pmode → unit' = s.lab.punit → r = .ok 1)
    (hdiff : ¬ (mode' = s.lab.pmode ∧ unit' = s.lab.punit) →
      r = cPressure c.psat c.tempOk (1 : α) (some s.lab.pmode) (some mode') s.lab.punit unit') :
    (∀ f, r = .ok f → (pCore c s mode' unit').2 = .ok ∧ (pCore c s mode' unit').1.ps = s.ps.map (· * f)) ∧
    (∀ e, r = .error e → pCore c s mode' unit' = (s, .err .calc)) := by
  unfold pCore
  by_cases h : mode' = s.lab.pmode ∧ unit' = s.lab.punit
  · rw [if_pos h, hsame h.1 h.2]
    refine ⟨fun f hf => ?_, fun e he => by cases he⟩
    cases hf; exact ⟨rfl, (map_mul_one' _).symm⟩
  · rw [if_neg h, ← hdiff h]
    refine ⟨fun f hf => ?_, fun e he => ?_⟩
    · rw [hf]; exact ⟨rfl, rfl⟩
    · rw [he]

lemma convertPressure_eq_factor (c : Ctx α) (s : Iso α) (pm pu : Option String) (hlab : PLabelsOk s.lab) :
    (∀ f, pFactor c s.lab pm pu = .ok f →
      (convertPressure c s pm pu).2 = .ok ∧ (convertPressure c s pm pu).1.ps = s.ps.map (· * f)) ∧
    (∀ e, pFactor c s.lab pm pu = .error e → convertPressure c s pm pu = (s, .err .calc)) := by
  rw [convertPressure_core]
  apply pCore_spec
  · intro hm hu
    unfold pFactor
    rw [hm]
    have : orDefault pu s.lab.punit = s.lab.punit := by
      by_cases ht : truthy pu = true
      · rw [orDefault_of_truthy ht]; rw [unitArg_truthy ht] at hu; exact hu
      · exact orDefault_of_falsy (by simpa using ht)
    rw [this]
    exact cPressure_same _ _ _ _ hlab
  · intro hne
    unfold pFactor
    by_cases ht : truthy pu = true
    · rw [orDefault_of_truthy ht, unitArg_truthy ht]
    · have ht' : truthy pu = false := by simpa using ht
      rw [orDefault_of_falsy ht']
      by_cases hm : orCurrent pm s.lab.pmode = s.lab.pmode
      · simp only [hm, decide_true, unitArg_falsy_same ht']
      · have hdec : decide (orCurrent pm s.lab.pmode = s.lab.pmode) = false := by simpa using hm
        rw [hdec, unitArg_diff]
        have hne' : s.lab.pmode ≠ orCurrent pm s.lab.pmode := fun h => hm h.symm
        apply cPressure_ut_irrel _ _ _ _ _ _ _ _ hne'
        intro habs
        exact ⟨hlab.unit_rel (fun h => hne' (h.trans habs.symm)), ht'⟩

/-- **accessor = read ∘ permanent conversion (pressure)**, for ALL argument strings, on a state whose pressure
labels passed the constructor's validation:
* if the permanent conversion succeeds, it multiplied the pressure column by one factor `f` (`f = 1` on the
  early-return path "same representation") and the accessor returns `v * f` for every stored value `v`;
* if the accessor is refused it is with a `CalculationError`, and the permanent conversion is refused with the same class;
* conversely a refused permanent conversion means a refused accessor. -/
theorem accessPressure_eq_convert (c : Ctx α) (s : Iso α) (pm pu : Option String)
    (harg : truthy pm = true ∨ truthy pu = true) (hlab : PLabelsOk s.lab) :
    (∀ s', convertPressure c s pm pu = (s', .ok) →
      ∃ f, s'.ps = s.ps.map (· * f) ∧ ∀ v, accessPressure c s.lab v pm pu = .ok (v * f)) ∧
    (∀ v e, accessPressure c s.lab v pm pu = .error e →
      e = .calc ∧ convertPressure c s pm pu = (s, .err .calc)) ∧
    (∀ s' e, convertPressure c s pm pu = (s', .err e) →
      e = .calc ∧ s' = s ∧ ∀ v, accessPressure c s.lab v pm pu = .error .calc) := by
  obtain ⟨hok, herr⟩ := convertPressure_eq_factor c s pm pu hlab
  cases hr : pFactor c s.lab pm pu with
  | ok f =>
    obtain ⟨h2, hps⟩ := hok f hr
    refine ⟨fun s' hs' => ⟨f, ?_, fun v => ?_⟩, fun v e he => ?_, fun s' e hs' => ?_⟩
    · rw [hs'] at hps; exact hps
    · rw [accessPressure_eq_factor c s.lab v pm pu harg, hr]
    · rw [accessPressure_eq_factor c s.lab v pm pu harg, hr] at he; cases he
    · rw [hs'] at h2; cases h2
  | error e0 =>
    have hc := herr e0 hr
    refine ⟨fun s' hs' => ?_, fun v e he => ?_, fun s' e hs' => ?_⟩
    · rw [hc] at hs'; cases hs'
    · rw [accessPressure_eq_factor c s.lab v pm pu harg, hr] at he
      cases he; exact ⟨rfl, hc⟩
    · rw [hc] at hs'; cases hs'
      exact ⟨rfl, rfl, fun v => by rw [accessPressure_eq_factor c s.lab v pm pu harg, hr]⟩

/-! ### loading -/

def lCore (c : Ctx α) (s : Iso α) (basis' : String) (unit' : Option String) : Iso α × Outcome :=
  if basis' = s.lab.lbasis ∧ unit' = s.lab.lunit then (s, .ok)
  else if isFrac s.lab.lbasis && basis' = s.lab.lbasis then (s, .ok)
  else
    match cLoading c.env (1 : α) (some s.lab.lbasis) (some basis') s.lab.lunit unit' (some s.lab.mbasis) s.lab.munit with
    | .error e => (s, .err e)
    | .ok f =>
      let lu := if isFrac basis' then none else unit'
      ({ s with ls := s.ls.map (· * f), lab := { s.lab with lbasis := basis', lunit := lu }, lcache := false, pcache := false }, .ok)

lemma convertLoading_core (c : Ctx α) (s : Iso α) (b u : Option String) :
    convertLoading c s b u =
      lCore c s (orCurrent b s.lab.lbasis) (unitArg u (decide (orCurrent b s.lab.lbasis = s.lab.lbasis)) s.lab.lunit) := rfl

/-- material step on a state with a physical loading basis -/
def mCore (c : Ctx α) (s : Iso α) (basis' : String) (unit' : Option String) : Iso α × Outcome :=
  if basis' = s.lab.mbasis ∧ unit' = s.lab.munit then (s, .ok)
  else if isFrac s.lab.lbasis && basis' = s.lab.mbasis then
    match cMaterial c.env (1 : α) (some s.lab.mbasis) (some basis') s.lab.munit unit' with
    | .error e => (s, .err e)
    | .ok _ => ({ s with lab := { s.lab with munit := unit' } }, .ok)
  else
    match cMaterial c.env (1 : α) (some s.lab.mbasis) (some basis') s.lab.munit unit' with
    | .error e => (s, .err e)
    | .ok f1 =>
      let r2 : Except Err α :=
        if isFrac s.lab.lbasis then
          cLoading c.env (1 : α) (some (volLiq s.lab.mbasis)) (some (volLiq basis')) s.lab.munit unit' none none
        else .ok 1
      match r2 with
      | .error e => (s, .err e)
      | .ok f2 =>
        ({ s with ls := s.ls.map (· * f1 * f2), lab := { s.lab with mbasis := basis', munit := unit' },
                  lcache := false, pcache := false }, .ok)

lemma convertMaterial_core (c : Ctx α) (s : Iso α) (b u : Option String) :
    convertMaterial c s b u =
      mCore c s (orCurrent b s.lab.mbasis) (unitArg u (decide (orCurrent b s.lab.mbasis = s.lab.mbasis)) s.lab.munit) := rfl

lemma lCore_spec (c : Ctx α) (s : Iso α) (basis' : String) (unit' : Option String) (r : Except Err α)
    (hsame : (basis' = s.lab.lbasis ∧ unit' = s.lab.lunit) ∨ (isFrac s.lab.lbasis = true ∧ basis' = s.lab.lbasis) → r = .ok 1)
    (hdiff : ¬ (basis' = s.lab.lbasis ∧ unit' = s.lab.lunit) → ¬ (isFrac s.lab.lbasis = true ∧ basis' = s.lab.lbasis) →
      r = cLoading c.env (1 : α) (some s.lab.lbasis) (some basis') s.lab.lunit unit' (some s.lab.mbasis) s.lab.munit) :
    (∀ f, r = .ok f → (lCore c s basis' unit').2 = .ok ∧ (lCore c s basis' unit').1.ls = s.ls.map (· * f)) ∧
    (∀ e, r = .error e → lCore c s basis' unit' = (s, .err e)) := by
  unfold lCore
  by_cases h : basis' = s.lab.lbasis ∧ unit' = s.lab.lunit
  · rw [if_pos h, hsame (Or.inl h)]
    refine ⟨fun f hf => ?_, fun e he => by cases he⟩
    cases hf; exact ⟨rfl, (map_mul_one' _).symm⟩
  · rw [if_neg h]
    by_cases h2 : isFrac s.lab.lbasis = true ∧ basis' = s.lab.lbasis
    · have : (isFrac s.lab.lbasis && decide (basis' = s.lab.lbasis)) = true := by simp [h2.1, h2.2]
      rw [if_pos this, hsame (Or.inr h2)]
      refine ⟨fun f hf => ?_, fun e he => by cases he⟩
      cases hf; exact ⟨rfl, (map_mul_one' _).symm⟩
    · have : ¬ (isFrac s.lab.lbasis && decide (basis' = s.lab.lbasis)) = true := by simpa using h2
      rw [if_neg this, ← hdiff h h2]
      refine ⟨fun f hf => ?_, fun e he => ?_⟩
      · rw [hf]; exact ⟨rfl, rfl⟩
      · rw [he]

lemma mCore_spec (c : Ctx α) (s : Iso α) (hF : isFrac s.lab.lbasis = false) (basis' : String) (unit' : Option String)
    (r : Except Err α)
    (hsame : basis' = s.lab.mbasis → unit' = s.lab.munit → r = .ok 1)
    (hdiff : ¬ (basis' = s.lab.mbasis ∧ unit' = s.lab.munit) →
      r = cMaterial c.env (1 : α) (some s.lab.mbasis) (some basis') s.lab.munit unit') :
    (∀ f, r = .ok f → ∃ s2, mCore c s basis' unit' = (s2, .ok) ∧ s2.ls = s.ls.map (· * f) ∧
        s2.lab = { s.lab with mbasis := basis', munit := unit' }) ∧
    (∀ e, r = .error e → mCore c s basis' unit' = (s, .err e)) := by
  unfold mCore
  by_cases h : basis' = s.lab.mbasis ∧ unit' = s.lab.munit
  · rw [if_pos h, hsame h.1 h.2]
    refine ⟨fun f hf => ?_, fun e he => by cases he⟩
    cases hf
    obtain ⟨h1, h2⟩ := h
    subst h1; subst h2
    exact ⟨s, rfl, (map_mul_one' _).symm, rfl⟩
  · rw [if_neg h, ← hdiff h]
    simp only [hF, Bool.false_and, Bool.false_eq_true, if_false]
    refine ⟨fun f hf => ?_, fun e he => ?_⟩
    · rw [hf]
      simp only [mul_one]
      exact ⟨_, rfl, rfl, rfl⟩
    · rw [he]

lemma checkBasis_of_lookup {modes : List (String × Option String)} {b : String}
    (h : (modes.lookup b).isSome = true) (hb : b ≠ "") : ∃ t, checkBasis modes (some b) = .ok (b, t) := by
  obtain ⟨t, ht⟩ := Option.isSome_iff_exists.mp h
  exact ⟨t, by simp [checkBasis, hb, ht]⟩

lemma mbasis_ne_empty {b : String} (h : (materialMode.lookup b).isSome = true) : b ≠ "" := by
  rintro rfl; revert h; decide

lemma lbasis_ne_empty {b : String} (h : (loadingMode.lookup b).isSome = true) : b ≠ "" := by
  rintro rfl; revert h; decide

/-- same material basis, and no unit or the same unit requested: identity -/
lemma cMaterial_same (env : Env α) (v : α) (b : String) (uf ut : Option String)
    (hb : (materialMode.lookup b).isSome = true) (hu : truthy ut = false ∨ uf = ut) :
    cMaterial env v (some b) (some b) uf ut = .ok v := by
  obtain ⟨t, ht⟩ := checkBasis_of_lookup hb (mbasis_ne_empty hb)
  unfold cMaterial
  rcases hu with hu | hu <;> simp [ht, hu, bind, Except.bind, pure, Except.pure]

/-- same loading basis, and no unit or the same unit requested: identity -/
lemma cLoading_same (env : Env α) (v : α) (b : String) (uf ut bm um : Option String)
    (hb : (loadingMode.lookup b).isSome = true) (hu : truthy ut = false ∨ uf = ut) :
    cLoading env v (some b) (some b) uf ut bm um = .ok v := by
  obtain ⟨t, ht⟩ := checkBasis_of_lookup hb (lbasis_ne_empty hb)
  unfold cLoading
  rcases hu with hu | hu <;> simp [ht, hu, bind, Except.bind, pure, Except.pure]

/-- a change of material basis without a unit is refused -/
lemma cMaterial_diff_needs_unit (env : Env α) (v : α) (a b : String) (uf ut : Option String) (hab : a ≠ b)
    (hu : truthy ut = false) (f : α) : cMaterial env v (some a) (some b) uf ut ≠ .ok f := by
  unfold cMaterial
  cases ha : checkBasis materialMode (some a) with
  | error e => simp [bind, Except.bind]
  | ok x =>
  cases hb : checkBasis materialMode (some b) with
  | error e => simp [bind, Except.bind]
  | ok y =>
  have hx := checkBasis_ok_fst ha
  have hy := checkBasis_ok_fst hb
  obtain ⟨x1, x2⟩ := x
  obtain ⟨y1, y2⟩ := y
  simp only at hx hy
  subst hx; subst hy
  simp [bind, Except.bind, hab, checkUnit_falsy _ _ hu]

/-- the factor of the material step: `c_material(1, stored → requested)` with the unit as given -/
def mFactor (c : Ctx α) (lab : Labels) (mb mu : Option String) : Except Err α :=
  cMaterial c.env (1 : α) (some lab.mbasis) (some (orCurrent mb lab.mbasis)) lab.munit mu

/-- labels after a successful `convert_material` on a physical loading -/
def labAfterM (lab : Labels) (mb mu : Option String) : Labels :=
  { lab with mbasis := orCurrent mb lab.mbasis,
             munit := unitArg mu (decide (orCurrent mb lab.mbasis = lab.mbasis)) lab.munit }

/-- the factor of the loading step: `c_loading(1, stored → requested)` with the material of `lab` -/
def lFactor (c : Ctx α) (lab : Labels) (lb lu : Option String) : Except Err α :=
  cLoading c.env (1 : α) (some lab.lbasis) (some (orCurrent lb lab.lbasis)) lab.lunit lu (some lab.mbasis) lab.munit

lemma unitArg_eq_of_not_same {u cur : Option String} {same : Prop} [Decidable same]
    (h : ¬ (same ∧ unitArg u (decide same) cur = cur)) : unitArg u (decide same) cur = u := by
  by_cases ht : truthy u = true
  · exact unitArg_truthy ht _ _
  · have ht' : truthy u = false := by simpa using ht
    by_cases hs : same
    · exfalso; apply h; refine ⟨hs, ?_⟩
      simp only [hs, decide_true]; exact unitArg_falsy_same ht' _
    · simp only [hs, decide_false]; exact unitArg_diff _ _

lemma unitArg_same_cases {u cur : Option String} {same : Bool} (h : unitArg u same cur = cur) :
    truthy u = false ∨ cur = u := by
  by_cases ht : truthy u = true
  · right; rw [unitArg_truthy ht] at h; exact h.symm
  · left; simpa using ht

lemma convertMaterial_eq_factor (c : Ctx α) (s : Iso α) (mb mu : Option String)
    (hF : isFrac s.lab.lbasis = false) (hM : (materialMode.lookup s.lab.mbasis).isSome = true) :
    (∀ f, mFactor c s.lab mb mu = .ok f → ∃ s2, convertMaterial c s mb mu = (s2, .ok) ∧ s2.ls = s.ls.map (· * f) ∧
        s2.lab = labAfterM s.lab mb mu) ∧
    (∀ e, mFactor c s.lab mb mu = .error e → convertMaterial c s mb mu = (s, .err e)) := by
  rw [convertMaterial_core]
  apply mCore_spec c s hF
  · intro hb hu
    unfold mFactor
    rw [hb]
    exact cMaterial_same _ _ _ _ _ hM (unitArg_same_cases hu)
  · intro hne
    unfold mFactor
    rw [unitArg_eq_of_not_same hne]

lemma convertLoading_eq_factor (c : Ctx α) (s : Iso α) (lb lu : Option String)
    (hL : (loadingMode.lookup s.lab.lbasis).isSome = true)
    (hfr : isFrac s.lab.lbasis = true → orCurrent lb s.lab.lbasis = s.lab.lbasis →
      truthy lu = false ∨ s.lab.lunit = lu) :
    (∀ f, lFactor c s.lab lb lu = .ok f →
      (convertLoading c s lb lu).2 = .ok ∧ (convertLoading c s lb lu).1.ls = s.ls.map (· * f)) ∧
    (∀ e, lFactor c s.lab lb lu = .error e → convertLoading c s lb lu = (s, .err e)) := by
  rw [convertLoading_core]
  apply lCore_spec
  · rintro (⟨hb, hu⟩ | ⟨hfrac, hb⟩)
    · unfold lFactor
      rw [hb]
      exact cLoading_same _ _ _ _ _ _ _ hL (unitArg_same_cases hu)
    · unfold lFactor
      rw [hb]
      exact cLoading_same _ _ _ _ _ _ _ hL (hfr hfrac hb)
  · intro hne _
    unfold lFactor
    rw [unitArg_eq_of_not_same hne]

lemma orCurrent_falsy {a : Option String} (h : truthy a = false) (cur : String) : orCurrent a cur = cur := by
  cases a with
  | none => rfl
  | some x => simp [truthy] at h; simp [orCurrent, h]

lemma labAfterM_falsy (lab : Labels) {mb mu : Option String} (h1 : truthy mb = false) (h2 : truthy mu = false) :
    labAfterM lab mb mu = lab := by
  unfold labAfterM
  rw [orCurrent_falsy h1]
  simp only [decide_true, unitArg_falsy_same h2]

/-- the single factor of `loading(...)` / the output side of `ModelIsotherm.loading_at`:
material factor, then loading factor evaluated with the labels the material step leaves behind -/
def tFactor (c : Ctx α) (lab : Labels) (lb lu mb mu : Option String) : Except Err α :=
  (if truthy mb || truthy mu then mFactor c lab mb mu else .ok 1) >>= fun f1 =>
    (if truthy lb || truthy lu then lFactor c (labAfterM lab mb mu) lb lu else .ok 1) >>= fun f2 => .ok (f1 * f2)

lemma loadStep (c : Ctx α) (lab lab2 : Labels) (v1 : α) (lb lu bm um : Option String)
    (h1 : bm = some lab2.mbasis) (h2 : um = lab2.munit) (h3 : lab2.lbasis = lab.lbasis) (h4 : lab2.lunit = lab.lunit) :
    cLoading c.env v1 (some lab.lbasis) (orDefault lb (some lab.lbasis)) lab.lunit lu bm um =
      (lFactor c lab2 lb lu).map (fun f => v1 * f) := by
  subst h1; subst h2
  unfold lFactor
  rw [h3, h4, orDefault_mode, cLoading_linear]

/-- the accessor multiplies by `tFactor` -/
lemma accessLoadingTarget_eq_factor (c : Ctx α) (lab : Labels) (v : α) (lb lu mb mu : Option String) :
    accessLoadingTarget c lab v lb lu mb mu = (tFactor c lab lb lu mb mu).map (fun f => v * f) := by
  unfold accessLoadingTarget tFactor
  by_cases hm : (truthy mb || truthy mu) = true
  · simp only [hm, if_true]
    rw [orDefault_mode, cMaterial_linear]
    cases hf1 : cMaterial c.env (1 : α) (some lab.mbasis) (some (orCurrent mb lab.mbasis)) lab.munit mu with
    | error e => simp [mFactor, hf1, bind, Except.bind, Except.map]
    | ok f1 =>
      have hum : orDefault mu lab.munit = (labAfterM lab mb mu).munit := by
        show _ = unitArg mu _ lab.munit
        by_cases ht : truthy mu = true
        · rw [orDefault_of_truthy ht, unitArg_truthy ht]
        · have ht' : truthy mu = false := by simpa using ht
          rw [orDefault_of_falsy ht']
          by_cases hb : orCurrent mb lab.mbasis = lab.mbasis
          · simp only [hb, decide_true, unitArg_falsy_same ht']
          · exact absurd hf1 (cMaterial_diff_needs_unit _ _ _ _ _ _ (fun h => hb h.symm) ht' f1)
      by_cases hl : (truthy lb || truthy lu) = true
      · simp only [hl, if_true, mFactor, hf1, bind, Except.bind, Except.map]
        refine Eq.trans (loadStep c lab (labAfterM lab mb mu) (v * f1) lb lu _ _ rfl hum rfl rfl) ?_
        cases lFactor c (labAfterM lab mb mu) lb lu <;> simp [Except.map, pure, Except.pure, mul_assoc]
      · simp [hl, mFactor, hf1, bind, Except.bind, Except.map, pure, Except.pure]
  · have hm' : truthy mb = false ∧ truthy mu = false := by simpa using hm
    simp only [hm, if_false]
    rw [labAfterM_falsy lab hm'.1 hm'.2]
    by_cases hl : (truthy lb || truthy lu) = true
    · simp only [hl, if_true, bind, Except.bind, pure, Except.pure]
      rw [loadStep c lab lab v lb lu _ _ (by rw [orDefault_mode, orCurrent_falsy hm'.1]) (orDefault_of_falsy hm'.2) rfl rfl]
      cases lFactor c lab lb lu <;> simp [Except.map]
    · simp [hl, bind, Except.bind, Except.map, pure, Except.pure]

lemma convertAll_none (c : Ctx α) (s : Iso α) (lb lu mb mu : Option String) :
    convertAll c s none none lb lu mb mu =
      match (if truthy mb || truthy mu then convertMaterial c s mb mu else (s, .ok)) with
      | (s2, .err e) => (s2, .err e)
      | (s2, .ok) => if truthy lb || truthy lu then convertLoading c s2 lb lu else (s2, .ok) := rfl

/-- the loading step of `convert` after a material step that multiplied the loadings by `f1` -/
lemma tail_char (c : Ctx α) (s s2 : Iso α) (f1 : α) (lab2 : Labels) (lb lu : Option String)
    (hls : s2.ls = s.ls.map (· * f1)) (hlab : s2.lab = lab2)
    (hL2 : (loadingMode.lookup lab2.lbasis).isSome = true)
    (hfr2 : isFrac lab2.lbasis = true → orCurrent lb lab2.lbasis = lab2.lbasis → truthy lu = false ∨ lab2.lunit = lu) :
    (∀ f, ((if truthy lb || truthy lu then lFactor c lab2 lb lu else .ok 1) >>= fun f2 => .ok (f1 * f2)) = .ok f →
      (if truthy lb || truthy lu then convertLoading c s2 lb lu else (s2, .ok)).2 = .ok ∧
      (if truthy lb || truthy lu then convertLoading c s2 lb lu else (s2, .ok)).1.ls = s.ls.map (· * f)) ∧
    (∀ e, ((if truthy lb || truthy lu then lFactor c lab2 lb lu else .ok 1) >>= fun f2 => .ok (f1 * f2)) = .error e →
      (if truthy lb || truthy lu then convertLoading c s2 lb lu else (s2, .ok)).2 = .err e) := by
  subst hlab
  by_cases hl : (truthy lb || truthy lu) = true
  · simp only [hl, if_true]
    obtain ⟨hok, herr⟩ := convertLoading_eq_factor c s2 lb lu hL2 hfr2
    cases hf2 : lFactor c s2.lab lb lu with
    | error e2 =>
      refine ⟨fun f hf => (by cases hf), fun e he => ?_⟩
      cases he
      rw [herr e2 hf2]
    | ok f2 =>
      obtain ⟨h2, h3⟩ := hok f2 hf2
      refine ⟨fun f hf => ?_, fun e he => by cases he⟩
      cases hf
      refine ⟨h2, ?_⟩
      rw [h3, hls, List.map_map]
      apply List.map_congr_left
      intro x _
      simp [mul_assoc]
  · simp only [hl, Bool.false_eq_true, if_false]
    refine ⟨fun f hf => ?_, fun e he => by cases he⟩
    cases hf
    refine ⟨trivial, ?_⟩
    rw [hls, mul_one]

/-- complete description of `convert(loading…, material…)` by the factor `tFactor`, whenever a material change is
requested only for a physical stored loading, and a stored fraction/percent is not asked for a (meaningless) unit -/
lemma convertAll_char (c : Ctx α) (s : Iso α) (lb lu mb mu : Option String)
    (hL : (loadingMode.lookup s.lab.lbasis).isSome = true) (hM : (materialMode.lookup s.lab.mbasis).isSome = true)
    (hMF : (truthy mb || truthy mu) = true → isFrac s.lab.lbasis = false)
    (hfr : isFrac s.lab.lbasis = true → orCurrent lb s.lab.lbasis = s.lab.lbasis → truthy lu = false ∨ s.lab.lunit = lu) :
    (∀ f, tFactor c s.lab lb lu mb mu = .ok f →
      (convertAll c s none none lb lu mb mu).2 = .ok ∧ (convertAll c s none none lb lu mb mu).1.ls = s.ls.map (· * f)) ∧
    (∀ e, tFactor c s.lab lb lu mb mu = .error e → (convertAll c s none none lb lu mb mu).2 = .err e) := by
  rw [convertAll_none]
  unfold tFactor
  by_cases hm : (truthy mb || truthy mu) = true
  · have hF := hMF hm
    obtain ⟨hMok, hMerr⟩ := convertMaterial_eq_factor c s mb mu hF hM
    simp only [hm, if_true]
    cases hf1 : mFactor c s.lab mb mu with
    | error e1 =>
      rw [hMerr e1 hf1]
      refine ⟨fun f hf => (by cases hf), fun e he => ?_⟩
      cases he; rfl
    | ok f1 =>
      obtain ⟨s2, hc, hls, hlab⟩ := hMok f1 hf1
      rw [hc]
      have hF2 : isFrac (labAfterM s.lab mb mu).lbasis = false := hF
      exact tail_char c s s2 f1 (labAfterM s.lab mb mu) lb lu hls hlab hL (fun h => by rw [hF2] at h; cases h)
  · have hm' : truthy mb = false ∧ truthy mu = false := by simpa using hm
    simp only [hm, Bool.false_eq_true, if_false]
    rw [labAfterM_falsy s.lab hm'.1 hm'.2]
    have := tail_char c s s 1 s.lab lb lu (map_mul_one' _).symm rfl hL hfr
    exact this

/-- generic passage from the factor description to the three clauses -/
lemma clauses_of_char {σ : Type} (acc : α → Except Err α) (conv : σ × Outcome) (col : σ → List α) (base : List α)
    (r : Except Err α) (h1 : ∀ v, acc v = r.map (fun f => v * f))
    (h2 : ∀ f, r = .ok f → conv.2 = .ok ∧ col conv.1 = base.map (· * f))
    (h3 : ∀ e, r = .error e → conv.2 = .err e) :
    (∀ s', conv = (s', .ok) → ∃ f, col s' = base.map (· * f) ∧ ∀ v, acc v = .ok (v * f)) ∧
    (∀ v e, acc v = .error e → conv.2 = .err e) ∧
    (∀ s' e, conv = (s', .err e) → ∀ v, acc v = .error e) := by
  cases hr : r with
  | ok f =>
    obtain ⟨h2a, h2b⟩ := h2 f hr
    refine ⟨fun s' hs' => ⟨f, ?_, fun v => ?_⟩, fun v e he => ?_, fun s' e hs' => ?_⟩
    · rw [hs'] at h2b; exact h2b
    · rw [h1, hr]; rfl
    · rw [h1, hr] at he; cases he
    · rw [hs'] at h2a; cases h2a
  | error e0 =>
    have h3' := h3 e0 hr
    refine ⟨fun s' hs' => ?_, fun v e he => ?_, fun s' e hs' => ?_⟩
    · rw [hs'] at h3'; cases h3'
    · rw [h1, hr] at he; cases he; exact h3'
    · rw [hs'] at h3'; cases h3'
      intro v; rw [h1, hr]; rfl

/-- **accessor = read ∘ permanent conversion (loading, physical stored basis)**, for ALL argument strings:
`loading(loading_basis, loading_unit, material_basis, material_unit)` (and the output side of
`ModelIsotherm.loading_at`) against `convert(loading_basis=…, loading_unit=…, material_basis=…, material_unit=…)`
(material step, then loading step) on a state whose stored loading basis is physical:
* if the permanent conversion succeeds it multiplied the loading column by one factor `f`, and the accessor returns
  `v * f` for every stored value `v`;
* if the accessor is refused, the permanent conversion is refused with the SAME error class;
* conversely a refused permanent conversion means the accessor is refused with the same class.
No condition on the argument shape is needed (omitted units, explicitly repeated current basis, … all agree);
the label hypotheses are the constructor's validation. -/
theorem accessLoadingTarget_eq_convert (c : Ctx α) (s : Iso α) (lb lu mb mu : Option String)
    (hF : isFrac s.lab.lbasis = false)
    (hL : (loadingMode.lookup s.lab.lbasis).isSome = true) (hM : (materialMode.lookup s.lab.mbasis).isSome = true) :
    (∀ s', convertAll c s none none lb lu mb mu = (s', .ok) →
      ∃ f, s'.ls = s.ls.map (· * f) ∧ ∀ v, accessLoadingTarget c s.lab v lb lu mb mu = .ok (v * f)) ∧
    (∀ v e, accessLoadingTarget c s.lab v lb lu mb mu = .error e →
      (convertAll c s none none lb lu mb mu).2 = .err e) ∧
    (∀ s' e, convertAll c s none none lb lu mb mu = (s', .err e) →
      ∀ v, accessLoadingTarget c s.lab v lb lu mb mu = .error e) := by
  obtain ⟨h2, h3⟩ := convertAll_char c s lb lu mb mu hL hM (fun _ => hF) (fun h => by rw [hF] at h; cases h)
  exact clauses_of_char (fun v => accessLoadingTarget c s.lab v lb lu mb mu) _ (fun s' => s'.ls) s.ls _
    (fun v => accessLoadingTarget_eq_factor c s.lab v lb lu mb mu) h2 h3

/-- **stored fraction / percent** (partial): the same three clauses hold when the material representation is not
changed (`material_basis`, `material_unit` omitted) and the request does not attach a loading unit to an unchanged
fraction/percent basis.  What is missing, and why:
* a material change on a stored fraction — the clause is FALSE there, see `S5_witness` (finding S5a);
* `loading_unit` given while the basis stays fraction/percent — the permanent conversion silently ignores the unit
  ("no loading units in this mode") but the accessor raises `TypeError`, see `fraction_unit_witness`. -/
theorem accessLoadingTarget_fraction_partial (c : Ctx α) (s : Iso α) (lb lu mb mu : Option String)
    (hmb : truthy mb = false) (hmu : truthy mu = false)
    (hL : (loadingMode.lookup s.lab.lbasis).isSome = true) (hM : (materialMode.lookup s.lab.mbasis).isSome = true)
    (hfr : isFrac s.lab.lbasis = true → orCurrent lb s.lab.lbasis = s.lab.lbasis → truthy lu = false ∨ s.lab.lunit = lu) :
    (∀ s', convertAll c s none none lb lu mb mu = (s', .ok) →
      ∃ f, s'.ls = s.ls.map (· * f) ∧ ∀ v, accessLoadingTarget c s.lab v lb lu mb mu = .ok (v * f)) ∧
    (∀ v e, accessLoadingTarget c s.lab v lb lu mb mu = .error e →
      (convertAll c s none none lb lu mb mu).2 = .err e) ∧
    (∀ s' e, convertAll c s none none lb lu mb mu = (s', .err e) →
      ∀ v, accessLoadingTarget c s.lab v lb lu mb mu = .error e) := by
  obtain ⟨h2, h3⟩ := convertAll_char c s lb lu mb mu hL hM (fun h => by simp [hmb, hmu] at h) hfr
  exact clauses_of_char (fun v => accessLoadingTarget c s.lab v lb lu mb mu) _ (fun s' => s'.ls) s.ls _
    (fun v => accessLoadingTarget_eq_factor c s.lab v lb lu mb mu) h2 h3

/-! ### quantities supplied by the caller in foreign units -/

open PgVerif.Spec (PRep) in
/-- the pressure accessor in SI terms: stored representation `a`, requested representation `b`
(`pm` may be omitted when the mode does not change; `pu` is the unit label of `b`) -/
theorem accessPressure_SI (c : Ctx α) (lab : Labels) (ps : α) (hps : ps ≠ 0) (hpsat : c.psat = some ps)
    (ht : c.tempOk = true) (a b : PRep) (sa sb : α)
    (ha : a.scale Spec.pressureUnits ps = some sa) (hb : b.scale Spec.pressureUnits ps = some sb)
    (hmode : lab.pmode = a.mode) (hunit : lab.punit = a.unit)
    (pm pu : Option String) (harg : truthy pm = true ∨ truthy pu = true)
    (hpm : orCurrent pm lab.pmode = b.mode) (hpu : pu = b.unit) (v : α) :
    accessPressure c lab v pm pu = .ok (v * sa / sb) := by
  have hcond : (truthy pm || truthy pu) = true := by simpa using harg
  unfold accessPressure
  rw [if_pos hcond, orDefault_mode, hpm, hmode, hunit, hpsat, ht]
  cases b with
  | abs u =>
    have hu : truthy pu = true := by
      have : u ≠ "" := by
        intro h0; simp [Spec.PRep.scale, h0] at hb
      simp [hpu, Spec.PRep.unit, truthy, this]
    rw [orDefault_of_truthy hu, hpu]
    rw [show cPressure (some ps) true v (some a.mode) (some (PRep.abs u).mode) a.unit (PRep.abs u).unit = _ from
      C01.cPressure_SI ps v hps a (.abs u) sa sb ha hb]
  | rel ul =>
    rw [show cPressure (some ps) true v (some a.mode) (some (PRep.rel ul).mode) a.unit (orDefault pu a.unit) = _ from
      C01.cPressure_SI ps v hps a (.rel (orDefault pu a.unit)) sa sb ha hb]
  | relp ul =>
    rw [show cPressure (some ps) true v (some a.mode) (some (PRep.relp ul).mode) a.unit (orDefault pu a.unit) = _ from
      C01.cPressure_SI ps v hps a (.relp (orDefault pu a.unit)) sa sb ha hb]

open PgVerif.Spec (PRep) in
/-- a pressure SUPPLIED in representation `b` is read with the inverse factor -/
theorem inputPressure_SI (c : Ctx α) (lab : Labels) (ps : α) (hps : ps ≠ 0) (hpsat : c.psat = some ps)
    (ht : c.tempOk = true) (a b : PRep) (sa sb : α)
    (ha : a.scale Spec.pressureUnits ps = some sa) (hb : b.scale Spec.pressureUnits ps = some sb)
    (hmode : lab.pmode = a.mode) (hunit : lab.punit = a.unit)
    (pm pu : Option String) (harg : truthy pm = true ∨ truthy pu = true)
    (hpm : orCurrent pm lab.pmode = b.mode) (hpu : pu = b.unit) (w : α) :
    inputPressure c lab w pm pu = .ok (w * sb / sa) := by
  have hcond : (truthy pm || truthy pu) = true := by simpa using harg
  unfold inputPressure
  simp only []
  rw [if_pos hcond, orDefault_mode, hpm, hmode, hunit, hpsat, ht, hpu]
  have hguard : (decide (some b.mode = some "absolute") && !truthy b.unit) = false := by
    cases b with
    | abs u =>
      have : u ≠ "" := by
        intro h0; simp [Spec.PRep.scale, h0] at hb
      simp [Spec.PRep.unit, truthy, this]
    | rel ul => simp [Spec.PRep.mode]
    | relp ul => simp [Spec.PRep.mode]
  rw [hguard]
  simp only [Bool.false_eq_true, if_false]
  exact C01.cPressure_SI ps w hps b a sb sa hb ha

open PgVerif.Spec (PRep) in
/-- **a pressure supplied in foreign units is interpreted by the inverse conversion**: whatever the pressure
accessor shows for the stored value `v` in the requested representation, feeding that number back as an input in
the same representation recovers `v`.  (Typed valid target; `p_sat ≠ 0`, temperature known.  For an absolute target
the unit must be given: `loading_at(..., pressure_mode='absolute')` without a unit is refused by design, while the
accessor would default to the stored unit — that argument shape is outside `hpu`.) -/
theorem inputPressure_inverse (c : Ctx α) (lab : Labels) (ps : α) (hps : ps ≠ 0) (hpsat : c.psat = some ps)
    (ht : c.tempOk = true) (a b : PRep) (sa sb : α)
    (ha : a.scale Spec.pressureUnits ps = some sa) (hb : b.scale Spec.pressureUnits ps = some sb)
    (hmode : lab.pmode = a.mode) (hunit : lab.punit = a.unit)
    (pm pu : Option String) (harg : truthy pm = true ∨ truthy pu = true)
    (hpm : orCurrent pm lab.pmode = b.mode) (hpu : pu = b.unit) (v w : α)
    (h : accessPressure c lab v pm pu = .ok w) : inputPressure c lab w pm pu = .ok v := by
  rw [accessPressure_SI c lab ps hps hpsat ht a b sa sb ha hb hmode hunit pm pu harg hpm hpu v] at h
  rw [inputPressure_SI c lab ps hps hpsat ht a b sa sb ha hb hmode hunit pm pu harg hpm hpu w]
  have h1 := C01.PRep.scale_ne_zero ps hps a sa ha
  have h2 := C01.PRep.scale_ne_zero ps hps b sb hb
  cases h
  congr 1
  field_simp

/-- without a material argument `PointIsotherm.loading_at` (stored material passed to `c_loading`) and
`PointIsotherm.loading` / `ModelIsotherm.loading_at` (target material) convert their output identically, so the
two theorems above cover it as well; with a material change and a fraction target they differ (`S5b_witness`) -/
theorem accessLoadingStored_eq_target (c : Ctx α) (lab : Labels) (v : α) (lb lu mb mu : Option String)
    (hmb : truthy mb = false) (hmu : truthy mu = false) :
    accessLoadingStored c lab v lb lu mb mu = accessLoadingTarget c lab v lb lu mb mu := by
  unfold accessLoadingStored accessLoadingTarget
  rw [orDefault_of_falsy hmb, orDefault_of_falsy hmu]

/-- the label hypotheses used in this section are consequences of the constructor's validation -/
theorem labels_ok_of_valid (lab : Labels) (h : validLabels lab = true)
    (hrel : lab.pmode ≠ "absolute" → lab.punit = none) :
    PLabelsOk lab ∧ (loadingMode.lookup lab.lbasis).isSome = true ∧ (materialMode.lookup lab.mbasis).isSome = true := by
  unfold validLabels at h
  simp only [Bool.and_eq_true, Bool.or_eq_true, bne_iff_ne, ne_eq] at h
  obtain ⟨⟨⟨⟨⟨h1, h2⟩, h3⟩, h4⟩, _⟩, _⟩ := h
  refine ⟨⟨h1, fun habs => ?_, fun hne => by rw [hrel hne]; rfl⟩, h2, h3⟩
  rcases h4 with h4 | h4
  · exact absurd habs h4
  · cases hu : lab.punit with
    | none => simp [hu] at h4
    | some u => exact ⟨u, rfl, by simpa [hu] using h4⟩

end Access

/-! ### Known findings kept visible (witnesses over ℚ, N2-like adsorbate) and non-vacuity -/

section Witness
open PgVerif.Units
open PgVerif.Spec (Ads Mat)

/-- N2-like constants: M = 28 g/mol, ρ_liq = 0.8 g/cm3, ρ_gas = 0.007 g/cm3 (consistent molar densities) -/
def n2 : Ads ℚ := ⟨28, 4 / 5, 1 / 35, 7 / 1000, 1 / 4000⟩
def mat2 : Mat ℚ := ⟨2, 60⟩
def ctxW : Ctx ℚ := ⟨some 101325, envOf n2 mat2, true⟩
/-- stored: fraction per mass/g -/
def labFrac : Labels := ⟨"absolute", some "bar", "fraction", none, "mass", some "g", some "K"⟩
/-- stored: molar/mmol per mass/g -/
def labMolar : Labels := ⟨"absolute", some "bar", "molar", some "mmol", "mass", some "g", some "K"⟩
def isoFrac : Iso ℚ := ⟨labFrac, [1], [1 / 10], 77, false, false⟩
def isoMolar : Iso ℚ := ⟨labMolar, [1], [2], 77, false, false⟩

/-- **finding S5a**: stored fraction per g, requested mmol per cm3 of material.  The permanent conversion gives
50/7, `loading(...)` gives 40/7 (it converts the material amount but not the adsorbate amount of the fraction). -/
theorem S5_witness :
    (convertAll ctxW isoFrac none none (some "molar") (some "mmol") (some "volume") (some "cm3")).2 = .ok ∧
    (convertAll ctxW isoFrac none none (some "molar") (some "mmol") (some "volume") (some "cm3")).1.ls = [50 / 7] ∧
    accessLoadingTarget ctxW labFrac (1 / 10) (some "molar") (some "mmol") (some "volume") (some "cm3") = .ok (40 / 7) := by
  decide +kernel

/-- **finding S5b**: stored mmol per g, `loading_at(..., loading_basis='fraction', material_basis='volume',
material_unit='cm3')` (output side, `accessLoadingStored`) gives 14/125, the permanent conversion 7/50:
the fraction is formed with the STORED material representation. -/
theorem S5b_witness :
    (convertAll ctxW isoMolar none none (some "fraction") none (some "volume") (some "cm3")).2 = .ok ∧
    (convertAll ctxW isoMolar none none (some "fraction") none (some "volume") (some "cm3")).1.ls = [7 / 50] ∧
    accessLoadingStored ctxW labMolar 2 (some "fraction") none (some "volume") (some "cm3") = .ok (14 / 125) := by
  decide +kernel

/-- a loading unit attached to an unchanged fraction basis: `convert` accepts and ignores it, `loading(...)` raises
`TypeError` — the argument shape excluded by `hfr` in `accessLoadingTarget_fraction_partial` -/
theorem fraction_unit_witness :
    (convertAll ctxW isoFrac none none none (some "mmol") none none).2 = .ok ∧
    accessLoadingTarget ctxW labFrac (1 / 10) none (some "mmol") none none = .error .type := by
  decide +kernel

/-- `PLabelsOk.unit_rel` cannot be dropped from `accessPressure_eq_convert`: a (non-constructible) relative state that
still carries a unit label is converted to absolute by the accessor (which defaults to the stored label) but refused
by `convert_pressure` (which takes the omitted unit literally) -/
theorem pressure_unit_invariant_witness :
    let lab : Labels := ⟨"relative", some "bar", "molar", some "mmol", "mass", some "g", some "K"⟩
    (convertPressure ctxW ⟨lab, [1 / 2], [2], 77, false, false⟩ (some "absolute") none).2 = .err .calc ∧
    accessPressure ctxW lab (1 / 2) (some "absolute") none = .ok (4053 / 8000) := by
  decide +kernel

/-! non-vacuity of B: accepted conversions with concrete numbers -/
example : PLabelsOk labMolar := ⟨by decide, fun _ => ⟨"bar", rfl, by decide⟩, fun h => absurd rfl h⟩
example : (convertPressure ctxW isoMolar (some "relative") none).2 = .ok ∧
    (convertPressure ctxW isoMolar (some "relative") none).1.ps = [4000 / 4053] ∧
    accessPressure ctxW labMolar 1 (some "relative") none = .ok (4000 / 4053) ∧
    inputPressure ctxW labMolar (4000 / 4053) (some "relative") none = .ok 1 := by decide +kernel
example : (convertAll ctxW isoMolar none none (some "fraction") none (some "volume") (some "cm3")).1.ls = [7 / 50] ∧
    accessLoadingTarget ctxW labMolar 2 (some "fraction") none (some "volume") (some "cm3") = .ok (7 / 50) := by
  decide +kernel
example : isFrac labMolar.lbasis = false ∧ (loadingMode.lookup labMolar.lbasis).isSome = true ∧
    (materialMode.lookup labMolar.mbasis).isSome = true := by decide

end Witness

end PgVerif.C03
