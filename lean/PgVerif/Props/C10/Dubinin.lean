/-
C10 for Dubinin–Radushkevich (modelling/dr.py) and Dubinin–Astakhov (modelling/da.py).  Statements are about the
*generated* functions (`Gen.R.DR_*`, `Gen.R.DA_*`); proofs go through the tie lemmas to the published equations.
`mrt` is the attribute `minus_rt = -R T`, hence `mrt < 0`; `nm, e > 0`; DA exponent `m > 0` (declared bounds [1, 3]).
Validity range: relative pressure `0 < p ≤ 1`, loading `0 < n ≤ nm`.  Nothing is claimed at `p = 0` (or `n = 0`):
`Real.log 0 = 0` is a totalisation artefact, so every statement carries the guard `0 < p` (resp. `0 < n`).
-/
import PgVerif.Tie.Models
import Mathlib.Analysis.SpecialFunctions.Pow.Real
import Mathlib.Analysis.SpecialFunctions.Sqrt
import Mathlib.Tactic

namespace PgVerif.C10
open PgVerif.Gen.R PgVerif.Spec.M

/-! ### helpers: the reduced adsorption potential `A/e = mrt * log p / e` -/

/-- `A/e ≥ 0` on `0 < p ≤ 1` -/
lemma dub_base_nonneg (e mrt p : ℝ) (he : 0 < e) (hmrt : mrt < 0) (hp : 0 < p) (hp1 : p ≤ 1) :
    0 ≤ mrt * Real.log p / e := by
  have h1 : Real.log p ≤ 0 := Real.log_nonpos hp.le hp1
  have h2 : 0 ≤ mrt * Real.log p := by nlinarith
  positivity

/-- `A/e` is strictly decreasing in `p` on `p > 0` -/
lemma dub_base_anti (e mrt a b : ℝ) (he : 0 < e) (hmrt : mrt < 0) (ha : 0 < a) (hab : a < b) :
    mrt * Real.log b / e < mrt * Real.log a / e := by
  have h1 : Real.log a < Real.log b := Real.log_lt_log ha hab
  have h2 : mrt * Real.log b < mrt * Real.log a := mul_lt_mul_of_neg_left h1 hmrt
  exact div_lt_div_of_pos_right h2 he

/-- `-log (n/nm) ≥ 0` on `0 < n ≤ nm` -/
lemma dub_neglog_nonneg (nm n : ℝ) (hnm : 0 < nm) (hn : 0 < n) (hsat : n ≤ nm) :
    0 ≤ -Real.log (n / nm) := by
  have hr : 0 < n / nm := div_pos hn hnm
  have hr1 : n / nm ≤ 1 := (div_le_one hnm).mpr hsat
  exact neg_nonneg.mpr (Real.log_nonpos hr.le hr1)

/-! ### Dubinin–Radushkevich -/

theorem dr_pressure_loading (nm e mrt p : ℝ) (hnm : 0 < nm) (he : 0 < e) (hmrt : mrt < 0)
    (hp : 0 < p) (hp1 : p ≤ 1) :
    DR_pressure nm e mrt (DR_loading nm e mrt p) = p := by
  rw [PgVerif.Tie.dr_loading, PgVerif.Tie.dr_pressure]; unfold drInv dr
  have hx := dub_base_nonneg e mrt p he hmrt hp hp1
  have he' : e ≠ 0 := he.ne'
  have hm' : mrt ≠ 0 := hmrt.ne
  rw [mul_div_cancel_left₀ _ hnm.ne', Real.log_exp, neg_neg, Real.sqrt_sq hx]
  have h : e / mrt * (mrt * Real.log p / e) = Real.log p := by field_simp
  rw [h, Real.exp_log hp]

theorem dr_loading_pressure (nm e mrt n : ℝ) (hnm : 0 < nm) (he : 0 < e) (hmrt : mrt < 0)
    (hn : 0 < n) (hsat : n ≤ nm) :
    DR_loading nm e mrt (DR_pressure nm e mrt n) = n := by
  rw [PgVerif.Tie.dr_pressure, PgVerif.Tie.dr_loading]; unfold drInv dr
  have hl := dub_neglog_nonneg nm n hnm hn hsat
  have hr : 0 < n / nm := div_pos hn hnm
  have he' : e ≠ 0 := he.ne'
  have hm' : mrt ≠ 0 := hmrt.ne
  rw [Real.log_exp]
  have h : mrt * (e / mrt * Real.sqrt (-Real.log (n / nm))) / e = Real.sqrt (-Real.log (n / nm)) := by
    field_simp
  rw [h, Real.sq_sqrt hl, neg_neg, Real.exp_log hr]
  field_simp

/-- positivity (guard `0 < p ≤ 1` kept so that nothing is claimed through `log 0 = 0`) -/
theorem dr_pos (nm e mrt p : ℝ) (hnm : 0 < nm) (_he : 0 < e) (_hmrt : mrt < 0) (_hp : 0 < p) (_hp1 : p ≤ 1) :
    0 < DR_loading nm e mrt p := by
  rw [PgVerif.Tie.dr_loading]; unfold dr
  exact mul_pos hnm (Real.exp_pos _)

theorem dr_le_sat (nm e mrt p : ℝ) (hnm : 0 < nm) (_he : 0 < e) (_hmrt : mrt < 0) (_hp : 0 < p) (_hp1 : p ≤ 1) :
    DR_loading nm e mrt p ≤ nm := by
  rw [PgVerif.Tie.dr_loading]; unfold dr
  have h : Real.exp (-(mrt * Real.log p / e) ^ 2) ≤ 1 :=
    Real.exp_le_one_iff.mpr (neg_nonpos.mpr (sq_nonneg _))
  calc nm * Real.exp (-(mrt * Real.log p / e) ^ 2) ≤ nm * 1 := mul_le_mul_of_nonneg_left h hnm.le
    _ = nm := mul_one nm

/-- saturation is reached exactly at `p = 1` -/
theorem dr_at_one (nm e mrt : ℝ) : DR_loading nm e mrt 1 = nm := by
  rw [PgVerif.Tie.dr_loading]; unfold dr; simp

theorem dr_strictMonoOn (nm e mrt : ℝ) (hnm : 0 < nm) (he : 0 < e) (hmrt : mrt < 0) :
    StrictMonoOn (DR_loading nm e mrt) (Set.Ioc 0 1) := by
  intro a ha b hb hab
  obtain ⟨ha0, _⟩ := ha
  obtain ⟨hb0, hb1⟩ := hb
  rw [PgVerif.Tie.dr_loading, PgVerif.Tie.dr_loading]; unfold dr
  have hxb := dub_base_nonneg e mrt b he hmrt hb0 hb1
  have hlt := dub_base_anti e mrt a b he hmrt ha0 hab
  have h2 : (mrt * Real.log b / e) ^ 2 < (mrt * Real.log a / e) ^ 2 :=
    pow_lt_pow_left₀ hlt hxb (by norm_num)
  have h3 := Real.exp_lt_exp.mpr (neg_lt_neg h2)
  exact mul_lt_mul_of_pos_left h3 hnm

theorem dr_monotoneOn (nm e mrt : ℝ) (hnm : 0 < nm) (he : 0 < e) (hmrt : mrt < 0) :
    MonotoneOn (DR_loading nm e mrt) (Set.Ioc 0 1) :=
  (dr_strictMonoOn nm e mrt hnm he hmrt).monotoneOn

/-! ### Dubinin–Astakhov (`m > 0`; the declared bounds are `1 ≤ m ≤ 3`) -/

theorem da_pressure_loading (nm e m mrt p : ℝ) (hnm : 0 < nm) (he : 0 < e) (hm : 0 < m) (hmrt : mrt < 0)
    (hp : 0 < p) (hp1 : p ≤ 1) :
    DA_pressure nm e m mrt (DA_loading nm e m mrt p) = p := by
  rw [PgVerif.Tie.da_loading, PgVerif.Tie.da_pressure]; unfold daInv da
  have hx := dub_base_nonneg e mrt p he hmrt hp hp1
  have he' : e ≠ 0 := he.ne'
  have hm' : mrt ≠ 0 := hmrt.ne
  rw [mul_div_cancel_left₀ _ hnm.ne', Real.log_exp, neg_neg, one_div, Real.rpow_rpow_inv hx hm.ne']
  have h : e / mrt * (mrt * Real.log p / e) = Real.log p := by field_simp
  rw [h, Real.exp_log hp]

theorem da_loading_pressure (nm e m mrt n : ℝ) (hnm : 0 < nm) (he : 0 < e) (hm : 0 < m) (hmrt : mrt < 0)
    (hn : 0 < n) (hsat : n ≤ nm) :
    DA_loading nm e m mrt (DA_pressure nm e m mrt n) = n := by
  rw [PgVerif.Tie.da_pressure, PgVerif.Tie.da_loading]; unfold daInv da
  have hl := dub_neglog_nonneg nm n hnm hn hsat
  have hr : 0 < n / nm := div_pos hn hnm
  have he' : e ≠ 0 := he.ne'
  have hm' : mrt ≠ 0 := hmrt.ne
  rw [Real.log_exp]
  have h : mrt * (e / mrt * (-Real.log (n / nm)) ^ (1 / m)) / e = (-Real.log (n / nm)) ^ (1 / m) := by
    field_simp
  rw [h, one_div, Real.rpow_inv_rpow hl hm.ne', neg_neg, Real.exp_log hr]
  field_simp

/-- positivity (guard `0 < p ≤ 1` kept so that nothing is claimed through `log 0 = 0`) -/
theorem da_pos (nm e m mrt p : ℝ) (hnm : 0 < nm) (_he : 0 < e) (_hm : 0 < m) (_hmrt : mrt < 0)
    (_hp : 0 < p) (_hp1 : p ≤ 1) :
    0 < DA_loading nm e m mrt p := by
  rw [PgVerif.Tie.da_loading]; unfold da
  exact mul_pos hnm (Real.exp_pos _)

/-- here the range guard is essential: for `p > 1` the base is negative and `rpow` is not the real power -/
theorem da_le_sat (nm e m mrt p : ℝ) (hnm : 0 < nm) (he : 0 < e) (_hm : 0 < m) (hmrt : mrt < 0)
    (hp : 0 < p) (hp1 : p ≤ 1) :
    DA_loading nm e m mrt p ≤ nm := by
  rw [PgVerif.Tie.da_loading]; unfold da
  have hx := dub_base_nonneg e mrt p he hmrt hp hp1
  have h : Real.exp (-(mrt * Real.log p / e) ^ m) ≤ 1 :=
    Real.exp_le_one_iff.mpr (neg_nonpos.mpr (Real.rpow_nonneg hx m))
  calc nm * Real.exp (-(mrt * Real.log p / e) ^ m) ≤ nm * 1 := mul_le_mul_of_nonneg_left h hnm.le
    _ = nm := mul_one nm

/-- saturation is reached exactly at `p = 1` (needs `m ≠ 0`, otherwise `0 ^ 0 = 1`) -/
theorem da_at_one (nm e m mrt : ℝ) (hm : 0 < m) : DA_loading nm e m mrt 1 = nm := by
  rw [PgVerif.Tie.da_loading]; unfold da
  simp [Real.zero_rpow hm.ne']

theorem da_strictMonoOn (nm e m mrt : ℝ) (hnm : 0 < nm) (he : 0 < e) (hm : 0 < m) (hmrt : mrt < 0) :
    StrictMonoOn (DA_loading nm e m mrt) (Set.Ioc 0 1) := by
  intro a ha b hb hab
  obtain ⟨ha0, _⟩ := ha
  obtain ⟨hb0, hb1⟩ := hb
  rw [PgVerif.Tie.da_loading, PgVerif.Tie.da_loading]; unfold da
  have hxb := dub_base_nonneg e mrt b he hmrt hb0 hb1
  have hlt := dub_base_anti e mrt a b he hmrt ha0 hab
  have h2 : (mrt * Real.log b / e) ^ m < (mrt * Real.log a / e) ^ m :=
    Real.rpow_lt_rpow hxb hlt hm
  have h3 := Real.exp_lt_exp.mpr (neg_lt_neg h2)
  exact mul_lt_mul_of_pos_left h3 hnm

theorem da_monotoneOn (nm e m mrt : ℝ) (hnm : 0 < nm) (he : 0 < e) (hm : 0 < m) (hmrt : mrt < 0) :
    MonotoneOn (DA_loading nm e m mrt) (Set.Ioc 0 1) :=
  (da_strictMonoOn nm e m mrt hnm he hm hmrt).monotoneOn

/-- DA with `m = 2` is DR (for every argument: `rpow` with a natural exponent is the plain power) -/
theorem da_two_eq_dr (nm e mrt p : ℝ) :
    DA_loading nm e 2 mrt p = DR_loading nm e mrt p := by
  rw [PgVerif.Tie.da_loading, PgVerif.Tie.dr_loading]; unfold da dr
  rw [show ((2 : ℝ)) = ((2 : ℕ) : ℝ) by norm_num, Real.rpow_natCast]

end PgVerif.C10
