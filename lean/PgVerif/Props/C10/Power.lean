/-
C10 for the power-law family: Freundlich, Toth, Jensen–Seaton.  Statements are about the *generated*
functions (`Gen.R.*` = what modelling/freundlich.py, toth.py, jensenseaton.py say now); proofs go through
the tie lemmas to the published equations.  Parameters strictly inside the declared bounds (0, ∞).

Real powers: `x ^ (y : ℝ)` is only the genuine power for `0 ≤ x` (and `0 ^ y = 0` needs `y ≠ 0`), so every
statement carries the guard `0 ≤ p` / `0 ≤ n` and the exponent hypotheses `0 < m`, `0 < t`, `0 < c`
(which make `1/m`, `1/t`, `1/c` non-zero: in Lean `1 / 0 = 0` and `0 ^ 0 = 1`).
-/
import PgVerif.Tie.Models
import Mathlib.Analysis.SpecialFunctions.Pow.Continuity
import Mathlib.Tactic

namespace PgVerif.C10
open PgVerif.Gen.R PgVerif.Spec.M Filter Topology

/-! ### helper facts -/

private lemma rpow_rpow_one_div {x c : ℝ} (hx : 0 ≤ x) (hc : c ≠ 0) : (x ^ c) ^ (1 / c) = x := by
  rw [one_div]; exact Real.rpow_rpow_inv hx hc

private lemma rpow_one_div_rpow {x c : ℝ} (hx : 0 ≤ x) (hc : c ≠ 0) : (x ^ (1 / c)) ^ c = x := by
  rw [one_div]; exact Real.rpow_inv_rpow hx hc

private lemma cross_lt {x1 x2 y1 y2 : ℝ} (hx1 : 0 ≤ x1) (hx : x1 < x2) (hy1 : 0 < y1) (hy : y1 ≤ y2) :
    x1 * (1 + x2 / y2) < x2 * (1 + x1 / y1) := by
  have hx2 : 0 ≤ x2 := hx1.trans hx.le
  have h3 : x1 * x2 / y2 ≤ x1 * x2 / y1 := div_le_div_of_nonneg_left (by positivity) hy1 hy
  have e1 : x1 * (1 + x2 / y2) = x1 + x1 * x2 / y2 := by ring
  have e2 : x2 * (1 + x1 / y1) = x2 + x1 * x2 / y1 := by ring
  rw [e1, e2]; linarith

/-- the common shape `u / (1 + (u/v)^c)^(1/c)` (Toth: `v = 1`; Jensen–Seaton: `v = a (1 + b p)`) is strictly
increasing in `u ≥ 0` and non-decreasing in `v > 0` -/
private lemma gtoth_lt {c u1 u2 v1 v2 : ℝ} (hc : 0 < c) (hu1 : 0 ≤ u1) (hu : u1 < u2) (hv1 : 0 < v1)
    (hv : v1 ≤ v2) :
    u1 / (1 + (u1 / v1) ^ c) ^ (1 / c) < u2 / (1 + (u2 / v2) ^ c) ^ (1 / c) := by
  have hu2 : 0 ≤ u2 := hu1.trans hu.le
  have hv2 : 0 < v2 := hv1.trans_le hv
  have hx1 : 0 ≤ u1 ^ c := Real.rpow_nonneg hu1 c
  have hx2 : 0 ≤ u2 ^ c := Real.rpow_nonneg hu2 c
  have hy1 : 0 < v1 ^ c := Real.rpow_pos_of_pos hv1 c
  have hy2 : 0 < v2 ^ c := Real.rpow_pos_of_pos hv2 c
  have hx : u1 ^ c < u2 ^ c := Real.rpow_lt_rpow hu1 hu hc
  have hy : v1 ^ c ≤ v2 ^ c := Real.rpow_le_rpow hv1.le hv hc.le
  rw [Real.div_rpow hu1 hv1.le, Real.div_rpow hu2 hv2.le]
  have hD1 : 0 < 1 + u1 ^ c / v1 ^ c := by positivity
  have hD2 : 0 < 1 + u2 ^ c / v2 ^ c := by positivity
  have hc' : 0 < 1 / c := by positivity
  rw [div_lt_div_iff₀ (Real.rpow_pos_of_pos hD1 _) (Real.rpow_pos_of_pos hD2 _)]
  have e1 : u1 * (1 + u2 ^ c / v2 ^ c) ^ (1 / c) = (u1 ^ c * (1 + u2 ^ c / v2 ^ c)) ^ (1 / c) := by
    rw [Real.mul_rpow hx1 hD2.le, rpow_rpow_one_div hu1 hc.ne']
  have e2 : u2 * (1 + u1 ^ c / v1 ^ c) ^ (1 / c) = (u2 ^ c * (1 + u1 ^ c / v1 ^ c)) ^ (1 / c) := by
    rw [Real.mul_rpow hx2 hD1.le, rpow_rpow_one_div hu2 hc.ne']
  rw [e1, e2]
  exact Real.rpow_lt_rpow (by positivity) (cross_lt hx1 hx hy1 hy) hc'

/-! ### Freundlich: n = K p^(1/m) -/

theorem freundlich_pressure_loading (K m p : ℝ) (hK : 0 < K) (hm : 0 < m) (hp : 0 ≤ p) :
    Freundlich_pressure K m (Freundlich_loading K m p) = p := by
  rw [PgVerif.Tie.freundlich_loading, PgVerif.Tie.freundlich_pressure]
  unfold freundlichInv freundlich
  rw [mul_div_cancel_left₀ _ hK.ne', rpow_one_div_rpow hp hm.ne']

theorem freundlich_loading_pressure (K m n : ℝ) (hK : 0 < K) (hm : 0 < m) (hn : 0 ≤ n) :
    Freundlich_loading K m (Freundlich_pressure K m n) = n := by
  rw [PgVerif.Tie.freundlich_pressure, PgVerif.Tie.freundlich_loading]
  unfold freundlichInv freundlich
  rw [rpow_rpow_one_div (div_nonneg hn hK.le) hm.ne']; field_simp

/-- loading at zero pressure is zero.  This is true because the exponent `1/m` is non-zero (`0 < m`):
`0 ^ y = 0` only for `y ≠ 0`.  (Without the guard, Lean's `1 / 0 = 0`, `0 ^ 0 = 1` would give `K`.) -/
theorem freundlich_zero (K m : ℝ) (hm : 0 < m) : Freundlich_loading K m 0 = 0 := by
  rw [PgVerif.Tie.freundlich_loading]; unfold freundlich
  rw [Real.zero_rpow (one_div_ne_zero hm.ne'), mul_zero]

theorem freundlich_nonneg (K m p : ℝ) (hK : 0 < K) (hp : 0 ≤ p) : 0 ≤ Freundlich_loading K m p := by
  rw [PgVerif.Tie.freundlich_loading]; unfold freundlich
  exact mul_nonneg hK.le (Real.rpow_nonneg hp _)

theorem freundlich_strictMonoOn (K m : ℝ) (hK : 0 < K) (hm : 0 < m) :
    StrictMonoOn (Freundlich_loading K m) (Set.Ici 0) := by
  intro a ha b _ hab
  simp only [Set.mem_Ici] at ha
  rw [PgVerif.Tie.freundlich_loading, PgVerif.Tie.freundlich_loading]; unfold freundlich
  exact mul_lt_mul_of_pos_left (Real.rpow_lt_rpow ha hab (by positivity)) hK

/-! ### Toth: n = n_m K p / (1 + (K p)^t)^(1/t) -/

/-- pressure(loading(p)) = p for every `p ≥ 0` (at `p = 0` both sides are genuinely `0`: `0 ^ t = 0`, `t > 0`) -/
theorem toth_pressure_loading (nm K t p : ℝ) (hnm : 0 < nm) (hK : 0 < K) (ht : 0 < t) (hp : 0 ≤ p) :
    Toth_pressure nm K t (Toth_loading nm K t p) = p := by
  rw [PgVerif.Tie.toth_loading, PgVerif.Tie.toth_pressure]
  unfold tothInv toth
  set u := K * p with hu
  have hu0 : 0 ≤ u := by positivity
  have hA : 0 < 1 + u ^ t := by positivity
  set A := 1 + u ^ t with hAdef
  have hAt : 0 < A ^ (1 / t) := by positivity
  have h1 : nm * u / A ^ (1 / t) / nm = u / A ^ (1 / t) := by field_simp
  have h2 : (u / A ^ (1 / t)) ^ t = u ^ t / A := by
    rw [Real.div_rpow hu0 hAt.le, rpow_one_div_rpow hA.le ht.ne']
  have h3 : 1 - u ^ t / A = 1 / A := by
    rw [hAdef]; field_simp; ring
  have h4 : (1 / A) ^ (1 / t) = 1 / A ^ (1 / t) := by
    rw [Real.div_rpow zero_le_one hA.le, Real.one_rpow]
  rw [h1, h2, h3, h4]
  rw [hu]; field_simp

/-- loading(pressure(n)) = n below saturation (`n = 0` included) -/
theorem toth_loading_pressure (nm K t n : ℝ) (hnm : 0 < nm) (hK : 0 < K) (ht : 0 < t) (hn : 0 ≤ n)
    (hsat : n < nm) :
    Toth_loading nm K t (Toth_pressure nm K t n) = n := by
  rw [PgVerif.Tie.toth_pressure, PgVerif.Tie.toth_loading]
  unfold tothInv toth
  set x := n / nm with hx
  have hx0 : 0 ≤ x := by positivity
  have hx1 : x < 1 := by rw [hx, div_lt_one hnm]; exact hsat
  have hxt : x ^ t < 1 := Real.rpow_lt_one hx0 hx1 ht
  have hB : 0 < 1 - x ^ t := by linarith
  set B := 1 - x ^ t with hBdef
  have hBt : 0 < B ^ (1 / t) := by positivity
  have h1 : K * (n / (nm * K) / B ^ (1 / t)) = x / B ^ (1 / t) := by rw [hx]; field_simp
  have h2 : (x / B ^ (1 / t)) ^ t = x ^ t / B := by
    rw [Real.div_rpow hx0 hBt.le, rpow_one_div_rpow hB.le ht.ne']
  have h3 : 1 + x ^ t / B = 1 / B := by
    have e : x ^ t = 1 - B := by rw [hBdef]; ring
    rw [e]; field_simp; ring
  have h4 : (1 / B) ^ (1 / t) = 1 / B ^ (1 / t) := by
    rw [Real.div_rpow zero_le_one hB.le, Real.one_rpow]
  rw [h1, h2, h3, h4]
  rw [hx]; field_simp

theorem toth_zero (nm K t : ℝ) : Toth_loading nm K t 0 = 0 := by
  rw [PgVerif.Tie.toth_loading]; simp [toth]

theorem toth_nonneg (nm K t p : ℝ) (hnm : 0 < nm) (hK : 0 < K) (hp : 0 ≤ p) : 0 ≤ Toth_loading nm K t p := by
  rw [PgVerif.Tie.toth_loading]; unfold toth
  have hu : 0 ≤ K * p := by positivity
  have h1 : 0 ≤ (K * p) ^ t := Real.rpow_nonneg hu t
  have h2 : 0 ≤ (1 + (K * p) ^ t) ^ (1 / t) := Real.rpow_nonneg (by linarith) _
  positivity

theorem toth_lt_sat (nm K t p : ℝ) (hnm : 0 < nm) (hK : 0 < K) (ht : 0 < t) (hp : 0 ≤ p) :
    Toth_loading nm K t p < nm := by
  rw [PgVerif.Tie.toth_loading]; unfold toth
  have hu : 0 ≤ K * p := by positivity
  have h1 : 0 ≤ (K * p) ^ t := Real.rpow_nonneg hu t
  have hD : 0 < (1 + (K * p) ^ t) ^ (1 / t) := Real.rpow_pos_of_pos (by linarith) _
  have key : K * p < (1 + (K * p) ^ t) ^ (1 / t) := by
    have := Real.rpow_lt_rpow h1 (by linarith : (K * p) ^ t < 1 + (K * p) ^ t) (by positivity : 0 < 1 / t)
    rwa [rpow_rpow_one_div hu ht.ne'] at this
  rw [div_lt_iff₀ hD]
  exact mul_lt_mul_of_pos_left key hnm

theorem toth_strictMonoOn (nm K t : ℝ) (hnm : 0 < nm) (hK : 0 < K) (ht : 0 < t) :
    StrictMonoOn (Toth_loading nm K t) (Set.Ici 0) := by
  intro a ha b _ hab
  simp only [Set.mem_Ici] at ha
  rw [PgVerif.Tie.toth_loading, PgVerif.Tie.toth_loading]; unfold toth
  have h := gtoth_lt (c := t) (u1 := K * a) (u2 := K * b) (v1 := 1) (v2 := 1) ht (by positivity)
    (mul_lt_mul_of_pos_left hab hK) one_pos le_rfl
  simp only [div_one] at h
  rw [mul_div_assoc nm (K * a), mul_div_assoc nm (K * b)]
  exact mul_lt_mul_of_pos_left h hnm

/-- Henry limit: n(p)/p → n_m K as p → 0⁺ (needs `t ≠ 0` so that `(K·0)^t = 0`) -/
theorem toth_henry (nm K t : ℝ) (ht : 0 < t) :
    Tendsto (fun p => Toth_loading nm K t p / p) (𝓝[>] 0) (𝓝 (nm * K)) := by
  have hc : ContinuousAt (fun p : ℝ => nm * K / (1 + (K * p) ^ t) ^ (1 / t)) 0 := by
    have h1 : ContinuousAt (fun p : ℝ => K * p) 0 := by fun_prop
    have h2 : ContinuousAt (fun p : ℝ => (K * p) ^ t) 0 := h1.rpow_const (Or.inr ht.le)
    have h3 : ContinuousAt (fun p : ℝ => 1 + (K * p) ^ t) 0 := continuousAt_const.add h2
    have h4 : ContinuousAt (fun p : ℝ => (1 + (K * p) ^ t) ^ (1 / t)) 0 :=
      h3.rpow_const (Or.inr (by positivity))
    apply ContinuousAt.div continuousAt_const h4
    simp [Real.zero_rpow ht.ne']
  have h0 : Tendsto (fun p : ℝ => nm * K / (1 + (K * p) ^ t) ^ (1 / t)) (𝓝[>] 0) (𝓝 (nm * K)) := by
    have := hc.tendsto.mono_left (nhdsWithin_le_nhds (s := Set.Ioi (0 : ℝ)))
    simpa [Real.zero_rpow ht.ne'] using this
  refine h0.congr' ?_
  filter_upwards [self_mem_nhdsWithin] with p hp
  have hp' : p ≠ 0 := ne_of_gt hp
  rw [PgVerif.Tie.toth_loading]; unfold toth
  rw [div_right_comm]
  congr 1
  field_simp

/-! ### Jensen–Seaton: n = K p / (1 + (K p / (a (1 + b p)))^c)^(1/c)  (the inverse is numerical) -/

theorem jensenseaton_zero (K a b c : ℝ) : JensenSeaton_loading K a b c 0 = 0 := by
  rw [PgVerif.Tie.jensenseaton_loading]; simp [jensenSeaton]

theorem jensenseaton_nonneg (K a b c p : ℝ) (hK : 0 < K) (ha : 0 < a) (hb : 0 < b) (hp : 0 ≤ p) :
    0 ≤ JensenSeaton_loading K a b c p := by
  rw [PgVerif.Tie.jensenseaton_loading]; unfold jensenSeaton
  have hw : 0 ≤ K * p / (a * (1 + b * p)) := by positivity
  have h1 : 0 ≤ (K * p / (a * (1 + b * p))) ^ c := Real.rpow_nonneg hw c
  have h2 : 0 ≤ (1 + (K * p / (a * (1 + b * p))) ^ c) ^ (1 / c) := Real.rpow_nonneg (by linarith) _
  positivity

/-- Henry limit: n(p)/p → K as p → 0⁺ -/
theorem jensenseaton_henry (K a b c : ℝ) (ha : 0 < a) (hc : 0 < c) :
    Tendsto (fun p => JensenSeaton_loading K a b c p / p) (𝓝[>] 0) (𝓝 K) := by
  have hcont : ContinuousAt (fun p : ℝ => K / (1 + (K * p / (a * (1 + b * p))) ^ c) ^ (1 / c)) 0 := by
    have h1 : ContinuousAt (fun p : ℝ => K * p / (a * (1 + b * p))) 0 := by
      apply ContinuousAt.div (by fun_prop) (by fun_prop)
      simp [ha.ne']
    have h2 : ContinuousAt (fun p : ℝ => (K * p / (a * (1 + b * p))) ^ c) 0 := h1.rpow_const (Or.inr hc.le)
    have h3 : ContinuousAt (fun p : ℝ => 1 + (K * p / (a * (1 + b * p))) ^ c) 0 := continuousAt_const.add h2
    have h4 : ContinuousAt (fun p : ℝ => (1 + (K * p / (a * (1 + b * p))) ^ c) ^ (1 / c)) 0 :=
      h3.rpow_const (Or.inr (by positivity))
    apply ContinuousAt.div continuousAt_const h4
    simp [Real.zero_rpow hc.ne']
  have h0 : Tendsto (fun p : ℝ => K / (1 + (K * p / (a * (1 + b * p))) ^ c) ^ (1 / c)) (𝓝[>] 0) (𝓝 K) := by
    have := hcont.tendsto.mono_left (nhdsWithin_le_nhds (s := Set.Ioi (0 : ℝ)))
    simpa [Real.zero_rpow hc.ne'] using this
  refine h0.congr' ?_
  filter_upwards [self_mem_nhdsWithin] with p hp
  have hp' : p ≠ 0 := ne_of_gt hp
  rw [PgVerif.Tie.jensenseaton_loading]; unfold jensenSeaton
  rw [div_right_comm]
  congr 1
  field_simp

/-- strictly increasing on `[0, ∞)`: both `K p` and `a (1 + b p)` increase, and
`u / (1 + (u/v)^c)^(1/c)` increases in `u` and in `v` -/
theorem jensenseaton_strictMonoOn (K a b c : ℝ) (hK : 0 < K) (ha : 0 < a) (hb : 0 < b) (hc : 0 < c) :
    StrictMonoOn (JensenSeaton_loading K a b c) (Set.Ici 0) := by
  intro p hp q _ hpq
  simp only [Set.mem_Ici] at hp
  rw [PgVerif.Tie.jensenseaton_loading, PgVerif.Tie.jensenseaton_loading]; unfold jensenSeaton
  have hv1 : 0 < a * (1 + b * p) := by positivity
  have hv : a * (1 + b * p) ≤ a * (1 + b * q) := by
    have := mul_lt_mul_of_pos_left hpq hb
    exact mul_le_mul_of_nonneg_left (by linarith) ha.le
  exact gtoth_lt hc (by positivity) (mul_lt_mul_of_pos_left hpq hK) hv1 hv

theorem jensenseaton_monotoneOn (K a b c : ℝ) (hK : 0 < K) (ha : 0 < a) (hb : 0 < b) (hc : 0 < c) :
    MonotoneOn (JensenSeaton_loading K a b c) (Set.Ici 0) :=
  (jensenseaton_strictMonoOn K a b c hK ha hb hc).monotoneOn

end PgVerif.C10
