/-
C10, last sentence ("evaluating through a model isotherm gives the bare model's values after unit conversion") for a model
isotherm in an arbitrary stored STATE: temperature number stored in K or in °C, any stored pressure mode / unit, any loading |
material representation (Model/ModelEval.lean `MState`, `loadingAtS`, `pressureAtS`, `spreadingAtS`, `wholePressureS`,
`wholeLoadingS`; run at ℚ by Drv/ModelEval.lean `kel`, `cvp`, `lat`, `pat` and compared with the implementation by
harness/pgv/c10state.py).

* what the accessors compute: the bare model on the argument re-expressed with the SI scales AT THE KELVIN TEMPERATURE
  (`loadingAtS_eq_bare`, `pressureAtS_eq_bare`, `spreadingAtS_eq_bare`), the same for a °C state and its K twin (`*_twin`);
* the round trips through the isotherm in any foreign representation (`pressureAtS_loadingAtS`, `loadingAtS_pressureAtS`);
* the defect class "one conversion is handed another temperature than the kelvin one (the raw stored number, say)":
  invisible on K states (`*_kelvin_state`), invisible to requests that do not change the pressure mode
  (`*_same_kind`), and visible on every mode-changing request as soon as the saturation pressures at the two temperatures
  differ (`*_mode_change_ne`); for the loading conversion: invisible for representations whose scale does not depend on the
  temperature (`loadingAtT_lscale_const`), visible otherwise (`loadingAtT_lscale_ne`).  These are the regions the generator of
  states must reach (°C states × mode changes × volume bases), and why nothing else does.
-/
import PgVerif.Model.ModelEval
import Mathlib.Algebra.Order.Field.Basic
import Mathlib.Algebra.Order.Field.Rat
import Mathlib.Tactic

namespace PgVerif.C10
open PgVerif.Model.MEval

set_option linter.unusedSectionVars false
variable {α : Type} [Field α]

/-! ### the temperature of a state -/

theorem kelvinOf_kelvin (t : α) : kelvinOf false t = t := by simp [kelvinOf]

theorem kelvinOf_celsius (t : α) : kelvinOf true t = t + 27315 / 100 := by simp [kelvinOf]

/-- a °C state and the K state at the shifted number have the same kelvin temperature -/
theorem kelvinOf_twin (t : α) : kelvinOf true t = kelvinOf false (t + 27315 / 100) := by simp [kelvinOf]

/-- the stored number of a °C state is never its kelvin temperature -/
theorem kelvinOf_celsius_ne_raw [CharZero α] (t : α) : kelvinOf true t ≠ t := by
  simp [kelvinOf]

/-! ### `c_pressure` -/

lemma scale_ne_zero [CharZero α] (p0 : α) (r : PRep α) (hp : p0 ≠ 0) (hu : r.unit ≠ 0) : r.scale p0 ≠ 0 := by
  rcases r with ⟨m, u⟩
  cases m <;> simp_all [PRep.scale]

/-- the nine branches are one formula: SI scale of the source over SI scale of the target, `p0` entering through the
relative modes only (guards: the totalised division) -/
theorem convP_eq_scale [CharZero α] (p0 : α) (src dst : PRep α) (x : α) (hp : p0 ≠ 0) (hs : src.unit ≠ 0)
    (hd : dst.unit ≠ 0) : convP p0 src dst x = x * src.scale p0 / dst.scale p0 := by
  rcases src with ⟨sm, su⟩
  rcases dst with ⟨dm, du⟩
  simp only at hs hd
  cases sm <;> cases dm <;> simp only [convP, PRep.scale] <;> field_simp

theorem convP_self (p0 : α) (r : PRep α) (x : α) (hu : r.unit ≠ 0) : convP p0 r r x = x := by
  rcases r with ⟨m, u⟩
  simp only at hu
  cases m <;> simp [convP, hu]

/-- there and back is the identity -/
theorem convP_roundtrip [CharZero α] (p0 : α) (a b : PRep α) (x : α) (hp : p0 ≠ 0) (ha : a.unit ≠ 0) (hb : b.unit ≠ 0) :
    convP p0 b a (convP p0 a b x) = x := by
  rw [convP_eq_scale p0 b a _ hp hb ha, convP_eq_scale p0 a b _ hp ha hb]
  have h1 := scale_ne_zero p0 a hp ha
  have h2 := scale_ne_zero p0 b hp hb
  field_simp

/-- the saturation pressure enters only when the MODE changes between absolute and relative -/
theorem convP_same_kind (p0 p0' : α) (src dst : PRep α) (x : α) (h : src.mode.isAbs = dst.mode.isAbs) :
    convP p0 src dst x = convP p0' src dst x := by
  rcases src with ⟨sm, su⟩
  rcases dst with ⟨dm, du⟩
  cases sm <;> cases dm <;> simp_all [convP, PMode.isAbs]

/-- … and then it does matter: two different saturation pressures give two different answers for every non-zero argument -/
theorem convP_mode_change_ne [CharZero α] (p0 p0' : α) (src dst : PRep α) (x : α) (h : src.mode.isAbs ≠ dst.mode.isAbs)
    (hx : x ≠ 0) (hp : p0 ≠ 0) (hp' : p0' ≠ 0) (hne : p0 ≠ p0') (hs : src.unit ≠ 0) (hd : dst.unit ≠ 0) :
    convP p0 src dst x ≠ convP p0' src dst x := by
  rw [convP_eq_scale p0 src dst x hp hs hd, convP_eq_scale p0' src dst x hp' hs hd]
  rcases src with ⟨sm, su⟩
  rcases dst with ⟨dm, du⟩
  simp only at hs hd
  intro e
  apply hne
  cases sm <;> cases dm <;> simp only [PRep.scale, PMode.isAbs, ne_eq, not_true_eq_false, reduceCtorEq] at h e ⊢ <;>
    (field_simp at e; first | exact e | exact e.symm)

/-! ### the accessors: the bare model after unit conversion, with the constants at the kelvin temperature -/

/-- `loading_at`: the bare model at the argument re-expressed in the stored representation (SI scales with the saturation
pressure AT THE KELVIN TEMPERATURE), times the loading factor at the kelvin temperature -/
theorem loadingAtS_eq_bare [CharZero α] (psat : α → α) (s : MState α) (model : α → α) (rqP : PRep α) (rqL : α → α) (x : α)
    (hp : psat s.kelvin ≠ 0) (hs : s.prep.unit ≠ 0) (hr : rqP.unit ≠ 0) :
    loadingAtS psat s model rqP rqL x
      = model (x * rqP.scale (psat s.kelvin) / s.prep.scale (psat s.kelvin)) * (s.lscale s.kelvin / rqL s.kelvin) := by
  unfold loadingAtS loadingAtT
  rw [convP_eq_scale _ rqP s.prep x hp hr hs]

theorem pressureAtS_eq_bare [CharZero α] (psat : α → α) (s : MState α) (inv : α → α) (rqL : α → α) (rqP : PRep α) (l : α)
    (hp : psat s.kelvin ≠ 0) (hs : s.prep.unit ≠ 0) (hr : rqP.unit ≠ 0) :
    pressureAtS psat s inv rqL rqP l
      = inv (l * (rqL s.kelvin / s.lscale s.kelvin)) * s.prep.scale (psat s.kelvin) / rqP.scale (psat s.kelvin) := by
  unfold pressureAtS pressureAtT
  rw [convP_eq_scale _ s.prep rqP _ hp hs hr]

theorem spreadingAtS_eq_bare [CharZero α] (psat : α → α) (s : MState α) (spr : α → α) (rqP : PRep α) (x : α)
    (hp : psat s.kelvin ≠ 0) (hs : s.prep.unit ≠ 0) (hr : rqP.unit ≠ 0) :
    spreadingAtS psat s spr rqP x = spr (x * rqP.scale (psat s.kelvin) / s.prep.scale (psat s.kelvin)) := by
  unfold spreadingAtS spreadingAtT
  rw [convP_eq_scale _ rqP s.prep x hp hr hs]

/-- a request in the stored representation is the bare model itself -/
theorem loadingAtS_native (psat : α → α) (s : MState α) (model : α → α) (x : α) (hs : s.prep.unit ≠ 0)
    (hl : s.lscale s.kelvin ≠ 0) : loadingAtS psat s model s.prep s.lscale x = model x := by
  unfold loadingAtS loadingAtT
  rw [convP_self _ _ _ hs, div_self hl, mul_one]

/-- the same isotherm stored in °C and in K (any two states with the same kelvin temperature, representation and model)
answers every question alike -/
theorem loadingAtS_twin (psat : α → α) (s s' : MState α) (model : α → α) (rqP : PRep α) (rqL : α → α) (x : α)
    (hk : s.kelvin = s'.kelvin) (hp : s.prep = s'.prep) (hl : s.lscale = s'.lscale) :
    loadingAtS psat s model rqP rqL x = loadingAtS psat s' model rqP rqL x := by
  unfold loadingAtS loadingAtT
  rw [hk, hp, hl]

theorem pressureAtS_twin (psat : α → α) (s s' : MState α) (inv : α → α) (rqL : α → α) (rqP : PRep α) (l : α)
    (hk : s.kelvin = s'.kelvin) (hp : s.prep = s'.prep) (hl : s.lscale = s'.lscale) :
    pressureAtS psat s inv rqL rqP l = pressureAtS psat s' inv rqL rqP l := by
  unfold pressureAtS pressureAtT
  rw [hk, hp, hl]

theorem spreadingAtS_twin (psat : α → α) (s s' : MState α) (spr : α → α) (rqP : PRep α) (x : α)
    (hk : s.kelvin = s'.kelvin) (hp : s.prep = s'.prep) :
    spreadingAtS psat s spr rqP x = spreadingAtS psat s' spr rqP x := by
  unfold spreadingAtS spreadingAtT
  rw [hk, hp]

/-- the twin of a °C state: the same number shifted by 273.15, stored in K -/
def kelvinTwin (s : MState α) : MState α := { s with celsius := false, temp := s.kelvin }

theorem kelvinTwin_kelvin (s : MState α) : (kelvinTwin s).kelvin = s.kelvin := by
  simp [kelvinTwin, MState.kelvin, kelvinOf]

theorem loadingAtS_kelvinTwin (psat : α → α) (s : MState α) (model : α → α) (rqP : PRep α) (rqL : α → α) (x : α) :
    loadingAtS psat (kelvinTwin s) model rqP rqL x = loadingAtS psat s model rqP rqL x :=
  loadingAtS_twin psat _ _ model rqP rqL x (kelvinTwin_kelvin s) rfl rfl

/-! ### round trips through the isotherm in a foreign representation -/

theorem pressureAtS_loadingAtS [CharZero α] (psat : α → α) (s : MState α) (model inv : α → α) (rqP : PRep α)
    (rqL : α → α) (x : α) (hinv : ∀ p, inv (model p) = p) (hp : psat s.kelvin ≠ 0) (hs : s.prep.unit ≠ 0)
    (hr : rqP.unit ≠ 0) (hl : s.lscale s.kelvin ≠ 0) (hq : rqL s.kelvin ≠ 0) :
    pressureAtS psat s inv rqL rqP (loadingAtS psat s model rqP rqL x) = x := by
  unfold pressureAtS pressureAtT loadingAtS loadingAtT
  have e : model (convP (psat s.kelvin) rqP s.prep x) * (s.lscale s.kelvin / rqL s.kelvin)
      * (rqL s.kelvin / s.lscale s.kelvin) = model (convP (psat s.kelvin) rqP s.prep x) := by
    field_simp
  rw [e, hinv, convP_roundtrip _ rqP s.prep x hp hr hs]

theorem loadingAtS_pressureAtS [CharZero α] (psat : α → α) (s : MState α) (model inv : α → α) (rqP : PRep α)
    (rqL : α → α) (l : α) (hinv : ∀ n, model (inv n) = n) (hp : psat s.kelvin ≠ 0) (hs : s.prep.unit ≠ 0)
    (hr : rqP.unit ≠ 0) (hl : s.lscale s.kelvin ≠ 0) (hq : rqL s.kelvin ≠ 0) :
    loadingAtS psat s model rqP rqL (pressureAtS psat s inv rqL rqP l) = l := by
  unfold pressureAtS pressureAtT loadingAtS loadingAtT
  rw [convP_roundtrip _ s.prep rqP _ hp hs hr, hinv]
  field_simp

/-! ### the defect class: a conversion that is handed another temperature than the kelvin one -/

/-- on a state stored in K the raw number IS the kelvin temperature: the slip cannot be seen there -/
theorem loadingAtT_kelvin_state (psat : α → α) (s : MState α) (model : α → α) (rqP : PRep α) (rqL : α → α) (x : α)
    (hK : s.celsius = false) : loadingAtT psat s.temp s.temp s model rqP rqL x = loadingAtS psat s model rqP rqL x := by
  unfold loadingAtS
  simp [MState.kelvin, kelvinOf, hK]

/-- a request that does not change the pressure MODE (pure unit conversions, relative ↔ relative%) cannot see the
temperature of the pressure conversion either -/
theorem loadingAtT_same_kind (psat : α → α) (Tp : α) (s : MState α) (model : α → α) (rqP : PRep α) (rqL : α → α) (x : α)
    (h : rqP.mode.isAbs = s.prep.mode.isAbs) :
    loadingAtT psat Tp s.kelvin s model rqP rqL x = loadingAtS psat s model rqP rqL x := by
  unfold loadingAtS loadingAtT
  rw [convP_same_kind (psat Tp) (psat s.kelvin) rqP s.prep x h]

/-- every mode-changing request sees it, for every injective model and every non-zero pressure, as soon as the saturation
pressures at the two temperatures differ -/
theorem loadingAtT_mode_change_ne [CharZero α] (psat : α → α) (Tp : α) (s : MState α) (model : α → α) (rqP : PRep α)
    (rqL : α → α) (x : α) (h : rqP.mode.isAbs ≠ s.prep.mode.isAbs) (hinj : Function.Injective model) (hx : x ≠ 0)
    (hp : psat Tp ≠ 0) (hp' : psat s.kelvin ≠ 0) (hne : psat Tp ≠ psat s.kelvin) (hs : s.prep.unit ≠ 0)
    (hr : rqP.unit ≠ 0) (hf : s.lscale s.kelvin / rqL s.kelvin ≠ 0) :
    loadingAtT psat Tp s.kelvin s model rqP rqL x ≠ loadingAtS psat s model rqP rqL x := by
  unfold loadingAtS loadingAtT
  intro e
  have e' := hinj (mul_right_cancel₀ hf e)
  exact convP_mode_change_ne _ _ rqP s.prep x h hx hp hp' hne hr hs e'

theorem pressureAtT_same_kind (psat : α → α) (Tp : α) (s : MState α) (inv : α → α) (rqL : α → α) (rqP : PRep α) (l : α)
    (h : s.prep.mode.isAbs = rqP.mode.isAbs) :
    pressureAtT psat Tp s.kelvin s inv rqL rqP l = pressureAtS psat s inv rqL rqP l := by
  unfold pressureAtS pressureAtT
  rw [convP_same_kind (psat Tp) (psat s.kelvin) s.prep rqP _ h]

theorem pressureAtT_mode_change_ne [CharZero α] (psat : α → α) (Tp : α) (s : MState α) (inv : α → α) (rqL : α → α)
    (rqP : PRep α) (l : α) (h : s.prep.mode.isAbs ≠ rqP.mode.isAbs)
    (hx : inv (l * (rqL s.kelvin / s.lscale s.kelvin)) ≠ 0)
    (hp : psat Tp ≠ 0) (hp' : psat s.kelvin ≠ 0) (hne : psat Tp ≠ psat s.kelvin) (hs : s.prep.unit ≠ 0)
    (hr : rqP.unit ≠ 0) :
    pressureAtT psat Tp s.kelvin s inv rqL rqP l ≠ pressureAtS psat s inv rqL rqP l := by
  unfold pressureAtS pressureAtT
  exact convP_mode_change_ne _ _ s.prep rqP _ h hx hp hp' hne hs hr

theorem spreadingAtT_same_kind (psat : α → α) (Tp : α) (s : MState α) (spr : α → α) (rqP : PRep α) (x : α)
    (h : rqP.mode.isAbs = s.prep.mode.isAbs) : spreadingAtT psat Tp s spr rqP x = spreadingAtS psat s spr rqP x := by
  unfold spreadingAtS spreadingAtT
  rw [convP_same_kind (psat Tp) (psat s.kelvin) rqP s.prep x h]

theorem spreadingAtT_mode_change_ne [CharZero α] (psat : α → α) (Tp : α) (s : MState α) (spr : α → α) (rqP : PRep α)
    (x : α) (h : rqP.mode.isAbs ≠ s.prep.mode.isAbs) (hinj : Function.Injective spr) (hx : x ≠ 0)
    (hp : psat Tp ≠ 0) (hp' : psat s.kelvin ≠ 0) (hne : psat Tp ≠ psat s.kelvin) (hs : s.prep.unit ≠ 0)
    (hr : rqP.unit ≠ 0) : spreadingAtT psat Tp s spr rqP x ≠ spreadingAtS psat s spr rqP x := by
  unfold spreadingAtS spreadingAtT
  intro e
  exact convP_mode_change_ne _ _ rqP s.prep x h hx hp hp' hne hr hs (hinj e)

/-- the loading conversion: representations whose SI content does not depend on the temperature (molar and mass bases) cannot
see the temperature it is handed … -/
theorem loadingAtT_lscale_const (psat : α → α) (Tl : α) (s : MState α) (model : α → α) (rqP : PRep α) (rqL : α → α) (x : α)
    (hc : s.lscale Tl / rqL Tl = s.lscale s.kelvin / rqL s.kelvin) :
    loadingAtT psat s.kelvin Tl s model rqP rqL x = loadingAtS psat s model rqP rqL x := by
  unfold loadingAtS loadingAtT
  rw [hc]

/-- … a volume basis (density at the temperature) does, wherever the model's value is not zero -/
theorem loadingAtT_lscale_ne (psat : α → α) (Tl : α) (s : MState α) (model : α → α) (rqP : PRep α) (rqL : α → α) (x : α)
    (hc : s.lscale Tl / rqL Tl ≠ s.lscale s.kelvin / rqL s.kelvin)
    (hm : model (convP (psat s.kelvin) rqP s.prep x) ≠ 0) :
    loadingAtT psat s.kelvin Tl s model rqP rqL x ≠ loadingAtS psat s model rqP rqL x := by
  unfold loadingAtS loadingAtT
  intro e
  exact hc (mul_left_cancel₀ hm e)

/-! ### whole-range accessors in a state -/

section Ordered
variable [LinearOrder α]

theorem wholePressureS_get (psat : α → α) (s : MState α) (a b : α) (n : Nat) (rqP : PRep α) (i : Nat) :
    (wholePressureS psat s a b n rqP none)[i]? = ((linspace a b n)[i]?).map (convP (psat s.kelvin) s.prep rqP) := by
  simp [wholePressureS, limitsStrict]

/-- it is the whole-range accessor of Range.lean with the loading factor of the state at its kelvin temperature -/
theorem wholeLoadingS_eq_wholeLoadingL (s : MState α) (model : α → α) (a b : α) (n : Nat) (rqL : α → α)
    (l : Option (Option α × Option α)) :
    wholeLoadingS s model a b n rqL l = wholeLoadingL model a b n (s.lscale s.kelvin / rqL s.kelvin) l := rfl

/-- `loading(points, …)` is `loading_at` (native pressures) on the grid of `pressure(points)` -/
theorem wholeLoadingS_eq_map_loadingAt (psat : α → α) (s : MState α) (model : α → α) (a b : α) (n : Nat) (rqL : α → α)
    (hs : s.prep.unit ≠ 0) :
    wholeLoadingS s model a b n rqL none = (linspace a b n).map (loadingAtS psat s model s.prep rqL) := by
  simp only [wholeLoadingS, limitsStrict, List.map_map]
  apply List.map_congr_left
  intro p _
  simp [loadingAtS, loadingAtT, convP_self _ _ _ hs]

/-- the grid of a °C state and of its K twin coincide -/
theorem wholePressureS_kelvinTwin (psat : α → α) (s : MState α) (a b : α) (n : Nat) (rqP : PRep α)
    (l : Option (Option α × Option α)) :
    wholePressureS psat (kelvinTwin s) a b n rqP l = wholePressureS psat s a b n rqP l := by
  show limitsStrict ((linspace a b n).map (convP (psat (kelvinTwin s).kelvin) s.prep rqP)) l = _
  rw [kelvinTwin_kelvin]
  rfl

end Ordered

/-! non-vacuity: butane-like numbers (saturation pressure 3 MPa at 413.15 K, 1 kPa at 140 K), Langmuir K = 1/5 per bar, n_m = 5 -/

example : kelvinOf true (140 : ℚ) = 8263 / 20 := by norm_num [kelvinOf]

example : convP (3000000 : ℚ) ⟨.relative, 1⟩ ⟨.absolute, 100000⟩ (1 / 20) = 3 / 2 := by norm_num [convP]

/-- the slip of handing the raw 140 to the pressure conversion on the °C state: 15/13 becomes 5/10001 -/
example :
    let psat : ℚ → ℚ := fun T => if T = 8263 / 20 then 3000000 else 1000
    let s : MState ℚ := ⟨true, 140, ⟨.absolute, 100000⟩, fun _ => 1⟩
    loadingAtS psat s (langmuir (1 / 5) 5) ⟨.relative, 1⟩ (fun _ => 1) (1 / 20) = 15 / 13
      ∧ loadingAtT psat s.temp s.kelvin s (langmuir (1 / 5) 5) ⟨.relative, 1⟩ (fun _ => 1) (1 / 20) = 5 / 10001 := by
  norm_num [loadingAtS, loadingAtT, MState.kelvin, kelvinOf, convP, langmuir]

example : (⟨.relative, 1⟩ : PRep ℚ).mode.isAbs ≠ (⟨.absolute, 100000⟩ : PRep ℚ).mode.isAbs := by decide

end PgVerif.C10
