/-
C10, last sentence ("evaluating through a model isotherm gives the bare model's values after unit conversion") for the
whole-range accessors `ModelIsotherm.pressure(points, …)` / `.loading(points, …)`, and the clause "for scalars and arrays
alike" as a statement about calls: the result on an array is the map of the scalar function, the caller's array is
unchanged, a second call gives the same answer.  Model: Model/ModelEval.lean (run at ℚ by Drv/ModelEval.lean and compared
with the implementation by harness/props/c10.py).
-/
import PgVerif.Model.ModelEval
import Mathlib.Algebra.Order.Field.Basic
import Mathlib.Algebra.Order.Field.Rat
import Mathlib.Tactic

namespace PgVerif.C10
open PgVerif.Model.MEval

set_option linter.unusedSectionVars false
variable {α : Type} [Field α]

/-! ### calls: scalars and arrays alike -/

/-- element `i` of the result is the scalar evaluation at element `i` -/
theorem call_elementwise (f : α → α) (xs : List α) (i : Nat) (h : i < xs.length) :
    ((call f xs).1)[i]'(by simp [call, h]) = f xs[i] := by
  simp [call]

theorem call_length (f : α → α) (xs : List α) : (call f xs).1.length = xs.length := by simp [call]

/-- the caller's array is unchanged … -/
theorem call_argument_unchanged (f : α → α) (xs : List α) : (call f xs).2 = xs := rfl

/-- … hence asking twice gives the same answer -/
theorem call_twice (f : α → α) (xs : List α) : call f (call f xs).2 = call f xs := rfl

/-- a one-element array and the scalar agree -/
theorem call_singleton (f : α → α) (x : α) : (call f [x]).1 = [f x] := rfl

/-- The defect class "works in place on the caller's array": the value returned by the first call is right, but the
caller's data have changed, and the second call with the same array gives another answer as soon as `f ∘ g` differs
from `f` on some element. -/
theorem callInPlace_first_result (g f : α → α) (xs : List α) : (callInPlace g f xs).1 = (call f xs).1 := rfl

theorem callInPlace_second_differs (g f : α → α) (xs : List α) (i : Nat) (h : i < xs.length)
    (hne : f (g xs[i]) ≠ f xs[i]) :
    (callInPlace g f (callInPlace g f xs).2).1 ≠ (callInPlace g f xs).1 := by
  intro e
  have := congrArg (fun l => l[i]?) e
  simp [callInPlace, h] at this
  exact hne this

/-- the only in-place behaviour the oracle cannot see is the harmless one -/
theorem callInPlace_unchanged_iff (g f : α → α) (xs : List α) :
    (callInPlace g f xs).2 = xs ↔ ∀ x ∈ xs, g x = x := by
  simp only [callInPlace]
  constructor
  · intro h x hx
    have h' : xs.map g = xs.map id := by simpa using h
    exact (List.map_inj_left.mp h') x hx
  · intro h
    have : xs.map g = xs.map id := List.map_inj_left.mpr (by simpa using h)
    simpa using this

/-! ### `numpy.linspace` -/

theorem linspace_length (a b : α) (n : Nat) : (linspace a b n).length = n := by
  unfold linspace; split_ifs with h <;> simp [h]

theorem linspace_get [CharZero α] (a b : α) (n i : Nat) (hn : 2 ≤ n) (hi : i < n) :
    (linspace a b n)[i]? = some (a + (b - a) * (i : α) / ((n - 1 : Nat) : α)) := by
  unfold linspace
  have h1 : n ≠ 1 := by omega
  simp [h1, hi]

/-- the first point is the lower end of the range the model was built on, the last one the upper end -/
theorem linspace_first [CharZero α] (a b : α) (n : Nat) (hn : 2 ≤ n) : (linspace a b n)[0]? = some a := by
  rw [linspace_get a b n 0 hn (by omega)]; simp

theorem linspace_last [CharZero α] (a b : α) (n : Nat) (hn : 2 ≤ n) : (linspace a b n)[n - 1]? = some b := by
  rw [linspace_get a b n (n - 1) hn (by omega)]
  have h : ((n - 1 : Nat) : α) ≠ 0 := by
    have : n - 1 ≠ 0 := by omega
    exact_mod_cast this
  congr 1; field_simp; ring

section Ordered
variable [LinearOrder α] [IsStrictOrderedRing α]

/-- every point of the grid lies in the range the model was built on: the model is never evaluated outside it -/
theorem linspace_mem_range (a b : α) (n : Nat) (hab : a ≤ b) (x : α) (hx : x ∈ linspace a b n) : a ≤ x ∧ x ≤ b := by
  unfold linspace at hx
  split_ifs at hx with h1
  · simp at hx; subst hx; exact ⟨le_refl _, hab⟩
  · simp only [List.mem_map, List.mem_range] at hx
    obtain ⟨i, hi, rfl⟩ := hx
    have hn1 : (0 : α) < ((n - 1 : Nat) : α) := by
      have : 0 < n - 1 := by omega
      exact_mod_cast this
    have hi' : (i : α) ≤ ((n - 1 : Nat) : α) := by
      have : i ≤ n - 1 := by omega
      exact_mod_cast this
    have h0 : (0 : α) ≤ (i : α) := by positivity
    have hba : 0 ≤ b - a := sub_nonneg.mpr hab
    have hq0 : 0 ≤ (b - a) * (i : α) / ((n - 1 : Nat) : α) := by positivity
    have hq1 : (b - a) * (i : α) / ((n - 1 : Nat) : α) ≤ b - a := by
      rw [div_le_iff₀ hn1]
      exact mul_le_mul_of_nonneg_left hi' hba
    constructor <;> linarith

/-- the grid is non-decreasing -/
theorem linspace_mono (a b : α) (n i j : Nat) (hab : a ≤ b) (hij : i ≤ j) (hn : 2 ≤ n) :
    a + (b - a) * (i : α) / ((n - 1 : Nat) : α) ≤ a + (b - a) * (j : α) / ((n - 1 : Nat) : α) := by
  have hn1 : (0 : α) < ((n - 1 : Nat) : α) := by
    have : 0 < n - 1 := by omega
    exact_mod_cast this
  have hba : 0 ≤ b - a := sub_nonneg.mpr hab
  have hij' : (i : α) ≤ (j : α) := by exact_mod_cast hij
  have : (b - a) * (i : α) / ((n - 1 : Nat) : α) ≤ (b - a) * (j : α) / ((n - 1 : Nat) : α) :=
    div_le_div_of_nonneg_right (mul_le_mul_of_nonneg_left hij' hba) hn1.le
  linarith

/-! ### limits and the whole-range accessors -/

theorem limitsStrict_none (vs : List α) : limitsStrict vs none = vs := rfl

/-- with proper limits: exactly the values strictly between them, in order -/
theorem mem_limitsStrict (vs : List α) (lo hi v : α) (h : lo ≠ 0 ∨ hi ≠ 0) :
    v ∈ limitsStrict vs (some (some lo, some hi)) ↔ v ∈ vs ∧ lo < v ∧ v < hi := by
  unfold limitsStrict
  have hn : ¬(lo = 0 ∧ hi = 0) := by
    rintro ⟨h1, h2⟩; rcases h with h | h <;> contradiction
  simp [hn]

theorem limitsStrict_sublist (vs : List α) (l : Option (Option α × Option α)) : (limitsStrict vs l).Sublist vs := by
  unfold limitsStrict
  rcases l with _ | ⟨lo, hi⟩
  · exact List.Sublist.refl _
  · simp only
    split_ifs
    · exact List.Sublist.refl _
    · exact List.filter_sublist

/-- "Evaluating through a model isotherm gives the bare model's values after unit conversion": without limits, element `i`
of `ModelIsotherm.loading(points)` is the converted bare model value at element `i` of the pressure grid in stored units -/
theorem wholeLoadingL_get (model : α → α) (a b : α) (n : Nat) (fL : α) (i : Nat) :
    (wholeLoadingL model a b n fL none)[i]? = ((linspace a b n)[i]?).map fun p => model p * fL := by
  simp [wholeLoadingL, limitsStrict, Function.comp_def]

theorem wholePressureL_get (a b : α) (n : Nat) (fP : α) (i : Nat) :
    (wholePressureL a b n fP none)[i]? = ((linspace a b n)[i]?).map (· * fP) := by
  simp [wholePressureL, limitsStrict]

theorem wholePressureP_get (model : α → α) (a b : α) (n : Nat) (fP : α) (i : Nat) :
    (wholePressureP model a b n fP none)[i]? = ((linspace a b n)[i]?).map fun l => model l * fP := by
  simp [wholePressureP, limitsStrict, Function.comp_def]

/-- the two accessors describe the same points: `loading(points)` is the bare model on `pressure(points)` (stored units) -/
theorem wholeLoadingL_eq_map_pressure (model : α → α) (a b : α) (n : Nat) :
    wholeLoadingL model a b n 1 none = (wholePressureL a b n 1 none).map model := by
  simp [wholeLoadingL, wholePressureL, limitsStrict]

/-- what the driver executes (`sel`) is the accessor, given the implementation's model values on the grid -/
theorem wholeLoadingL_eq_convertSelect (model : α → α) (a b : α) (n : Nat) (fL : α) (l : Option (Option α × Option α)) :
    wholeLoadingL model a b n fL l = convertSelect ((linspace a b n).map model) fL l := rfl

theorem wholePressureL_eq_convertSelect (a b : α) (n : Nat) (fP : α) (l : Option (Option α × Option α)) :
    wholePressureL a b n fP l = convertSelect (linspace a b n) fP l := rfl

end Ordered

/-! non-vacuity -/
example : linspace (1 : ℚ) 2 5 = [1, 5 / 4, 3 / 2, 7 / 4, 2] := by
  simp [linspace, List.range, List.range.loop]; norm_num
example : limitsStrict [(0 : ℚ), 2, 3] (some (some 0, none)) = [0, 2, 3] := by decide
example : limitsStrict [(1 : ℚ), 2, 3] (some (some 1, some 3)) = [2] := by decide
example : (callInPlace (· / 2) (fun x : ℚ => x + 1) (callInPlace (· / 2) (fun x : ℚ => x + 1) [2, 4]).2).1
    ≠ (callInPlace (· / 2) (fun x : ℚ => x + 1) [2, 4]).1 := by
  simp [callInPlace]

end PgVerif.C10
