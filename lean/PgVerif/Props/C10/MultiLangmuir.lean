/-
C10 for the multi-site Langmuir models.  Statements are about the *generated* functions
(`Gen.R.DSLangmuir_*`, `Gen.R.TSLangmuir_loading` = what modelling/dslangmuir.py and modelling/tslangmuir.py
say now); proofs go through the tie lemmas to the published equations (sums of single-site Langmuir terms).
Parameters strictly inside the declared bounds (0, ∞).  The TSLangmuir inverse is numerical (not translated).
-/
import PgVerif.Tie.Models
import PgVerif.Lemmas.Quad
import Mathlib.Analysis.SpecialFunctions.Log.Deriv
import Mathlib.Tactic

namespace PgVerif.C10
open PgVerif.Gen.R PgVerif.Spec.M Filter Topology

/-! ### single-site facts about the published Langmuir term -/

private lemma site_zero (K nm : ℝ) : langmuir K nm 0 = 0 := by simp [langmuir]

private lemma site_nonneg (K nm p : ℝ) (hK : 0 < K) (hnm : 0 < nm) (hp : 0 ≤ p) : 0 ≤ langmuir K nm p := by
  unfold langmuir; positivity

private lemma site_pos (K nm p : ℝ) (hK : 0 < K) (hnm : 0 < nm) (hp : 0 < p) : 0 < langmuir K nm p := by
  unfold langmuir; positivity

private lemma site_lt_sat (K nm p : ℝ) (hK : 0 < K) (hnm : 0 < nm) (hp : 0 ≤ p) : langmuir K nm p < nm := by
  unfold langmuir
  have h1 : 0 < 1 + K * p := by positivity
  rw [div_lt_iff₀ h1]; nlinarith

private lemma site_lt (K nm a b : ℝ) (hK : 0 < K) (hnm : 0 < nm) (ha : 0 ≤ a) (hab : a < b) :
    langmuir K nm a < langmuir K nm b := by
  unfold langmuir
  have hb : 0 ≤ b := le_trans ha hab.le
  have h1 : 0 < 1 + K * a := by positivity
  have h2 : 0 < 1 + K * b := by positivity
  rw [div_lt_div_iff₀ h1 h2]
  have : 0 < nm * K * (b - a) := by have := sub_pos.mpr hab; positivity
  nlinarith

private lemma site_henry (K nm : ℝ) :
    Tendsto (fun p => langmuir K nm p / p) (𝓝[>] 0) (𝓝 (nm * K)) := by
  have hc : ContinuousAt (fun p : ℝ => nm * K / (1 + K * p)) 0 := by
    apply ContinuousAt.div continuousAt_const (by fun_prop) (by simp)
  have h0 : Tendsto (fun p : ℝ => nm * K / (1 + K * p)) (𝓝[>] 0) (𝓝 (nm * K)) := by
    have := hc.tendsto.mono_left (nhdsWithin_le_nhds (s := Set.Ioi (0 : ℝ)))
    simpa using this
  refine h0.congr' ?_
  filter_upwards [self_mem_nhdsWithin] with p hp
  have hp' : p ≠ 0 := ne_of_gt hp
  unfold langmuir
  field_simp

/-! ### DSLangmuir -/

theorem dslangmuir_pos (nm1 K1 nm2 K2 p : ℝ) (hnm1 : 0 < nm1) (hK1 : 0 < K1) (hnm2 : 0 < nm2) (hK2 : 0 < K2)
    (hp : 0 < p) : 0 < DSLangmuir_loading nm1 K1 nm2 K2 p := by
  rw [PgVerif.Tie.dslangmuir_loading]; unfold dslangmuir
  have := site_pos K1 nm1 p hK1 hnm1 hp
  have := site_pos K2 nm2 p hK2 hnm2 hp
  linarith

theorem dslangmuir_zero (nm1 K1 nm2 K2 : ℝ) : DSLangmuir_loading nm1 K1 nm2 K2 0 = 0 := by
  rw [PgVerif.Tie.dslangmuir_loading]; unfold dslangmuir
  rw [site_zero, site_zero]; ring

theorem dslangmuir_nonneg (nm1 K1 nm2 K2 p : ℝ) (hnm1 : 0 < nm1) (hK1 : 0 < K1) (hnm2 : 0 < nm2) (hK2 : 0 < K2)
    (hp : 0 ≤ p) : 0 ≤ DSLangmuir_loading nm1 K1 nm2 K2 p := by
  rw [PgVerif.Tie.dslangmuir_loading]; unfold dslangmuir
  have := site_nonneg K1 nm1 p hK1 hnm1 hp
  have := site_nonneg K2 nm2 p hK2 hnm2 hp
  linarith

theorem dslangmuir_lt_sat (nm1 K1 nm2 K2 p : ℝ) (hnm1 : 0 < nm1) (hK1 : 0 < K1) (hnm2 : 0 < nm2) (hK2 : 0 < K2)
    (hp : 0 ≤ p) : DSLangmuir_loading nm1 K1 nm2 K2 p < nm1 + nm2 := by
  rw [PgVerif.Tie.dslangmuir_loading]; unfold dslangmuir
  have := site_lt_sat K1 nm1 p hK1 hnm1 hp
  have := site_lt_sat K2 nm2 p hK2 hnm2 hp
  linarith

theorem dslangmuir_strictMonoOn (nm1 K1 nm2 K2 : ℝ) (hnm1 : 0 < nm1) (hK1 : 0 < K1) (hnm2 : 0 < nm2)
    (hK2 : 0 < K2) : StrictMonoOn (DSLangmuir_loading nm1 K1 nm2 K2) (Set.Ici 0) := by
  intro a ha b _ hab
  simp only [Set.mem_Ici] at ha
  rw [PgVerif.Tie.dslangmuir_loading, PgVerif.Tie.dslangmuir_loading]; unfold dslangmuir
  have := site_lt K1 nm1 a b hK1 hnm1 ha hab
  have := site_lt K2 nm2 a b hK2 hnm2 ha hab
  linarith

/-- Henry limit: n(p)/p → n_m1 K1 + n_m2 K2 as p → 0⁺ -/
theorem dslangmuir_henry (nm1 K1 nm2 K2 : ℝ) :
    Tendsto (fun p => DSLangmuir_loading nm1 K1 nm2 K2 p / p) (𝓝[>] 0) (𝓝 (nm1 * K1 + nm2 * K2)) := by
  have h := (site_henry K1 nm1).add (site_henry K2 nm2)
  refine h.congr' ?_
  filter_upwards with p
  rw [PgVerif.Tie.dslangmuir_loading]; unfold dslangmuir
  rw [add_div]

/-- pressure(loading(p)) = p for p > 0: the code's `+√` root of
`x q² + y q - n = 0`, `x = (nm1+nm2-n) K1 K2 > 0`, is the positive one (the other root `-n/(x p)` is negative).
The point `p = 0` is `dslangmuir_pressure_zero` (together with `dslangmuir_zero`). -/
theorem dslangmuir_pressure_loading (nm1 K1 nm2 K2 p : ℝ) (hnm1 : 0 < nm1) (hK1 : 0 < K1) (hnm2 : 0 < nm2)
    (hK2 : 0 < K2) (hp : 0 < p) :
    DSLangmuir_pressure nm1 K1 nm2 K2 (DSLangmuir_loading nm1 K1 nm2 K2 p) = p := by
  have hn := dslangmuir_pos nm1 K1 nm2 K2 p hnm1 hK1 hnm2 hK2 hp
  have hsat := dslangmuir_lt_sat nm1 K1 nm2 K2 p hnm1 hK1 hnm2 hK2 hp.le
  rw [PgVerif.Tie.dslangmuir_loading] at hn hsat ⊢
  set n := dslangmuir nm1 K1 nm2 K2 p with hndef
  have h1 : 0 < 1 + K1 * p := by positivity
  have h2 : 0 < 1 + K2 * p := by positivity
  -- the defining relation  n (1 + K1 p)(1 + K2 p) = nm1 K1 p (1 + K2 p) + nm2 K2 p (1 + K1 p)
  have hrel : n * ((1 + K1 * p) * (1 + K2 * p))
      = nm1 * (K1 * p) * (1 + K2 * p) + nm2 * (K2 * p) * (1 + K1 * p) := by
    rw [hndef]; unfold dslangmuir langmuir
    field_simp
  have hxpos : 0 < (nm1 + nm2 - n) * K1 * K2 := by
    have : 0 < nm1 + nm2 - n := by linarith
    positivity
  unfold DSLangmuir_pressure nanToZero
  simp only []
  apply PgVerif.Quad.stable_plus' ((nm1 + nm2 - n) * K1 * K2) _ n p (-n / ((nm1 + nm2 - n) * K1 * K2 * p)) hxpos.ne'
  · have hs : nm1 + nm2 - n ≠ 0 := by linarith
    field_simp
    nlinarith [hrel]
  · have hs : nm1 + nm2 - n ≠ 0 := by linarith
    field_simp
  · constructor
    · intro _
      have : -n / ((nm1 + nm2 - n) * K1 * K2 * p) < 0 :=
        div_neg_of_neg_of_pos (by linarith) (by positivity)
      linarith
    · intro hneg; linarith

/-- at loading 0 the branch `y = nm1 K1 + nm2 K2 > 0` is taken: a genuine `(2 · 0) / (2 y)` with a non-zero denominator (no `0/0`, no NaN) -/
private lemma dslangmuir_pressure_zero_point (nm1 K1 nm2 K2 : ℝ) (hnm1 : 0 < nm1) (hK1 : 0 < K1) (hnm2 : 0 < nm2)
    (hK2 : 0 < K2) :
    let x := (nm1 + nm2 - 0) * K1 * K2
    let y := nm1 * K1 + nm2 * K2 - 0 * (K1 + K2)
    y > 0 ∧ y + Real.sqrt (y ^ 2 - 4 * x * (-0)) ≠ 0 := by
  simp only []
  have hy : nm1 * K1 + nm2 * K2 - 0 * (K1 + K2) > 0 := by
    have := mul_pos hnm1 hK1
    have := mul_pos hnm2 hK2
    show 0 < nm1 * K1 + nm2 * K2 - 0 * (K1 + K2)
    linarith
  have hs := Real.sqrt_nonneg ((nm1 * K1 + nm2 * K2 - 0 * (K1 + K2)) ^ 2 - 4 * ((nm1 + nm2 - 0) * K1 * K2) * (-0))
  refine ⟨hy, ?_⟩
  have : 0 < nm1 * K1 + nm2 * K2 - 0 * (K1 + K2) := hy
  linarith

/-- pressure(0) = 0.  The denominator `2 (nm1 K1 + nm2 K2)` is not zero here (this needs the parameters positive; it is not an
instance of `x / 0 = 0`). -/
theorem dslangmuir_pressure_zero (nm1 K1 nm2 K2 : ℝ) (hnm1 : 0 < nm1) (hK1 : 0 < K1) (hnm2 : 0 < nm2)
    (hK2 : 0 < K2) : DSLangmuir_pressure nm1 K1 nm2 K2 0 = 0 := by
  obtain ⟨hy, _hden⟩ := dslangmuir_pressure_zero_point nm1 K1 nm2 K2 hnm1 hK1 hnm2 hK2
  unfold DSLangmuir_pressure nanToZero
  simp only [] at hy ⊢
  rw [if_pos hy, mul_zero, zero_div]

/-! ### TSLangmuir -/

theorem tslangmuir_zero (nm1 nm2 nm3 K1 K2 K3 : ℝ) : TSLangmuir_loading nm1 nm2 nm3 K1 K2 K3 0 = 0 := by
  rw [PgVerif.Tie.tslangmuir_loading]; unfold tslangmuir
  rw [site_zero, site_zero, site_zero]; ring

theorem tslangmuir_nonneg (nm1 nm2 nm3 K1 K2 K3 p : ℝ) (hnm1 : 0 < nm1) (hnm2 : 0 < nm2) (hnm3 : 0 < nm3)
    (hK1 : 0 < K1) (hK2 : 0 < K2) (hK3 : 0 < K3) (hp : 0 ≤ p) :
    0 ≤ TSLangmuir_loading nm1 nm2 nm3 K1 K2 K3 p := by
  rw [PgVerif.Tie.tslangmuir_loading]; unfold tslangmuir
  have := site_nonneg K1 nm1 p hK1 hnm1 hp
  have := site_nonneg K2 nm2 p hK2 hnm2 hp
  have := site_nonneg K3 nm3 p hK3 hnm3 hp
  linarith

theorem tslangmuir_lt_sat (nm1 nm2 nm3 K1 K2 K3 p : ℝ) (hnm1 : 0 < nm1) (hnm2 : 0 < nm2) (hnm3 : 0 < nm3)
    (hK1 : 0 < K1) (hK2 : 0 < K2) (hK3 : 0 < K3) (hp : 0 ≤ p) :
    TSLangmuir_loading nm1 nm2 nm3 K1 K2 K3 p < nm1 + nm2 + nm3 := by
  rw [PgVerif.Tie.tslangmuir_loading]; unfold tslangmuir
  have := site_lt_sat K1 nm1 p hK1 hnm1 hp
  have := site_lt_sat K2 nm2 p hK2 hnm2 hp
  have := site_lt_sat K3 nm3 p hK3 hnm3 hp
  linarith

theorem tslangmuir_strictMonoOn (nm1 nm2 nm3 K1 K2 K3 : ℝ) (hnm1 : 0 < nm1) (hnm2 : 0 < nm2) (hnm3 : 0 < nm3)
    (hK1 : 0 < K1) (hK2 : 0 < K2) (hK3 : 0 < K3) :
    StrictMonoOn (TSLangmuir_loading nm1 nm2 nm3 K1 K2 K3) (Set.Ici 0) := by
  intro a ha b _ hab
  simp only [Set.mem_Ici] at ha
  rw [PgVerif.Tie.tslangmuir_loading, PgVerif.Tie.tslangmuir_loading]; unfold tslangmuir
  have := site_lt K1 nm1 a b hK1 hnm1 ha hab
  have := site_lt K2 nm2 a b hK2 hnm2 ha hab
  have := site_lt K3 nm3 a b hK3 hnm3 ha hab
  linarith

/-- Henry limit: n(p)/p → n_m1 K1 + n_m2 K2 + n_m3 K3 as p → 0⁺ -/
theorem tslangmuir_henry (nm1 nm2 nm3 K1 K2 K3 : ℝ) :
    Tendsto (fun p => TSLangmuir_loading nm1 nm2 nm3 K1 K2 K3 p / p) (𝓝[>] 0)
      (𝓝 (nm1 * K1 + nm2 * K2 + nm3 * K3)) := by
  have h := ((site_henry K1 nm1).add (site_henry K2 nm2)).add (site_henry K3 nm3)
  refine h.congr' ?_
  filter_upwards with p
  rw [PgVerif.Tie.tslangmuir_loading]; unfold tslangmuir
  rw [add_div, add_div]

end PgVerif.C10
