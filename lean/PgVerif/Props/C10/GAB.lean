/-
C10 for GAB.  Statements about the generated functions (`Gen.R.GAB_*` = modelling/gab.py now).
GAB is BET in the reduced variable `u = K p`.  Validity range of the property: below the pole, `K p < 1`;
parameters strictly inside the bounds `n_m, C > 0`, `0 < K` (`K < 1` is not needed).  Since the repair of finding S51-C10a/b the
inverse is computed in the cancellation-free form of the same root (`Lemmas/Quad.lean` `stable_minus_eq`), which also covers
`C = 1` (the quadratic degenerates, `x = 0`; the earlier form divided by zero and returned the pressure 0 for every loading:
`Props/C10/Findings.lean`), so `gab_pressure_loading` no longer needs `C ≠ 1`.
-/
import PgVerif.Tie.Models
import PgVerif.Lemmas.Quad
import Mathlib.Tactic

namespace PgVerif.C10
open PgVerif.Gen.R PgVerif.Spec.M Filter Topology

theorem gab_pos (nm C K p : ℝ) (hnm : 0 < nm) (hC : 0 < C) (hK : 0 < K) (hp : 0 < p) (hpole : K * p < 1) :
    0 < GAB_loading nm C K p := by
  rw [PgVerif.Tie.gab_loading]; unfold gab
  have h1 : 0 < 1 - K * p := by linarith
  have h2 : 0 < 1 - K * p + C * (K * p) := by positivity
  positivity

/-- pressure(loading(p)) = p below the pole, for EVERY `C > 0` (`C = 1` included) -/
theorem gab_pressure_loading (nm C K p : ℝ) (hnm : 0 < nm) (hC : 0 < C) (hK : 0 < K)
    (hp : 0 < p) (hpole : K * p < 1) :
    GAB_pressure nm C K (GAB_loading nm C K p) = p := by
  have hn := gab_pos nm C K p hnm hC hK hp hpole
  rw [PgVerif.Tie.gab_loading] at hn ⊢
  set n := gab nm C K p with hndef
  have h1 : 0 < 1 - K * p := by linarith
  have h2 : 0 < 1 - K * p + C * (K * p) := by positivity
  -- the defining relation n (1 - K p)(1 - K p + C K p) = nm C K p
  have hrel : n * ((1 - K * p) * (1 - K * p + C * (K * p))) = nm * C * (K * p) := by
    rw [hndef]; unfold gab
    have hd : (1 - K * p) * (1 - K * p + C * (K * p)) ≠ 0 := by positivity
    rw [div_mul_cancel₀ _ hd]
  unfold GAB_pressure nanToZero
  simp only []
  by_cases hC1 : C = 1
  · -- the degenerate case: x = 0, the equation is y q + n = 0 with y = -(n + nm) K < 0
    have hx0 : n * (1 - C) * K ^ 2 = 0 := by rw [hC1]; ring
    have hy : (n * (C - 2) - nm * C) * K < 0 := by
      rw [hC1]
      have : n * (1 - 2) - nm * 1 < 0 := by linarith
      exact mul_neg_of_neg_of_pos this hK
    rw [PgVerif.Quad.stable_minus_linear _ _ _ hx0 hy]
    rw [div_eq_iff (ne_of_lt hy)]
    rw [hC1] at hrel ⊢
    linear_combination (-1) * hrel
  have h1C : 1 - C ≠ 0 := sub_ne_zero.mpr (Ne.symm hC1)
  have hx : n * (1 - C) * K ^ 2 ≠ 0 := by positivity
  apply PgVerif.Quad.stable_minus' (n * (1 - C) * K ^ 2) _ n p (1 / ((1 - C) * K ^ 2 * p)) hx
  · field_simp
    nlinarith [hrel]
  · field_simp
  · constructor
    · intro hpos
      have hC' : 0 < 1 - C := by
        by_contra h
        have h' : 1 - C < 0 := lt_of_le_of_ne (not_lt.mp h) h1C
        have : n * (1 - C) * K ^ 2 < 0 := by
          have := mul_pos hn (pow_pos hK 2); nlinarith
        linarith
      rw [le_div_iff₀ (by positivity)]
      have hu : 0 < K * p := mul_pos hK hp
      have hu2 : (K * p) * (K * p) < 1 := by nlinarith
      have : (1 - C) * ((K * p) * (K * p)) < 1 := by nlinarith
      nlinarith
    · intro hneg
      have hC' : 1 - C < 0 := by
        by_contra h
        have : 0 < 1 - C := lt_of_le_of_ne (not_lt.mp h) (Ne.symm h1C)
        have : 0 < n * (1 - C) * K ^ 2 := by positivity
        linarith
      have : 1 / ((1 - C) * K ^ 2 * p) < 0 := by
        apply div_neg_of_pos_of_neg one_pos
        have := mul_pos (pow_pos hK 2) hp; nlinarith
      linarith

/-- non-vacuity, and the instance that was finding S51-C10b: `C = 1` -/
example : GAB_pressure 1 1 (2 / 5) (GAB_loading 1 1 (2 / 5) 1) = 1 :=
  gab_pressure_loading 1 1 (2 / 5) 1 (by norm_num) (by norm_num) (by norm_num) (by norm_num) (by norm_num)

theorem gab_zero (nm C K : ℝ) : GAB_loading nm C K 0 = 0 := by
  rw [PgVerif.Tie.gab_loading]; simp [gab]

/-- the zero point of the inverse: at loading 0 the branch `y = -n_m C K < 0` is taken and the quotient is a genuine
`(2 · 0) / (2 n_m C K)` with a non-zero denominator (no `0/0`, no NaN; the textbook form was `0/0` here and relied on `nan_to_num`) -/
theorem gab_pressure_zero_point (nm C K : ℝ) (hnm : 0 < nm) (hC : 0 < C) (hK : 0 < K) :
    let x := (0 : ℝ) * (1 - C) * K ^ 2
    let y := ((0 : ℝ) * (C - 2) - nm * C) * K
    y < 0 ∧ Real.sqrt (y ^ 2 - 4 * x * 0) - y ≠ 0 ∧ GAB_pressure nm C K 0 = 0 := by
  simp only []
  have hy : ((0 : ℝ) * (C - 2) - nm * C) * K < 0 := by
    have : (0 : ℝ) * (C - 2) - nm * C < 0 := by nlinarith [mul_pos hnm hC]
    exact mul_neg_of_neg_of_pos this hK
  have hs := Real.sqrt_nonneg ((((0 : ℝ) * (C - 2) - nm * C) * K) ^ 2 - 4 * (0 * (1 - C) * K ^ 2) * 0)
  refine ⟨hy, by linarith, ?_⟩
  unfold GAB_pressure nanToZero
  simp only []
  rw [if_pos hy, mul_zero, zero_div]

/-- pressure(loading(p)) = p on the whole validity range, zero point included -/
theorem gab_pressure_loading_nonneg (nm C K p : ℝ) (hnm : 0 < nm) (hC : 0 < C) (hK : 0 < K)
    (hp : 0 ≤ p) (hpole : K * p < 1) :
    GAB_pressure nm C K (GAB_loading nm C K p) = p := by
  rcases hp.eq_or_lt with h0 | hpos
  · rw [← h0, gab_zero]
    exact (gab_pressure_zero_point nm C K hnm hC hK).2.2
  · exact gab_pressure_loading nm C K p hnm hC hK hpos hpole

theorem gab_strictMonoOn (nm C K : ℝ) (hnm : 0 < nm) (hC : 0 < C) (hK : 0 < K) :
    StrictMonoOn (GAB_loading nm C K) {p | 0 ≤ p ∧ K * p < 1} := by
  intro a ha b hb hab
  simp only [Set.mem_setOf_eq] at ha hb
  rw [PgVerif.Tie.gab_loading, PgVerif.Tie.gab_loading]; unfold gab
  have hb0 : 0 ≤ b := le_trans ha.1 hab.le
  have a1 : 0 < 1 - K * a := by linarith [ha.2]
  have b1 : 0 < 1 - K * b := by linarith [hb.2]
  have a2 : 0 < 1 - K * a + C * (K * a) := by have := ha.1; positivity
  have b2 : 0 < 1 - K * b + C * (K * b) := by positivity
  rw [div_lt_div_iff₀ (by positivity) (by positivity)]
  have hba : 0 < b - a := sub_pos.mpr hab
  have key : nm * C * (K * b) * ((1 - K * a) * (1 - K * a + C * (K * a)))
        - nm * C * (K * a) * ((1 - K * b) * (1 - K * b + C * (K * b)))
      = nm * C * K * (b - a) * (1 - K * a * (K * b) + K * a * (C * (K * b))) := by ring
  have hpos : 0 < 1 - K * a * (K * b) + K * a * (C * (K * b)) := by
    have h0 : 0 ≤ K * a := by have := ha.1; positivity
    have h1 : K * a * (K * b) < 1 := by nlinarith [ha.2, hb.2]
    have h2 : 0 ≤ K * a * (C * (K * b)) := by positivity
    linarith
  have : 0 < nm * C * K * (b - a) * (1 - K * a * (K * b) + K * a * (C * (K * b))) := by positivity
  linarith

/-- Henry limit: n(p)/p → n_m C K as p → 0⁺ -/
theorem gab_henry (nm C K : ℝ) :
    Tendsto (fun p => GAB_loading nm C K p / p) (𝓝[>] 0) (𝓝 (nm * C * K)) := by
  have hc : ContinuousAt (fun p : ℝ => nm * C * K / ((1 - K * p) * (1 - K * p + C * (K * p)))) 0 := by
    apply ContinuousAt.div continuousAt_const (by fun_prop) (by simp)
  have h0 : Tendsto (fun p : ℝ => nm * C * K / ((1 - K * p) * (1 - K * p + C * (K * p)))) (𝓝[>] 0)
      (𝓝 (nm * C * K)) := by
    have := hc.tendsto.mono_left (nhdsWithin_le_nhds (s := Set.Ioi (0 : ℝ)))
    simpa using this
  refine h0.congr' ?_
  filter_upwards [self_mem_nhdsWithin] with p hp
  have hp' : p ≠ 0 := ne_of_gt hp
  rw [PgVerif.Tie.gab_loading]; unfold gab
  by_cases hd : (1 - K * p) * (1 - K * p + C * (K * p)) = 0
  · simp [hd]
  · field_simp

end PgVerif.C10
