/-
C10, exact reference for the rational models.  `Model.MEval.*` (Model/ModelEval.lean) are the published rational
equations over an arbitrary field; the driver runs them at ℚ on the doubles the harness sends, the harness compares the
library's floating-point result with that exact value over the whole range (extreme low coverage … the pole).

Here: (1) at ℝ they ARE the specification `Spec.M.*`, hence (tie lemmas) what modelling/*.py says now;
(2) the facts the harness' tolerances rest on, for every ordered field (so also for the ℚ that is executed):
round trip, the quantitative Henry limit `0 ≤ n_m K p − n(p) ≤ n_m K p · K p` (the relative distance of `n(p)/p` from
the Henry constant is at most `K p`: an evaluation whose relative error grows as the coverage falls cannot be within
it), and the conditioning of the inverse near saturation (`pressure` amplifies a relative error of the loading by
`n_m / (n_m − n)`, which is the factor in the tolerance of the round trip close to saturation).
-/
import PgVerif.Model.ModelEval
import PgVerif.Tie.Models
import Mathlib.Tactic

namespace PgVerif.C10
open PgVerif.Model

/-! ### (1) the executed reference is the specification -/

theorem exact_henry_eq_spec (K p : ℝ) : MEval.henry K p = Spec.M.henry K p := rfl
theorem exact_henryInv_eq_spec (K n : ℝ) : MEval.henryInv K n = Spec.M.henryInv K n := rfl
theorem exact_langmuir_eq_spec (K nm p : ℝ) : MEval.langmuir K nm p = Spec.M.langmuir K nm p := rfl
theorem exact_langmuirInv_eq_spec (K nm n : ℝ) : MEval.langmuirInv K nm n = Spec.M.langmuirInv K nm n := rfl
theorem exact_dslangmuir_eq_spec (nm1 K1 nm2 K2 p : ℝ) :
    MEval.dslangmuir nm1 K1 nm2 K2 p = Spec.M.dslangmuir nm1 K1 nm2 K2 p := rfl
theorem exact_tslangmuir_eq_spec (nm1 nm2 nm3 K1 K2 K3 p : ℝ) :
    MEval.tslangmuir nm1 nm2 nm3 K1 K2 K3 p = Spec.M.tslangmuir nm1 nm2 nm3 K1 K2 K3 p := rfl
theorem exact_bet_eq_spec (nm C N p : ℝ) : MEval.bet nm C N p = Spec.M.bet nm C N p := rfl
theorem exact_gab_eq_spec (nm C K p : ℝ) : MEval.gab nm C K p = Spec.M.gab nm C K p := rfl
theorem exact_quadratic_eq_spec (nm Ka Kb p : ℝ) : MEval.quadratic nm Ka Kb p = Spec.M.quadratic nm Ka Kb p := rfl
theorem exact_temkin_eq_spec (nm K tht p : ℝ) : MEval.temkin nm K tht p = Spec.M.temkin nm K tht p := rfl

/-- … and therefore what the code says now (generated from modelling/langmuir.py on this run) -/
theorem exact_langmuir_eq_code (K nm p : ℝ) : Gen.R.Langmuir_loading K nm p = MEval.langmuir K nm p := by
  rw [PgVerif.Tie.langmuir_loading]; rfl
theorem exact_langmuirInv_eq_code (K nm n : ℝ) : Gen.R.Langmuir_pressure K nm n = MEval.langmuirInv K nm n := by
  rw [PgVerif.Tie.langmuir_pressure]; rfl
theorem exact_dslangmuir_eq_code (nm1 K1 nm2 K2 p : ℝ) :
    Gen.R.DSLangmuir_loading nm1 K1 nm2 K2 p = MEval.dslangmuir nm1 K1 nm2 K2 p := by
  rw [PgVerif.Tie.dslangmuir_loading]; rfl
theorem exact_tslangmuir_eq_code (nm1 nm2 nm3 K1 K2 K3 p : ℝ) :
    Gen.R.TSLangmuir_loading nm1 nm2 nm3 K1 K2 K3 p = MEval.tslangmuir nm1 nm2 nm3 K1 K2 K3 p := by
  rw [PgVerif.Tie.tslangmuir_loading]; rfl
theorem exact_bet_eq_code (nm C N p : ℝ) : Gen.R.BET_loading nm C N p = MEval.bet nm C N p := by
  rw [PgVerif.Tie.bet_loading]; rfl
theorem exact_gab_eq_code (nm C K p : ℝ) : Gen.R.GAB_loading nm C K p = MEval.gab nm C K p := by
  rw [PgVerif.Tie.gab_loading]; rfl
theorem exact_quadratic_eq_code (nm Ka Kb p : ℝ) : Gen.R.Quadratic_loading nm Ka Kb p = MEval.quadratic nm Ka Kb p := by
  rw [PgVerif.Tie.quadratic_loading]; rfl
theorem exact_temkin_eq_code (nm K tht p : ℝ) : Gen.R.TemkinApprox_loading nm K tht p = MEval.temkin nm K tht p := by
  rw [PgVerif.Tie.temkin_loading]; rfl

/-! ### (2) facts over every ordered field -/

section Field
set_option linter.unusedSectionVars false
variable {α : Type} [Field α] [LinearOrder α] [IsStrictOrderedRing α]

theorem exact_langmuir_roundtrip (K nm p : α) (hK : 0 < K) (hnm : 0 < nm) (hp : 0 ≤ p) :
    MEval.langmuirInv K nm (MEval.langmuir K nm p) = p := by
  unfold MEval.langmuirInv MEval.langmuir
  have h1 : (1 + K * p) ≠ 0 := by positivity
  have h2 : nm - nm * (K * p) / (1 + K * p) = nm / (1 + K * p) := by field_simp; ring
  rw [h2]; field_simp

theorem exact_langmuir_roundtrip' (K nm n : α) (hK : 0 < K) (hnm : 0 < nm) (hsat : n < nm) :
    MEval.langmuir K nm (MEval.langmuirInv K nm n) = n := by
  unfold MEval.langmuirInv MEval.langmuir
  have h1 : nm - n ≠ 0 := by linarith
  have hK' : K ≠ 0 := hK.ne'
  have hnm' : nm ≠ 0 := hnm.ne'
  have h2 : 1 + K * (n / (K * (nm - n))) = nm / (nm - n) := by field_simp; ring
  rw [h2]; field_simp

/-- distance from Henry's law, exactly -/
theorem exact_langmuir_henry_gap (K nm p : α) (hK : 0 < K) (hp : 0 ≤ p) :
    nm * K * p - MEval.langmuir K nm p = nm * K * p * (K * p / (1 + K * p)) := by
  unfold MEval.langmuir
  have h1 : (1 + K * p) ≠ 0 := by positivity
  field_simp; ring

/-- the quantitative Henry limit: `n_m K p (1 − K p) ≤ n(p) ≤ n_m K p` -/
theorem exact_langmuir_henry_rate (K nm p : α) (hK : 0 < K) (hnm : 0 < nm) (hp : 0 ≤ p) :
    0 ≤ nm * K * p - MEval.langmuir K nm p ∧ nm * K * p - MEval.langmuir K nm p ≤ nm * K * p * (K * p) := by
  rw [exact_langmuir_henry_gap K nm p hK hp]
  have h1 : 0 < 1 + K * p := by positivity
  have hx : 0 ≤ K * p := by positivity
  have h2 : K * p / (1 + K * p) ≤ K * p := by
    rw [div_le_iff₀ h1]; nlinarith
  have h3 : 0 ≤ K * p / (1 + K * p) := by positivity
  have h4 : 0 ≤ nm * K * p := by positivity
  exact ⟨mul_nonneg h4 h3, mul_le_mul_of_nonneg_left h2 h4⟩

/-- in relative form (what the harness checks): `|n(p) / (n_m K p) − 1| ≤ K p` for `p > 0` -/
theorem exact_langmuir_henry_rel (K nm p : α) (hK : 0 < K) (hnm : 0 < nm) (hp : 0 < p) :
    |MEval.langmuir K nm p / (nm * K * p) - 1| ≤ K * p := by
  have hd : 0 < nm * K * p := by positivity
  obtain ⟨h0, h1⟩ := exact_langmuir_henry_rate K nm p hK hnm hp.le
  have e : MEval.langmuir K nm p / (nm * K * p) - 1 = -((nm * K * p - MEval.langmuir K nm p) / (nm * K * p)) := by
    field_simp; ring
  rw [e, abs_neg, abs_of_nonneg (div_nonneg h0 hd.le), div_le_iff₀ hd]
  calc nm * K * p - MEval.langmuir K nm p ≤ nm * K * p * (K * p) := h1
    _ = K * p * (nm * K * p) := by ring

/-- the same for the multi-site models, with the largest affinity -/
theorem exact_dslangmuir_henry_rate (nm1 K1 nm2 K2 Kmax p : α) (hK1 : 0 < K1) (hK2 : 0 < K2) (hnm1 : 0 < nm1)
    (hnm2 : 0 < nm2) (h1 : K1 ≤ Kmax) (h2 : K2 ≤ Kmax) (hp : 0 ≤ p) :
    0 ≤ (nm1 * K1 + nm2 * K2) * p - MEval.dslangmuir nm1 K1 nm2 K2 p ∧
      (nm1 * K1 + nm2 * K2) * p - MEval.dslangmuir nm1 K1 nm2 K2 p ≤ (nm1 * K1 + nm2 * K2) * p * (Kmax * p) := by
  obtain ⟨a0, a1⟩ := exact_langmuir_henry_rate K1 nm1 p hK1 hnm1 hp
  obtain ⟨b0, b1⟩ := exact_langmuir_henry_rate K2 nm2 p hK2 hnm2 hp
  unfold MEval.dslangmuir
  have c1 : nm1 * K1 * p * (K1 * p) ≤ nm1 * K1 * p * (Kmax * p) :=
    mul_le_mul_of_nonneg_left (mul_le_mul_of_nonneg_right h1 hp) (by positivity)
  have c2 : nm2 * K2 * p * (K2 * p) ≤ nm2 * K2 * p * (Kmax * p) :=
    mul_le_mul_of_nonneg_left (mul_le_mul_of_nonneg_right h2 hp) (by positivity)
  constructor
  · nlinarith
  · nlinarith

theorem exact_tslangmuir_henry_rate (nm1 nm2 nm3 K1 K2 K3 Kmax p : α) (hK1 : 0 < K1) (hK2 : 0 < K2) (hK3 : 0 < K3)
    (hnm1 : 0 < nm1) (hnm2 : 0 < nm2) (hnm3 : 0 < nm3) (h1 : K1 ≤ Kmax) (h2 : K2 ≤ Kmax) (h3 : K3 ≤ Kmax) (hp : 0 ≤ p) :
    0 ≤ (nm1 * K1 + nm2 * K2 + nm3 * K3) * p - MEval.tslangmuir nm1 nm2 nm3 K1 K2 K3 p ∧
      (nm1 * K1 + nm2 * K2 + nm3 * K3) * p - MEval.tslangmuir nm1 nm2 nm3 K1 K2 K3 p
        ≤ (nm1 * K1 + nm2 * K2 + nm3 * K3) * p * (Kmax * p) := by
  obtain ⟨a0, a1⟩ := exact_langmuir_henry_rate K1 nm1 p hK1 hnm1 hp
  obtain ⟨b0, b1⟩ := exact_langmuir_henry_rate K2 nm2 p hK2 hnm2 hp
  obtain ⟨c0, c1'⟩ := exact_langmuir_henry_rate K3 nm3 p hK3 hnm3 hp
  unfold MEval.tslangmuir
  have c1 : nm1 * K1 * p * (K1 * p) ≤ nm1 * K1 * p * (Kmax * p) :=
    mul_le_mul_of_nonneg_left (mul_le_mul_of_nonneg_right h1 hp) (by positivity)
  have c2 : nm2 * K2 * p * (K2 * p) ≤ nm2 * K2 * p * (Kmax * p) :=
    mul_le_mul_of_nonneg_left (mul_le_mul_of_nonneg_right h2 hp) (by positivity)
  have c3 : nm3 * K3 * p * (K3 * p) ≤ nm3 * K3 * p * (Kmax * p) :=
    mul_le_mul_of_nonneg_left (mul_le_mul_of_nonneg_right h3 hp) (by positivity)
  constructor
  · nlinarith
  · nlinarith

/-- conditioning of the inverse: a perturbed loading `n'` moves the pressure by exactly this much … -/
theorem exact_langmuirInv_sub (K nm n n' : α) (hK : K ≠ 0) (h : nm - n ≠ 0) (h' : nm - n' ≠ 0) :
    MEval.langmuirInv K nm n' - MEval.langmuirInv K nm n = nm * (n' - n) / (K * (nm - n) * (nm - n')) := by
  unfold MEval.langmuirInv; field_simp; ring

/-- … i.e. a relative error of the loading is amplified by `n_m / (n_m − n')` (unbounded towards saturation; `1` at low
coverage: no loss of relative accuracy is inherent there) -/
theorem exact_langmuirInv_rel (K nm n n' : α) (hK : K ≠ 0) (hn : n ≠ 0) (h : nm - n ≠ 0) (h' : nm - n' ≠ 0) :
    (MEval.langmuirInv K nm n' - MEval.langmuirInv K nm n) / MEval.langmuirInv K nm n
      = (n' - n) / n * (nm / (nm - n')) := by
  rw [exact_langmuirInv_sub K nm n n' hK h h']
  unfold MEval.langmuirInv; field_simp

/-- BET / GAB / Quadratic / Temkin: the ratio to Henry's law in closed form (`n(p)/(K_H p)`; its distance from 1 is first
order in `p`) -/
theorem exact_bet_henry_ratio (nm C N p : α) (hnm : nm ≠ 0) (hC : C ≠ 0) (hp : p ≠ 0) :
    MEval.bet nm C N p / (nm * C * p) = 1 / ((1 - N * p) * (1 - N * p + C * p)) := by
  unfold MEval.bet
  by_cases hd : (1 - N * p) * (1 - N * p + C * p) = 0
  · rw [hd]; simp
  · field_simp

theorem exact_quadratic_henry_ratio (nm Ka Kb p : α) (hnm : nm ≠ 0) (hKa : Ka ≠ 0) (hp : p ≠ 0) :
    MEval.quadratic nm Ka Kb p / (nm * Ka * p) = (1 + 2 * (Kb / Ka) * p) / (1 + Ka * p + Kb * p ^ 2) := by
  unfold MEval.quadratic
  by_cases hd : 1 + Ka * p + Kb * p ^ 2 = 0
  · rw [hd]; simp
  · field_simp

end Field

/-! non-vacuity / the executed instance -/
example : MEval.langmuir (3 : ℚ) 5 (1 / 10 ^ 18) = 15 / 1000000000000000003 := by norm_num [MEval.langmuir]
example : MEval.langmuirInv (3 : ℚ) 5 (MEval.langmuir 3 5 (1 / 10 ^ 18)) = 1 / 10 ^ 18 :=
  exact_langmuir_roundtrip 3 5 _ (by norm_num) (by norm_num) (by positivity)
example : |MEval.langmuir (3 : ℚ) 5 (1 / 10 ^ 6) / (5 * 3 * (1 / 10 ^ 6)) - 1| ≤ 3 * (1 / 10 ^ 6) :=
  exact_langmuir_henry_rel 3 5 _ (by norm_num) (by norm_num) (by positivity)

end PgVerif.C10
