/-
C10 for Quadratic.  Statements about the generated functions (`Gen.R.Quadratic_*` = modelling/quadratic.py now).
The declared bounds allow any real `Ka`, `Kb`; the property (monotone, invertible, bounded by the saturation
`2 n_m`) only makes sense for positive constants, so every theorem takes `n_m, Ka, Kb > 0` explicitly.
Validity range: `p ≥ 0` (no pole for positive constants).  Since the repair of finding S51-C10a/b the inverse is computed in the
cancellation-free form of the same root (`Lemmas/Quad.lean` `stable_minus_eq`), which also covers `Kb = 0` (the model is Langmuir's
then, the quadratic degenerates; the earlier form divided by zero and returned the pressure 0 for every loading):
`quadratic_pressure_loading_kb_zero`.
-/
import PgVerif.Tie.Models
import PgVerif.Lemmas.Quad
import Mathlib.Tactic

namespace PgVerif.C10
open PgVerif.Gen.R PgVerif.Spec.M Filter Topology

theorem quadratic_pos (nm Ka Kb p : ℝ) (hnm : 0 < nm) (hKa : 0 < Ka) (hKb : 0 < Kb) (hp : 0 < p) :
    0 < Quadratic_loading nm Ka Kb p := by
  rw [PgVerif.Tie.quadratic_loading]; unfold quadratic
  positivity

theorem quadratic_nonneg (nm Ka Kb p : ℝ) (hnm : 0 < nm) (hKa : 0 < Ka) (hKb : 0 < Kb) (hp : 0 ≤ p) :
    0 ≤ Quadratic_loading nm Ka Kb p := by
  rw [PgVerif.Tie.quadratic_loading]; unfold quadratic
  positivity

/-- bounded by the saturation loading `2 n_m` -/
theorem quadratic_lt_sat (nm Ka Kb p : ℝ) (hnm : 0 < nm) (hKa : 0 < Ka) (hKb : 0 < Kb) (hp : 0 ≤ p) :
    Quadratic_loading nm Ka Kb p < 2 * nm := by
  rw [PgVerif.Tie.quadratic_loading]; unfold quadratic
  have h1 : 0 < 1 + Ka * p + Kb * p ^ 2 := by positivity
  rw [div_lt_iff₀ h1]
  have : 0 ≤ nm * Ka * p := by positivity
  nlinarith

/-- pressure(loading(p)) = p for p > 0 -/
theorem quadratic_pressure_loading (nm Ka Kb p : ℝ) (hnm : 0 < nm) (hKa : 0 < Ka) (hKb : 0 < Kb) (hp : 0 < p) :
    Quadratic_pressure nm Ka Kb (Quadratic_loading nm Ka Kb p) = p := by
  have hn := quadratic_pos nm Ka Kb p hnm hKa hKb hp
  have hsat := quadratic_lt_sat nm Ka Kb p hnm hKa hKb hp.le
  rw [PgVerif.Tie.quadratic_loading] at hn hsat ⊢
  set n := quadratic nm Ka Kb p with hndef
  have h1 : 0 < 1 + Ka * p + Kb * p ^ 2 := by positivity
  have hxneg : (n - 2 * nm) * Kb < 0 := by
    have : n - 2 * nm < 0 := by linarith
    exact mul_neg_of_neg_of_pos this hKb
  have hx : (n - 2 * nm) * Kb ≠ 0 := ne_of_lt hxneg
  have hn2 : n - 2 * nm ≠ 0 := by intro h; rw [h] at hx; simp at hx
  -- the defining relation n (1 + Ka p + Kb p²) = nm (Ka + 2 Kb p) p
  have hrel : n * (1 + Ka * p + Kb * p ^ 2) = nm * (Ka + 2 * Kb * p) * p := by
    rw [hndef]; unfold quadratic
    rw [div_mul_cancel₀ _ h1.ne']
  unfold Quadratic_pressure nanToZero
  simp only []
  apply PgVerif.Quad.stable_minus' ((n - 2 * nm) * Kb) _ n p (n / ((n - 2 * nm) * Kb * p)) hx
  · have e : -((n - 2 * nm) * Kb) * (p + n / ((n - 2 * nm) * Kb * p))
        = (-((n - 2 * nm) * Kb) * p ^ 2 - n) / p := by
      field_simp
      ring
    rw [e, eq_div_iff hp.ne']
    linarith [hrel]
  · field_simp
  · constructor
    · intro hpos; linarith
    · intro _
      have : n / ((n - 2 * nm) * Kb * p) < 0 := by
        apply div_neg_of_pos_of_neg hn
        exact mul_neg_of_neg_of_pos hxneg hp
      linarith

theorem quadratic_zero (nm Ka Kb : ℝ) : Quadratic_loading nm Ka Kb 0 = 0 := by
  rw [PgVerif.Tie.quadratic_loading]; simp [quadratic]

/-- the degenerate member of the family: with `Kb = 0` the model is Langmuir's (`n = n_m Ka p / (1 + Ka p)`), the leading coefficient
of the quadratic vanishes and the branch form returns the root of the linear equation that is left (finding S51-C10b before the repair:
the pressure 0 for every loading) -/
theorem quadratic_pressure_loading_kb_zero (nm Ka p : ℝ) (hnm : 0 < nm) (hKa : 0 < Ka) (hp : 0 < p) :
    Quadratic_pressure nm Ka 0 (Quadratic_loading nm Ka 0 p) = p := by
  rw [PgVerif.Tie.quadratic_loading]
  set n := quadratic nm Ka 0 p with hndef
  have h1 : 0 < 1 + Ka * p + 0 * p ^ 2 := by positivity
  have hrel : n * (1 + Ka * p + 0 * p ^ 2) = nm * (Ka + 2 * 0 * p) * p := by
    rw [hndef]; unfold quadratic
    rw [div_mul_cancel₀ _ h1.ne']
  have hlt : n < nm := by
    have : 0 < nm * 1 := by positivity
    nlinarith [hrel]
  have hx0 : (n - 2 * nm) * 0 = 0 := by ring
  have hy : (n - nm) * Ka < 0 := mul_neg_of_neg_of_pos (by linarith) hKa
  unfold Quadratic_pressure nanToZero
  simp only []
  rw [PgVerif.Quad.stable_minus_linear _ _ _ hx0 hy, div_eq_iff (ne_of_lt hy)]
  linear_combination (-1) * hrel

/-- the zero point of the inverse: at loading 0 the branch `y = -n_m Ka < 0` is taken and the quotient is a genuine
`(2 · 0) / (2 n_m Ka)` with a non-zero denominator (no NaN, no reliance on `x / 0 = 0`). -/
theorem quadratic_pressure_zero_point (nm Ka Kb : ℝ) (hnm : 0 < nm) (hKa : 0 < Ka) :
    let x := ((0 : ℝ) - 2 * nm) * Kb
    let y := ((0 : ℝ) - nm) * Ka
    y < 0 ∧ Real.sqrt (y ^ 2 - 4 * x * 0) - y ≠ 0 ∧ Quadratic_pressure nm Ka Kb 0 = 0 := by
  simp only []
  have hy : ((0 : ℝ) - nm) * Ka < 0 := mul_neg_of_neg_of_pos (by linarith) hKa
  have hs := Real.sqrt_nonneg ((((0 : ℝ) - nm) * Ka) ^ 2 - 4 * ((0 - 2 * nm) * Kb) * 0)
  refine ⟨hy, by linarith, ?_⟩
  unfold Quadratic_pressure nanToZero
  simp only []
  rw [if_pos hy, mul_zero, zero_div]

/-- pressure(loading(p)) = p on the whole validity range, zero point included -/
theorem quadratic_pressure_loading_nonneg (nm Ka Kb p : ℝ) (hnm : 0 < nm) (hKa : 0 < Ka) (hKb : 0 < Kb)
    (hp : 0 ≤ p) :
    Quadratic_pressure nm Ka Kb (Quadratic_loading nm Ka Kb p) = p := by
  rcases hp.eq_or_lt with h0 | hpos
  · rw [← h0, quadratic_zero]
    exact (quadratic_pressure_zero_point nm Ka Kb hnm hKa).2.2
  · exact quadratic_pressure_loading nm Ka Kb p hnm hKa hKb hpos

theorem quadratic_strictMonoOn (nm Ka Kb : ℝ) (hnm : 0 < nm) (hKa : 0 < Ka) (hKb : 0 < Kb) :
    StrictMonoOn (Quadratic_loading nm Ka Kb) (Set.Ici 0) := by
  intro a ha b hb hab
  simp only [Set.mem_Ici] at ha hb
  rw [PgVerif.Tie.quadratic_loading, PgVerif.Tie.quadratic_loading]; unfold quadratic
  have h1 : 0 < 1 + Ka * a + Kb * a ^ 2 := by positivity
  have h2 : 0 < 1 + Ka * b + Kb * b ^ 2 := by positivity
  rw [div_lt_div_iff₀ h1 h2]
  have hba : 0 < b - a := sub_pos.mpr hab
  have key : nm * (Ka + 2 * Kb * b) * b * (1 + Ka * a + Kb * a ^ 2)
        - nm * (Ka + 2 * Kb * a) * a * (1 + Ka * b + Kb * b ^ 2)
      = nm * (b - a) * (Ka + 2 * Kb * (a + b) + Ka * Kb * (a * b)) := by ring
  have : 0 < nm * (b - a) * (Ka + 2 * Kb * (a + b) + Ka * Kb * (a * b)) := by positivity
  linarith

/-- Henry limit: n(p)/p → n_m Ka as p → 0⁺ -/
theorem quadratic_henry (nm Ka Kb : ℝ) :
    Tendsto (fun p => Quadratic_loading nm Ka Kb p / p) (𝓝[>] 0) (𝓝 (nm * Ka)) := by
  have hc : ContinuousAt (fun p : ℝ => nm * (Ka + 2 * Kb * p) / (1 + Ka * p + Kb * p ^ 2)) 0 := by
    apply ContinuousAt.div (by fun_prop) (by fun_prop) (by simp)
  have h0 : Tendsto (fun p : ℝ => nm * (Ka + 2 * Kb * p) / (1 + Ka * p + Kb * p ^ 2)) (𝓝[>] 0)
      (𝓝 (nm * Ka)) := by
    have := hc.tendsto.mono_left (nhdsWithin_le_nhds (s := Set.Ioi (0 : ℝ)))
    simpa using this
  refine h0.congr' ?_
  filter_upwards [self_mem_nhdsWithin] with p hp
  have hp' : p ≠ 0 := ne_of_gt hp
  rw [PgVerif.Tie.quadratic_loading]; unfold quadratic
  by_cases hd : 1 + Ka * p + Kb * p ^ 2 = 0
  · simp [hd]
  · field_simp

end PgVerif.C10
