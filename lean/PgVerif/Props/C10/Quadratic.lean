/-
C10 for Quadratic.  Statements about the generated functions (`Gen.R.Quadratic_*` = modelling/quadratic.py now).
The declared bounds allow any real `Ka`, `Kb`; the property (monotone, invertible, bounded by the saturation
`2 n_m`) only makes sense for positive constants, so every theorem takes `n_m, Ka, Kb > 0` explicitly.
Validity range: `p ≥ 0` (no pole for positive constants).
-/
import PgVerif.Tie.Models
import PgVerif.Lemmas.Quad
import Mathlib.Tactic

namespace PgVerif.C10
open PgVerif.Gen.R PgVerif.Spec.M Filter Topology

theorem quadratic_pos (nm Ka Kb p : ℝ) (hnm : 0 < nm) (hKa : 0 < Ka) (hKb : 0 < Kb) (hp : 0 < p) :
    0 < Quadratic_loading nm Ka Kb p := by
  rw [PgVerif.Tie.quadratic_loading]; unfold quadratic
  positivity

theorem quadratic_nonneg (nm Ka Kb p : ℝ) (hnm : 0 < nm) (hKa : 0 < Ka) (hKb : 0 < Kb) (hp : 0 ≤ p) :
    0 ≤ Quadratic_loading nm Ka Kb p := by
  rw [PgVerif.Tie.quadratic_loading]; unfold quadratic
  positivity

/-- bounded by the saturation loading `2 n_m` -/
theorem quadratic_lt_sat (nm Ka Kb p : ℝ) (hnm : 0 < nm) (hKa : 0 < Ka) (hKb : 0 < Kb) (hp : 0 ≤ p) :
    Quadratic_loading nm Ka Kb p < 2 * nm := by
  rw [PgVerif.Tie.quadratic_loading]; unfold quadratic
  have h1 : 0 < 1 + Ka * p + Kb * p ^ 2 := by positivity
  rw [div_lt_iff₀ h1]
  have : 0 ≤ nm * Ka * p := by positivity
  nlinarith

/-- pressure(loading(p)) = p for p > 0 -/
theorem quadratic_pressure_loading (nm Ka Kb p : ℝ) (hnm : 0 < nm) (hKa : 0 < Ka) (hKb : 0 < Kb) (hp : 0 < p) :
    Quadratic_pressure nm Ka Kb (Quadratic_loading nm Ka Kb p) = p := by
  have hn := quadratic_pos nm Ka Kb p hnm hKa hKb hp
  have hsat := quadratic_lt_sat nm Ka Kb p hnm hKa hKb hp.le
  rw [PgVerif.Tie.quadratic_loading] at hn hsat ⊢
  set n := quadratic nm Ka Kb p with hndef
  have h1 : 0 < 1 + Ka * p + Kb * p ^ 2 := by positivity
  have hxneg : (n - 2 * nm) * Kb < 0 := by
    have : n - 2 * nm < 0 := by linarith
    exact mul_neg_of_neg_of_pos this hKb
  have hx : (n - 2 * nm) * Kb ≠ 0 := ne_of_lt hxneg
  have hn2 : n - 2 * nm ≠ 0 := by intro h; rw [h] at hx; simp at hx
  -- the defining relation n (1 + Ka p + Kb p²) = nm (Ka + 2 Kb p) p
  have hrel : n * (1 + Ka * p + Kb * p ^ 2) = nm * (Ka + 2 * Kb * p) * p := by
    rw [hndef]; unfold quadratic
    rw [div_mul_cancel₀ _ h1.ne']
  unfold Quadratic_pressure nanToZero
  simp only []
  apply PgVerif.Quad.root_minus' ((n - 2 * nm) * Kb) _ n p (n / ((n - 2 * nm) * Kb * p)) hx
  · have e : -((n - 2 * nm) * Kb) * (p + n / ((n - 2 * nm) * Kb * p))
        = (-((n - 2 * nm) * Kb) * p ^ 2 - n) / p := by
      field_simp
      ring
    rw [e, eq_div_iff hp.ne']
    linarith [hrel]
  · field_simp
  · constructor
    · intro hpos; linarith
    · intro _
      have : n / ((n - 2 * nm) * Kb * p) < 0 := by
        apply div_neg_of_pos_of_neg hn
        exact mul_neg_of_neg_of_pos hxneg hp
      linarith

theorem quadratic_zero (nm Ka Kb : ℝ) : Quadratic_loading nm Ka Kb 0 = 0 := by
  rw [PgVerif.Tie.quadratic_loading]; simp [quadratic]

/-- the zero point of the inverse.  Unlike BET/GAB the quadratic formula does NOT degenerate at loading 0:
the denominator `2 x = -4 n_m Kb` is non-zero, the numerator `-y - √(y²)` vanishes, so the code returns a
genuine `0 / nonzero = 0` (no NaN, no reliance on `x / 0 = 0`). -/
theorem quadratic_pressure_zero_point (nm Ka Kb : ℝ) (hnm : 0 < nm) (hKa : 0 < Ka) (hKb : 0 < Kb) :
    let x := ((0 : ℝ) - 2 * nm) * Kb
    let y := ((0 : ℝ) - nm) * Ka
    (-y - Real.sqrt (y ^ 2 - 4 * x * 0) = 0) ∧ 2 * x ≠ 0 ∧ Quadratic_pressure nm Ka Kb 0 = 0 := by
  simp only []
  have hnum : -((0 - nm) * Ka) - Real.sqrt (((0 - nm) * Ka) ^ 2 - 4 * ((0 - 2 * nm) * Kb) * 0) = 0 := by
    have : ((0 - nm) * Ka) ^ 2 - 4 * ((0 - 2 * nm) * Kb) * 0 = (nm * Ka) ^ 2 := by ring
    rw [this, Real.sqrt_sq (by positivity)]; ring
  refine ⟨hnum, ?_, ?_⟩
  · have : 0 < nm * Kb := by positivity
    intro h; nlinarith
  · unfold Quadratic_pressure nanToZero
    simp only []
    rw [hnum, zero_div]

/-- pressure(loading(p)) = p on the whole validity range, zero point included -/
theorem quadratic_pressure_loading_nonneg (nm Ka Kb p : ℝ) (hnm : 0 < nm) (hKa : 0 < Ka) (hKb : 0 < Kb)
    (hp : 0 ≤ p) :
    Quadratic_pressure nm Ka Kb (Quadratic_loading nm Ka Kb p) = p := by
  rcases hp.eq_or_lt with h0 | hpos
  · rw [← h0, quadratic_zero]
    exact (quadratic_pressure_zero_point nm Ka Kb hnm hKa hKb).2.2
  · exact quadratic_pressure_loading nm Ka Kb p hnm hKa hKb hpos

theorem quadratic_strictMonoOn (nm Ka Kb : ℝ) (hnm : 0 < nm) (hKa : 0 < Ka) (hKb : 0 < Kb) :
    StrictMonoOn (Quadratic_loading nm Ka Kb) (Set.Ici 0) := by
  intro a ha b hb hab
  simp only [Set.mem_Ici] at ha hb
  rw [PgVerif.Tie.quadratic_loading, PgVerif.Tie.quadratic_loading]; unfold quadratic
  have h1 : 0 < 1 + Ka * a + Kb * a ^ 2 := by positivity
  have h2 : 0 < 1 + Ka * b + Kb * b ^ 2 := by positivity
  rw [div_lt_div_iff₀ h1 h2]
  have hba : 0 < b - a := sub_pos.mpr hab
  have key : nm * (Ka + 2 * Kb * b) * b * (1 + Ka * a + Kb * a ^ 2)
        - nm * (Ka + 2 * Kb * a) * a * (1 + Ka * b + Kb * b ^ 2)
      = nm * (b - a) * (Ka + 2 * Kb * (a + b) + Ka * Kb * (a * b)) := by ring
  have : 0 < nm * (b - a) * (Ka + 2 * Kb * (a + b) + Ka * Kb * (a * b)) := by positivity
  linarith

/-- Henry limit: n(p)/p → n_m Ka as p → 0⁺ -/
theorem quadratic_henry (nm Ka Kb : ℝ) :
    Tendsto (fun p => Quadratic_loading nm Ka Kb p / p) (𝓝[>] 0) (𝓝 (nm * Ka)) := by
  have hc : ContinuousAt (fun p : ℝ => nm * (Ka + 2 * Kb * p) / (1 + Ka * p + Kb * p ^ 2)) 0 := by
    apply ContinuousAt.div (by fun_prop) (by fun_prop) (by simp)
  have h0 : Tendsto (fun p : ℝ => nm * (Ka + 2 * Kb * p) / (1 + Ka * p + Kb * p ^ 2)) (𝓝[>] 0)
      (𝓝 (nm * Ka)) := by
    have := hc.tendsto.mono_left (nhdsWithin_le_nhds (s := Set.Ioi (0 : ℝ)))
    simpa using this
  refine h0.congr' ?_
  filter_upwards [self_mem_nhdsWithin] with p hp
  have hp' : p ≠ 0 := ne_of_gt hp
  rw [PgVerif.Tie.quadratic_loading]; unfold quadratic
  by_cases hd : 1 + Ka * p + Kb * p ^ 2 = 0
  · simp [hd]
  · field_simp

end PgVerif.C10
