/-
C10 — the two findings S51-C10a / S51-C10b on the quadratic-formula inverses (`BET`, `GAB`, `Quadratic`, `DSLangmuir` `.pressure`), both
REPAIRED in the repository (the inverses now compute the same root in its cancellation-free form; `Lemmas/Quad.lean` `stable_minus_eq`,
`stable_plus_eq`, and the `*_pressure_loading` theorems of `BET.lean`, `GAB.lean`, `Quadratic.lean`, `MultiLangmuir.lean` are about that form).
This file keeps the statements about the EARLIER, textbook form `(-y - √(y² - 4 x c)) / (2 x)`, so that what was wrong with it — and what
a future rewrite must not do — stays visible:

  * S51-C10b  `textbook_degenerate`: when the leading coefficient `x` vanishes the form is `0/0` (Lean: `x / 0 = 0`; IEEE: NaN, which
              `numpy.nan_to_num` turns into `0.0`): the pressure 0 for EVERY loading.  `x = 0` is inside the declared parameter bounds:
              BET with `N = C` (`bet_textbook_at_N_eq_C`), GAB with `C = 1`, Quadratic with `Kb = 0`.  The branch form returns the root of
              the linear equation that is left (`Quad.stable_minus_linear`).
  * S51-C10a  in exact arithmetic the two forms are equal (`Quad.stable_minus_eq`): the defect is one of rounding.  `textbook_sqrt_error`:
              a relative error `δ` of the square root moves the textbook value by `δ · √D (√D - y) / (4 x c)` RELATIVE to the root — for
              `y < 0` and `|4 x c| ≪ y²` (low loading) that factor is `≈ y² / (2 x c)`, e.g. 2.5e16 for BET(n_m = 1, C = 50, N = 0.4) at
              `n = 5e-8`: no digit is left, the library returned `-0.0` for `pressure(loading(1e-9))`.  `stable_sqrt_error`: the same error
              moves the branch form by at most `2 |δ|` relative, for every `x`, `c` (the conditioning does not depend on the loading).
  * the class of the seeded change C10-m7 (a "stable" rewrite `q = -(y + sgn(y) √D) / 2`, `p = c / q` used for BOTH signs of `y`):
              `citardauq_of_pos_is_plus_root` — for `y > 0` that quotient is the other root.  The sign of `y` selects between two forms of ONE
              root.
-/
import PgVerif.Lemmas.Quad
import Mathlib.Tactic

namespace PgVerif.C10

/-- the `-√` root as the library computed it before the repair -/
noncomputable def textbookMinus (x y c : ℝ) : ℝ := (-y - Real.sqrt (y ^ 2 - 4 * x * c)) / (2 * x)

/-- the branch form the library computes now, with the value `s` it has for the square root as an argument (so that an error of
the square root can be stated) -/
noncomputable def stableMinusOf (x y c s : ℝ) : ℝ := (if y < 0 then 2 * c else -y - s) / (if y < 0 then s - y else 2 * x)

noncomputable def textbookMinusOf (x y s : ℝ) : ℝ := (-y - s) / (2 * x)

/-- S51-C10b: vanishing leading coefficient → the textbook form is `0/0`, i.e. the pressure 0, for every `y`, `c` -/
theorem textbook_degenerate (y c : ℝ) : textbookMinus 0 y c = 0 := by simp [textbookMinus]

/-- … for BET exactly at `N = C` (inside the declared bounds): every loading is mapped to the pressure 0, so the composition
`pressure(loading(p)) = p` failed for every `p ≠ 0` -/
theorem bet_textbook_at_N_eq_C (nm C n : ℝ) :
    textbookMinus (n * C * (C - C)) (n * C - 2 * n * C - nm * C) n = 0 := by
  have : n * C * (C - C) = 0 := by ring
  rw [this]; exact textbook_degenerate _ _

/-- … whereas the form computed now returns the root `n / ((n + n_m) C)` of the linear equation -/
theorem bet_stable_at_N_eq_C (nm C n : ℝ) (hnm : 0 < nm) (hC : 0 < C) (hn : 0 ≤ n) :
    stableMinusOf (n * C * (C - C)) (n * C - 2 * n * C - nm * C) n
        (Real.sqrt ((n * C - 2 * n * C - nm * C) ^ 2 - 4 * (n * C * (C - C)) * n)) = n / ((n + nm) * C) := by
  have hx0 : n * C * (C - C) = 0 := by ring
  have hy : n * C - 2 * n * C - nm * C < 0 := by nlinarith [mul_pos hnm hC, mul_nonneg hn hC.le]
  unfold stableMinusOf
  rw [PgVerif.Quad.stable_minus_linear _ _ _ hx0 hy]
  have h1 : (n + nm) * C ≠ 0 := by positivity
  rw [div_eq_div_iff (ne_of_lt hy) h1]
  ring

/-- the two forms agree in exact arithmetic (both signs of `y`): the repair changes no value of the real-number model -/
theorem stable_eq_textbook (x y c : ℝ) (hx : x ≠ 0) (hD : 0 ≤ y ^ 2 - 4 * x * c) :
    stableMinusOf x y c (Real.sqrt (y ^ 2 - 4 * x * c)) = textbookMinus x y c :=
  PgVerif.Quad.stable_minus_eq x y c hx hD

/-- S51-C10a, the textbook form: an error `δ` (relative) of the square root `s` moves the value by `δ · s (s - y) / (4 x c)` relative to
the root `r = 2c / (s - y)` (the root when `s² = y² - 4 x c`; the identity does not need it) — unbounded as `x c → 0` with `y < 0` -/
theorem textbook_sqrt_error (x y c s δ : ℝ) (hx : x ≠ 0) (hc : c ≠ 0) (hsy : s - y ≠ 0) :
    textbookMinusOf x y (s * (1 + δ)) - textbookMinusOf x y s = -(δ * (s * (s - y) / (4 * x * c))) * (2 * c / (s - y)) := by
  unfold textbookMinusOf
  field_simp
  ring

/-- the witness of S51-C10a in numbers: BET(n_m = 1, C = 50, N = 2/5) at the loading `n = 5e-8` (`= loading(1e-9)`), where
`x = n N (N - C)`, `y = n C - 2 n N - n_m C = -(50 - 2.46e-6)`: the amplification factor `s (s - y) / (4 x n)` exceeds `1e16` in absolute
value for every value `s ≥ 49` the square root can have, so ONE rounding of the square root (`δ ≈ 1e-16`) is an error of the order of the
root itself -/
theorem textbook_sqrt_error_witness (s : ℝ) (hs : 49 ≤ s) :
    (10 : ℝ) ^ 16 ≤ |s * (s - (5 / 100000000 * 50 - 2 * (5 / 100000000) * (2 / 5) - 1 * 50))
        / (4 * (5 / 100000000 * (2 / 5) * (2 / 5 - 50)) * (5 / 100000000))| := by
  have hb : (4 : ℝ) * (5 / 100000000 * (2 / 5) * (2 / 5 - 50)) * (5 / 100000000) = -(1984 / 10 ^ 16) := by norm_num
  have hy : (5 : ℝ) / 100000000 * 50 - 2 * (5 / 100000000) * (2 / 5) - 1 * 50 = -(50 - 123 / 50000000) := by norm_num
  rw [hb, hy, abs_div, abs_neg, abs_of_pos (by positivity : (0 : ℝ) < 1984 / 10 ^ 16), le_div_iff₀ (by positivity)]
  have hnum : 0 < s * (s - -(50 - 123 / 50000000)) := by nlinarith
  rw [abs_of_pos hnum]
  nlinarith

/-- S51-C10a, the form computed now: the same error of the square root moves the value by at most `2 |δ|` relative to the root, whatever
`x` and `c` (`y < 0`, the branch in which the textbook form cancels) -/
theorem stable_sqrt_error (x y c s δ : ℝ) (hy : y < 0) (hs : 0 ≤ s) (hδ : |δ| ≤ 1 / 2) :
    |stableMinusOf x y c (s * (1 + δ)) - stableMinusOf x y c s| ≤ 2 * |δ| * |stableMinusOf x y c s| := by
  unfold stableMinusOf
  simp only [if_pos hy]
  have hδ' := abs_le.mp hδ
  have h1 : 0 < s - y := by linarith
  have h2 : 0 < s * (1 + δ) - y := by nlinarith [hδ'.1]
  have e : 2 * c / (s * (1 + δ) - y) - 2 * c / (s - y) = -(δ * (s / (s * (1 + δ) - y))) * (2 * c / (s - y)) := by
    field_simp
    ring
  rw [e, abs_mul, abs_neg, abs_mul]
  apply mul_le_mul_of_nonneg_right _ (abs_nonneg _)
  have h3 : |s / (s * (1 + δ) - y)| ≤ 2 := by
    rw [abs_div, abs_of_nonneg hs, abs_of_pos h2, div_le_iff₀ h2]
    nlinarith [hδ'.1]
  calc |δ| * |s / (s * (1 + δ) - y)| ≤ |δ| * 2 := mul_le_mul_of_nonneg_left h3 (abs_nonneg _)
    _ = 2 * |δ| := by ring

/-- the class of the seeded change C10-m7 ("q = -(y + sgn(y) √D) / 2, p = c / q" for both signs): for `y > 0` that quotient is the OTHER
root — the sign of `y` must select between two forms of one root, not between `c / q` and nothing -/
theorem citardauq_of_pos_is_plus_root (x y c : ℝ) (hx : x ≠ 0) (hy : 0 < y) (hD : 0 ≤ y ^ 2 - 4 * x * c) :
    c / (-(y + Real.sqrt (y ^ 2 - 4 * x * c)) / 2) = (-y + Real.sqrt (y ^ 2 - 4 * x * c)) / (2 * x) := by
  have hs := Real.sqrt_nonneg (y ^ 2 - 4 * x * c)
  have hss := Real.mul_self_sqrt hD
  have hden : -(y + Real.sqrt (y ^ 2 - 4 * x * c)) / 2 ≠ 0 := by
    intro h
    have : y + Real.sqrt (y ^ 2 - 4 * x * c) = 0 := by linarith
    linarith
  rw [div_eq_div_iff hden (mul_ne_zero two_ne_zero hx)]
  nlinarith [hss]

/-- … and the two roots differ as soon as the discriminant is positive, so that rewrite is wrong (not just different) for `y > 0` -/
theorem plus_root_ne_minus_root (x y c : ℝ) (hx : x ≠ 0) (hD : 0 < y ^ 2 - 4 * x * c) :
    (-y + Real.sqrt (y ^ 2 - 4 * x * c)) / (2 * x) ≠ (-y - Real.sqrt (y ^ 2 - 4 * x * c)) / (2 * x) := by
  have hs := Real.sqrt_pos.mpr hD
  intro h
  have h2 : (2 * x) ≠ 0 := mul_ne_zero two_ne_zero hx
  rw [div_left_inj' h2] at h
  linarith

end PgVerif.C10
