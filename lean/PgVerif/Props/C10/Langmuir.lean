/-
C10 for Henry and Langmuir.  Statements are about the *generated* functions (`Gen.R.*` = what
modelling/henry.py and modelling/langmuir.py say now); proofs go through the tie lemmas to the published
equations.  Parameters strictly inside the declared bounds (0, ∞).
-/
import PgVerif.Tie.Models
import Mathlib.Analysis.SpecialFunctions.Log.Deriv
import Mathlib.Tactic

namespace PgVerif.C10
open PgVerif.Gen.R PgVerif.Spec.M Filter Topology

/-! ### Henry -/

theorem henry_pressure_loading (K p : ℝ) (hK : 0 < K) : Henry_pressure K (Henry_loading K p) = p := by
  rw [PgVerif.Tie.henry_loading, PgVerif.Tie.henry_pressure]; unfold henryInv henry; field_simp

theorem henry_loading_pressure (K n : ℝ) (hK : 0 < K) : Henry_loading K (Henry_pressure K n) = n := by
  rw [PgVerif.Tie.henry_pressure, PgVerif.Tie.henry_loading]; unfold henryInv henry; field_simp

theorem henry_zero (K : ℝ) : Henry_loading K 0 = 0 := by
  rw [PgVerif.Tie.henry_loading]; simp [henry]

theorem henry_nonneg (K p : ℝ) (hK : 0 < K) (hp : 0 ≤ p) : 0 ≤ Henry_loading K p := by
  rw [PgVerif.Tie.henry_loading]; unfold henry; positivity

theorem henry_strictMono (K : ℝ) (hK : 0 < K) : StrictMono (Henry_loading K) := by
  intro a b hab
  rw [PgVerif.Tie.henry_loading, PgVerif.Tie.henry_loading]; unfold henry; nlinarith

theorem henry_slope (K p : ℝ) (hp : p ≠ 0) : Henry_loading K p / p = K := by
  rw [PgVerif.Tie.henry_loading]; unfold henry; field_simp

/-! ### Langmuir -/

theorem langmuir_pressure_loading (K nm p : ℝ) (hK : 0 < K) (hnm : 0 < nm) (hp : 0 ≤ p) :
    Langmuir_pressure K nm (Langmuir_loading K nm p) = p := by
  rw [PgVerif.Tie.langmuir_loading, PgVerif.Tie.langmuir_pressure]
  unfold langmuirInv langmuir
  have h1 : (1 + K * p) ≠ 0 := by positivity
  have h2 : nm - nm * (K * p) / (1 + K * p) = nm / (1 + K * p) := by field_simp; ring
  rw [h2]; field_simp

theorem langmuir_loading_pressure (K nm n : ℝ) (hK : 0 < K) (hnm : 0 < nm) (hn : 0 ≤ n) (hsat : n < nm) :
    Langmuir_loading K nm (Langmuir_pressure K nm n) = n := by
  rw [PgVerif.Tie.langmuir_pressure, PgVerif.Tie.langmuir_loading]
  unfold langmuirInv langmuir
  have h1 : nm - n ≠ 0 := by linarith
  have h2 : 1 + K * (n / (K * (nm - n))) = nm / (nm - n) := by field_simp; ring
  rw [h2]; field_simp

theorem langmuir_zero (K nm : ℝ) : Langmuir_loading K nm 0 = 0 := by
  rw [PgVerif.Tie.langmuir_loading]; simp [langmuir]

theorem langmuir_nonneg (K nm p : ℝ) (hK : 0 < K) (hnm : 0 < nm) (hp : 0 ≤ p) : 0 ≤ Langmuir_loading K nm p := by
  rw [PgVerif.Tie.langmuir_loading]; unfold langmuir; positivity

theorem langmuir_lt_sat (K nm p : ℝ) (hK : 0 < K) (hnm : 0 < nm) (hp : 0 ≤ p) : Langmuir_loading K nm p < nm := by
  rw [PgVerif.Tie.langmuir_loading]; unfold langmuir
  have h1 : 0 < 1 + K * p := by positivity
  rw [div_lt_iff₀ h1]; nlinarith

theorem langmuir_strictMonoOn (K nm : ℝ) (hK : 0 < K) (hnm : 0 < nm) :
    StrictMonoOn (Langmuir_loading K nm) (Set.Ici 0) := by
  intro a ha b hb hab
  simp only [Set.mem_Ici] at ha hb
  rw [PgVerif.Tie.langmuir_loading, PgVerif.Tie.langmuir_loading]; unfold langmuir
  have h1 : 0 < 1 + K * a := by positivity
  have h2 : 0 < 1 + K * b := by positivity
  rw [div_lt_div_iff₀ h1 h2]
  have : 0 < nm * K * (b - a) := by have := sub_pos.mpr hab; positivity
  nlinarith

/-- Henry limit: n(p)/p → n_m K as p → 0⁺ -/
theorem langmuir_henry (K nm : ℝ) :
    Tendsto (fun p => Langmuir_loading K nm p / p) (𝓝[>] 0) (𝓝 (nm * K)) := by
  have hc : ContinuousAt (fun p : ℝ => nm * K / (1 + K * p)) 0 := by
    apply ContinuousAt.div continuousAt_const (by fun_prop) (by simp)
  have h0 : Tendsto (fun p : ℝ => nm * K / (1 + K * p)) (𝓝[>] 0) (𝓝 (nm * K)) := by
    have := hc.tendsto.mono_left (nhdsWithin_le_nhds (s := Set.Ioi (0 : ℝ)))
    simpa using this
  refine h0.congr' ?_
  filter_upwards [self_mem_nhdsWithin] with p hp
  have hp' : p ≠ 0 := ne_of_gt hp
  rw [PgVerif.Tie.langmuir_loading]; unfold langmuir
  field_simp

end PgVerif.C10
