/-
C10 for BET.  Statements about the generated functions (`Gen.R.BET_*` = modelling/bet.py now).
Validity range of the property: below the pole, `N p < 1`; parameters strictly inside the bounds
`n_m, C > 0`, `0 < N` (`N ≤ 1` is not needed).  Since the repair of finding S51-C10a/b the inverse is computed in the
cancellation-free form of the same root (`Lemmas/Quad.lean` `stable_minus_eq`), which also covers `N = C` (the quadratic
degenerates to a linear equation there; the earlier form divided by zero and returned the pressure 0 for every loading:
`Props/C10/Findings.lean`), so `bet_pressure_loading` no longer needs `N ≠ C`.
-/
import PgVerif.Tie.Models
import PgVerif.Lemmas.Quad
import Mathlib.Tactic

namespace PgVerif.C10
open PgVerif.Gen.R PgVerif.Spec.M Filter Topology

theorem bet_pos (nm C N p : ℝ) (hnm : 0 < nm) (hC : 0 < C) (hN : 0 < N) (hp : 0 < p) (hpole : N * p < 1) :
    0 < BET_loading nm C N p := by
  rw [PgVerif.Tie.bet_loading]; unfold bet
  have h1 : 0 < 1 - N * p := by linarith
  have h2 : 0 < 1 - N * p + C * p := by positivity
  positivity

/-- pressure(loading(p)) = p below the pole, for EVERY `C > 0` (`N = C` included) -/
theorem bet_pressure_loading (nm C N p : ℝ) (hnm : 0 < nm) (hC : 0 < C) (hN : 0 < N)
    (hp : 0 < p) (hpole : N * p < 1) :
    BET_pressure nm C N (BET_loading nm C N p) = p := by
  have hn := bet_pos nm C N p hnm hC hN hp hpole
  rw [PgVerif.Tie.bet_loading] at hn ⊢
  set n := bet nm C N p with hndef
  have h1 : 0 < 1 - N * p := by linarith
  have h2 : 0 < 1 - N * p + C * p := by positivity
  -- the defining relation n (1 - N p)(1 - N p + C p) = nm C p
  have hrel : n * ((1 - N * p) * (1 - N * p + C * p)) = nm * C * p := by
    rw [hndef]; unfold bet
    have hd : (1 - N * p) * (1 - N * p + C * p) ≠ 0 := by positivity
    rw [div_mul_cancel₀ _ hd]
  unfold BET_pressure nanToZero
  simp only []
  by_cases hNC : N = C
  · -- the degenerate case: x = 0, the equation is y q + n = 0 with y = -(n + nm) C < 0
    have hx0 : n * N * (N - C) = 0 := by rw [hNC]; ring
    have hy : n * C - 2 * n * N - nm * C < 0 := by
      rw [hNC]; nlinarith [mul_pos hn hC, mul_pos hnm hC]
    rw [PgVerif.Quad.stable_minus_linear _ _ _ hx0 hy]
    rw [div_eq_iff (ne_of_lt hy)]
    rw [hNC] at hrel
    nlinarith [hrel]
  have hx : n * N * (N - C) ≠ 0 := by
    have : N - C ≠ 0 := sub_ne_zero.mpr hNC
    positivity
  apply PgVerif.Quad.stable_minus' (n * N * (N - C)) _ n p (1 / (N * (N - C) * p)) hx
  · have : N - C ≠ 0 := sub_ne_zero.mpr hNC
    field_simp
    nlinarith [hrel]
  · have : N - C ≠ 0 := sub_ne_zero.mpr hNC
    field_simp
  · constructor
    · intro hpos
      have hNC' : 0 < N - C := by
        by_contra h
        have : N - C < 0 := lt_of_le_of_ne (not_lt.mp h) (sub_ne_zero.mpr hNC)
        have : n * N * (N - C) < 0 := by
          have := mul_pos hn hN; nlinarith
        linarith
      rw [le_div_iff₀ (by positivity)]
      nlinarith [mul_pos hN hp, mul_pos hNC' hp]
    · intro hneg
      have hNC' : N - C < 0 := by
        by_contra h
        have : 0 < N - C := lt_of_le_of_ne (not_lt.mp h) (Ne.symm (sub_ne_zero.mpr hNC))
        have : 0 < n * N * (N - C) := by positivity
        linarith
      have : 1 / (N * (N - C) * p) < 0 := by
        apply div_neg_of_pos_of_neg one_pos
        have := mul_pos hN hp; nlinarith
      linarith

/-- non-vacuity, and the instance that was finding S51-C10b: `N = C` -/
example : BET_pressure 1 (2 / 5) (2 / 5) (BET_loading 1 (2 / 5) (2 / 5) 1) = 1 :=
  bet_pressure_loading 1 (2 / 5) (2 / 5) 1 (by norm_num) (by norm_num) (by norm_num) (by norm_num) (by norm_num)

theorem bet_zero (nm C N : ℝ) : BET_loading nm C N 0 = 0 := by
  rw [PgVerif.Tie.bet_loading]; simp [bet]

/-- the zero point of the inverse: at loading 0 the branch `y = -n_m C < 0` is taken and the quotient is a genuine
`(2 · 0) / (2 n_m C)` with a non-zero denominator (no `0/0`, no NaN, no reliance on `x / 0 = 0`; the textbook form was `0/0` here
and relied on `nan_to_num`) -/
theorem bet_pressure_zero_point (nm C N : ℝ) (hnm : 0 < nm) (hC : 0 < C) :
    let x := (0 : ℝ) * N * (N - C)
    let y := (0 : ℝ) * C - 2 * 0 * N - nm * C
    y < 0 ∧ Real.sqrt (y ^ 2 - 4 * x * 0) - y ≠ 0 ∧ BET_pressure nm C N 0 = 0 := by
  simp only []
  have hy : (0 : ℝ) * C - 2 * 0 * N - nm * C < 0 := by nlinarith [mul_pos hnm hC]
  have hs := Real.sqrt_nonneg (((0 : ℝ) * C - 2 * 0 * N - nm * C) ^ 2 - 4 * (0 * N * (N - C)) * 0)
  refine ⟨hy, by linarith, ?_⟩
  unfold BET_pressure nanToZero
  simp only []
  rw [if_pos hy, mul_zero, zero_div]

/-- pressure(loading(p)) = p on the whole validity range, zero point included -/
theorem bet_pressure_loading_nonneg (nm C N p : ℝ) (hnm : 0 < nm) (hC : 0 < C) (hN : 0 < N)
    (hp : 0 ≤ p) (hpole : N * p < 1) :
    BET_pressure nm C N (BET_loading nm C N p) = p := by
  rcases hp.eq_or_lt with h0 | hpos
  · rw [← h0, bet_zero]
    exact (bet_pressure_zero_point nm C N hnm hC).2.2
  · exact bet_pressure_loading nm C N p hnm hC hN hpos hpole

theorem bet_strictMonoOn (nm C N : ℝ) (hnm : 0 < nm) (hC : 0 < C) (hN : 0 < N) :
    StrictMonoOn (BET_loading nm C N) {p | 0 ≤ p ∧ N * p < 1} := by
  intro a ha b hb hab
  simp only [Set.mem_setOf_eq] at ha hb
  rw [PgVerif.Tie.bet_loading, PgVerif.Tie.bet_loading]; unfold bet
  have a1 : 0 < 1 - N * a := by linarith [ha.2]
  have b1 : 0 < 1 - N * b := by linarith [hb.2]
  have a2 : 0 < 1 - N * a + C * a := by have := ha.1; positivity
  have b2 : 0 < 1 - N * b + C * b := by have := le_trans ha.1 hab.le; positivity
  rw [div_lt_div_iff₀ (by positivity) (by positivity)]
  have hba : 0 < b - a := sub_pos.mpr hab
  have key : nm * C * b * ((1 - N * a) * (1 - N * a + C * a)) - nm * C * a * ((1 - N * b) * (1 - N * b + C * b))
      = nm * C * (b - a) * (1 - N * a * (N * b) + N * a * (C * b)) := by ring
  have hpos : 0 < 1 - N * a * (N * b) + N * a * (C * b) := by
    have h0 : 0 ≤ N * a := by have := ha.1; positivity
    have h1 : N * a * (N * b) < 1 := by nlinarith [ha.2, hb.2]
    have h2 : 0 ≤ N * a * (C * b) := by have := le_trans ha.1 hab.le; positivity
    linarith
  have : 0 < nm * C * (b - a) * (1 - N * a * (N * b) + N * a * (C * b)) := by positivity
  linarith

theorem bet_henry (nm C N : ℝ) :
    Tendsto (fun p => BET_loading nm C N p / p) (𝓝[>] 0) (𝓝 (nm * C)) := by
  have hc : ContinuousAt (fun p : ℝ => nm * C / ((1 - N * p) * (1 - N * p + C * p))) 0 := by
    apply ContinuousAt.div continuousAt_const (by fun_prop) (by simp)
  have h0 : Tendsto (fun p : ℝ => nm * C / ((1 - N * p) * (1 - N * p + C * p))) (𝓝[>] 0) (𝓝 (nm * C)) := by
    have := hc.tendsto.mono_left (nhdsWithin_le_nhds (s := Set.Ioi (0 : ℝ)))
    simpa using this
  refine h0.congr' ?_
  filter_upwards [self_mem_nhdsWithin] with p hp
  have hp' : p ≠ 0 := ne_of_gt hp
  rw [PgVerif.Tie.bet_loading]; unfold bet
  by_cases hd : (1 - N * p) * (1 - N * p + C * p) = 0
  · simp [hd]
  · field_simp

end PgVerif.C10
