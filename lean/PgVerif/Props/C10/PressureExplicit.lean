/-
C10 for the pressure-explicit models Virial, FHVST and WVST.  Statements are about the *generated*
functions (`Gen.R.Virial_pressure`, `Gen.R.FHVST_pressure`, `Gen.R.WVST_pressure` = what
modelling/virial.py, modelling/fhvst.py, modelling/wvst.py say now); proofs go through the tie lemmas
to the published equations.  For these models the code computes the pressure from the loading in closed
form; `loading(p)` is a numerical root (not translated).  Its specification is the uniqueness statement
(`*_injOn`): on the strictly monotone range any root is THE loading.

Parameters strictly inside the declared bounds: `K > 0` (Virial; `A B C` free), `n_m, K > 0` (FHVST, WVST).
The Wilson parameters are declared free in the code, the properties need `L1v, Lv1 > 0` (stated).
Validity range: coverage `θ = n / n_m ∈ [0, 1)` for the two VST models.
-/
import PgVerif.Tie.Models
import Mathlib.Analysis.SpecialFunctions.Log.Deriv
import Mathlib.Analysis.Calculus.Deriv.MeanValue
import Mathlib.Tactic

namespace PgVerif.C10
open PgVerif.Gen.R PgVerif.Spec.M Filter Topology

/-! ### helper facts -/

/-- `f · exp(-g)` comparison from a purely rational inequality (uses `1 + t ≤ exp t`). -/
private theorem mul_exp_neg_lt {f1 f2 g1 g2 : ℝ} (hf2 : 0 ≤ f2) (h : f1 < f2 * (1 - (g2 - g1))) :
    f1 * Real.exp (-g1) < f2 * Real.exp (-g2) := by
  have h1 : 1 - (g2 - g1) ≤ Real.exp (-(g2 - g1)) := by
    have := Real.add_one_le_exp (-(g2 - g1)); linarith
  have h2 : Real.exp (-g2) = Real.exp (-g1) * Real.exp (-(g2 - g1)) := by
    rw [← Real.exp_add]; congr 1; ring
  have hE : 0 < Real.exp (-g1) := Real.exp_pos _
  calc f1 * Real.exp (-g1) < f2 * (1 - (g2 - g1)) * Real.exp (-g1) :=
        mul_lt_mul_of_pos_right h hE
    _ = f2 * Real.exp (-g1) * (1 - (g2 - g1)) := by ring
    _ ≤ f2 * Real.exp (-g1) * Real.exp (-(g2 - g1)) :=
        mul_le_mul_of_nonneg_left h1 (mul_nonneg hf2 hE.le)
    _ = f2 * Real.exp (-g2) := by rw [h2]; ring

/-- strict monotonicity of a product of a non-negative strictly increasing factor and a positive
strictly increasing factor (pointwise form) -/
private theorem mul_lt_mul_of_nonneg_of_pos {a1 a2 b1 b2 : ℝ} (ha1 : 0 ≤ a1) (ha : a1 < a2) (hb1 : 0 < b1) (hb : b1 ≤ b2) :
    a1 * b1 < a2 * b2 := by
  have : a1 * b1 < a2 * b1 := mul_lt_mul_of_pos_right ha hb1
  have : a2 * b1 ≤ a2 * b2 := mul_le_mul_of_nonneg_left hb (ha1.trans ha.le)
  linarith

/-! ### Virial -/

theorem virial_zero (K A B C : ℝ) : Virial_pressure K A B C 0 = 0 := by
  rw [PgVerif.Tie.virial_pressure]; simp [virialP]

theorem virial_pos (K A B C n : ℝ) (hn : 0 < n) : 0 < Virial_pressure K A B C n := by
  rw [PgVerif.Tie.virial_pressure]; unfold virialP
  exact mul_pos hn (Real.exp_pos _)

/-- Henry limit: p(n)/n → 1/K as n → 0⁺ (i.e. n/p → K).  `0 < K` is needed (`Real.log` is totalised). -/
theorem virial_henry (K A B C : ℝ) (hK : 0 < K) :
    Tendsto (fun n => Virial_pressure K A B C n / n) (𝓝[>] 0) (𝓝 (1 / K)) := by
  have hc : ContinuousAt (fun n : ℝ => Real.exp (-Real.log K + A * n + B * n ^ 2 + C * n ^ 3)) 0 := by
    fun_prop
  have h0 : Tendsto (fun n : ℝ => Real.exp (-Real.log K + A * n + B * n ^ 2 + C * n ^ 3)) (𝓝[>] 0) (𝓝 (1 / K)) := by
    have := hc.tendsto.mono_left (nhdsWithin_le_nhds (s := Set.Ioi (0 : ℝ)))
    have e : Real.exp (-Real.log K + A * 0 + B * 0 ^ 2 + C * 0 ^ 3) = 1 / K := by
      simp [Real.exp_neg, Real.exp_log hK]
    rw [e] at this; exact this
  refine h0.congr' ?_
  filter_upwards [self_mem_nhdsWithin] with n hn
  have hn' : n ≠ 0 := ne_of_gt hn
  rw [PgVerif.Tie.virial_pressure]; unfold virialP
  field_simp

/-- With non-negative virial coefficients there is no turning point: the pressure is strictly increasing
in the loading on `[0, ∞)`. -/
theorem virial_strictMonoOn (K A B C : ℝ) (hA : 0 ≤ A) (hB : 0 ≤ B) (hC : 0 ≤ C) :
    StrictMonoOn (Virial_pressure K A B C) (Set.Ici 0) := by
  intro a ha b hb hab
  simp only [Set.mem_Ici] at ha hb
  rw [PgVerif.Tie.virial_pressure, PgVerif.Tie.virial_pressure]; unfold virialP
  apply mul_lt_mul_of_nonneg_of_pos ha hab (Real.exp_pos _)
  apply Real.exp_le_exp.mpr
  have h1 : A * a ≤ A * b := mul_le_mul_of_nonneg_left hab.le hA
  have h2 : a ^ 2 ≤ b ^ 2 := pow_le_pow_left₀ ha hab.le 2
  have h3 : a ^ 3 ≤ b ^ 3 := pow_le_pow_left₀ ha hab.le 3
  have h2' : B * a ^ 2 ≤ B * b ^ 2 := mul_le_mul_of_nonneg_left h2 hB
  have h3' : C * a ^ 3 ≤ C * b ^ 3 := mul_le_mul_of_nonneg_left h3 hC
  linarith

/-- Specification of the numerical inverse: on the monotone range a pressure has at most one loading. -/
theorem virial_injOn (K A B C : ℝ) (hA : 0 ≤ A) (hB : 0 ≤ B) (hC : 0 ≤ C) :
    Set.InjOn (Virial_pressure K A B C) (Set.Ici 0) :=
  (virial_strictMonoOn K A B C hA hB hC).injOn

/-- derivative of the pressure in the loading, any coefficients -/
theorem virial_hasDerivAt (K A B C n : ℝ) :
    HasDerivAt (Virial_pressure K A B C)
      (Real.exp (-Real.log K + A * n + B * n ^ 2 + C * n ^ 3) * (1 + n * (A + 2 * B * n + 3 * C * n ^ 2))) n := by
  have hfun : Virial_pressure K A B C = fun n => n * Real.exp (-Real.log K + A * n + B * n ^ 2 + C * n ^ 3) := by
    funext x; rw [PgVerif.Tie.virial_pressure]; rfl
  rw [hfun]
  have hA : HasDerivAt (fun x : ℝ => A * x) A n := by
    simpa using (hasDerivAt_id n).const_mul A
  have hB : HasDerivAt (fun x : ℝ => B * x ^ 2) (B * (2 * n)) n := by
    simpa using (hasDerivAt_pow 2 n).const_mul B
  have hC : HasDerivAt (fun x : ℝ => C * x ^ 3) (C * (3 * n ^ 2)) n := by
    simpa using (hasDerivAt_pow 3 n).const_mul C
  have hE : HasDerivAt (fun x : ℝ => -Real.log K + A * x + B * x ^ 2 + C * x ^ 3)
      (A + B * (2 * n) + C * (3 * n ^ 2)) n := by
    have := ((hA.const_add (-Real.log K)).add hB).add hC
    exact this
  have hP := (hasDerivAt_id n).mul hE.exp
  simp only [id, one_mul] at hP
  have e : Real.exp (-Real.log K + A * n + B * n ^ 2 + C * n ^ 3) * (1 + n * (A + 2 * B * n + 3 * C * n ^ 2))
      = Real.exp (-Real.log K + A * n + B * n ^ 2 + C * n ^ 3)
        + n * (Real.exp (-Real.log K + A * n + B * n ^ 2 + C * n ^ 3) * (A + B * (2 * n) + C * (3 * n ^ 2))) := by
    ring
  rw [e]; exact hP

/-- Sharper monotonicity statement, arbitrary signs of the coefficients: the pressure is strictly
increasing on any interval `[0, m]` that stays before the turning point, i.e. on which
`1 + A n + 2 B n² + 3 C n³ > 0` (the sign of dp/dn). -/
theorem virial_strictMonoOn_of_deriv_pos (K A B C m : ℝ)
    (h : ∀ n, 0 < n → n < m → 0 < 1 + n * (A + 2 * B * n + 3 * C * n ^ 2)) :
    StrictMonoOn (Virial_pressure K A B C) (Set.Icc 0 m) := by
  apply strictMonoOn_of_deriv_pos (convex_Icc 0 m)
  · intro x _
    exact (virial_hasDerivAt K A B C x).continuousAt.continuousWithinAt
  · intro x hx
    rw [interior_Icc] at hx
    rw [(virial_hasDerivAt K A B C x).deriv]
    exact mul_pos (Real.exp_pos _) (h x hx.1 hx.2)

/-! ### FHVST -/

theorem fhvst_zero (nm K a1v : ℝ) : FHVST_pressure nm K a1v 0 = 0 := by
  rw [PgVerif.Tie.fhvst_pressure]; simp [fhvstP]

/-- Positivity for `0 < n < n_m`.  The hypothesis `0 < 1 + a1v θ` is not used by the proof (an exponential
is positive whatever its argument); it is kept as the guard that makes the exponent a genuine quotient
(Lean's `x / 0 = 0`), so that the statement is about the real formula only. -/
theorem fhvst_pos (nm K a1v n : ℝ) (hnm : 0 < nm) (hK : 0 < K) (hn : 0 < n) (hsat : n < nm)
    (_hpole : 0 < 1 + a1v * (n / nm)) : 0 < FHVST_pressure nm K a1v n := by
  rw [PgVerif.Tie.fhvst_pressure]; unfold fhvstP
  have h1 : 0 < 1 - n / nm := by rw [sub_pos, div_lt_one hnm]; exact hsat
  positivity

/-- Henry limit: p(n)/n → 1/K as n → 0⁺ -/
theorem fhvst_henry (nm K a1v : ℝ) (hnm : 0 < nm) (hK : 0 < K) :
    Tendsto (fun n => FHVST_pressure nm K a1v n / n) (𝓝[>] 0) (𝓝 (1 / K)) := by
  have hc : ContinuousAt (fun n : ℝ => 1 / K * (1 / (1 - n / nm)) *
      Real.exp (a1v ^ 2 * (n / nm) / (1 + a1v * (n / nm)))) 0 := by
    apply ContinuousAt.mul
    · apply ContinuousAt.mul continuousAt_const
      apply ContinuousAt.div continuousAt_const (by fun_prop) (by simp)
    · apply ContinuousAt.rexp
      apply ContinuousAt.div (by fun_prop) (by fun_prop) (by simp)
  have h0 : Tendsto (fun n : ℝ => 1 / K * (1 / (1 - n / nm)) *
      Real.exp (a1v ^ 2 * (n / nm) / (1 + a1v * (n / nm)))) (𝓝[>] 0) (𝓝 (1 / K)) := by
    have := hc.tendsto.mono_left (nhdsWithin_le_nhds (s := Set.Ioi (0 : ℝ)))
    simpa using this
  refine h0.congr' ?_
  have hmem : Set.Ioo (0 : ℝ) nm ∈ 𝓝[>] (0 : ℝ) := Ioo_mem_nhdsGT hnm
  filter_upwards [hmem] with n hn
  have hn' : n ≠ 0 := ne_of_gt hn.1
  have h1 : 1 - n / nm ≠ 0 := by
    have : 0 < 1 - n / nm := by rw [sub_pos, div_lt_one hnm]; exact hn.2
    exact this.ne'
  rw [PgVerif.Tie.fhvst_pressure]; unfold fhvstP
  field_simp

/-- Strictly increasing on the whole physical range `0 ≤ n < n_m` as soon as `a1v ≥ -1` (for `a1v < -1` the
exponent has a pole at `θ = -1/a1v` inside the range).  Contains the requested case `a1v ≥ 0`. -/
theorem fhvst_strictMonoOn (nm K a1v : ℝ) (hnm : 0 < nm) (hK : 0 < K) (ha : -1 ≤ a1v) :
    StrictMonoOn (FHVST_pressure nm K a1v) {n | 0 ≤ n ∧ n < nm} := by
  intro x hx y hy hxy
  simp only [Set.mem_ofPred_eq] at hx hy
  rw [PgVerif.Tie.fhvst_pressure, PgVerif.Tie.fhvst_pressure]; unfold fhvstP
  -- coverages
  have hθx0 : 0 ≤ x / nm := div_nonneg hx.1 hnm.le
  have hθx1 : x / nm < 1 := by rw [div_lt_one hnm]; exact hx.2
  have hθy1 : y / nm < 1 := by rw [div_lt_one hnm]; exact hy.2
  have hθxy : x / nm < y / nm := div_lt_div_of_pos_right hxy hnm
  generalize x / nm = s at *
  generalize y / nm = t at *
  have hs1 : 0 < 1 - s := by linarith
  have ht1 : 0 < 1 - t := by linarith
  have hsa : 0 < 1 + a1v * s := by nlinarith
  have hta : 0 < 1 + a1v * t := by nlinarith
  have hK' : 0 < nm / K := div_pos hnm hK
  rw [mul_assoc, mul_assoc]
  apply mul_lt_mul_of_pos_left _ hK'
  apply mul_lt_mul_of_nonneg_of_pos (div_nonneg hθx0 hs1.le) _ (Real.exp_pos _)
  · apply Real.exp_le_exp.mpr
    rw [div_le_div_iff₀ hsa hta]
    nlinarith [sq_nonneg a1v, mul_nonneg (sq_nonneg a1v) (sub_pos.mpr hθxy).le]
  · rw [div_lt_div_iff₀ hs1 ht1]; nlinarith

theorem fhvst_injOn (nm K a1v : ℝ) (hnm : 0 < nm) (hK : 0 < K) (ha : -1 ≤ a1v) :
    Set.InjOn (FHVST_pressure nm K a1v) {n | 0 ≤ n ∧ n < nm} :=
  (fhvst_strictMonoOn nm K a1v hnm hK ha).injOn

/-! ### WVST -/

/-- factorised form of the Wilson-VST pressure in the coverage `θ`:
`p = (n_m/K) L1v · [θ/(L1v+(1-L1v)θ) · exp(-(1-L1v)θ/(L1v+(1-L1v)θ))] · [(1-(1-Lv1)θ)/(1-θ) · exp(-Lv1(1-Lv1)θ/(1-(1-Lv1)θ))]` -/
lemma wvstP_factor (nm K L1v Lv1 n : ℝ) :
    wvstP nm K L1v Lv1 n = nm / K * L1v *
      ((n / nm / (L1v + (1 - L1v) * (n / nm)) * Real.exp (-((1 - L1v) * (n / nm) / (L1v + (1 - L1v) * (n / nm))))) *
       ((1 - (1 - Lv1) * (n / nm)) / (1 - n / nm) *
          Real.exp (-(Lv1 * ((1 - Lv1) * (n / nm)) / (1 - (1 - Lv1) * (n / nm)))))) := by
  unfold wvstP
  rw [show -(Lv1 * ((1 - Lv1) * (n / nm)) / (1 - (1 - Lv1) * (n / nm))) - (1 - L1v) * (n / nm) / (L1v + (1 - L1v) * (n / nm))
      = -((1 - L1v) * (n / nm) / (L1v + (1 - L1v) * (n / nm))) + -(Lv1 * ((1 - Lv1) * (n / nm)) / (1 - (1 - Lv1) * (n / nm)))
      by ring, Real.exp_add]
  ring

/-- first Wilson factor is strictly increasing in the coverage on `[0, 1)` -/
lemma wvst_factor1_lt (L s t : ℝ) (hL : 0 < L) (hs : 0 ≤ s) (hst : s < t) (ht : t < 1) :
    s / (L + (1 - L) * s) * Real.exp (-((1 - L) * s / (L + (1 - L) * s)))
      < t / (L + (1 - L) * t) * Real.exp (-((1 - L) * t / (L + (1 - L) * t))) := by
  have hds : 0 < L + (1 - L) * s := by nlinarith
  have hdt : 0 < L + (1 - L) * t := by nlinarith
  apply mul_exp_neg_lt (div_nonneg (hs.trans hst.le) hdt.le)
  have huv : s / (L + (1 - L) * s) < t / (L + (1 - L) * t) := by
    rw [div_lt_div_iff₀ hds hdt]; nlinarith
  have hv1 : (1 - L) * (t / (L + (1 - L) * t)) < 1 := by
    rw [← mul_div_assoc, div_lt_one hdt]; linarith
  rw [mul_div_assoc, mul_div_assoc]
  generalize s / (L + (1 - L) * s) = u at *
  generalize t / (L + (1 - L) * t) = v at *
  nlinarith [mul_pos (sub_pos.mpr huv) (sub_pos.mpr hv1)]

/-- second Wilson factor is strictly increasing in the coverage on `[0, 1)` -/
lemma wvst_factor2_lt (L s t : ℝ) (hL : 0 < L) (hs : 0 ≤ s) (hst : s < t) (ht : t < 1) :
    (1 - (1 - L) * s) / (1 - s) * Real.exp (-(L * ((1 - L) * s) / (1 - (1 - L) * s)))
      < (1 - (1 - L) * t) / (1 - t) * Real.exp (-(L * ((1 - L) * t) / (1 - (1 - L) * t))) := by
  have hs1 : 0 < 1 - s := by linarith
  have ht1 : 0 < 1 - t := by linarith
  have hds : 0 < 1 - (1 - L) * s := by nlinarith
  have hdt : 0 < 1 - (1 - L) * t := by nlinarith
  apply mul_exp_neg_lt (div_nonneg hdt.le ht1.le)
  have key : (1 - (1 - L) * t) / (1 - t) *
        (1 - (L * ((1 - L) * t) / (1 - (1 - L) * t) - L * ((1 - L) * s) / (1 - (1 - L) * s)))
      - (1 - (1 - L) * s) / (1 - s) = L ^ 2 * (t - s) / ((1 - s) * (1 - t) * (1 - (1 - L) * s)) := by
    field_simp; ring
  have hpos : 0 < L ^ 2 * (t - s) / ((1 - s) * (1 - t) * (1 - (1 - L) * s)) := by
    have := sub_pos.mpr hst; positivity
  linarith

theorem wvst_zero (nm K L1v Lv1 : ℝ) : WVST_pressure nm K L1v Lv1 0 = 0 := by
  rw [PgVerif.Tie.wvst_pressure]; simp [wvstP]

/-- Positivity for `0 < n < n_m`, all factors positive.  Only `0 < L1v`, `0 < Lv1` is needed
(the requested case `0 < L1v ≤ 1`, `0 < Lv1 ≤ 1` is contained). -/
theorem wvst_pos (nm K L1v Lv1 n : ℝ) (hnm : 0 < nm) (hK : 0 < K) (hL1 : 0 < L1v) (hL2 : 0 < Lv1)
    (hn : 0 < n) (hsat : n < nm) : 0 < WVST_pressure nm K L1v Lv1 n := by
  rw [PgVerif.Tie.wvst_pressure]; unfold wvstP
  have hθ0 : 0 < n / nm := div_pos hn hnm
  have hθ1 : n / nm < 1 := by rw [div_lt_one hnm]; exact hsat
  generalize n / nm = s at *
  have h1 : 0 < 1 - s := by linarith
  have h2 : 0 < 1 - (1 - Lv1) * s := by nlinarith
  have h3 : 0 < L1v + (1 - L1v) * s := by nlinarith
  positivity

/-- Henry limit: p(n)/n → 1/K as n → 0⁺.  Needs `L1v ≠ 0` (at `L1v = 0` the activity coefficient is `0/0` at zero coverage). -/
theorem wvst_henry (nm K L1v Lv1 : ℝ) (hnm : 0 < nm) (hK : 0 < K) (hL1 : 0 < L1v) :
    Tendsto (fun n => WVST_pressure nm K L1v Lv1 n / n) (𝓝[>] 0) (𝓝 (1 / K)) := by
  have hc : ContinuousAt (fun n : ℝ => 1 / K / (1 - n / nm) *
      (L1v * (1 - (1 - Lv1) * (n / nm)) / (L1v + (1 - L1v) * (n / nm))) *
      Real.exp (-(Lv1 * ((1 - Lv1) * (n / nm)) / (1 - (1 - Lv1) * (n / nm)))
        - (1 - L1v) * (n / nm) / (L1v + (1 - L1v) * (n / nm)))) 0 := by
    apply ContinuousAt.mul
    · apply ContinuousAt.mul
      · apply ContinuousAt.div continuousAt_const (by fun_prop) (by simp)
      · apply ContinuousAt.div (by fun_prop) (by fun_prop) (by simpa using hL1.ne')
    · apply ContinuousAt.rexp
      apply ContinuousAt.sub
      · apply ContinuousAt.neg
        apply ContinuousAt.div (by fun_prop) (by fun_prop) (by simp)
      · apply ContinuousAt.div (by fun_prop) (by fun_prop) (by simpa using hL1.ne')
  have h0 : Tendsto (fun n : ℝ => 1 / K / (1 - n / nm) *
      (L1v * (1 - (1 - Lv1) * (n / nm)) / (L1v + (1 - L1v) * (n / nm))) *
      Real.exp (-(Lv1 * ((1 - Lv1) * (n / nm)) / (1 - (1 - Lv1) * (n / nm)))
        - (1 - L1v) * (n / nm) / (L1v + (1 - L1v) * (n / nm)))) (𝓝[>] 0) (𝓝 (1 / K)) := by
    have := hc.tendsto.mono_left (nhdsWithin_le_nhds (s := Set.Ioi (0 : ℝ)))
    have e : L1v / L1v = 1 := div_self hL1.ne'
    simpa [e] using this
  refine h0.congr' ?_
  have hmem : Set.Ioo (0 : ℝ) nm ∈ 𝓝[>] (0 : ℝ) := Ioo_mem_nhdsGT hnm
  filter_upwards [hmem] with n hn
  have hn' : n ≠ 0 := ne_of_gt hn.1
  have h1 : 1 - n / nm ≠ 0 := by
    have : 0 < 1 - n / nm := by rw [sub_pos, div_lt_one hnm]; exact hn.2
    exact this.ne'
  rw [PgVerif.Tie.wvst_pressure]; unfold wvstP
  field_simp

/-- (extra) The Wilson-VST pressure is strictly increasing in the loading on the whole physical range
`0 ≤ n < n_m`, for any `L1v, Lv1 > 0` (d ln p/dθ = L1v²/(θ (L1v+(1-L1v)θ)²) + Lv1²/((1-θ)(1-(1-Lv1)θ)²) > 0). -/
theorem wvst_strictMonoOn (nm K L1v Lv1 : ℝ) (hnm : 0 < nm) (hK : 0 < K) (hL1 : 0 < L1v) (hL2 : 0 < Lv1) :
    StrictMonoOn (WVST_pressure nm K L1v Lv1) {n | 0 ≤ n ∧ n < nm} := by
  intro x hx y hy hxy
  simp only [Set.mem_ofPred_eq] at hx hy
  rw [PgVerif.Tie.wvst_pressure, PgVerif.Tie.wvst_pressure, wvstP_factor, wvstP_factor]
  have hθx0 : 0 ≤ x / nm := div_nonneg hx.1 hnm.le
  have hθy1 : y / nm < 1 := by rw [div_lt_one hnm]; exact hy.2
  have hθxy : x / nm < y / nm := div_lt_div_of_pos_right hxy hnm
  generalize x / nm = s at *
  generalize y / nm = t at *
  have hs1 : 0 < 1 - s := by linarith
  have hds1 : 0 < L1v + (1 - L1v) * s := by nlinarith
  have hds2 : 0 < 1 - (1 - Lv1) * s := by nlinarith
  have hC : 0 < nm / K * L1v := mul_pos (div_pos hnm hK) hL1
  apply mul_lt_mul_of_pos_left _ hC
  apply mul_lt_mul_of_nonneg_of_pos
  · exact mul_nonneg (div_nonneg hθx0 hds1.le) (Real.exp_pos _).le
  · exact wvst_factor1_lt L1v s t hL1 hθx0 hθxy hθy1
  · exact mul_pos (div_pos hds2 hs1) (Real.exp_pos _)
  · exact (wvst_factor2_lt Lv1 s t hL2 hθx0 hθxy hθy1).le

theorem wvst_injOn (nm K L1v Lv1 : ℝ) (hnm : 0 < nm) (hK : 0 < K) (hL1 : 0 < L1v) (hL2 : 0 < Lv1) :
    Set.InjOn (WVST_pressure nm K L1v Lv1) {n | 0 ≤ n ∧ n < nm} :=
  (wvst_strictMonoOn nm K L1v Lv1 hnm hK hL1 hL2).injOn

/-! ### the numerical inverse `loading(p)` is specified by its certificate

`FHVST.loading` / `WVST.loading` are `scipy.optimize.root` calls (not translated).  What the property asks of an ANSWER `x` to the
request `p = pressure(n)` is the certificate `pressure(x) = p` (harness: `certified_inverses`, relative residual 1e-6 at the returned
point).  On the physical range the certificate is all there is to check: -/

/-- a returned point of the physical range that passes the certificate IS the loading -/
theorem fhvst_certified_root_unique (nm K a1v n x : ℝ) (hnm : 0 < nm) (hK : 0 < K) (ha : -1 ≤ a1v)
    (hn : 0 ≤ n ∧ n < nm) (hx : 0 ≤ x ∧ x < nm)
    (hcert : FHVST_pressure nm K a1v x = FHVST_pressure nm K a1v n) : x = n :=
  fhvst_injOn nm K a1v hnm hK ha hx hn hcert

/-- defect class "success is not certified at the returned point": ANY other point of the range -- a start value, the last iterate of
a solver that stalled -- fails the certificate, so an answer that is not the loading is always visible to it -/
theorem fhvst_other_point_not_root (nm K a1v n s : ℝ) (hnm : 0 < nm) (hK : 0 < K) (ha : -1 ≤ a1v)
    (hn : 0 ≤ n ∧ n < nm) (hs : 0 ≤ s ∧ s < nm) (hne : s ≠ n) :
    FHVST_pressure nm K a1v s ≠ FHVST_pressure nm K a1v n :=
  fun h => hne (fhvst_injOn nm K a1v hnm hK ha hs hn h)

/-- ... with the sign of the residual: a start value below the loading (the middle of the coverage range handed back for a loading
near saturation) gives a pressure strictly below the one asked for -/
theorem fhvst_start_below_residual_neg (nm K a1v n s : ℝ) (hnm : 0 < nm) (hK : 0 < K) (ha : -1 ≤ a1v)
    (hs0 : 0 ≤ s) (hsn : s < n) (hn : n < nm) :
    FHVST_pressure nm K a1v s - FHVST_pressure nm K a1v n < 0 :=
  sub_neg.mpr (fhvst_strictMonoOn nm K a1v hnm hK ha ⟨hs0, hsn.trans hn⟩ ⟨hs0.trans hsn.le, hn⟩ hsn)

/-- the zero start value (known finding S24c) is no root for any positive loading -/
theorem fhvst_zero_start_not_root (nm K a1v n : ℝ) (hnm : 0 < nm) (hK : 0 < K) (hn : 0 < n) (hsat : n < nm)
    (ha : -1 ≤ a1v) : FHVST_pressure nm K a1v 0 ≠ FHVST_pressure nm K a1v n :=
  fhvst_other_point_not_root nm K a1v n 0 hnm hK ha ⟨hn.le, hsat⟩ ⟨le_rfl, hnm⟩ hn.ne

-- non-vacuity: n_m = 2, K = 1, a1v = 0, the loading 3/2 and the middle of the range 1
example : FHVST_pressure 2 1 0 1 ≠ FHVST_pressure 2 1 0 (3 / 2) :=
  fhvst_other_point_not_root 2 1 0 (3 / 2) 1 (by norm_num) (by norm_num) (by norm_num) ⟨by norm_num, by norm_num⟩
    ⟨by norm_num, by norm_num⟩ (by norm_num)

theorem wvst_certified_root_unique (nm K L1v Lv1 n x : ℝ) (hnm : 0 < nm) (hK : 0 < K) (hL1 : 0 < L1v) (hL2 : 0 < Lv1)
    (hn : 0 ≤ n ∧ n < nm) (hx : 0 ≤ x ∧ x < nm)
    (hcert : WVST_pressure nm K L1v Lv1 x = WVST_pressure nm K L1v Lv1 n) : x = n :=
  wvst_injOn nm K L1v Lv1 hnm hK hL1 hL2 hx hn hcert

theorem wvst_other_point_not_root (nm K L1v Lv1 n s : ℝ) (hnm : 0 < nm) (hK : 0 < K) (hL1 : 0 < L1v) (hL2 : 0 < Lv1)
    (hn : 0 ≤ n ∧ n < nm) (hs : 0 ≤ s ∧ s < nm) (hne : s ≠ n) :
    WVST_pressure nm K L1v Lv1 s ≠ WVST_pressure nm K L1v Lv1 n :=
  fun h => hne (wvst_injOn nm K L1v Lv1 hnm hK hL1 hL2 hs hn h)

theorem wvst_start_below_residual_neg (nm K L1v Lv1 n s : ℝ) (hnm : 0 < nm) (hK : 0 < K) (hL1 : 0 < L1v) (hL2 : 0 < Lv1)
    (hs0 : 0 ≤ s) (hsn : s < n) (hn : n < nm) :
    WVST_pressure nm K L1v Lv1 s - WVST_pressure nm K L1v Lv1 n < 0 :=
  sub_neg.mpr (wvst_strictMonoOn nm K L1v Lv1 hnm hK hL1 hL2 ⟨hs0, hsn.trans hn⟩ ⟨hs0.trans hsn.le, hn⟩ hsn)

example : WVST_pressure 2 1 (1 / 2) (1 / 2) 1 ≠ WVST_pressure 2 1 (1 / 2) (1 / 2) (3 / 2) :=
  wvst_other_point_not_root 2 1 (1 / 2) (1 / 2) (3 / 2) 1 (by norm_num) (by norm_num) (by norm_num) (by norm_num)
    ⟨by norm_num, by norm_num⟩ ⟨by norm_num, by norm_num⟩ (by norm_num)

end PgVerif.C10
