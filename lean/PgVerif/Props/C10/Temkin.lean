/-
C10 for TemkinApprox (modelling/temkinapprox.py).  Statements are about the *generated* function
`Gen.R.TemkinApprox_loading nm K tht p = nm (θ + tht θ² (θ - 1))`, `θ = K p / (1 + K p)`; proofs go through the tie
lemma to the published equation.  Parameters: `nm, K > 0`, `tht ≥ 0` (declared bounds); the inverse is numerical
(no closed form, nothing to prove).  The upper bounds on `tht` (4 for non-negativity, 3 for monotonicity) are
part of the properties: they are not implied by the declared bounds `(0, ∞)`.
-/
import PgVerif.Tie.Models
import Mathlib.Analysis.SpecialFunctions.Log.Deriv
import Mathlib.Tactic

namespace PgVerif.C10
open PgVerif.Gen.R PgVerif.Spec.M Filter Topology

/-! ### helpers: the Langmuir coverage `θ = K p / (1 + K p)` and the cubic `θ + tht θ² (θ - 1)` -/

lemma temkin_cov_nonneg (K p : ℝ) (hK : 0 < K) (hp : 0 ≤ p) : 0 ≤ K * p / (1 + K * p) := by positivity

lemma temkin_cov_lt_one (K p : ℝ) (hK : 0 < K) (hp : 0 ≤ p) : K * p / (1 + K * p) < 1 := by
  have h1 : 0 < 1 + K * p := by positivity
  rw [div_lt_one h1]; linarith

lemma temkin_cov_strictMono (K a b : ℝ) (hK : 0 < K) (ha : 0 ≤ a) (hab : a < b) :
    K * a / (1 + K * a) < K * b / (1 + K * b) := by
  have hb : 0 ≤ b := ha.trans hab.le
  have h1 : 0 < 1 + K * a := by positivity
  have h2 : 0 < 1 + K * b := by positivity
  rw [div_lt_div_iff₀ h1 h2]
  have : 0 < K * (b - a) := mul_pos hK (sub_pos.mpr hab)
  nlinarith

/-- the cubic is ≥ 0 for `θ ≥ 0` when `0 ≤ tht ≤ 4`: `1 + tht (θ² - θ) ≥ 1 - tht/4` -/
lemma temkin_cubic_nonneg (tht t : ℝ) (h0 : 0 ≤ tht) (h4 : tht ≤ 4) (ht : 0 ≤ t) :
    0 ≤ t + tht * t ^ 2 * (t - 1) := by
  have h1 : 0 ≤ tht * (t - 1 / 2) ^ 2 := mul_nonneg h0 (sq_nonneg _)
  have h2 : 0 ≤ 1 + tht * (t ^ 2 - t) := by nlinarith
  have h3 : t + tht * t ^ 2 * (t - 1) = t * (1 + tht * (t ^ 2 - t)) := by ring
  rw [h3]; exact mul_nonneg ht h2

/-- the cubic is ≤ θ for `θ ≤ 1` when `tht ≥ 0` -/
lemma temkin_cubic_le (tht t : ℝ) (h0 : 0 ≤ tht) (ht1 : t ≤ 1) :
    t + tht * t ^ 2 * (t - 1) ≤ t := by
  have h1 : 0 ≤ tht * t ^ 2 := mul_nonneg h0 (sq_nonneg _)
  have h2 : tht * t ^ 2 * (t - 1) ≤ 0 := mul_nonpos_of_nonneg_of_nonpos h1 (by linarith)
  linarith

/-- the cubic is strictly increasing on all of ℝ when `0 ≤ tht ≤ 3`:
the difference is `(b - a) (1 + tht (a² + a b + b² - a - b))` and `a² + a b + b² - a - b + 1/3 ≥ (b - a)²/4` -/
lemma temkin_cubic_strictMono (tht a b : ℝ) (h0 : 0 ≤ tht) (h3 : tht ≤ 3) (hab : a < b) :
    a + tht * a ^ 2 * (a - 1) < b + tht * b ^ 2 * (b - 1) := by
  have hd : 0 < b - a := sub_pos.mpr hab
  have hg : 0 < a ^ 2 + a * b + b ^ 2 - a - b + 1 / 3 := by
    have hsq : 0 < (b - a) ^ 2 := by positivity
    nlinarith [sq_nonneg (a + b - 2 / 3)]
  have hbr : 0 < 1 + tht * (a ^ 2 + a * b + b ^ 2 - a - b) := by
    rcases h3.lt_or_eq with h | h
    · have : 0 ≤ tht * (a ^ 2 + a * b + b ^ 2 - a - b + 1 / 3) := mul_nonneg h0 hg.le
      nlinarith
    · subst h; nlinarith
  have hf : (b + tht * b ^ 2 * (b - 1)) - (a + tht * a ^ 2 * (a - 1))
      = (b - a) * (1 + tht * (a ^ 2 + a * b + b ^ 2 - a - b)) := by ring
  have := mul_pos hd hbr
  linarith

/-! ### TemkinApprox -/

theorem temkin_zero (nm K tht : ℝ) : TemkinApprox_loading nm K tht 0 = 0 := by
  rw [PgVerif.Tie.temkin_loading]; simp [temkin]

theorem temkin_nonneg (nm K tht p : ℝ) (hnm : 0 < nm) (hK : 0 < K) (h0 : 0 ≤ tht) (h4 : tht ≤ 4) (hp : 0 ≤ p) :
    0 ≤ TemkinApprox_loading nm K tht p := by
  rw [PgVerif.Tie.temkin_loading]; unfold temkin
  exact mul_nonneg hnm.le (temkin_cubic_nonneg tht _ h0 h4 (temkin_cov_nonneg K p hK hp))

theorem temkin_le_sat (nm K tht p : ℝ) (hnm : 0 < nm) (hK : 0 < K) (h0 : 0 ≤ tht) (hp : 0 ≤ p) :
    TemkinApprox_loading nm K tht p ≤ nm := by
  rw [PgVerif.Tie.temkin_loading]; unfold temkin
  have h1 := temkin_cov_lt_one K p hK hp
  have h2 := temkin_cubic_le tht _ h0 h1.le
  calc nm * (K * p / (1 + K * p) + tht * (K * p / (1 + K * p)) ^ 2 * (K * p / (1 + K * p) - 1))
      ≤ nm * 1 := mul_le_mul_of_nonneg_left (h2.trans h1.le) hnm.le
    _ = nm := mul_one nm

/-- the bound is never attained -/
theorem temkin_lt_sat (nm K tht p : ℝ) (hnm : 0 < nm) (hK : 0 < K) (h0 : 0 ≤ tht) (hp : 0 ≤ p) :
    TemkinApprox_loading nm K tht p < nm := by
  rw [PgVerif.Tie.temkin_loading]; unfold temkin
  have h1 := temkin_cov_lt_one K p hK hp
  have h2 := temkin_cubic_le tht _ h0 h1.le
  calc nm * (K * p / (1 + K * p) + tht * (K * p / (1 + K * p)) ^ 2 * (K * p / (1 + K * p) - 1))
      < nm * 1 := mul_lt_mul_of_pos_left (lt_of_le_of_lt h2 h1) hnm
    _ = nm := mul_one nm

/-- strict monotonicity on `p ≥ 0` for `0 ≤ tht ≤ 3` (the boundary value `tht = 3` included) -/
theorem temkin_strictMonoOn (nm K tht : ℝ) (hnm : 0 < nm) (hK : 0 < K) (h0 : 0 ≤ tht) (h3 : tht ≤ 3) :
    StrictMonoOn (TemkinApprox_loading nm K tht) (Set.Ici 0) := by
  intro a ha b _ hab
  simp only [Set.mem_Ici] at ha
  rw [PgVerif.Tie.temkin_loading, PgVerif.Tie.temkin_loading]; unfold temkin
  exact mul_lt_mul_of_pos_left
    (temkin_cubic_strictMono tht _ _ h0 h3 (temkin_cov_strictMono K a b hK ha hab)) hnm

theorem temkin_monotoneOn (nm K tht : ℝ) (hnm : 0 < nm) (hK : 0 < K) (h0 : 0 ≤ tht) (h3 : tht ≤ 3) :
    MonotoneOn (TemkinApprox_loading nm K tht) (Set.Ici 0) :=
  (temkin_strictMonoOn nm K tht hnm hK h0 h3).monotoneOn

/-- Henry limit: n(p)/p → n_m K as p → 0⁺ (the quotient is only looked at on `p > 0`) -/
theorem temkin_henry (nm K tht : ℝ) (hK : 0 < K) :
    Tendsto (fun p => TemkinApprox_loading nm K tht p / p) (𝓝[>] 0) (𝓝 (nm * K)) := by
  have hc : ContinuousAt (fun p : ℝ =>
      nm * (K / (1 + K * p) + tht * (K ^ 2 * p / (1 + K * p) ^ 2) * (K * p / (1 + K * p) - 1))) 0 := by
    have hd : ContinuousAt (fun p : ℝ => 1 + K * p) 0 := by fun_prop
    have hd0 : (1 + K * (0 : ℝ)) ≠ 0 := by simp
    have hd2 : (1 + K * (0 : ℝ)) ^ 2 ≠ 0 := by simp
    have c1 : ContinuousAt (fun p : ℝ => K / (1 + K * p)) 0 := continuousAt_const.div hd hd0
    have c2 : ContinuousAt (fun p : ℝ => K ^ 2 * p / (1 + K * p) ^ 2) 0 :=
      ContinuousAt.div (by fun_prop) (hd.pow 2) hd2
    have c3 : ContinuousAt (fun p : ℝ => K * p / (1 + K * p)) 0 :=
      ContinuousAt.div (by fun_prop) hd hd0
    exact continuousAt_const.mul (c1.add ((continuousAt_const.mul c2).mul (c3.sub continuousAt_const)))
  have h0 : Tendsto (fun p : ℝ =>
      nm * (K / (1 + K * p) + tht * (K ^ 2 * p / (1 + K * p) ^ 2) * (K * p / (1 + K * p) - 1)))
      (𝓝[>] 0) (𝓝 (nm * K)) := by
    have := hc.tendsto.mono_left (nhdsWithin_le_nhds (s := Set.Ioi (0 : ℝ)))
    simpa using this
  refine h0.congr' ?_
  filter_upwards [self_mem_nhdsWithin] with p hp
  have hp0 : (0 : ℝ) < p := hp
  have hp' : p ≠ 0 := ne_of_gt hp0
  have h1 : 1 + K * p ≠ 0 := by positivity
  rw [PgVerif.Tie.temkin_loading]; unfold temkin
  field_simp

end PgVerif.C10
