/-
C01 — unit, pressure-mode and basis conversions are physically correct and consistent.

Property theorems only (helpers: `Lemmas/Units.lean`).  Model: `Model/Units.lean` (hand-written,
tied to the code by the exhaustive correspondence run) over the *generated* tables `Gen/Units.lean`
(regenerated from `converter_unit.py` / `converter_mode.py` on every run).  Spec: `Spec/Units.lean`.

All statements hold for every field `α` of characteristic zero — in particular ℝ — and every value `v`.
-/
import PgVerif.Lemmas.Units
import Mathlib.Algebra.Order.Field.Rat

set_option linter.unusedSectionVars false
set_option linter.unusedSimpArgs false
set_option linter.unusedVariables false

namespace PgVerif.C01
open PgVerif.Model PgVerif.Units
open PgVerif.Spec (LB MB Ads Mat gL gM PRep LRep MRep TRep physScale fac)

variable {α : Type} [Field α] [CharZero α]

/-! ## Tie: what the code says now = the SI tables -/

/-- the generated unit tables are the SI tables -/
theorem tables_eq_spec :
    Gen.pressureUnits = Spec.pressureUnits ∧ Gen.molarUnits = Spec.molarUnits ∧
    Gen.massUnits = Spec.massUnits ∧ Gen.volumeUnits = Spec.volumeUnits ∧
    Gen.temperatureUnits = Spec.temperatureUnits := by decide

/-- the generated mode/basis tables are the documented ones, each with the right unit table -/
theorem modes_eq_spec :
    Gen.pressureMode = Spec.pressureMode ∧ Gen.loadingMode = Spec.loadingMode ∧
    Gen.materialMode = Spec.materialMode := by decide

theorem unitTable_eq_spec : Gen.unitTable = Spec.unitTable := by
  funext s
  obtain ⟨h1, h2, h3, h4, _⟩ := tables_eq_spec
  unfold Gen.unitTable Spec.unitTable
  split <;> simp [*]

/-- every leaf of the `c_loading` if-chain carries the constant and sign of the specification table,
and off the chain (equal bases) there is no entry -/
theorem loading_const_table (b1 b2 : LB) :
    Gen.loadingConst.lookup (b1.name, b2.name) = if b1 = b2 then none else some (specLeaf b1 b2) :=
  loadingConst_lookup b1 b2

theorem material_const_table (b1 b2 : MB) :
    Gen.materialConst.lookup (b1.name, b2.name) = if b1 = b2 then none else some (specLeafM b1 b2) :=
  materialConst_lookup b1 b2

/-- **const_table_sound**: under thermodynamic consistency the selected constant raised to the selected
sign is the ratio of the SI contents (mol per unit) of the two bases -/
theorem const_table_sound (a : Ads α) (mat : Mat α) (hc : a.Consistent) (hp : a.Pos) (b1 b2 : LB) :
    ∃ c : α, ∃ sg : Int, leaf Gen.loadingConst (envOf a mat) (some b1.name) (some b2.name) = .ok (c, sg)
      ∧ c ^ sg = gL a b1 / gL a b2 :=
  leaf_phys a mat hc hp b1 b2

theorem const_table_sound_material (a : Ads α) (mat : Mat α) (hp : Mat.Pos mat) (b1 b2 : MB) :
    ∃ c : α, ∃ sg : Int, leaf Gen.materialConst (envOf a mat) (some b1.name) (some b2.name) = .ok (c, sg)
      ∧ c ^ sg = gM mat b1 / gM mat b2 :=
  leaf_mat a mat hp b1 b2

/-! ## The factor is the SI factor -/

/-- **pressure**: for any two supported representations the result is `v · scale(a) / scale(b)` where
`scale` is the number of Pa represented by the value 1 (SI table; `ps` for relative, `ps/100` for relative %) -/
theorem cPressure_SI (ps v : α) (hps : ps ≠ 0) (a b : PRep) (sa sb : α)
    (ha : a.scale Spec.pressureUnits ps = some sa) (hb : b.scale Spec.pressureUnits ps = some sb) :
    cPressure (some ps) true v (some a.mode) (some b.mode) a.unit b.unit = .ok (v * sa / sb) := by
  rw [← tables_eq_spec.1] at ha hb
  exact cPressure_spec ps v hps a b sa sb ha hb

/-- **loading**: `v · scale(r1) / scale(r2)`, `scale` = mol of adsorbate represented by the value 1
(fraction / percent: in the material's own basis and unit) -/
theorem cLoading_SI (a : Ads α) (mat : Mat α) (hc : a.Consistent) (hp : a.Pos) (v : α) (m : MRep)
    (r1 r2 : LRep) (s1 s2 : α)
    (h1 : r1.scale Spec.unitTable a m = some s1) (h2 : r2.scale Spec.unitTable a m = some s2) :
    cLoading (envOf a mat) v (some r1.basis) (some r2.basis) r1.unit r2.unit (some m.b.name) (some m.u)
      = .ok (v * s1 / s2) := by
  rw [← unitTable_eq_spec] at h1 h2
  exact cLoading_spec a mat hc hp v m r1 r2 s1 s2 h1 h2

/-- **material**: a quantity per unit of material is multiplied by grams(to)/grams(from) -/
theorem cMaterial_SI (a : Ads α) (mat : Mat α) (hp : Mat.Pos mat) (v : α) (r1 r2 : MRep) (g1 g2 : α)
    (h1 : r1.grams Spec.unitTable mat = some g1) (h2 : r2.grams Spec.unitTable mat = some g2) :
    cMaterial (envOf a mat) v (some r1.b.name) (some r2.b.name) (some r1.u) (some r2.u) = .ok (v * g2 / g1) := by
  rw [← unitTable_eq_spec] at h1 h2
  exact cMaterial_spec a mat hp v r1 r2 g1 g2 h1 h2

/-- **temperature**: through Kelvin, with 0 °C = 273.15 K, for every accepted Celsius spelling -/
theorem cTemperature_SI (v : α) (a b : TRep) (ha : TRep.Valid a) (hb : TRep.Valid b) :
    cTemperature v (some a.label) (some b.label) = .ok (b.ofK (a.toK v)) :=
  cTemperature_spec v a b ha hb

/-! ## Scales are non-zero (so the laws below are not vacuous divisions by zero) -/

theorem PRep.scale_ne_zero (ps : α) (hps : ps ≠ 0) (a : PRep) (sa : α)
    (ha : a.scale Spec.pressureUnits ps = some sa) : sa ≠ 0 := by
  rw [← tables_eq_spec.1] at ha
  cases a with
  | abs u => exact facOf_ne_zero _ pressure_ok _ _ (scale_abs ha).2
  | rel u => simp [Spec.PRep.scale] at ha; subst ha; exact hps
  | relp u => simp [Spec.PRep.scale] at ha; subst ha; exact div_ne_zero hps (by norm_num)

theorem LRep.scale_ne_zero (a : Ads α) (hp : a.Pos) (m : MRep) (r : LRep) (s : α)
    (h : r.scale Spec.unitTable a m = some s) : s ≠ 0 := by
  rw [← unitTable_eq_spec] at h
  have key : ∀ (b : LB) (u : String) (s : α), physScale Gen.unitTable a b u = some s → s ≠ 0 := by
    intro b u s h
    obtain ⟨_, f, _, rfl, hn⟩ := physScale_inv h
    have : gL a b ≠ 0 := by obtain ⟨hM, hL, hLb, hG, hGb⟩ := hp; cases b <;> simp [gL, *]
    exact mul_ne_zero hn this
  cases r with
  | phys b u => exact key b u s h
  | frac => exact key _ _ s h
  | pct =>
    simp only [Spec.LRep.scale, Option.map_eq_some_iff] at h
    obtain ⟨s', h, rfl⟩ := h
    exact div_ne_zero (key _ _ s' h) (by norm_num)

theorem MRep.grams_ne_zero (mat : Mat α) (hp : Mat.Pos mat) (r : MRep) (g : α)
    (h : r.grams Spec.unitTable mat = some g) : g ≠ 0 := by
  rw [← unitTable_eq_spec] at h
  obtain ⟨_, f, _, rfl, hn, hg⟩ := grams_inv hp h
  exact mul_ne_zero hn hg

/-! ## Identity, there-and-back, path independence -/

theorem cPressure_id (ps v : α) (hps : ps ≠ 0) (a : PRep) (sa : α)
    (ha : a.scale Spec.pressureUnits ps = some sa) :
    cPressure (some ps) true v (some a.mode) (some a.mode) a.unit a.unit = .ok v := by
  rw [cPressure_SI ps v hps a a sa sa ha ha]
  have := PRep.scale_ne_zero ps hps a sa ha
  congr 1; field_simp

theorem cPressure_compose (ps v : α) (hps : ps ≠ 0) (a b c : PRep) (sa sb sc : α)
    (ha : a.scale Spec.pressureUnits ps = some sa) (hb : b.scale Spec.pressureUnits ps = some sb)
    (hc : c.scale Spec.pressureUnits ps = some sc) :
    (cPressure (some ps) true v (some a.mode) (some b.mode) a.unit b.unit >>= fun w =>
      cPressure (some ps) true w (some b.mode) (some c.mode) b.unit c.unit)
      = cPressure (some ps) true v (some a.mode) (some c.mode) a.unit c.unit := by
  rw [cPressure_SI ps v hps a b sa sb ha hb, cPressure_SI ps v hps a c sa sc ha hc]
  simp only [bind, Except.bind]
  rw [cPressure_SI ps _ hps b c sb sc hb hc]
  have := PRep.scale_ne_zero ps hps b sb hb
  congr 1; field_simp

theorem cPressure_roundtrip (ps v : α) (hps : ps ≠ 0) (a b : PRep) (sa sb : α)
    (ha : a.scale Spec.pressureUnits ps = some sa) (hb : b.scale Spec.pressureUnits ps = some sb) :
    (cPressure (some ps) true v (some a.mode) (some b.mode) a.unit b.unit >>= fun w =>
      cPressure (some ps) true w (some b.mode) (some a.mode) b.unit a.unit) = .ok v := by
  rw [cPressure_compose ps v hps a b a sa sb sa ha hb ha, cPressure_id ps v hps a sa ha]

theorem cLoading_id (a : Ads α) (mat : Mat α) (hc : a.Consistent) (hp : a.Pos) (v : α) (m : MRep)
    (r : LRep) (s : α) (h : r.scale Spec.unitTable a m = some s) :
    cLoading (envOf a mat) v (some r.basis) (some r.basis) r.unit r.unit (some m.b.name) (some m.u) = .ok v := by
  rw [cLoading_SI a mat hc hp v m r r s s h h]
  have := LRep.scale_ne_zero a hp m r s h
  congr 1; field_simp

/-- path independence, also across fraction/percent -/
theorem cLoading_compose (a : Ads α) (mat : Mat α) (hc : a.Consistent) (hp : a.Pos) (v : α) (m : MRep)
    (r1 r2 r3 : LRep) (s1 s2 s3 : α) (h1 : r1.scale Spec.unitTable a m = some s1)
    (h2 : r2.scale Spec.unitTable a m = some s2) (h3 : r3.scale Spec.unitTable a m = some s3) :
    (cLoading (envOf a mat) v (some r1.basis) (some r2.basis) r1.unit r2.unit (some m.b.name) (some m.u) >>= fun w =>
      cLoading (envOf a mat) w (some r2.basis) (some r3.basis) r2.unit r3.unit (some m.b.name) (some m.u))
      = cLoading (envOf a mat) v (some r1.basis) (some r3.basis) r1.unit r3.unit (some m.b.name) (some m.u) := by
  rw [cLoading_SI a mat hc hp v m r1 r2 s1 s2 h1 h2, cLoading_SI a mat hc hp v m r1 r3 s1 s3 h1 h3]
  simp only [bind, Except.bind]
  rw [cLoading_SI a mat hc hp _ m r2 r3 s2 s3 h2 h3]
  have := LRep.scale_ne_zero a hp m r2 s2 h2
  congr 1; field_simp

theorem cLoading_roundtrip (a : Ads α) (mat : Mat α) (hc : a.Consistent) (hp : a.Pos) (v : α) (m : MRep)
    (r1 r2 : LRep) (s1 s2 : α) (h1 : r1.scale Spec.unitTable a m = some s1)
    (h2 : r2.scale Spec.unitTable a m = some s2) :
    (cLoading (envOf a mat) v (some r1.basis) (some r2.basis) r1.unit r2.unit (some m.b.name) (some m.u) >>= fun w =>
      cLoading (envOf a mat) w (some r2.basis) (some r1.basis) r2.unit r1.unit (some m.b.name) (some m.u)) = .ok v := by
  rw [cLoading_compose a mat hc hp v m r1 r2 r1 s1 s2 s1 h1 h2 h1, cLoading_id a mat hc hp v m r1 s1 h1]

theorem cMaterial_id (a : Ads α) (mat : Mat α) (hp : Mat.Pos mat) (v : α) (r : MRep) (g : α)
    (h : r.grams Spec.unitTable mat = some g) :
    cMaterial (envOf a mat) v (some r.b.name) (some r.b.name) (some r.u) (some r.u) = .ok v := by
  rw [cMaterial_SI a mat hp v r r g g h h]
  have := MRep.grams_ne_zero mat hp r g h
  congr 1; field_simp

theorem cMaterial_compose (a : Ads α) (mat : Mat α) (hp : Mat.Pos mat) (v : α) (r1 r2 r3 : MRep) (g1 g2 g3 : α)
    (h1 : r1.grams Spec.unitTable mat = some g1) (h2 : r2.grams Spec.unitTable mat = some g2)
    (h3 : r3.grams Spec.unitTable mat = some g3) :
    (cMaterial (envOf a mat) v (some r1.b.name) (some r2.b.name) (some r1.u) (some r2.u) >>= fun w =>
      cMaterial (envOf a mat) w (some r2.b.name) (some r3.b.name) (some r2.u) (some r3.u))
      = cMaterial (envOf a mat) v (some r1.b.name) (some r3.b.name) (some r1.u) (some r3.u) := by
  rw [cMaterial_SI a mat hp v r1 r2 g1 g2 h1 h2, cMaterial_SI a mat hp v r1 r3 g1 g3 h1 h3]
  simp only [bind, Except.bind]
  rw [cMaterial_SI a mat hp _ r2 r3 g2 g3 h2 h3]
  have := MRep.grams_ne_zero mat hp r2 g2 h2
  have := MRep.grams_ne_zero mat hp r1 g1 h1
  congr 1; field_simp

theorem cMaterial_roundtrip (a : Ads α) (mat : Mat α) (hp : Mat.Pos mat) (v : α) (r1 r2 : MRep) (g1 g2 : α)
    (h1 : r1.grams Spec.unitTable mat = some g1) (h2 : r2.grams Spec.unitTable mat = some g2) :
    (cMaterial (envOf a mat) v (some r1.b.name) (some r2.b.name) (some r1.u) (some r2.u) >>= fun w =>
      cMaterial (envOf a mat) w (some r2.b.name) (some r1.b.name) (some r2.u) (some r1.u)) = .ok v := by
  rw [cMaterial_compose a mat hp v r1 r2 r1 g1 g2 g1 h1 h2 h1, cMaterial_id a mat hp v r1 g1 h1]

theorem cTemperature_roundtrip (v : α) (a b : TRep) (ha : TRep.Valid a) (hb : TRep.Valid b) :
    (cTemperature v (some a.label) (some b.label) >>= fun w => cTemperature w (some b.label) (some a.label))
      = .ok v := by
  rw [cTemperature_SI v a b ha hb]
  simp only [bind, Except.bind]
  rw [cTemperature_SI _ b a hb ha]
  cases a <;> cases b <;> simp [Spec.TRep.ofK, Spec.TRep.toK]

/-- arrays: a conversion maps pointwise (the code multiplies a numpy/pandas array by one factor) -/
theorem map_pointwise {ε β γ : Type} (f : β → Except ε γ) (g : β → γ) (h : ∀ v, f v = .ok (g v)) (vs : List β) :
    vs.mapM f = .ok (vs.map g) := by
  induction vs with
  | nil => rfl
  | cons v vs ih => simp [List.mapM_cons, h, ih, bind, Except.bind, pure, Except.pure]

/-- why the model (and the property) take the VALUE into the field before anything else: the same product formed in the value's own
    narrow integer type is another number (8-bit: 50 · 100 wraps to -120; numpy keeps `int8_array * 100` in int8), so a conversion that
    multiplies the caller's array by an integer table entry first — `value * from / to` instead of `value * (from / to)` — is not
    multiplication by the SI factor.  The harness's argument oracle (every dtype, magnitudes to the ends of its range) searches for this. -/
example : ((50 : BitVec 8) * 100).toInt = -120 ∧ ((50 : BitVec 8) * 100).toInt ≠ 50 * 100 := by decide

/-! ## Refusals: a missing or unknown unit / mode / basis never yields a number -/

theorem checkUnit_refuses (t : List (String × Nat × Nat)) (u : Option String)
    (h : u = none ∨ u = some "" ∨ ∃ s, u = some s ∧ t.lookup s = none) :
    (checkUnit t u : Except Err α) = .error .param := by
  rcases h with rfl | rfl | ⟨s, rfl, hs⟩
  · rfl
  · rfl
  · simp only [checkUnit, facOf, hs]; split <;> rfl

theorem checkBasis_refuses (modes : List (String × Option String)) (b : Option String)
    (h : b = none ∨ b = some "" ∨ ∃ s, b = some s ∧ modes.lookup s = none) :
    checkBasis modes b = .error .param := by
  rcases h with rfl | rfl | ⟨s, rfl, hs⟩
  · rfl
  · rfl
  · simp only [checkBasis, hs]; split <;> rfl

theorem checkUnit_error_param (t : List (String × Nat × Nat)) (u : Option String) (e : Err)
    (h : (checkUnit t u : Except Err α) = .error e) : e = .param := by
  unfold checkUnit at h; split at h <;> (try split at h) <;> (try split at h) <;> simp_all

/-- a bad pressure mode on either side is a parameter error -/
theorem cPressure_refuses_mode (psat : Option α) (t : Bool) (v : α) (mf mt uf ut : Option String)
    (h : checkBasis Gen.pressureMode mf = .error .param ∨ checkBasis Gen.pressureMode mt = .error .param) :
    cPressure psat t v mf mt uf ut = .error .param := by
  unfold cPressure
  rcases h with h | h
  · simp [h, bind, Except.bind]
  · cases hm : checkBasis Gen.pressureMode mf with
    | error e =>
      have : e = .param := by
        unfold checkBasis at hm; split at hm <;> (try split at hm) <;> (try split at hm) <;> simp_all
      simp [hm, this, bind, Except.bind]
    | ok x => simp [h, bind, Except.bind]

/-- converting between absolute and a relative mode without a valid unit on the absolute side is refused;
so is a missing temperature -/
theorem cPressure_refuses_unit (psat : Option α) (t : Bool) (v : α) (a : PRep) (u : Option String)
    (ha : a.mode ≠ "absolute") (hu : (checkUnit Gen.pressureUnits u : Except Err α) = .error .param)
    (o : Option String) :
    cPressure psat t v (some a.mode) (some "absolute") o u = .error .param ∧
    cPressure psat t v (some "absolute") (some a.mode) u o = .error .param := by
  cases a <;> simp [Spec.PRep.mode] at ha <;>
    simp [cPressure, checkBasis, Gen.pressureMode, List.lookup, Spec.PRep.mode, hu, bind, Except.bind]

theorem cPressure_refuses_no_temperature (psat : Option α) (v : α) (a : PRep) (u o : Option String)
    (ha : a.mode ≠ "absolute") :
    cPressure psat false v (some a.mode) (some "absolute") o u = .error .param ∧
    cPressure psat false v (some "absolute") (some a.mode) u o = .error .param := by
  cases a <;> simp [Spec.PRep.mode] at ha <;>
    simp [cPressure, checkBasis, Gen.pressureMode, List.lookup, Spec.PRep.mode, bind, Except.bind] <;>
    (cases h : (checkUnit Gen.pressureUnits u : Except Err α) with
      | error e => simp [checkUnit_error_param _ _ _ h]
      | ok x => simp)

theorem cLoading_refuses_basis (env : Env α) (v : α) (bf bt uf ut bm um : Option String)
    (h : checkBasis Gen.loadingMode bf = .error .param) :
    cLoading env v bf bt uf ut bm um = .error .param := by
  simp [cLoading, h, bind, Except.bind]

theorem cMaterial_refuses_basis (env : Env α) (v : α) (bf bt uf ut : Option String)
    (h : checkBasis Gen.materialMode bf = .error .param) :
    cMaterial env v bf bt uf ut = .error .param := by
  simp [cMaterial, h, bind, Except.bind]

/-- a change of physical loading basis with a bad unit on either side is refused -/
theorem cLoading_refuses_unit (env : Env α) (v : α) (b1 b2 : LB) (hb : b1 ≠ b2) (uf ut bm um : Option String)
    (h : (checkUnit (Gen.unitTable b1.table) uf : Except Err α) = .error .param ∨
         (checkUnit (Gen.unitTable b2.table) ut : Except Err α) = .error .param) :
    cLoading env v (some b1.name) (some b2.name) uf ut bm um = .error .param := by
  have hb1 : checkBasis Gen.loadingMode (some b1.name) = .ok (b1.name, some b1.table) := by cases b1 <;> rfl
  have hb2 : checkBasis Gen.loadingMode (some b2.name) = .ok (b2.name, some b2.table) := by cases b2 <;> rfl
  have hne : b1.name ≠ b2.name := by cases b1 <;> cases b2 <;> simp_all [Spec.LB.name]
  rcases h with h | h
  · cases h2 : (checkUnit (Gen.unitTable b2.table) ut : Except Err α) with
    | error e =>
      have : e = .param := by
        unfold checkUnit at h2; split at h2 <;> (try split at h2) <;> (try split at h2) <;> simp_all
      simp [cLoading, hb1, hb2, hne, h2, this, bind, Except.bind]
    | ok x => simp [cLoading, hb1, hb2, hne, h2, h, bind, Except.bind]
  · simp [cLoading, hb1, hb2, hne, h, bind, Except.bind]

theorem cMaterial_refuses_unit (env : Env α) (v : α) (b1 b2 : MB) (hb : b1 ≠ b2) (uf ut : Option String)
    (h : (checkUnit (Gen.unitTable b1.table) uf : Except Err α) = .error .param ∨
         (checkUnit (Gen.unitTable b2.table) ut : Except Err α) = .error .param) :
    cMaterial env v (some b1.name) (some b2.name) uf ut = .error .param := by
  have hb1 : checkBasis Gen.materialMode (some b1.name) = .ok (b1.name, some b1.table) := by cases b1 <;> rfl
  have hb2 : checkBasis Gen.materialMode (some b2.name) = .ok (b2.name, some b2.table) := by cases b2 <;> rfl
  have hne : b1.name ≠ b2.name := by cases b1 <;> cases b2 <;> simp_all [Spec.MB.name]
  rcases h with h | h
  · cases h2 : (checkUnit (Gen.unitTable b2.table) ut : Except Err α) with
    | error e =>
      have : e = .param := by
        unfold checkUnit at h2; split at h2 <;> (try split at h2) <;> (try split at h2) <;> simp_all
      simp [cMaterial, hb1, hb2, hne, h2, this, bind, Except.bind]
    | ok x => simp [cMaterial, hb1, hb2, hne, h2, h, bind, Except.bind]
  · simp [cMaterial, hb1, hb2, hne, h, bind, Except.bind]

theorem cTemperature_refuses (v : α) (uf ut : Option String)
    (h : (checkTemp (normTemp ut) : Except Err α) = .error .param) :
    cTemperature v uf ut = .error .param := by
  simp [cTemperature, h, bind, Except.bind]

/-! ## Finding S16 (kept visible): three refusals are not *parameter* errors.
The full clause "refused with a parameter error" is therefore false of model and code at these points;
the theorems above are the part that holds (`…_partial` in the sense of DESIGN §6). -/

deriving instance DecidableEq for Except

/-- fraction → molar without a material basis: `KeyError` -/
theorem S16_witness_key :
    cLoading (fun _ => some (2 : ℚ)) 1 (some "fraction") (some "molar") none (some "mmol") none none
      = .error .key := by decide +kernel

/-- fraction → fraction with a unit: `TypeError` -/
theorem S16_witness_type :
    cLoading (fun _ => some (2 : ℚ)) 1 (some "fraction") (some "fraction") none (some "mmol") none none
      = .error .type := by decide +kernel

/-- mass → volume of material without a density: `TypeError` -/
theorem S16_witness_material :
    cMaterial (fun q => if q = .matDensity then none else some (2 : ℚ)) 1 (some "mass") (some "volume")
      (some "g") (some "cm3") = .error .type := by decide +kernel

/-! ## Non-vacuity: the hypotheses are met by concrete N2-like rationals, and the numbers are the expected ones -/

/-- 1 bar of a vapour with p_sat = 101325 Pa is p/p0 = 100000/101325 -/
example : cPressure (some (101325 : ℚ)) true 1 (some "absolute") (some "relative") (some "bar") none
    = .ok (100000 / 101325) := by decide +kernel

example : (PRep.abs "bar").scale Spec.pressureUnits (101325 : ℚ) = some 100000 := by decide +kernel

/-- 1 mmol/g of a gas with M = 28 g/mol is 2.8 wt% -/
example : cLoading (fun q => if q = .molarMass then some (28 : ℚ) else some 1) 1 (some "molar") (some "percent")
    (some "mmol") none (some "mass") (some "g") = .ok (28 / 10) := by decide +kernel

example : (⟨28, 4 / 5, 1 / 35, 7 / 1000, 1 / 4000⟩ : Ads ℚ).Consistent ∧
    (⟨28, 4 / 5, 1 / 35, 7 / 1000, 1 / 4000⟩ : Ads ℚ).Pos := by
  refine ⟨⟨?_, ?_⟩, ?_, ?_, ?_, ?_, ?_⟩ <;> norm_num

example : (LRep.phys .volGas "cm3").scale Spec.unitTable (⟨28, 4 / 5, 1 / 35, 7 / 1000, 1 / 4000⟩ : Ads ℚ) ⟨.mass, "g"⟩
    = some (1 / 4000) := by decide +kernel

example : cTemperature (25 : ℚ) (some "celsius") (some "K") = .ok (5963 / 20) := by decide +kernel

end PgVerif.C01
