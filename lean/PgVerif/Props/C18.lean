/-
C18 — kernel (DFT) fitting is non-negative and reproduces the isotherm.

Theorems about the hand-written model `PgVerif.Model.Kernel` of the arithmetic of `psd_dft_kernel_fit`
(characterisation/psd_kernel.py) around the SLSQP minimisation.  Everything is stated over an arbitrary linearly ordered
field `α` (so it holds at ℝ and at ℚ, where the harness replays the model against the real function).

Shapes: `K` has one row per pore width, every row has the length `m` of the pressure list, `x` has one entry per pore
width.  The shape hypotheses are always explicit: `K ≠ []`, `K.length = x.length`, `∀ row ∈ K, row.length = m`.
"Strictly increasing positive widths" (`0 < w₀ < w₁ < …`) is stated as `∀ w ∈ widths, 0 < w` and
`widths.Pairwise (· < ·)`.
-/
import PgVerif.Model.Kernel
import Mathlib.Tactic

namespace PgVerif.Props.C18
open PgVerif.Model.Kernel

variable {α : Type} [Field α] [LinearOrder α] [IsStrictOrderedRing α]

/-! ### helper facts -/

/-- induction over well-shaped (kernel, weights) pairs -/
lemma shaped_induction {β : Type} [Field β] {P : List (List β) → List β → Prop}
    (h1 : ∀ row x, P [row] [x])
    (h2 : ∀ row r2 rows x xs, (r2 :: rows).length = xs.length → P (r2 :: rows) xs →
      P (row :: r2 :: rows) (x :: xs)) :
    ∀ K x, K ≠ [] → K.length = x.length → P K x := by
  intro K
  induction K with
  | nil => intro x h; exact absurd rfl h
  | cons row rows ih =>
    intro x _ hlen
    cases x with
    | nil => simp at hlen
    | cons a xs =>
      cases rows with
      | nil =>
        cases xs with
        | nil => exact h1 row a
        | cons b ys => simp at hlen
      | cons r2 rows' =>
        have hl : (r2 :: rows').length = xs.length := by simpa using hlen
        exact h2 row r2 rows' a xs hl (ih xs (by simp) hl)

lemma ext_of_length {β : Type} {l1 l2 : List β} {m : ℕ} (h1 : l1.length = m) (h2 : l2.length = m)
    (h : ∀ j < m, l1[j]? = l2[j]?) : l1 = l2 := by
  apply List.ext_getElem?
  intro j
  by_cases hj : j < m
  · exact h j hj
  · have hj' : m ≤ j := Nat.le_of_not_lt hj
    rw [List.getElem?_eq_none (by omega), List.getElem?_eq_none (by omega)]

/-! ### 1–2. the kernel-weighted sum -/

/-- recursion equation, one pore width -/
theorem kernelLoading_singleton (row : List α) (x : α) :
    kernelLoading [row] [x] = row.map (· * x) := by
  simp [kernelLoading]

/-- recursion equation, at least two pore widths -/
theorem kernelLoading_cons (row r2 : List α) (rows : List (List α)) (x : α) (xs : List α) :
    kernelLoading (row :: r2 :: rows) (x :: xs)
      = List.zipWith (· + ·) (row.map (· * x)) (kernelLoading (r2 :: rows) xs) := by
  simp [kernelLoading]

/-- the fitted isotherm has one value per pressure point -/
theorem kernelLoading_length (m : ℕ) (K : List (List α)) (x : List α)
    (hK : K ≠ []) (hlen : K.length = x.length) (hrows : ∀ row ∈ K, row.length = m) :
    (kernelLoading K x).length = m := by
  revert hrows
  refine shaped_induction (P := fun K x => (∀ row ∈ K, row.length = m) → (kernelLoading K x).length = m)
    ?_ ?_ K x hK hlen
  · intro row a hrows
    simp [kernelLoading_singleton, hrows row (by simp)]
  · intro row r2 rows a xs _ ih hrows
    rw [kernelLoading_cons, List.length_zipWith, List.length_map, hrows row (by simp),
      ih (fun r hr => hrows r (List.mem_cons_of_mem _ hr))]
    simp


end PgVerif.Props.C18
