/-
C18 — kernel (DFT) fitting is non-negative and reproduces the isotherm.  (stub; theorems are being added)
-/
import PgVerif.Model.Kernel
import Mathlib.Tactic

namespace PgVerif.Props.C18
open PgVerif.Model.Kernel

/-- the objective is a sum of squares: it is never negative -/
theorem sumSquares_nonneg (K : List (List ℝ)) (l x : List ℝ) : 0 ≤ sumSquares K l x := by
  unfold sumSquares
  apply List.sum_nonneg
  intro r hr
  simp only [List.mem_map] at hr
  obtain ⟨a, _, rfl⟩ := hr
  exact mul_self_nonneg a

end PgVerif.Props.C18
