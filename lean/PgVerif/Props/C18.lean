/-
C18 — kernel (DFT) fitting is non-negative and reproduces the isotherm.

Theorems about the hand-written model `PgVerif.Model.Kernel` of the arithmetic of `psd_dft_kernel_fit`
(characterisation/psd_kernel.py) around the SLSQP minimisation.  Everything is stated over an arbitrary linearly ordered
field `α` (so it holds at ℝ and at ℚ, where the harness replays the model against the real function).

Shapes: `K` has one row per pore width, every row has the length `m` of the pressure list, `x` has one entry per pore
width.  The shape hypotheses are always explicit: `K ≠ []`, `K.length = x.length`, `∀ row ∈ K, row.length = m`.
"Strictly increasing positive widths" (`0 < w₀ < w₁ < …`) is stated as `∀ w ∈ widths, 0 < w` and
`widths.Pairwise (· < ·)`.
-/
import PgVerif.Model.Kernel
import Mathlib.Tactic

namespace PgVerif.Props.C18
open PgVerif.Model.Kernel

set_option linter.unusedSectionVars false

variable {α : Type} [Field α] [LinearOrder α] [IsStrictOrderedRing α]

/-! ### helper facts -/

/-- induction over well-shaped (kernel, weights) pairs -/
lemma shaped_induction {β : Type} [Field β] {P : List (List β) → List β → Prop}
    (h1 : ∀ row x, P [row] [x])
    (h2 : ∀ row r2 rows x xs, (r2 :: rows).length = xs.length → P (r2 :: rows) xs →
      P (row :: r2 :: rows) (x :: xs)) :
    ∀ K x, K ≠ [] → K.length = x.length → P K x := by
  intro K
  induction K with
  | nil => intro x h; exact absurd rfl h
  | cons row rows ih =>
    intro x _ hlen
    cases x with
    | nil => simp at hlen
    | cons a xs =>
      cases rows with
      | nil =>
        cases xs with
        | nil => exact h1 row a
        | cons b ys => simp at hlen
      | cons r2 rows' =>
        have hl : (r2 :: rows').length = xs.length := by simpa using hlen
        exact h2 row r2 rows' a xs hl (ih xs (by simp) hl)

lemma ext_of_length {β : Type} {l1 l2 : List β} {m : ℕ} (h1 : l1.length = m) (h2 : l2.length = m)
    (h : ∀ j < m, l1[j]? = l2[j]?) : l1 = l2 := by
  apply List.ext_getElem?
  intro j
  by_cases hj : j < m
  · exact h j hj
  · have hj' : m ≤ j := Nat.le_of_not_lt hj
    rw [List.getElem?_eq_none (by omega), List.getElem?_eq_none (by omega)]

/-! ### 1–2. the kernel-weighted sum -/

/-- recursion equation, one pore width -/
theorem kernelLoading_singleton (row : List α) (x : α) :
    kernelLoading [row] [x] = row.map (· * x) := by
  simp [kernelLoading]

/-- recursion equation, at least two pore widths -/
theorem kernelLoading_cons (row r2 : List α) (rows : List (List α)) (x : α) (xs : List α) :
    kernelLoading (row :: r2 :: rows) (x :: xs)
      = List.zipWith (· + ·) (row.map (· * x)) (kernelLoading (r2 :: rows) xs) := by
  simp [kernelLoading]

/-- the fitted isotherm has one value per pressure point -/
theorem kernelLoading_length (m : ℕ) (K : List (List α)) (x : List α)
    (hK : K ≠ []) (hlen : K.length = x.length) (hrows : ∀ row ∈ K, row.length = m) :
    (kernelLoading K x).length = m := by
  revert hrows
  refine shaped_induction (P := fun K x => (∀ row ∈ K, row.length = m) → (kernelLoading K x).length = m)
    ?_ ?_ K x hK hlen
  · intro row a hrows
    simp [kernelLoading_singleton, hrows row (by simp)]
  · intro row r2 rows a xs _ ih hrows
    rw [kernelLoading_cons, List.length_zipWith, List.length_map, hrows row (by simp),
      ih (fun r hr => hrows r (List.mem_cons_of_mem _ hr))]
    simp


/-- entry `j` of the fitted isotherm is `Σ_w K[w][j] * x[w]` -/
theorem kernelLoading_getElem (m : ℕ) (K : List (List α)) (x : List α)
    (hK : K ≠ []) (hlen : K.length = x.length) (hrows : ∀ row ∈ K, row.length = m)
    (j : ℕ) (hj : j < m) :
    (kernelLoading K x)[j]? = some ((List.zipWith (fun (row : List α) xv => row.getD j 0 * xv) K x).sum) := by
  revert hrows
  refine shaped_induction
    (P := fun K x => (∀ row ∈ K, row.length = m) →
      (kernelLoading K x)[j]? = some ((List.zipWith (fun (row : List α) xv => row.getD j 0 * xv) K x).sum))
    ?_ ?_ K x hK hlen
  · intro row a hrows
    have hr : j < row.length := by rw [hrows row (by simp)]; exact hj
    simp [kernelLoading_singleton, List.getD_eq_getElem?_getD, List.getElem?_eq_getElem hr]
  · intro row r2 rows a xs _ ih hrows
    have hr : j < row.length := by rw [hrows row (by simp)]; exact hj
    rw [kernelLoading_cons, List.getElem?_zipWith, ih (fun r hr => hrows r (List.mem_cons_of_mem _ hr))]
    simp [List.getD_eq_getElem?_getD, List.getElem?_eq_getElem hr]

lemma sum_zipWith_add (f : List α → α) : ∀ (K : List (List α)) (x y : List α), x.length = y.length →
    (List.zipWith (fun row xv => f row * xv) K (List.zipWith (· + ·) x y)).sum
      = (List.zipWith (fun row xv => f row * xv) K x).sum + (List.zipWith (fun row xv => f row * xv) K y).sum := by
  intro K
  induction K with
  | nil => intro x y _; simp
  | cons row rows ih =>
    intro x y h
    cases x with
    | nil => cases y with
      | nil => simp
      | cons b ys => simp at h
    | cons a xs => cases y with
      | nil => simp at h
      | cons b ys =>
        have h' : xs.length = ys.length := by simpa using h
        simp only [List.zipWith_cons_cons, List.sum_cons, ih xs ys h']
        ring

lemma sum_zipWith_smul (f : List α → α) (k : α) : ∀ (K : List (List α)) (x : List α),
    (List.zipWith (fun row xv => f row * xv) K (x.map (k * ·))).sum
      = k * (List.zipWith (fun row xv => f row * xv) K x).sum := by
  intro K
  induction K with
  | nil => intro x; simp
  | cons row rows ih =>
    intro x
    cases x with
    | nil => simp
    | cons a xs =>
      simp only [List.map_cons, List.zipWith_cons_cons, List.sum_cons, ih xs]
      ring

/-- the fitted isotherm is additive in the contributions -/
theorem kernelLoading_add (m : ℕ) (K : List (List α)) (x y : List α)
    (hK : K ≠ []) (hx : K.length = x.length) (hy : K.length = y.length) (hrows : ∀ row ∈ K, row.length = m) :
    kernelLoading K (List.zipWith (· + ·) x y)
      = List.zipWith (· + ·) (kernelLoading K x) (kernelLoading K y) := by
  have hxy : K.length = (List.zipWith (· + ·) x y).length := by simp [← hx, ← hy]
  apply ext_of_length (m := m) (kernelLoading_length m K _ hK hxy hrows)
  · simp [kernelLoading_length m K _ hK hx hrows, kernelLoading_length m K _ hK hy hrows]
  · intro j hj
    rw [kernelLoading_getElem m K _ hK hxy hrows j hj, List.getElem?_zipWith,
      kernelLoading_getElem m K _ hK hx hrows j hj, kernelLoading_getElem m K _ hK hy hrows j hj,
      sum_zipWith_add _ K x y (by rw [← hx, ← hy])]

/-- the fitted isotherm is homogeneous in the contributions -/
theorem kernelLoading_smul (m : ℕ) (K : List (List α)) (x : List α) (k : α)
    (hK : K ≠ []) (hx : K.length = x.length) (hrows : ∀ row ∈ K, row.length = m) :
    kernelLoading K (x.map (k * ·)) = (kernelLoading K x).map (k * ·) := by
  have hkx : K.length = (x.map (k * ·)).length := by simp [← hx]
  apply ext_of_length (m := m) (kernelLoading_length m K _ hK hkx hrows)
  · simp [kernelLoading_length m K _ hK hx hrows]
  · intro j hj
    rw [kernelLoading_getElem m K _ hK hkx hrows j hj, List.getElem?_map,
      kernelLoading_getElem m K _ hK hx hrows j hj, sum_zipWith_smul]
    rfl

/-- zero contributions give the zero isotherm (the optimiser's initial guess) -/
theorem kernelLoading_zero (m : ℕ) (K : List (List α))
    (hK : K ≠ []) (hrows : ∀ row ∈ K, row.length = m) :
    kernelLoading K (List.replicate K.length 0) = List.replicate m 0 := by
  have h0 : K.length = (List.replicate K.length (0 : α)).length := by simp
  apply ext_of_length (m := m) (kernelLoading_length m K _ hK h0 hrows) (by simp)
  intro j hj
  rw [kernelLoading_getElem m K _ hK h0 hrows j hj, List.getElem?_replicate, if_pos hj]
  congr 1
  apply List.sum_eq_zero
  intro v hv
  rw [List.mem_iff_getElem] at hv
  obtain ⟨i, hi, rfl⟩ := hv
  simp

/-! ### 3. the objective -/

/-- the objective is a sum of squares: it is never negative -/
theorem sumSquares_nonneg (K : List (List α)) (l x : List α) : 0 ≤ sumSquares K l x := by
  unfold sumSquares
  apply List.sum_nonneg
  intro r hr
  simp only [List.mem_map] at hr
  obtain ⟨a, _, rfl⟩ := hr
  exact mul_self_nonneg a

lemma sum_sq_eq_zero_iff : ∀ l : List α, (l.map (fun r => r * r)).sum = 0 ↔ ∀ r ∈ l, r = 0 := by
  intro l
  induction l with
  | nil => simp
  | cons a t ih =>
    have ht : 0 ≤ (t.map (fun r => r * r)).sum := by
      apply List.sum_nonneg
      intro r hr
      simp only [List.mem_map] at hr
      obtain ⟨b, _, rfl⟩ := hr
      exact mul_self_nonneg b
    simp only [List.map_cons, List.sum_cons, List.mem_cons, forall_eq_or_imp]
    rw [add_eq_zero_iff_of_nonneg (mul_self_nonneg a) ht, ih, mul_self_eq_zero]

lemma zipWith_sub_eq_zero_iff : ∀ (a b : List α), a.length = b.length →
    ((∀ r ∈ List.zipWith (· - ·) a b, r = 0) ↔ a = b) := by
  intro a
  induction a with
  | nil => intro b h; cases b with
    | nil => simp
    | cons c t => simp at h
  | cons c t ih =>
    intro b h
    cases b with
    | nil => simp at h
    | cons d u =>
      have h' : t.length = u.length := by simpa using h
      simp only [List.zipWith_cons_cons, List.mem_cons, forall_eq_or_imp, List.cons.injEq, ih u h',
        sub_eq_zero]

/-- the objective is zero iff the fitted isotherm IS the input isotherm -/
theorem sumSquares_eq_zero_iff (m : ℕ) (K : List (List α)) (loading x : List α)
    (hK : K ≠ []) (hlen : K.length = x.length) (hrows : ∀ row ∈ K, row.length = m)
    (hload : loading.length = m) :
    sumSquares K loading x = 0 ↔ kernelLoading K x = loading := by
  unfold sumSquares
  rw [sum_sq_eq_zero_iff, zipWith_sub_eq_zero_iff _ _ (by rw [kernelLoading_length m K x hK hlen hrows, hload])]

/-! ### 4. isotherms that are exact non-negative combinations of kernel isotherms -/

/-- (a) at the generating weights the objective vanishes (no shape hypothesis needed) -/
theorem exact_combination_zero (K : List (List α)) (w : List α) :
    sumSquares K (kernelLoading K w) w = 0 := by
  unfold sumSquares
  rw [sum_sq_eq_zero_iff]
  intro r hr
  rw [List.mem_iff_getElem] at hr
  obtain ⟨i, hi, rfl⟩ := hr
  simp

/-- `x` minimises the objective over the feasible set (one non-negative contribution per pore width) -/
def IsMinimiser (K : List (List α)) (loading x : List α) : Prop :=
  feasible x ∧ K.length = x.length ∧
    ∀ y, feasible y → K.length = y.length → sumSquares K loading x ≤ sumSquares K loading y

/-- if the input isotherm is an exact non-negative combination `w` of kernel isotherms then (a) the objective vanishes at
`w`, (b) `w` is a global minimiser over the feasible set, (c) EVERY minimiser over the feasible set reproduces the input
isotherm exactly (even when the weights themselves are not unique). -/
theorem exact_combination (m : ℕ) (K : List (List α)) (loading w : List α)
    (hK : K ≠ []) (hw : K.length = w.length) (hrows : ∀ row ∈ K, row.length = m)
    (hfeas : feasible w) (hexact : loading = kernelLoading K w) :
    sumSquares K loading w = 0 ∧
    IsMinimiser K loading w ∧
    ∀ x, IsMinimiser K loading x → kernelLoading K x = loading := by
  have h0 : sumSquares K loading w = 0 := by rw [hexact]; exact exact_combination_zero K w
  have hload : loading.length = m := by rw [hexact]; exact kernelLoading_length m K w hK hw hrows
  refine ⟨h0, ⟨hfeas, hw, fun y _ _ => ?_⟩, ?_⟩
  · rw [h0]; exact sumSquares_nonneg K loading y
  · rintro x ⟨_, hx, hmin⟩
    have hle : sumSquares K loading x ≤ 0 := h0 ▸ hmin w hfeas hw
    exact (sumSquares_eq_zero_iff m K loading x hK hx hrows hload).1
      (le_antisymm hle (sumSquares_nonneg K loading x))

/-- every squared pointwise residual is bounded by the objective: an objective value below the optimiser tolerance `tol`
bounds every pointwise misfit of the fitted isotherm by `tol` (squared). -/
theorem residual_sq_le_sumSquares (K : List (List α)) (loading x : List α) :
    ∀ r ∈ List.zipWith (· - ·) (kernelLoading K x) loading, r * r ≤ sumSquares K loading x := by
  intro r hr
  unfold sumSquares
  apply List.single_le_sum
  · intro v hv
    simp only [List.mem_map] at hv
    obtain ⟨a, _, rfl⟩ := hv
    exact mul_self_nonneg a
  · exact List.mem_map.2 ⟨r, hr, rfl⟩

/-! ### 5–6. contributions → distribution -/

theorem ediff_length (widths : List α) : (ediff widths).length = widths.length := by
  cases widths with
  | nil => simp [ediff]
  | cons w0 ws => simp [ediff]

lemma diffs_pos : ∀ (ws : List α) (prev : α), (∀ b ∈ ws, prev < b) → ws.Pairwise (· < ·) →
    ∀ d ∈ List.zipWith (· - ·) ws (prev :: ws), 0 < d := by
  intro ws
  induction ws with
  | nil => intro prev _ _ d hd; simp at hd
  | cons a t ih =>
    intro prev hprev hinc d hd
    rw [List.pairwise_cons] at hinc
    simp only [List.zipWith_cons_cons, List.mem_cons] at hd
    rcases hd with rfl | hd
    · exact sub_pos.2 (hprev a (by simp))
    · exact ih a hinc.1 hinc.2 d hd

/-- the width increments `Δw` of strictly increasing positive widths are positive -/
theorem ediff_pos (widths : List α) (hpos : ∀ w ∈ widths, 0 < w) (hinc : widths.Pairwise (· < ·)) :
    ∀ d ∈ ediff widths, 0 < d := by
  cases widths with
  | nil => intro d hd; simp [ediff] at hd
  | cons w0 ws =>
    intro d hd
    rw [List.pairwise_cons] at hinc
    simp only [ediff, List.mem_cons] at hd
    rcases hd with rfl | hd
    · exact hpos d (by simp)
    · exact diffs_pos ws w0 hinc.1 hinc.2 d hd

lemma zipWith_div_nonneg : ∀ (x e : List α), (∀ v ∈ x, 0 ≤ v) → (∀ d ∈ e, 0 < d) →
    ∀ q ∈ List.zipWith (· / ·) x e, 0 ≤ q := by
  intro x
  induction x with
  | nil => intro e _ _ q hq; simp at hq
  | cons a t ih =>
    intro e hx he q hq
    cases e with
    | nil => simp at hq
    | cons d u =>
      simp only [List.zipWith_cons_cons, List.mem_cons] at hq
      rcases hq with rfl | hq
      · exact div_nonneg (hx a (by simp)) (he d (by simp)).le
      · exact ih u (fun v hv => hx v (List.mem_cons_of_mem _ hv))
          (fun v hv => he v (List.mem_cons_of_mem _ hv)) q hq

/-- the reported (unsmoothed) distribution `x / Δw` is non-negative (holds for any length of `x`, in particular for
`x.length = widths.length`) -/
theorem rawDist_nonneg (x widths : List α) (hpos : ∀ w ∈ widths, 0 < w) (hinc : widths.Pairwise (· < ·))
    (hfeas : feasible x) :
    ∀ q ∈ rawDist x widths, 0 ≤ q :=
  zipWith_div_nonneg x (ediff widths) hfeas (ediff_pos widths hpos hinc)

theorem rawDist_length (x widths : List α) (hlen : x.length = widths.length) :
    (rawDist x widths).length = x.length := by
  simp [rawDist, ediff_length, hlen]

lemma zipWith_div_mul_cancel : ∀ (x e : List α), x.length = e.length → (∀ d ∈ e, d ≠ 0) →
    List.zipWith (· * ·) (List.zipWith (· / ·) x e) e = x := by
  intro x
  induction x with
  | nil => intro e _ _; simp
  | cons a t ih =>
    intro e hlen he
    cases e with
    | nil => simp at hlen
    | cons d u =>
      have hd : d ≠ 0 := he d (by simp)
      simp only [List.zipWith_cons_cons, List.cons.injEq]
      exact ⟨div_mul_cancel₀ a hd,
        ih u (by simpa using hlen) (fun v hv => he v (List.mem_cons_of_mem _ hv))⟩

/-- the reported distribution times the width increments are the fitted contributions -/
theorem rawDist_times_ediff (x widths : List α) (hpos : ∀ w ∈ widths, 0 < w) (hinc : widths.Pairwise (· < ·))
    (hlen : x.length = widths.length) :
    List.zipWith (· * ·) (rawDist x widths) (ediff widths) = x :=
  zipWith_div_mul_cancel x (ediff widths) (by rw [ediff_length, hlen])
    (fun d hd => (ediff_pos widths hpos hinc d hd).ne')

/-- hence the kernel-weighted sum of `dist·Δw` is the reported fitted isotherm -/
theorem kernelLoading_rawDist (K : List (List α)) (x widths : List α) (hpos : ∀ w ∈ widths, 0 < w)
    (hinc : widths.Pairwise (· < ·)) (hlen : x.length = widths.length) :
    kernelLoading K (List.zipWith (· * ·) (rawDist x widths) (ediff widths)) = kernelLoading K x := by
  rw [rawDist_times_ediff x widths hpos hinc hlen]

/-! ### 7–8. cumulative pore volume -/

theorem cumsum_length : ∀ (l : List α) (acc : α), (cumsum l acc).length = l.length := by
  intro l
  induction l with
  | nil => intro acc; simp [cumsum]
  | cons a t ih => intro acc; simp [cumsum, ih]

/-- successive differences of a running sum give back the summands -/
theorem cumsum_succDiff : ∀ (l : List α) (acc : α),
    List.zipWith (· - ·) (cumsum l acc) (acc :: cumsum l acc) = l := by
  intro l
  induction l with
  | nil => intro acc; simp [cumsum]
  | cons a t ih =>
    intro acc
    simp only [cumsum, List.zipWith_cons_cons, ih (acc + a), add_sub_cancel_left]

/-- entry `i` of the running sum is the sum of the first `i+1` summands -/
theorem cumsum_getElem : ∀ (l : List α) (acc : α) (i : ℕ), i < l.length →
    (cumsum l acc)[i]? = some (acc + (l.take (i + 1)).sum) := by
  intro l
  induction l with
  | nil => intro acc i hi; simp at hi
  | cons a t ih =>
    intro acc i hi
    cases i with
    | zero => simp [cumsum]
    | succ k =>
      have hk : k < t.length := by simpa using hi
      rw [List.take_succ_cons, List.sum_cons]
      simp only [cumsum, List.getElem?_cons_succ, ih (acc + a) k hk, add_assoc]

theorem cumsum_getLast : ∀ (l : List α) (acc : α), l ≠ [] →
    (cumsum l acc).getLast? = some (acc + l.sum) := by
  intro l
  induction l with
  | nil => intro acc h; exact absurd rfl h
  | cons a t ih =>
    intro acc _
    cases t with
    | nil => simp [cumsum]
    | cons b u =>
      have := ih (acc + a) (by simp)
      simp only [cumsum, List.getLast?_cons_cons, List.sum_cons] at this ⊢
      rw [this, add_assoc]

lemma cumsum_ge : ∀ (l : List α) (acc : α), (∀ v ∈ l, 0 ≤ v) → ∀ c ∈ cumsum l acc, acc ≤ c := by
  intro l
  induction l with
  | nil => intro acc _ c hc; simp [cumsum] at hc
  | cons a t ih =>
    intro acc hl c hc
    have ha : 0 ≤ a := hl a (by simp)
    simp only [cumsum, List.mem_cons] at hc
    rcases hc with rfl | hc
    · exact le_add_of_nonneg_right ha
    · exact le_trans (le_add_of_nonneg_right ha)
        (ih (acc + a) (fun v hv => hl v (List.mem_cons_of_mem _ hv)) c hc)

lemma cumsum_pairwise : ∀ (l : List α) (acc : α), (∀ v ∈ l, 0 ≤ v) → (cumsum l acc).Pairwise (· ≤ ·) := by
  intro l
  induction l with
  | nil => intro acc _; simp [cumsum]
  | cons a t ih =>
    intro acc hl
    have ht : ∀ v ∈ t, 0 ≤ v := fun v hv => hl v (List.mem_cons_of_mem _ hv)
    simp only [cumsum, List.pairwise_cons]
    exact ⟨cumsum_ge t (acc + a) ht, ih (acc + a) ht⟩

lemma zipWith_mul_nonneg : ∀ (d e : List α), (∀ v ∈ d, 0 ≤ v) → (∀ v ∈ e, 0 < v) →
    ∀ q ∈ List.zipWith (· * ·) d e, 0 ≤ q := by
  intro d
  induction d with
  | nil => intro e _ _ q hq; simp at hq
  | cons a t ih =>
    intro e hd he q hq
    cases e with
    | nil => simp at hq
    | cons b u =>
      simp only [List.zipWith_cons_cons, List.mem_cons] at hq
      rcases hq with rfl | hq
      · exact mul_nonneg (hd a (by simp)) (he b (by simp)).le
      · exact ih u (fun v hv => hd v (List.mem_cons_of_mem _ hv))
          (fun v hv => he v (List.mem_cons_of_mem _ hv)) q hq

/-- the cumulative volume of the unsmoothed distribution is the running sum of the fitted contributions -/
theorem cumVol_rawDist (x widths : List α) (hpos : ∀ w ∈ widths, 0 < w) (hinc : widths.Pairwise (· < ·))
    (hlen : x.length = widths.length) :
    cumVol (rawDist x widths) widths = cumsum x 0 := by
  unfold cumVol
  rw [rawDist_times_ediff x widths hpos hinc hlen]

/-- in particular its last entry is the total fitted volume `Σ x` -/
theorem cumVol_rawDist_getLast (x widths : List α) (hpos : ∀ w ∈ widths, 0 < w)
    (hinc : widths.Pairwise (· < ·)) (hlen : x.length = widths.length) (hx : x ≠ []) :
    (cumVol (rawDist x widths) widths).getLast? = some x.sum := by
  rw [cumVol_rawDist x widths hpos hinc hlen, cumsum_getLast x 0 hx, zero_add]

theorem cumVol_length (dist widths : List α) (hlen : dist.length = widths.length) :
    (cumVol dist widths).length = widths.length := by
  simp [cumVol, cumsum_length, ediff_length, hlen]

/-- the cumulative pore volume is non-decreasing -/
theorem cumVol_monotone (dist widths : List α) (hdist : ∀ v ∈ dist, 0 ≤ v)
    (hpos : ∀ w ∈ widths, 0 < w) (hinc : widths.Pairwise (· < ·)) :
    (cumVol dist widths).Pairwise (· ≤ ·) :=
  cumsum_pairwise _ 0 (zipWith_mul_nonneg dist (ediff widths) hdist (ediff_pos widths hpos hinc))

/-- and non-negative -/
theorem cumVol_nonneg (dist widths : List α) (hdist : ∀ v ∈ dist, 0 ≤ v)
    (hpos : ∀ w ∈ widths, 0 < w) (hinc : widths.Pairwise (· < ·)) :
    ∀ c ∈ cumVol dist widths, 0 ≤ c :=
  cumsum_ge _ 0 (zipWith_mul_nonneg dist (ediff widths) hdist (ediff_pos widths hpos hinc))

/-- successive differences of the cumulative volume are `dist_i * Δw_i`: it is the running integral of the
reported distribution -/
theorem cumVol_succDiff (dist widths : List α) :
    List.zipWith (· - ·) (cumVol dist widths) (0 :: cumVol dist widths)
      = List.zipWith (· * ·) dist (ediff widths) :=
  cumsum_succDiff _ 0

/-- entry `i` of the cumulative volume is `Σ_{k ≤ i} dist_k * Δw_k` -/
theorem cumVol_getElem (dist widths : List α) (hlen : dist.length = widths.length) (i : ℕ)
    (hi : i < widths.length) :
    (cumVol dist widths)[i]? = some (((List.zipWith (· * ·) dist (ediff widths)).take (i + 1)).sum) := by
  unfold cumVol
  rw [cumsum_getElem _ 0 i (by simp [ediff_length, hlen, hi]), zero_add]

/-! ### 9. smoothing: a B-spline sample is a convex combination of its control points -/

/-- non-negative weights and non-negative control values give a non-negative sample -/
theorem convexComb_nonneg (weights values : List α) (hw : ∀ w ∈ weights, 0 ≤ w) (hv : ∀ v ∈ values, 0 ≤ v) :
    0 ≤ convexComb weights values := by
  unfold convexComb
  apply List.sum_nonneg
  revert values
  induction weights with
  | nil => intro values _ q hq; simp at hq
  | cons a t ih =>
    intro values hv q hq
    cases values with
    | nil => simp at hq
    | cons b u =>
      simp only [List.zipWith_cons_cons, List.mem_cons] at hq
      rcases hq with rfl | hq
      · exact mul_nonneg (hw a (by simp)) (hv b (by simp))
      · exact ih (fun v h => hw v (List.mem_cons_of_mem _ h)) u
          (fun v h => hv v (List.mem_cons_of_mem _ h)) q hq

lemma convexComb_lower : ∀ (weights values : List α) (lo : α), weights.length = values.length →
    (∀ w ∈ weights, 0 ≤ w) → (∀ v ∈ values, lo ≤ v) → lo * weights.sum ≤ convexComb weights values := by
  intro weights
  induction weights with
  | nil => intro values lo _ _ _; simp [convexComb]
  | cons a t ih =>
    intro values lo hlen hw hv
    cases values with
    | nil => simp at hlen
    | cons b u =>
      have h1 := ih u lo (by simpa using hlen) (fun v h => hw v (List.mem_cons_of_mem _ h))
        (fun v h => hv v (List.mem_cons_of_mem _ h))
      have h2 : lo * a ≤ a * b := by
        rw [mul_comm lo a]
        exact mul_le_mul_of_nonneg_left (hv b (by simp)) (hw a (by simp))
      unfold convexComb at h1 ⊢
      simp only [List.zipWith_cons_cons, List.sum_cons, mul_add]
      exact add_le_add h2 h1

lemma convexComb_upper : ∀ (weights values : List α) (hi : α), weights.length = values.length →
    (∀ w ∈ weights, 0 ≤ w) → (∀ v ∈ values, v ≤ hi) → convexComb weights values ≤ hi * weights.sum := by
  intro weights
  induction weights with
  | nil => intro values hi _ _ _; simp [convexComb]
  | cons a t ih =>
    intro values hi hlen hw hv
    cases values with
    | nil => simp at hlen
    | cons b u =>
      have h1 := ih u hi (by simpa using hlen) (fun v h => hw v (List.mem_cons_of_mem _ h))
        (fun v h => hv v (List.mem_cons_of_mem _ h))
      have h2 : a * b ≤ hi * a := by
        rw [mul_comm hi a]
        exact mul_le_mul_of_nonneg_left (hv b (by simp)) (hw a (by simp))
      unfold convexComb at h1 ⊢
      simp only [List.zipWith_cons_cons, List.sum_cons, mul_add]
      exact add_le_add h2 h1

/-- a convex combination (weights ≥ 0 summing to 1, one weight per control value) never leaves the range of its
control values -/
theorem convexComb_bounds (weights values : List α) (lo hi : α) (hlen : weights.length = values.length)
    (hw : ∀ w ∈ weights, 0 ≤ w) (hsum : weights.sum = 1)
    (hlo : ∀ v ∈ values, lo ≤ v) (hhi : ∀ v ∈ values, v ≤ hi) :
    lo ≤ convexComb weights values ∧ convexComb weights values ≤ hi := by
  have h1 := convexComb_lower weights values lo hlen hw hlo
  have h2 := convexComb_upper weights values hi hlen hw hhi
  rw [hsum, mul_one] at h1 h2
  exact ⟨h1, h2⟩

/-- smoothing keeps the distribution non-negative: every smoothed sample of a non-negative unsmoothed distribution
`rawDist x widths` is non-negative -/
theorem smoothed_rawDist_nonneg (x widths weights : List α) (hpos : ∀ w ∈ widths, 0 < w)
    (hinc : widths.Pairwise (· < ·)) (hfeas : feasible x) (hw : ∀ w ∈ weights, 0 ≤ w) :
    0 ≤ convexComb weights (rawDist x widths) :=
  convexComb_nonneg weights _ hw (rawDist_nonneg x widths hpos hinc hfeas)

/-! ### 10. non-vacuity at ℚ -/

example : kernelLoading [[1, 2, 3], [0, 1, 4]] [(2 : ℚ), 1 / 2] = [2, 9 / 2, 8] := by
  norm_num [kernelLoading]

example : sumSquares [[1, 2, 3], [0, 1, 4]] [2, 9 / 2, 8] [(2 : ℚ), 1 / 2] = 0 := by
  norm_num [sumSquares, kernelLoading]

/-- an exact combination with non-unique weights: rows 1 and 2 are equal, `[1, 1]` and `[2, 0]` both fit exactly -/
example : sumSquares [[1, 2], [1, 2]] [2, 4] [(1 : ℚ), 1] = 0 ∧ sumSquares [[1, 2], [1, 2]] [2, 4] [(2 : ℚ), 0] = 0 := by
  norm_num [sumSquares, kernelLoading]

example : sumSquares [[1, 2, 3], [0, 1, 4]] [2, 4, 8] [(2 : ℚ), 1 / 2] = 1 / 4 := by
  norm_num [sumSquares, kernelLoading]

example : ediff [(1 / 2 : ℚ), 1, 2] = [1 / 2, 1 / 2, 1] := by
  norm_num [ediff]

example : rawDist [(1 : ℚ), 0, 3] [1 / 2, 1, 2] = [2, 0, 3] := by
  norm_num [rawDist, ediff]

example : cumVol [(2 : ℚ), 0, 3] [1 / 2, 1, 2] = [1, 1, 4] := by
  norm_num [cumVol, cumsum, ediff]

example : cumVol (rawDist [(1 : ℚ), 0, 3] [1 / 2, 1, 2]) [1 / 2, 1, 2] = cumsum [1, 0, 3] 0 :=
  cumVol_rawDist _ _ (by norm_num) (by norm_num) rfl

example : convexComb [(1 / 4 : ℚ), 1 / 2, 1 / 4] [2, 0, 3] = 5 / 4 := by
  norm_num [convexComb]

/-- the hypotheses of `exact_combination` are satisfiable -/
example : ∃ (K : List (List ℚ)) (loading w : List ℚ), K ≠ [] ∧ K.length = w.length ∧
    (∀ row ∈ K, row.length = 3) ∧ feasible w ∧ loading = kernelLoading K w :=
  ⟨[[1, 2, 3], [0, 1, 4]], [2, 9 / 2, 8], [2, 1 / 2], by simp, rfl, by simp, by
    intro v hv; simp at hv; rcases hv with rfl | rfl <;> norm_num, by norm_num [kernelLoading]⟩

/-- without the guard `0 < Δw` the identity `rawDist · Δw = x` fails (totalised division): repeated width -/
example : List.zipWith (· * ·) (rawDist [(1 : ℚ), 1] [1, 1]) (ediff [1, 1]) ≠ [1, 1] := by
  norm_num [rawDist, ediff]

end PgVerif.Props.C18
