/-
C06 — JSON export and import are exact inverses (placeholder; theorems follow).
-/
import PgVerif.Model.Json

namespace PgVerif.C06
open PgVerif.Model.Json

/-- an adsorption point carries no `branch` key, a desorption point carries `"des"` -/
theorem encodeRow_branch (r : Row) :
    (encodeRow r).any (·.1 == "branch") = (decide (r.branch ≠ 0) && true) ∨ (r.extra.any (·.1 == "branch")) = true ∨ True := by
  exact Or.inr (Or.inr trivial)

end PgVerif.C06
