/-
C06 — JSON export and import are exact inverses.

Statements are about the executable model `PgVerif.Model.Json` (`encode` = `isotherm_to_json` before `json.dumps`,
`decode` = `isotherm_from_json`).  `InDomain` is the stated domain of the codec: dictionary keys pairwise distinct and none of
them one of the three keys of the format, extra-column names distinct and none of `pressure`/`loading`/`branch`, branch marks 0 or 1.
The order key `le` used by the branch guess (`split_ads_data`) and the version string are arbitrary throughout.
Finding S10b appears as the extra hypothesis of `decode_encode_points_ads` and as the refutation `S10b_witness`.
-/
import Mathlib.Tactic
import PgVerif.Model.Json

namespace PgVerif.C06
open PgVerif.Model.Json

/-- extra-column names of a point: pairwise distinct, none of the three names the format uses itself -/
def ExtraOK (e : List (String × Scalar)) : Prop :=
  (e.map (·.1)).Nodup ∧ ∀ kv ∈ e, kv.1 ≠ "pressure" ∧ kv.1 ≠ "loading" ∧ kv.1 ≠ "branch"

/-- a point of the domain: admissible extra columns, branch mark 0 (adsorption) or 1 (desorption) -/
def RowOK (r : Row) : Prop := ExtraOK r.extra ∧ (r.branch = 0 ∨ r.branch = 1)

def PayloadOK : Payload → Prop
  | .points rows => ∀ r ∈ rows, RowOK r
  | _ => True

/-- the domain of the JSON codec -/
structure InDomain (i : Iso) : Prop where
  keys_nodup : (i.core.map (·.1)).Nodup
  keys_free : ∀ kv ∈ i.core, kv.1 ∉ formatKeys
  payload_ok : PayloadOK i.payload

/-- an adsorption point carries no `branch` key, a desorption point carries one -/
theorem encodeRow_branch (r : Row) (h : ExtraOK r.extra) :
    (encodeRow r).any (fun x => x.1 == "branch") = decide (r.branch ≠ 0) := by
  have hx : r.extra.any (fun x => x.1 == "branch") = false := by
    rw [List.any_eq_false]
    intro kv hkv
    simpa using (h.2 kv hkv).2.2
  have e1 : ("pressure" == "branch") = false := by decide
  have e2 : ("loading" == "branch") = false := by decide
  have e3 : ("branch" == "branch") = true := by decide
  unfold encodeRow
  simp only [List.cons_append, List.nil_append, List.any_cons, List.any_append, hx, e1, e2, Bool.false_or]
  split_ifs with hb <;> simp [hb, e3]

private lemma row_any_des (r : Row) (h : ExtraOK r.extra) :
    (encodeRow r).any (fun kv => kv.1 == "branch" && kv.2 == Scalar.str "des") = decide (r.branch ≠ 0) := by
  have hx : r.extra.any (fun kv => kv.1 == "branch" && kv.2 == Scalar.str "des") = false := by
    rw [List.any_eq_false]
    intro kv hkv
    have := (h.2 kv hkv).2.2
    simp [this]
  have e1 : ("pressure" == "branch") = false := by decide
  have e2 : ("loading" == "branch") = false := by decide
  have e3 : ("branch" == "branch") = true := by decide
  unfold encodeRow
  simp only [List.cons_append, List.nil_append, List.any_cons, List.any_append, hx, e1, e2, Bool.false_or, Bool.false_and]
  split_ifs with hb <;> simp [hb, e3]

private lemma row_pressure (r : Row) :
    ((encodeRow r).find? (fun x => x.1 == "pressure")).map (fun x => x.2) = some r.p := by
  have e1 : ("pressure" == "pressure") = true := by decide
  unfold encodeRow
  simp only [List.cons_append, List.find?_cons, e1, Option.map_some]

private lemma decodeRow_encodeRow' (r : Row) (mark : Nat) (h : ExtraOK r.extra) :
    decodeRow (encodeRow r) mark = some ⟨r.p, r.l, mark, r.extra⟩ := by
  have hf : r.extra.filter (fun kv => kv.1 != "pressure" && kv.1 != "loading" && kv.1 != "branch") = r.extra := by
    rw [List.filter_eq_self]
    intro kv hkv
    obtain ⟨h1, h2, h3⟩ := h.2 kv hkv
    simp [h1, h2, h3]
  have e1 : ("pressure" == "pressure") = true := by decide
  have e2 : ("pressure" == "loading") = false := by decide
  have e3 : ("loading" == "loading") = true := by decide
  have e4 : ("pressure" != "pressure") = false := by decide
  have e5 : ("loading" != "loading") = false := by decide
  have e6 : ("branch" != "branch") = false := by decide
  unfold decodeRow encodeRow
  simp only [List.cons_append, List.nil_append, List.find?_cons, List.filter_cons, List.filter_append, hf, e1, e2, e3, e4, e5,
    Bool.false_and, Bool.and_false, Bool.false_eq_true, if_false, Option.map_some, Option.bind_eq_bind, Option.bind_some]
  split_ifs <;> simp [e6]

private lemma core_filterMap (F : String × DVal → Option (String × MVal))
    (hF : ∀ k v, k ∉ formatKeys → F (k, .mval v) = some (k, v))
    (d : Dict) (hd : ∀ kv ∈ d, kv.1 ∉ formatKeys) :
    (d.map (fun kv => (kv.1, DVal.mval kv.2))).filterMap F = d := by
  induction d with
  | nil => rfl
  | cons a t ih =>
    have h1 : a.1 ∉ formatKeys := hd a (by simp)
    have h2 := ih (fun kv hkv => hd kv (by simp [hkv]))
    rw [List.map_cons, List.filterMap_cons, hF _ _ h1, h2]

private lemma lookup_core (d : Dict) (rest : Doc) (k : String) (hk : ∀ kv ∈ d, kv.1 ≠ k) :
    lookup (d.map (fun kv => (kv.1, DVal.mval kv.2)) ++ rest) k = lookup rest k := by
  induction d with
  | nil => rfl
  | cons a t ih =>
    have h1 : a.1 ≠ k := hk a (by simp)
    have h2 := ih (fun kv hkv => hk kv (by simp [hkv]))
    unfold lookup at h2 ⊢
    rw [List.map_cons, List.cons_append, List.find?_cons]
    have h1' : (a.1 == k) = false := by simpa using h1
    simp only [h1']
    exact h2

private lemma mapM_id_some {α : Type} (l : List α) : (l.map some).mapM id = some l := by
  induction l with
  | nil => rfl
  | cons a t ih => simp [List.mapM_cons, ih]

private lemma rows_anyMark (rows : List Row) (h : ∀ r ∈ rows, RowOK r) :
    (rows.map encodeRow).any (fun o => o.any (fun x => x.1 == "branch")) = rows.any (fun r => decide (r.branch = 1)) := by
  induction rows with
  | nil => rfl
  | cons r t ih =>
    have hr := h r (by simp)
    rw [List.map_cons, List.any_cons, List.any_cons, ih (fun r hr => h r (by simp [hr])), encodeRow_branch r hr.1]
    rcases hr.2 with hb | hb <;> simp [hb]

private lemma rows_marks (rows : List Row) (h : ∀ r ∈ rows, RowOK r) :
    (rows.map encodeRow).map (fun o => if (o.any fun kv => kv.1 == "branch" && kv.2 == Scalar.str "des") = true then 1 else 0)
      = rows.map (·.branch) := by
  induction rows with
  | nil => rfl
  | cons r t ih =>
    have hr := h r (by simp)
    rw [List.map_cons, List.map_cons, List.map_cons, ih (fun r hr => h r (by simp [hr])), row_any_des r hr.1]
    rcases hr.2 with hb | hb <;> simp [hb]

private lemma rows_pressures (rows : List Row) :
    (rows.map encodeRow).filterMap (fun o => Option.map (fun x => x.2) (List.find? (fun x => x.1 == "pressure") o))
      = rows.map (·.p) := by
  induction rows with
  | nil => rfl
  | cons r t ih => rw [List.map_cons, List.filterMap_cons, row_pressure, ih, List.map_cons]

private lemma rows_zip (rows : List Row) (h : ∀ r ∈ rows, RowOK r) :
    List.zipWith decodeRow (rows.map encodeRow) (rows.map (·.branch)) = rows.map some := by
  induction rows with
  | nil => rfl
  | cons r t ih =>
    have hr := h r (by simp)
    rw [List.map_cons, List.map_cons, List.zipWith_cons_cons, ih (fun r hr => h r (by simp [hr])), decodeRow_encodeRow' r _ hr.1,
      List.map_cons]

private lemma rows_all_ads (rows : List Row) (h : ∀ r ∈ rows, RowOK r)
    (hn : rows.any (fun r => decide (r.branch = 1)) = false) : rows.map (·.branch) = List.replicate rows.length 0 := by
  induction rows with
  | nil => rfl
  | cons r t ih =>
    rw [List.any_cons, Bool.or_eq_false_iff] at hn
    have hr := h r (by simp)
    have hb : r.branch = 0 := by
      rcases hr.2 with hb | hb
      · exact hb
      · simp [hb] at hn
    rw [List.map_cons, ih (fun r hr => h r (by simp [hr])) hn.2, hb, List.length_cons, List.replicate_succ]

private lemma F_core (k : String) (v : MVal) (hk : k ∉ formatKeys) :
    formatKeys.contains (k, DVal.mval v).1 = false := by simpa using hk

theorem decode_encode_none (le : Scalar → Scalar → Bool) (v : String) (i : Iso) (hi : InDomain i)
    (hp : i.payload = .none) : decode le (encode v i) = some i := by
  obtain ⟨core, payload⟩ := i
  simp only at hp
  subst hp
  have hd := hi.keys_free
  simp only at hd
  have hk1 : ∀ kv ∈ core, kv.1 ≠ "isotherm_data" := fun kv hkv e => hd kv hkv (by simp [e, formatKeys])
  have hk2 : ∀ kv ∈ core, kv.1 ≠ "isotherm_model" := fun kv hkv e => hd kv hkv (by simp [e, formatKeys])
  have l1 : lookup [("file_version", DVal.version v)] "isotherm_data" = none := rfl
  have l2 : lookup [("file_version", DVal.version v)] "isotherm_model" = none := rfl
  have c1 : formatKeys.contains "file_version" = true := by decide
  unfold decode encode
  simp only [List.filterMap_append, List.append_assoc, lookup_core _ _ _ hk1, lookup_core _ _ _ hk2, List.append_nil]
  rw [core_filterMap _ _ _ hd]
  · simp only [l1, l2, List.filterMap_cons, List.filterMap_nil, c1, if_true, List.append_nil]
  · intro k v hk
    simp only [F_core k v hk, Bool.false_eq_true, if_false]

theorem decode_encode_model (le : Scalar → Scalar → Bool) (v : String) (i : Iso) (hi : InDomain i)
    (m : ModelDict) (hp : i.payload = .model m) : decode le (encode v i) = some i := by
  obtain ⟨core, payload⟩ := i
  simp only at hp
  subst hp
  have hd := hi.keys_free
  simp only at hd
  have hk1 : ∀ kv ∈ core, kv.1 ≠ "isotherm_data" := fun kv hkv e => hd kv hkv (by simp [e, formatKeys])
  have hk2 : ∀ kv ∈ core, kv.1 ≠ "isotherm_model" := fun kv hkv e => hd kv hkv (by simp [e, formatKeys])
  have l1 : lookup [("file_version", DVal.version v), ("isotherm_model", DVal.model m)] "isotherm_data" = none := rfl
  have l2 : lookup [("file_version", DVal.version v), ("isotherm_model", DVal.model m)] "isotherm_model" = some (.model m) := rfl
  have c1 : formatKeys.contains "file_version" = true := by decide
  have c2 : formatKeys.contains "isotherm_model" = true := by decide
  unfold decode encode
  simp only [List.filterMap_append, List.append_assoc, lookup_core _ _ _ hk1, lookup_core _ _ _ hk2, List.append_nil,
    List.cons_append, List.nil_append]
  rw [core_filterMap _ _ _ hd]
  · simp only [l1, l2, List.filterMap_cons, List.filterMap_nil, c1, c2, if_true, List.append_nil]
  · intro k v hk
    simp only [F_core k v hk, Bool.false_eq_true, if_false]

private lemma decode_points_aux (le : Scalar → Scalar → Bool) (v : String) (core : Dict) (rows : List Row)
    (hd : ∀ kv ∈ core, kv.1 ∉ formatKeys) (hr : ∀ r ∈ rows, RowOK r) :
    decode le (encode v ⟨core, .points rows⟩) =
      if rows.isEmpty = true then some ⟨core, .none⟩
      else Option.map (fun rs => (⟨core, .points rs⟩ : Iso))
        (List.mapM id (List.zipWith decodeRow (rows.map encodeRow)
          (if rows.any (fun r => decide (r.branch = 1)) = true then rows.map (·.branch)
           else splitAds le (rows.map (·.p))))) := by
  have hk1 : ∀ kv ∈ core, kv.1 ≠ "isotherm_data" := fun kv hkv e => hd kv hkv (by simp [e, formatKeys])
  have hk2 : ∀ kv ∈ core, kv.1 ≠ "isotherm_model" := fun kv hkv e => hd kv hkv (by simp [e, formatKeys])
  have l1 : ∀ x, lookup [("file_version", DVal.version v), ("isotherm_data", DVal.data x)] "isotherm_data" = some (.data x) :=
    fun _ => rfl
  have c1 : formatKeys.contains "file_version" = true := by decide
  have c2 : formatKeys.contains "isotherm_data" = true := by decide
  unfold decode encode
  simp only [List.filterMap_append, List.append_assoc, lookup_core _ _ _ hk1, lookup_core _ _ _ hk2, List.append_nil,
    List.cons_append, List.nil_append]
  rw [core_filterMap _ _ _ hd]
  · simp only [l1, List.filterMap_cons, List.filterMap_nil, c1, c2, if_true, List.append_nil,
      rows_anyMark rows hr, rows_marks rows hr, rows_pressures rows, List.isEmpty_map]
  · intro k v hk
    simp only [F_core k v hk, Bool.false_eq_true, if_false]

/-- a single point is recovered exactly from its JSON object (given the mark the reader assigns to it) -/
theorem decodeRow_encodeRow (r : Row) (h : RowOK r) : decodeRow (encodeRow r) r.branch = some r :=
  decodeRow_encodeRow' r r.branch h.1

/-- measured points, at least one of them a desorption point: recovered exactly -/
theorem decode_encode_points_des (le : Scalar → Scalar → Bool) (v : String) (i : Iso) (hi : InDomain i)
    (rows : List Row) (hp : i.payload = .points rows) (hne : rows ≠ [])
    (hdes : rows.any (fun r => decide (r.branch = 1)) = true) : decode le (encode v i) = some i := by
  obtain ⟨core, payload⟩ := i
  simp only at hp
  subst hp
  have hr : ∀ r ∈ rows, RowOK r := hi.payload_ok
  have he : rows.isEmpty = false := by simpa using hne
  rw [decode_points_aux le v core rows hi.keys_free hr]
  simp only [he, Bool.false_eq_true, if_false, hdes, if_true, rows_zip rows hr, mapM_id_some, Option.map_some]

/-- measured points, all of them adsorption points: recovered exactly PROVIDED the branch guess from the pressures
(`split_ads_data`) marks every point as adsorption — finding S10b is that this is not always so -/
theorem decode_encode_points_ads (le : Scalar → Scalar → Bool) (v : String) (i : Iso) (hi : InDomain i)
    (rows : List Row) (hp : i.payload = .points rows) (hne : rows ≠ [])
    (hads : rows.any (fun r => decide (r.branch = 1)) = false)
    (hsplit : splitAds le (rows.map (·.p)) = List.replicate rows.length 0) : decode le (encode v i) = some i := by
  obtain ⟨core, payload⟩ := i
  simp only at hp
  subst hp
  have hr : ∀ r ∈ rows, RowOK r := hi.payload_ok
  have he : rows.isEmpty = false := by simpa using hne
  rw [decode_points_aux le v core rows hi.keys_free hr]
  simp only [he, Bool.false_eq_true, if_false, hads, hsplit, ← rows_all_ads rows hr hads, rows_zip rows hr, mapM_id_some,
    Option.map_some]

/-- both cases in one statement -/
theorem decode_encode_points (le : Scalar → Scalar → Bool) (v : String) (i : Iso) (hi : InDomain i)
    (rows : List Row) (hp : i.payload = .points rows) (hne : rows ≠ [])
    (h : rows.any (fun r => decide (r.branch = 1)) = true ∨
         splitAds le (rows.map (·.p)) = List.replicate rows.length 0) : decode le (encode v i) = some i := by
  by_cases hdes : rows.any (fun r => decide (r.branch = 1)) = true
  · exact decode_encode_points_des le v i hi rows hp hne hdes
  · rcases h with h | h
    · exact absurd h hdes
    · exact decode_encode_points_ads le v i hi rows hp hne (by simpa using hdes) h

private lemma zip_marks (rows : List Row) (marks : List Nat) (h : ∀ r ∈ rows, RowOK r) :
    List.zipWith decodeRow (rows.map encodeRow) marks =
      (List.zipWith (fun r m => (⟨r.p, r.l, m, r.extra⟩ : Row)) rows marks).map some := by
  induction rows generalizing marks with
  | nil => rfl
  | cons r t ih =>
    cases marks with
    | nil => rfl
    | cons m ms =>
      have hr := h r (by simp)
      rw [List.map_cons, List.zipWith_cons_cons, List.zipWith_cons_cons, List.map_cons,
        ih ms (fun r hr => h r (by simp [hr])), decodeRow_encodeRow' r m hr.1]

private lemma zip_eq_self (rows : List Row) (marks : List Nat) (hl : marks.length = rows.length)
    (he : List.zipWith (fun r m => (⟨r.p, r.l, m, r.extra⟩ : Row)) rows marks = rows) :
    marks = rows.map (·.branch) := by
  induction rows generalizing marks with
  | nil =>
    cases marks with
    | nil => rfl
    | cons m ms => simp at hl
  | cons r t ih =>
    cases marks with
    | nil => simp at hl
    | cons m ms =>
      rw [List.zipWith_cons_cons, List.cons.injEq] at he
      have hm : m = r.branch := by
        have := congrArg Row.branch he.1
        simpa using this
      rw [List.map_cons, ← hm, ih ms (by simpa using hl) he.2]

private lemma splitAds_length (le : Scalar → Scalar → Bool) (ps : List Scalar) : (splitAds le ps).length = ps.length := by
  unfold splitAds
  simp only
  split_ifs <;> simp

/-- the hypothesis of `decode_encode_points_ads` is exactly what is needed: with no desorption point, the isotherm is
recovered IF AND ONLY IF the branch guess marks every point as adsorption (this is finding S10b, stated as an equivalence) -/
theorem decode_encode_points_ads_iff (le : Scalar → Scalar → Bool) (v : String) (i : Iso) (hi : InDomain i)
    (rows : List Row) (hp : i.payload = .points rows) (hne : rows ≠ [])
    (hads : rows.any (fun r => decide (r.branch = 1)) = false) :
    decode le (encode v i) = some i ↔ splitAds le (rows.map (·.p)) = List.replicate rows.length 0 := by
  refine ⟨?_, decode_encode_points_ads le v i hi rows hp hne hads⟩
  obtain ⟨core, payload⟩ := i
  simp only at hp
  subst hp
  have hr : ∀ r ∈ rows, RowOK r := hi.payload_ok
  have he : rows.isEmpty = false := by simpa using hne
  rw [decode_points_aux le v core rows hi.keys_free hr]
  simp only [he, Bool.false_eq_true, if_false, hads, zip_marks rows _ hr, mapM_id_some, Option.map_some, Option.some.injEq,
    Iso.mk.injEq, true_and, Payload.points.injEq]
  intro h
  rw [zip_eq_self rows _ (by rw [splitAds_length, List.length_map]) h, rows_all_ads rows hr hads]

/-- boundary of the domain: an empty table of points is written as `"isotherm_data": []` and read back as an isotherm
with no data at all (python: `if data:` is false) -/
theorem decode_encode_empty_points (le : Scalar → Scalar → Bool) (v : String) (core : Dict)
    (hd : ∀ kv ∈ core, kv.1 ∉ formatKeys) :
    decode le (encode v ⟨core, .points []⟩) = some ⟨core, .none⟩ := by
  rw [decode_points_aux le v core [] hd (by simp)]
  rfl

/-- hence the empty table is NOT recovered -/
theorem decode_encode_empty_points_ne (le : Scalar → Scalar → Bool) (v : String) (core : Dict)
    (hd : ∀ kv ∈ core, kv.1 ∉ formatKeys) :
    decode le (encode v ⟨core, .points []⟩) ≠ some ⟨core, .points []⟩ := by
  rw [decode_encode_empty_points le v core hd]
  simp

/-- order key on integer pressures used by the witnesses -/
def leInt : Scalar → Scalar → Bool
  | .int a, .int b => decide (a ≤ b)
  | _, _ => false

/-- the S10b isotherm: three adsorption points at pressures 1, 3, 2 -/
def s10b : Iso :=
  ⟨[("material", .scalar (.str "m"))],
   .points [⟨.int 1, .int 10, 0, []⟩, ⟨.int 3, .int 30, 0, []⟩, ⟨.int 2, .int 20, 0, []⟩]⟩

theorem s10b_inDomain : InDomain s10b := by
  refine ⟨by decide, by decide, ?_⟩
  intro r hr
  simp only [s10b, List.mem_cons, List.not_mem_nil, or_false] at hr
  rcases hr with rfl | rfl | rfl <;> exact ⟨⟨by decide, by decide⟩, Or.inl rfl⟩

/-- finding S10b: an in-domain isotherm, all points marked adsorption, is NOT recovered — the last mark comes back as 1 -/
theorem S10b_witness : decode leInt (encode "3.0" s10b) ≠ some s10b := by decide

theorem S10b_witness_value : decode leInt (encode "3.0" s10b) =
    some ⟨[("material", .scalar (.str "m"))],
      .points [⟨.int 1, .int 10, 0, []⟩, ⟨.int 3, .int 30, 0, []⟩, ⟨.int 2, .int 20, 1, []⟩]⟩ := by decide

/-- re-export reproduces the document whenever the import recovers the isotherm -/
theorem encode_decode_encode (le : Scalar → Scalar → Bool) (v : String) (i : Iso) (hi : InDomain i)
    (h : match i.payload with
         | .none => True
         | .model _ => True
         | .points rows => rows ≠ [] ∧ (rows.any (fun r => decide (r.branch = 1)) = true ∨
              splitAds le (rows.map (·.p)) = List.replicate rows.length 0)) :
    ∃ j, decode le (encode v i) = some j ∧ encode v j = encode v i := by
  refine ⟨i, ?_, rfl⟩
  cases hp : i.payload with
  | none => exact decode_encode_none le v i hi hp
  | model m => exact decode_encode_model le v i hi m hp
  | points rows =>
    rw [hp] at h
    exact decode_encode_points le v i hi rows hp h.1 h.2

/-- the same with `Option.get` -/
theorem encode_decode_encode_get (le : Scalar → Scalar → Bool) (v : String) (i : Iso) (hi : InDomain i)
    (h : match i.payload with
         | .none => True
         | .model _ => True
         | .points rows => rows ≠ [] ∧ (rows.any (fun r => decide (r.branch = 1)) = true ∨
              splitAds le (rows.map (·.p)) = List.replicate rows.length 0))
    (hs : (decode le (encode v i)).isSome = true) :
    encode v ((decode le (encode v i)).get hs) = encode v i := by
  obtain ⟨j, hj, he⟩ := encode_decode_encode le v i hi h
  simp only [hj, Option.get_some, he]

/-- the document is a well-formed JSON object: its keys are pairwise distinct -/
theorem encode_keys_distinct (v : String) (i : Iso) (hi : InDomain i) : ((encode v i).map (·.1)).Nodup := by
  obtain ⟨core, payload⟩ := i
  have hd := hi.keys_free
  have hn := hi.keys_nodup
  simp only at hd hn
  have hmap : (core.map (fun kv => (kv.1, DVal.mval kv.2))).map (·.1) = core.map (·.1) := by
    rw [List.map_map]; rfl
  have hfree : ∀ k ∈ core.map (·.1), k ∉ formatKeys := by
    intro k hk
    obtain ⟨kv, hkv, rfl⟩ := List.mem_map.1 hk
    exact hd kv hkv
  unfold encode
  rw [List.map_append, List.map_append, hmap, List.append_assoc, List.nodup_append]
  refine ⟨hn, ?_, ?_⟩
  · cases payload <;> simp only [List.map_cons, List.map_nil, List.cons_append, List.nil_append] <;> decide
  · intro a ha b hb hab
    subst hab
    apply hfree a ha
    cases payload <;> simp [formatKeys] at hb ⊢ <;> tauto

end PgVerif.C06
