/-
C06 — JSON export and import are exact inverses.

Statements are about the executable model `PgVerif.Model.Json` (`encode` = `isotherm_to_json` before `json.dumps`,
`decode` = `isotherm_from_json`).  `InDomain` is the stated domain of the codec: dictionary keys pairwise distinct and none of
them one of the three keys of the format, extra-column names distinct and none of `pressure`/`loading`/`branch`, branch marks 0 or 1.
The order key `le` used by the branch guess (`split_ads_data`) and the version string are arbitrary throughout.
Finding S10b appears as the extra hypothesis of `decode_encode_points_ads` and as the refutation `S10b_witness`.

Missing values.  Cells are arbitrary `Scalar`s — `Scalar.nan` (a quantity not recorded at that point: IEEE NaN, the bare token `NaN` in the
document) and `Scalar.null` (`None`) included — so every theorem below already says "a missing cell comes back missing".  The last
section ties this to what the reader really does: `decodeFrame` builds the table (absent key ↦ missing cell), rewrites the `branch`
COLUMN only, and is proved equal to `decode` on every document written for a rectangular table (`decodeFrame_encode`,
`decodeFrame_encode_points`, `decodeFrame_keeps_cells`); `fill_whole_table_loses_gaps` / `prep_must_keep_cells` state why the
`fillna` may not be applied to the whole table, and `fill_whole_table_ads_only` why such a defect is invisible without a desorption point.
-/
import Mathlib.Tactic
import PgVerif.Model.Json

namespace PgVerif.C06
open PgVerif.Model.Json

/-- extra-column names of a point: pairwise distinct, none of the three names the format uses itself -/
def ExtraOK (e : List (String × Scalar)) : Prop :=
  (e.map (·.1)).Nodup ∧ ∀ kv ∈ e, kv.1 ≠ "pressure" ∧ kv.1 ≠ "loading" ∧ kv.1 ≠ "branch"

/-- a point of the domain: admissible extra columns, branch mark 0 (adsorption) or 1 (desorption) -/
def RowOK (r : Row) : Prop := ExtraOK r.extra ∧ (r.branch = 0 ∨ r.branch = 1)

def PayloadOK : Payload → Prop
  | .points rows => ∀ r ∈ rows, RowOK r
  | _ => True

/-- the domain of the JSON codec -/
structure InDomain (i : Iso) : Prop where
  keys_nodup : (i.core.map (·.1)).Nodup
  keys_free : ∀ kv ∈ i.core, kv.1 ∉ formatKeys
  payload_ok : PayloadOK i.payload

/-- an adsorption point carries no `branch` key, a desorption point carries one -/
theorem encodeRow_branch (r : Row) (h : ExtraOK r.extra) :
    (encodeRow r).any (fun x => x.1 == "branch") = decide (r.branch ≠ 0) := by
  have hx : r.extra.any (fun x => x.1 == "branch") = false := by
    rw [List.any_eq_false]
    intro kv hkv
    simpa using (h.2 kv hkv).2.2
  have e1 : ("pressure" == "branch") = false := by decide
  have e2 : ("loading" == "branch") = false := by decide
  have e3 : ("branch" == "branch") = true := by decide
  unfold encodeRow
  simp only [List.cons_append, List.nil_append, List.any_cons, List.any_append, hx, e1, e2, Bool.false_or]
  split_ifs with hb <;> simp [hb, e3]

private lemma row_any_des (r : Row) (h : ExtraOK r.extra) :
    (encodeRow r).any (fun kv => kv.1 == "branch" && kv.2 == Scalar.str "des") = decide (r.branch ≠ 0) := by
  have hx : r.extra.any (fun kv => kv.1 == "branch" && kv.2 == Scalar.str "des") = false := by
    rw [List.any_eq_false]
    intro kv hkv
    have := (h.2 kv hkv).2.2
    simp [this]
  have e1 : ("pressure" == "branch") = false := by decide
  have e2 : ("loading" == "branch") = false := by decide
  have e3 : ("branch" == "branch") = true := by decide
  unfold encodeRow
  simp only [List.cons_append, List.nil_append, List.any_cons, List.any_append, hx, e1, e2, Bool.false_or, Bool.false_and]
  split_ifs with hb <;> simp [hb, e3]

private lemma row_pressure (r : Row) :
    ((encodeRow r).find? (fun x => x.1 == "pressure")).map (fun x => x.2) = some r.p := by
  have e1 : ("pressure" == "pressure") = true := by decide
  unfold encodeRow
  simp only [List.cons_append, List.find?_cons, e1, Option.map_some]

private lemma decodeRow_encodeRow' (r : Row) (mark : Nat) (h : ExtraOK r.extra) :
    decodeRow (encodeRow r) mark = some ⟨r.p, r.l, mark, r.extra⟩ := by
  have hf : r.extra.filter (fun kv => kv.1 != "pressure" && kv.1 != "loading" && kv.1 != "branch") = r.extra := by
    rw [List.filter_eq_self]
    intro kv hkv
    obtain ⟨h1, h2, h3⟩ := h.2 kv hkv
    simp [h1, h2, h3]
  have e1 : ("pressure" == "pressure") = true := by decide
  have e2 : ("pressure" == "loading") = false := by decide
  have e3 : ("loading" == "loading") = true := by decide
  have e4 : ("pressure" != "pressure") = false := by decide
  have e5 : ("loading" != "loading") = false := by decide
  have e6 : ("branch" != "branch") = false := by decide
  unfold decodeRow encodeRow
  simp only [List.cons_append, List.nil_append, List.find?_cons, List.filter_cons, List.filter_append, hf, e1, e2, e3, e4, e5,
    Bool.false_and, Bool.and_false, Bool.false_eq_true, if_false, Option.map_some, Option.bind_eq_bind, Option.bind_some]
  split_ifs <;> simp [e6]

private lemma core_filterMap (F : String × DVal → Option (String × MVal))
    (hF : ∀ k v, k ∉ formatKeys → F (k, .mval v) = some (k, v))
    (d : Dict) (hd : ∀ kv ∈ d, kv.1 ∉ formatKeys) :
    (d.map (fun kv => (kv.1, DVal.mval kv.2))).filterMap F = d := by
  induction d with
  | nil => rfl
  | cons a t ih =>
    have h1 : a.1 ∉ formatKeys := hd a (by simp)
    have h2 := ih (fun kv hkv => hd kv (by simp [hkv]))
    rw [List.map_cons, List.filterMap_cons, hF _ _ h1, h2]

private lemma lookup_core (d : Dict) (rest : Doc) (k : String) (hk : ∀ kv ∈ d, kv.1 ≠ k) :
    lookup (d.map (fun kv => (kv.1, DVal.mval kv.2)) ++ rest) k = lookup rest k := by
  induction d with
  | nil => rfl
  | cons a t ih =>
    have h1 : a.1 ≠ k := hk a (by simp)
    have h2 := ih (fun kv hkv => hk kv (by simp [hkv]))
    unfold lookup at h2 ⊢
    rw [List.map_cons, List.cons_append, List.find?_cons]
    have h1' : (a.1 == k) = false := by simpa using h1
    simp only [h1']
    exact h2

private lemma mapM_id_some {α : Type} (l : List α) : (l.map some).mapM id = some l := by
  induction l with
  | nil => rfl
  | cons a t ih => simp [List.mapM_cons, ih]

private lemma rows_anyMark (rows : List Row) (h : ∀ r ∈ rows, RowOK r) :
    (rows.map encodeRow).any (fun o => o.any (fun x => x.1 == "branch")) = rows.any (fun r => decide (r.branch = 1)) := by
  induction rows with
  | nil => rfl
  | cons r t ih =>
    have hr := h r (by simp)
    rw [List.map_cons, List.any_cons, List.any_cons, ih (fun r hr => h r (by simp [hr])), encodeRow_branch r hr.1]
    rcases hr.2 with hb | hb <;> simp [hb]

private lemma rows_marks (rows : List Row) (h : ∀ r ∈ rows, RowOK r) :
    (rows.map encodeRow).map (fun o => if (o.any fun kv => kv.1 == "branch" && kv.2 == Scalar.str "des") = true then 1 else 0)
      = rows.map (·.branch) := by
  induction rows with
  | nil => rfl
  | cons r t ih =>
    have hr := h r (by simp)
    rw [List.map_cons, List.map_cons, List.map_cons, ih (fun r hr => h r (by simp [hr])), row_any_des r hr.1]
    rcases hr.2 with hb | hb <;> simp [hb]

private lemma rows_pressures (rows : List Row) :
    (rows.map encodeRow).filterMap (fun o => Option.map (fun x => x.2) (List.find? (fun x => x.1 == "pressure") o))
      = rows.map (·.p) := by
  induction rows with
  | nil => rfl
  | cons r t ih => rw [List.map_cons, List.filterMap_cons, row_pressure, ih, List.map_cons]

private lemma rows_zip (rows : List Row) (h : ∀ r ∈ rows, RowOK r) :
    List.zipWith decodeRow (rows.map encodeRow) (rows.map (·.branch)) = rows.map some := by
  induction rows with
  | nil => rfl
  | cons r t ih =>
    have hr := h r (by simp)
    rw [List.map_cons, List.map_cons, List.zipWith_cons_cons, ih (fun r hr => h r (by simp [hr])), decodeRow_encodeRow' r _ hr.1,
      List.map_cons]

private lemma rows_all_ads (rows : List Row) (h : ∀ r ∈ rows, RowOK r)
    (hn : rows.any (fun r => decide (r.branch = 1)) = false) : rows.map (·.branch) = List.replicate rows.length 0 := by
  induction rows with
  | nil => rfl
  | cons r t ih =>
    rw [List.any_cons, Bool.or_eq_false_iff] at hn
    have hr := h r (by simp)
    have hb : r.branch = 0 := by
      rcases hr.2 with hb | hb
      · exact hb
      · simp [hb] at hn
    rw [List.map_cons, ih (fun r hr => h r (by simp [hr])) hn.2, hb, List.length_cons, List.replicate_succ]

private lemma F_core (k : String) (v : MVal) (hk : k ∉ formatKeys) :
    formatKeys.contains (k, DVal.mval v).1 = false := by simpa using hk

theorem decode_encode_none (le : Scalar → Scalar → Bool) (v : String) (i : Iso) (hi : InDomain i)
    (hp : i.payload = .none) : decode le (encode v i) = some i := by
  obtain ⟨core, payload⟩ := i
  simp only at hp
  subst hp
  have hd := hi.keys_free
  simp only at hd
  have hk1 : ∀ kv ∈ core, kv.1 ≠ "isotherm_data" := fun kv hkv e => hd kv hkv (by simp [e, formatKeys])
  have hk2 : ∀ kv ∈ core, kv.1 ≠ "isotherm_model" := fun kv hkv e => hd kv hkv (by simp [e, formatKeys])
  have l1 : lookup [("file_version", DVal.version v)] "isotherm_data" = none := rfl
  have l2 : lookup [("file_version", DVal.version v)] "isotherm_model" = none := rfl
  have c1 : formatKeys.contains "file_version" = true := by decide
  unfold decode encode
  simp only [List.filterMap_append, List.append_assoc, lookup_core _ _ _ hk1, lookup_core _ _ _ hk2, List.append_nil]
  rw [core_filterMap _ _ _ hd]
  · simp only [l1, l2, List.filterMap_cons, List.filterMap_nil, c1, if_true, List.append_nil]
  · intro k v hk
    simp only [F_core k v hk, Bool.false_eq_true, if_false]

theorem decode_encode_model (le : Scalar → Scalar → Bool) (v : String) (i : Iso) (hi : InDomain i)
    (m : ModelDict) (hp : i.payload = .model m) : decode le (encode v i) = some i := by
  obtain ⟨core, payload⟩ := i
  simp only at hp
  subst hp
  have hd := hi.keys_free
  simp only at hd
  have hk1 : ∀ kv ∈ core, kv.1 ≠ "isotherm_data" := fun kv hkv e => hd kv hkv (by simp [e, formatKeys])
  have hk2 : ∀ kv ∈ core, kv.1 ≠ "isotherm_model" := fun kv hkv e => hd kv hkv (by simp [e, formatKeys])
  have l1 : lookup [("file_version", DVal.version v), ("isotherm_model", DVal.model m)] "isotherm_data" = none := rfl
  have l2 : lookup [("file_version", DVal.version v), ("isotherm_model", DVal.model m)] "isotherm_model" = some (.model m) := rfl
  have c1 : formatKeys.contains "file_version" = true := by decide
  have c2 : formatKeys.contains "isotherm_model" = true := by decide
  unfold decode encode
  simp only [List.filterMap_append, List.append_assoc, lookup_core _ _ _ hk1, lookup_core _ _ _ hk2, List.append_nil,
    List.cons_append, List.nil_append]
  rw [core_filterMap _ _ _ hd]
  · simp only [l1, l2, List.filterMap_cons, List.filterMap_nil, c1, c2, if_true, List.append_nil]
  · intro k v hk
    simp only [F_core k v hk, Bool.false_eq_true, if_false]

private lemma decode_points_aux (le : Scalar → Scalar → Bool) (v : String) (core : Dict) (rows : List Row)
    (hd : ∀ kv ∈ core, kv.1 ∉ formatKeys) (hr : ∀ r ∈ rows, RowOK r) :
    decode le (encode v ⟨core, .points rows⟩) =
      if rows.isEmpty = true then some ⟨core, .none⟩
      else Option.map (fun rs => (⟨core, .points rs⟩ : Iso))
        (List.mapM id (List.zipWith decodeRow (rows.map encodeRow)
          (if rows.any (fun r => decide (r.branch = 1)) = true then rows.map (·.branch)
           else splitAds le (rows.map (·.p))))) := by
  have hk1 : ∀ kv ∈ core, kv.1 ≠ "isotherm_data" := fun kv hkv e => hd kv hkv (by simp [e, formatKeys])
  have hk2 : ∀ kv ∈ core, kv.1 ≠ "isotherm_model" := fun kv hkv e => hd kv hkv (by simp [e, formatKeys])
  have l1 : ∀ x, lookup [("file_version", DVal.version v), ("isotherm_data", DVal.data x)] "isotherm_data" = some (.data x) :=
    fun _ => rfl
  have c1 : formatKeys.contains "file_version" = true := by decide
  have c2 : formatKeys.contains "isotherm_data" = true := by decide
  unfold decode encode
  simp only [List.filterMap_append, List.append_assoc, lookup_core _ _ _ hk1, lookup_core _ _ _ hk2, List.append_nil,
    List.cons_append, List.nil_append]
  rw [core_filterMap _ _ _ hd]
  · simp only [l1, List.filterMap_cons, List.filterMap_nil, c1, c2, if_true, List.append_nil,
      rows_anyMark rows hr, rows_marks rows hr, rows_pressures rows, List.isEmpty_map]
  · intro k v hk
    simp only [F_core k v hk, Bool.false_eq_true, if_false]

/-- a single point is recovered exactly from its JSON object (given the mark the reader assigns to it) -/
theorem decodeRow_encodeRow (r : Row) (h : RowOK r) : decodeRow (encodeRow r) r.branch = some r :=
  decodeRow_encodeRow' r r.branch h.1

/-- measured points, at least one of them a desorption point: recovered exactly -/
theorem decode_encode_points_des (le : Scalar → Scalar → Bool) (v : String) (i : Iso) (hi : InDomain i)
    (rows : List Row) (hp : i.payload = .points rows) (hne : rows ≠ [])
    (hdes : rows.any (fun r => decide (r.branch = 1)) = true) : decode le (encode v i) = some i := by
  obtain ⟨core, payload⟩ := i
  simp only at hp
  subst hp
  have hr : ∀ r ∈ rows, RowOK r := hi.payload_ok
  have he : rows.isEmpty = false := by simpa using hne
  rw [decode_points_aux le v core rows hi.keys_free hr]
  simp only [he, Bool.false_eq_true, if_false, hdes, if_true, rows_zip rows hr, mapM_id_some, Option.map_some]

/-- measured points, all of them adsorption points: recovered exactly PROVIDED the branch guess from the pressures
(`split_ads_data`) marks every point as adsorption — finding S10b is that this is not always so -/
theorem decode_encode_points_ads (le : Scalar → Scalar → Bool) (v : String) (i : Iso) (hi : InDomain i)
    (rows : List Row) (hp : i.payload = .points rows) (hne : rows ≠ [])
    (hads : rows.any (fun r => decide (r.branch = 1)) = false)
    (hsplit : splitAds le (rows.map (·.p)) = List.replicate rows.length 0) : decode le (encode v i) = some i := by
  obtain ⟨core, payload⟩ := i
  simp only at hp
  subst hp
  have hr : ∀ r ∈ rows, RowOK r := hi.payload_ok
  have he : rows.isEmpty = false := by simpa using hne
  rw [decode_points_aux le v core rows hi.keys_free hr]
  simp only [he, Bool.false_eq_true, if_false, hads, hsplit, ← rows_all_ads rows hr hads, rows_zip rows hr, mapM_id_some,
    Option.map_some]

/-- both cases in one statement -/
theorem decode_encode_points (le : Scalar → Scalar → Bool) (v : String) (i : Iso) (hi : InDomain i)
    (rows : List Row) (hp : i.payload = .points rows) (hne : rows ≠ [])
    (h : rows.any (fun r => decide (r.branch = 1)) = true ∨
         splitAds le (rows.map (·.p)) = List.replicate rows.length 0) : decode le (encode v i) = some i := by
  by_cases hdes : rows.any (fun r => decide (r.branch = 1)) = true
  · exact decode_encode_points_des le v i hi rows hp hne hdes
  · rcases h with h | h
    · exact absurd h hdes
    · exact decode_encode_points_ads le v i hi rows hp hne (by simpa using hdes) h

private lemma zip_marks (rows : List Row) (marks : List Nat) (h : ∀ r ∈ rows, RowOK r) :
    List.zipWith decodeRow (rows.map encodeRow) marks =
      (List.zipWith (fun r m => (⟨r.p, r.l, m, r.extra⟩ : Row)) rows marks).map some := by
  induction rows generalizing marks with
  | nil => rfl
  | cons r t ih =>
    cases marks with
    | nil => rfl
    | cons m ms =>
      have hr := h r (by simp)
      rw [List.map_cons, List.zipWith_cons_cons, List.zipWith_cons_cons, List.map_cons,
        ih ms (fun r hr => h r (by simp [hr])), decodeRow_encodeRow' r m hr.1]

private lemma zip_eq_self (rows : List Row) (marks : List Nat) (hl : marks.length = rows.length)
    (he : List.zipWith (fun r m => (⟨r.p, r.l, m, r.extra⟩ : Row)) rows marks = rows) :
    marks = rows.map (·.branch) := by
  induction rows generalizing marks with
  | nil =>
    cases marks with
    | nil => rfl
    | cons m ms => simp at hl
  | cons r t ih =>
    cases marks with
    | nil => simp at hl
    | cons m ms =>
      rw [List.zipWith_cons_cons, List.cons.injEq] at he
      have hm : m = r.branch := by
        have := congrArg Row.branch he.1
        simpa using this
      rw [List.map_cons, ← hm, ih ms (by simpa using hl) he.2]

private lemma splitAds_length (le : Scalar → Scalar → Bool) (ps : List Scalar) : (splitAds le ps).length = ps.length := by
  unfold splitAds
  simp only
  split_ifs <;> simp

/-- the hypothesis of `decode_encode_points_ads` is exactly what is needed: with no desorption point, the isotherm is
recovered IF AND ONLY IF the branch guess marks every point as adsorption (this is finding S10b, stated as an equivalence) -/
theorem decode_encode_points_ads_iff (le : Scalar → Scalar → Bool) (v : String) (i : Iso) (hi : InDomain i)
    (rows : List Row) (hp : i.payload = .points rows) (hne : rows ≠ [])
    (hads : rows.any (fun r => decide (r.branch = 1)) = false) :
    decode le (encode v i) = some i ↔ splitAds le (rows.map (·.p)) = List.replicate rows.length 0 := by
  refine ⟨?_, decode_encode_points_ads le v i hi rows hp hne hads⟩
  obtain ⟨core, payload⟩ := i
  simp only at hp
  subst hp
  have hr : ∀ r ∈ rows, RowOK r := hi.payload_ok
  have he : rows.isEmpty = false := by simpa using hne
  rw [decode_points_aux le v core rows hi.keys_free hr]
  simp only [he, Bool.false_eq_true, if_false, hads, zip_marks rows _ hr, mapM_id_some, Option.map_some, Option.some.injEq,
    Iso.mk.injEq, true_and, Payload.points.injEq]
  intro h
  rw [zip_eq_self rows _ (by rw [splitAds_length, List.length_map]) h, rows_all_ads rows hr hads]

/-- boundary of the domain: an empty table of points is written as `"isotherm_data": []` and read back as an isotherm
with no data at all (python: `if data:` is false) -/
theorem decode_encode_empty_points (le : Scalar → Scalar → Bool) (v : String) (core : Dict)
    (hd : ∀ kv ∈ core, kv.1 ∉ formatKeys) :
    decode le (encode v ⟨core, .points []⟩) = some ⟨core, .none⟩ := by
  rw [decode_points_aux le v core [] hd (by simp)]
  rfl

/-- hence the empty table is NOT recovered -/
theorem decode_encode_empty_points_ne (le : Scalar → Scalar → Bool) (v : String) (core : Dict)
    (hd : ∀ kv ∈ core, kv.1 ∉ formatKeys) :
    decode le (encode v ⟨core, .points []⟩) ≠ some ⟨core, .points []⟩ := by
  rw [decode_encode_empty_points le v core hd]
  simp

/-- order key on integer pressures used by the witnesses -/
def leInt : Scalar → Scalar → Bool
  | .int a, .int b => decide (a ≤ b)
  | _, _ => false

/-- the S10b isotherm: three adsorption points at pressures 1, 3, 2 -/
def s10b : Iso :=
  ⟨[("material", .scalar (.str "m"))],
   .points [⟨.int 1, .int 10, 0, []⟩, ⟨.int 3, .int 30, 0, []⟩, ⟨.int 2, .int 20, 0, []⟩]⟩

theorem s10b_inDomain : InDomain s10b := by
  refine ⟨by decide, by decide, ?_⟩
  intro r hr
  simp only [s10b, List.mem_cons, List.not_mem_nil, or_false] at hr
  rcases hr with rfl | rfl | rfl <;> exact ⟨⟨by decide, by decide⟩, Or.inl rfl⟩

/-- finding S10b: an in-domain isotherm, all points marked adsorption, is NOT recovered — the last mark comes back as 1 -/
theorem S10b_witness : decode leInt (encode "3.0" s10b) ≠ some s10b := by decide

theorem S10b_witness_value : decode leInt (encode "3.0" s10b) =
    some ⟨[("material", .scalar (.str "m"))],
      .points [⟨.int 1, .int 10, 0, []⟩, ⟨.int 3, .int 30, 0, []⟩, ⟨.int 2, .int 20, 1, []⟩]⟩ := by decide

/-- re-export reproduces the document whenever the import recovers the isotherm -/
theorem encode_decode_encode (le : Scalar → Scalar → Bool) (v : String) (i : Iso) (hi : InDomain i)
    (h : match i.payload with
         | .none => True
         | .model _ => True
         | .points rows => rows ≠ [] ∧ (rows.any (fun r => decide (r.branch = 1)) = true ∨
              splitAds le (rows.map (·.p)) = List.replicate rows.length 0)) :
    ∃ j, decode le (encode v i) = some j ∧ encode v j = encode v i := by
  refine ⟨i, ?_, rfl⟩
  cases hp : i.payload with
  | none => exact decode_encode_none le v i hi hp
  | model m => exact decode_encode_model le v i hi m hp
  | points rows =>
    rw [hp] at h
    exact decode_encode_points le v i hi rows hp h.1 h.2

/-- the same with `Option.get` -/
theorem encode_decode_encode_get (le : Scalar → Scalar → Bool) (v : String) (i : Iso) (hi : InDomain i)
    (h : match i.payload with
         | .none => True
         | .model _ => True
         | .points rows => rows ≠ [] ∧ (rows.any (fun r => decide (r.branch = 1)) = true ∨
              splitAds le (rows.map (·.p)) = List.replicate rows.length 0))
    (hs : (decode le (encode v i)).isSome = true) :
    encode v ((decode le (encode v i)).get hs) = encode v i := by
  obtain ⟨j, hj, he⟩ := encode_decode_encode le v i hi h
  simp only [hj, Option.get_some, he]

/-- the document is a well-formed JSON object: its keys are pairwise distinct -/
theorem encode_keys_distinct (v : String) (i : Iso) (hi : InDomain i) : ((encode v i).map (·.1)).Nodup := by
  obtain ⟨core, payload⟩ := i
  have hd := hi.keys_free
  have hn := hi.keys_nodup
  simp only at hd hn
  have hmap : (core.map (fun kv => (kv.1, DVal.mval kv.2))).map (·.1) = core.map (·.1) := by
    rw [List.map_map]; rfl
  have hfree : ∀ k ∈ core.map (·.1), k ∉ formatKeys := by
    intro k hk
    obtain ⟨kv, hkv, rfl⟩ := List.mem_map.1 hk
    exact hd kv hkv
  unfold encode
  rw [List.map_append, List.map_append, hmap, List.append_assoc, List.nodup_append]
  refine ⟨hn, ?_, ?_⟩
  · cases payload <;> simp only [List.map_cons, List.map_nil, List.cons_append, List.nil_append] <;> decide
  · intro a ha b hb hab
    subst hab
    apply hfree a ha
    cases payload <;> simp [formatKeys] at hb ⊢ <;> tauto

/-! ## the reader through the data frame: missing cells

`decodeFrame` (Model/Json.lean) follows `isotherm_from_json` step by step: table from the row objects (absent key ↦ missing
cell), the `branch` COLUMN rewritten by `fillna(0).replace('des', 1).astype(int)`, nothing else touched.  On the documents the
writer produces for a rectangular table it agrees with `decode`; hence all inverse theorems above hold for it, whatever the
cells are — `Scalar.nan` (a quantity not recorded at that point) and `Scalar.null` (`None`) included. -/

/-- a rectangular table: every point has the same extra columns `names`, in the same order (what a data frame is) -/
def Rect (names : List String) (rows : List Row) : Prop := ∀ r ∈ rows, r.extra.map (·.1) = names

private lemma addKeys_append (acc : List String) (o1 o2 : Obj) :
    addKeys acc (o1 ++ o2) = addKeys (addKeys acc o1) o2 := by
  induction o1 generalizing acc with
  | nil => rfl
  | cons kv t ih => simp only [List.cons_append, addKeys, ih]

private lemma addKeys_known (acc : List String) (o : Obj) (h : ∀ kv ∈ o, kv.1 ∈ acc) : addKeys acc o = acc := by
  induction o with
  | nil => rfl
  | cons kv t ih =>
    have h1 : acc.contains kv.1 = true := by simpa using h kv (by simp)
    simp only [addKeys, h1, if_true]
    exact ih (fun kv hkv => h kv (by simp [hkv]))

private lemma addKeys_fresh (acc : List String) (o : Obj) (hn : (acc ++ o.map (·.1)).Nodup) :
    addKeys acc o = acc ++ o.map (·.1) := by
  induction o generalizing acc with
  | nil => simp [addKeys]
  | cons kv t ih =>
    have h1 : acc.contains kv.1 = false := by
      rw [List.map_cons, List.nodup_append] at hn
      by_contra hc
      have hm : kv.1 ∈ acc := by simpa using hc
      exact hn.2.2 kv.1 hm kv.1 (by simp) rfl
    simp only [addKeys, h1, Bool.false_eq_true, if_false]
    rw [ih (acc ++ [kv.1]) (by simpa [List.append_assoc] using hn)]
    simp [List.append_assoc]

/-- column labels of a rectangular table without / with a desorption mark somewhere -/
def cols0 (names : List String) : List String := "pressure" :: "loading" :: names
def cols1 (names : List String) : List String := cols0 names ++ ["branch"]

private lemma encodeRow_keys (r : Row) :
    (encodeRow r).map (·.1) = cols0 (r.extra.map (·.1)) ++ (if r.branch = 0 then [] else ["branch"]) := by
  unfold encodeRow cols0
  split_ifs <;> simp

private lemma cols1_nodup (e : List (String × Scalar)) (h : ExtraOK e) : (cols1 (e.map (·.1))).Nodup := by
  have hp : "pressure" ∉ e.map (·.1) := by
    intro hm; obtain ⟨kv, hkv, he⟩ := List.mem_map.1 hm; exact (h.2 kv hkv).1 he
  have hl : "loading" ∉ e.map (·.1) := by
    intro hm; obtain ⟨kv, hkv, he⟩ := List.mem_map.1 hm; exact (h.2 kv hkv).2.1 he
  have hb : "branch" ∉ e.map (·.1) := by
    intro hm; obtain ⟨kv, hkv, he⟩ := List.mem_map.1 hm; exact (h.2 kv hkv).2.2 he
  have e1 : ("pressure" : String) ≠ "loading" := by decide
  have e2 : ("pressure" : String) ≠ "branch" := by decide
  have e3 : ("loading" : String) ≠ "branch" := by decide
  unfold cols1 cols0
  simp only [List.cons_append, List.nodup_cons, List.mem_cons, List.mem_append, List.mem_singleton, not_or]
  refine ⟨⟨e1, hp, e2, by simp⟩, ⟨hl, e3, by simp⟩, ?_⟩
  rw [List.nodup_append]
  refine ⟨h.1, by simp, ?_⟩
  intro a ha b hb' hab
  rw [List.mem_singleton] at hb'
  subst hab; subst hb'
  exact hb ha

private lemma addKeys_nil_row (r : Row) (h : RowOK r) :
    addKeys [] (encodeRow r) = cols0 (r.extra.map (·.1)) ++ (if r.branch = 0 then [] else ["branch"]) := by
  have hn := cols1_nodup r.extra h.1
  rw [addKeys_fresh [] (encodeRow r), List.nil_append, encodeRow_keys]
  rw [List.nil_append, encodeRow_keys]
  split_ifs
  · rw [List.append_nil]
    unfold cols1 at hn
    exact (List.nodup_append.1 hn).1
  · exact hn

private lemma addKeys_cols0_row (r : Row) (h : RowOK r) :
    addKeys (cols0 (r.extra.map (·.1))) (encodeRow r) =
      cols0 (r.extra.map (·.1)) ++ (if r.branch = 0 then [] else ["branch"]) := by
  have hn := cols1_nodup r.extra h.1
  have hk : addKeys (cols0 (r.extra.map (·.1))) ([("pressure", r.p), ("loading", r.l)] ++ r.extra) = cols0 (r.extra.map (·.1)) := by
    apply addKeys_known
    intro kv hkv
    unfold cols0
    simp only [List.cons_append, List.nil_append, List.mem_cons] at hkv
    rcases hkv with rfl | rfl | hkv
    · simp
    · simp
    · simp only [List.mem_cons]
      exact Or.inr (Or.inr (List.mem_map.2 ⟨kv, hkv, rfl⟩))
  unfold encodeRow
  rw [addKeys_append, hk]
  split_ifs
  · simp [addKeys]
  · have hc : (cols0 (r.extra.map (·.1))).contains "branch" = false := by
      unfold cols1 at hn
      by_contra hc
      have hm : "branch" ∈ cols0 (r.extra.map (·.1)) := by simpa using hc
      exact (List.nodup_append.1 hn).2.2 _ hm _ (by simp) rfl
    simp only [addKeys, hc, Bool.false_eq_true, if_false]

private lemma addKeys_cols1_row (r : Row) :
    addKeys (cols1 (r.extra.map (·.1))) (encodeRow r) = cols1 (r.extra.map (·.1)) := by
  apply addKeys_known
  intro kv hkv
  have : kv.1 ∈ (encodeRow r).map (·.1) := List.mem_map.2 ⟨kv, hkv, rfl⟩
  rw [encodeRow_keys] at this
  unfold cols1
  rw [List.mem_append] at this ⊢
  rcases this with h | h
  · exact Or.inl h
  · split_ifs at h
    · simp at h
    · exact Or.inr h

/-- is there a desorption point -/
def anyDes (rows : List Row) : Bool := rows.any fun r => decide (r.branch = 1)

private lemma frameColumns_cols1 (names : List String) (rows : List Row) (hx : Rect names rows) :
    frameColumns (cols1 names) (rows.map encodeRow) = cols1 names := by
  induction rows with
  | nil => rfl
  | cons r t ih =>
    have hr : r.extra.map (·.1) = names := hx r (by simp)
    rw [List.map_cons, frameColumns, ← hr, addKeys_cols1_row r, hr]
    exact ih (fun r hr => hx r (by simp [hr]))

private lemma frameColumns_cols0 (names : List String) (rows : List Row) (h : ∀ r ∈ rows, RowOK r) (hx : Rect names rows) :
    frameColumns (cols0 names) (rows.map encodeRow) = if anyDes rows = true then cols1 names else cols0 names := by
  induction rows with
  | nil => rfl
  | cons r t ih =>
    have hr : r.extra.map (·.1) = names := hx r (by simp)
    have hok := h r (by simp)
    have ht := ih (fun r hr => h r (by simp [hr])) (fun r hr => hx r (by simp [hr]))
    rw [List.map_cons, frameColumns, ← hr, addKeys_cols0_row r hok, hr]
    rcases hok.2 with hb | hb
    · simp only [hb, if_true, List.append_nil, ht, anyDes, List.any_cons]
      simp
    · have : anyDes (r :: t) = true := by simp [anyDes, hb]
      simp only [hb, this, if_true]
      exact frameColumns_cols1 names t (fun r hr => hx r (by simp [hr]))

private lemma frameColumns_rows (names : List String) (rows : List Row) (h : ∀ r ∈ rows, RowOK r) (hx : Rect names rows)
    (hne : rows ≠ []) :
    frameColumns [] (rows.map encodeRow) = if anyDes rows = true then cols1 names else cols0 names := by
  cases rows with
  | nil => exact absurd rfl hne
  | cons r t =>
    have hr : r.extra.map (·.1) = names := hx r (by simp)
    have hok := h r (by simp)
    rw [List.map_cons, frameColumns, addKeys_nil_row r hok, hr]
    rcases hok.2 with hb | hb
    · simp only [hb, if_true, List.append_nil, anyDes, List.any_cons]
      rw [frameColumns_cols0 names t (fun r hr => h r (by simp [hr])) (fun r hr => hx r (by simp [hr]))]
      simp [anyDes]
    · have : anyDes (r :: t) = true := by simp [anyDes, hb]
      simp only [hb, this, if_true]
      exact frameColumns_cols1 names t (fun r hr => hx r (by simp [hr]))

/-- the cell of the `branch` column that the table has for a point: missing for an adsorption point -/
def branchCell (r : Row) : Scalar := if r.branch = 0 then .nan else .str "des"

/-- the row of the table for a point (`b`: the table has a `branch` column) -/
def frameRow (b : Bool) (r : Row) : Obj :=
  [("pressure", r.p), ("loading", r.l)] ++ r.extra ++ (if b = true then [("branch", branchCell r)] else [])

private lemma find_assoc (e : List (String × Scalar)) (hn : (e.map (·.1)).Nodup) (kv : String × Scalar) (hkv : kv ∈ e) :
    e.find? (fun x => x.1 == kv.1) = some kv := by
  induction e with
  | nil => simp at hkv
  | cons a t ih =>
    rw [List.map_cons, List.nodup_cons] at hn
    rw [List.find?_cons]
    rcases List.mem_cons.1 hkv with rfl | hm
    · simp
    · have hne : (a.1 == kv.1) = false := by
        have : a.1 ≠ kv.1 := fun he => hn.1 (he ▸ List.mem_map.2 ⟨kv, hm, rfl⟩)
        simpa using this
      simp only [hne]
      exact ih hn.2 hm

private lemma cell_pressure (r : Row) : cell (encodeRow r) "pressure" = r.p := by
  have e1 : ("pressure" == "pressure") = true := by decide
  unfold cell encodeRow
  simp only [List.cons_append, List.find?_cons, e1, Option.map_some, Option.getD_some]

private lemma cell_loading (r : Row) : cell (encodeRow r) "loading" = r.l := by
  have e1 : ("pressure" == "loading") = false := by decide
  have e2 : ("loading" == "loading") = true := by decide
  unfold cell encodeRow
  simp only [List.cons_append, List.find?_cons, e1, e2, Option.map_some, Option.getD_some]

private lemma cell_branch (r : Row) (h : ExtraOK r.extra) : cell (encodeRow r) "branch" = branchCell r := by
  have e1 : ("pressure" == "branch") = false := by decide
  have e2 : ("loading" == "branch") = false := by decide
  have e3 : ("branch" == "branch") = true := by decide
  have hx : r.extra.find? (fun x => x.1 == "branch") = none := by
    rw [List.find?_eq_none]
    intro kv hkv
    simpa using (h.2 kv hkv).2.2
  unfold cell encodeRow branchCell
  simp only [List.cons_append, List.nil_append, List.find?_cons, List.find?_append, e1, e2, hx, Option.none_or]
  split_ifs <;> simp [e3]

private lemma cell_extra (r : Row) (h : ExtraOK r.extra) (kv : String × Scalar) (hkv : kv ∈ r.extra) :
    cell (encodeRow r) kv.1 = kv.2 := by
  obtain ⟨h1, h2, _⟩ := h.2 kv hkv
  have e1 : ("pressure" == kv.1) = false := by simpa using fun he : "pressure" = kv.1 => h1 he.symm
  have e2 : ("loading" == kv.1) = false := by simpa using fun he : "loading" = kv.1 => h2 he.symm
  unfold cell encodeRow
  simp only [List.cons_append, List.nil_append, List.find?_cons, List.find?_append, e1, e2, find_assoc r.extra h.1 kv hkv,
    Option.some_or, Option.map_some, Option.getD_some]

private lemma frame_row (r : Row) (h : RowOK r) (b : Bool) :
    (if b = true then cols1 (r.extra.map (·.1)) else cols0 (r.extra.map (·.1))).map (fun k => (k, cell (encodeRow r) k))
      = frameRow b r := by
  have hex : (r.extra.map (·.1)).map (fun k => (k, cell (encodeRow r) k)) = r.extra := by
    rw [List.map_map]
    conv_rhs => rw [← List.map_id r.extra]
    apply List.map_congr_left
    intro kv hkv
    simp only [Function.comp, id, cell_extra r h.1 kv hkv]
  unfold frameRow
  cases b
  · simp only [Bool.false_eq_true, if_false, cols0, List.map_cons, cell_pressure, cell_loading, hex, List.append_nil,
      List.cons_append, List.nil_append]
  · simp only [if_true, cols1, cols0, List.map_cons, List.map_append, List.map_nil, cell_pressure, cell_loading, hex,
      cell_branch r h.1, List.cons_append, List.nil_append]

private lemma frame_rows (names : List String) (rows : List Row) (h : ∀ r ∈ rows, RowOK r) (hx : Rect names rows)
    (hne : rows ≠ []) : frame (rows.map encodeRow) = rows.map (frameRow (anyDes rows)) := by
  unfold frame
  rw [frameColumns_rows names rows h hx hne, List.map_map]
  apply List.map_congr_left
  intro r hr
  have := frame_row r (h r hr) (anyDes rows)
  rw [hx r hr] at this
  simpa [Function.comp] using this

private lemma rowOfFrame_frameRow (r : Row) (h : ExtraOK r.extra) (b : Bool) (m : Nat) :
    rowOfFrame (frameRow b r) m = ⟨r.p, r.l, m, r.extra⟩ := by
  have hf : r.extra.filter (fun kv => isDataKey kv.1) = r.extra := by
    rw [List.filter_eq_self]
    intro kv hkv
    obtain ⟨h1, h2, h3⟩ := h.2 kv hkv
    simp [isDataKey, h1, h2, h3]
  have e1 : ("pressure" == "pressure") = true := by decide
  have e2 : ("pressure" == "loading") = false := by decide
  have e3 : ("loading" == "loading") = true := by decide
  have d1 : isDataKey "pressure" = false := by decide
  have d2 : isDataKey "loading" = false := by decide
  have d3 : isDataKey "branch" = false := by decide
  unfold rowOfFrame frameRow cell
  cases b <;>
  simp only [List.cons_append, List.nil_append, List.find?_cons, List.filter_cons, List.filter_append, List.filter_nil, hf, e1, e2, e3,
    d1, d2, d3, Bool.false_eq_true, if_false, if_true, Option.map_some, Option.getD_some, List.append_nil]

private lemma cell_frameRow_pressure (r : Row) (b : Bool) : cell (frameRow b r) "pressure" = r.p := by
  have e1 : ("pressure" == "pressure") = true := by decide
  unfold cell frameRow
  simp only [List.cons_append, List.find?_cons, e1, Option.map_some, Option.getD_some]

private lemma cell_frameRow_branch (r : Row) (h : RowOK r) : branchMark (cell (frameRow true r) "branch") = some r.branch := by
  have e1 : ("pressure" == "branch") = false := by decide
  have e2 : ("loading" == "branch") = false := by decide
  have e3 : ("branch" == "branch") = true := by decide
  have e4 : ("des" == "des") = true := by decide
  have hx : r.extra.find? (fun x => x.1 == "branch") = none := by
    rw [List.find?_eq_none]
    intro kv hkv
    simpa using (h.1.2 kv hkv).2.2
  unfold cell frameRow branchCell
  simp only [List.cons_append, List.nil_append, List.find?_cons, List.find?_append, e1, e2, e3, hx, Option.none_or, if_true,
    Option.map_some, Option.getD_some]
  rcases h.2 with hb | hb <;> simp [hb, branchMark, e4]

private lemma marks_frame (rows : List Row) (h : ∀ r ∈ rows, RowOK r) :
    (rows.map (frameRow true)).mapM (fun r => branchMark (cell r "branch")) = some (rows.map (·.branch)) := by
  induction rows with
  | nil => rfl
  | cons r t ih =>
    rw [List.map_cons, List.mapM_cons, cell_frameRow_branch r (h r (by simp)), ih (fun r hr => h r (by simp [hr]))]
    rfl

private lemma zip_frame (rows : List Row) (b : Bool) (ms : List Nat) (h : ∀ r ∈ rows, RowOK r) :
    List.zipWith rowOfFrame (rows.map (frameRow b)) ms = List.zipWith (fun r m => (⟨r.p, r.l, m, r.extra⟩ : Row)) rows ms := by
  induction rows generalizing ms with
  | nil => rfl
  | cons r t ih =>
    cases ms with
    | nil => rfl
    | cons m ms =>
      rw [List.map_cons, List.zipWith_cons_cons, List.zipWith_cons_cons, rowOfFrame_frameRow r (h r (by simp)).1,
        ih ms (fun r hr => h r (by simp [hr]))]

private lemma cols_contains (names : List String) (hb : "branch" ∉ names) (b : Bool) :
    ((if b = true then cols1 names else cols0 names).contains "pressure" = true) ∧
    ((if b = true then cols1 names else cols0 names).contains "loading" = true) ∧
    ((if b = true then cols1 names else cols0 names).contains "branch" = b) := by
  have e2 : ("pressure" : String) ≠ "branch" := by decide
  have e3 : ("loading" : String) ≠ "branch" := by decide
  cases b
  · simp [cols0, hb, e2.symm, e3.symm]
  · simp [cols1, cols0]

/-- what the reader-through-the-table makes of the document written for a non-empty rectangular table -/
private lemma decodeFrame_points_aux (le : Scalar → Scalar → Bool) (v : String) (core : Dict) (rows : List Row)
    (names : List String) (hd : ∀ kv ∈ core, kv.1 ∉ formatKeys) (hr : ∀ r ∈ rows, RowOK r) (hx : Rect names rows)
    (hne : rows ≠ []) :
    decodeFrame le (encode v ⟨core, .points rows⟩) =
      some ⟨core, .points (List.zipWith (fun r m => (⟨r.p, r.l, m, r.extra⟩ : Row)) rows
        (if anyDes rows = true then rows.map (·.branch) else splitAds le (rows.map (·.p))))⟩ := by
  have hk1 : ∀ kv ∈ core, kv.1 ≠ "isotherm_data" := fun kv hkv e => hd kv hkv (by simp [e, formatKeys])
  have hk2 : ∀ kv ∈ core, kv.1 ≠ "isotherm_model" := fun kv hkv e => hd kv hkv (by simp [e, formatKeys])
  have l1 : ∀ x, lookup [("file_version", DVal.version v), ("isotherm_data", DVal.data x)] "isotherm_data" = some (.data x) :=
    fun _ => rfl
  have c1 : formatKeys.contains "file_version" = true := by decide
  have c2 : formatKeys.contains "isotherm_data" = true := by decide
  have he : rows.isEmpty = false := by simpa using hne
  have hbn : "branch" ∉ names := by
    obtain ⟨r, hrm⟩ := List.exists_mem_of_ne_nil rows hne
    rw [← hx r hrm]
    intro hm
    obtain ⟨kv, hkv, hke⟩ := List.mem_map.1 hm
    exact ((hr r hrm).1.2 kv hkv).2.2 hke
  obtain ⟨cp, cl, cb⟩ := cols_contains names hbn (anyDes rows)
  have hp : (rows.map (frameRow (anyDes rows))).map (fun r => cell r "pressure") = rows.map (·.p) := by
    rw [List.map_map]
    apply List.map_congr_left
    intro r _
    simp only [Function.comp, cell_frameRow_pressure]
  unfold decodeFrame decodeFrameWith encode
  simp only [List.filterMap_append, List.append_assoc, lookup_core _ _ _ hk1, lookup_core _ _ _ hk2,
    List.cons_append, List.nil_append]
  rw [core_filterMap _ _ _ hd]
  · simp only [l1, List.filterMap_cons, List.filterMap_nil, c1, c2, if_true, List.append_nil, List.isEmpty_map, he,
      Bool.false_eq_true, if_false, frameColumns_rows names rows hr hx hne, frame_rows names rows hr hx hne, cp, cl, cb,
      Bool.and_self, Bool.not_true, List.map_id, ite_self, hp]
    cases hdes : anyDes rows
    · simp only [Bool.false_eq_true, if_false, Option.map_some, zip_frame rows false _ hr]
    · simp only [if_true, marks_frame rows hr, Option.map_some, zip_frame rows true _ hr]
  · intro k v hk
    simp only [F_core k v hk, Bool.false_eq_true, if_false]

private lemma decode_points_value (le : Scalar → Scalar → Bool) (v : String) (core : Dict) (rows : List Row)
    (hd : ∀ kv ∈ core, kv.1 ∉ formatKeys) (hr : ∀ r ∈ rows, RowOK r) (hne : rows ≠ []) :
    decode le (encode v ⟨core, .points rows⟩) =
      some ⟨core, .points (List.zipWith (fun r m => (⟨r.p, r.l, m, r.extra⟩ : Row)) rows
        (if anyDes rows = true then rows.map (·.branch) else splitAds le (rows.map (·.p))))⟩ := by
  have he : rows.isEmpty = false := by simpa using hne
  rw [decode_points_aux le v core rows hd hr]
  simp only [he, Bool.false_eq_true, if_false, zip_marks rows _ hr, mapM_id_some, Option.map_some, anyDes]
  rfl

private lemma decodeFrame_nodata (le : Scalar → Scalar → Bool) (d : Doc)
    (h : lookup d "isotherm_data" = none ∨ lookup d "isotherm_data" = some (.data [])) : decodeFrame le d = decode le d := by
  unfold decodeFrame decodeFrameWith decode
  rcases h with h | h
  · rw [h]
    cases lookup d "isotherm_model" with
    | none => rfl
    | some x => cases x <;> rfl
  · rw [h]
    rfl

/-- **the reader through the table is the reader of the theorems above** on every document the writer produces for a
rectangular table (all three classes, any cells — missing ones included) -/
theorem decodeFrame_encode (le : Scalar → Scalar → Bool) (v : String) (i : Iso) (hi : InDomain i)
    (hx : ∀ rows, i.payload = .points rows → ∃ names, Rect names rows) :
    decodeFrame le (encode v i) = decode le (encode v i) := by
  obtain ⟨core, payload⟩ := i
  have hd : ∀ kv ∈ core, kv.1 ∉ formatKeys := hi.keys_free
  have hk1 : ∀ kv ∈ core, kv.1 ≠ "isotherm_data" := fun kv hkv e => hd kv hkv (by simp [e, formatKeys])
  cases payload with
  | none =>
    apply decodeFrame_nodata
    left
    unfold encode
    simp only [List.append_assoc, lookup_core _ _ _ hk1]
    rfl
  | model m =>
    apply decodeFrame_nodata
    left
    unfold encode
    simp only [List.append_assoc, lookup_core _ _ _ hk1]
    rfl
  | points rows =>
    by_cases hne : rows = []
    · subst hne
      apply decodeFrame_nodata
      right
      unfold encode
      simp only [List.append_assoc, lookup_core _ _ _ hk1]
      rfl
    · obtain ⟨names, hrect⟩ := hx rows rfl
      have hr : ∀ r ∈ rows, RowOK r := hi.payload_ok
      rw [decodeFrame_points_aux le v core rows names hd hr hrect hne, decode_points_value le v core rows hd hr hne]

/-- **data with gaps round-trips**: measured points (non-empty rectangular table, ANY cells: `Scalar.nan` where a quantity was not
recorded, `Scalar.null` for `None`), read back through the table, are recovered exactly — under the same hypothesis on the marks as
`decode_encode_points` (a desorption point exists, or the guess from the pressures marks every point as adsorption) -/
theorem decodeFrame_encode_points (le : Scalar → Scalar → Bool) (v : String) (i : Iso) (hi : InDomain i)
    (rows : List Row) (names : List String) (hp : i.payload = .points rows) (hx : Rect names rows) (hne : rows ≠ [])
    (h : rows.any (fun r => decide (r.branch = 1)) = true ∨
         splitAds le (rows.map (·.p)) = List.replicate rows.length 0) : decodeFrame le (encode v i) = some i := by
  rw [decodeFrame_encode le v i hi (fun rows' hp' => by rw [hp] at hp'; cases hp'; exact ⟨names, hx⟩)]
  exact decode_encode_points le v i hi rows hp hne h

/-- metadata-only and model isotherms through the same reader -/
theorem decodeFrame_encode_none_model (le : Scalar → Scalar → Bool) (v : String) (i : Iso) (hi : InDomain i)
    (hp : i.payload = .none ∨ ∃ m, i.payload = .model m) : decodeFrame le (encode v i) = some i := by
  rw [decodeFrame_encode le v i hi (fun rows' hp' => by rcases hp with h | ⟨m, h⟩ <;> rw [h] at hp' <;> cases hp')]
  rcases hp with h | ⟨m, h⟩
  · exact decode_encode_none le v i hi h
  · exact decode_encode_model le v i hi m h

/-- **every data column comes back, unconditionally**: whatever the branch guess does to the marks (finding S10b), the reader
returns the same number of points with the same pressure, loading and extra cells — a missing cell is still missing, a recorded
one still has its value.  (Only the marks need the hypothesis of `decodeFrame_encode_points`.) -/
theorem decodeFrame_keeps_cells (le : Scalar → Scalar → Bool) (v : String) (core : Dict) (rows : List Row) (names : List String)
    (hi : InDomain ⟨core, .points rows⟩) (hx : Rect names rows) (hne : rows ≠ []) :
    ∃ rows', decodeFrame le (encode v ⟨core, .points rows⟩) = some ⟨core, .points rows'⟩ ∧
      rows'.map (fun r => (r.p, r.l, r.extra)) = rows.map (fun r => (r.p, r.l, r.extra)) := by
  have hr : ∀ r ∈ rows, RowOK r := hi.payload_ok
  refine ⟨_, decodeFrame_points_aux le v core rows names hi.keys_free hr hx hne, ?_⟩
  have hlen : (if anyDes rows = true then rows.map (·.branch) else splitAds le (rows.map (·.p))).length = rows.length := by
    split_ifs
    · simp
    · rw [splitAds_length, List.length_map]
  generalize (if anyDes rows = true then rows.map (·.branch) else splitAds le (rows.map (·.p))) = ms at hlen
  clear hr hx hne hi
  induction rows generalizing ms with
  | nil => simp
  | cons r t ih =>
    cases ms with
    | nil => simp at hlen
    | cons m ms =>
      rw [List.zipWith_cons_cons, List.map_cons, List.map_cons, ih ms (by simpa using hlen)]

/-! ### concrete tables with gaps, and why the `fillna` must stay on the `branch` column -/

/-- five points, two of them desorption; the enthalpy was recorded at every second point only, one loading and one pressure are
missing, the remark column has a `None` -/
def gaps : Iso :=
  ⟨[("material", .scalar (.str "m")), ("t_act", .scalar .null)],
   .points [⟨.int 1, .int 10, 0, [("enthalpy", .int 15), ("remark", .str "ok")]⟩,
            ⟨.int 2, .nan, 0, [("enthalpy", .nan), ("remark", .null)]⟩,
            ⟨.int 3, .int 30, 0, [("enthalpy", .int 12), ("remark", .str "des")]⟩,
            ⟨.nan, .int 25, 1, [("enthalpy", .nan), ("remark", .str "x")]⟩,
            ⟨.int 1, .int 15, 1, [("enthalpy", .int 11), ("remark", .null)]⟩]⟩

/-- the same measured values with all points marked adsorption (no `branch` key anywhere in the document) -/
def gapsAds : Iso :=
  ⟨[("material", .scalar (.str "m"))],
   .points [⟨.int 1, .int 10, 0, [("enthalpy", .int 15)]⟩, ⟨.nan, .nan, 0, [("enthalpy", .nan)]⟩,
            ⟨.int 3, .int 30, 0, [("enthalpy", .nan)]⟩]⟩

/-- order key of the witnesses with the missing pressure below every number (`idxmax` skips missing values) -/
def leGap : Scalar → Scalar → Bool
  | .nan, _ => true
  | _, .nan => false
  | a, b => leInt a b

theorem gaps_inDomain : InDomain gaps := by
  refine ⟨by decide, by decide, ?_⟩
  intro r hr
  simp only [gaps, List.mem_cons, List.not_mem_nil, or_false] at hr
  rcases hr with rfl | rfl | rfl | rfl | rfl <;> exact ⟨⟨by decide, by decide⟩, by decide⟩

theorem gaps_rect : ∀ rows, gaps.payload = .points rows → Rect ["enthalpy", "remark"] rows := by
  intro rows h
  cases h
  intro r hr
  simp only [List.mem_cons, List.not_mem_nil, or_false] at hr
  rcases hr with rfl | rfl | rfl | rfl | rfl <;> rfl

/-- non-vacuity of `decodeFrame_encode_points`: an in-domain table with every kind of gap, recovered cell by cell
(the hypotheses hold: `gaps_inDomain`, `gaps_rect`, a desorption point exists) -/
theorem gaps_roundtrip : decodeFrame leGap (encode "3.0" gaps) = some gaps := by decide

theorem gapsAds_roundtrip : decodeFrame leGap (encode "3.0" gapsAds) = some gapsAds := by decide

/-! ### no pressure recorded at any point (S54-C06)

With every point an adsorption point the document carries no `branch` key and the reader guesses the marks from the pressures.  A table
whose pressure column is missing throughout has no maximum to split at; `split_ads_data` returns "all adsorption" for it (before the
repair pandas' `idxmax` raised ValueError there, i.e. the library refused the document it had itself written).  With that rule the
hypothesis `splitAds … = replicate … 0` of `decode_encode_points_ads` is DISCHARGED for such tables, whatever the order key. -/

theorem splitAds_no_pressure (le : Scalar → Scalar → Bool) (ps : List Scalar) (h : ∀ p ∈ ps, p.missing = true) :
    splitAds le ps = List.replicate ps.length 0 := by
  have hall : ps.all Scalar.missing = true := List.all_eq_true.2 h
  simp [splitAds, hall]

/-- a table without any recorded pressure, all points adsorption (the case the reader has to guess), comes back exactly — through
`decode` and through the step-by-step reader — with NO hypothesis on the guess -/
theorem decode_encode_points_no_pressure (le : Scalar → Scalar → Bool) (v : String) (i : Iso) (hi : InDomain i)
    (rows : List Row) (hp : i.payload = .points rows) (hne : rows ≠ [])
    (hno : ∀ r ∈ rows, r.p.missing = true) : decode le (encode v i) = some i := by
  refine decode_encode_points le v i hi rows hp hne ?_
  by_cases hdes : rows.any (fun r => decide (r.branch = 1)) = true
  · exact Or.inl hdes
  · right
    rw [← List.length_map (f := (·.p))]
    exact splitAds_no_pressure le _ (by
      intro p hp'
      obtain ⟨r, hr, rfl⟩ := List.mem_map.1 hp'
      exact hno r hr)

theorem decodeFrame_encode_points_no_pressure (le : Scalar → Scalar → Bool) (v : String) (i : Iso) (hi : InDomain i)
    (rows : List Row) (names : List String) (hp : i.payload = .points rows) (hx : Rect names rows) (hne : rows ≠ [])
    (hno : ∀ r ∈ rows, r.p.missing = true) : decodeFrame le (encode v i) = some i := by
  rw [decodeFrame_encode le v i hi (fun rows' hp' => by rw [hp] at hp'; cases hp'; exact ⟨names, hx⟩)]
  exact decode_encode_points_no_pressure le v i hi rows hp hne hno

/-- non-vacuity: the witness of the finding — `PointIsotherm(pressure=[nan, nan, nan], loading=[1, 2, 3], branch=[0, 0, 0])` -/
def noPressure : Iso :=
  ⟨[("material", .scalar (.str "m"))],
   .points [⟨.nan, .int 1, 0, []⟩, ⟨.nan, .int 2, 0, []⟩, ⟨.nan, .int 3, 0, []⟩]⟩

theorem noPressure_inDomain : InDomain noPressure := by
  refine ⟨by decide, by decide, ?_⟩
  intro r hr
  simp only [noPressure, List.mem_cons, List.not_mem_nil, or_false] at hr
  rcases hr with rfl | rfl | rfl <;> exact ⟨⟨by decide, by decide⟩, by decide⟩

theorem noPressure_roundtrip : decodeFrame leGap (encode "3.0" noPressure) = some noPressure ∧
    decode leGap (encode "3.0" noPressure) = some noPressure := by decide

/-- why the rule is needed: the plain "split at the first maximum" rule, with the missing pressure below every number, takes the FIRST
point of such a table as the maximum and calls the whole table desorption — the guard is what makes the guess agree with the marks -/
theorem first_maximum_rule_alone_fails :
    (let ps : List Scalar := [.nan, .nan, .nan]
     let infl := firstMaxIdx leGap ps + 1
     (if infl = ps.length then List.replicate ps.length 0
      else (List.range ps.length).map fun i => if (if infl = 1 then 0 else infl) ≤ i then 1 else 0)) = [1, 1, 1] := by decide

/-- `fillna(0)` on a cell -/
def fill0 : Scalar → Scalar
  | .nan => .int 0
  | .null => .int 0
  | s => s

/-- a reader that fills the missing cells of the WHOLE table (not only of the `branch` column) when the table has a `branch` column -/
def decodeFillAll (le : Scalar → Scalar → Bool) (d : Doc) : Option Iso :=
  decodeFrameWith (fun r => r.map fun kv => (kv.1, fill0 kv.2)) le d

/-- … is not an inverse of the writer: the gaps of `gaps` come back as zeros -/
theorem fill_whole_table_loses_gaps : decodeFillAll leGap (encode "3.0" gaps) ≠ some gaps := by decide

theorem fill_whole_table_value : decodeFillAll leGap (encode "3.0" gaps) =
    some ⟨[("material", .scalar (.str "m")), ("t_act", .scalar .null)],
      .points [⟨.int 1, .int 10, 0, [("enthalpy", .int 15), ("remark", .str "ok")]⟩,
               ⟨.int 2, .int 0, 0, [("enthalpy", .int 0), ("remark", .int 0)]⟩,
               ⟨.int 3, .int 30, 0, [("enthalpy", .int 12), ("remark", .str "des")]⟩,
               ⟨.int 0, .int 25, 1, [("enthalpy", .int 0), ("remark", .str "x")]⟩,
               ⟨.int 1, .int 15, 1, [("enthalpy", .int 11), ("remark", .int 0)]⟩]⟩ := by decide

/-- … while on a table WITHOUT a desorption point that reader happens to agree with the real one (no `branch` column: the other
code path) — which is why such a defect is invisible on adsorption-only data -/
theorem fill_whole_table_ads_only : decodeFillAll leGap (encode "3.0" gapsAds) = some gapsAds := by decide

/-- in general: a reader that changes a cell of some row of a table with a desorption point is not an inverse.  Stated for the
row preparation `prep` of `decodeFrameWith`: if the reader with `prep` recovers every in-domain rectangular table that has a
desorption point, then `prep` leaves the data cells of the rows of such tables alone -/
theorem prep_must_keep_cells (prep : Obj → Obj) (le : Scalar → Scalar → Bool) (v : String) (core : Dict) (rows : List Row)
    (names : List String) (hi : InDomain ⟨core, .points rows⟩) (hx : Rect names rows) (hne : rows ≠ [])
    (hdes : anyDes rows = true)
    (hrt : decodeFrameWith prep le (encode v ⟨core, .points rows⟩) = some ⟨core, .points rows⟩) :
    ∃ ms, List.zipWith rowOfFrame ((rows.map (frameRow true)).map prep) ms = rows := by
  have hr : ∀ r ∈ rows, RowOK r := hi.payload_ok
  have hd := hi.keys_free
  simp only at hd
  have hk1 : ∀ kv ∈ core, kv.1 ≠ "isotherm_data" := fun kv hkv e => hd kv hkv (by simp [e, formatKeys])
  have hk2 : ∀ kv ∈ core, kv.1 ≠ "isotherm_model" := fun kv hkv e => hd kv hkv (by simp [e, formatKeys])
  have l1 : ∀ x, lookup [("file_version", DVal.version v), ("isotherm_data", DVal.data x)] "isotherm_data" = some (.data x) :=
    fun _ => rfl
  have c1 : formatKeys.contains "file_version" = true := by decide
  have c2 : formatKeys.contains "isotherm_data" = true := by decide
  have he : rows.isEmpty = false := by simpa using hne
  have hbn : "branch" ∉ names := by
    obtain ⟨r, hrm⟩ := List.exists_mem_of_ne_nil rows hne
    rw [← hx r hrm]
    intro hm
    obtain ⟨kv, hkv, hke⟩ := List.mem_map.1 hm
    exact ((hr r hrm).1.2 kv hkv).2.2 hke
  obtain ⟨cp, cl, cb⟩ := cols_contains names hbn (anyDes rows)
  rw [hdes] at cp cl cb
  simp only [if_true] at cp cl cb
  unfold decodeFrameWith encode at hrt
  simp only [List.filterMap_append, List.append_assoc, lookup_core _ _ _ hk1, lookup_core _ _ _ hk2,
    List.cons_append, List.nil_append] at hrt
  rw [core_filterMap _ _ _ hd] at hrt
  · simp only [l1, List.filterMap_cons, List.filterMap_nil, c1, c2, if_true, List.append_nil, List.isEmpty_map, he,
      Bool.false_eq_true, if_false, frameColumns_rows names rows hr hx hne, frame_rows names rows hr hx hne, cp, cl, cb,
      Bool.and_self, Bool.not_true, hdes] at hrt
    cases hm : List.mapM (fun r => branchMark (cell r "branch")) (List.map prep (List.map (frameRow true) rows)) with
    | none =>
      rw [hm] at hrt
      simp at hrt
    | some ms =>
      refine ⟨ms, ?_⟩
      rw [hm] at hrt
      simpa using hrt
  · intro k v hk
    simp only [F_core k v hk, Bool.false_eq_true, if_false]

end PgVerif.C06
