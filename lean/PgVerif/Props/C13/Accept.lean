/-
C13, what a RETURN of `iast_point` / `reverse_iast` guarantees about the spreading pressures (finding S50-C13a).

`scipy.optimize.root(method='lm')` sets `success` whenever MINPACK terminates with info 1-4 — also when the step collapses next to a
mole fraction that turns negative (the residual is NaN beyond it) far away from a root.  Before the repository fix the point was handed
out unchecked: Langmuir / Henry / Langmuir / Quadratic from the guess (0.0488, 0.0407, 0.0128, 0.8977) returned a point with the
spreading pressures 64.8869 / 41.0183 / 24.4627 / 14.5892.  The fix evaluates the spreading pressures at the returned point and accepts
it only if `numpy.allclose(sp, sp[0], rtol = 1e-4, atol = 0)`; otherwise `CalculationError`.

* `Accepted r sp`            the acceptance test (`|sp_i - sp_0| ≤ r·|sp_0|` for every component);
* `accepted_pairwise`, `accepted_spread_le`   an accepted point has pairwise differences ≤ 2·r·|sp_0|, hence a relative spread
                             (max − min) / max|sp| ≤ 2·r: the class boundary `NON_SOLUTION = 1e-3 = 5 · (2 · 1e-4)` of the harness
                             (harness/props/c13.py) cannot be exceeded by any return of the repaired code;
* `accepted_zero_iff`, `accepted_zero_iff_spreadDiffs`   at `r = 0` the test IS the IAST equation (zero residual vector of
                             `spreading_pressure_differences`, cf. `spreadDiffs_zero_iff`);
* `accepted_mono`            a looser tolerance accepts more;
* `equal_of_accepted_partial`   the full statement "a returned point has equal spreading pressures" holds at r = 0 only; for the
                             r = 1e-4 of the code `accepted_not_equal` is the witness that equality does not follow — the remainder
                             (|sp_i − sp_0| ≤ 1e-4·|sp_0|, in practice 1e-8 without a trace component) is numerical and is measured by
                             the certificate of every run; with a trace component it is the known finding S22;
* `stall_not_accepted`, `stall_residual_ne_zero`   the S50-C13a point is a non-root and is refused by the test (at ℚ).
-/
import PgVerif.Props.C13.Point
import Mathlib.Tactic

namespace PgVerif.Props.C13
open PgVerif.Model PgVerif.Model.Iast

section Accept
variable {α : Type} [Field α] [LinearOrder α] [IsStrictOrderedRing α]

/-- `numpy.allclose(sp, sp[0], rtol = r, atol = 0)`: every spreading pressure lies within `r · |sp₀|` of the first one -/
def Accepted (r : α) (sp : List α) : Prop := ∀ s ∈ sp, |s - sp.headD 0| ≤ r * |sp.headD 0|

/-- two spreading pressures of an accepted point differ by at most `2 r |sp₀|` -/
theorem accepted_pairwise {r : α} {sp : List α} (h : Accepted r sp) {a b : α} (ha : a ∈ sp) (hb : b ∈ sp) :
    |a - b| ≤ 2 * r * |sp.headD 0| := by
  have h1 := h a ha
  have h2 := h b hb
  have h3 : |a - b| ≤ |a - sp.headD 0| + |b - sp.headD 0| := by
    have : a - b = (a - sp.headD 0) - (b - sp.headD 0) := by ring
    rw [this]
    exact abs_sub _ _
  linarith

/-- relative spread of an accepted point: against any scale `m ≥ |sp₀|` (e.g. `max |sp_i|`) the difference of two spreading
pressures is at most `2 r m` -/
theorem accepted_spread_le {r m : α} {sp : List α} (hr : 0 ≤ r) (h : Accepted r sp) (hm : |sp.headD 0| ≤ m)
    {a b : α} (ha : a ∈ sp) (hb : b ∈ sp) : |a - b| ≤ 2 * r * m := by
  have h1 := accepted_pairwise h ha hb
  have h2 : 2 * r * |sp.headD 0| ≤ 2 * r * m := by
    apply mul_le_mul_of_nonneg_left hm
    positivity
  linarith

/-- a looser tolerance accepts more -/
theorem accepted_mono {r r' : α} {sp : List α} (hrr : r ≤ r') (h : Accepted r sp) : Accepted r' sp := by
  intro s hs
  have h1 := h s hs
  have h2 : r * |sp.headD 0| ≤ r' * |sp.headD 0| := mul_le_mul_of_nonneg_right hrr (abs_nonneg _)
  linarith

/-- at tolerance zero the acceptance test is the IAST equation: all spreading pressures equal the first -/
theorem accepted_zero_iff (sp : List α) :
    Accepted 0 sp ↔ ∀ i (h : i < sp.length), sp[i] = sp[0]'(by omega) := by
  cases sp with
  | nil => simp [Accepted]
  | cons s0 t =>
    simp only [Accepted, List.headD_cons, zero_mul, abs_nonpos_iff, sub_eq_zero, List.getElem_cons_zero]
    constructor
    · intro h i hi
      exact h _ (List.getElem_mem hi)
    · intro h s hs
      obtain ⟨i, hi, rfl⟩ := List.getElem_of_mem hs
      exact h i hi

/-- … i.e. the residual vector of `spreading_pressure_differences` vanishes -/
theorem accepted_zero_iff_spreadDiffs (sp : List α) : Accepted 0 sp ↔ ∀ d ∈ spreadDiffs sp, d = 0 := by
  rw [accepted_zero_iff, spreadDiffs_zero_iff]

/-- FULL STATEMENT wanted by the property: a returned (= accepted) point has equal spreading pressures.  Proved for the tolerance
zero only; for the `r = 1e-4` of the code see `accepted_not_equal` (the remainder is numerical, measured by the certificate). -/
theorem equal_of_accepted_partial {sp : List α} (h : Accepted 0 sp) {a b : α} (ha : a ∈ sp) (hb : b ∈ sp) : a = b := by
  have := accepted_pairwise h ha hb
  simp only [mul_zero, zero_mul, abs_nonpos_iff, sub_eq_zero] at this
  exact this

end Accept

/-! ## witnesses at ℚ -/

/-- the hypothesis `r = 0` of `equal_of_accepted_partial` is needed: a point accepted at `1e-4` need not have equal spreading pressures -/
theorem accepted_not_equal : ∃ sp : List ℚ, Accepted (1 / 10000) sp ∧ ¬ Accepted 0 sp := by
  refine ⟨[1, 1 + 1 / 10000], ?_, ?_⟩
  · intro s hs
    simp only [List.mem_cons, List.not_mem_nil, or_false] at hs
    rcases hs with rfl | rfl <;> norm_num [List.headD, abs_le]
  · intro h
    have := h (1 + 1 / 10000) (by simp)
    norm_num [List.headD] at this

/-- the point returned for the S50-C13a witness (spreading pressures rounded to 4 digits) is refused by the acceptance test -/
theorem stall_not_accepted : ¬ Accepted (1 / 10000 : ℚ) [648869 / 10000, 410183 / 10000, 244627 / 10000, 145892 / 10000] := by
  intro h
  have := h (410183 / 10000) (by simp)
  norm_num [List.headD, abs_le] at this

/-- … and it is not a root: the residual vector of `spreading_pressure_differences` does not vanish although the root finder reported success -/
theorem stall_residual_ne_zero :
    ¬ ∀ d ∈ spreadDiffs ([648869 / 10000, 410183 / 10000, 244627 / 10000, 145892 / 10000] : List ℚ), d = 0 := by
  rw [← accepted_zero_iff_spreadDiffs]
  intro h
  exact stall_not_accepted (accepted_mono (by norm_num) h)

/-- non-vacuity: a converged point (relative differences 1e-8) is accepted, and its relative spread obeys the bound -/
example : Accepted (1 / 10000 : ℚ) [385484 / 10000, 385484 / 10000 + 1 / 100000000, 385484 / 10000] := by
  intro s hs
  simp only [List.mem_cons, List.not_mem_nil, or_false] at hs
  rcases hs with rfl | rfl | rfl <;> norm_num [List.headD, abs_le]

end PgVerif.Props.C13
