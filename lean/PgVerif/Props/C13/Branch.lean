/-
C13 on the DESORPTION branch of hysteretic point isotherms (`iast_point(..., branch='des')` and the entry points built on it).
The certificate is computed from the RAW stored rows of the whole isotherm, their branch marks and the requested branch
(`PgVerif.Model.Iast.pointCertBranch`, run at ℚ by the `pcertb` op of `Drv/Iast.lean`): selection of the rows of the branch
(`branchRows`), orientation (`orient`: desorption rows are stored in order of decreasing pressure and are reversed), origin guard,
linear interpolation and the exact fold.  Both the spreading pressure AND the pure-component loading of the ideal-mixing rule
come from the rows of the requested branch — a result that equates desorption spreading pressures but mixes with adsorption
loadings (the defect repaired by repository commit 4306ac7) fails the mixing residual.

* I. `branchRows_ads` / `branchRows_des`: a hysteretic isotherm stored as adsorption rows followed by desorption rows;
* J. `pointCertStored_of_increasing` / `_of_decreasing`, `pointCertStored_spec`: what the certificate returns on rows stored in
     either order: the linear interpolant through the rows of the branch and `∫₀^q n(p)/p dp` of it;
* K. `stored_certificate_sound`, `stored_certified_unique`: soundness and uniqueness (history independence) of the certificate for
     branches stored in either order;
* L. `mixing_with_other_loadings_fails`: with the fractions and the total fixed, the ideal-mixing residual vanishes for at most one
     value of a component's pure loading — the loading of the other branch, when different, is detected;
* M. non-vacuity.
-/
import PgVerif.Props.C13.Point
import PgVerif.Props.C11.Branch

namespace PgVerif.Props.C13
open PgVerif.Model PgVerif.Model.Iast PgVerif.C11

/-! ## I. selection of the rows of a branch -/

section I
variable {β : Type}

lemma branchRows_replicate_same (xs : List β) (b : Nat) : branchRows xs (List.replicate xs.length b) b = xs := by
  unfold branchRows
  induction xs with
  | nil => rfl
  | cons x t ih =>
    simp only [List.length_cons, List.replicate_succ, List.zip_cons_cons, List.filter_cons, beq_self_eq_true, if_true,
      List.map_cons]
    rw [ih]

lemma branchRows_replicate_other (xs : List β) (b c : Nat) (h : c ≠ b) :
    branchRows xs (List.replicate xs.length c) b = [] := by
  unfold branchRows
  induction xs with
  | nil => rfl
  | cons x t ih =>
    have : (c == b) = false := by simpa using h
    simp only [List.length_cons, List.replicate_succ, List.zip_cons_cons, List.filter_cons, this]
    exact ih

lemma branchRows_append (xs ys : List β) (m1 m2 : List Nat) (b : Nat) (h : xs.length = m1.length) :
    branchRows (xs ++ ys) (m1 ++ m2) b = branchRows xs m1 b ++ branchRows ys m2 b := by
  unfold branchRows
  rw [List.zip_append h, List.filter_append, List.map_append]

/-- adsorption rows `a` followed by desorption rows `d` (marks 0 … 0 1 … 1): the adsorption branch is `a` -/
theorem branchRows_ads (a d : List β) :
    branchRows (a ++ d) (List.replicate a.length 0 ++ List.replicate d.length 1) 0 = a := by
  rw [branchRows_append a d _ _ 0 (by simp), branchRows_replicate_same, branchRows_replicate_other d 0 1 (by decide),
    List.append_nil]

/-- … and the desorption branch is `d`, in stored order -/
theorem branchRows_des (a d : List β) :
    branchRows (a ++ d) (List.replicate a.length 0 ++ List.replicate d.length 1) 1 = d := by
  rw [branchRows_append a d _ _ 1 (by simp), branchRows_replicate_same, branchRows_replicate_other a 1 0 (by decide),
    List.nil_append]

end I

/-! ## J. the certificate on rows stored in either order -/

theorem pointCertStored_of_increasing {α : Type} [Field α] [LinearOrder α] (ps ls logs : List α) (q lg : α)
    (h : ps.Pairwise (· < ·)) : pointCertStored ps ls logs q lg = pointCert ps ls logs q lg := by
  unfold pointCertStored
  rw [orient_of_increasing ps ls h]

/-- desorption rows as stored (strictly decreasing): the certificate of the reversed rows -/
theorem pointCertStored_of_decreasing {α : Type} [Field α] [LinearOrder α] (ps ls logs : List α) (q lg : α)
    (hlen : 2 ≤ ps.length) (h : ps.Pairwise (· > ·)) :
    pointCertStored ps ls logs q lg = pointCert ps.reverse ls.reverse logs q lg := by
  unfold pointCertStored
  rw [orient_of_decreasing ps ls hlen h]

/-- the whole-isotherm form: adsorption rows `pa, la` followed by strictly decreasing desorption rows `pd, ld`; the certificate
for `branch = 1` is the certificate of the reversed desorption rows, the adsorption rows do not enter -/
theorem pointCertBranch_des {α : Type} [Field α] [LinearOrder α] (pa la pd ld logs : List α) (q lg : α)
    (hla : la.length = pa.length) (hld : ld.length = pd.length) (hlen : 2 ≤ pd.length) (h : pd.Pairwise (· > ·)) :
    pointCertBranch (pa ++ pd) (la ++ ld) (List.replicate pa.length 0 ++ List.replicate pd.length 1) 1 logs q lg =
      pointCert pd.reverse ld.reverse logs q lg := by
  unfold pointCertBranch
  rw [branchRows_des pa pd]
  have := branchRows_des la ld
  rw [hla, hld] at this
  rw [this]
  exact pointCertStored_of_decreasing pd ld logs q lg hlen h

/-- … and for `branch = 0` the certificate of the adsorption rows, the desorption rows do not enter -/
theorem pointCertBranch_ads {α : Type} [Field α] [LinearOrder α] (pa la pd ld logs : List α) (q lg : α)
    (hla : la.length = pa.length) (hld : ld.length = pd.length) (h : pa.Pairwise (· < ·)) :
    pointCertBranch (pa ++ pd) (la ++ ld) (List.replicate pa.length 0 ++ List.replicate pd.length 1) 0 logs q lg =
      pointCert pa la logs q lg := by
  unfold pointCertBranch
  rw [branchRows_ads pa pd]
  have := branchRows_ads la ld
  rw [hla, hld] at this
  rw [this]
  exact pointCertStored_of_increasing pa la logs q lg h

/-- the logarithm inputs of the certificate on stored rows: those of the oriented rows -/
noncomputable def storedLogs (ps ls : List ℝ) : List ℝ := realLogs (orient ps ls).1

noncomputable def storedLastLog (ps ls : List ℝ) (q : ℝ) : ℝ := lastLog (orient ps ls).1 q

/-- what the certificate returns for one component on the rows of a branch stored in either order (positive pressures): the
loading is the piecewise-linear interpolant through THE ROWS OF THAT BRANCH, the spreading pressure is `∫₀^q n(p)/p dp` of that
interpolant, `q` lies in the measured range of the branch -/
theorem pointCertStored_spec (ps ls : List ℝ) (q n s : ℝ) (hne : ps ≠ []) (hpos : ∀ x ∈ ps, 0 < x)
    (hlen : ps.length = ls.length) (hm : StoredMonotone ps)
    (h : pointCertStored ps ls (storedLogs ps ls) q (storedLastLog ps ls q) = some (n, s)) :
    interpLin (orient ps ls).1 (orient ps ls).2 q = some n ∧
      s = ∫ x in (0:ℝ)..q, qInterp (orient ps ls).1 (orient ps ls).2 x / x ∧ s = spreadStored ps ls q := by
  obtain ⟨hne', hp, hl, hs⟩ := orient_admissible ps ls hne hpos hlen hm
  obtain ⟨hge, hle, hI, hint⟩ := pointCert_spec _ _ q n s hne' hp hl hs h
  refine ⟨hI, hint, ?_⟩
  rw [hint]
  exact (spreadFun_eq_integral _ _ q hne' hp hl hs (hp.le.trans hge) hle).symm

/-! ## K. soundness and uniqueness for branches stored in either order -/

/-- every component's branch rows as stored: non-empty, positive pressures in a strictly monotone order, as many loadings -/
def AdmissibleStored (D : List (List ℝ × List ℝ)) : Prop :=
  ∀ d ∈ D, d.1 ≠ [] ∧ (∀ x ∈ d.1, 0 < x) ∧ d.1.length = d.2.length ∧ StoredMonotone d.1

/-- the oriented data of every component -/
noncomputable def orientAll (D : List (List ℝ × List ℝ)) : List (List ℝ × List ℝ) := D.map fun d => orient d.1 d.2

lemma admissible_orientAll (D : List (List ℝ × List ℝ)) (hD : AdmissibleStored D) : Admissible (orientAll D) := by
  intro d hd
  obtain ⟨d0, hd0, rfl⟩ := List.mem_map.mp hd
  obtain ⟨hne, hpos, hlen, hm⟩ := hD d0 hd0
  exact orient_admissible d0.1 d0.2 hne hpos hlen hm

/-- **Soundness of the raw-data certificate on any branch.**  If for every component the certificate computed from the rows of
the requested branch AS STORED returns the same spreading pressure `c` at the fictitious pressure `p_i / x_i`, and the fractions
are positive and sum to one, then `xs` solves the IAST equations for the spreading pressures of the requested branch. -/
theorem stored_certificate_sound (D : List (List ℝ × List ℝ)) (pp xs n0 : List ℝ) (c : ℝ) (hD : AdmissibleStored D)
    (hl1 : D.length = pp.length) (hl2 : xs.length = pp.length) (hl3 : n0.length = pp.length)
    (hsum : xs.sum = 1) (hpos : ∀ x ∈ xs, 0 < x)
    (hc : ∀ i (h1 : i < D.length) (h2 : i < pp.length) (h3 : i < xs.length) (h4 : i < n0.length),
      pointCertStored D[i].1 D[i].2 (storedLogs D[i].1 D[i].2) (pp[i] / xs[i]) (storedLastLog D[i].1 D[i].2 (pp[i] / xs[i]))
        = some (n0[i], c)) :
    Solves (D.map fun d => spreadStored d.1 d.2) pp xs c := by
  have h := point_certificate_sound (orientAll D) pp xs n0 c (admissible_orientAll D hD)
    (by simp [orientAll, hl1]) hl2 hl3 hsum hpos (by
      intro i h1 h2 h3 h4
      have hi : i < D.length := by simpa [orientAll] using h1
      simp only [orientAll, List.getElem_map]
      exact hc i hi h2 h3 h4)
  have e : (D.map fun d => spreadStored d.1 d.2) = (orientAll D).map fun d => spreadFun d.1 d.2 := by
    unfold orientAll
    rw [List.map_map]
    rfl
  rw [e]
  exact h

/-- **The certified result on a branch is determined by the raw rows of that branch.**  (positive loadings) -/
theorem stored_certified_unique (D : List (List ℝ × List ℝ)) (pp xs xs' n0 n0' : List ℝ) (c c' : ℝ)
    (hD : AdmissibleStored D) (hload : ∀ d ∈ D, ∀ l ∈ d.2, 0 < l) (hpp : ∀ p ∈ pp, 0 < p)
    (hl1 : D.length = pp.length) (hl2 : xs.length = pp.length) (hl3 : n0.length = pp.length)
    (hl2' : xs'.length = pp.length) (hl3' : n0'.length = pp.length)
    (hsum : xs.sum = 1) (hpos : ∀ x ∈ xs, 0 < x) (hsum' : xs'.sum = 1) (hpos' : ∀ x ∈ xs', 0 < x)
    (hc : ∀ i (h1 : i < D.length) (h2 : i < pp.length) (h3 : i < xs.length) (h4 : i < n0.length),
      pointCertStored D[i].1 D[i].2 (storedLogs D[i].1 D[i].2) (pp[i] / xs[i]) (storedLastLog D[i].1 D[i].2 (pp[i] / xs[i]))
        = some (n0[i], c))
    (hc' : ∀ i (h1 : i < D.length) (h2 : i < pp.length) (h3 : i < xs'.length) (h4 : i < n0'.length),
      pointCertStored D[i].1 D[i].2 (storedLogs D[i].1 D[i].2) (pp[i] / xs'[i]) (storedLastLog D[i].1 D[i].2 (pp[i] / xs'[i]))
        = some (n0'[i], c')) :
    xs = xs' ∧ c = c' ∧ n0 = n0' := by
  refine point_certified_unique (orientAll D) pp xs xs' n0 n0' c c' (admissible_orientAll D hD) ?_ hpp
    (by simp [orientAll, hl1]) hl2 hl3 hl2' hl3' hsum hpos hsum' hpos' ?_ ?_
  · intro d hd l hl
    obtain ⟨d0, hd0, rfl⟩ := List.mem_map.mp hd
    exact hload d0 hd0 l ((orient_perm d0.1 d0.2).2.subset hl)
  · intro i h1 h2 h3 h4
    have hi : i < D.length := by simpa [orientAll] using h1
    simp only [orientAll, List.getElem_map]
    exact hc i hi h2 h3 h4
  · intro i h1 h2 h3 h4
    have hi : i < D.length := by simpa [orientAll] using h1
    simp only [orientAll, List.getElem_map]
    exact hc' i hi h2 h3 h4

/-! ## L. the ideal-mixing rule tells the branches apart -/

/-- Two components, fractions `x₀, x₁ ≠ 0`, pure loadings `a` (component 0) and `n₁`: if the total passes the ideal-mixing rule with
`a` it does not pass it with another loading `b ≠ a` of component 0 (e.g. the loading read on the other branch at the same
fictitious pressure). -/
theorem mixing_with_other_loadings_fails {α : Type} [Field α] (x0 x1 a b n1 total : α) (hx0 : x0 ≠ 0) (ha : a ≠ 0)
    (hb : b ≠ 0) (hab : a ≠ b) (h : mixingResidual [x0, x1] [a, n1] total = 0) :
    mixingResidual [x0, x1] [b, n1] total ≠ 0 := by
  intro h'
  simp only [mixingResidual, inverseLoading, List.zipWith_cons_cons, List.zipWith_nil_right, List.sum_cons, List.sum_nil,
    add_zero] at h h'
  have e : x0 / a = x0 / b := by linear_combination h' - h
  rw [div_eq_div_iff ha hb] at e
  exact hab (mul_left_cancel₀ hx0 e).symm

/-! ## M. non-vacuity -/

/-- a hysteretic isotherm: adsorption rows `(1,1), (2,3/2), (4,2)`, then desorption rows `(3, 19/10), (1/2, 1)` -/
example : branchRows [(1 : ℚ), 2, 4, 3, 1 / 2] [0, 0, 0, 1, 1] 1 = [3, 1 / 2] ∧
    branchRows [(1 : ℚ), 2, 4, 3, 1 / 2] [0, 0, 0, 1, 1] 0 = [1, 2, 4] := by
  constructor <;> decide +kernel

/-- certificate on the desorption branch at `q = 2` (from the reversed rows `(1/2, 1), (3, 19/10)`: loading `77/50`), on the
adsorption branch at `q = 3` (loading `7/4`): different rows, different numbers -/
example : pointCertBranch [(1 : ℚ), 2, 4, 3, 1 / 2] [1, 3 / 2, 2, 19 / 10, 1] [0, 0, 0, 1, 1] 1 [7 / 10] 2 (1 / 2)
    = some (77 / 50, 39 / 20) := by decide +kernel

example : pointCertBranch [(1 : ℚ), 2, 4, 3, 1 / 2] [1, 3 / 2, 2, 19 / 10, 1] [0, 0, 0, 1, 1] 0 [7 / 10, 7 / 10] 3 (2 / 5)
    = some (7 / 4, 5 / 2) := by decide +kernel

/-- the stored desorption rows of that isotherm are admissible -/
example : AdmissibleStored [([3, 1 / 2], [19 / 10, 1])] := by
  intro d hd
  simp only [List.mem_singleton] at hd
  subst hd
  refine ⟨by simp, ?_, by simp, Or.inr ⟨by simp, ?_⟩⟩
  · intro x hx; simp at hx; rcases hx with rfl | rfl <;> norm_num
  · simp only [List.pairwise_cons, List.mem_singleton, forall_eq, List.not_mem_nil, IsEmpty.forall_iff, implies_true,
      List.Pairwise.nil, and_true]
    norm_num

/-- mixing with the loading of the other branch: residual `0` with `2`, not with `3/2` -/
example : mixingResidual [(1 / 2 : ℚ), 1 / 2] [2, 6] 3 = 0 ∧ mixingResidual [(1 / 2 : ℚ), 1 / 2] [3 / 2, 6] 3 ≠ 0 := by
  constructor <;> norm_num [mixingResidual, inverseLoading]

end PgVerif.Props.C13
