/-
C13 for mixtures of POINT isotherms: the certificate computed from the raw data (`PgVerif.Model.Iast.pointCert`,
`fractionsOf`, `spreadDiffs`, `mixingResidual`; run at ℚ by the `pcert` / `resid` ops of `Drv/Iast.lean`) decides the
IAST equations for the piecewise-linear isotherms through the data, and the solution it certifies is determined by the
raw data and the partial pressures alone — so a result that depends on what was asked from the isotherm OBJECTS before
(a cached interpolator of another kind, branch or fill value) fails the certificate for at least one history.

* E. certificate arithmetic over any field: fractions recomputed from returned loadings, zero residual vector of
     `spreading_pressure_differences` ⇔ equal spreading pressures, zero mixing residual ⇔ ideal-mixing total;
* F. `solution_unique_on`: uniqueness when the spreading pressures are strictly increasing only on the measured range;
* G. point isotherms: origin guard, `spreadFun_strictMonoOn` (positive loadings), `pointCert_spec` (the certificate
     returns the linear interpolant and `∫₀^q n(p)/p dp` of the Henry-continued interpolant, `PgVerif.C11`),
     `point_certificate_sound` (certificate ⇒ `Solves`), `point_certified_unique` (history independence);
* H. non-vacuity examples.
-/
import PgVerif.Model.IastPoint
import PgVerif.Props.C13
import PgVerif.Props.C11.Point
import Mathlib.Tactic

namespace PgVerif.Props.C13
open PgVerif.Model PgVerif.Model.Iast PgVerif.C11

/-! ## E. the certificate arithmetic (any field) -/

section E
variable {α : Type} [Field α]

/-- the mole fractions recomputed from a returned loading vector sum to one -/
theorem fractionsOf_sum (loads : List α) (h : loads.sum ≠ 0) : (fractionsOf loads).sum = 1 := by
  unfold fractionsOf
  simp only [div_eq_mul_inv]
  rw [List.sum_map_mul_right, List.map_id']
  exact mul_inv_cancel₀ h

/-- applied to the loadings of `iast_point`, `fractionsOf` gives back the solver's fractions -/
theorem fractionsOf_loadings (x n0 : List α) (hinv : inverseLoading x n0 ≠ 0) (hx : x.sum = 1) :
    fractionsOf (loadings x n0) = x := by
  unfold fractionsOf
  exact loadings_fraction_of_sum x n0 hinv hx

/-- zero residual vector of `spreading_pressure_differences` ⇔ all spreading pressures are equal (to the first) -/
theorem spreadDiffs_zero_iff (sp : List α) :
    (∀ d ∈ spreadDiffs sp, d = 0) ↔ ∀ i (h : i < sp.length), sp[i] = sp[0]'(by omega) := by
  constructor
  · intro hd i
    induction i with
    | zero => intro h; rfl
    | succ i ih =>
      intro h
      have hi : i < sp.length := by omega
      have hlen : i < (spreadDiffs sp).length := by
        simp only [spreadDiffs, List.length_zipWith, List.length_tail]; omega
      have h0 := hd _ (List.getElem_mem hlen)
      simp only [spreadDiffs, List.getElem_zipWith, List.getElem_tail] at h0
      rw [← ih hi]
      exact (sub_eq_zero.mp h0).symm
  · intro h d hd
    obtain ⟨i, hi, rfl⟩ := List.getElem_of_mem hd
    have hi' : i + 1 < sp.length := by
      simp only [spreadDiffs, List.length_zipWith, List.length_tail] at hi; omega
    simp only [spreadDiffs, List.getElem_zipWith, List.getElem_tail]
    rw [h i (by omega), h (i + 1) hi', sub_self]

/-- zero mixing residual ⇔ the returned total loading is the ideal-mixing total -/
theorem mixingResidual_zero_iff (x n0 : List α) (total : α) (ht : total ≠ 0) (hinv : inverseLoading x n0 ≠ 0) :
    mixingResidual x n0 total = 0 ↔ total = totalLoading x n0 := by
  have _ := ht
  have _ := hinv
  unfold mixingResidual totalLoading
  rw [sub_eq_zero]
  constructor
  · intro h; rw [← h, one_div_one_div]
  · intro h; rw [h, one_div_one_div]

end E

/-! ## F. uniqueness on a restricted domain -/

/-- `solution_unique` when the spreading pressures are only known to be strictly increasing on a set `D i` per
component (a point isotherm: up to its last measured pressure) and both solutions keep their fictitious pressures
inside. -/
theorem solution_unique_on (πs : List (ℝ → ℝ)) (D : ℕ → Set ℝ) (ps xs xs' : List ℝ) (c c' : ℝ)
    (hπ : ∀ i (h : i < πs.length), StrictMonoOn πs[i] (D i)) (hp : ∀ p ∈ ps, 0 < p)
    (h : Solves πs ps xs c) (h' : Solves πs ps xs' c')
    (hD : ∀ i (h2 : i < ps.length) (h3 : i < xs.length), ps[i] / xs[i] ∈ D i)
    (hD' : ∀ i (h2 : i < ps.length) (h3 : i < xs'.length), ps[i] / xs'[i] ∈ D i) : xs = xs' ∧ c = c' := by
  obtain ⟨hl1, hl2, hs, hpos, -⟩ := id h
  obtain ⟨-, hl2', hs', hpos', -⟩ := id h'
  have hne := ne_nil_of_sum_eq_one xs hs
  have hlen : xs.length = xs'.length := hl2.trans hl2'.symm
  have cmp : ∀ i (h3 : i < xs.length) (h3' : i < xs'.length),
      (c < c' ↔ xs'[i] < xs[i]) ∧ (c' < c ↔ xs[i] < xs'[i]) ∧ (c = c' → xs[i] = xs'[i]) := by
    intro i h3 h3'
    have h2 : i < ps.length := hl2 ▸ h3
    have h1 : i < πs.length := hl1 ▸ h2
    have hm := hπ i h1
    have hpi := hp _ (List.getElem_mem h2)
    have hxi := hpos _ (List.getElem_mem h3)
    have hxi' := hpos' _ (List.getElem_mem h3')
    have e := h.point i h1 h2 h3
    have e' := h'.point i h1 h2 h3'
    have m : ps[i] / xs[i] ∈ D i := hD i h2 h3
    have m' : ps[i] / xs'[i] ∈ D i := hD' i h2 h3'
    refine ⟨?_, ?_, ?_⟩
    · rw [← e, ← e', hm.lt_iff_lt m m', div_lt_div_iff_of_pos_left hpi hxi hxi']
    · rw [← e, ← e', hm.lt_iff_lt m' m, div_lt_div_iff_of_pos_left hpi hxi' hxi]
    · intro hcc
      have : ps[i] / xs[i] = ps[i] / xs'[i] := hm.injOn m m' (by rw [e, e', hcc])
      field_simp at this
      linarith
  have hxs : xs = xs' := by
    apply eq_of_sum_eq_of_trichotomy xs xs' hlen hne (hs.trans hs'.symm)
    rcases lt_trichotomy c c' with hc | hc | hc
    · exact Or.inr (Or.inl fun i h3 h3' => ((cmp i h3 h3').1).mp hc)
    · exact Or.inr (Or.inr fun i h3 h3' => (cmp i h3 h3').2.2 hc)
    · exact Or.inl fun i h3 h3' => ((cmp i h3 h3').2.1).mp hc
  refine ⟨hxs, ?_⟩
  subst hxs
  have h3 : 0 < xs.length := List.length_pos_iff.mpr hne
  have h2 : 0 < ps.length := hl2 ▸ h3
  have h1 : 0 < πs.length := hl1 ▸ h2
  rw [← h.point 0 h1 h2 h3, ← h'.point 0 h1 h2 h3]

/-! ## G. point isotherms -/

/-- data with a positive first pressure pass the origin guard unchanged -/
theorem dropOrigin_of_pos (ps ls : List ℝ) (hne : ps ≠ []) (hpos : 0 < ps.head hne) : dropOrigin ps ls = (ps, ls) := by
  rcases ps with _ | ⟨p0, _ | ⟨p1, ps⟩⟩ <;> rcases ls with _ | ⟨l0, _ | ⟨l1, ls⟩⟩ <;>
    simp only [dropOrigin]
  have : p0 ≠ 0 := by simpa using hpos.ne'
  simp [this]

/-- a measured origin `(0, 0)` is dropped -/
theorem dropOrigin_origin (p1 l1 : ℝ) (ps ls : List ℝ) :
    dropOrigin (0 :: p1 :: ps) (0 :: l1 :: ls) = (p1 :: ps, l1 :: ls) := by
  simp [dropOrigin]

/-- the certificate on data with a measured origin is the certificate on the data without it -/
theorem pointCert_origin (p1 l1 : ℝ) (ps ls logs : List ℝ) (q lg : ℝ) (hp1 : 0 < p1) :
    pointCert (0 :: p1 :: ps) (0 :: l1 :: ls) logs q lg = pointCert (p1 :: ps) (l1 :: ls) logs q lg := by
  unfold pointCert
  rw [dropOrigin_origin, dropOrigin_of_pos (p1 :: ps) (l1 :: ls) (by simp) (by simpa using hp1)]

/-- positive loadings give a positive interpolant on `(0, ps.getLast]` -/
lemma qInterp_pos (ps ls : List ℝ) (hne : ps ≠ []) (hpos : 0 < ps.head hne) (hlen : ps.length = ls.length)
    (hs : ps.Pairwise (· < ·)) (hl : ∀ l ∈ ls, 0 < l) {x : ℝ} (hx0 : 0 < x) (hxl : x ≤ ps.getLast hne) :
    0 < qInterp ps ls x := by
  rw [head_eq_gd hne] at hpos
  have hlenpos : 0 < ps.length := List.length_pos_iff.mpr hne
  have hlp : ∀ i, i < ls.length → 0 < ls.getD i 0 := fun i hi => hl _ (gd_mem hi)
  by_cases hx : x ≤ ps.getD 0 0
  · rw [qInterp_below ps ls hx]
    exact mul_pos (div_pos (hlp 0 (by omega)) hpos) hx0
  · have hx' := not_le.mp hx
    have hk := nBelow_lt_length_of_le_last hs hne hxl
    obtain ⟨j, hj⟩ : ∃ j, nBelow ps x = j + 1 := Nat.exists_eq_succ_of_ne_zero (nBelow_ne_zero hpos hx')
    have hlo : ps.getD j 0 < x := gd_lt_of_lt_nBelow hs (by omega)
    have hhi : x ≤ ps.getD (j + 1) 0 := le_gd_of_nBelow_le hs (by omega) (by omega)
    rw [qInterp_segment_Ioc ls hs (by omega) hlo hhi]
    have hba : 0 < ps.getD (j + 1) 0 - ps.getD j 0 := sub_pos.mpr (lt_of_lt_of_le hlo hhi)
    have e : chord (ps.getD j 0) (ls.getD j 0) (ps.getD (j + 1) 0) (ls.getD (j + 1) 0) x =
        (ls.getD j 0 * (ps.getD (j + 1) 0 - x) + ls.getD (j + 1) 0 * (x - ps.getD j 0)) /
          (ps.getD (j + 1) 0 - ps.getD j 0) := by
      unfold chord; field_simp; ring
    rw [e]
    exact div_pos (add_pos_of_nonneg_of_pos (mul_nonneg (hlp j (by omega)).le (sub_nonneg.mpr hhi))
      (mul_pos (hlp (j + 1) (by omega)) (sub_pos.mpr hlo))) hba

/-- a successful interpolation is at or above the first knot -/
lemma interpLin_ge_head {ps ls : List ℝ} {p lq : ℝ} (h : interpLin ps ls p = some lq) : ps.getD 0 0 ≤ p := by
  rcases ps with _ | ⟨p0, _ | ⟨p1, ps⟩⟩ <;> rcases ls with _ | ⟨l0, _ | ⟨l1, ls⟩⟩ <;>
    simp only [interpLin] at h <;> try contradiction
  · split_ifs at h with hx
    simp [hx]
  · by_contra hc
    rw [if_pos (by simpa using hc)] at h
    exact absurd h (by simp)

/-- positive loadings: the spreading pressure of the piecewise-linear isotherm is strictly increasing up to the last
measured pressure -/
theorem spreadFun_strictMonoOn (ps ls : List ℝ) (hne : ps ≠ []) (hpos : 0 < ps.head hne) (hlen : ps.length = ls.length)
    (hs : ps.Pairwise (· < ·)) (hl : ∀ l ∈ ls, 0 < l) :
    StrictMonoOn (spreadFun ps ls) (Set.Icc 0 (ps.getLast hne)) := by
  intro a ha b hb hab
  have hI := spreadPoint_additive ps ls a b hne hpos hlen hs ha.1 hab.le hb.2
  have hint : IntervalIntegrable (fun x => qInterp ps ls x / x) MeasureTheory.volume a b :=
    (qInterp_intervalIntegrable ps ls a hne hpos hs ha.1 ha.2).symm.trans
      (qInterp_intervalIntegrable ps ls b hne hpos hs hb.1 hb.2)
  have hp := intervalIntegral.intervalIntegral_pos_of_pos_on hint
    (fun x hx => div_pos (qInterp_pos ps ls hne hpos hlen hs hl (lt_of_le_of_lt ha.1 hx.1) (hx.2.le.trans hb.2))
      (lt_of_le_of_lt ha.1 hx.1)) hab
  linarith

/-- what the raw-data certificate returns for one component (first pressure positive): the loading is the
piecewise-linear interpolant, the spreading pressure is `∫₀^q n(p)/p dp` of that interpolant, `q` lies in the
measured range -/
theorem pointCert_spec (ps ls : List ℝ) (q n s : ℝ) (hne : ps ≠ []) (hpos : 0 < ps.head hne)
    (hlen : ps.length = ls.length) (hs : ps.Pairwise (· < ·))
    (h : pointCert ps ls (realLogs ps) q (lastLog ps q) = some (n, s)) :
    ps.head hne ≤ q ∧ q ≤ ps.getLast hne ∧ interpLin ps ls q = some n ∧
      s = ∫ x in (0:ℝ)..q, qInterp ps ls x / x := by
  have hd := dropOrigin_of_pos ps ls hne hpos
  unfold pointCert at h
  rw [hd] at h
  simp only at h
  cases hI : interpLin ps ls q with
  | none => rw [hI] at h; simp at h
  | some lq =>
    rw [hI] at h
    simp only [Option.map_eq_some_iff] at h
    obtain ⟨s', hs', he⟩ := h
    obtain ⟨rfl, rfl⟩ := Prod.mk.inj he
    have hge := interpLin_ge_head hI
    rw [← head_eq_gd hne] at hge
    have hq0 : 0 ≤ q := hpos.le.trans hge
    have hsp := spreadPoint_eq_integral ps ls q lq hne hpos hlen hs hq0 (fun _ => hI)
    rw [hsp] at hs'
    refine ⟨hge, ?_, rfl, (Option.some.inj hs').symm⟩
    rw [getLast_eq_gd hne]
    have hlenpos : 0 < ps.length := List.length_pos_iff.mpr hne
    rcases hge.eq_or_lt with heq | hlt
    · rw [← heq, head_eq_gd hne]; exact gd_le hs (Nat.zero_le _) (by omega)
    · have hk := (interpLin_spec hs hI (by rw [← head_eq_gd hne]; exact hlt)).1
      exact (le_gd_of_nBelow_le hs le_rfl hk).trans (gd_le hs (by omega) (by omega))

/-- every component's data are admissible: non-empty, positive strictly increasing pressures, as many loadings -/
def Admissible (D : List (List ℝ × List ℝ)) : Prop :=
  ∀ d ∈ D, ∃ hne : d.1 ≠ [], 0 < d.1.head hne ∧ d.1.length = d.2.length ∧ d.1.Pairwise (· < ·)

/-- **Soundness of the raw-data certificate.**  If for every component the certificate at the fictitious pressure
`p_i / x_i` returns the same spreading pressure `c` (zero `spreadDiffs`), and the fractions are positive and sum to
one, then `xs` solves the IAST equations for the spreading pressures `∫₀^q n_i(p)/p dp` of the piecewise-linear
isotherms through the raw data — independently of any isotherm object. -/
theorem point_certificate_sound (D : List (List ℝ × List ℝ)) (pp xs n0 : List ℝ) (c : ℝ) (hD : Admissible D)
    (hl1 : D.length = pp.length) (hl2 : xs.length = pp.length) (hl3 : n0.length = pp.length)
    (hsum : xs.sum = 1) (hpos : ∀ x ∈ xs, 0 < x)
    (hc : ∀ i (h1 : i < D.length) (h2 : i < pp.length) (h3 : i < xs.length) (h4 : i < n0.length),
      pointCert D[i].1 D[i].2 (realLogs D[i].1) (pp[i] / xs[i]) (lastLog D[i].1 (pp[i] / xs[i])) = some (n0[i], c)) :
    Solves (D.map fun d => spreadFun d.1 d.2) pp xs c := by
  refine ⟨by simp [hl1], hl2, hsum, hpos, ?_⟩
  intro i h1 h2
  have hi : i < D.length := by simpa using h1
  have h2' : i < pp.length := by omega
  have h3 : i < xs.length := by omega
  have h4 : i < n0.length := by omega
  obtain ⟨hne, hp, hlen, hs⟩ := hD _ (List.getElem_mem hi)
  obtain ⟨hge, hle, -, hint⟩ := pointCert_spec _ _ _ _ _ hne hp hlen hs (hc i hi h2' h3 h4)
  simp only [List.getElem_map, fictitious, List.getElem_zipWith]
  rw [spreadFun_eq_integral _ _ _ hne hp hlen hs (hp.le.trans hge) hle, hint]

/-- **The certified result is determined by the raw data.**  Two results that both pass the raw-data certificate for
the same data and partial pressures (e.g. obtained from isotherm objects with different query histories) have the
same mole fractions and the same spreading pressure; with positive loadings. -/
theorem point_certified_unique (D : List (List ℝ × List ℝ)) (pp xs xs' n0 n0' : List ℝ) (c c' : ℝ) (hD : Admissible D)
    (hload : ∀ d ∈ D, ∀ l ∈ d.2, 0 < l) (hpp : ∀ p ∈ pp, 0 < p)
    (hl1 : D.length = pp.length) (hl2 : xs.length = pp.length) (hl3 : n0.length = pp.length)
    (hl2' : xs'.length = pp.length) (hl3' : n0'.length = pp.length)
    (hsum : xs.sum = 1) (hpos : ∀ x ∈ xs, 0 < x) (hsum' : xs'.sum = 1) (hpos' : ∀ x ∈ xs', 0 < x)
    (hc : ∀ i (h1 : i < D.length) (h2 : i < pp.length) (h3 : i < xs.length) (h4 : i < n0.length),
      pointCert D[i].1 D[i].2 (realLogs D[i].1) (pp[i] / xs[i]) (lastLog D[i].1 (pp[i] / xs[i])) = some (n0[i], c))
    (hc' : ∀ i (h1 : i < D.length) (h2 : i < pp.length) (h3 : i < xs'.length) (h4 : i < n0'.length),
      pointCert D[i].1 D[i].2 (realLogs D[i].1) (pp[i] / xs'[i]) (lastLog D[i].1 (pp[i] / xs'[i])) = some (n0'[i], c')) :
    xs = xs' ∧ c = c' ∧ n0 = n0' := by
  have S := point_certificate_sound D pp xs n0 c hD hl1 hl2 hl3 hsum hpos hc
  have S' := point_certificate_sound D pp xs' n0' c' hD hl1 hl2' hl3' hsum' hpos' hc'
  let Dom : ℕ → Set ℝ := fun i =>
    {q | ∀ (h : i < D.length) (hne : D[i].1 ≠ []), q ∈ Set.Icc 0 (D[i].1.getLast hne)}
  have hmono : ∀ i (h : i < (D.map fun d => spreadFun d.1 d.2).length),
      StrictMonoOn (D.map fun d => spreadFun d.1 d.2)[i] (Dom i) := by
    intro i h
    have hi : i < D.length := by simpa using h
    obtain ⟨hne, hp, hlen, hs⟩ := hD _ (List.getElem_mem hi)
    rw [List.getElem_map]
    exact (spreadFun_strictMonoOn _ _ hne hp hlen hs (hload _ (List.getElem_mem hi))).mono
      (fun q hq => hq hi hne)
  have hdom : ∀ i (h2 : i < pp.length) (h3 : i < xs.length), pp[i] / xs[i] ∈ Dom i := by
    intro i h2 h3 hi hne
    obtain ⟨_, hp, hlen, hs⟩ := hD _ (List.getElem_mem hi)
    obtain ⟨hge, hle, -, -⟩ := pointCert_spec _ _ _ _ _ hne hp hlen hs (hc i hi h2 h3 (by omega))
    exact ⟨hp.le.trans hge, hle⟩
  have hdom' : ∀ i (h2 : i < pp.length) (h3 : i < xs'.length), pp[i] / xs'[i] ∈ Dom i := by
    intro i h2 h3 hi hne
    obtain ⟨_, hp, hlen, hs⟩ := hD _ (List.getElem_mem hi)
    obtain ⟨hge, hle, -, -⟩ := pointCert_spec _ _ _ _ _ hne hp hlen hs (hc' i hi h2 h3 (by omega))
    exact ⟨hp.le.trans hge, hle⟩
  obtain ⟨hx, hcc⟩ := solution_unique_on _ Dom pp xs xs' c c' hmono hpp S S' hdom hdom'
  subst hx
  subst hcc
  refine ⟨rfl, rfl, ?_⟩
  apply List.ext_getElem (by omega)
  intro i h4 h4'
  have a := hc i (by omega) (by omega) (by omega) h4
  have b := hc' i (by omega) (by omega) (by omega) h4'
  rw [a] at b
  exact (Prod.mk.inj (Option.some.inj b)).1

/-! ## H. non-vacuity -/

example : fractionsOf [(1 : ℚ), 3] = [1 / 4, 3 / 4] := by norm_num [fractionsOf]

example : spreadDiffs [(5 : ℚ), 5, 5] = [0, 0] := by norm_num [spreadDiffs]

example : mixingResidual [(1 / 4 : ℚ), 3 / 4] [2, 6] 4 = 0 := by norm_num [mixingResidual, inverseLoading]

/-- data `(1,1), (2,3/2), (4,2)`, `q = 3`: loading `7/4`; with logarithm inputs `7/10`, `2/5` the fold gives `5/2` -/
example : pointCert [(1 : ℚ), 2, 4] [1, 3 / 2, 2] [7 / 10, 7 / 10] 3 (2 / 5) = some (7 / 4, 5 / 2) := by
  decide +kernel

end PgVerif.Props.C13
