/-
C13, the selectivity helper `iast_binary_svp` as a function of the SEQUENCE of pressures it is given (round 8, change C13-m15).

The helper is a map of the point calculation over the pressures, reported beside the pressures in the caller's order.  The clause of the
property — "the selectivity helper returns exactly what the point calculation gives" — is a statement about every ROW, whatever the order of
the rows and however often a pressure occurs.  The model is deliberately small (no IAST inside: `point` is any function), so that what is
proved is exactly the bookkeeping the seeded change broke:

* `svp`                         the helper: rows `(p, point p)` in the order of the argument;
* `svp_length`, `svp_row`       one row per pressure, row `i` belongs to pressure `i`;
* `svp_reverse`, `svp_perm`     equivariance: re-ordering the pressures re-orders the rows and changes none of them;
* `svp_repeat`                  a pressure that occurs twice gives two equal rows;
* `svpSortedReported`           the defect class of C13-m15: the values are computed along the SORTED pressures and reported beside the
                                pressures as given;
* `svpSortedReported_sorted`    on an already sorted argument (the only kind the repository's tests use: `numpy.linspace`) the defect is
                                invisible;
* `svpSortedReported_witness`   on a decreasing argument it reports the value of another pressure (kernel-checked at ℕ).

The tie to the code is the section "argument SEQUENCES in any order" of harness/props/c13.py (each row against `iast_point` at ITS
pressure, 1e-9; pressures reported in the order passed; a repeated pressure gives identical rows).
-/
import Mathlib.Data.List.Sort
import Mathlib.Data.List.Perm.Basic
import Mathlib.Tactic

namespace PgVerif.Props.C13.Order

variable {α β : Type}

/-- `iast_binary_svp`: the point calculation at every pressure, in the order of the argument. -/
def svp (point : α → β) (ps : List α) : List (α × β) := ps.map (fun p => (p, point p))

theorem svp_length (point : α → β) (ps : List α) : (svp point ps).length = ps.length := by
  simp [svp]

/-- Row `i` is the point calculation at pressure `i`. -/
theorem svp_row (point : α → β) (ps : List α) (i : Nat) :
    (svp point ps)[i]? = (ps[i]?).map (fun p => (p, point p)) := by
  simp [svp]

/-- Reversing the pressures reverses the rows (and changes none). -/
theorem svp_reverse (point : α → β) (ps : List α) : svp point ps.reverse = (svp point ps).reverse := by
  simp [svp, List.map_reverse]

/-- Any re-ordering of the pressures is the same re-ordering of the rows. -/
theorem svp_perm (point : α → β) {ps qs : List α} (h : ps.Perm qs) : (svp point ps).Perm (svp point qs) :=
  h.map _

/-- A pressure that occurs twice gives two equal rows. -/
theorem svp_repeat (point : α → β) (ps : List α) (i j : Nat) (p : α) (hi : ps[i]? = some p) (hj : ps[j]? = some p) :
    (svp point ps)[i]? = (svp point ps)[j]? := by
  rw [svp_row, svp_row, hi, hj]

private theorem zip_map_self (f : α → β) (ps : List α) : ps.zip (ps.map f) = ps.map (fun p => (p, f p)) := by
  induction ps with
  | nil => rfl
  | cons a as ih => simp [ih]

/-- The defect class of C13-m15: values computed along the sorted pressures, reported beside the pressures as given. -/
def svpSortedReported [LinearOrder α] (point : α → β) (ps : List α) : List (α × β) :=
  ps.zip ((ps.insertionSort (· ≤ ·)).map point)

/-- On an argument that is already sorted the defect cannot be seen. -/
theorem svpSortedReported_sorted [LinearOrder α] (point : α → β) (ps : List α) (h : ps.Pairwise (· ≤ ·)) :
    svpSortedReported point ps = svp point ps := by
  have hs : ps.insertionSort (· ≤ ·) = ps := List.Pairwise.insertionSort_eq h
  unfold svpSortedReported svp
  rw [hs, zip_map_self]

/-- On a decreasing argument the row of a pressure carries the value of another pressure. -/
theorem svpSortedReported_witness :
    svpSortedReported (fun p : Nat => 10 * p) [3, 1, 2] = [(3, 10), (1, 20), (2, 30)]
    ∧ svp (fun p : Nat => 10 * p) [3, 1, 2] = [(3, 30), (1, 10), (2, 20)] := by
  decide

/-- Non-vacuity of `svp_repeat`: the pressure 5 occurs at positions 0 and 2. -/
example : (svp (fun p : Nat => p + 1) [5, 7, 5])[0]? = (svp (fun p : Nat => p + 1) [5, 7, 5])[2]? :=
  svp_repeat _ _ 0 2 5 rfl rfl

end PgVerif.Props.C13.Order
