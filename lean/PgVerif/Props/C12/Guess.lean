/-
C12 (continued) — the loop of `ModelIsotherm.guess` with candidates that fail, and error-from-cost.

* G. `guessIdx` (Model/Fit.lean): candidates tried in order, failed fits (`none`) leave no attempt; the model returned is the
     converged candidate with the smallest reported error, the FIRST such one in candidate order; failed candidates are
     transparent wherever they stand in the list; nothing is returned iff every candidate failed.
* H. an error derived from the optimiser's cost equals the reported error only for the linear loss; for a robust loss
     (`ρ z < z` for `z > 0`) it understates the deviation as soon as one residual is non-zero.
-/
import PgVerif.Props.C12
import Mathlib.Algebra.Order.BigOperators.Group.List

namespace PgVerif.Props.C12
open PgVerif.Model.Fit

/-! ## G. the loop of `ModelIsotherm.guess` -/

section guessHelpers
variable {α : Type}

lemma attemptsFrom_mem (cs : List (Option α)) : ∀ (i j : Nat) (e : α),
    (j, e) ∈ attemptsFrom i cs ↔ ∃ k, j = i + k ∧ cs[k]? = some (some e) := by
  induction cs with
  | nil => intro i j e; simp [attemptsFrom]
  | cons c cs ih =>
    intro i j e
    cases c with
    | none =>
      simp only [attemptsFrom]
      rw [ih]
      constructor
      · rintro ⟨k, rfl, hk⟩; exact ⟨k + 1, by omega, by simpa using hk⟩
      · rintro ⟨k, rfl, hk⟩
        cases k with
        | zero => simp at hk
        | succ k => exact ⟨k, by omega, by simpa using hk⟩
    | some a =>
      simp only [attemptsFrom, List.mem_cons]
      rw [ih]
      constructor
      · rintro (h | ⟨k, rfl, hk⟩)
        · obtain ⟨rfl, rfl⟩ := Prod.mk.inj h
          exact ⟨0, by simp, by simp⟩
        · exact ⟨k + 1, by omega, by simpa using hk⟩
      · rintro ⟨k, rfl, hk⟩
        cases k with
        | zero =>
          left
          simp only [List.getElem?_cons_zero, Option.some.injEq] at hk
          simp [hk]
        | succ k => right; exact ⟨k, by omega, by simpa using hk⟩

lemma attemptsFrom_lb (cs : List (Option α)) (i : Nat) : ∀ a ∈ attemptsFrom i cs, i ≤ a.1 := by
  rintro ⟨j, e⟩ h
  obtain ⟨k, rfl, -⟩ := (attemptsFrom_mem cs i j e).mp h
  simp

lemma attemptsFrom_pairwise (cs : List (Option α)) : ∀ i, (attemptsFrom i cs).Pairwise (fun a b => a.1 < b.1) := by
  induction cs with
  | nil => intro i; simp [attemptsFrom]
  | cons c cs ih =>
    intro i
    cases c with
    | none => simpa [attemptsFrom] using ih (i + 1)
    | some a =>
      simp only [attemptsFrom]
      refine List.pairwise_cons.mpr ⟨fun b hb => ?_, ih (i + 1)⟩
      have := attemptsFrom_lb cs (i + 1) b hb
      simp only
      omega

/-- positions in the list of attempts are increasing with the position in the candidate list -/
lemma attemptsFrom_mono (cs : List (Option α)) (i : Nat) (k k' : Nat) (hk : k < (attemptsFrom i cs).length)
    (hk' : k' < (attemptsFrom i cs).length) (h : ((attemptsFrom i cs)[k]).1 < ((attemptsFrom i cs)[k']).1) : k < k' := by
  by_contra hn
  rcases Nat.lt_or_ge k' k with h1 | h1
  · have := (List.pairwise_iff_getElem.mp (attemptsFrom_pairwise cs i)) k' k hk' hk h1
    omega
  · have : k = k' := by omega
    subst this
    omega

end guessHelpers

section guess
variable {α : Type} [LinearOrder α]

lemma guessIdx_def (cs : List (Option α)) :
    guessIdx cs = (bestIdx ((attemptsFrom 0 cs).map (·.2))).bind (fun k => ((attemptsFrom 0 cs)[k]?).map (·.1)) := by
  unfold guessIdx
  simp only []
  cases h : bestIdx ((attemptsFrom 0 cs).map (·.2)) <;> simp

omit [LinearOrder α] in
lemma attemptsFrom_eq_nil_iff (cs : List (Option α)) (i : Nat) : attemptsFrom i cs = [] ↔ ∀ c ∈ cs, c = none := by
  induction cs generalizing i with
  | nil => simp [attemptsFrom]
  | cons c cs ih =>
    cases c with
    | none => simp [attemptsFrom, ih]
    | some a => simp [attemptsFrom]

lemma guessIdx_some_spec (cs : List (Option α)) (i : Nat) (h : guessIdx cs = some i) :
    ∃ e, cs[i]? = some (some e) ∧ (∀ (j : Nat) (e' : α), cs[j]? = some (some e') → e ≤ e') ∧
      (∀ (j : Nat) (e' : α), j < i → cs[j]? = some (some e') → e < e') := by
  rw [guessIdx_def] at h
  obtain ⟨k, hk, hi⟩ := Option.bind_eq_some_iff.mp h
  obtain ⟨hlt, hmin, hfirst⟩ := (bestIdx_eq_some_iff _ k).mp hk
  have hkl : k < (attemptsFrom 0 cs).length := by simpa using hlt
  rw [List.getElem?_eq_getElem hkl] at hi
  simp only [Option.map_some, Option.some.injEq] at hi
  refine ⟨((attemptsFrom 0 cs)[k]).2, ?_, ?_, ?_⟩
  · have hm : (((attemptsFrom 0 cs)[k]).1, ((attemptsFrom 0 cs)[k]).2) ∈ attemptsFrom 0 cs := List.getElem_mem hkl
    obtain ⟨k0, h1, h2⟩ := (attemptsFrom_mem cs 0 _ _).mp hm
    have : k0 = i := by omega
    rw [← this]; exact h2
  · intro j e' hj
    have hm : (j, e') ∈ attemptsFrom 0 cs := (attemptsFrom_mem cs 0 j e').mpr ⟨j, by simp, hj⟩
    obtain ⟨k', hk', hkeq⟩ := List.getElem_of_mem hm
    have := hmin k' (by simpa using hk')
    simpa [hkeq] using this
  · intro j e' hji hj
    have hm : (j, e') ∈ attemptsFrom 0 cs := (attemptsFrom_mem cs 0 j e').mpr ⟨j, by simp, hj⟩
    obtain ⟨k', hk', hkeq⟩ := List.getElem_of_mem hm
    have hlt' : k' < k := attemptsFrom_mono cs 0 k' k hk' hkl (by rw [hkeq, hi]; exact hji)
    have := hfirst k' hlt'
    simpa [hkeq] using this

/-- nothing is returned (`CalculationError`) iff every candidate failed -/
theorem guessIdx_eq_none_iff (cs : List (Option α)) : guessIdx cs = none ↔ ∀ c ∈ cs, c = none := by
  rw [← attemptsFrom_eq_nil_iff cs 0]
  constructor
  · intro h
    by_contra hne
    have hne' : (attemptsFrom 0 cs).map (·.2) ≠ [] := by simpa using hne
    obtain ⟨k, hk, hlt, -, -⟩ := bestIdx_spec _ hne'
    have hkl : k < (attemptsFrom 0 cs).length := by simpa using hlt
    rw [guessIdx_def, hk] at h
    simp [List.getElem?_eq_getElem hkl] at h
  · intro h
    rw [guessIdx_def, h]
    rfl

/-- complete characterisation: the candidate returned converged, its error is the smallest among the converged candidates,
and strictly smaller than that of every converged candidate standing before it — whatever failed in between -/
theorem guessIdx_eq_some_iff (cs : List (Option α)) (i : Nat) :
    guessIdx cs = some i ↔
      ∃ e, cs[i]? = some (some e) ∧ (∀ (j : Nat) (e' : α), cs[j]? = some (some e') → e ≤ e') ∧
        (∀ (j : Nat) (e' : α), j < i → cs[j]? = some (some e') → e < e') := by
  constructor
  · exact guessIdx_some_spec cs i
  · rintro ⟨e, he, hmin, hfirst⟩
    cases hg : guessIdx cs with
    | none =>
      have := (guessIdx_eq_none_iff cs).mp hg (some e) (List.mem_of_getElem? he)
      simp at this
    | some i0 =>
      obtain ⟨e0, he0, hmin0, hfirst0⟩ := guessIdx_some_spec cs i0 hg
      rcases lt_trichotomy i0 i with h | h | h
      · exact absurd (hfirst i0 e0 h he0) (not_lt.mpr (hmin0 i e he))
      · rw [h]
      · exact absurd (hfirst0 i e h he) (not_lt.mpr (hmin i0 e0 he0))

/-- something is returned iff at least one candidate converged -/
theorem guessIdx_isSome_iff (cs : List (Option α)) : (guessIdx cs).isSome ↔ ∃ e, some e ∈ cs := by
  rw [← not_iff_not, Bool.not_eq_true, Option.isSome_eq_false_iff, Option.isNone_iff_eq_none, guessIdx_eq_none_iff]
  constructor
  · rintro h ⟨e, he⟩
    simpa using h _ he
  · intro h c hc
    cases c with
    | none => rfl
    | some e => exact absurd ⟨e, hc⟩ h

/-- if every candidate converges the rule is `errors.index(min(errors))` on the candidate list itself -/
theorem guessIdx_all_converged (es : List α) : guessIdx (es.map some) = bestIdx es := by
  cases hb : bestIdx es with
  | none =>
    have : es = [] := by
      cases es with
      | nil => rfl
      | cons e es => simp [bestIdx] at hb
    subst this; rfl
  | some i =>
    obtain ⟨hi, hmin, hfirst⟩ := (bestIdx_eq_some_iff es i).mp hb
    rw [guessIdx_eq_some_iff]
    refine ⟨es[i], by simp [hi], ?_, ?_⟩
    · intro j e' hj
      simp only [List.getElem?_map, Option.map_eq_some_iff] at hj
      obtain ⟨a, ha, hae⟩ := hj
      obtain rfl := Option.some.inj hae
      obtain ⟨hjl, rfl⟩ := List.getElem?_eq_some_iff.mp ha
      exact hmin j hjl
    · intro j e' hji hj
      simp only [List.getElem?_map, Option.map_eq_some_iff] at hj
      obtain ⟨a, ha, hae⟩ := hj
      obtain rfl := Option.some.inj hae
      obtain ⟨hjl, rfl⟩ := List.getElem?_eq_some_iff.mp ha
      exact hfirst j hji

omit [LinearOrder α] in
lemma getElem?_insert_none_lt (l₁ l₂ : List (Option α)) (j : Nat) (h : j < l₁.length) :
    (l₁ ++ none :: l₂)[j]? = (l₁ ++ l₂)[j]? := by
  rw [List.getElem?_append_left h, List.getElem?_append_left h]

omit [LinearOrder α] in
lemma getElem?_insert_none_ge (l₁ l₂ : List (Option α)) (j : Nat) (h : l₁.length ≤ j) :
    (l₁ ++ none :: l₂)[j + 1]? = (l₁ ++ l₂)[j]? := by
  rw [List.getElem?_append_right (by omega), List.getElem?_append_right h]
  have : j + 1 - l₁.length = (j - l₁.length) + 1 := by omega
  rw [this]; simp

omit [LinearOrder α] in
lemma getElem?_insert_none_eq (l₁ l₂ : List (Option α)) : (l₁ ++ none :: l₂)[l₁.length]? = some none := by
  rw [List.getElem?_append_right (le_refl _)]; simp

/-- a failed candidate is transparent at EVERY position: inserting it only renumbers the later candidates -/
theorem guessIdx_insert_failed (l₁ l₂ : List (Option α)) :
    guessIdx (l₁ ++ none :: l₂) = (guessIdx (l₁ ++ l₂)).map (fun i => if i < l₁.length then i else i + 1) := by
  cases hg : guessIdx (l₁ ++ l₂) with
  | none =>
    have hall := (guessIdx_eq_none_iff _).mp hg
    simp only [Option.map_none]
    rw [guessIdx_eq_none_iff]
    intro c hc
    simp only [List.mem_append, List.mem_cons] at hc
    rcases hc with h | h | h
    · exact hall c (List.mem_append_left _ h)
    · exact h
    · exact hall c (List.mem_append_right _ h)
  | some i =>
    obtain ⟨e, he, hmin, hfirst⟩ := (guessIdx_eq_some_iff _ i).mp hg
    simp only [Option.map_some]
    rw [guessIdx_eq_some_iff]
    -- every converged candidate of the longer list is a converged candidate of the shorter one, at the renumbered position
    have key : ∀ (j : Nat) (e' : α), (l₁ ++ none :: l₂)[j]? = some (some e') →
        ∃ j', (l₁ ++ l₂)[j']? = some (some e') ∧ j = (if j' < l₁.length then j' else j' + 1) := by
      intro j e' hj
      rcases lt_trichotomy j l₁.length with h | h | h
      · exact ⟨j, by rw [← getElem?_insert_none_lt l₁ l₂ j h]; exact hj, by simp [h]⟩
      · rw [h, getElem?_insert_none_eq] at hj; simp at hj
      · obtain ⟨j', rfl⟩ : ∃ j', j = j' + 1 := ⟨j - 1, by omega⟩
        have hge : l₁.length ≤ j' := by omega
        refine ⟨j', by rw [← getElem?_insert_none_ge l₁ l₂ j' hge]; exact hj, ?_⟩
        have : ¬ j' < l₁.length := by omega
        simp [this]
    refine ⟨e, ?_, ?_, ?_⟩
    · by_cases h : i < l₁.length
      · simp only [h, if_true]; rw [getElem?_insert_none_lt l₁ l₂ i h]; exact he
      · simp only [h, if_false]; rw [getElem?_insert_none_ge l₁ l₂ i (by omega)]; exact he
    · intro j e' hj
      obtain ⟨j', hj', -⟩ := key j e' hj
      exact hmin j' e' hj'
    · intro j e' hji hj
      obtain ⟨j', hj', rfl⟩ := key j e' hj
      refine hfirst j' e' ?_ hj'
      by_cases h1 : j' < l₁.length <;> by_cases h2 : i < l₁.length <;> simp only [h1, h2, if_true, if_false] at hji <;> omega

/-- error of the model returned -/
lemma retErr_eq_some_iff (cs : List (Option α)) (e : α) :
    (guessIdx cs).bind (fun i => cs[i]?.join) = some e ↔ some e ∈ cs ∧ ∀ e', some e' ∈ cs → e ≤ e' := by
  constructor
  · intro h
    obtain ⟨i, hi, hie⟩ := Option.bind_eq_some_iff.mp h
    obtain ⟨e0, he0, hmin0, -⟩ := (guessIdx_eq_some_iff cs i).mp hi
    rw [he0] at hie
    simp only [Option.join_some, Option.some.injEq] at hie
    subst hie
    refine ⟨List.mem_of_getElem? he0, ?_⟩
    intro e' he'
    obtain ⟨j, hj⟩ := List.mem_iff_getElem?.mp he'
    exact hmin0 j e' hj
  · rintro ⟨hmem, hmin⟩
    cases hg : guessIdx cs with
    | none =>
      have := (guessIdx_eq_none_iff cs).mp hg _ hmem
      simp at this
    | some i0 =>
      obtain ⟨e0, he0, hmin0, -⟩ := (guessIdx_eq_some_iff cs i0).mp hg
      obtain ⟨j, hj⟩ := List.mem_iff_getElem?.mp hmem
      have h1 : e0 ≤ e := hmin0 j e hj
      have h2 : e ≤ e0 := hmin e0 (List.mem_of_getElem? he0)
      simp [he0, le_antisymm h1 h2]

lemma retErr_eq_none_iff (cs : List (Option α)) :
    (guessIdx cs).bind (fun i => cs[i]?.join) = none ↔ ∀ c ∈ cs, c = none := by
  constructor
  · intro h
    cases hg : guessIdx cs with
    | none => exact (guessIdx_eq_none_iff cs).mp hg
    | some i =>
      obtain ⟨e0, he0, -, -⟩ := (guessIdx_eq_some_iff cs i).mp hg
      rw [hg] at h
      simp [he0] at h
  · intro h
    rw [(guessIdx_eq_none_iff cs).mpr h]; rfl

/-- the reported error of the model returned does not depend on the order of the candidates -/
theorem guessIdx_error_perm (cs cs' : List (Option α)) (h : cs.Perm cs') :
    (guessIdx cs).bind (fun i => cs[i]?.join) = (guessIdx cs').bind (fun i => cs'[i]?.join) := by
  cases hr : (guessIdx cs).bind (fun i => cs[i]?.join) with
  | none =>
    have hall := (retErr_eq_none_iff cs).mp hr
    exact ((retErr_eq_none_iff cs').mpr (fun c hc => hall c (h.mem_iff.mpr hc))).symm
  | some e =>
    obtain ⟨hmem, hmin⟩ := (retErr_eq_some_iff cs e).mp hr
    exact ((retErr_eq_some_iff cs' e).mpr ⟨h.mem_iff.mp hmem, fun e' he' => hmin e' (h.mem_iff.mpr he')⟩).symm

end guess

/-! ## H. an error derived from the optimiser's cost -/

section cost
variable {α : Type} [Field α] [LinearOrder α] [IsStrictOrderedRing α]

omit [LinearOrder α] [IsStrictOrderedRing α] in
lemma cost_term_linear (fs r : α) (hfs : fs ≠ 0) : fs * fs * ((r / fs) * (r / fs)) = r * r := by
  field_simp

omit [LinearOrder α] [IsStrictOrderedRing α] in
/-- linear loss (`ρ = id`, the default): twice the cost per point IS the mean squared residual -/
theorem costErrSq_linear (fs : α) (hfs : fs ≠ 0) (rs : List α) (range : α) :
    costErrSq (fun z => z) fs rs range = rmseSq rs range := by
  unfold costErrSq rmseSq mse sumSq
  have : (rs.map fun r => fs * fs * ((r / fs) * (r / fs))) = rs.map (fun r => r * r) :=
    List.map_congr_left (fun r _ => cost_term_linear fs r hfs)
  rw [this]

lemma cost_term_le (rho : α → α) (hrho : ∀ z, 0 ≤ z → rho z ≤ z) (fs : α) (hfs : fs ≠ 0) (r : α) :
    fs * fs * rho ((r / fs) * (r / fs)) ≤ r * r := by
  rw [← cost_term_linear fs r hfs]
  exact mul_le_mul_of_nonneg_left (hrho _ (mul_self_nonneg _)) (mul_self_nonneg fs)

lemma cost_term_lt (rho : α → α) (hrho : ∀ z, 0 < z → rho z < z) (fs : α) (hfs : fs ≠ 0) (r : α) (hr : r ≠ 0) :
    fs * fs * rho ((r / fs) * (r / fs)) < r * r := by
  rw [← cost_term_linear fs r hfs]
  have hz : 0 < (r / fs) * (r / fs) := mul_self_pos.mpr (div_ne_zero hr hfs)
  exact mul_lt_mul_of_pos_left (hrho _ hz) (mul_self_pos.mpr hfs)

/-- a loss with `ρ z ≤ z` on `z ≥ 0` (every loss of `least_squares`) never overstates the deviation … -/
theorem costErrSq_le_rmseSq (rho : α → α) (hrho : ∀ z, 0 ≤ z → rho z ≤ z) (fs : α) (hfs : fs ≠ 0) (rs : List α) (range : α) :
    costErrSq rho fs rs range ≤ rmseSq rs range := by
  unfold costErrSq rmseSq mse sumSq
  have hsum : (rs.map fun r => fs * fs * rho ((r / fs) * (r / fs))).sum ≤ (rs.map fun r => r * r).sum :=
    List.sum_le_sum (fun r _ => cost_term_le rho hrho fs hfs r)
  exact div_le_div_of_nonneg_right (div_le_div_of_nonneg_right hsum (Nat.cast_nonneg _)) (mul_self_nonneg range)

/-- … and a robust loss (`ρ z < z` for `z > 0`: soft_l1, cauchy, arctan; huber beyond the threshold) strictly UNDERSTATES
the deviation as soon as one residual is non-zero: the reported error must be computed from the residuals -/
theorem costErrSq_lt_rmseSq (rho : α → α) (h0 : ∀ z, 0 ≤ z → rho z ≤ z) (hrho : ∀ z, 0 < z → rho z < z)
    (fs : α) (hfs : fs ≠ 0) (rs : List α) (hr : ∃ r ∈ rs, r ≠ 0) (range : α) (hrange : range ≠ 0) :
    costErrSq rho fs rs range < rmseSq rs range := by
  unfold costErrSq rmseSq mse sumSq
  obtain ⟨r0, hr0, hne0⟩ := hr
  have hne : rs ≠ [] := List.ne_nil_of_mem hr0
  have hsum : (rs.map fun r => fs * fs * rho ((r / fs) * (r / fs))).sum < (rs.map fun r => r * r).sum :=
    List.sum_lt_sum _ _ (fun r _ => cost_term_le rho h0 fs hfs r) ⟨r0, hr0, cost_term_lt rho hrho fs hfs r0 hne0⟩
  exact div_lt_div_of_pos_right (div_lt_div_of_pos_right hsum (length_pos_cast hne)) (mul_self_pos.mpr hrange)

end cost

/-! ## non-vacuity -/

section examplesGuess

example : guessIdx ([some 3, none, some (1 / 2), none, some (1 / 2)] : List (Option ℚ)) = some 2 := by decide +kernel
/-- a candidate that fails BEFORE the best one must not shift the selection -/
example : guessIdx ([none, some 1, some 5] : List (Option ℚ)) = some 1 := by decide +kernel
example : guessIdx ([none, some 5, some 1] : List (Option ℚ)) = some 2 := by decide +kernel
example : guessIdx ([none, none] : List (Option ℚ)) = none := by decide +kernel
example : guessIdx ([] : List (Option ℚ)) = none := rfl
/-- a rational robust loss `ρ z = z / (1 + z)`: residuals (1, -1), range 2, f_scale 1: cost-based 1/8, true 1/4 -/
example : costErrSq (fun z : ℚ => z / (1 + z)) 1 [1, -1] 2 = 1 / 8 := by norm_num [costErrSq]
example : rmseSq ([1, -1] : List ℚ) 2 = 1 / 4 := by norm_num [rmseSq, mse, sumSq]

/-- the hypotheses of `costErrSq_lt_rmseSq` are satisfiable: `ρ z = z / (1 + z)` is a robust loss over ℚ -/
example : costErrSq (fun z : ℚ => z / (1 + z)) 1 [1, -1] 2 < rmseSq ([1, -1] : List ℚ) 2 :=
  costErrSq_lt_rmseSq (fun z : ℚ => z / (1 + z))
    (fun z hz => div_le_self hz (by linarith))
    (fun z hz => div_lt_self hz (by linarith))
    1 one_ne_zero [1, -1] ⟨1, by simp, one_ne_zero⟩ 2 (by norm_num)

/-- inserting a refused candidate before the best one only renumbers: instance of `guessIdx_insert_failed` -/
example : guessIdx ([some 5] ++ none :: [some (1 : ℚ)]) = some 2 := by
  rw [guessIdx_insert_failed]; decide +kernel

end examplesGuess

end PgVerif.Props.C12
