/-
C12 (continued) — the start vector of a fit when the caller's `param_guess` names only SOME of the parameters
(finding S46-C12, repaired: the pinned tree read `param_guess[p]` for every parameter name and left with `KeyError`).

* I. `startGuess` (Model/Fit.lean): the caller's value where given, the model's default guess elsewhere; every parameter has a start
     value; a complete guess is used as it stands, no guess gives the default; the start vector is feasible when its two sources are;
     the repair is conservative (`lookupAll` = the strict reading: wherever it succeeded the start vector is unchanged).
  Tie: the harness records the `x0` that reaches `scipy.optimize.least_squares` with and without the caller's guess and sends both to
  Drv/Fit `start`.
-/
import PgVerif.Props.C12

namespace PgVerif.Props.C12
open PgVerif.Model.Fit

/-! ## I. start vector of a fit with a partial guess -/

section start
variable {α : Type}

/-- every parameter has a start value (the pinned tree read `param_guess[p]` for every parameter name: `KeyError`) -/
theorem startGuess_length (dflt : List α) (user : List (Option α)) (h : user.length = dflt.length) :
    (startGuess dflt user).length = dflt.length := by
  simp [startGuess, h]

/-- component-wise: the caller's value where given, the default guess elsewhere -/
theorem startGuess_getElem? (dflt : List α) (user : List (Option α)) (i : Nat) (d : α) (u : Option α)
    (hd : dflt[i]? = some d) (hu : user[i]? = some u) :
    (startGuess dflt user)[i]? = some (u.getD d) := by
  simp [startGuess, List.getElem?_zipWith, hd, hu]

/-- a guess for every parameter is used as it stands -/
theorem startGuess_full (dflt us : List α) (h : us.length = dflt.length) :
    startGuess dflt (us.map some) = us := by
  induction us generalizing dflt with
  | nil => cases dflt <;> simp_all [startGuess]
  | cons u us ih =>
    cases dflt with
    | nil => simp at h
    | cons d ds =>
      have := ih ds (by simpa using h)
      simp_all [startGuess]

/-- no guess at all: the default guess -/
theorem startGuess_none (dflt : List α) : startGuess dflt (dflt.map fun _ => none) = dflt := by
  induction dflt with
  | nil => simp [startGuess]
  | cons d ds ih => simp_all [startGuess]

/-- finding S46-C12 (repaired): reading every parameter from the caller's dictionary fails exactly when one key is absent -/
theorem lookupAll_eq_none_iff (user : List (Option α)) : lookupAll user = none ↔ none ∈ user := by
  induction user with
  | nil => simp [lookupAll]
  | cons u us ih =>
    cases u with
    | none => simp [lookupAll]
    | some a => simp [lookupAll, ih]

/-- the repair is conservative: whenever the strict reading succeeds, the start vector is what it read -/
theorem startGuess_of_lookupAll (dflt : List α) (user : List (Option α)) (us : List α)
    (h : lookupAll user = some us) (hl : user.length = dflt.length) : startGuess dflt user = us := by
  induction user generalizing dflt us with
  | nil =>
    cases dflt with
    | nil => simp_all [lookupAll, startGuess]
    | cons d ds => simp at hl
  | cons u user ih =>
    cases dflt with
    | nil => simp at hl
    | cons d ds =>
      cases u with
      | none => simp [lookupAll] at h
      | some a =>
        simp only [lookupAll, Option.map_eq_some_iff] at h
        obtain ⟨t, ht, rfl⟩ := h
        have := ih ds t ht (by simpa using hl)
        simp_all [startGuess]

variable [Field α] [LinearOrder α]

omit [Field α] in
/-- feasibility of the start vector (what `least_squares` demands of `x0`): if the default guess respects the bounds in force
(it is clamped to them: `clampGuess_inBounds`) and so does every value the caller gives, the start vector does -/
theorem startGuess_inBounds (bounds : List (Option α × Option α)) (dflt : List α) (user : List (Option α))
    (hd : ∀ (i : Nat) (b : Option α × Option α) (d : α), bounds[i]? = some b → dflt[i]? = some d → inBounds b.1 b.2 d)
    (hu : ∀ (i : Nat) (b : Option α × Option α) (u : α), bounds[i]? = some b → user[i]? = some (some u) → inBounds b.1 b.2 u) :
    ∀ (i : Nat) (b : Option α × Option α) (v : α), bounds[i]? = some b → (startGuess dflt user)[i]? = some v → inBounds b.1 b.2 v := by
  intro i b v hb hv
  simp only [startGuess, List.getElem?_zipWith] at hv
  cases hdi : dflt[i]? with
  | none => simp [hdi] at hv
  | some d =>
    cases hui : user[i]? with
    | none => simp [hdi, hui] at hv
    | some u =>
      simp only [hdi, hui, Option.some.injEq] at hv
      cases u with
      | none => simp at hv; subst hv; exact hd i b d hb hdi
      | some u' => simp at hv; subst hv; exact hu i b u' hb hui

end start

example : startGuess ([11/10, 2] : List ℚ) [none, some 3] = [11/10, 3] := by decide +kernel
example : startGuess ([11/10, 2] : List ℚ) [none, none] = [11/10, 2] := by decide +kernel
-- the witness of the finding: `ModelIsotherm(..., model='Langmuir', param_guess={'K': 3})` - the strict reading has no value for n_m
example : lookupAll ([some 3, none] : List (Option ℚ)) = none := rfl
example : lookupAll ([some 3, some 2] : List (Option ℚ)) = some [3, 2] := rfl

end PgVerif.Props.C12
