/-
C09 — what the atomicity / "no orphans" theorems assume about the schema of the CURRENT source, decided by kernel evaluation on the
generated `PgVerif.Gen.Schema` (the full tie of the store model to the schema is C08's: `Props/C08/Schema.lean`; here only the
facts the fault model depends on, so that a schema edit irrelevant to atomicity does not touch C09).

The model's transaction (`runOp`) issues `PRAGMA foreign_keys = ON` first and lets every statement fail immediately; its invariant
`Db.wellFormed` ("no isotherm without a known material / adsorbate / class, no property or data row without its owner") is what SQLite
enforces only if every clause is an IMMEDIATE foreign key.  A DEFERRABLE foreign key would move the failure to the commit (outside the
`try` of `with_connection`: a raw IntegrityError after the statements succeeded), a cascading one or a trigger would write rows no
statement of the model writes.

No Mathlib.
-/
import PgVerif.Lemmas.SchemaTie

namespace PgVerif.C09

/-- foreign keys are switched on for every connection; each referential clause of `Db.wellFormed` is a foreign key of the schema with
no ON DELETE / ON UPDATE action; no CREATE statement carries DEFERRABLE (or any other constraint clause besides AUTOINCREMENT) and the
schema has no trigger or view — so a statement either takes effect exactly as modelled or fails at once, which is the fault model of
`atomic` and `no_orphans`. -/
theorem schema_supports_immediate_integrity :
    Spec.Schema.connPragma ∈ Gen.Schema.connPragmas ∧
    (∀ r ∈ Spec.Schema.wellFormedRefs, C08.SchemaTie.hasPlainFk r.1 r.2.1 r.2.2.1 r.2.2.2 = true) ∧
    Gen.Schema.tables.map (fun t => (t.name, t.extras)) = Spec.Schema.extras ∧
    Gen.Schema.otherObjects = [] := by decide

/-- the write entry points address existing tables only, except the isotherm-property-type ones (finding S39), whose single statement
fails before anything is written -/
theorem write_ops_address_existing_tables :
    ∀ e ∈ Gen.Schema.opTables, ∀ t ∈ e.2,
      t ∈ C08.SchemaTie.tableNames ∨ (e.1 ∈ Spec.Schema.isoPropTypeEntryPoints ∧ t = "isotherm_properties_type") := by decide

example : Spec.Schema.wellFormedRefs.length = 9 := by decide

end PgVerif.C09
