/-
C09, the level below the statements — why "the process died ⇒ nothing is committed" (`Model.Store.runOp`, `.exit`) holds, and
exactly when it stops holding.

All statements are about `PgVerif.Model.Pager`: one rollback-journal transaction as a list of micro-events (page written in
the cache / dirty page spilled into the database file / commit point), death between any two of them, the journal played back
by the next connection.

* `txn_commits`            a completed transaction leaves exactly the effect of its writes (every environment);
* `death_before_commit`    journal FILE: death anywhere before the commit point restores the content before the call, however
                           many dirty pages SQLite had already spilled into the database file;
* `death_atomic`           journal file + one transaction per call: death at ANY micro-step gives the content before or the
                           complete effect;  `power_atomic`: the same for power loss when the journal is fsynced first;
* `death_without_spill_harmless`  as long as no page was spilled, death is harmless in EVERY environment (why deaths at statement
                           boundaries with the default page cache could not see a journal in memory);
* `volatile_journal_tears` journal in memory / no journal: one spilled page + death = neither of the two (general in the pages
                           and values);  `unsynced_journal_power_tears`;  `split_transaction_tears` (autocommit, a commit in the
                           middle, a second connection);
* `deathSafe_sound / deathSafe_complete / powerSafe_sound / powerSafe_complete`: the decidable verdict the driver evaluates on
                           the environment read from the live connection is exactly "atomic for every schedule".
* `store_death_justified`  the hand-over to the statement-level model.
-/
import PgVerif.Model.Pager
import PgVerif.Model.Store
import Mathlib.Tactic

namespace PgVerif.C09.Crash
open PgVerif.Model.Pager

/-- the events of the statements of one call: page writes and spills, no commit point -/
def WritesOnly (evs : List Ev) : Prop := Ev.endTxn ∉ evs

/-- what a reader on this connection sees: the cache over the file -/
def view (s : Pager) : File := fun p => (s.cache p).getD (s.disk p)

/-! ### single steps -/

lemma journalPage_cache (env : Env) (s : Pager) (p : Nat) : (journalPage env s p).cache = s.cache := by
  unfold journalPage; split
  · rfl
  · split <;> rfl

lemma journalPage_disk (env : Env) (s : Pager) (p : Nat) : (journalPage env s p).disk = s.disk := by
  unfold journalPage; split
  · rfl
  · split <;> rfl

lemma journalPage_synced (env : Env) (s : Pager) (p : Nat) : (journalPage env s p).synced = s.synced := by
  unfold journalPage; split
  · rfl
  · split <;> rfl

lemma journalPage_jsynced (env : Env) (s : Pager) (p : Nat) : (journalPage env s p).jsynced = s.jsynced := by
  unfold journalPage; split
  · rfl
  · split <;> rfl

lemma journalPage_mem (env : Env) (s : Pager) (p : Nat) : p ∈ (journalPage env s p).dirty := by
  unfold journalPage; split
  · assumption
  · split <;> simp

lemma journalPage_dirty_sub (env : Env) (s : Pager) (p q : Nat) (h : q ∈ s.dirty) : q ∈ (journalPage env s p).dirty := by
  unfold journalPage; split
  · assumption
  · split <;> simp [h]

lemma journalPage_dirty_cases (env : Env) (s : Pager) (p q : Nat) (h : q ∈ (journalPage env s p).dirty) : q = p ∨ q ∈ s.dirty := by
  unfold journalPage at h; split at h
  · exact Or.inr h
  · split at h <;> simpa using h

lemma run_append (env : Env) (s : Pager) (a b : List Ev) : run env s (a ++ b) = run env (run env s a) b := by
  simp [run, List.foldl_append]

lemma run_cons (env : Env) (s : Pager) (e : Ev) (es : List Ev) : run env s (e :: es) = run env (step env s e) es := rfl

lemma view_write (env : Env) (s : Pager) (p v : Nat) : view (step env s (.write p v)) = upd (view s) p v := by
  funext q
  simp only [view, step, upd, journalPage_cache, journalPage_disk]
  by_cases h : q = p <;> simp [h]

lemma spill_cache (env : Env) (s : Pager) (p q : Nat) :
    (step env s (.spill p)).cache q = if q = p then none else s.cache q := by
  simp only [step]
  cases h : s.cache p with
  | none => by_cases hq : q = p <;> simp [hq, h]
  | some v => rfl

lemma spill_dirty (env : Env) (s : Pager) (p : Nat) : (step env s (.spill p)).dirty = s.dirty := by
  simp only [step]; cases s.cache p <;> rfl

lemma view_spill (env : Env) (s : Pager) (p : Nat) : view (step env s (.spill p)) = view s := by
  funext q
  simp only [view, step]
  cases h : s.cache p with
  | none => rfl
  | some v =>
    by_cases hq : q = p
    · subst hq; simp [upd, h]
    · simp [upd, hq]

/-- dirty pages of the cache are registered -/
def CacheDirty (s : Pager) : Prop := ∀ p, s.cache p ≠ none → p ∈ s.dirty

lemma cacheDirty_step (env : Env) (s : Pager) (e : Ev) (he : e ≠ .endTxn) (h : CacheDirty s) : CacheDirty (step env s e) := by
  cases e with
  | write p v =>
    intro q hq
    simp only [step] at hq ⊢
    by_cases hqp : q = p
    · subst hqp; exact journalPage_mem env s q
    · simp only [hqp, if_false, journalPage_cache] at hq
      exact journalPage_dirty_sub env s p q (h q hq)
  | spill p =>
    intro q hq
    rw [spill_cache] at hq
    rw [spill_dirty]
    by_cases hqp : q = p
    · simp [hqp] at hq
    · simp only [hqp, if_false] at hq; exact h q hq
  | endTxn => exact absurd rfl he

/-- the effect of one event on the content -/
lemma effect_cons (e : Ev) (es : List Ev) (d : File) : effect (e :: es) d = effect es (effect [e] d) := by
  cases e <;> rfl

lemma view_step (env : Env) (s : Pager) (e : Ev) (he : e ≠ .endTxn) : view (step env s e) = effect [e] (view s) := by
  cases e with
  | write p v => exact view_write env s p v
  | spill p => exact view_spill env s p
  | endTxn => exact absurd rfl he

/-- running the statements' events: readers on the connection see the effect of the writes, whatever was spilled -/
lemma run_writes (env : Env) (ws : List Ev) : ∀ (s : Pager), WritesOnly ws → CacheDirty s →
    CacheDirty (run env s ws) ∧ view (run env s ws) = effect ws (view s) := by
  induction ws with
  | nil => intro s _ h; exact ⟨h, rfl⟩
  | cons e es ih =>
    intro s hw h
    have he : e ≠ .endTxn := fun c => hw (by simp [c])
    have hes : WritesOnly es := fun c => hw (List.mem_cons_of_mem _ c)
    obtain ⟨h1, h2⟩ := ih (step env s e) hes (cacheDirty_step env s e he h)
    refine ⟨h1, ?_⟩
    rw [run_cons, h2, view_step env s e he, ← effect_cons]

/-! ### the commit -/

lemma run_spills (env : Env) (l : List Nat) : ∀ (s : Pager),
    (∀ q, (run env s (l.map Ev.spill)).cache q = if q ∈ l then none else s.cache q) ∧
    view (run env s (l.map Ev.spill)) = view s := by
  induction l with
  | nil => intro s; exact ⟨fun q => by simp [run], rfl⟩
  | cons p ps ih =>
    intro s
    obtain ⟨h1, h2⟩ := ih (step env s (.spill p))
    constructor
    · intro q
      simp only [List.map_cons, run_cons]
      rw [h1 q, spill_cache]
      by_cases hq : q = p
      · subst hq; simp
      · by_cases hqs : q ∈ ps <;> simp [hq, hqs]
    · simp only [List.map_cons, run_cons]
      rw [h2, view_spill]

/-- **A completed transaction leaves exactly the effect of its writes** and a connection between transactions — in every
environment (the journal plays no part when nothing fails). -/
theorem txn_commits (env : Env) (d : File) (ws : List Ev) (hw : WritesOnly ws) :
    run env (fresh d) (txn env (fresh d) ws) = fresh (effect ws d) := by
  have h0 : CacheDirty (fresh d) := fun p hp => absurd rfl hp
  obtain ⟨hcd, hview⟩ := run_writes env ws (fresh d) hw h0
  have hv0 : view (fresh d) = d := rfl
  rw [hv0] at hview
  unfold txn commitEvs
  rw [run_append, run_append]
  generalize run env (fresh d) ws = s at hcd hview ⊢
  obtain ⟨hc, hv⟩ := run_spills env s.dirty s
  have hnone : ∀ q, (run env s (s.dirty.map Ev.spill)).cache q = none := by
    intro q
    rw [hc q]
    by_cases hq : q ∈ s.dirty
    · simp [hq]
    · simp only [hq, if_false]
      by_contra hne
      exact hq (hcd q hne)
  have hdisk : (run env s (s.dirty.map Ev.spill)).disk = effect ws d := by
    rw [← hview, ← hv]
    funext q
    simp [view, hnone q]
  have hend : run env (run env s (s.dirty.map Ev.spill)) [Ev.endTxn] = fresh (run env s (s.dirty.map Ev.spill)).disk := rfl
  rw [hend, hdisk]

/-! ### journal playback -/

lemma restore_orig (base : File) (recs : List (Nat × Nat)) : ∀ (d : File), (∀ r ∈ recs, r.2 = base r.1) →
    ∀ q, restore recs d q = if q ∈ recs.map Prod.fst then base q else d q := by
  induction recs with
  | nil => intro d _ q; simp [restore]
  | cons r rs ih =>
    intro d h q
    obtain ⟨p, v⟩ := r
    have hv : v = base p := h (p, v) (by simp)
    simp only [restore]
    rw [ih (upd d p v) (fun r hr => h r (List.mem_cons_of_mem _ hr)) q]
    by_cases hq : q ∈ rs.map Prod.fst
    · simp [hq]
    · by_cases hqp : q = p
      · subst hqp; simp [upd, hv]
      · simp [hq, hqp, upd]

/-- the invariant of a running transaction whose journal is a file (`d` = the content before the call) -/
structure JInv (env : Env) (d : File) (s : Pager) : Prop where
  cacheDirty : CacheDirty s
  recsOrig : ∀ r ∈ s.jfile, r.2 = d r.1
  dirtyKeys : ∀ p ∈ s.dirty, p ∈ s.jfile.map Prod.fst
  cleanDisk : ∀ p, p ∉ s.dirty → s.disk p = d p
  syncedEq : s.synced = d
  jsyncedLe : s.jsynced ≤ s.jfile.length
  syncKeys : env.syncJournal = true → ∀ p, s.disk p ≠ d p → p ∈ (s.jfile.take s.jsynced).map Prod.fst

lemma jinv_fresh (env : Env) (d : File) : JInv env d (fresh d) where
  cacheDirty := fun p hp => absurd rfl hp
  recsOrig := by simp [fresh]
  dirtyKeys := by simp [fresh]
  cleanDisk := fun _ _ => rfl
  syncedEq := rfl
  jsyncedLe := by simp [fresh]
  syncKeys := fun _ p hp => absurd rfl hp

lemma jinv_step (env : Env) (hj : env.journal = .file) (d : File) (s : Pager) (e : Ev) (he : e ≠ .endTxn)
    (h : JInv env d s) : JInv env d (step env s e) := by
  have hcd := cacheDirty_step env s e he h.cacheDirty
  cases e with
  | endTxn => exact absurd rfl he
  | write p v =>
    by_cases hp : p ∈ s.dirty
    · -- the page is journaled already: only the cache changes
      have hjp : journalPage env s p = s := by unfold journalPage; simp [hp]
      have hst : step env s (.write p v) = { s with cache := fun q => if q = p then some v else s.cache q } := by
        simp only [step, hjp]
      rw [hst] at hcd ⊢
      exact ⟨hcd, h.recsOrig, h.dirtyKeys, h.cleanDisk, h.syncedEq, h.jsyncedLe, h.syncKeys⟩
    · have hjp : journalPage env s p = { s with jfile := s.jfile ++ [(p, s.disk p)], dirty := p :: s.dirty } := by
        unfold journalPage; simp [hp, hj]
      have hst : step env s (.write p v) =
          { s with jfile := s.jfile ++ [(p, s.disk p)], dirty := p :: s.dirty,
                   cache := fun q => if q = p then some v else s.cache q } := by
        simp only [step, hjp]
      rw [hst] at hcd ⊢
      refine ⟨hcd, ?_, ?_, ?_, h.syncedEq, ?_, ?_⟩
      · intro r hr
        simp only [List.mem_append, List.mem_singleton] at hr
        rcases hr with hr | rfl
        · exact h.recsOrig r hr
        · exact h.cleanDisk p hp
      · intro q hq
        simp only [List.mem_cons] at hq
        simp only [List.map_append, List.map_cons, List.map_nil, List.mem_append, List.mem_singleton]
        rcases hq with rfl | hq
        · exact Or.inr rfl
        · exact Or.inl (h.dirtyKeys q hq)
      · intro q hq
        simp only [List.mem_cons, not_or] at hq
        exact h.cleanDisk q hq.2
      · simp only [List.length_append, List.length_singleton]
        exact Nat.le_succ_of_le h.jsyncedLe
      · intro hs q hq
        simp only [List.take_append_of_le_length h.jsyncedLe]
        exact h.syncKeys hs q hq
  | spill p =>
    cases hc : s.cache p with
    | none =>
      have hst : step env s (.spill p) = s := by simp only [step, hc]
      rw [hst]; exact h
    | some v =>
      have hpd : p ∈ s.dirty := h.cacheDirty p (by simp [hc])
      have hst : step env s (.spill p) =
          { s with disk := upd s.disk p v, cache := fun q => if q = p then none else s.cache q,
                   jsynced := if env.syncJournal then s.jfile.length else s.jsynced } := by
        simp only [step, hc]
      rw [hst] at hcd ⊢
      refine ⟨hcd, h.recsOrig, h.dirtyKeys, ?_, h.syncedEq, ?_, ?_⟩
      · intro q hq
        have hqp : q ≠ p := fun c => hq (c ▸ hpd)
        simp only [upd, hqp, if_false]
        exact h.cleanDisk q hq
      · simp only
        split
        · exact le_refl _
        · exact h.jsyncedLe
      · intro hs q hq
        simp only [hs, if_true, List.take_length]
        by_cases hqp : q = p
        · subst hqp; exact h.dirtyKeys q hpd
        · simp only [upd, hqp, if_false] at hq
          have := h.syncKeys hs q hq
          rw [List.mem_map] at this ⊢
          obtain ⟨r, hr, hrq⟩ := this
          exact ⟨r, List.mem_of_mem_take hr, hrq⟩

lemma jinv_run (env : Env) (hj : env.journal = .file) (d : File) (evs : List Ev) : ∀ (s : Pager), WritesOnly evs →
    JInv env d s → JInv env d (run env s evs) := by
  induction evs with
  | nil => intro s _ h; exact h
  | cons e es ih =>
    intro s hw h
    have he : e ≠ .endTxn := fun c => hw (by simp [c])
    have hes : WritesOnly es := fun c => hw (List.mem_cons_of_mem _ c)
    exact ih _ hes (jinv_step env hj d s e he h)

/-- **Death before the commit point** (journal file): whatever the statements wrote and whichever dirty pages SQLite had already
spilled into the database file, the next connection finds the content before the call. -/
theorem death_before_commit (env : Env) (hj : env.journal = .file) (d : File) (evs : List Ev) (hw : WritesOnly evs) :
    afterDeath (run env (fresh d) evs) = d := by
  have h := jinv_run env hj d evs (fresh d) hw (jinv_fresh env d)
  funext q
  unfold afterDeath
  rw [restore_orig d _ _ h.recsOrig q]
  by_cases hq : q ∈ (run env (fresh d) evs).jfile.map Prod.fst
  · rw [if_pos hq]
  · rw [if_neg hq]
    exact h.cleanDisk q (fun c => hq (h.dirtyKeys q c))

/-- … and the same for a power loss, when the journal is fsynced before the database file is touched: of the spilled pages an
arbitrary subset (`keep`) may have reached the disk. -/
theorem power_loss_before_commit (env : Env) (hj : env.journal = .file) (hs : env.syncJournal = true) (d : File)
    (evs : List Ev) (hw : WritesOnly evs) (keep : Nat → Bool) :
    afterPowerLoss keep (run env (fresh d) evs) = d := by
  have h := jinv_run env hj d evs (fresh d) hw (jinv_fresh env d)
  funext q
  unfold afterPowerLoss
  rw [restore_orig d _ _ (fun r hr => h.recsOrig r (List.mem_of_mem_take hr)) q]
  by_cases hq : q ∈ ((run env (fresh d) evs).jfile.take (run env (fresh d) evs).jsynced).map Prod.fst
  · rw [if_pos hq]
  · rw [if_neg hq]
    have hd : (run env (fresh d) evs).disk q = d q := by
      by_contra c
      exact hq (h.syncKeys hs q c)
    rw [hd, h.syncedEq]
    simp

lemma afterDeath_fresh (d : File) : afterDeath (fresh d) = d := rfl

lemma afterPowerLoss_fresh (keep : Nat → Bool) (d : File) : afterPowerLoss keep (fresh d) = d := by
  funext q
  simp [afterPowerLoss, fresh, restore]

lemma writesOnly_of_prefix {pre evs : List Ev} (h : pre <+: evs) (hw : WritesOnly evs) : WritesOnly pre :=
  fun c => hw (h.subset c)

lemma writesOnly_txn_body (env : Env) (s : Pager) (ws : List Ev) (hw : WritesOnly ws) :
    WritesOnly (ws ++ (run env s ws).dirty.map Ev.spill) := by
  intro c
  rw [List.mem_append] at c
  rcases c with c | c
  · exact hw c
  · simp at c

lemma txn_eq (env : Env) (s : Pager) (ws : List Ev) :
    txn env s ws = (ws ++ (run env s ws).dirty.map Ev.spill) ++ [Ev.endTxn] := by
  simp [txn, commitEvs]

/-- **Atomicity under process death**: journal file, one transaction — death at ANY micro-step of the call (between statements,
in the middle of the flush of the commit, before or after the commit point) leaves the content before the call or the complete
effect of its writes. -/
theorem death_atomic (env : Env) (hj : env.journal = .file) (d : File) (ws : List Ev) (hw : WritesOnly ws)
    (pre : List Ev) (hpre : pre <+: txn env (fresh d) ws) :
    afterDeath (run env (fresh d) pre) = d ∨ afterDeath (run env (fresh d) pre) = effect ws d := by
  rw [txn_eq, List.prefix_concat_iff] at hpre
  rcases hpre with rfl | hpre
  · right
    rw [← txn_eq, txn_commits env d ws hw]
    rfl
  · left
    exact death_before_commit env hj d pre (writesOnly_of_prefix hpre (writesOnly_txn_body env _ ws hw))

/-- **Atomicity under power loss**: additionally the journal is fsynced before the database file is overwritten. -/
theorem power_atomic (env : Env) (hj : env.journal = .file) (hs : env.syncJournal = true) (d : File) (ws : List Ev)
    (hw : WritesOnly ws) (pre : List Ev) (hpre : pre <+: txn env (fresh d) ws) (keep : Nat → Bool) :
    afterPowerLoss keep (run env (fresh d) pre) = d ∨ afterPowerLoss keep (run env (fresh d) pre) = effect ws d := by
  rw [txn_eq, List.prefix_concat_iff] at hpre
  rcases hpre with rfl | hpre
  · right
    rw [← txn_eq, txn_commits env d ws hw]
    exact afterPowerLoss_fresh keep _
  · left
    exact power_loss_before_commit env hj hs d pre (writesOnly_of_prefix hpre (writesOnly_txn_body env _ ws hw)) keep

/-! ### without a spill nothing can be seen -/

/-- the statements' page writes alone: nothing spilled -/
def NoSpill (ws : List Ev) : Prop := ∀ e ∈ ws, ∃ p v, e = Ev.write p v

lemma journalPage_jfile (env : Env) (s : Pager) (p : Nat) (r : Nat × Nat) (h : r ∈ (journalPage env s p).jfile) :
    r ∈ s.jfile ∨ r = (p, s.disk p) := by
  unfold journalPage at h
  split at h
  · exact Or.inl h
  · split at h
    · simpa using h
    · exact Or.inl h
    · exact Or.inl h

lemma noSpill_inv (env : Env) (d : File) (ws : List Ev) : ∀ (s : Pager), NoSpill ws → s.disk = d → (∀ r ∈ s.jfile, r.2 = d r.1) →
    (run env s ws).disk = d ∧ ∀ r ∈ (run env s ws).jfile, r.2 = d r.1 := by
  induction ws with
  | nil => intro s _ h1 h2; exact ⟨h1, h2⟩
  | cons e es ih =>
    intro s hn h1 h2
    obtain ⟨p, v, rfl⟩ := hn e (by simp)
    refine ih _ (fun e he => hn e (List.mem_cons_of_mem _ he)) ?_ ?_
    · simp only [step, journalPage_disk]; exact h1
    · intro r hr
      have hr' : r ∈ (journalPage env s p).jfile := hr
      rcases journalPage_jfile env s p r hr' with h | rfl
      · exact h2 r h
      · simp [h1]

/-- **Why a statement-boundary death with the default page cache shows nothing**: as long as SQLite has not spilled a page, the
database file is untouched, and death before the commit is harmless in EVERY environment — journal in memory or switched off
included.  The defect of such an environment needs a spill (a page cache smaller than the transaction) to become observable. -/
theorem death_without_spill_harmless (env : Env) (d : File) (ws : List Ev) (h : NoSpill ws) :
    afterDeath (run env (fresh d) ws) = d := by
  obtain ⟨h1, h2⟩ := noSpill_inv env d ws (fresh d) h rfl (by simp [fresh])
  funext q
  unfold afterDeath
  rw [restore_orig d _ _ h2 q, h1]
  simp

/-! ### what goes wrong outside that environment -/

/-- two pages written, the first one spilled (the cache was full): the state in which the process dies -/
def tornEvents (p q v w : Nat) : List Ev := [.write p v, .write q w, .spill p]

lemma tornEvents_writesOnly (p q v w : Nat) : WritesOnly (tornEvents p q v w) := by
  simp [WritesOnly, tornEvents]

lemma effect_tornEvents (d : File) (p q v w : Nat) : effect (tornEvents p q v w) d = upd (upd d p v) q w := rfl

/-- the state after `tornEvents` when nothing durable protects the spilled page -/
lemma tornEvents_state (env : Env) (h : env.journal ≠ .file ∨ env.syncJournal = false) (d : File) (p q v w : Nat) (hpq : p ≠ q) :
    (run env (fresh d) (tornEvents p q v w)).disk = upd d p v ∧
    (env.journal ≠ .file → (run env (fresh d) (tornEvents p q v w)).jfile = []) ∧
    (env.syncJournal = false → (run env (fresh d) (tornEvents p q v w)).jsynced = 0) := by
  have hqp : q ≠ p := fun c => hpq c.symm
  obtain ⟨j, sy, one⟩ := env
  cases j <;> cases sy <;>
    simp [run, tornEvents, step, journalPage, fresh, hpq, hqp] at h ⊢

lemma upd_ne_of_ne (d : File) (p v : Nat) (hv : v ≠ d p) : upd d p v ≠ d := by
  intro c
  have := congrFun c p
  simp [upd] at this
  exact hv this

lemma upd_ne_upd_upd (d : File) (p q v w : Nat) (hpq : p ≠ q) (hw : w ≠ d q) : upd d p v ≠ upd (upd d p v) q w := by
  intro c
  have := congrFun c q
  have hqp : q ≠ p := fun c => hpq c.symm
  simp [upd, hqp] at this
  exact hw this.symm

/-- **A journal that dies with the process tears the file**: with the journal in memory (or none) a death after ONE spilled page
leaves a content that is neither the one before the call nor the complete effect — for any two distinct pages and any values that
actually change them.  The events are a prefix of the call's transaction. -/
theorem volatile_journal_tears (env : Env) (hj : env.journal ≠ .file) (d : File) (p q v w : Nat) (hpq : p ≠ q)
    (hv : v ≠ d p) (hw : w ≠ d q) :
    tornEvents p q v w <+: txn env (fresh d) (tornEvents p q v w) ∧
    afterDeath (run env (fresh d) (tornEvents p q v w)) ≠ d ∧
    afterDeath (run env (fresh d) (tornEvents p q v w)) ≠ effect (tornEvents p q v w) d := by
  obtain ⟨h1, h2, _⟩ := tornEvents_state env (Or.inl hj) d p q v w hpq
  have had : afterDeath (run env (fresh d) (tornEvents p q v w)) = upd d p v := by
    unfold afterDeath; rw [h2 hj, h1]; rfl
  refine ⟨List.prefix_append _ _, ?_, ?_⟩
  · rw [had]; exact upd_ne_of_ne d p v hv
  · rw [had, effect_tornEvents]; exact upd_ne_upd_upd d p q v w hpq hw

/-- **An unsynced journal file does not survive a power loss** (synchronous = OFF): the spilled page reached the disk, its journal
record did not. -/
theorem unsynced_journal_power_tears (env : Env) (hs : env.syncJournal = false) (d : File) (p q v w : Nat) (hpq : p ≠ q)
    (hv : v ≠ d p) (hw : w ≠ d q) :
    tornEvents p q v w <+: txn env (fresh d) (tornEvents p q v w) ∧
    afterPowerLoss (fun _ => true) (run env (fresh d) (tornEvents p q v w)) ≠ d ∧
    afterPowerLoss (fun _ => true) (run env (fresh d) (tornEvents p q v w)) ≠ effect (tornEvents p q v w) d := by
  obtain ⟨h1, _, h3⟩ := tornEvents_state env (Or.inr hs) d p q v w hpq
  have had : afterPowerLoss (fun _ => true) (run env (fresh d) (tornEvents p q v w)) = upd d p v := by
    unfold afterPowerLoss; rw [h3 hs, h1]; rfl
  refine ⟨List.prefix_append _ _, ?_, ?_⟩
  · rw [had]; exact upd_ne_of_ne d p v hv
  · rw [had, effect_tornEvents]; exact upd_ne_upd_upd d p q v w hpq hw

lemma writesOnly_single_write (p v : Nat) : WritesOnly [Ev.write p v] := by simp [WritesOnly]

/-- **More than one transaction per call tears the operation** (autocommit / isolation_level=None, a commit in the middle, a second
connection): death after the first transaction's commit point leaves the first write without the second, in every journal mode. -/
theorem split_transaction_tears (env : Env) (h1 : env.oneTxn = false) (d : File) (p q v w : Nat) (hpq : p ≠ q)
    (hv : v ≠ d p) (hw : w ≠ d q) :
    txn env (fresh d) [.write p v] <+: opEvents env (fresh d) [.write p v, .write q w] ∧
    afterDeath (run env (fresh d) (txn env (fresh d) [.write p v])) ≠ d ∧
    afterDeath (run env (fresh d) (txn env (fresh d) [.write p v])) ≠ effect [.write p v, .write q w] d := by
  have hc := txn_commits env d [.write p v] (writesOnly_single_write p v)
  refine ⟨?_, ?_, ?_⟩
  · simp only [opEvents, h1, Bool.false_eq_true, if_false, splitTxns]
    exact List.prefix_append _ _
  · rw [hc, afterDeath_fresh]; exact upd_ne_of_ne d p v hv
  · rw [hc, afterDeath_fresh]; exact upd_ne_upd_upd d p q v w hpq hw

/-! ### the verdict the driver evaluates -/

lemma deathSafe_iff (env : Env) : env.deathSafe = true ↔ env.journal = .file ∧ env.oneTxn = true := by
  obtain ⟨j, sy, one⟩ := env
  cases j <;> cases one <;> simp [Env.deathSafe]

lemma powerSafe_iff (env : Env) : env.powerSafe = true ↔ env.journal = .file ∧ env.oneTxn = true ∧ env.syncJournal = true := by
  simp [Env.powerSafe, deathSafe_iff, and_assoc]

/-- `Env.deathSafe` is sound: in such an environment every call is atomic under process death, for every content, every write
schedule (spills included) and every instant of death. -/
theorem deathSafe_sound (env : Env) (h : env.deathSafe = true) (d : File) (ws : List Ev) (hw : WritesOnly ws)
    (pre : List Ev) (hpre : pre <+: opEvents env (fresh d) ws) :
    afterDeath (run env (fresh d) pre) = d ∨ afterDeath (run env (fresh d) pre) = effect ws d := by
  obtain ⟨hj, h1⟩ := (deathSafe_iff env).1 h
  simp only [opEvents, h1, if_true] at hpre
  exact death_atomic env hj d ws hw pre hpre

/-- `Env.deathSafe` is complete: every other environment has a call and an instant of death that tear the file. -/
theorem deathSafe_complete (env : Env) (h : env.deathSafe = false) :
    ∃ (d : File) (ws pre : List Ev), WritesOnly ws ∧ pre <+: opEvents env (fresh d) ws ∧
      afterDeath (run env (fresh d) pre) ≠ d ∧ afterDeath (run env (fresh d) pre) ≠ effect ws d := by
  by_cases h1 : env.oneTxn = true
  · have hj : env.journal ≠ .file := by
      intro c
      have := (deathSafe_iff env).2 ⟨c, h1⟩
      rw [h] at this; cases this
    obtain ⟨a, b, c⟩ := volatile_journal_tears env hj (fun _ => 0) 0 1 1 1 (by decide) (by decide) (by decide)
    refine ⟨fun _ => 0, tornEvents 0 1 1 1, tornEvents 0 1 1 1, tornEvents_writesOnly _ _ _ _, ?_, b, c⟩
    simp only [opEvents, h1, if_true]; exact a
  · have h1' : env.oneTxn = false := by simpa using h1
    obtain ⟨a, b, c⟩ := split_transaction_tears env h1' (fun _ => 0) 0 1 1 1 (by decide) (by decide) (by decide)
    exact ⟨fun _ => 0, [.write 0 1, .write 1 1], _, by simp [WritesOnly], a, b, c⟩

/-- `Env.powerSafe` is sound … -/
theorem powerSafe_sound (env : Env) (h : env.powerSafe = true) (d : File) (ws : List Ev) (hw : WritesOnly ws)
    (pre : List Ev) (hpre : pre <+: opEvents env (fresh d) ws) (keep : Nat → Bool) :
    afterPowerLoss keep (run env (fresh d) pre) = d ∨ afterPowerLoss keep (run env (fresh d) pre) = effect ws d := by
  obtain ⟨hj, h1, hs⟩ := (powerSafe_iff env).1 h
  simp only [opEvents, h1, if_true] at hpre
  exact power_atomic env hj hs d ws hw pre hpre keep

/-- … and complete. -/
theorem powerSafe_complete (env : Env) (h : env.powerSafe = false) :
    ∃ (d : File) (ws pre : List Ev) (keep : Nat → Bool), WritesOnly ws ∧ pre <+: opEvents env (fresh d) ws ∧
      afterPowerLoss keep (run env (fresh d) pre) ≠ d ∧ afterPowerLoss keep (run env (fresh d) pre) ≠ effect ws d := by
  by_cases h1 : env.oneTxn = true
  · have hor : env.journal ≠ .file ∨ env.syncJournal = false := by
      by_contra c
      rw [not_or] at c
      have := (powerSafe_iff env).2 ⟨not_not.1 c.1, h1, by simpa using c.2⟩
      rw [h] at this; cases this
    obtain ⟨s1, s2, s3⟩ := tornEvents_state env hor (fun _ => 0) 0 1 1 1 (by decide)
    have had : afterPowerLoss (fun _ => true) (run env (fresh fun _ => 0) (tornEvents 0 1 1 1)) = upd (fun _ => 0) 0 1 := by
      unfold afterPowerLoss
      rcases hor with hj | hs
      · rw [s2 hj, s1]; simp [restore]
      · rw [s3 hs, s1]; rfl
    refine ⟨fun _ => 0, tornEvents 0 1 1 1, tornEvents 0 1 1 1, fun _ => true, tornEvents_writesOnly _ _ _ _, ?_, ?_, ?_⟩
    · simp only [opEvents, h1, if_true]; exact List.prefix_append _ _
    · rw [had]; exact upd_ne_of_ne _ 0 1 (by decide)
    · rw [had, effect_tornEvents]; exact upd_ne_upd_upd _ 0 1 1 1 (by decide) (by decide)
  · have h1' : env.oneTxn = false := by simpa using h1
    have hc := txn_commits env (fun _ => 0) [.write 0 1] (writesOnly_single_write 0 1)
    refine ⟨fun _ => 0, [.write 0 1, .write 1 1], txn env (fresh fun _ => 0) [.write 0 1], fun _ => true, by simp [WritesOnly], ?_, ?_, ?_⟩
    · simp only [opEvents, h1', Bool.false_eq_true, if_false, splitTxns]; exact List.prefix_append _ _
    · rw [hc, afterPowerLoss_fresh]; exact upd_ne_of_ne _ 0 1 (by decide)
    · rw [hc, afterPowerLoss_fresh]; exact upd_ne_upd_upd _ 0 1 1 1 (by decide) (by decide)

/-- the environment `with_connection` sets up on the unchanged tree (what the harness reads from the live connection) is safe -/
theorem default_env_safe : Env.default.deathSafe = true ∧ Env.default.powerSafe = true := by decide

/-! ### hand-over to the statement-level model -/

open PgVerif.Model.Store in
/-- **Why `runOp … (exit)` may say "nothing committed"**: lay the rows of the store out in pages in any way (`enc`); if the page
writes of an operation realise its fault-free effect, then in a death-safe environment the file found after a death at any
micro-step encodes the store before the call or the store the fault-free call commits — the two values `Props/C09.atomic` allows. -/
theorem store_death_justified (env : Env) (h : env.deathSafe = true) (enc : Db → File) (db : Db) (mem : Mem) (op : Op)
    (ws : List Ev) (hw : WritesOnly ws) (hws : effect ws (enc db) = enc (runOp db mem op none).db)
    (pre : List Ev) (hpre : pre <+: opEvents env (fresh (enc db)) ws) :
    afterDeath (run env (fresh (enc db)) pre) = enc db ∨
      afterDeath (run env (fresh (enc db)) pre) = enc (runOp db mem op none).db := by
  rw [← hws]
  exact deathSafe_sound env h (enc db) ws hw pre hpre

/-! ### non-vacuity: concrete schedules (kernel evaluation of the executable model) -/

/-- a file of zeros; a call writes pages 0 and 1, SQLite spills page 0 in between -/
def ex : List Ev := [.write 0 7, .spill 0, .write 1 8]

example : WritesOnly ex := by simp [WritesOnly, ex]

/-- default environment: the spilled page is in the database file when the process dies (`disk 0 = 7`), the journal file holds its
original, and the next connection finds the old content on both pages -/
example : (run Env.default (fresh fun _ => 0) ex).disk 0 = 7 ∧ (run Env.default (fresh fun _ => 0) ex).jfile = [(0, 0), (1, 0)] ∧
          afterDeath (run Env.default (fresh fun _ => 0) ex) 0 = 0 ∧ afterDeath (run Env.default (fresh fun _ => 0) ex) 1 = 0 := by
  decide

/-- the completed call: both pages new -/
example : (run Env.default (fresh fun _ => 0) (txn Env.default (fresh fun _ => 0) ex)).disk 0 = 7 ∧
          (run Env.default (fresh fun _ => 0) (txn Env.default (fresh fun _ => 0) ex)).disk 1 = 8 ∧
          (run Env.default (fresh fun _ => 0) (txn Env.default (fresh fun _ => 0) ex)).jfile = [] := by
  decide

/-- journal_mode = MEMORY: the same death leaves page 0 new and page 1 old -/
example : afterDeath (run ⟨.memory, true, true⟩ (fresh fun _ => 0) ex) 0 = 7 ∧
          afterDeath (run ⟨.memory, true, true⟩ (fresh fun _ => 0) ex) 1 = 0 := by
  decide

example : (⟨.memory, true, true⟩ : Env).deathSafe = false ∧ (⟨.file, false, true⟩ : Env).deathSafe = true ∧
          (⟨.file, false, true⟩ : Env).powerSafe = false ∧ (⟨.file, true, false⟩ : Env).deathSafe = false := by decide

end PgVerif.C09.Crash
