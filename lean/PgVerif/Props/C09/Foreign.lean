/-
C09 — the exception that leaves a planted statement, exactly; exceptions OUTSIDE the sqlite3 hierarchy.

`Props/C09.lean` proves, for every fault kind, that the committed content after a fault is the content before the call or the
complete effect (`atomic`), and that a fault planted inside the body makes the call fail (`fault_inside_body_fails`: `out ≠ ok`).
Here the outcome is determined exactly: a fault of a kind that is raised INSTEAD of statement `k` (every kind but `exitAfter`),
planted at a statement the fault-free run issues, leaves the body with precisely the exception of that kind — no statement of any
operation, and nothing in the operation bodies, catches or converts it — and `with_connection` maps it as its `except` clauses
say: IntegrityError or InterfaceError → `ParsingError`, every other `sqlite3.Error` AND every exception that is no `sqlite3.Error`
(`FaultKind.foreign`: OverflowError / UnicodeEncodeError raised by the driver while it binds a value, an exception of the module
itself between two statements, KeyboardInterrupt, MemoryError, SystemExit …) → propagated unchanged; in every case nothing is
committed, and the repeated operation commits what the fault-free call would have committed.

Reading of `(k, .foreign)` for exceptions raised BETWEEN two statements (after statement `k-1` returned, before statement `k` is
handed to the driver: the module's own `ParsingError` for an unsupported column type, whatever `json.dumps` raises): the planted
exception replaces statement `k`, which therefore has no effect — the same state as when the exception comes just before it.
-/
import PgVerif.Props.C09

namespace PgVerif.C09
open PgVerif.Model.Store PgVerif.StoreL

/-- the exception with which a hit fault of this kind leaves the statement -/
def errOf : FaultKind → SqlErr
  | .integrity => .integrity
  | .interface => .interface
  | .operational => .operational
  | .foreign => .foreign
  | .exitBefore => .exit
  | .exitAfter => .exit

/-- what `with_connection` reports for it -/
def outcomeOfKind : FaultKind → Outcome
  | .integrity => .parsingError
  | .interface => .parsingError
  | .operational => .otherError
  | .foreign => .otherError
  | .exitBefore => .died
  | .exitAfter => .died

lemma injected_hit (k : Nat) (kind : FaultKind) (h : kind ≠ .exitAfter) :
    injected (some (k, kind)) k = some (errOf kind) := by
  cases kind <;> simp [injected, errOf] at h ⊢

lemma injected_miss (k n : Nat) (kind : FaultKind) (h : k ≠ n) : injected (some (k, kind)) n = none := by
  cases kind <;> simp [injected, h]

lemma injected_some (k n : Nat) (kind : FaultKind) (e : SqlErr) (h : injected (some (k, kind)) n = some e) :
    e = errOf kind := by
  cases kind <;> simp only [injected] at h <;> first | (split_ifs at h; cases h; rfl) | cases h

/-- `notYet` with the escaping exception pinned down: until statement `k` is issued nothing differs from a run without fault
plan, and statement `k` is left with exactly `errOf kind` -/
lemma notYet_stmt_exact (k : Nat) (kind : FaultKind) (hkind : kind ≠ .exitAfter) {β : Type}
    (body : Db → Except SqlErr (β × Db)) :
    Rel (fun e => e = errOf kind) (notYet k kind) (stmt body) := by
  rintro ⟨db, mem, n, f⟩ _ ⟨rfl, h1, h2⟩
  simp only at h1 h2
  subst h1
  rw [exec_stmt]
  simp only
  rcases Nat.lt_or_eq_of_le h2 with hlt | rfl
  · rw [injected_miss k n kind (by omega)]
    simp only
    cases body db with
    | error e => exact Or.inr (by simp [notYet]; omega)
    | ok p =>
      obtain ⟨r, d⟩ := p
      simp only
      split
      · rename_i hc
        simp only [Option.some.injEq, Prod.mk.injEq] at hc
        omega
      · exact Or.inr (by simp [notYet]; omega)
  · left
    rw [injected_hit n kind hkind]
    exact ⟨_, rfl, rfl⟩

lemma notYet_modifyMem_exact (k : Nat) (kind : FaultKind) (f : Mem → Mem) :
    Rel (fun e => e = errOf kind) (notYet k kind) (modifyMem f) := by
  rintro w _ ⟨rfl, h1, h2⟩
  exact Or.inr ⟨rfl, rfl, h1, h2⟩

/-- `faultR` with the escaping exception pinned down: the only way the faulty run leaves the fault-free run is the exception of
the planted kind -/
lemma faultR_stmt_exact (k : Nat) (kind : FaultKind) {β : Type} (body : Db → Except SqlErr (β × Db)) :
    Rel (fun e => e = errOf kind) (faultR k kind) (stmt body) := by
  rintro ⟨db, mem, n, f⟩ ⟨db', mem', n', f'⟩ ⟨h1, h2, h3, h4, h5⟩
  simp only at h1 h2 h3 h4 h5
  subst h1 h2 h3 h4 h5
  rw [exec_stmt, exec_stmt]
  simp only
  cases hi : injected (some (k, kind)) n with
  | some e => exact Or.inl ⟨e, injected_some k n kind e hi, rfl⟩
  | none =>
    have h0 : injected none n = none := rfl
    rw [h0]
    simp only
    cases body db with
    | error e => exact Or.inr ⟨rfl, rfl, rfl, rfl, rfl, rfl⟩
    | ok p =>
      obtain ⟨r, d⟩ := p
      simp only
      split
      · rename_i hc
        simp only [Option.some.injEq, Prod.mk.injEq] at hc
        obtain ⟨_, rfl⟩ := hc
        exact Or.inl ⟨_, rfl, rfl⟩
      · exact Or.inr ⟨rfl, rfl, rfl, rfl, rfl, rfl⟩

lemma faultR_modifyMem_exact (k : Nat) (kind : FaultKind) (f : Mem → Mem) :
    Rel (fun e => e = errOf kind) (faultR k kind) (modifyMem f) := by
  rintro w w' ⟨h1, h2, h3, h4, h5⟩
  refine Or.inr ⟨rfl, h1, h2, ?_, h4, h5⟩
  simp only [exec_modifyMem, h3]

/-- **The planted exception is the one that leaves the body.**  A fault of a kind raised instead of the statement (every kind
but `exitAfter`), planted at a statement index the fault-free run reaches, ends the body with exactly that exception: no
operation body catches, converts or outruns it. -/
theorem fault_before_statement_raises (db : Db) (mem : Mem) (op : Op) (k : Nat) (kind : FaultKind)
    (hkind : kind ≠ .exitAfter) (hk : k < stmtCount db mem op) :
    (exec (prog op) ⟨db, mem, 0, some (k, kind)⟩).1 = .error (errOf kind) := by
  rcases rel_prog (fun b => notYet_stmt_exact k kind hkind b) (notYet_modifyMem_exact k kind) op
      ⟨db, mem, 0, some (k, kind)⟩ _ ⟨rfl, rfl, Nat.zero_le _⟩ with ⟨e, he, hr⟩ | ⟨_, _, _, h3⟩
  · rw [hr, he]
  · rcases rel_prog (fun b => faultR_stmt_exact k kind b) (faultR_modifyMem_exact k kind) op
        ⟨db, mem, 0, some (k, kind)⟩ ⟨db, mem, 0, none⟩ ⟨rfl, rfl, rfl, rfl, rfl⟩ with ⟨e, he, hr⟩ | ⟨_, _, h3', _⟩
    · rw [hr, he]
    · rw [stmtCount_eq] at hk
      omega

/-- **Outcome of a statement fault, exactly**: `ParsingError` for IntegrityError or InterfaceError, the exception itself for every other
`sqlite3.Error` and for every exception outside the sqlite3 hierarchy, death for a process exit — and the file is unchanged. -/
theorem fault_before_statement_outcome (db : Db) (mem : Mem) (op : Op) (k : Nat) (kind : FaultKind)
    (hkind : kind ≠ .exitAfter) (hk : k < stmtCount db mem op) :
    (runOp db mem op (some (k, kind))).out = outcomeOfKind kind ∧ (runOp db mem op (some (k, kind))).db = db := by
  have h := fault_before_statement_raises db mem op k kind hkind hk
  rw [runOp_eq]
  unfold finish
  rw [h]
  cases kind <;> exact ⟨rfl, rfl⟩

/-- **An exception that is no `sqlite3.Error`, at any statement of any operation, commits nothing**: the call ends with that
exception (`otherError`: it is neither translated nor swallowed), the file holds exactly what it held before, and the same
operation repeated afterwards — whatever the failed call left in the process-global lists — commits what the fault-free call
would have committed, with the same outcome. -/
theorem foreign_exception_commits_nothing (db : Db) (mem : Mem) (op : Op) (k : Nat) (hk : k < stmtCount db mem op) :
    (runOp db mem op (some (k, .foreign))).out = .otherError ∧
    (runOp db mem op (some (k, .foreign))).db = db ∧
    (runOp (runOp db mem op (some (k, .foreign))).db (runOp db mem op (some (k, .foreign))).mem op none).db =
      (runOp db mem op none).db ∧
    (runOp (runOp db mem op (some (k, .foreign))).db (runOp db mem op (some (k, .foreign))).mem op none).out =
      (runOp db mem op none).out := by
  obtain ⟨h1, h2⟩ := fault_before_statement_outcome db mem op k .foreign (by decide) hk
  exact ⟨h1, h2, retry_after_failure db mem op _ h2⟩

/-- as far as the file and the outcome are concerned, an exception outside the sqlite3 hierarchy is handled like the
`sqlite3.Error`s the wrapper does not translate: at every statement the fault-free run issues -/
theorem foreign_like_untranslated_db_error (db : Db) (mem : Mem) (op : Op) (k : Nat) (hk : k < stmtCount db mem op) :
    (runOp db mem op (some (k, .foreign))).out = (runOp db mem op (some (k, .operational))).out ∧
    (runOp db mem op (some (k, .foreign))).db = (runOp db mem op (some (k, .operational))).db := by
  obtain ⟨h1, h2⟩ := fault_before_statement_outcome db mem op k .foreign (by decide) hk
  obtain ⟨h3, h4⟩ := fault_before_statement_outcome db mem op k .operational (by decide) hk
  exact ⟨h1.trans h3.symm, h2.trans h4.symm⟩

/-- `exitAfter` is excluded above for a reason: when statement `k` fails by itself the process does not get to die after it.
(Witness: uploading a material that is already stored; statement 1, the INSERT, is refused: `ParsingError`, not death.) -/
example : 1 < stmtCount db0 mem0 (.matToDb (some "MOF-1") [] false false) ∧
    (runOp db0 mem0 (.matToDb (some "MOF-1") [] false false) (some (1, .exitAfter))).out = .parsingError ∧
    outcomeOfKind .exitAfter = .died := by decide +kernel

/-! ### non-vacuity -/

/-- the hypotheses are satisfiable (13 statements, fault at statement 3 … 12), and the conclusions are what the executable model
computes: a foreign exception inside the material auto-insertion (3), inside the metadata (11) and at the last data row (12) -/
example : stmtCount db0 mem0 (.isoToDb iso2 true true) = 13 ∧
    (runOp db0 mem0 (.isoToDb iso2 true true) (some (3, .foreign))).out = .otherError ∧
    (runOp db0 mem0 (.isoToDb iso2 true true) (some (3, .foreign))).db = db0 ∧
    (runOp db0 mem0 (.isoToDb iso2 true true) (some (11, .foreign))).db = db0 ∧
    (runOp db0 mem0 (.isoToDb iso2 true true) (some (12, .foreign))).out = .otherError ∧
    (runOp db0 mem0 (.isoToDb iso2 true true) (some (12, .foreign))).db = db0 ∧
    (runOp db0 mem0 (.isoToDb iso2 true true) (some (12, .foreign))).stmts = 13 := by decide +kernel

/-- beyond the last statement the plan is never hit: the call succeeds (so `k < stmtCount` is needed) -/
example : (runOp db0 mem0 (.isoToDb iso2 true true) (some (13, .foreign))).out = .ok := by decide +kernel

/-- after the foreign exception the same upload, repeated, succeeds and commits the fault-free effect -/
example :
    (runOp (runOp db0 mem0 (.isoToDb iso2 true true) (some (11, .foreign))).db
           (runOp db0 mem0 (.isoToDb iso2 true true) (some (11, .foreign))).mem (.isoToDb iso2 true true) none).db =
      (runOp db0 mem0 (.isoToDb iso2 true true) none).db := by decide +kernel

end PgVerif.C09
