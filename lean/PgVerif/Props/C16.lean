/-
C16 — mesopore size distributions conserve volume and follow the Kelvin equation.

Part A: the Kelvin / thickness formulas regenerated from the source (`Gen.CharR`), over ℝ.
Part B: the recurrences of the three classical methods (`Model.Meso`), over an arbitrary (ordered) field.
Part C: non-vacuity examples at ℚ.
-/
import Mathlib.Tactic
import Mathlib.Algebra.Order.Field.Rat
import PgVerif.Gen.CharR
import PgVerif.Model.Meso

set_option linter.unusedSectionVars false

namespace PgVerif.Props.C16
open PgVerif.Model.Meso PgVerif.Model.Linear

/-! ## helpers: pairwise maps -/

section Helpers

variable {α : Type} [Field α]

/-- ascending successive changes `[a1 - a0, a2 - a1, …]` -/
def succDiff : List α → List α
  | a :: b :: r => (b - a) :: succDiff (b :: r)
  | _ => []

/-- `[f a0 a1, f a1 a2, …]` -/
def pairMap {β γ : Type} (f : β → β → γ) : List β → List γ
  | a :: b :: r => f a b :: pairMap f (b :: r)
  | _ => []

lemma diffNeg_eq_pairMap (l : List α) : diffNeg l = pairMap (fun a b => a - b) l := by
  induction l with
  | nil => rfl
  | cons a l ih =>
    cases l with
    | nil => rfl
    | cons b r => simp only [diffNeg, pairMap, ih]

lemma avgPairs_eq_pairMap (l : List α) : avgPairs l = pairMap (fun a b => (a + b) / 2) l := by
  induction l with
  | nil => rfl
  | cons a l ih =>
    cases l with
    | nil => rfl
    | cons b r => simp only [avgPairs, pairMap, ih]

lemma succDiff_eq_pairMap (l : List α) : succDiff l = pairMap (fun a b => b - a) l := by
  induction l with
  | nil => rfl
  | cons a l ih =>
    cases l with
    | nil => rfl
    | cons b r => simp only [succDiff, pairMap, ih]

lemma pairMap_length {β γ : Type} (f : β → β → γ) (l : List β) : (pairMap f l).length = l.length - 1 := by
  induction l with
  | nil => rfl
  | cons a l ih =>
    cases l with
    | nil => rfl
    | cons b r => simp only [pairMap, List.length_cons, ih]; omega

lemma pairMap_snoc {β γ : Type} (f : β → β → γ) (l : List β) (x y : β) :
    pairMap f (l ++ [x, y]) = pairMap f (l ++ [x]) ++ [f x y] := by
  induction l with
  | nil => rfl
  | cons c l ih =>
    cases l with
    | nil => rfl
    | cons d r =>
      simp only [List.cons_append, pairMap] at ih ⊢
      rw [ih]

lemma pairMap_reverse {β γ : Type} (f : β → β → γ) (l : List β) :
    pairMap f l.reverse = (pairMap (fun a b => f b a) l).reverse := by
  induction l with
  | nil => rfl
  | cons a l ih =>
    cases l with
    | nil => rfl
    | cons b r =>
      have e : (a :: b :: r).reverse = r.reverse ++ [b, a] := by simp
      rw [e, pairMap_snoc]
      have e2 : r.reverse ++ [b] = (b :: r).reverse := by simp
      rw [e2, ih]
      simp [pairMap]

lemma forall_mem_pairMap {β γ : Type} (f : β → β → γ) (P : β → Prop) (R : γ → Prop) (l : List β)
    (hl : ∀ a ∈ l, P a) (hf : ∀ a b, P a → P b → R (f a b)) : ∀ x ∈ pairMap f l, R x := by
  induction l with
  | nil => intro x hx; simp [pairMap] at hx
  | cons a l ih =>
    cases l with
    | nil => intro x hx; simp [pairMap] at hx
    | cons b r =>
      intro x hx
      simp only [pairMap, List.mem_cons] at hx
      rcases hx with rfl | hx
      · exact hf _ _ (hl _ (by simp)) (hl _ (by simp))
      · exact ih (fun y hy => hl y (List.mem_cons_of_mem _ hy)) x (by simpa [pairMap] using hx)

lemma forall_mem_zipWith {β γ δ : Type} (f : β → γ → δ) (P : β → Prop) (Q : γ → Prop) (R : δ → Prop)
    (l₁ : List β) (l₂ : List γ) (h₁ : ∀ a ∈ l₁, P a) (h₂ : ∀ b ∈ l₂, Q b)
    (hf : ∀ a b, P a → Q b → R (f a b)) : ∀ x ∈ List.zipWith f l₁ l₂, R x := by
  induction l₁ generalizing l₂ with
  | nil => intro x hx; simp at hx
  | cons a l₁ ih =>
    cases l₂ with
    | nil => intro x hx; simp at hx
    | cons b l₂ =>
      intro x hx
      simp only [List.zipWith_cons_cons, List.mem_cons] at hx
      rcases hx with rfl | hx
      · exact hf _ _ (h₁ _ (by simp)) (h₂ _ (by simp))
      · exact ih l₂ (fun y hy => h₁ y (List.mem_cons_of_mem _ hy))
          (fun y hy => h₂ y (List.mem_cons_of_mem _ hy)) x hx

/-- the relation asked for in the task: `-numpy.diff` of the reversed array, reversed back, is the ascending change -/
theorem diffNeg_reverse (l : List α) : (diffNeg l.reverse).reverse = succDiff l := by
  rw [diffNeg_eq_pairMap, pairMap_reverse, List.reverse_reverse, succDiff_eq_pairMap]

end Helpers

/-! ## helpers: the loops -/

section Loops

variable {α : Type} [Field α]

lemma zipWith_add_zeros_left (z l : List α) (hz : ∀ x ∈ z, x = 0) (hl : l.length ≤ z.length) :
    List.zipWith (· + ·) z l = l := by
  induction l generalizing z with
  | nil => simp
  | cons a l ih =>
    cases z with
    | nil => simp at hl
    | cons b z =>
      have hb : b = 0 := hz b (by simp)
      simp only [List.zipWith_cons_cons, hb, zero_add]
      rw [ih z (fun x hx => hz x (List.mem_cons_of_mem _ hx)) (by simpa using hl)]

lemma zipWith_add_zeros_right (z l : List α) (hz : ∀ x ∈ z, x = 0) (hl : l.length ≤ z.length) :
    List.zipWith (· + ·) l z = l := by
  induction l generalizing z with
  | nil => simp
  | cons a l ih =>
    cases z with
    | nil => simp at hl
    | cons b z =>
      have hb : b = 0 := hz b (by simp)
      simp only [List.zipWith_cons_cons, hb, add_zero]
      rw [ih z (fun x hx => hz x (List.mem_cons_of_mem _ hx)) (by simpa using hl)]

lemma zip5_length (a b c d e : List α) (m : Nat) (ha : a.length = m) (hb : b.length = m) (hc : c.length = m)
    (hd : d.length = m) (he : e.length = m) : (zip5 a b c d e).length = m := by
  induction a generalizing b c d e m with
  | nil => simpa [zip5] using ha
  | cons x a ih =>
    cases b with
    | nil => subst hb; simp at ha
    | cons y b =>
    cases c with
    | nil => subst hc; simp at ha
    | cons z c =>
    cases d with
    | nil => subst hd; simp at ha
    | cons u d =>
    cases e with
    | nil => subst he; simp at ha
    | cons v e =>
      cases m with
      | zero => simp at ha
      | succ m =>
        simp only [zip5, List.length_cons, Nat.add_right_cancel_iff] at *
        exact ih b c d e m ha hb hc hd he

lemma zip5_map_dV (a b c d e : List α) (m : Nat) (ha : a.length = m) (hb : b.length = m) (hc : c.length = m)
    (hd : d.length = m) (he : e.length = m) : (zip5 a b c d e).map (·.dV) = a := by
  induction a generalizing b c d e m with
  | nil => simp [zip5]
  | cons x a ih =>
    cases b with
    | nil => subst hb; simp at ha
    | cons y b =>
    cases c with
    | nil => subst hc; simp at ha
    | cons z c =>
    cases d with
    | nil => subst hd; simp at ha
    | cons u d =>
    cases e with
    | nil => subst he; simp at ha
    | cons v e =>
      cases m with
      | zero => simp at ha
      | succ m =>
        simp only [List.length_cons, Nat.add_right_cancel_iff] at *
        simp only [zip5, List.map_cons, ih b c d e m ha hb hc hd he]

lemma mem_zip5 (a b c d e : List α) (r : DhRow α) (hr : r ∈ zip5 a b c d e) :
    r.dV ∈ a ∧ r.dT ∈ b ∧ r.avgT ∈ c ∧ r.avgW ∈ d ∧ r.ratio ∈ e := by
  fun_induction zip5 a b c d e with
  | case1 x a y b z c u d v e ih =>
    simp only [List.mem_cons] at hr ⊢
    rcases hr with rfl | hr
    · simp
    · obtain ⟨h1, h2, h3, h4, h5⟩ := ih hr
      exact ⟨Or.inr h1, Or.inr h2, Or.inr h3, Or.inr h4, Or.inr h5⟩
  | case2 => simp at hr

lemma zipR_length (a b c d e : List α) (m : Nat) (ha : a.length = m) (hb : b.length = m) (hc : c.length = m)
    (hd : d.length = m) (he : e.length = m) : (zipR a b c d e).length = m := by
  induction a generalizing b c d e m with
  | nil => simpa [zipR] using ha
  | cons x a ih =>
    cases b with
    | nil => subst hb; simp at ha
    | cons y b =>
    cases c with
    | nil => subst hc; simp at ha
    | cons z c =>
    cases d with
    | nil => subst hd; simp at ha
    | cons u d =>
    cases e with
    | nil => subst he; simp at ha
    | cons v e =>
      cases m with
      | zero => simp at ha
      | succ m =>
        simp only [zipR, List.length_cons, Nat.add_right_cancel_iff] at *
        exact ih b c d e m ha hb hc hd he

lemma zipR_map_dV (a b c d e : List α) (m : Nat) (ha : a.length = m) (hb : b.length = m) (hc : c.length = m)
    (hd : d.length = m) (he : e.length = m) : (zipR a b c d e).map (·.dV) = a := by
  induction a generalizing b c d e m with
  | nil => simp [zipR]
  | cons x a ih =>
    cases b with
    | nil => subst hb; simp at ha
    | cons y b =>
    cases c with
    | nil => subst hc; simp at ha
    | cons z c =>
    cases d with
    | nil => subst hd; simp at ha
    | cons u d =>
    cases e with
    | nil => subst he; simp at ha
    | cons v e =>
      cases m with
      | zero => simp at ha
      | succ m =>
        simp only [List.length_cons, Nat.add_right_cancel_iff] at *
        simp only [zipR, List.map_cons, ih b c d e m ha hb hc hd he]

lemma mem_zipR (a b c d e : List α) (r : RRow α) (hr : r ∈ zipR a b c d e) :
    r.dV ∈ a ∧ r.dT ∈ b ∧ r.avgT ∈ c ∧ r.avgR ∈ d ∧ r.ratio ∈ e := by
  fun_induction zipR a b c d e with
  | case1 x a y b z c u d v e ih =>
    simp only [List.mem_cons] at hr ⊢
    rcases hr with rfl | hr
    · simp
    · obtain ⟨h1, h2, h3, h4, h5⟩ := ih hr
      exact ⟨Or.inr h1, Or.inr h2, Or.inr h3, Or.inr h4, Or.inr h5⟩
  | case2 => simp at hr

/-- pyGAPS-DH loop: rows with no thickness change and unit ratio pass `dV` through, whatever the accumulator -/
lemma dhLoop_volumes (c : Nat) (rows : List (DhRow α)) (s : α)
    (h : ∀ r ∈ rows, r.dT = 0 ∧ r.ratio = 1) :
    (dhLoop c rows s).map (·.1) = rows.map (·.dV) := by
  induction rows generalizing s with
  | nil => rfl
  | cons r rest ih =>
    obtain ⟨h1, h2⟩ := h r (by simp)
    simp only [dhLoop, List.map_cons, h1, h2, zero_mul, sub_zero, mul_one]
    rw [ih _ (fun r' hr' => h r' (List.mem_cons_of_mem _ hr'))]

lemma bjhLoop_volumes (rows : List (RRow α)) (done : List (α × α))
    (h : ∀ r ∈ rows, r.dT = 0 ∧ r.ratio = 1) :
    (bjhLoop rows done).map (·.1) = rows.map (·.dV) := by
  induction rows generalizing done with
  | nil => rfl
  | cons r rest ih =>
    obtain ⟨h1, h2⟩ := h r (by simp)
    simp only [bjhLoop, List.map_cons, h1, h2, zero_mul, sub_zero, mul_one]
    rw [ih _ (fun r' hr' => h r' (List.mem_cons_of_mem _ hr'))]

lemma dollimoreLoop_volumes (rows : List (RRow α)) (s t : α)
    (h : ∀ r ∈ rows, r.dT = 0 ∧ r.ratio = 1) :
    (dollimoreLoop rows s t).map (·.1) = rows.map (·.dV) := by
  induction rows generalizing s t with
  | nil => rfl
  | cons r rest ih =>
    obtain ⟨h1, h2⟩ := h r (by simp)
    simp only [dollimoreLoop, List.map_cons, h1, h2, zero_mul, sub_zero, mul_one]
    rw [ih _ _ (fun r' hr' => h r' (List.mem_cons_of_mem _ hr'))]

lemma dhLoop_length (c : Nat) (rows : List (DhRow α)) (s : α) : (dhLoop c rows s).length = rows.length := by
  induction rows generalizing s with
  | nil => rfl
  | cons r rest ih => simp only [dhLoop, List.length_cons, ih]

lemma bjhLoop_length (rows : List (RRow α)) (done : List (α × α)) : (bjhLoop rows done).length = rows.length := by
  induction rows generalizing done with
  | nil => rfl
  | cons r rest ih => simp only [bjhLoop, List.length_cons, ih]

lemma dollimoreLoop_length (rows : List (RRow α)) (s t : α) : (dollimoreLoop rows s t).length = rows.length := by
  induction rows generalizing s t with
  | nil => rfl
  | cons r rest ih => simp only [dollimoreLoop, List.length_cons, ih]

end Loops

/-! ## B. the recurrences -/

section Recurrences

variable {α : Type} [Field α]

/-- 8 (pyGAPS-DH). With a zero-thickness layer and positive Kelvin radii the pore volumes are exactly the
successive changes in adsorbed volume. -/
theorem zero_thickness_volumes_pygapsDH [LinearOrder α] [IsStrictOrderedRing α]
    (c n : Nat) (vol thick kelvin : List α)
    (hthick : thick = List.replicate n 0) (hk : kelvin.length = n) (hv : vol.length = n)
    (hpos : ∀ k ∈ kelvin, 0 < k) :
    (pygapsDH c vol thick kelvin).volumes = succDiff vol := by
  have hT : ∀ t ∈ thick.reverse, t = 0 := by
    intro t ht
    rw [hthick] at ht
    simp only [List.reverse_replicate, List.mem_replicate] at ht
    exact ht.2
  have hK : ∀ k ∈ kelvin.reverse, 0 < k := fun k hk' => hpos k (by simpa using hk')
  have hdT : ∀ x ∈ diffNeg thick.reverse, x = 0 := by
    rw [diffNeg_eq_pairMap]
    exact forall_mem_pairMap _ (· = 0) (· = 0) _ hT (fun a b ha hb => by simp only [ha, hb, sub_zero])
  have havgT : ∀ x ∈ avgPairs thick.reverse, x = 0 := by
    rw [avgPairs_eq_pairMap]
    exact forall_mem_pairMap _ (· = 0) (· = 0) _ hT (fun a b ha hb => by simp only [ha, hb, add_zero, zero_div])
  have hW : ∀ x ∈ List.zipWith (fun t k => 2 * (t + k)) thick.reverse kelvin.reverse, 0 < x :=
    forall_mem_zipWith _ (· = 0) (0 < ·) (0 < ·) _ _ hT hK (fun a b ha hb => by
      simp only [ha, zero_add]; positivity)
  have havgW : ∀ x ∈ avgPairs (List.zipWith (fun t k => 2 * (t + k)) thick.reverse kelvin.reverse), 0 < x := by
    rw [avgPairs_eq_pairMap]
    exact forall_mem_pairMap _ (0 < ·) (0 < ·) _ hW (fun a b ha hb => by positivity)
  have hratio : ∀ x ∈ List.zipWith (fun aw at' => (aw / (aw - 2 * at')) ^ 2)
      (avgPairs (List.zipWith (fun t k => 2 * (t + k)) thick.reverse kelvin.reverse)) (avgPairs thick.reverse),
      x = 1 :=
    forall_mem_zipWith _ (0 < ·) (· = 0) (· = 1) _ _ havgW havgT (fun a b ha hb => by
      simp only [hb, mul_zero, sub_zero, div_self ha.ne', one_pow])
  have hlt : thick.length = n := by rw [hthick]; simp
  unfold pygapsDH
  simp only []
  rw [dhLoop_volumes _ _ _ (fun r hr => by
    obtain ⟨-, h2, -, -, h5⟩ := mem_zip5 _ _ _ _ _ r hr
    exact ⟨hdT _ h2, hratio _ h5⟩)]
  rw [zip5_map_dV _ _ _ _ _ (n - 1), diffNeg_reverse]
  all_goals
    simp [diffNeg_eq_pairMap, avgPairs_eq_pairMap, pairMap_length, hlt, hk, hv]

/-- the shared part of BJH / Dollimore-Heal: any loop that passes `dV` through on rows with `dT = 0`, `ratio = 1` -/
lemma radiusMethod_zero_thickness [LinearOrder α] [IsStrictOrderedRing α]
    (loop : List (RRow α) → List (α × α))
    (hloop : ∀ rows, (∀ r ∈ rows, r.dT = 0 ∧ r.ratio = 1) → (loop rows).map (·.1) = rows.map (·.dV))
    (n : Nat) (vol thick kelvin : List α)
    (hthick : thick = List.replicate n 0) (hk : kelvin.length = n) (hv : vol.length = n)
    (hpos : ∀ k ∈ kelvin, 0 < k) :
    (radiusMethod loop vol thick kelvin).volumes = succDiff vol := by
  have hT : ∀ t ∈ thick.reverse, t = 0 := by
    intro t ht
    rw [hthick] at ht
    simp only [List.reverse_replicate, List.mem_replicate] at ht
    exact ht.2
  have hlt : thick.length = n := by rw [hthick]; simp
  have hK : ∀ k ∈ kelvin.reverse, 0 < k := fun k hk' => hpos k (by simpa using hk')
  have hdT : ∀ x ∈ diffNeg thick.reverse, x = 0 := by
    rw [diffNeg_eq_pairMap]
    exact forall_mem_pairMap _ (· = 0) (· = 0) _ hT (fun a b ha hb => by simp only [ha, hb, sub_zero])
  have havgK : ∀ x ∈ avgPairs kelvin.reverse, 0 < x := by
    rw [avgPairs_eq_pairMap]
    exact forall_mem_pairMap _ (0 < ·) (0 < ·) _ hK (fun a b ha hb => by positivity)
  have hrad : List.zipWith (· + ·) thick.reverse kelvin.reverse = kelvin.reverse :=
    zipWith_add_zeros_left _ _ hT (by simp [hlt, hk])
  have hkd : List.zipWith (· + ·) (avgPairs kelvin.reverse) (diffNeg thick.reverse) = avgPairs kelvin.reverse :=
    zipWith_add_zeros_right _ _ hdT (by simp [diffNeg_eq_pairMap, avgPairs_eq_pairMap, pairMap_length, hlt, hk])
  unfold radiusMethod
  simp only []
  rw [hrad, hkd, List.zipWith_self]
  rw [hloop _ (fun r hr => by
    obtain ⟨-, h2, -, -, h5⟩ := mem_zipR _ _ _ _ _ r hr
    refine ⟨hdT _ h2, ?_⟩
    obtain ⟨a, ha, e⟩ := List.mem_map.1 h5
    rw [← e, div_self (havgK a ha).ne', one_pow])]
  rw [zipR_map_dV _ _ _ _ _ (n - 1), diffNeg_reverse]
  all_goals
    simp [diffNeg_eq_pairMap, avgPairs_eq_pairMap, pairMap_length, hlt, hk, hv]

/-- 8 (BJH). -/
theorem zero_thickness_volumes_bjh [LinearOrder α] [IsStrictOrderedRing α]
    (n : Nat) (vol thick kelvin : List α)
    (hthick : thick = List.replicate n 0) (hk : kelvin.length = n) (hv : vol.length = n)
    (hpos : ∀ k ∈ kelvin, 0 < k) :
    (bjh vol thick kelvin).volumes = succDiff vol :=
  radiusMethod_zero_thickness _ (fun rows h => bjhLoop_volumes rows [] h) n vol thick kelvin hthick hk hv hpos

/-- 8 (Dollimore-Heal). -/
theorem zero_thickness_volumes_dollimoreHeal [LinearOrder α] [IsStrictOrderedRing α]
    (n : Nat) (vol thick kelvin : List α)
    (hthick : thick = List.replicate n 0) (hk : kelvin.length = n) (hv : vol.length = n)
    (hpos : ∀ k ∈ kelvin, 0 < k) :
    (dollimoreHeal vol thick kelvin).volumes = succDiff vol :=
  radiusMethod_zero_thickness _ (fun rows h => dollimoreLoop_volumes rows 0 0 h) n vol thick kelvin hthick hk hv hpos

/-! ### 9. telescoping -/

/-- 9. the successive changes sum to the total change -/
theorem succDiff_sum (l : List α) (h : l ≠ []) : (succDiff l).sum = l.getLast h - l.head h := by
  induction l with
  | nil => exact absurd rfl h
  | cons a l ih =>
    cases l with
    | nil => simp [succDiff]
    | cons b r =>
      have := ih (by simp)
      simp only [succDiff, List.sum_cons, this, List.getLast_cons_cons, List.head_cons]
      ring

/-- `Model.Linear.sum` is `List.sum` -/
lemma linear_sum_eq [LinearOrder α] (l : List α) : PgVerif.Model.Linear.sum l = l.sum := by
  induction l with
  | nil => rfl
  | cons a l ih => simp only [PgVerif.Model.Linear.sum, List.foldr_cons, List.sum_cons] at ih ⊢; rw [ih]

/-- 9 (corollaries). With a zero-thickness layer the pore volumes sum to the total change in adsorbed volume. -/
theorem volumes_sum_total_change_pygapsDH [LinearOrder α] [IsStrictOrderedRing α]
    (c n : Nat) (vol thick kelvin : List α)
    (hthick : thick = List.replicate n 0) (hk : kelvin.length = n) (hv : vol.length = n)
    (hpos : ∀ k ∈ kelvin, 0 < k) (hne : vol ≠ []) :
    (pygapsDH c vol thick kelvin).volumes.sum = vol.getLast hne - vol.head hne := by
  rw [zero_thickness_volumes_pygapsDH c n vol thick kelvin hthick hk hv hpos, succDiff_sum]

theorem volumes_sum_total_change_bjh [LinearOrder α] [IsStrictOrderedRing α]
    (n : Nat) (vol thick kelvin : List α)
    (hthick : thick = List.replicate n 0) (hk : kelvin.length = n) (hv : vol.length = n)
    (hpos : ∀ k ∈ kelvin, 0 < k) (hne : vol ≠ []) :
    (bjh vol thick kelvin).volumes.sum = vol.getLast hne - vol.head hne := by
  rw [zero_thickness_volumes_bjh n vol thick kelvin hthick hk hv hpos, succDiff_sum]

theorem volumes_sum_total_change_dollimoreHeal [LinearOrder α] [IsStrictOrderedRing α]
    (n : Nat) (vol thick kelvin : List α)
    (hthick : thick = List.replicate n 0) (hk : kelvin.length = n) (hv : vol.length = n)
    (hpos : ∀ k ∈ kelvin, 0 < k) (hne : vol ≠ []) :
    (dollimoreHeal vol thick kelvin).volumes.sum = vol.getLast hne - vol.head hne := by
  rw [zero_thickness_volumes_dollimoreHeal n vol thick kelvin hthick hk hv hpos, succDiff_sum]

/-- the same with the project's own `sum` -/
theorem volumes_sum_total_change [LinearOrder α] [IsStrictOrderedRing α]
    (c n : Nat) (vol thick kelvin : List α)
    (hthick : thick = List.replicate n 0) (hk : kelvin.length = n) (hv : vol.length = n)
    (hpos : ∀ k ∈ kelvin, 0 < k) (hne : vol ≠ []) :
    PgVerif.Model.Linear.sum (pygapsDH c vol thick kelvin).volumes = vol.getLast hne - vol.head hne ∧
    PgVerif.Model.Linear.sum (bjh vol thick kelvin).volumes = vol.getLast hne - vol.head hne ∧
    PgVerif.Model.Linear.sum (dollimoreHeal vol thick kelvin).volumes = vol.getLast hne - vol.head hne := by
  simp only [linear_sum_eq]
  exact ⟨volumes_sum_total_change_pygapsDH c n vol thick kelvin hthick hk hv hpos hne,
    volumes_sum_total_change_bjh n vol thick kelvin hthick hk hv hpos hne,
    volumes_sum_total_change_dollimoreHeal n vol thick kelvin hthick hk hv hpos hne⟩

/-! ### 11. the cumulative curve -/

/-- `numpy.cumsum` keeps the length -/
theorem cumsum_length (xs : List α) (a : α) : (cumsum xs a).length = xs.length := by
  induction xs generalizing a with
  | nil => rfl
  | cons x xs ih => simp [cumsum, ih]

lemma cumsum_ne_nil (xs : List α) (a : α) (h : xs ≠ []) : cumsum xs a ≠ [] := by
  cases xs with
  | nil => exact absurd rfl h
  | cons x xs => simp [cumsum]

/-- 11. `pore_volume_cumulative` has one entry per pore volume -/
theorem cumulative_length (vols vol : List α) : (cumulative vols vol).length = vols.length := by
  simp [cumulative, cumsum_length]

/-- 11. the cumulative curve ends at the volume adsorbed at the highest pressure used -/
theorem cumulative_last (vols vol : List α) (h : vols ≠ []) :
    (cumulative vols vol).getLastD 0 = vol.getLastD 0 := by
  have hne := cumsum_ne_nil vols 0 h
  unfold cumulative
  simp only []
  rw [List.getLastD_eq_getLast?, List.getLast?_map, List.getLast?_eq_some_getLast hne]
  simp [List.getLastD_eq_getLast?, List.getLast?_eq_some_getLast hne]

lemma succDiff_map_add (l : List α) (c : α) : succDiff (l.map (fun x => x + c)) = succDiff l := by
  induction l with
  | nil => rfl
  | cons a l ih =>
    cases l with
    | nil => rfl
    | cons b r =>
      simp only [List.map_cons, succDiff] at ih ⊢
      rw [ih]; congr 1; ring

lemma succDiff_cumsum (xs : List α) (a : α) : succDiff (cumsum xs a) = xs.tail := by
  induction xs generalizing a with
  | nil => rfl
  | cons x xs ih =>
    cases xs with
    | nil => rfl
    | cons y r =>
      have := ih (a + x)
      simp only [cumsum, succDiff, List.tail_cons] at this ⊢
      rw [this]; congr 1; ring

/-- 11. successive differences of the cumulative curve are the pore volumes (the curve is the running sum shifted
by a constant) -/
theorem cumulative_succDiff (vols vol : List α) : succDiff (cumulative vols vol) = vols.tail := by
  unfold cumulative
  simp only []
  have : (fun x => x - (cumsum vols 0).getLastD 0 + vol.getLastD 0)
      = (fun x => x + (vol.getLastD 0 - (cumsum vols 0).getLastD 0)) := by
    funext x; ring
  rw [this, succDiff_map_add, succDiff_cumsum]

/-! ### 7. widths -/

lemma reverse_drop_one_reverse {β : Type} (l : List β) : (l.reverse.drop 1).reverse = l.dropLast := by
  rw [List.drop_one, List.tail_reverse, List.reverse_reverse]

/-- 7 (pyGAPS-DH). reported widths are twice (thickness + Kelvin radius) at the measured pressures, all but the top one -/
theorem widths_spec_pygapsDH (c : Nat) (vol thick kelvin : List α) (h : thick.length = kelvin.length) :
    (pygapsDH c vol thick kelvin).widths = (List.zipWith (fun t k => 2 * (t + k)) thick kelvin).dropLast := by
  unfold pygapsDH
  simp only []
  rw [← List.reverse_zipWith h, reverse_drop_one_reverse]

lemma widths_spec_radiusMethod (loop : List (RRow α) → List (α × α)) (vol thick kelvin : List α)
    (h : thick.length = kelvin.length) :
    (radiusMethod loop vol thick kelvin).widths = (List.zipWith (fun t k => (t + k) * 2) thick kelvin).dropLast := by
  unfold radiusMethod
  simp only []
  rw [← List.reverse_zipWith h, reverse_drop_one_reverse, List.map_dropLast, List.map_zipWith]

/-- 7 (BJH). -/
theorem widths_spec_bjh (vol thick kelvin : List α) (h : thick.length = kelvin.length) :
    (bjh vol thick kelvin).widths = (List.zipWith (fun t k => (t + k) * 2) thick kelvin).dropLast :=
  widths_spec_radiusMethod _ vol thick kelvin h

/-- 7 (Dollimore-Heal). -/
theorem widths_spec_dollimoreHeal (vol thick kelvin : List α) (h : thick.length = kelvin.length) :
    (dollimoreHeal vol thick kelvin).widths = (List.zipWith (fun t k => (t + k) * 2) thick kelvin).dropLast :=
  widths_spec_radiusMethod _ vol thick kelvin h

/-! ### 13. lengths -/

lemma diffNeg_length (l : List α) : (diffNeg l).length = l.length - 1 := by
  rw [diffNeg_eq_pairMap, pairMap_length]

lemma avgPairs_length (l : List α) : (avgPairs l).length = l.length - 1 := by
  rw [avgPairs_eq_pairMap, pairMap_length]

lemma succDiff_length (l : List α) : (succDiff l).length = l.length - 1 := by
  rw [succDiff_eq_pairMap, pairMap_length]

lemma pygapsDH_rows_length (c n : Nat) (vol thick kelvin : List α)
    (hv : vol.length = n) (ht : thick.length = n) (hk : kelvin.length = n) (s : α) :
    (dhLoop c (zip5 (diffNeg vol.reverse) (diffNeg thick.reverse)
      (avgPairs thick.reverse)
      (avgPairs (List.zipWith (fun t k => 2 * (t + k)) thick.reverse kelvin.reverse))
      (List.zipWith (fun aw at' => (aw / (aw - 2 * at')) ^ 2)
        (avgPairs (List.zipWith (fun t k => 2 * (t + k)) thick.reverse kelvin.reverse))
        (avgPairs thick.reverse))) s).length = n - 1 := by
  rw [dhLoop_length, zip5_length _ _ _ _ _ (n - 1)] <;>
    simp [diffNeg_length, avgPairs_length, hv, ht, hk]

/-- 13 (pyGAPS-DH). every result array has length `n - 1` -/
theorem lengths_pygapsDH (c n : Nat) (vol thick kelvin : List α)
    (hv : vol.length = n) (ht : thick.length = n) (hk : kelvin.length = n) :
    (pygapsDH c vol thick kelvin).widths.length = n - 1 ∧
    (pygapsDH c vol thick kelvin).areas.length = n - 1 ∧
    (pygapsDH c vol thick kelvin).volumes.length = n - 1 ∧
    (pygapsDH c vol thick kelvin).distribution.length = n - 1 := by
  have h := pygapsDH_rows_length c n vol thick kelvin hv ht hk 0
  unfold pygapsDH
  simp only [List.length_reverse, List.length_map, List.length_zipWith, List.length_drop, h, diffNeg_length,
    ht, hk, min_self]
  simp

lemma radiusMethod_rows_length (n : Nat) (vol thick kelvin : List α)
    (hv : vol.length = n) (ht : thick.length = n) (hk : kelvin.length = n) :
    (zipR (diffNeg vol.reverse) (diffNeg thick.reverse) (avgPairs thick.reverse)
      (avgPairs (List.zipWith (· + ·) thick.reverse kelvin.reverse))
      (List.zipWith (fun (ar : α) (kd : α) => (ar / kd) ^ 2)
        (avgPairs (List.zipWith (· + ·) thick.reverse kelvin.reverse))
        (List.zipWith (· + ·) (avgPairs kelvin.reverse) (diffNeg thick.reverse)))).length = n - 1 := by
  rw [zipR_length _ _ _ _ _ (n - 1)] <;>
    simp [diffNeg_length, avgPairs_length, hv, ht, hk]

lemma lengths_radiusMethod (loop : List (RRow α) → List (α × α))
    (hloop : ∀ rows, (loop rows).length = rows.length) (n : Nat) (vol thick kelvin : List α)
    (hv : vol.length = n) (ht : thick.length = n) (hk : kelvin.length = n) :
    (radiusMethod loop vol thick kelvin).widths.length = n - 1 ∧
    (radiusMethod loop vol thick kelvin).areas.length = n - 1 ∧
    (radiusMethod loop vol thick kelvin).volumes.length = n - 1 ∧
    (radiusMethod loop vol thick kelvin).distribution.length = n - 1 := by
  have h := radiusMethod_rows_length n vol thick kelvin hv ht hk
  unfold radiusMethod
  simp only [List.length_reverse, List.length_map, List.length_zipWith, List.length_drop, hloop, h, diffNeg_length,
    ht, hk, min_self]
  simp

/-- 13 (BJH). -/
theorem lengths_bjh (n : Nat) (vol thick kelvin : List α)
    (hv : vol.length = n) (ht : thick.length = n) (hk : kelvin.length = n) :
    (bjh vol thick kelvin).widths.length = n - 1 ∧
    (bjh vol thick kelvin).areas.length = n - 1 ∧
    (bjh vol thick kelvin).volumes.length = n - 1 ∧
    (bjh vol thick kelvin).distribution.length = n - 1 :=
  lengths_radiusMethod _ (fun rows => bjhLoop_length rows []) n vol thick kelvin hv ht hk

/-- 13 (Dollimore-Heal). -/
theorem lengths_dollimoreHeal (n : Nat) (vol thick kelvin : List α)
    (hv : vol.length = n) (ht : thick.length = n) (hk : kelvin.length = n) :
    (dollimoreHeal vol thick kelvin).widths.length = n - 1 ∧
    (dollimoreHeal vol thick kelvin).areas.length = n - 1 ∧
    (dollimoreHeal vol thick kelvin).volumes.length = n - 1 ∧
    (dollimoreHeal vol thick kelvin).distribution.length = n - 1 :=
  lengths_radiusMethod _ (fun rows => dollimoreLoop_length rows 0 0) n vol thick kelvin hv ht hk

/-! ### 10. distribution × width increment = pore volume -/

lemma zipWith_cancel (f : α → α → α) (g : α → α) (V D : List α) (hl : V.length ≤ D.length)
    (h : ∀ v, ∀ d ∈ D, f v d * g d = v) :
    List.zipWith (· * ·) (List.zipWith f V D) (D.map g) = V := by
  induction V generalizing D with
  | nil => simp
  | cons v V ih =>
    cases D with
    | nil => simp at hl
    | cons d D =>
      simp only [List.zipWith_cons_cons, List.map_cons]
      rw [h v d (by simp), ih D (by simpa using hl) (fun v d hd => h v d (List.mem_cons_of_mem _ hd))]

lemma zipWith_cancel_reverse (f : α → α → α) (g : α → α) (V D : List α) (hl : V.length = D.length)
    (h : ∀ v, ∀ d ∈ D, f v d * g d = v) :
    List.zipWith (· * ·) (List.zipWith f V D).reverse (D.map g).reverse = V.reverse := by
  rw [← List.reverse_zipWith (by simp [hl]), zipWith_cancel f g V D hl.le h]

lemma succDiff_map_mul (l : List α) (c : α) : succDiff (l.map (fun x => c * x)) = (succDiff l).map (fun x => c * x) := by
  induction l with
  | nil => rfl
  | cons a l ih =>
    cases l with
    | nil => rfl
    | cons b r =>
      simp only [List.map_cons, succDiff] at ih ⊢
      rw [ih]; congr 1; ring

lemma dist_cancel_div (V D : List α) (hl : V.length = D.length) (hD : ∀ d ∈ D.reverse, d ≠ 0) :
    List.zipWith (· * ·) (List.zipWith (· / ·) V D).reverse D.reverse = V.reverse := by
  have := zipWith_cancel_reverse (· / ·) id V D hl
    (fun v d hd => div_mul_cancel₀ v (hD d (by simpa using hd)))
  simpa only [List.map_id] using this

/-- 10 (pyGAPS-DH). the distribution times the width increments equals the pore volumes (increments non-zero) -/
theorem distribution_times_increment_pygapsDH (c n : Nat) (vol thick kelvin : List α)
    (hv : vol.length = n) (ht : thick.length = n) (hk : kelvin.length = n)
    (hw : ∀ x ∈ succDiff (List.zipWith (fun t k => 2 * (t + k)) thick kelvin), x ≠ 0) :
    List.zipWith (· * ·) (pygapsDH c vol thick kelvin).distribution
      (succDiff (List.zipWith (fun t k => 2 * (t + k)) thick kelvin))
      = (pygapsDH c vol thick kelvin).volumes := by
  have htk : thick.length = kelvin.length := by omega
  have hlen := pygapsDH_rows_length c n vol thick kelvin hv ht hk 0
  rw [← diffNeg_reverse, List.reverse_zipWith htk] at hw ⊢
  unfold pygapsDH
  simp only []
  have hD : (diffNeg (List.zipWith (fun t k => 2 * (t + k)) thick.reverse kelvin.reverse)).length = n - 1 := by
    simp [diffNeg_length, ht, hk]
  apply dist_cancel_div
  · rw [List.length_map, hlen, hD]
  · exact hw

lemma dist_cancel_half (V D : List α) (hl : V.length = D.length)
    (hD : ∀ d ∈ (D.map (fun x => 2 * x)).reverse, d ≠ 0) :
    List.zipWith (· * ·) (List.zipWith (fun v d => v / d / 2) V D).reverse (D.map (fun x => 2 * x)).reverse
      = V.reverse := by
  refine zipWith_cancel_reverse (fun v d => v / d / 2) (fun x => 2 * x) V D hl (fun v d hd => ?_)
  have h2d : 2 * d ≠ 0 := hD _ (by simp only [List.mem_reverse, List.mem_map]; exact ⟨d, hd, rfl⟩)
  have h2 : (2 : α) ≠ 0 := left_ne_zero_of_mul h2d
  have hd0 : d ≠ 0 := right_ne_zero_of_mul h2d
  field_simp

lemma distribution_times_increment_radiusMethod (loop : List (RRow α) → List (α × α))
    (hloop : ∀ rows, (loop rows).length = rows.length) (n : Nat) (vol thick kelvin : List α)
    (hv : vol.length = n) (ht : thick.length = n) (hk : kelvin.length = n)
    (hw : ∀ x ∈ succDiff (List.zipWith (fun t k => 2 * (t + k)) thick kelvin), x ≠ 0) :
    List.zipWith (· * ·) (radiusMethod loop vol thick kelvin).distribution
      (succDiff (List.zipWith (fun t k => 2 * (t + k)) thick kelvin))
      = (radiusMethod loop vol thick kelvin).volumes := by
  have htk : thick.length = kelvin.length := by omega
  have hlen := radiusMethod_rows_length n vol thick kelvin hv ht hk
  have e : List.zipWith (fun t k => 2 * (t + k)) thick kelvin
      = (List.zipWith (· + ·) thick kelvin).map (fun x => 2 * x) := by
    rw [List.map_zipWith]
  rw [e, succDiff_map_mul, ← diffNeg_reverse, List.reverse_zipWith htk, List.map_reverse] at hw ⊢
  unfold radiusMethod
  simp only []
  have hD : (diffNeg (List.zipWith (· + ·) thick.reverse kelvin.reverse)).length = n - 1 := by
    simp [diffNeg_length, ht, hk]
  apply dist_cancel_half
  · rw [List.length_map, hloop, hlen, hD]
  · exact hw

/-- 10 (BJH). -/
theorem distribution_times_increment_bjh (n : Nat) (vol thick kelvin : List α)
    (hv : vol.length = n) (ht : thick.length = n) (hk : kelvin.length = n)
    (hw : ∀ x ∈ succDiff (List.zipWith (fun t k => 2 * (t + k)) thick kelvin), x ≠ 0) :
    List.zipWith (· * ·) (bjh vol thick kelvin).distribution
      (succDiff (List.zipWith (fun t k => 2 * (t + k)) thick kelvin))
      = (bjh vol thick kelvin).volumes :=
  distribution_times_increment_radiusMethod _ (fun rows => bjhLoop_length rows []) n vol thick kelvin hv ht hk hw

/-- 10 (Dollimore-Heal). -/
theorem distribution_times_increment_dollimoreHeal (n : Nat) (vol thick kelvin : List α)
    (hv : vol.length = n) (ht : thick.length = n) (hk : kelvin.length = n)
    (hw : ∀ x ∈ succDiff (List.zipWith (fun t k => 2 * (t + k)) thick kelvin), x ≠ 0) :
    List.zipWith (· * ·) (dollimoreHeal vol thick kelvin).distribution
      (succDiff (List.zipWith (fun t k => 2 * (t + k)) thick kelvin))
      = (dollimoreHeal vol thick kelvin).volumes :=
  distribution_times_increment_radiusMethod _ (fun rows => dollimoreLoop_length rows 0 0) n vol thick kelvin hv ht hk hw

/-! ### 12. a single condensation step gives a single peak -/

lemma succDiff_replicate (k : Nat) (x : α) : succDiff (List.replicate k x) = List.replicate (k - 1) 0 := by
  induction k with
  | zero => rfl
  | succ k ih =>
    cases k with
    | zero => rfl
    | succ k =>
      simp only [List.replicate_succ, succDiff, sub_self] at ih ⊢
      rw [ih]; simp [List.replicate_succ]

/-- 12. successive changes of a single step of height `d` after `j + 1` points: one entry `d` at interval `j` -/
theorem succDiff_single_step (j m : Nat) (hm : 1 ≤ m) (a d : α) :
    succDiff (List.replicate (j + 1) a ++ List.replicate m (a + d))
      = List.replicate j 0 ++ [d] ++ List.replicate (m - 1) 0 := by
  induction j with
  | zero =>
    obtain ⟨m, rfl⟩ : ∃ m', m = m' + 1 := ⟨m - 1, by omega⟩
    have := succDiff_replicate (m + 1) (a + d)
    simp only [List.replicate_succ, List.replicate_zero, List.cons_append, List.nil_append, succDiff,
      Nat.add_sub_cancel, add_sub_cancel_left] at this ⊢
    rw [this]
  | succ j ih =>
    simp only [List.replicate_succ, List.cons_append, succDiff, sub_self] at ih ⊢
    rw [ih]

lemma widths_at (f : α → α → α) (n j : Nat) (kelvin : List α) (hk : kelvin.length = n) (hj : j + 1 < n) :
    ((List.zipWith f (List.replicate n 0) kelvin).dropLast)[j]? = some (f 0 (kelvin[j]'(by omega))) := by
  rw [List.dropLast_eq_take, List.getElem?_take_of_lt (by simp [hk]; omega), List.getElem?_zipWith]
  have h1 : (List.replicate n (0 : α))[j]? = some 0 := by
    rw [List.getElem?_replicate]; simp; omega
  have h2 : kelvin[j]? = some (kelvin[j]'(by omega)) := List.getElem?_eq_getElem (by omega)
  rw [h1, h2]

/-- 12 (pyGAPS-DH). zero thickness, a single step of height `d` between points `j` and `j+1`: the only non-zero pore
volume is `d`, at interval `j`, and the width reported for that interval is `2 * kelvin[j]` -/
theorem single_step_single_peak_pygapsDH [LinearOrder α] [IsStrictOrderedRing α]
    (c n j m : Nat) (hm : 1 ≤ m) (a d : α) (vol thick kelvin : List α)
    (hthick : thick = List.replicate n 0) (hk : kelvin.length = n)
    (hvol : vol = List.replicate (j + 1) a ++ List.replicate m (a + d)) (hn : n = j + 1 + m)
    (hpos : ∀ k ∈ kelvin, 0 < k) :
    (pygapsDH c vol thick kelvin).volumes = List.replicate j 0 ++ [d] ++ List.replicate (m - 1) 0 ∧
    (pygapsDH c vol thick kelvin).widths[j]? = some (2 * kelvin[j]'(by omega)) := by
  have hv : vol.length = n := by rw [hvol, hn]; simp
  refine ⟨?_, ?_⟩
  · rw [zero_thickness_volumes_pygapsDH c n vol thick kelvin hthick hk hv hpos, hvol, succDiff_single_step j m hm]
  · rw [widths_spec_pygapsDH c vol thick kelvin (by rw [hthick, hk]; simp), hthick,
      widths_at _ n j kelvin hk (by omega), zero_add]

lemma single_step_single_peak_radiusMethod [LinearOrder α] [IsStrictOrderedRing α]
    (loop : List (RRow α) → List (α × α))
    (hloop : ∀ rows, (∀ r ∈ rows, r.dT = 0 ∧ r.ratio = 1) → (loop rows).map (·.1) = rows.map (·.dV))
    (n j m : Nat) (hm : 1 ≤ m) (a d : α) (vol thick kelvin : List α)
    (hthick : thick = List.replicate n 0) (hk : kelvin.length = n)
    (hvol : vol = List.replicate (j + 1) a ++ List.replicate m (a + d)) (hn : n = j + 1 + m)
    (hpos : ∀ k ∈ kelvin, 0 < k) :
    (radiusMethod loop vol thick kelvin).volumes = List.replicate j 0 ++ [d] ++ List.replicate (m - 1) 0 ∧
    (radiusMethod loop vol thick kelvin).widths[j]? = some (2 * kelvin[j]'(by omega)) := by
  have hv : vol.length = n := by rw [hvol, hn]; simp
  refine ⟨?_, ?_⟩
  · rw [radiusMethod_zero_thickness loop hloop n vol thick kelvin hthick hk hv hpos, hvol,
      succDiff_single_step j m hm]
  · rw [widths_spec_radiusMethod loop vol thick kelvin (by rw [hthick, hk]; simp), hthick,
      widths_at _ n j kelvin hk (by omega), zero_add, mul_comm]

/-- 12 (BJH). -/
theorem single_step_single_peak_bjh [LinearOrder α] [IsStrictOrderedRing α]
    (n j m : Nat) (hm : 1 ≤ m) (a d : α) (vol thick kelvin : List α)
    (hthick : thick = List.replicate n 0) (hk : kelvin.length = n)
    (hvol : vol = List.replicate (j + 1) a ++ List.replicate m (a + d)) (hn : n = j + 1 + m)
    (hpos : ∀ k ∈ kelvin, 0 < k) :
    (bjh vol thick kelvin).volumes = List.replicate j 0 ++ [d] ++ List.replicate (m - 1) 0 ∧
    (bjh vol thick kelvin).widths[j]? = some (2 * kelvin[j]'(by omega)) :=
  single_step_single_peak_radiusMethod _ (fun rows h => bjhLoop_volumes rows [] h) n j m hm a d vol thick kelvin
    hthick hk hvol hn hpos

/-- 12 (Dollimore-Heal). -/
theorem single_step_single_peak_dollimoreHeal [LinearOrder α] [IsStrictOrderedRing α]
    (n j m : Nat) (hm : 1 ≤ m) (a d : α) (vol thick kelvin : List α)
    (hthick : thick = List.replicate n 0) (hk : kelvin.length = n)
    (hvol : vol = List.replicate (j + 1) a ++ List.replicate m (a + d)) (hn : n = j + 1 + m)
    (hpos : ∀ k ∈ kelvin, 0 < k) :
    (dollimoreHeal vol thick kelvin).volumes = List.replicate j 0 ++ [d] ++ List.replicate (m - 1) 0 ∧
    (dollimoreHeal vol thick kelvin).widths[j]? = some (2 * kelvin[j]'(by omega)) :=
  single_step_single_peak_radiusMethod _ (fun rows h => dollimoreLoop_volumes rows 0 0 h) n j m hm a d vol thick
    kelvin hthick hk hvol hn hpos

/-! ### 14. method dispatch, 15. default limits -/

/-- 14. BJH is refused exactly for non-cylindrical pores -/
theorem method_dispatch_bjh (g : String) (vol thick kelvin : List α) :
    method "BJH" g vol thick kelvin = none ↔ g ≠ "cylinder" := by
  unfold method
  rw [if_neg (by decide), if_pos rfl]
  by_cases h : g = "cylinder" <;> simp [h]

/-- 14. Dollimore-Heal is refused exactly for non-cylindrical pores -/
theorem method_dispatch_dh (g : String) (vol thick kelvin : List α) :
    method "DH" g vol thick kelvin = none ↔ g ≠ "cylinder" := by
  unfold method
  rw [if_neg (by decide), if_neg (by decide), if_pos rfl]
  by_cases h : g = "cylinder" <;> simp [h]

/-- 14. pyGAPS-DH accepts exactly slit, cylinder, sphere -/
theorem method_dispatch_pygapsDH (g : String) (vol thick kelvin : List α) :
    (method "pygaps-DH" g vol thick kelvin).isSome ↔ (g = "slit" ∨ g = "cylinder" ∨ g = "sphere") := by
  unfold method cLength
  rw [if_pos rfl]
  by_cases h1 : g = "slit"
  · simp [h1]
  by_cases h2 : g = "cylinder"
  · simp [h2]
  by_cases h3 : g = "sphere"
  · simp [h3]
  simp [h1, h2, h3]

/-- 14. and then it is the pyGAPS-DH result with `c_length` 1, 2, 3 -/
theorem method_dispatch_pygapsDH_value (vol thick kelvin : List α) :
    method "pygaps-DH" "slit" vol thick kelvin = some (pygapsDH 1 vol thick kelvin) ∧
    method "pygaps-DH" "cylinder" vol thick kelvin = some (pygapsDH 2 vol thick kelvin) ∧
    method "pygaps-DH" "sphere" vol thick kelvin = some (pygapsDH 3 vol thick kelvin) ∧
    method "BJH" "cylinder" vol thick kelvin = some (bjh vol thick kelvin) ∧
    method "DH" "cylinder" vol thick kelvin = some (dollimoreHeal vol thick kelvin) := by
  refine ⟨?_, ?_, ?_, ?_, ?_⟩ <;> simp [method, cLength]

/-- 14. unknown method names are refused -/
theorem method_dispatch_unknown (name g : String) (vol thick kelvin : List α)
    (h1 : name ≠ "pygaps-DH") (h2 : name ≠ "BJH") (h3 : name ≠ "DH") :
    method name g vol thick kelvin = none := by
  unfold method
  rw [if_neg h1, if_neg h2, if_neg h3]

/-- 15. `p_limits = None` means `(0.1, 0.99)`; otherwise the given pair is used -/
theorem mesoWindow_default [LinearOrder α] (ps : List α) (c10 c99 : α) (lo hi : Option α) :
    mesoWindow ps c10 c99 none = decide3 (limitWindow ps (some c10) (some c99)) ∧
    mesoWindow ps c10 c99 (some (lo, hi)) = decide3 (limitWindow ps lo hi) :=
  ⟨rfl, rfl⟩

end Recurrences

/-! ## A. Kelvin and thickness formulas (generated from the source) -/

section Formulas

open PgVerif.Gen.CharR

/-- the gas constant as it appears in the generated text -/
noncomputable def Rgas : ℝ := 207861565453831 / 25000000000000

lemma Rgas_pos : 0 < Rgas := by unfold Rgas; norm_num

/-- the Kelvin radius as a positive constant over `-log p` -/
lemma kelvin_radius_eq (p T γ Vm f : ℝ) (hT : 0 < T) (hf : 0 < f) (hp : 0 < p) (hp1 : p < 1) :
    kelvin_radius p T γ Vm f = (2 * γ * Vm / (f * Rgas * T)) / (-Real.log p) := by
  have hlog : Real.log p < 0 := Real.log_neg hp hp1
  have hR := Rgas_pos
  unfold kelvin_radius
  change _ / (f * Rgas * T * Real.log p) = _
  field_simp

/-- 1. the Kelvin equation: on `0 < p < 1` (where `log p ≠ 0`; `p = 1` and `p ≤ 0` are excluded because Lean totalises
`x / 0` and `log`) the radius is positive and satisfies `ln p = -2 γ Vm / (f R T r)` -/
theorem kelvin_equation (p T γ Vm f : ℝ) (hp : 0 < p) (hp1 : p < 1) (hT : 0 < T) (hγ : 0 < γ) (hVm : 0 < Vm)
    (hf : 0 < f) :
    0 < kelvin_radius p T γ Vm f ∧
    Real.log p = -(2 * γ * Vm) / (f * Rgas * T * kelvin_radius p T γ Vm f) := by
  have hlog : Real.log p < 0 := Real.log_neg hp hp1
  have hR := Rgas_pos
  rw [kelvin_radius_eq p T γ Vm f hT hf hp hp1]
  have hnl : 0 < -Real.log p := by linarith
  refine ⟨by positivity, ?_⟩
  field_simp

/-- 2. geometry factors of the three meniscus shapes (numerator, denominator): 2, 1, 1/2 -/
theorem geometry_factor_table :
    geometryFactor.lookup "cylindrical" = some (2, 1) ∧
    geometryFactor.lookup "hemispherical" = some (1, 1) ∧
    geometryFactor.lookup "hemicylindrical" = some (1, 2) := by
  refine ⟨?_, ?_, ?_⟩ <;> decide

/-- 2. the published branch × pore-geometry → meniscus table -/
theorem meniscus_table :
    meniscusGeometry.lookup ("ads", "slit") = some "hemicylindrical" ∧
    meniscusGeometry.lookup ("ads", "cylinder") = some "cylindrical" ∧
    meniscusGeometry.lookup ("ads", "halfopen-cylinder") = some "hemispherical" ∧
    meniscusGeometry.lookup ("ads", "sphere") = some "hemispherical" ∧
    meniscusGeometry.lookup ("des", "slit") = some "hemicylindrical" ∧
    meniscusGeometry.lookup ("des", "cylinder") = some "hemispherical" ∧
    meniscusGeometry.lookup ("des", "halfopen-cylinder") = some "hemispherical" ∧
    meniscusGeometry.lookup ("des", "sphere") = some "hemispherical" ∧
    meniscusGeometry.length = 8 := by
  refine ⟨?_, ?_, ?_, ?_, ?_, ?_, ?_, ?_, ?_⟩ <;> decide

/-- `-1 / log p` is positive and strictly increasing on (0,1) -/
lemma neg_log_anti {p q : ℝ} (hp : 0 < p) (hpq : p < q) (hq1 : q < 1) :
    0 < -Real.log q ∧ -Real.log q < -Real.log p := by
  have h1 : Real.log p < Real.log q := Real.log_lt_log hp hpq
  have h2 : Real.log q < 0 := Real.log_neg (hp.trans hpq) hq1
  constructor <;> linarith

/-- 3. the Kelvin radius increases strictly with pressure on (0,1) -/
theorem kelvin_strictMonoOn (T γ Vm f : ℝ) (hT : 0 < T) (hγ : 0 < γ) (hVm : 0 < Vm) (hf : 0 < f) :
    StrictMonoOn (fun p => kelvin_radius p T γ Vm f) (Set.Ioo 0 1) := by
  intro p hp q hq hpq
  simp only [Set.mem_Ioo] at hp hq
  obtain ⟨h1, h2⟩ := neg_log_anti hp.1 hpq hq.2
  have hR := Rgas_pos
  simp only [kelvin_radius_eq _ T γ Vm f hT hf hp.1 hp.2, kelvin_radius_eq _ T γ Vm f hT hf hq.1 hq.2]
  exact div_lt_div_of_pos_left (by positivity) h1 h2

/-- 4. the KJS correction adds 0.3 nm to the hemispherical (factor 1) Kelvin radius -/
theorem kelvin_kjs_eq (p T γ Vm : ℝ) :
    kelvin_radius_kjs p T γ Vm = kelvin_radius p T γ Vm 1 + 3 / 10 := by
  unfold kelvin_radius_kjs kelvin_radius
  rw [one_mul]

lemma halsey_eq (p : ℝ) : thickness_halsey p = 177 / 500 * (5 / (-Real.log p)) ^ ((333 : ℝ) / 1000) := by
  unfold thickness_halsey
  simp only [Real.rpow_eq_pow]
  rw [neg_div, ← div_neg]

/-- 5. the Halsey thickness is positive on (0,1) -/
theorem halsey_pos (p : ℝ) (hp : 0 < p) (hp1 : p < 1) : 0 < thickness_halsey p := by
  have hlog : Real.log p < 0 := Real.log_neg hp hp1
  have hnl : 0 < -Real.log p := by linarith
  rw [halsey_eq]
  have : 0 < (5 / (-Real.log p)) ^ ((333 : ℝ) / 1000) := Real.rpow_pos_of_pos (by positivity) _
  positivity

/-- 5. the Halsey thickness increases strictly with pressure on (0,1) -/
theorem halsey_strictMonoOn : StrictMonoOn thickness_halsey (Set.Ioo 0 1) := by
  intro p hp q hq hpq
  simp only [Set.mem_Ioo] at hp hq
  obtain ⟨h1, h2⟩ := neg_log_anti hp.1 hpq hq.2
  rw [halsey_eq, halsey_eq]
  have hlt : 5 / (-Real.log p) < 5 / (-Real.log q) := div_lt_div_of_pos_left (by norm_num) h1 h2
  have hnn : 0 ≤ 5 / (-Real.log p) := by have := h1.trans h2; positivity
  have := Real.rpow_lt_rpow hnn hlt (by norm_num : (0 : ℝ) < 333 / 1000)
  linarith

lemma harkins_jura_eq (p : ℝ) :
    thickness_harkins_jura p = (1399 / 10000 / (17 / 500 + (-Real.log p) / Real.log 10)) ^ ((1 : ℝ) / 2) := by
  unfold thickness_harkins_jura
  simp only [Real.rpow_eq_pow]
  rw [neg_div, sub_eq_add_neg]

lemma log_ten_pos : 0 < Real.log 10 := Real.log_pos (by norm_num)

/-- 5. the Harkins-Jura thickness is positive on (0,1) -/
theorem harkins_jura_pos (p : ℝ) (hp : 0 < p) (hp1 : p < 1) : 0 < thickness_harkins_jura p := by
  have hlog : Real.log p < 0 := Real.log_neg hp hp1
  have hnl : 0 < -Real.log p := by linarith
  have h10 := log_ten_pos
  rw [harkins_jura_eq]
  exact Real.rpow_pos_of_pos (by positivity) _

/-- 5. the Harkins-Jura thickness increases strictly with pressure on (0,1) -/
theorem harkins_jura_strictMonoOn : StrictMonoOn thickness_harkins_jura (Set.Ioo 0 1) := by
  intro p hp q hq hpq
  simp only [Set.mem_Ioo] at hp hq
  obtain ⟨h1, h2⟩ := neg_log_anti hp.1 hpq hq.2
  have h10 := log_ten_pos
  rw [harkins_jura_eq, harkins_jura_eq]
  have hdq : 0 < 17 / 500 + (-Real.log q) / Real.log 10 := by positivity
  have hd : 17 / 500 + (-Real.log q) / Real.log 10 < 17 / 500 + (-Real.log p) / Real.log 10 := by
    have := div_lt_div_of_pos_right h2 h10
    linarith
  have hlt : 1399 / 10000 / (17 / 500 + (-Real.log p) / Real.log 10)
      < 1399 / 10000 / (17 / 500 + (-Real.log q) / Real.log 10) :=
    div_lt_div_of_pos_left (by norm_num) hdq hd
  have hnn : 0 ≤ 1399 / 10000 / (17 / 500 + (-Real.log p) / Real.log 10) := by
    have := hdq.trans hd; positivity
  exact Real.rpow_lt_rpow hnn hlt (by norm_num)

/-- any non-decreasing thickness gives strictly increasing widths -/
lemma width_strictMono_of_monotoneOn (th : ℝ → ℝ) (hth : MonotoneOn th (Set.Ioo 0 1))
    (T γ Vm f : ℝ) (hT : 0 < T) (hγ : 0 < γ) (hVm : 0 < Vm) (hf : 0 < f) :
    StrictMonoOn (fun p => 2 * (th p + kelvin_radius p T γ Vm f)) (Set.Ioo 0 1) := by
  intro p hp q hq hpq
  have h1 := hth hp hq hpq.le
  have h2 := kelvin_strictMonoOn T γ Vm f hT hγ hVm hf hp hq hpq
  simp only at h2 ⊢
  linarith

/-- 6. reported pore widths `2 (t + r_K)` increase strictly with pressure on (0,1), for the Halsey, Harkins-Jura and
zero thickness models -/
theorem width_strictMono (T γ Vm f : ℝ) (hT : 0 < T) (hγ : 0 < γ) (hVm : 0 < Vm) (hf : 0 < f) :
    StrictMonoOn (fun p => 2 * (thickness_halsey p + kelvin_radius p T γ Vm f)) (Set.Ioo 0 1) ∧
    StrictMonoOn (fun p => 2 * (thickness_harkins_jura p + kelvin_radius p T γ Vm f)) (Set.Ioo 0 1) ∧
    StrictMonoOn (fun p => 2 * ((0 : ℝ) + kelvin_radius p T γ Vm f)) (Set.Ioo 0 1) :=
  ⟨width_strictMono_of_monotoneOn _ halsey_strictMonoOn.monotoneOn T γ Vm f hT hγ hVm hf,
   width_strictMono_of_monotoneOn _ harkins_jura_strictMonoOn.monotoneOn T γ Vm f hT hγ hVm hf,
   width_strictMono_of_monotoneOn (fun _ => 0) (fun _ _ _ _ _ => le_rfl) T γ Vm f hT hγ hVm hf⟩

end Formulas

/-! ## C. non-vacuity -/

section Examples

/-- the hypotheses of 8 are satisfiable and give the stated result -/
example : (pygapsDH 2 [1, 2, 4, 5] [0, 0, 0, 0] [1, 2, 3, 4] : Result ℚ).volumes = [1, 2, 1] := by decide +kernel
example : (bjh [1, 2, 4, 5] [0, 0, 0, 0] [1, 2, 3, 4] : Result ℚ).volumes = [1, 2, 1] := by decide +kernel
example : (dollimoreHeal [1, 2, 4, 5] [0, 0, 0, 0] [1, 2, 3, 4] : Result ℚ).volumes = [1, 2, 1] := by decide +kernel
example : succDiff ([1, 2, 4, 5] : List ℚ) = [1, 2, 1] := by decide +kernel
example : ([0, 0, 0, 0] : List ℚ) = List.replicate 4 0 ∧ ([1, 2, 3, 4] : List ℚ).length = 4 ∧
    ∀ k ∈ ([1, 2, 3, 4] : List ℚ), 0 < k := by decide +kernel
example : (pygapsDH 2 [1, 2, 4, 5] [0, 0, 0, 0] [1, 2, 3, 4] : Result ℚ).widths = [2, 4, 6] := by decide +kernel
example : (pygapsDH 2 [1, 2, 4, 5] [0, 0, 0, 0] [1, 2, 3, 4] : Result ℚ).distribution = [1 / 2, 1, 1 / 2] := by
  decide +kernel
/-- with a non-zero thickness the volumes are *not* the raw changes (the statement of 8 is not trivial) -/
example : (pygapsDH 2 [1, 2, 4, 5] [1, 2, 3, 4] [1, 2, 3, 4] : Result ℚ).volumes ≠ [1, 2, 1] := by decide +kernel
example : (bjh [1, 2, 4, 5] [1, 2, 3, 4] [1, 2, 3, 4] : Result ℚ).volumes ≠ [1, 2, 1] := by decide +kernel
/-- a single step: one peak -/
example : (pygapsDH 2 [1, 1, 3, 3] [0, 0, 0, 0] [1, 2, 3, 4] : Result ℚ).volumes = [0, 2, 0] := by decide +kernel
example : (dollimoreHeal [1, 1, 3, 3] [0, 0, 0, 0] [1, 2, 3, 4] : Result ℚ).widths = [2, 4, 6] := by decide +kernel
/-- the cumulative curve ends at the last adsorbed volume -/
example : cumulative ([1, 2, 1] : List ℚ) [1, 2, 4, 5] = [2, 4, 5] := by decide +kernel
example : (method "BJH" "slit" [1, 2] [0, 0] [1, 2] : Option (Result ℚ)).isNone = true := by decide +kernel
example : (method "pygaps-DH" "slit" [1, 2] [0, 0] [1, 2] : Option (Result ℚ)).isSome = true := by decide +kernel

end Examples

end PgVerif.Props.C16
