/-
C16 — mesopore size distributions conserve volume and follow the Kelvin equation.

Part A: the Kelvin / thickness formulas regenerated from the source (`Gen.CharR`), over ℝ.
Part B: the recurrences of the three classical methods (`Model.Meso`), over an arbitrary (ordered) field.
Part C: non-vacuity examples at ℚ.
-/
import Mathlib.Tactic
import Mathlib.Algebra.Order.Field.Rat
import PgVerif.Gen.CharR
import PgVerif.Model.Meso

set_option linter.unusedSectionVars false

namespace PgVerif.Props.C16
open PgVerif.Model.Meso PgVerif.Model.Linear

/-! ## helpers: pairwise maps -/

section Helpers

variable {α : Type} [Field α]

/-- ascending successive changes `[a1 - a0, a2 - a1, …]` -/
def succDiff : List α → List α
  | a :: b :: r => (b - a) :: succDiff (b :: r)
  | _ => []

/-- `[f a0 a1, f a1 a2, …]` -/
def pairMap {β γ : Type} (f : β → β → γ) : List β → List γ
  | a :: b :: r => f a b :: pairMap f (b :: r)
  | _ => []

lemma diffNeg_eq_pairMap (l : List α) : diffNeg l = pairMap (fun a b => a - b) l := by
  induction l with
  | nil => rfl
  | cons a l ih =>
    cases l with
    | nil => rfl
    | cons b r => simp only [diffNeg, pairMap, ih]

lemma avgPairs_eq_pairMap (l : List α) : avgPairs l = pairMap (fun a b => (a + b) / 2) l := by
  induction l with
  | nil => rfl
  | cons a l ih =>
    cases l with
    | nil => rfl
    | cons b r => simp only [avgPairs, pairMap, ih]

lemma succDiff_eq_pairMap (l : List α) : succDiff l = pairMap (fun a b => b - a) l := by
  induction l with
  | nil => rfl
  | cons a l ih =>
    cases l with
    | nil => rfl
    | cons b r => simp only [succDiff, pairMap, ih]

lemma pairMap_length {β γ : Type} (f : β → β → γ) (l : List β) : (pairMap f l).length = l.length - 1 := by
  induction l with
  | nil => rfl
  | cons a l ih =>
    cases l with
    | nil => rfl
    | cons b r => simp only [pairMap, List.length_cons, ih]; omega

lemma pairMap_snoc {β γ : Type} (f : β → β → γ) (l : List β) (x y : β) :
    pairMap f (l ++ [x, y]) = pairMap f (l ++ [x]) ++ [f x y] := by
  induction l with
  | nil => rfl
  | cons c l ih =>
    cases l with
    | nil => rfl
    | cons d r =>
      simp only [List.cons_append, pairMap] at ih ⊢
      rw [ih]

lemma pairMap_reverse {β γ : Type} (f : β → β → γ) (l : List β) :
    pairMap f l.reverse = (pairMap (fun a b => f b a) l).reverse := by
  induction l with
  | nil => rfl
  | cons a l ih =>
    cases l with
    | nil => rfl
    | cons b r =>
      have e : (a :: b :: r).reverse = r.reverse ++ [b, a] := by simp
      rw [e, pairMap_snoc]
      have e2 : r.reverse ++ [b] = (b :: r).reverse := by simp
      rw [e2, ih]
      simp [pairMap]

lemma forall_mem_pairMap {β γ : Type} (f : β → β → γ) (P : β → Prop) (R : γ → Prop) (l : List β)
    (hl : ∀ a ∈ l, P a) (hf : ∀ a b, P a → P b → R (f a b)) : ∀ x ∈ pairMap f l, R x := by
  induction l with
  | nil => intro x hx; simp [pairMap] at hx
  | cons a l ih =>
    cases l with
    | nil => intro x hx; simp [pairMap] at hx
    | cons b r =>
      intro x hx
      simp only [pairMap, List.mem_cons] at hx
      rcases hx with rfl | hx
      · exact hf _ _ (hl _ (by simp)) (hl _ (by simp))
      · exact ih (fun y hy => hl y (List.mem_cons_of_mem _ hy)) x (by simpa [pairMap] using hx)

lemma forall_mem_zipWith {β γ δ : Type} (f : β → γ → δ) (P : β → Prop) (Q : γ → Prop) (R : δ → Prop)
    (l₁ : List β) (l₂ : List γ) (h₁ : ∀ a ∈ l₁, P a) (h₂ : ∀ b ∈ l₂, Q b)
    (hf : ∀ a b, P a → Q b → R (f a b)) : ∀ x ∈ List.zipWith f l₁ l₂, R x := by
  induction l₁ generalizing l₂ with
  | nil => intro x hx; simp at hx
  | cons a l₁ ih =>
    cases l₂ with
    | nil => intro x hx; simp at hx
    | cons b l₂ =>
      intro x hx
      simp only [List.zipWith_cons_cons, List.mem_cons] at hx
      rcases hx with rfl | hx
      · exact hf _ _ (h₁ _ (by simp)) (h₂ _ (by simp))
      · exact ih l₂ (fun y hy => h₁ y (List.mem_cons_of_mem _ hy))
          (fun y hy => h₂ y (List.mem_cons_of_mem _ hy)) x hx

/-- the relation asked for in the task: `-numpy.diff` of the reversed array, reversed back, is the ascending change -/
theorem diffNeg_reverse (l : List α) : (diffNeg l.reverse).reverse = succDiff l := by
  rw [diffNeg_eq_pairMap, pairMap_reverse, List.reverse_reverse, succDiff_eq_pairMap]

end Helpers

/-! ## helpers: the loops -/

section Loops

variable {α : Type} [Field α]

lemma zipWith_add_zeros_left (z l : List α) (hz : ∀ x ∈ z, x = 0) (hl : l.length ≤ z.length) :
    List.zipWith (· + ·) z l = l := by
  induction l generalizing z with
  | nil => simp
  | cons a l ih =>
    cases z with
    | nil => simp at hl
    | cons b z =>
      have hb : b = 0 := hz b (by simp)
      simp only [List.zipWith_cons_cons, hb, zero_add]
      rw [ih z (fun x hx => hz x (List.mem_cons_of_mem _ hx)) (by simpa using hl)]

lemma zipWith_add_zeros_right (z l : List α) (hz : ∀ x ∈ z, x = 0) (hl : l.length ≤ z.length) :
    List.zipWith (· + ·) l z = l := by
  induction l generalizing z with
  | nil => simp
  | cons a l ih =>
    cases z with
    | nil => simp at hl
    | cons b z =>
      have hb : b = 0 := hz b (by simp)
      simp only [List.zipWith_cons_cons, hb, add_zero]
      rw [ih z (fun x hx => hz x (List.mem_cons_of_mem _ hx)) (by simpa using hl)]

lemma zip5_length (a b c d e : List α) (m : Nat) (ha : a.length = m) (hb : b.length = m) (hc : c.length = m)
    (hd : d.length = m) (he : e.length = m) : (zip5 a b c d e).length = m := by
  induction a generalizing b c d e m with
  | nil => simpa [zip5] using ha
  | cons x a ih =>
    cases b with
    | nil => subst hb; simp at ha
    | cons y b =>
    cases c with
    | nil => subst hc; simp at ha
    | cons z c =>
    cases d with
    | nil => subst hd; simp at ha
    | cons u d =>
    cases e with
    | nil => subst he; simp at ha
    | cons v e =>
      cases m with
      | zero => simp at ha
      | succ m =>
        simp only [zip5, List.length_cons, Nat.add_right_cancel_iff] at *
        exact ih b c d e m ha hb hc hd he

lemma zip5_map_dV (a b c d e : List α) (m : Nat) (ha : a.length = m) (hb : b.length = m) (hc : c.length = m)
    (hd : d.length = m) (he : e.length = m) : (zip5 a b c d e).map (·.dV) = a := by
  induction a generalizing b c d e m with
  | nil => simp [zip5]
  | cons x a ih =>
    cases b with
    | nil => subst hb; simp at ha
    | cons y b =>
    cases c with
    | nil => subst hc; simp at ha
    | cons z c =>
    cases d with
    | nil => subst hd; simp at ha
    | cons u d =>
    cases e with
    | nil => subst he; simp at ha
    | cons v e =>
      cases m with
      | zero => simp at ha
      | succ m =>
        simp only [List.length_cons, Nat.add_right_cancel_iff] at *
        simp only [zip5, List.map_cons, ih b c d e m ha hb hc hd he]

lemma mem_zip5 (a b c d e : List α) (r : DhRow α) (hr : r ∈ zip5 a b c d e) :
    r.dV ∈ a ∧ r.dT ∈ b ∧ r.avgT ∈ c ∧ r.avgW ∈ d ∧ r.ratio ∈ e := by
  fun_induction zip5 a b c d e with
  | case1 x a y b z c u d v e ih =>
    simp only [List.mem_cons] at hr ⊢
    rcases hr with rfl | hr
    · simp
    · obtain ⟨h1, h2, h3, h4, h5⟩ := ih hr
      exact ⟨Or.inr h1, Or.inr h2, Or.inr h3, Or.inr h4, Or.inr h5⟩
  | case2 => simp at hr

lemma zipR_length (a b c d e : List α) (m : Nat) (ha : a.length = m) (hb : b.length = m) (hc : c.length = m)
    (hd : d.length = m) (he : e.length = m) : (zipR a b c d e).length = m := by
  induction a generalizing b c d e m with
  | nil => simpa [zipR] using ha
  | cons x a ih =>
    cases b with
    | nil => subst hb; simp at ha
    | cons y b =>
    cases c with
    | nil => subst hc; simp at ha
    | cons z c =>
    cases d with
    | nil => subst hd; simp at ha
    | cons u d =>
    cases e with
    | nil => subst he; simp at ha
    | cons v e =>
      cases m with
      | zero => simp at ha
      | succ m =>
        simp only [zipR, List.length_cons, Nat.add_right_cancel_iff] at *
        exact ih b c d e m ha hb hc hd he

lemma zipR_map_dV (a b c d e : List α) (m : Nat) (ha : a.length = m) (hb : b.length = m) (hc : c.length = m)
    (hd : d.length = m) (he : e.length = m) : (zipR a b c d e).map (·.dV) = a := by
  induction a generalizing b c d e m with
  | nil => simp [zipR]
  | cons x a ih =>
    cases b with
    | nil => subst hb; simp at ha
    | cons y b =>
    cases c with
    | nil => subst hc; simp at ha
    | cons z c =>
    cases d with
    | nil => subst hd; simp at ha
    | cons u d =>
    cases e with
    | nil => subst he; simp at ha
    | cons v e =>
      cases m with
      | zero => simp at ha
      | succ m =>
        simp only [List.length_cons, Nat.add_right_cancel_iff] at *
        simp only [zipR, List.map_cons, ih b c d e m ha hb hc hd he]

lemma mem_zipR (a b c d e : List α) (r : RRow α) (hr : r ∈ zipR a b c d e) :
    r.dV ∈ a ∧ r.dT ∈ b ∧ r.avgT ∈ c ∧ r.avgR ∈ d ∧ r.ratio ∈ e := by
  fun_induction zipR a b c d e with
  | case1 x a y b z c u d v e ih =>
    simp only [List.mem_cons] at hr ⊢
    rcases hr with rfl | hr
    · simp
    · obtain ⟨h1, h2, h3, h4, h5⟩ := ih hr
      exact ⟨Or.inr h1, Or.inr h2, Or.inr h3, Or.inr h4, Or.inr h5⟩
  | case2 => simp at hr

/-- pyGAPS-DH loop: rows with no thickness change and unit ratio pass `dV` through, whatever the accumulator -/
lemma dhLoop_volumes (c : Nat) (rows : List (DhRow α)) (s : α)
    (h : ∀ r ∈ rows, r.dT = 0 ∧ r.ratio = 1) :
    (dhLoop c rows s).map (·.1) = rows.map (·.dV) := by
  induction rows generalizing s with
  | nil => rfl
  | cons r rest ih =>
    obtain ⟨h1, h2⟩ := h r (by simp)
    simp only [dhLoop, List.map_cons, h1, h2, zero_mul, sub_zero, mul_one]
    rw [ih _ (fun r' hr' => h r' (List.mem_cons_of_mem _ hr'))]

lemma bjhLoop_volumes (rows : List (RRow α)) (done : List (α × α))
    (h : ∀ r ∈ rows, r.dT = 0 ∧ r.ratio = 1) :
    (bjhLoop rows done).map (·.1) = rows.map (·.dV) := by
  induction rows generalizing done with
  | nil => rfl
  | cons r rest ih =>
    obtain ⟨h1, h2⟩ := h r (by simp)
    simp only [bjhLoop, List.map_cons, h1, h2, zero_mul, sub_zero, mul_one]
    rw [ih _ (fun r' hr' => h r' (List.mem_cons_of_mem _ hr'))]

lemma dollimoreLoop_volumes (rows : List (RRow α)) (s t : α)
    (h : ∀ r ∈ rows, r.dT = 0 ∧ r.ratio = 1) :
    (dollimoreLoop rows s t).map (·.1) = rows.map (·.dV) := by
  induction rows generalizing s t with
  | nil => rfl
  | cons r rest ih =>
    obtain ⟨h1, h2⟩ := h r (by simp)
    simp only [dollimoreLoop, List.map_cons, h1, h2, zero_mul, sub_zero, mul_one]
    rw [ih _ _ (fun r' hr' => h r' (List.mem_cons_of_mem _ hr'))]

lemma dhLoop_length (c : Nat) (rows : List (DhRow α)) (s : α) : (dhLoop c rows s).length = rows.length := by
  induction rows generalizing s with
  | nil => rfl
  | cons r rest ih => simp only [dhLoop, List.length_cons, ih]

lemma bjhLoop_length (rows : List (RRow α)) (done : List (α × α)) : (bjhLoop rows done).length = rows.length := by
  induction rows generalizing done with
  | nil => rfl
  | cons r rest ih => simp only [bjhLoop, List.length_cons, ih]

lemma dollimoreLoop_length (rows : List (RRow α)) (s t : α) : (dollimoreLoop rows s t).length = rows.length := by
  induction rows generalizing s t with
  | nil => rfl
  | cons r rest ih => simp only [dollimoreLoop, List.length_cons, ih]

end Loops

/-! ## B. the recurrences -/

section Recurrences

variable {α : Type} [Field α]

/-- 8 (pyGAPS-DH). With a zero-thickness layer and positive Kelvin radii the pore volumes are exactly the
successive changes in adsorbed volume. -/
theorem zero_thickness_volumes_pygapsDH [LinearOrder α] [IsStrictOrderedRing α]
    (c n : Nat) (vol thick kelvin : List α)
    (hthick : thick = List.replicate n 0) (hk : kelvin.length = n) (hv : vol.length = n)
    (hpos : ∀ k ∈ kelvin, 0 < k) :
    (pygapsDH c vol thick kelvin).volumes = succDiff vol := by
  have hT : ∀ t ∈ thick.reverse, t = 0 := by
    intro t ht
    rw [hthick] at ht
    simp only [List.reverse_replicate, List.mem_replicate] at ht
    exact ht.2
  have hK : ∀ k ∈ kelvin.reverse, 0 < k := fun k hk' => hpos k (by simpa using hk')
  have hdT : ∀ x ∈ diffNeg thick.reverse, x = 0 := by
    rw [diffNeg_eq_pairMap]
    exact forall_mem_pairMap _ (· = 0) (· = 0) _ hT (fun a b ha hb => by simp only [ha, hb, sub_zero])
  have havgT : ∀ x ∈ avgPairs thick.reverse, x = 0 := by
    rw [avgPairs_eq_pairMap]
    exact forall_mem_pairMap _ (· = 0) (· = 0) _ hT (fun a b ha hb => by simp only [ha, hb, add_zero, zero_div])
  have hW : ∀ x ∈ List.zipWith (fun t k => 2 * (t + k)) thick.reverse kelvin.reverse, 0 < x :=
    forall_mem_zipWith _ (· = 0) (0 < ·) (0 < ·) _ _ hT hK (fun a b ha hb => by
      simp only [ha, zero_add]; positivity)
  have havgW : ∀ x ∈ avgPairs (List.zipWith (fun t k => 2 * (t + k)) thick.reverse kelvin.reverse), 0 < x := by
    rw [avgPairs_eq_pairMap]
    exact forall_mem_pairMap _ (0 < ·) (0 < ·) _ hW (fun a b ha hb => by positivity)
  have hratio : ∀ x ∈ List.zipWith (fun aw at' => (aw / (aw - 2 * at')) ^ 2)
      (avgPairs (List.zipWith (fun t k => 2 * (t + k)) thick.reverse kelvin.reverse)) (avgPairs thick.reverse),
      x = 1 :=
    forall_mem_zipWith _ (0 < ·) (· = 0) (· = 1) _ _ havgW havgT (fun a b ha hb => by
      simp only [hb, mul_zero, sub_zero, div_self ha.ne', one_pow])
  have hlt : thick.length = n := by rw [hthick]; simp
  unfold pygapsDH
  simp only []
  rw [dhLoop_volumes _ _ _ (fun r hr => by
    obtain ⟨-, h2, -, -, h5⟩ := mem_zip5 _ _ _ _ _ r hr
    exact ⟨hdT _ h2, hratio _ h5⟩)]
  rw [zip5_map_dV _ _ _ _ _ (n - 1), diffNeg_reverse]
  all_goals
    simp [diffNeg_eq_pairMap, avgPairs_eq_pairMap, pairMap_length, hlt, hk, hv]

/-- the shared part of BJH / Dollimore-Heal: any loop that passes `dV` through on rows with `dT = 0`, `ratio = 1` -/
lemma radiusMethod_zero_thickness [LinearOrder α] [IsStrictOrderedRing α]
    (loop : List (RRow α) → List (α × α))
    (hloop : ∀ rows, (∀ r ∈ rows, r.dT = 0 ∧ r.ratio = 1) → (loop rows).map (·.1) = rows.map (·.dV))
    (n : Nat) (vol thick kelvin : List α)
    (hthick : thick = List.replicate n 0) (hk : kelvin.length = n) (hv : vol.length = n)
    (hpos : ∀ k ∈ kelvin, 0 < k) :
    (radiusMethod loop vol thick kelvin).volumes = succDiff vol := by
  have hT : ∀ t ∈ thick.reverse, t = 0 := by
    intro t ht
    rw [hthick] at ht
    simp only [List.reverse_replicate, List.mem_replicate] at ht
    exact ht.2
  have hlt : thick.length = n := by rw [hthick]; simp
  have hK : ∀ k ∈ kelvin.reverse, 0 < k := fun k hk' => hpos k (by simpa using hk')
  have hdT : ∀ x ∈ diffNeg thick.reverse, x = 0 := by
    rw [diffNeg_eq_pairMap]
    exact forall_mem_pairMap _ (· = 0) (· = 0) _ hT (fun a b ha hb => by simp only [ha, hb, sub_zero])
  have havgK : ∀ x ∈ avgPairs kelvin.reverse, 0 < x := by
    rw [avgPairs_eq_pairMap]
    exact forall_mem_pairMap _ (0 < ·) (0 < ·) _ hK (fun a b ha hb => by positivity)
  have hrad : List.zipWith (· + ·) thick.reverse kelvin.reverse = kelvin.reverse :=
    zipWith_add_zeros_left _ _ hT (by simp [hlt, hk])
  have hkd : List.zipWith (· + ·) (avgPairs kelvin.reverse) (diffNeg thick.reverse) = avgPairs kelvin.reverse :=
    zipWith_add_zeros_right _ _ hdT (by simp [diffNeg_eq_pairMap, avgPairs_eq_pairMap, pairMap_length, hlt, hk])
  unfold radiusMethod
  simp only []
  rw [hrad, hkd, List.zipWith_self]
  rw [hloop _ (fun r hr => by
    obtain ⟨-, h2, -, -, h5⟩ := mem_zipR _ _ _ _ _ r hr
    refine ⟨hdT _ h2, ?_⟩
    obtain ⟨a, ha, e⟩ := List.mem_map.1 h5
    rw [← e, div_self (havgK a ha).ne', one_pow])]
  rw [zipR_map_dV _ _ _ _ _ (n - 1), diffNeg_reverse]
  all_goals
    simp [diffNeg_eq_pairMap, avgPairs_eq_pairMap, pairMap_length, hlt, hk, hv]

/-- 8 (BJH). -/
theorem zero_thickness_volumes_bjh [LinearOrder α] [IsStrictOrderedRing α]
    (n : Nat) (vol thick kelvin : List α)
    (hthick : thick = List.replicate n 0) (hk : kelvin.length = n) (hv : vol.length = n)
    (hpos : ∀ k ∈ kelvin, 0 < k) :
    (bjh vol thick kelvin).volumes = succDiff vol :=
  radiusMethod_zero_thickness _ (fun rows h => bjhLoop_volumes rows [] h) n vol thick kelvin hthick hk hv hpos

/-- 8 (Dollimore-Heal). -/
theorem zero_thickness_volumes_dollimoreHeal [LinearOrder α] [IsStrictOrderedRing α]
    (n : Nat) (vol thick kelvin : List α)
    (hthick : thick = List.replicate n 0) (hk : kelvin.length = n) (hv : vol.length = n)
    (hpos : ∀ k ∈ kelvin, 0 < k) :
    (dollimoreHeal vol thick kelvin).volumes = succDiff vol :=
  radiusMethod_zero_thickness _ (fun rows h => dollimoreLoop_volumes rows 0 0 h) n vol thick kelvin hthick hk hv hpos

/-! ### 9. telescoping -/

/-- 9. the successive changes sum to the total change -/
theorem succDiff_sum (l : List α) (h : l ≠ []) : (succDiff l).sum = l.getLast h - l.head h := by
  induction l with
  | nil => exact absurd rfl h
  | cons a l ih =>
    cases l with
    | nil => simp [succDiff]
    | cons b r =>
      have := ih (by simp)
      simp only [succDiff, List.sum_cons, this, List.getLast_cons_cons, List.head_cons]
      ring

/-- `Model.Linear.sum` is `List.sum` -/
lemma linear_sum_eq [LinearOrder α] (l : List α) : PgVerif.Model.Linear.sum l = l.sum := by
  induction l with
  | nil => rfl
  | cons a l ih => simp only [PgVerif.Model.Linear.sum, List.foldr_cons, List.sum_cons] at ih ⊢; rw [ih]

/-- 9 (corollaries). With a zero-thickness layer the pore volumes sum to the total change in adsorbed volume. -/
theorem volumes_sum_total_change_pygapsDH [LinearOrder α] [IsStrictOrderedRing α]
    (c n : Nat) (vol thick kelvin : List α)
    (hthick : thick = List.replicate n 0) (hk : kelvin.length = n) (hv : vol.length = n)
    (hpos : ∀ k ∈ kelvin, 0 < k) (hne : vol ≠ []) :
    (pygapsDH c vol thick kelvin).volumes.sum = vol.getLast hne - vol.head hne := by
  rw [zero_thickness_volumes_pygapsDH c n vol thick kelvin hthick hk hv hpos, succDiff_sum]

theorem volumes_sum_total_change_bjh [LinearOrder α] [IsStrictOrderedRing α]
    (n : Nat) (vol thick kelvin : List α)
    (hthick : thick = List.replicate n 0) (hk : kelvin.length = n) (hv : vol.length = n)
    (hpos : ∀ k ∈ kelvin, 0 < k) (hne : vol ≠ []) :
    (bjh vol thick kelvin).volumes.sum = vol.getLast hne - vol.head hne := by
  rw [zero_thickness_volumes_bjh n vol thick kelvin hthick hk hv hpos, succDiff_sum]

theorem volumes_sum_total_change_dollimoreHeal [LinearOrder α] [IsStrictOrderedRing α]
    (n : Nat) (vol thick kelvin : List α)
    (hthick : thick = List.replicate n 0) (hk : kelvin.length = n) (hv : vol.length = n)
    (hpos : ∀ k ∈ kelvin, 0 < k) (hne : vol ≠ []) :
    (dollimoreHeal vol thick kelvin).volumes.sum = vol.getLast hne - vol.head hne := by
  rw [zero_thickness_volumes_dollimoreHeal n vol thick kelvin hthick hk hv hpos, succDiff_sum]

/-- the same with the project's own `sum` -/
theorem volumes_sum_total_change [LinearOrder α] [IsStrictOrderedRing α]
    (c n : Nat) (vol thick kelvin : List α)
    (hthick : thick = List.replicate n 0) (hk : kelvin.length = n) (hv : vol.length = n)
    (hpos : ∀ k ∈ kelvin, 0 < k) (hne : vol ≠ []) :
    PgVerif.Model.Linear.sum (pygapsDH c vol thick kelvin).volumes = vol.getLast hne - vol.head hne ∧
    PgVerif.Model.Linear.sum (bjh vol thick kelvin).volumes = vol.getLast hne - vol.head hne ∧
    PgVerif.Model.Linear.sum (dollimoreHeal vol thick kelvin).volumes = vol.getLast hne - vol.head hne := by
  simp only [linear_sum_eq]
  exact ⟨volumes_sum_total_change_pygapsDH c n vol thick kelvin hthick hk hv hpos hne,
    volumes_sum_total_change_bjh n vol thick kelvin hthick hk hv hpos hne,
    volumes_sum_total_change_dollimoreHeal n vol thick kelvin hthick hk hv hpos hne⟩

/-! ### 11. the cumulative curve -/

/-- `numpy.cumsum` keeps the length -/
theorem cumsum_length (xs : List α) (a : α) : (cumsum xs a).length = xs.length := by
  induction xs generalizing a with
  | nil => rfl
  | cons x xs ih => simp [cumsum, ih]

lemma cumsum_ne_nil (xs : List α) (a : α) (h : xs ≠ []) : cumsum xs a ≠ [] := by
  cases xs with
  | nil => exact absurd rfl h
  | cons x xs => simp [cumsum]

/-- 11. `pore_volume_cumulative` has one entry per pore volume -/
theorem cumulative_length (vols vol : List α) : (cumulative vols vol).length = vols.length := by
  simp [cumulative, cumsum_length]

/-- 11. the cumulative curve ends at the volume adsorbed at the highest pressure used -/
theorem cumulative_last (vols vol : List α) (h : vols ≠ []) :
    (cumulative vols vol).getLastD 0 = vol.getLastD 0 := by
  have hne := cumsum_ne_nil vols 0 h
  unfold cumulative
  simp only []
  rw [List.getLastD_eq_getLast?, List.getLast?_map, List.getLast?_eq_some_getLast hne]
  simp [List.getLastD_eq_getLast?, List.getLast?_eq_some_getLast hne]

lemma succDiff_map_add (l : List α) (c : α) : succDiff (l.map (fun x => x + c)) = succDiff l := by
  induction l with
  | nil => rfl
  | cons a l ih =>
    cases l with
    | nil => rfl
    | cons b r =>
      simp only [List.map_cons, succDiff] at ih ⊢
      rw [ih]; congr 1; ring

lemma succDiff_cumsum (xs : List α) (a : α) : succDiff (cumsum xs a) = xs.tail := by
  induction xs generalizing a with
  | nil => rfl
  | cons x xs ih =>
    cases xs with
    | nil => rfl
    | cons y r =>
      have := ih (a + x)
      simp only [cumsum, succDiff, List.tail_cons] at this ⊢
      rw [this]; congr 1; ring

/-- 11. successive differences of the cumulative curve are the pore volumes (the curve is the running sum shifted
by a constant) -/
theorem cumulative_succDiff (vols vol : List α) : succDiff (cumulative vols vol) = vols.tail := by
  unfold cumulative
  simp only []
  have : (fun x => x - (cumsum vols 0).getLastD 0 + vol.getLastD 0)
      = (fun x => x + (vol.getLastD 0 - (cumsum vols 0).getLastD 0)) := by
    funext x; ring
  rw [this, succDiff_map_add, succDiff_cumsum]

/-! ### 7. widths -/

lemma reverse_drop_one_reverse {β : Type} (l : List β) : (l.reverse.drop 1).reverse = l.dropLast := by
  rw [List.drop_one, List.tail_reverse, List.reverse_reverse]

/-- 7 (pyGAPS-DH). reported widths are twice (thickness + Kelvin radius) at the measured pressures, all but the top one -/
theorem widths_spec_pygapsDH (c : Nat) (vol thick kelvin : List α) (h : thick.length = kelvin.length) :
    (pygapsDH c vol thick kelvin).widths = (List.zipWith (fun t k => 2 * (t + k)) thick kelvin).dropLast := by
  unfold pygapsDH
  simp only []
  rw [← List.reverse_zipWith h, reverse_drop_one_reverse]

lemma widths_spec_radiusMethod (loop : List (RRow α) → List (α × α)) (vol thick kelvin : List α)
    (h : thick.length = kelvin.length) :
    (radiusMethod loop vol thick kelvin).widths = (List.zipWith (fun t k => (t + k) * 2) thick kelvin).dropLast := by
  unfold radiusMethod
  simp only []
  rw [← List.reverse_zipWith h, reverse_drop_one_reverse, List.map_dropLast, List.map_zipWith]

/-- 7 (BJH). -/
theorem widths_spec_bjh (vol thick kelvin : List α) (h : thick.length = kelvin.length) :
    (bjh vol thick kelvin).widths = (List.zipWith (fun t k => (t + k) * 2) thick kelvin).dropLast :=
  widths_spec_radiusMethod _ vol thick kelvin h

/-- 7 (Dollimore-Heal). -/
theorem widths_spec_dollimoreHeal (vol thick kelvin : List α) (h : thick.length = kelvin.length) :
    (dollimoreHeal vol thick kelvin).widths = (List.zipWith (fun t k => (t + k) * 2) thick kelvin).dropLast :=
  widths_spec_radiusMethod _ vol thick kelvin h

/-! ### 13. lengths -/

lemma diffNeg_length (l : List α) : (diffNeg l).length = l.length - 1 := by
  rw [diffNeg_eq_pairMap, pairMap_length]

lemma avgPairs_length (l : List α) : (avgPairs l).length = l.length - 1 := by
  rw [avgPairs_eq_pairMap, pairMap_length]

lemma succDiff_length (l : List α) : (succDiff l).length = l.length - 1 := by
  rw [succDiff_eq_pairMap, pairMap_length]

lemma pygapsDH_rows_length (c n : Nat) (vol thick kelvin : List α)
    (hv : vol.length = n) (ht : thick.length = n) (hk : kelvin.length = n) (s : α) :
    (dhLoop c (zip5 (diffNeg vol.reverse) (avgPairs thick.reverse |> fun _ => diffNeg thick.reverse)
      (avgPairs thick.reverse)
      (avgPairs (List.zipWith (fun t k => 2 * (t + k)) thick.reverse kelvin.reverse))
      (List.zipWith (fun aw at' => (aw / (aw - 2 * at')) ^ 2)
        (avgPairs (List.zipWith (fun t k => 2 * (t + k)) thick.reverse kelvin.reverse))
        (avgPairs thick.reverse))) s).length = n - 1 := by
  rw [dhLoop_length, zip5_length _ _ _ _ _ (n - 1)] <;>
    simp [diffNeg_length, avgPairs_length, hv, ht, hk]

/-- 13 (pyGAPS-DH). every result array has length `n - 1` -/
theorem lengths_pygapsDH (c n : Nat) (vol thick kelvin : List α)
    (hv : vol.length = n) (ht : thick.length = n) (hk : kelvin.length = n) :
    (pygapsDH c vol thick kelvin).widths.length = n - 1 ∧
    (pygapsDH c vol thick kelvin).areas.length = n - 1 ∧
    (pygapsDH c vol thick kelvin).volumes.length = n - 1 ∧
    (pygapsDH c vol thick kelvin).distribution.length = n - 1 := by
  have h := pygapsDH_rows_length c n vol thick kelvin hv ht hk 0
  simp only [] at h
  unfold pygapsDH
  simp only [List.length_reverse, List.length_map, List.length_zipWith, List.length_drop, h, diffNeg_length,
    ht, hk, min_self]
  simp

lemma radiusMethod_rows_length (n : Nat) (vol thick kelvin : List α)
    (hv : vol.length = n) (ht : thick.length = n) (hk : kelvin.length = n) :
    (zipR (diffNeg vol.reverse) (diffNeg thick.reverse) (avgPairs thick.reverse)
      (avgPairs (List.zipWith (· + ·) thick.reverse kelvin.reverse))
      (List.zipWith (fun (ar : α) (kd : α) => (ar / kd) ^ 2)
        (avgPairs (List.zipWith (· + ·) thick.reverse kelvin.reverse))
        (List.zipWith (· + ·) (avgPairs kelvin.reverse) (diffNeg thick.reverse)))).length = n - 1 := by
  rw [zipR_length _ _ _ _ _ (n - 1)] <;>
    simp [diffNeg_length, avgPairs_length, hv, ht, hk]

lemma lengths_radiusMethod (loop : List (RRow α) → List (α × α))
    (hloop : ∀ rows, (loop rows).length = rows.length) (n : Nat) (vol thick kelvin : List α)
    (hv : vol.length = n) (ht : thick.length = n) (hk : kelvin.length = n) :
    (radiusMethod loop vol thick kelvin).widths.length = n - 1 ∧
    (radiusMethod loop vol thick kelvin).areas.length = n - 1 ∧
    (radiusMethod loop vol thick kelvin).volumes.length = n - 1 ∧
    (radiusMethod loop vol thick kelvin).distribution.length = n - 1 := by
  have h := radiusMethod_rows_length n vol thick kelvin hv ht hk
  unfold radiusMethod
  simp only [List.length_reverse, List.length_map, List.length_zipWith, List.length_drop, hloop, h, diffNeg_length,
    ht, hk, min_self]
  simp

/-- 13 (BJH). -/
theorem lengths_bjh (n : Nat) (vol thick kelvin : List α)
    (hv : vol.length = n) (ht : thick.length = n) (hk : kelvin.length = n) :
    (bjh vol thick kelvin).widths.length = n - 1 ∧
    (bjh vol thick kelvin).areas.length = n - 1 ∧
    (bjh vol thick kelvin).volumes.length = n - 1 ∧
    (bjh vol thick kelvin).distribution.length = n - 1 :=
  lengths_radiusMethod _ (fun rows => bjhLoop_length rows []) n vol thick kelvin hv ht hk

/-- 13 (Dollimore-Heal). -/
theorem lengths_dollimoreHeal (n : Nat) (vol thick kelvin : List α)
    (hv : vol.length = n) (ht : thick.length = n) (hk : kelvin.length = n) :
    (dollimoreHeal vol thick kelvin).widths.length = n - 1 ∧
    (dollimoreHeal vol thick kelvin).areas.length = n - 1 ∧
    (dollimoreHeal vol thick kelvin).volumes.length = n - 1 ∧
    (dollimoreHeal vol thick kelvin).distribution.length = n - 1 :=
  lengths_radiusMethod _ (fun rows => dollimoreLoop_length rows 0 0) n vol thick kelvin hv ht hk

end Recurrences

end PgVerif.Props.C16
