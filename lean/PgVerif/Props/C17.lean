/-
C17 — Horvath-Kawazoe pore widths solve the method's potential equation.

Statements are about
  * the GENERATED functions `PgVerif.Gen.CharR.hk_*`, `km_*` (characterisation/psd_micro.py now), and
  * the hand-written, harness-tested model `PgVerif.Model.Micro` of the bookkeeping after the solver.

A. the slit potential is the published Horvath-Kawazoe equation; constants; sign; (monotonicity)
B. the Cheng-Yang correction term
C. bookkeeping after the solver (`tail`, `reportedWidth`, `hk_volume_adsorbed`, `microWindow`)
D. non-vacuity examples (tests, not properties)
-/
import PgVerif.Gen.CharR
import PgVerif.Model.Micro
import Mathlib.Tactic
import Mathlib.Analysis.SpecialFunctions.Log.Deriv
import Mathlib.Analysis.Calculus.Deriv.MeanValue
import Mathlib.Analysis.Convex.Deriv
import Mathlib.Analysis.Convex.Slope

namespace PgVerif.Props.C17
open PgVerif.Gen.CharR PgVerif.Model.Micro PgVerif.Model.Linear

/-! ## A. the slit potential -/

/-- the published Horvath-Kawazoe slit equation (right-hand side, `ln(p/p0)`), `σ = c·d`, `c = 0.8583742` -/
noncomputable def hkPublished (d NRT n_ads a_ads n_mat a_mat l : ℝ) : ℝ :=
  let σ := (4291871 / 5000000 : ℝ) * d
  NRT * (n_ads * a_ads + n_mat * a_mat) / ((σ * (1 / 1000000000)) ^ 4 * (l - 2 * d))
    * (σ ^ 4 / (3 * (l - d) ^ 3) - σ ^ 10 / (9 * (l - d) ^ 9) - σ ^ 4 / (3 * d ^ 3) + σ ^ 10 / (9 * d ^ 9))

/-- A1. the generated closure `potential(l_pore)` of the slit branch is the published equation; same division structure,
so no guards are needed. -/
theorem hk_slit_is_published (d NRT n_ads a_ads n_mat a_mat l : ℝ) :
    hk_slit_potential d NRT n_ads a_ads n_mat a_mat l
      = NRT * (n_ads * a_ads + n_mat * a_mat)
          / ((((4291871 / 5000000 : ℝ) * d) * (1 / 1000000000)) ^ 4 * (l - 2 * d))
        * (((4291871 / 5000000 : ℝ) * d) ^ 4 / (3 * (l - d) ^ 3) - ((4291871 / 5000000 : ℝ) * d) ^ 10 / (9 * (l - d) ^ 9)
            - ((4291871 / 5000000 : ℝ) * d) ^ 4 / (3 * d ^ 3) + ((4291871 / 5000000 : ℝ) * d) ^ 10 / (9 * d ^ 9)) := by
  unfold hk_slit_potential
  simp only [div_div]
  ring

theorem hk_slit_is_published' (d NRT n_ads a_ads n_mat a_mat l : ℝ) :
    hk_slit_potential d NRT n_ads a_ads n_mat a_mat l = hkPublished d NRT n_ads a_ads n_mat a_mat l := by
  rw [hk_slit_is_published]; rfl

/-- A2. `N_A / (R T)` -/
theorem hk_N_over_RT_eq (T : ℝ) (_hT : T ≠ 0) :
    hk_N_over_RT T = 602214076000000000000000 / ((207861565453831 / 25000000000000 : ℝ) * T) := by
  unfold hk_N_over_RT
  rw [div_div]

/-- A2. Kirkwood-Mueller, adsorbate: `A_a = (3/2) m c² α_a χ_a` -/
theorem km_ads_eq (α_a χ_a : ℝ) :
    km_dispersion_ads α_a χ_a
      = (3 / 2) * ((91093837139 / 10 ^ 41 : ℝ) * (299792458 : ℝ) ^ 2) * α_a * χ_a := by
  unfold km_dispersion_ads
  norm_num

/-- A2. Kirkwood-Mueller, material: `A_s = 6 m c² α_a α_s / (α_a/χ_a + α_s/χ_s)` -/
theorem km_mat_eq (α_s χ_s α_a χ_a : ℝ) :
    km_dispersion_mat α_s χ_s α_a χ_a
      = 6 * ((91093837139 / 10 ^ 41 : ℝ) * (299792458 : ℝ) ^ 2) * α_a * α_s / (α_a / χ_a + α_s / χ_s) := by
  unfold km_dispersion_mat
  norm_num

/-- `d_eff = (d_ads + d_mat)/2` -/
theorem hk_d_eff_eq (d_a d_s : ℝ) : hk_d_eff d_a d_s = (d_a + d_s) / 2 := rfl


/-! ### sign of the slit potential -/

/-- the wall-distance function of the published equation: `f x = σ⁴/(3x³) − σ¹⁰/(9x⁹)` -/
noncomputable def hkF (σ x : ℝ) : ℝ := σ ^ 4 / (3 * x ^ 3) - σ ^ 10 / (9 * x ^ 9)

/-- the slit potential is a positive constant times the secant slope of `hkF σ` between `d` and `l - d` -/
lemma hk_slit_eq_secant (d NRT n_ads a_ads n_mat a_mat l : ℝ) :
    hk_slit_potential d NRT n_ads a_ads n_mat a_mat l
      = NRT * (n_ads * a_ads + n_mat * a_mat) / ((((4291871 / 5000000 : ℝ) * d) * (1 / 1000000000)) ^ 4)
        * ((hkF ((4291871 / 5000000 : ℝ) * d) (l - d) - hkF ((4291871 / 5000000 : ℝ) * d) d) / ((l - d) - d)) := by
  rw [hk_slit_is_published]
  unfold hkF
  have e : l - d - d = l - 2 * d := by ring
  rw [e]
  generalize (4291871 / 5000000 : ℝ) * d = σ
  generalize l - 2 * d = w
  generalize l - d = x
  simp only [div_eq_mul_inv, mul_inv]
  ring

lemma hkF_sub (c d x : ℝ) (hd : 0 < d) (hx : 0 < x) :
    hkF (c * d) d - hkF (c * d) x
      = (c * d) ^ 4 * (x ^ 3 - d ^ 3) * (3 * (x ^ 3) ^ 2 - c ^ 6 * ((x ^ 3) ^ 2 + x ^ 3 * d ^ 3 + (d ^ 3) ^ 2))
          / (9 * x ^ 9 * d ^ 3) := by
  unfold hkF
  field_simp
  ring

lemma hk_c6_lt : ((4291871 / 5000000 : ℝ)) ^ 6 < 2 / 5 := by norm_num

/-- `hkF (c d)` is strictly smaller at any `x > d` than at `d` -/
lemma hkF_lt (d x : ℝ) (hd : 0 < d) (hx : d < x) :
    hkF ((4291871 / 5000000 : ℝ) * d) x < hkF ((4291871 / 5000000 : ℝ) * d) d := by
  have hx0 : 0 < x := hd.trans hx
  have h := hkF_sub (4291871 / 5000000 : ℝ) d x hd hx0
  have hc := hk_c6_lt
  set c : ℝ := 4291871 / 5000000 with hcdef
  have hc0 : 0 < c := by rw [hcdef]; norm_num
  have hs : 0 < d ^ 3 := by positivity
  have hts : d ^ 3 < x ^ 3 := pow_lt_pow_left₀ hx hd.le (by norm_num)
  have ht : 0 < x ^ 3 := by positivity
  have hbr : 0 < 3 * (x ^ 3) ^ 2 - c ^ 6 * ((x ^ 3) ^ 2 + x ^ 3 * d ^ 3 + (d ^ 3) ^ 2) := by
    have h1 : (x ^ 3) ^ 2 + x ^ 3 * d ^ 3 + (d ^ 3) ^ 2 < 3 * (x ^ 3) ^ 2 := by nlinarith
    have h2 : 0 < (x ^ 3) ^ 2 + x ^ 3 * d ^ 3 + (d ^ 3) ^ 2 := by positivity
    have h3 : c ^ 6 * ((x ^ 3) ^ 2 + x ^ 3 * d ^ 3 + (d ^ 3) ^ 2) < 1 * ((x ^ 3) ^ 2 + x ^ 3 * d ^ 3 + (d ^ 3) ^ 2) :=
      mul_lt_mul_of_pos_right (lt_trans hc (by norm_num)) h2
    linarith
  have hpos : 0 < (c * d) ^ 4 * (x ^ 3 - d ^ 3) * (3 * (x ^ 3) ^ 2 - c ^ 6 * ((x ^ 3) ^ 2 + x ^ 3 * d ^ 3 + (d ^ 3) ^ 2))
      / (9 * x ^ 9 * d ^ 3) := by
    apply div_pos
    · apply mul_pos (mul_pos (by positivity) (by linarith)) hbr
    · positivity
  linarith

/-- A3. the slit potential is negative for every admissible wall distance `l > 2 d_eff` (so the pressure `exp φ` is below saturation).
Guards: `0 < d`, `2 d < l` exclude the poles `l = d`, `l = 2d` and `d = 0`. -/
theorem hk_slit_negative (d NRT n_ads a_ads n_mat a_mat l : ℝ) (hd : 0 < d) (hl : 2 * d < l) (hN : 0 < NRT)
    (hS : 0 < n_ads * a_ads + n_mat * a_mat) :
    hk_slit_potential d NRT n_ads a_ads n_mat a_mat l < 0 := by
  rw [hk_slit_eq_secant]
  have hf := hkF_lt d (l - d) hd (by linarith)
  apply mul_neg_of_pos_of_neg
  · positivity
  · apply div_neg_of_neg_of_pos <;> linarith


/-! ### monotonicity of the slit potential in the wall distance -/

lemma hkF_hasDerivAt (σ x : ℝ) (hx : x ≠ 0) :
    HasDerivAt (hkF σ) (-σ ^ 4 / x ^ 4 + σ ^ 10 / x ^ 10) x := by
  have hp3 : HasDerivAt (fun x : ℝ => 3 * x ^ 3) (3 * ((3 : ℕ) * x ^ (3 - 1))) x := (hasDerivAt_pow 3 x).const_mul 3
  have hp9 : HasDerivAt (fun x : ℝ => 9 * x ^ 9) (9 * ((9 : ℕ) * x ^ (9 - 1))) x := (hasDerivAt_pow 9 x).const_mul 9
  have h3 := (hasDerivAt_const x (σ ^ 4)).div hp3 (by positivity)
  have h9 := (hasDerivAt_const x (σ ^ 10)).div hp9 (by positivity)
  have h := h3.sub h9
  have e : -σ ^ 4 / x ^ 4 + σ ^ 10 / x ^ 10
      = (0 * (3 * x ^ 3) - σ ^ 4 * (3 * ((3 : ℕ) * x ^ (3 - 1)))) / (3 * x ^ 3) ^ 2
        - (0 * (9 * x ^ 9) - σ ^ 10 * (9 * ((9 : ℕ) * x ^ (9 - 1)))) / (9 * x ^ 9) ^ 2 := by
    push_cast
    field_simp
    ring
  rw [e]
  exact h

lemma hkF'_hasDerivAt (σ x : ℝ) (hx : x ≠ 0) :
    HasDerivAt (fun x : ℝ => -σ ^ 4 / x ^ 4 + σ ^ 10 / x ^ 10) (4 * σ ^ 4 / x ^ 5 - 10 * σ ^ 10 / x ^ 11) x := by
  have h4 := (hasDerivAt_const x (-σ ^ 4)).div (hasDerivAt_pow 4 x) (by positivity)
  have h10 := (hasDerivAt_const x (σ ^ 10)).div (hasDerivAt_pow 10 x) (by positivity)
  have h := h4.add h10
  have e : 4 * σ ^ 4 / x ^ 5 - 10 * σ ^ 10 / x ^ 11
      = (0 * x ^ 4 - -σ ^ 4 * ((4 : ℕ) * x ^ (4 - 1))) / (x ^ 4) ^ 2
        + (0 * x ^ 10 - σ ^ 10 * ((10 : ℕ) * x ^ (10 - 1))) / (x ^ 10) ^ 2 := by
    push_cast
    field_simp
    ring
  rw [e]
  exact h

/-- `f'' > 0` on `x > d` because `(5/2) c⁶ < 1` -/
lemma hkF''_pos (d x : ℝ) (hd : 0 < d) (hx : d < x) :
    0 < 4 * ((4291871 / 5000000 : ℝ) * d) ^ 4 / x ^ 5 - 10 * ((4291871 / 5000000 : ℝ) * d) ^ 10 / x ^ 11 := by
  have hx0 : 0 < x := hd.trans hx
  have hc := hk_c6_lt
  have hc0 : (0 : ℝ) < 4291871 / 5000000 := by norm_num
  generalize (4291871 / 5000000 : ℝ) = c at hc hc0 ⊢
  have e : 4 * (c * d) ^ 4 / x ^ 5 - 10 * (c * d) ^ 10 / x ^ 11
      = 2 * (c * d) ^ 4 * (2 * x ^ 6 - 5 * c ^ 6 * d ^ 6) / x ^ 11 := by
    field_simp
    ring
  rw [e]
  have hd6 : d ^ 6 < x ^ 6 := pow_lt_pow_left₀ hx hd.le (by norm_num)
  have hd60 : 0 < d ^ 6 := by positivity
  have h1 : 5 * c ^ 6 * d ^ 6 < 2 * d ^ 6 := by nlinarith
  apply div_pos _ (by positivity)
  apply mul_pos (by positivity)
  linarith


lemma hkF_strictConvexOn (d : ℝ) (hd : 0 < d) :
    StrictConvexOn ℝ (Set.Ici d) (hkF ((4291871 / 5000000 : ℝ) * d)) := by
  set σ : ℝ := (4291871 / 5000000 : ℝ) * d with hσ
  have hne : ∀ x ∈ Set.Ici d, x ≠ 0 := fun x hx => (hd.trans_le hx).ne'
  have hne' : ∀ x ∈ Set.Ioi d, x ≠ 0 := fun x hx => (hd.trans hx).ne'
  apply StrictMonoOn.strictConvexOn_of_deriv (convex_Ici d)
  · exact fun x hx => (hkF_hasDerivAt σ x (hne x hx)).continuousAt.continuousWithinAt
  · rw [interior_Ici]
    have hmono : StrictMonoOn (fun x : ℝ => -σ ^ 4 / x ^ 4 + σ ^ 10 / x ^ 10) (Set.Ioi d) := by
      apply strictMonoOn_of_deriv_pos (convex_Ioi d)
      · exact fun x hx => (hkF'_hasDerivAt σ x (hne' x hx)).continuousAt.continuousWithinAt
      · intro x hx
        rw [interior_Ioi] at hx
        rw [(hkF'_hasDerivAt σ x (hne' x hx)).deriv]
        exact hkF''_pos d x hd hx
    exact hmono.congr (fun x hx => ((hkF_hasDerivAt σ x (hne' x hx)).deriv).symm)

/-- A4. the slit potential is strictly increasing in the wall distance on `l > 2 d_eff` -/
theorem hk_slit_strictMonoOn (d NRT n_ads a_ads n_mat a_mat : ℝ) (hd : 0 < d) (hN : 0 < NRT)
    (hS : 0 < n_ads * a_ads + n_mat * a_mat) :
    StrictMonoOn (fun l => hk_slit_potential d NRT n_ads a_ads n_mat a_mat l) (Set.Ioi (2 * d)) := by
  intro l₁ h₁ l₂ h₂ hlt
  simp only [Set.mem_Ioi] at h₁ h₂
  simp only [hk_slit_eq_secant]
  apply mul_lt_mul_of_pos_left _ (by positivity)
  exact (hkF_strictConvexOn d hd).secant_strict_mono (Set.mem_Ici.mpr le_rfl)
    (Set.mem_Ici.mpr (by linarith)) (Set.mem_Ici.mpr (by linarith)) (by intro h; linarith) (by intro h; linarith)
    (by linarith)

/-- A4. the potential equation has at most one solution on `l > 2 d_eff` -/
theorem hk_slit_unique_solution (d NRT n_ads a_ads n_mat a_mat l₁ l₂ : ℝ) (hd : 0 < d) (hN : 0 < NRT)
    (hS : 0 < n_ads * a_ads + n_mat * a_mat) (h₁ : 2 * d < l₁) (h₂ : 2 * d < l₂)
    (h : hk_slit_potential d NRT n_ads a_ads n_mat a_mat l₁ = hk_slit_potential d NRT n_ads a_ads n_mat a_mat l₂) :
    l₁ = l₂ :=
  (hk_slit_strictMonoOn d NRT n_ads a_ads n_mat a_mat hd hN hS).injOn h₁ h₂ h

/-- A4. round trip: a relative pressure computed from the published slit equation for a wall distance `l₀ > 2 d_eff` is mapped back
to `l₀` by any exact solver of `exp (potential l) = p` on `l > 2 d_eff` -/
theorem hk_slit_round_trip (d NRT n_ads a_ads n_mat a_mat l₀ l : ℝ) (hd : 0 < d) (hN : 0 < NRT)
    (hS : 0 < n_ads * a_ads + n_mat * a_mat) (h₀ : 2 * d < l₀) (hl : 2 * d < l)
    (h : Real.exp (hk_slit_potential d NRT n_ads a_ads n_mat a_mat l)
          = Real.exp (hkPublished d NRT n_ads a_ads n_mat a_mat l₀)) :
    l = l₀ := by
  rw [← hk_slit_is_published'] at h
  exact hk_slit_unique_solution d NRT n_ads a_ads n_mat a_mat l l₀ hd hN hS hl h₀ (Real.exp_injective h)

/-- the pressure `exp φ` is strictly increasing in the wall distance and stays in (0,1): widths are increasing in pressure for plain HK -/
theorem hk_slit_pressure_strictMonoOn (d NRT n_ads a_ads n_mat a_mat : ℝ) (hd : 0 < d) (hN : 0 < NRT)
    (hS : 0 < n_ads * a_ads + n_mat * a_mat) :
    StrictMonoOn (fun l => Real.exp (hk_slit_potential d NRT n_ads a_ads n_mat a_mat l)) (Set.Ioi (2 * d))
    ∧ ∀ l, 2 * d < l → 0 < Real.exp (hk_slit_potential d NRT n_ads a_ads n_mat a_mat l)
        ∧ Real.exp (hk_slit_potential d NRT n_ads a_ads n_mat a_mat l) < 1 := by
  refine ⟨fun l₁ h₁ l₂ h₂ hlt => Real.exp_lt_exp.mpr (hk_slit_strictMonoOn d NRT n_ads a_ads n_mat a_mat hd hN hS h₁ h₂ hlt),
    fun l hl => ⟨Real.exp_pos _, ?_⟩⟩
  rw [Real.exp_lt_one_iff]
  exact hk_slit_negative d NRT n_ads a_ads n_mat a_mat l hd hl hN hS

/-! ## C. bookkeeping after the solver -/
section Book
variable {α : Type} [Field α]

@[simp] lemma diff_nil : diff ([] : List α) = [] := rfl
@[simp] lemma diff_single (a : α) : diff [a] = [] := rfl
@[simp] lemma diff_cons_cons (a b : α) (r : List α) : diff (a :: b :: r) = (b - a) :: diff (b :: r) := rfl
@[simp] lemma avgPairs_nil : avgPairs ([] : List α) = [] := rfl
@[simp] lemma avgPairs_single (a : α) : avgPairs [a] = [] := rfl
@[simp] lemma avgPairs_cons_cons (a b : α) (r : List α) :
    avgPairs (a :: b :: r) = ((a + b) / 2) :: avgPairs (b :: r) := rfl

lemma diff_length : ∀ (l : List α), (diff l).length = l.length - 1
  | [] => rfl
  | [_] => rfl
  | a :: b :: r => by
    rw [diff_cons_cons, List.length_cons, diff_length (b :: r)]; simp

lemma avgPairs_length : ∀ (l : List α), (avgPairs l).length = l.length - 1
  | [] => rfl
  | [_] => rfl
  | a :: b :: r => by
    rw [avgPairs_cons_cons, List.length_cons, avgPairs_length (b :: r)]; simp

lemma diff_getElem : ∀ (l : List α) (i : Nat) (h : i + 1 < l.length),
    (diff l)[i]'(by rw [diff_length]; omega) = l[i + 1] - l[i]
  | [], i, h => by simp at h
  | [_], i, h => by simp at h
  | a :: b :: r, 0, h => by simp
  | a :: b :: r, i + 1, h => by
    simp only [diff_cons_cons, List.getElem_cons_succ]
    exact diff_getElem (b :: r) i (by simpa using h)

lemma avgPairs_getElem : ∀ (l : List α) (i : Nat) (h : i + 1 < l.length),
    (avgPairs l)[i]'(by rw [avgPairs_length]; omega) = (l[i] + l[i + 1]) / 2
  | [], i, h => by simp at h
  | [_], i, h => by simp at h
  | a :: b :: r, 0, h => by simp
  | a :: b :: r, i + 1, h => by
    simp only [avgPairs_cons_cons, List.getElem_cons_succ]
    exact avgPairs_getElem (b :: r) i (by simpa using h)

/-- C7. the cumulative curve is the adsorbed volume of the solved points, without the first -/
theorem tail_cumulative (widths vol : List α) :
    (tail widths vol).cumulative = (vol.take widths.length).drop 1 := rfl

/-- C9 (first half). the reported abscissae are the means of successive solved widths -/
theorem tail_widths (widths vol : List α) : (tail widths vol).widths = avgPairs widths := rfl

theorem tail_distribution (widths vol : List α) :
    (tail widths vol).distribution = List.zipWith (· / ·) (diff (vol.take widths.length)) (diff widths) := rfl

/-- C10. all three output arrays have length `len(widths) - 1` -/
theorem tail_lengths (widths vol : List α) (h : widths.length ≤ vol.length) :
    (tail widths vol).widths.length = widths.length - 1
    ∧ (tail widths vol).distribution.length = widths.length - 1
    ∧ (tail widths vol).cumulative.length = widths.length - 1 := by
  refine ⟨?_, ?_, ?_⟩
  · rw [tail_widths, avgPairs_length]
  · rw [tail_distribution, List.length_zipWith, diff_length, diff_length, List.length_take, min_eq_left h, min_self]
  · rw [tail_cumulative, List.length_drop, List.length_take, min_eq_left h]

end Book

/-- C7. with `vol = hk_volume_adsorbed(loading)`: every entry of the cumulative curve is the loading expressed as liquid volume
`n·M/ρ/1000` -/
theorem tail_cumulative_is_liquid_volume (widths loading : List ℝ) (M ρ : ℝ) :
    (tail widths (loading.map (fun n => hk_volume_adsorbed n M ρ))).cumulative
      = ((loading.take widths.length).drop 1).map (fun n => n * M / ρ / 1000) := by
  rw [tail_cumulative, ← List.map_take, ← List.map_drop]
  rfl

theorem tail_cumulative_getElem (widths loading : List ℝ) (M ρ : ℝ) (i : Nat)
    (hw : i + 1 < widths.length) (hl : widths.length ≤ loading.length) :
    (tail widths (loading.map (fun n => hk_volume_adsorbed n M ρ))).cumulative[i]'(by
        rw [tail_cumulative]; simp; omega)
      = loading[i + 1] * M / ρ / 1000 := by
  simp only [tail_cumulative, List.getElem_drop, List.getElem_take, List.getElem_map]
  unfold hk_volume_adsorbed
  congr 4
  omega

section Book2
variable {α : Type} [Field α]

lemma zipWith_div_mul_cancel : ∀ (a b : List α), a.length ≤ b.length → (∀ x ∈ b, x ≠ 0) →
    List.zipWith (· * ·) (List.zipWith (· / ·) a b) b = a
  | [], _, _, _ => by simp
  | x :: a, [], h, _ => by simp at h
  | x :: a, y :: b, h, hb => by
    simp only [List.zipWith_cons_cons, List.cons.injEq]
    refine ⟨div_mul_cancel₀ x (hb y (by simp)), ?_⟩
    exact zipWith_div_mul_cancel a b (by simpa using h) (fun z hz => hb z (by simp [hz]))

/-- C8. the distribution is the finite-difference derivative of the cumulative volume with respect to width:
`dist_i · (w_{i+1} − w_i) = V_{i+1} − V_i` (guard: no two successive solved widths coincide — otherwise the code divides by zero) -/
theorem tail_distribution_is_finite_difference (widths vol : List α) (h : widths.length ≤ vol.length)
    (hne : ∀ x ∈ diff widths, x ≠ 0) :
    List.zipWith (· * ·) (tail widths vol).distribution (diff widths) = diff (vol.take widths.length) := by
  rw [tail_distribution]
  apply zipWith_div_mul_cancel _ _ _ hne
  rw [diff_length, diff_length, List.length_take, min_eq_left h]

/-- C8, pointwise: `dist_i = (V_{i+1} − V_i)/(w_{i+1} − w_i)` -/
theorem tail_distribution_getElem (widths vol : List α) (h : widths.length ≤ vol.length) (i : Nat)
    (hi : i + 1 < widths.length) :
    (tail widths vol).distribution[i]'(by rw [(tail_lengths widths vol h).2.1]; omega)
      = (vol[i + 1] - vol[i]) / (widths[i + 1] - widths[i]) := by
  simp only [tail_distribution, List.getElem_zipWith]
  rw [diff_getElem _ i (by rw [List.length_take, min_eq_left h]; exact hi), diff_getElem _ i hi]
  simp only [List.getElem_take]

variable [LinearOrder α] [IsStrictOrderedRing α]

/-- C9. `avg_pore_widths` are the means of successive solved widths; for sorted widths each lies between its two neighbours -/
theorem tail_widths_are_means (widths vol : List α) :
    (tail widths vol).widths = avgPairs widths
    ∧ (widths.Pairwise (· ≤ ·) → ∀ (i : Nat) (hi : i + 1 < widths.length),
        widths[i] ≤ (avgPairs widths)[i]'(by rw [avgPairs_length]; omega)
        ∧ (avgPairs widths)[i]'(by rw [avgPairs_length]; omega) ≤ widths[i + 1]) := by
  refine ⟨rfl, fun hs i hi => ?_⟩
  rw [avgPairs_getElem widths i hi]
  have hle : widths[i] ≤ widths[i + 1] := List.pairwise_iff_getElem.mp hs i (i + 1) (by omega) hi (by omega)
  constructor
  · rw [le_div_iff₀ (by norm_num : (0 : α) < 2)]; linarith
  · rw [div_le_iff₀ (by norm_num : (0 : α) < 2)]; linarith

/-- strictly: if two successive widths differ, the mean is strictly between them -/
theorem avgPairs_strict_between (widths : List α) (i : Nat) (hi : i + 1 < widths.length)
    (hlt : widths[i] < widths[i + 1]) :
    widths[i] < (avgPairs widths)[i]'(by rw [avgPairs_length]; omega)
      ∧ (avgPairs widths)[i]'(by rw [avgPairs_length]; omega) < widths[i + 1] := by
  rw [avgPairs_getElem widths i hi]
  constructor
  · rw [lt_div_iff₀ (by norm_num : (0 : α) < 2)]; linarith
  · rw [div_lt_iff₀ (by norm_num : (0 : α) < 2)]; linarith

/-- C11. the reported width is a strictly increasing function of the solved internuclear distance / radius, for each geometry -/
theorem reportedWidth_mono (g : String) (hg : g = "slit" ∨ g = "cylinder" ∨ g = "sphere") (dMat : α) :
    ∃ f : α → α, StrictMono f ∧ (∀ l, reportedWidth g dMat l = some (f l))
      ∧ (g = "slit" → ∀ l, f l = l - dMat) ∧ (g ≠ "slit" → ∀ l, f l = 2 * l - dMat) := by
  rcases hg with rfl | rfl | rfl
  · exact ⟨fun l => l - dMat, fun a b hab => by simpa using hab, fun l => by simp [reportedWidth],
      fun _ _ => rfl, fun h => absurd rfl h⟩
  · refine ⟨fun l => 2 * l - dMat, fun a b hab => ?_, fun l => by simp [reportedWidth], fun h => by simp at h,
      fun _ _ => rfl⟩
    simp only; linarith
  · refine ⟨fun l => 2 * l - dMat, fun a b hab => ?_, fun l => by simp [reportedWidth], fun h => by simp at h,
      fun _ _ => rfl⟩
    simp only; linarith

/-- C11. reported widths are ordered exactly as the solved distances -/
theorem reportedWidth_le_iff (g : String) (dMat l₁ l₂ w₁ w₂ : α)
    (h₁ : reportedWidth g dMat l₁ = some w₁) (h₂ : reportedWidth g dMat l₂ = some w₂) :
    w₁ ≤ w₂ ↔ l₁ ≤ l₂ := by
  unfold reportedWidth at h₁ h₂
  split_ifs at h₁ h₂
  · simp only [Option.some.injEq] at h₁ h₂; subst h₁ h₂; simp
  · simp only [Option.some.injEq] at h₁ h₂; subst h₁ h₂
    constructor <;> intro h <;> linarith

omit [LinearOrder α] [IsStrictOrderedRing α] in
/-- C11. any other geometry name gives no width (the code raises `ParameterError`) -/
theorem reportedWidth_none (g : String) (hg : g ≠ "slit" ∧ g ≠ "cylinder" ∧ g ≠ "sphere") (dMat l : α) :
    reportedWidth g dMat l = none := by
  simp [reportedWidth, hg.1, hg.2.1, hg.2.2]

omit [IsStrictOrderedRing α] in
/-- C13. default limits of `psd_microporous` are `(None, 0.2)` -/
theorem microWindow_default (ps : List α) (c20 : α) (lo hi : Option α) :
    microWindow ps c20 none = decide3 (limitWindow ps none (some c20))
    ∧ microWindow ps c20 (some (lo, hi)) = decide3 (limitWindow ps lo hi) := ⟨rfl, rfl⟩

end Book2

/-- C12. the liquid volume is strictly increasing in the loading -/
theorem volume_adsorbed_mono (M ρ : ℝ) (hM : 0 < M) (hρ : 0 < ρ) :
    StrictMono (fun n => hk_volume_adsorbed n M ρ) := by
  intro a b hab
  simp only [hk_volume_adsorbed]
  have : a * M / ρ < b * M / ρ := by
    apply div_lt_div_of_pos_right _ hρ
    exact mul_lt_mul_of_pos_right hab hM
  linarith

/-- C12. the liquid volume is linear in the loading -/
theorem volume_adsorbed_linear (n M ρ k : ℝ) : hk_volume_adsorbed (k * n) M ρ = k * hk_volume_adsorbed n M ρ := by
  unfold hk_volume_adsorbed
  ring

theorem volume_adsorbed_eq (n M ρ : ℝ) : hk_volume_adsorbed n M ρ = n * M / ρ / 1000 := rfl

/-- C12. representation of the loading: the liquid volume of a WHOLE-NUMBER loading `n > 0` (data recorded in whole mmol/g) with
`n M < 1000 ρ` lies strictly between 0 and 1, so it is not a whole number: the model (over a field) says the cumulative volume cannot be
kept in a buffer of the loading's integer type.  The harness hands integer lists / arrays / isotherm columns to the code for this reason. -/
theorem volume_of_whole_loading_fractional (n : ℕ) (M ρ : ℝ) (hn : 0 < n) (hM : 0 < M) (hρ : 0 < ρ)
    (h : (n : ℝ) * M < 1000 * ρ) :
    0 < hk_volume_adsorbed (n : ℝ) M ρ ∧ hk_volume_adsorbed (n : ℝ) M ρ < 1 := by
  have hn' : (0 : ℝ) < n := by exact_mod_cast hn
  unfold hk_volume_adsorbed
  refine ⟨by positivity, ?_⟩
  rw [div_div, div_lt_one (by positivity)]
  linarith

/-- non-vacuity: 26 mmol/g of a nitrogen-like adsorbate (M = 28, ρ = 4/5) -/
example : 0 < hk_volume_adsorbed ((26 : ℕ) : ℝ) 28 (4 / 5) ∧ hk_volume_adsorbed ((26 : ℕ) : ℝ) 28 (4 / 5) < 1 :=
  volume_of_whole_loading_fractional 26 28 (4 / 5) (by norm_num) (by norm_num) (by norm_num) (by norm_num)

/-- C12. for non-decreasing loading the cumulative pore-volume curve is non-decreasing -/
theorem tail_cumulative_sorted (widths loading : List ℝ) (M ρ : ℝ) (hM : 0 < M) (hρ : 0 < ρ)
    (hs : loading.Pairwise (· ≤ ·)) :
    (tail widths (loading.map (fun n => hk_volume_adsorbed n M ρ))).cumulative.Pairwise (· ≤ ·) := by
  rw [tail_cumulative]
  refine List.Pairwise.sublist ((List.drop_sublist _ _).trans (List.take_sublist _ _)) ?_
  rw [List.pairwise_map]
  exact hs.imp (fun hab => (volume_adsorbed_mono M ρ hM hρ).monotone hab)

/-! ## B. the Cheng-Yang correction term -/

/-- B5. the correction term is negative for coverages in (0,1) (guard `θ < 1` excludes `log` of a non-positive number,
`0 < θ` the division by zero) -/
theorem sf_corr_neg (θ : ℝ) (h0 : 0 < θ) (h1 : θ < 1) : hk_sf_corr θ < 0 := by
  unfold hk_sf_corr
  have hlog : Real.log (1 - θ) < -θ := by
    have := Real.log_lt_sub_one_of_pos (by linarith : 0 < 1 - θ) (by linarith : 1 - θ ≠ 1)
    linarith
  have : 1 / θ * Real.log (1 - θ) < 1 / θ * (-θ) := mul_lt_mul_of_pos_left hlog (by positivity)
  have e : 1 / θ * (-θ) = -1 := by field_simp
  linarith

/-- B6. the correction is unbounded below as the coverage approaches 1 (finding S23: corrected widths can decrease with pressure) -/
theorem sf_corr_unbounded (M : ℝ) : ∃ θ : ℝ, 0 < θ ∧ θ < 1 ∧ hk_sf_corr θ < M := by
  set K : ℝ := |M| + 2 with hK
  have hKpos : 0 < K := by positivity
  refine ⟨1 - Real.exp (-K), ?_, ?_, ?_⟩
  · have : Real.exp (-K) < 1 := by rw [Real.exp_lt_one_iff]; linarith
    linarith
  · have := Real.exp_pos (-K); linarith
  · unfold hk_sf_corr
    have hθ0 : 0 < 1 - Real.exp (-K) := by
      have : Real.exp (-K) < 1 := by rw [Real.exp_lt_one_iff]; linarith
      linarith
    have hθ1 : 1 - Real.exp (-K) < 1 := by have := Real.exp_pos (-K); linarith
    have e : (1 : ℝ) - (1 - Real.exp (-K)) = Real.exp (-K) := by ring
    rw [e, Real.log_exp]
    have h1 : 1 < 1 / (1 - Real.exp (-K)) := by rw [lt_div_iff₀ hθ0]; linarith
    have : 1 / (1 - Real.exp (-K)) * (-K) < 1 * (-K) := by
      apply mul_lt_mul_of_neg_right h1; linarith
    have := neg_abs_le M
    linarith

lemma sf_corr_hasDerivAt (θ : ℝ) (h0 : θ ≠ 0) (h1 : 1 - θ ≠ 0) :
    HasDerivAt hk_sf_corr ((-θ / (1 - θ) - Real.log (1 - θ)) / θ ^ 2) θ := by
  have ha : HasDerivAt (fun θ : ℝ => 1 - θ) (-1) θ := by simpa using (hasDerivAt_id θ).const_sub 1
  have hb := ha.log h1
  have hc := (hasDerivAt_const θ (1 : ℝ)).div (hasDerivAt_id θ) h0
  have h := (hc.mul hb).const_add 1
  simp only [id] at h
  have e : (-θ / (1 - θ) - Real.log (1 - θ)) / θ ^ 2
      = (0 * θ - 1 * 1) / θ ^ 2 * Real.log (1 - θ) + 1 / θ * (-1 / (1 - θ)) := by
    field_simp
    ring
  rw [e]
  exact h

/-- B6. the correction term is strictly decreasing in the coverage on (0,1) -/
theorem sf_corr_strictAntiOn : StrictAntiOn hk_sf_corr (Set.Ioo 0 1) := by
  have hd : ∀ θ ∈ Set.Ioo (0 : ℝ) 1, HasDerivAt hk_sf_corr ((-θ / (1 - θ) - Real.log (1 - θ)) / θ ^ 2) θ :=
    fun θ hθ => sf_corr_hasDerivAt θ hθ.1.ne' (by have := hθ.2; linarith)
  apply strictAntiOn_of_deriv_neg (convex_Ioo 0 1)
  · exact fun θ hθ => (hd θ hθ).continuousAt.continuousWithinAt
  · intro θ hθ
    rw [interior_Ioo] at hθ
    rw [(hd θ hθ).deriv]
    obtain ⟨h0, h1⟩ := hθ
    have h1' : 0 < 1 - θ := by linarith
    apply div_neg_of_neg_of_pos _ (by positivity)
    -- log (1-θ) > 1 - 1/(1-θ) = -θ/(1-θ)
    have hlog : Real.log (1 - θ)⁻¹ < (1 - θ)⁻¹ - 1 :=
      Real.log_lt_sub_one_of_pos (by positivity) (by
        intro h
        have : (1 - θ) = 1 := by rw [← inv_inv (1 - θ), h, inv_one]
        linarith)
    rw [Real.log_inv] at hlog
    have e : -θ / (1 - θ) = 1 - (1 - θ)⁻¹ := by field_simp; ring
    rw [e]
    linarith

/-! ## D. non-vacuity (tests, not properties) -/

example : (tail ([1, 2, 4] : List ℚ) [0, 3, 5, 9]).widths = [3 / 2, 3] := by decide +kernel
example : (tail ([1, 2, 4] : List ℚ) [0, 3, 5, 9]).distribution = [3, 1] := by decide +kernel
example : (tail ([1, 2, 4] : List ℚ) [0, 3, 5, 9]).cumulative = [3, 5] := by decide +kernel
example : List.zipWith (· * ·) (tail ([1, 2, 4] : List ℚ) [0, 3, 5, 9]).distribution (diff [1, 2, 4])
    = diff (([0, 3, 5, 9] : List ℚ).take 3) := by decide +kernel
/-- the guard of C8 is needed: with a repeated width the distribution entry is the totalised `x/0 = 0` and the identity fails -/
example : List.zipWith (· * ·) (tail ([1, 1] : List ℚ) [0, 3]).distribution (diff [1, 1])
    ≠ diff (([0, 3] : List ℚ).take 2) := by decide +kernel
example : reportedWidth "slit" (1 / 4 : ℚ) 1 = some (3 / 4) := by decide +kernel
example : reportedWidth "sphere" (1 / 4 : ℚ) 1 = some (7 / 4) := by decide +kernel
example : reportedWidth "cone" (1 / 4 : ℚ) 1 = none := by decide +kernel
example : microWindow ([1 / 10, 3 / 20, 9 / 50, 1 / 2] : List ℚ) (1 / 5) none = some (0, 2) := by decide +kernel

/-- the guards of A3/A4 are satisfiable: d = 0.32, l = 1 -/
example : hk_slit_potential (8 / 25) 1 1 1 1 1 1 < 0 :=
  hk_slit_negative _ _ _ _ _ _ _ (by norm_num) (by norm_num) (by norm_num) (by norm_num)
example : hk_slit_potential (8 / 25) 1 1 1 1 1 1 < hk_slit_potential (8 / 25) 1 1 1 1 1 2 :=
  hk_slit_strictMonoOn (8 / 25) 1 1 1 1 1 (by norm_num) (by norm_num) (by norm_num)
    (by norm_num [Set.mem_Ioi]) (by norm_num [Set.mem_Ioi]) (by norm_num)
example : hk_sf_corr (1 / 2) < 0 := sf_corr_neg _ (by norm_num) (by norm_num)
example : hk_sf_corr (3 / 4) < hk_sf_corr (1 / 2) :=
  sf_corr_strictAntiOn (by norm_num [Set.mem_Ioo]) (by norm_num [Set.mem_Ioo]) (by norm_num)
example : hk_volume_adsorbed 2 28 (4 / 5) = 7 / 100 := by unfold hk_volume_adsorbed; norm_num


/-! ### model dispatch of the entry point (decision logic, stated outright) -/

/-- the Cheng-Yang correction is applied exactly for the two `-CY` model names, the Rege-Yang potentials exactly for the two `RY` names -/
theorem dispatch_spec (m : String) (ry cy : Bool) (h : PgVerif.Model.Micro.dispatch m = some (ry, cy)) :
    (cy = true ↔ (m = "HK-CY" ∨ m = "RY-CY")) ∧ (ry = true ↔ (m = "RY" ∨ m = "RY-CY")) := by
  unfold PgVerif.Model.Micro.dispatch at h
  split_ifs at h with h1 h2 h3 h4 <;> simp_all

theorem dispatch_none_iff (m : String) :
    PgVerif.Model.Micro.dispatch m = none ↔ (m ≠ "HK" ∧ m ≠ "HK-CY" ∧ m ≠ "RY" ∧ m ≠ "RY-CY") := by
  unfold PgVerif.Model.Micro.dispatch
  split_ifs with h1 h2 h3 h4 <;> simp_all

end PgVerif.Props.C17
