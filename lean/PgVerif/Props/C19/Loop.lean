/-
C19 — control logic of the Whittaker loop and of the initial-enthalpy point method (model: Model/Enthalpy.lean, tied to
enth_sorp_whittaker.py / initial_enth.py by the correspondence of harness/props/c19.py through Drv/Enthalpy.lean).

"The Whittaker method returns … the closed-form value at each loading and omits ONLY loadings whose pressure lies outside the
range where the vaporisation enthalpy exists; the initial-enthalpy point method returns the first measured enthalpy of the
chosen branch."
-/
import PgVerif.Model.Enthalpy
import Mathlib.Algebra.Order.Field.Rat
import Mathlib.Tactic

namespace PgVerif.C19
open PgVerif.Model.Enthalpy

variable {α : Type} [Field α] [LinearOrder α]

/-- a loading is kept exactly when it is non-zero and its pressure is a number inside `[0, min(p_c, p_sat)]` -/
theorem kept_iff (pc psat n : α) (p : Option α) :
    kept pc psat n p = true ↔ n ≠ 0 ∧ ∃ q, p = some q ∧ 0 ≤ q ∧ q ≤ pc ∧ q ≤ psat := by
  unfold kept
  by_cases hn : n = 0
  · simp [hn]
  · cases p with
    | none => simp [hn]
    | some q => simp [hn, not_lt, and_assoc]

/-- **omits only out-of-range loadings**: a pair is reported iff its loading was requested with an in-range pressure, and the
pressure handed to the vaporisation-enthalpy lookup is that pressure capped from below by the triple-point pressure -/
theorem whittaker_reports_iff (pc pt psat : α) (rows : List (α × Option α)) (n q : α) :
    (n, q) ∈ whitLoop pc pt psat rows ↔
      ∃ p, (n, some p) ∈ rows ∧ n ≠ 0 ∧ 0 ≤ p ∧ p ≤ pc ∧ p ≤ psat ∧ q = max p pt := by
  induction rows with
  | nil => simp [whitLoop]
  | cons r rest ih =>
    obtain ⟨n', p'⟩ := r
    unfold whitLoop
    by_cases hk : kept pc psat n' p' = true
    · obtain ⟨hn', q', rfl, h0, h1, h2⟩ := (kept_iff pc psat n' p').1 hk
      simp only [hk, if_true, List.mem_cons, Prod.mk.injEq, ih, hvapPressure]
      constructor
      · rintro (⟨rfl, rfl⟩ | ⟨p, hp, rest'⟩)
        · exact ⟨q', Or.inl ⟨rfl, rfl⟩, hn', h0, h1, h2, rfl⟩
        · exact ⟨p, Or.inr hp, rest'⟩
      · rintro ⟨p, (⟨rfl, hp⟩ | hp), hn, h0', h1', h2', rfl⟩
        · cases hp; exact Or.inl ⟨rfl, rfl⟩
        · exact Or.inr ⟨p, hp, hn, h0', h1', h2', rfl⟩
    · have hk' : kept pc psat n' p' = false := by simpa using hk
      simp only [hk', Bool.false_eq_true, if_false, ih, List.mem_cons, Prod.mk.injEq]
      constructor
      · rintro ⟨p, hp, rest'⟩; exact ⟨p, Or.inr hp, rest'⟩
      · rintro ⟨p, (⟨rfl, hp⟩ | hp), hn, h0', h1', h2', rfl⟩
        · exfalso
          have : kept pc psat n p' = true := (kept_iff pc psat n p').2 ⟨hn, p, hp.symm, h0', h1', h2'⟩
          rw [hk'] at this; cases this
        · exact ⟨p, hp, hn, h0', h1', h2', rfl⟩

/-- the reported loadings are the requested ones that are kept, in the requested order (nothing is reordered or duplicated) -/
theorem whittaker_loadings_eq_filter (pc pt psat : α) (rows : List (α × Option α)) :
    (whitLoop pc pt psat rows).map (·.1) = (rows.filter fun r => kept pc psat r.1 r.2).map (·.1) := by
  induction rows with
  | nil => rfl
  | cons r rest ih =>
    obtain ⟨n, p⟩ := r
    unfold whitLoop
    by_cases hk : kept pc psat n p = true
    · obtain ⟨_, q, rfl, _⟩ := (kept_iff pc psat n (p)).1 hk
      simp [hk, ih]
    · have hk' : kept pc psat n p = false := by simpa using hk
      simp [hk', ih]

/-- if every requested loading is non-zero with an in-range pressure, nothing is omitted -/
theorem whittaker_in_range_all_reported (pc pt psat : α) (rows : List (α × Option α))
    (h : ∀ r ∈ rows, kept pc psat r.1 r.2 = true) :
    (whitLoop pc pt psat rows).map (·.1) = rows.map (·.1) := by
  rw [whittaker_loadings_eq_filter, List.filter_eq_self.2 (by simpa using h)]

/-- the vaporisation enthalpy is never looked up below the triple-point pressure -/
theorem whittaker_hvap_pressure_ge_triple (pc pt psat : α) (rows : List (α × Option α)) (n q : α)
    (h : (n, q) ∈ whitLoop pc pt psat rows) : pt ≤ q := by
  obtain ⟨p, _, _, _, _, _, rfl⟩ := (whittaker_reports_iff pc pt psat rows n q).1 h
  exact le_max_right _ _

/-- … and above the triple point it is looked up at the loading's own pressure -/
theorem whittaker_hvap_pressure_own (pc pt psat : α) (rows : List (α × Option α)) (n p : α)
    (hr : (n, some p) ∈ rows) (hn : n ≠ 0) (h0 : 0 ≤ p) (h1 : p ≤ pc) (h2 : p ≤ psat) (ht : pt ≤ p) :
    (n, p) ∈ whitLoop pc pt psat rows :=
  (whittaker_reports_iff pc pt psat rows n p).2 ⟨p, hr, hn, h0, h1, h2, (max_eq_left ht).symm⟩

/-- **initial enthalpy = first measured enthalpy of the chosen branch**: the result is the enthalpy of the first row (in
measurement order) carrying the requested branch mark; rows of the other branch before it are skipped, later rows are irrelevant -/
theorem initial_point_is_first (pre post : List (Bool × α)) (b : Bool) (h : α)
    (hpre : ∀ r ∈ pre, r.1 ≠ b) :
    initialPoint (pre ++ (b, h) :: post) (some b) = some h := by
  unfold initialPoint
  have : pre.filter (·.1 == b) = [] := by
    rw [List.filter_eq_nil_iff]
    intro r hr
    simpa using hpre r hr
  simp [List.filter_append, this]

/-- no row of the branch ⇒ no value (the library raises / returns nothing; never another branch's datum) -/
theorem initial_point_none (rows : List (Bool × α)) (b : Bool) (h : ∀ r ∈ rows, r.1 ≠ b) :
    initialPoint rows (some b) = none := by
  unfold initialPoint
  have : rows.filter (·.1 == b) = [] := by
    rw [List.filter_eq_nil_iff]
    intro r hr
    simpa using h r hr
  simp [this]

/-- without a branch filter it is the first row -/
theorem initial_point_all (r : Bool × α) (rest : List (Bool × α)) : initialPoint (r :: rest) none = some r.2 := rfl

/-- non-vacuity: a zero loading, a NaN pressure, a pressure above `p_sat` and a negative pressure are omitted; a pressure below the
triple point is kept and capped -/
example : whitLoop (α := ℚ) 100 10 50 [(0, some 5), (1, some 5), (2, none), (3, some 60), (4, some (-1)), (5, some 20)]
    = [(1, 10), (5, 20)] := by decide +kernel

example : initialPoint (α := ℚ) [(false, 1), (false, 2), (true, 3), (true, 4)] (some true) = some 3 := by decide +kernel

end PgVerif.C19
