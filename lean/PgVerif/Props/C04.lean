/-
C04 — read-only queries and analyses are pure and independent of query history.
Theorems about Model/Cache.lean: the outcome of every modelled query is a function of the observable content and of the
arguments only; the hidden cache state never matters, whatever history produced it.
-/
import PgVerif.Model.Cache
import Mathlib.Tactic

namespace PgVerif.C04
open PgVerif.Model.Cache

variable {φ ο χ ρ : Type} [DecidableEq φ]

/-- after the rebuild step the cached key is the requested one -/
theorem rebuilt_key (c : Option (Key φ)) (k : Key φ) :
    (if mustRebuild c k then some k else c) = some k := by
  unfold mustRebuild
  cases c with
  | none => simp
  | some c =>
    by_cases h : (c.branch != k.branch || c.kind != k.kind || c.fill != k.fill) = true
    · simp [h]
    · simp only [h]
      simp only [Bool.not_eq_true, Bool.or_eq_false_iff, bne_eq_false_iff_eq] at h
      obtain ⟨⟨h1, h2⟩, h3⟩ := h
      cases c; cases k; simp_all

/-- **cache transparency, one step**: `loading_at` returns what an interpolator built for exactly the requested
(branch, kind, fill) returns, whatever was cached before -/
theorem loadingAt_outcome (E : ο → Key φ → χ → ρ) (o : ο) (h : Hidden φ) (k : Key φ) (x : χ) :
    (loadingAt E o h k x).1 = E o k x := by
  unfold loadingAt
  have := rebuilt_key h.l k
  by_cases hr : mustRebuild h.l k = true
  · simp [hr]
  · simp only [hr, Bool.false_eq_true, ↓reduceIte] at this ⊢
    rw [this]

theorem pressureAt_outcome (E : ο → Key φ → χ → ρ) (o : ο) (h : Hidden φ) (k : Key φ) (x : χ) :
    (pressureAt E o h k x).1 = E o k x := by
  unfold pressureAt
  have := rebuilt_key h.p k
  by_cases hr : mustRebuild h.p k = true
  · simp [hr]
  · simp only [hr, Bool.false_eq_true, ↓reduceIte] at this ⊢
    rw [this]

/-- the outcome of ANY modelled query does not depend on the hidden state -/
theorem outcome_independent_of_hidden (w : World φ ο χ ρ) (o : ο) (h₁ h₂ : Hidden φ) (q : Query φ χ) :
    (run w o h₁ q).1 = (run w o h₂ q).1 := by
  cases q with
  | loadingAt k x => simp [run, loadingAt_outcome]
  | pressureAt k x => simp [run, pressureAt_outcome]
  | spreadingAt b f x =>
    simp only [run, spreadingAt]
    cases w.guard o f x with
    | some r => rfl
    | none =>
      have e1 := loadingAt_outcome w.EL o h₁ ⟨b, "linear", f⟩ x
      have e2 := loadingAt_outcome w.EL o h₂ ⟨b, "linear", f⟩ x
      simp only []
      rw [show (loadingAt w.EL o h₁ ⟨b, "linear", f⟩ x) = ((loadingAt w.EL o h₁ ⟨b, "linear", f⟩ x).1, (loadingAt w.EL o h₁ ⟨b, "linear", f⟩ x).2) from rfl,
          show (loadingAt w.EL o h₂ ⟨b, "linear", f⟩ x) = ((loadingAt w.EL o h₂ ⟨b, "linear", f⟩ x).1, (loadingAt w.EL o h₂ ⟨b, "linear", f⟩ x).2) from rfl]
      simp [e1, e2]
  | plain n => rfl

/-- **history independence**: the outcome of a query issued after ANY sequence of other queries equals the outcome of the
same query issued first on a fresh object (empty caches) -/
theorem query_outcome_history_free (w : World φ ο χ ρ) (o : ο) (qs : List (Query φ χ)) (q : Query φ χ) :
    (run w o (after w o ⟨none, none⟩ qs) q).1 = (run w o ⟨none, none⟩ q).1 :=
  outcome_independent_of_hidden w o _ _ q

/-- the cached key, if any, is always the key of the interpolator that was built from the same observable content:
a cached interpolator is only ever used under an equal key (`cache_key_sound`) -/
theorem cache_key_sound (E : ο → Key φ → χ → ρ) (o : ο) (h : Hidden φ) (k : Key φ) (x : χ) :
    (loadingAt E o h k x).2.l = some k := by
  unfold loadingAt
  have := rebuilt_key h.l k
  by_cases hr : mustRebuild h.l k = true
  · simp [hr]
  · simp only [hr, Bool.false_eq_true, ↓reduceIte] at this ⊢
    rw [this]
    exact this

end PgVerif.C04
