/-
C04 — read-only queries and analyses are pure and independent of query history.
Theorems about Model/Cache.lean: the outcome of every modelled query is a function of the observable content and of the
arguments only; the hidden cache state never matters, whatever history produced it.
-/
import PgVerif.Model.Cache
import Mathlib.Tactic

namespace PgVerif.C04
open PgVerif.Model.Cache

variable {φ ο χ ρ : Type} [DecidableEq φ]

/-- after a successful rebuild step the cached key is the requested one; after a failed one the cache is untouched -/
theorem rebuild_key (B : ο → Key φ → Option ρ) (o : ο) (c : Option (Key φ)) (k : Key φ) :
    (B o k = none → rebuild B o c k = (none, some k)) ∧
    (∀ err, B o k = some err → rebuild B o c k = (if mustRebuild c k then some err else none, c)) := by
  unfold rebuild
  constructor
  · intro hb
    by_cases h : mustRebuild c k = true
    · simp [h, hb]
    · simp only [h, Bool.false_eq_true, ↓reduceIte, Prod.mk.injEq, true_and]
      unfold mustRebuild at h
      cases c with
      | none => simp at h
      | some c =>
        simp only [Bool.not_eq_true, Bool.or_eq_false_iff, bne_eq_false_iff_eq] at h
        obtain ⟨⟨h1, h2⟩, h3⟩ := h
        cases c; cases k; simp_all
  · intro err hb
    by_cases h : mustRebuild c k = true
    · simp [h, hb]
    · simp [h]

/-- a cache that holds a buildable key different in no component from the request is not rebuilt -/
private theorem mustRebuild_self (k : Key φ) : mustRebuild (some k) k = false := by
  simp [mustRebuild]

/-- a valid cache never needs a rebuild for a key whose constructor raises: such a key is never cached -/
private theorem rebuild_of_unbuildable (B : ο → Key φ → Option ρ) (o : ο) (c : Option (Key φ)) (k : Key φ) (err : ρ)
    (hv : ∀ c', c = some c' → B o c' = none) (hb : B o k = some err) : rebuild B o c k = (some err, c) := by
  have hm : mustRebuild c k = true := by
    cases c with
    | none => rfl
    | some c' =>
      by_contra hne
      have hne' : mustRebuild (some c') k = false := by simpa using hne
      unfold mustRebuild at hne'
      simp only [Bool.or_eq_false_iff, bne_eq_false_iff_eq] at hne'
      obtain ⟨⟨h1, h2⟩, h3⟩ := hne'
      have : c' = k := by cases c'; cases k; simp_all
      rw [this] at hv
      rw [hv k rfl] at hb
      cases hb
  unfold rebuild
  simp [hm, hb]

/-- **cache transparency, one step**: on a valid cache `loading_at` returns what an interpolator built for exactly the
requested (branch, kind, fill) returns — the constructor's error if it raises — whatever was cached before -/
theorem loadingAt_outcome (E : ο → Key φ → χ → ρ) (B : ο → Key φ → Option ρ) (o : ο) (h : Hidden φ) (k : Key φ) (x : χ)
    (hv : ∀ c, h.l = some c → B o c = none) :
    (loadingAt E B o h k x).1 = (match B o k with | some err => err | none => E o k x) := by
  unfold loadingAt
  cases hb : B o k with
  | none => simp [(rebuild_key B o h.l k).1 hb, evalCached]
  | some err => simp [rebuild_of_unbuildable B o h.l k err hv hb]

theorem pressureAt_outcome (E : ο → Key φ → χ → ρ) (B : ο → Key φ → Option ρ) (o : ο) (h : Hidden φ) (k : Key φ) (x : χ)
    (hv : ∀ c, h.p = some c → B o c = none) :
    (pressureAt E B o h k x).1 = (match B o k with | some err => err | none => E o k x) := by
  unfold pressureAt
  cases hb : B o k with
  | none => simp [(rebuild_key B o h.p k).1 hb, evalCached]
  | some err => simp [rebuild_of_unbuildable B o h.p k err hv hb]

theorem spreadingAt_outcome (w : World φ ο χ ρ) (o : ο) (h : Hidden φ) (b : String) (f : Option φ) (x : χ)
    (hv : ∀ c, h.l = some c → w.BL o c = none) :
    (spreadingAt w.EL w.BL w.guard w.S o h b f x).1 =
      (match w.guard o f x with
       | some refused => refused
       | none => match w.BL o ⟨b, "linear", f⟩ with
         | some err => err
         | none => w.S o x (w.EL o ⟨b, "linear", f⟩ x)) := by
  unfold spreadingAt
  cases w.guard o f x with
  | some r => rfl
  | none =>
    cases hb : w.BL o ⟨b, "linear", f⟩ with
    | none => simp [(rebuild_key w.BL o h.l ⟨b, "linear", f⟩).1 hb, evalCached]
    | some err => simp [rebuild_of_unbuildable w.BL o h.l ⟨b, "linear", f⟩ err hv hb]

/-- the outcome of ANY modelled query is the same on any two valid hidden states -/
theorem outcome_independent_of_hidden (w : World φ ο χ ρ) (o : ο) (h₁ h₂ : Hidden φ) (hv₁ : Valid w o h₁) (hv₂ : Valid w o h₂)
    (q : Query φ χ) : (run w o h₁ q).1 = (run w o h₂ q).1 := by
  cases q with
  | loadingAt k x => simp only [run]; rw [loadingAt_outcome _ _ _ _ _ _ hv₁.1, loadingAt_outcome _ _ _ _ _ _ hv₂.1]
  | pressureAt k x => simp only [run]; rw [pressureAt_outcome _ _ _ _ _ _ hv₁.2, pressureAt_outcome _ _ _ _ _ _ hv₂.2]
  | spreadingAt b f x => simp only [run]; rw [spreadingAt_outcome w o h₁ b f x hv₁.1, spreadingAt_outcome w o h₂ b f x hv₂.1]
  | plain n => rfl

/-- the rebuild step keeps the cache valid -/
private theorem rebuild_valid (B : ο → Key φ → Option ρ) (o : ο) (c : Option (Key φ)) (k : Key φ)
    (hv : ∀ c', c = some c' → B o c' = none) : ∀ c', (rebuild B o c k).2 = some c' → B o c' = none := by
  intro c' hc
  unfold rebuild at hc
  by_cases hm : mustRebuild c k = true
  · simp only [hm, ↓reduceIte] at hc
    cases hb : B o k with
    | none =>
      simp only [hb] at hc
      cases hc
      exact hb
    | some err =>
      simp only [hb] at hc
      exact hv c' hc
  · simp only [hm, Bool.false_eq_true, ↓reduceIte] at hc
    exact hv c' hc

/-- every query keeps the hidden state valid -/
theorem run_valid (w : World φ ο χ ρ) (o : ο) (h : Hidden φ) (hv : Valid w o h) (q : Query φ χ) : Valid w o (run w o h q).2 := by
  cases q with
  | loadingAt k x =>
    simp only [run, loadingAt]
    cases (rebuild w.BL o h.l k).1 <;> exact ⟨rebuild_valid w.BL o h.l k hv.1, hv.2⟩
  | pressureAt k x =>
    simp only [run, pressureAt]
    cases (rebuild w.BP o h.p k).1 <;> exact ⟨hv.1, rebuild_valid w.BP o h.p k hv.2⟩
  | spreadingAt b f x =>
    simp only [run, spreadingAt]
    cases w.guard o f x with
    | some r => exact hv
    | none =>
      simp only []
      cases (rebuild w.BL o h.l ⟨b, "linear", f⟩).1 <;> exact ⟨rebuild_valid w.BL o h.l ⟨b, "linear", f⟩ hv.1, hv.2⟩
  | plain n => exact hv

omit [DecidableEq φ] in
theorem fresh_valid (w : World φ ο χ ρ) (o : ο) : Valid w o ⟨none, none⟩ :=
  ⟨fun _ h => by simp at h, fun _ h => by simp at h⟩

private theorem after_valid (w : World φ ο χ ρ) (o : ο) (qs : List (Query φ χ)) (h : Hidden φ) (hv : Valid w o h) :
    Valid w o (after w o h qs) := by
  induction qs generalizing h with
  | nil => exact hv
  | cons q qs ih =>
    simp only [after, List.foldl_cons] at ih ⊢
    exact ih _ (run_valid w o h hv q)

/-- **history independence**: the outcome of a query issued after ANY sequence of other queries equals the outcome of the
same query issued first on a fresh object (empty caches) -/
theorem query_outcome_history_free (w : World φ ο χ ρ) (o : ο) (qs : List (Query φ χ)) (q : Query φ χ) :
    (run w o (after w o ⟨none, none⟩ qs) q).1 = (run w o ⟨none, none⟩ q).1 :=
  outcome_independent_of_hidden w o _ _ (after_valid w o qs _ (fresh_valid w o)) (fresh_valid w o) q

/-- the cached key, if any, is always the key of the interpolator that was built from the same observable content:
a cached interpolator is only ever used under an equal key (`cache_key_sound`); a key whose constructor raises is never cached -/
theorem cache_key_sound (E : ο → Key φ → χ → ρ) (B : ο → Key φ → Option ρ) (o : ο) (h : Hidden φ) (k : Key φ) (x : χ) :
    (B o k = none → (loadingAt E B o h k x).2.l = some k) ∧
    (∀ err, B o k = some err → (loadingAt E B o h k x).2.l = h.l) := by
  constructor
  · intro hb
    unfold loadingAt
    simp [(rebuild_key B o h.l k).1 hb]
  · intro err hb
    unfold loadingAt
    rw [(rebuild_key B o h.l k).2 err hb]
    by_cases hm : mustRebuild h.l k = true <;> simp [hm]

/-- non-vacuity and a reminder why the failing constructor matters: a cubic request that cannot be built leaves the linear
interpolator in place, and the next linear request is served from it without a rebuild -/
example :
    let B : Unit → Key ℕ → Option String := fun _ k => if k.kind = "cubic" then some "ValueError" else none
    let E : Unit → Key ℕ → Unit → String := fun _ k _ => k.kind
    (loadingAt E B () (loadingAt E B () ⟨none, none⟩ ⟨"ads", "linear", none⟩ ()).2 ⟨"ads", "cubic", none⟩ ()) =
      ("ValueError", ⟨some ⟨"ads", "linear", none⟩, none⟩) := by decide


/-! ## The defect class "change the fill of the cached interpolator in place": transparent iff a relabelled object behaves like a rebuilt one -/

section RetargetSec
open Retarget

omit [DecidableEq φ] in
/-- whatever was cached, after the step the cached object CLAIMS the requested key (so the recorded key of the real object cannot show the defect) -/
theorem retarget_step_label (c : Option (Cached φ)) (k : Key φ) : label (step c k) = k ∧ (step c k).fill = k.fill := by
  cases c with
  | none => exact ⟨by cases k; rfl, rfl⟩
  | some c =>
    unfold step
    by_cases h : (c.built.branch != k.branch || c.built.kind != k.kind) = true
    · simp only [h, ↓reduceIte]
      refine ⟨?_, ?_⟩ <;> trivial
    · simp only [h, Bool.false_eq_true, ↓reduceIte, and_true]
      simp only [Bool.not_eq_true, Bool.or_eq_false_iff, bne_eq_false_iff_eq] at h
      obtain ⟨⟨b, kd, f⟩, f'⟩ := c
      obtain ⟨b', kd', f''⟩ := k
      simp only [label] at h ⊢
      obtain ⟨h1, h2⟩ := h
      simp_all

omit [DecidableEq φ] in
/-- under `FillSeparable` the shortcut returns what an interpolator BUILT for the requested key returns, on any cache -/
theorem retarget_outcome (EI : ο → Key φ → Option φ → χ → ρ) (hs : FillSeparable EI) (o : ο) (c : Option (Cached φ)) (k : Key φ) (x : χ) :
    (Retarget.loadingAt EI o c k x).1 = EI o k k.fill x := by
  unfold Retarget.loadingAt
  simp only
  rw [hs o (step c k).built (step c k).fill x]
  have h := retarget_step_label c k
  unfold label at h
  rw [h.1, h.2]

omit [DecidableEq φ] in
/-- ... hence history independence of the shortcut under `FillSeparable` -/
theorem retarget_history_free (EI : ο → Key φ → Option φ → χ → ρ) (hs : FillSeparable EI) (o : ο) (qs : List (Key φ × χ)) (k : Key φ) (x : χ) :
    (Retarget.loadingAt EI o (Retarget.after EI o none qs) k x).1 = (Retarget.loadingAt EI o none k x).1 := by
  rw [retarget_outcome EI hs, retarget_outcome EI hs]

/-- an interpolator like scipy's `interp1d`: the abscissa is inside the data range (`true`) or not; an object BUILT with
`'extrapolate'` extrapolates whatever fill it is given later (the flag set at construction survives), an object built otherwise
clamps when it is told to extrapolate later (the code path was bound at construction) -/
def scipyLike : Unit → Key (Fill ℕ) → Option (Fill ℕ) → Bool → String := fun _ built f inside =>
  if inside then "interpolated"
  else if built.fill = some .extrapolate then "extrapolated"
  else match f with
    | none => "ValueError"
    | some .extrapolate => "clamped"
    | some _ => "fill value"

/-- **the condition is necessary** (seeded change seedout5/C04-m2): with an interpolator like scipy's the shortcut (A) extrapolates where the
same call on a fresh isotherm raises, after one call with `'extrapolate'`, and (B) clamps where the same call on a fresh isotherm
extrapolates, after one ordinary call — while inside the range, and for number / pair fills, nothing shows -/
theorem fillSeparable_necessary :
    ¬ FillSeparable scipyLike ∧
    (Retarget.loadingAt scipyLike () (Retarget.after scipyLike () none [(⟨"ads", "linear", some .extrapolate⟩, false)]) ⟨"ads", "linear", none⟩ false).1
      ≠ (Retarget.loadingAt scipyLike () none ⟨"ads", "linear", none⟩ false).1 ∧
    (Retarget.loadingAt scipyLike () (Retarget.after scipyLike () none [(⟨"ads", "linear", none⟩, true)]) ⟨"ads", "linear", some .extrapolate⟩ false).1
      ≠ (Retarget.loadingAt scipyLike () none ⟨"ads", "linear", some .extrapolate⟩ false).1 ∧
    (Retarget.loadingAt scipyLike () (Retarget.after scipyLike () none [(⟨"ads", "linear", some (.pair 0 20)⟩, false)]) ⟨"ads", "linear", some (.value 3)⟩ false).1
      = (Retarget.loadingAt scipyLike () none ⟨"ads", "linear", some (.value 3)⟩ false).1 := by
  refine ⟨?_, by decide, by decide, by decide⟩
  intro h
  exact absurd (h () ⟨"ads", "linear", some .extrapolate⟩ none false) (by decide)

/-- non-vacuity of `retarget_history_free`: an interpolator whose behaviour outside the range depends on the CURRENT fill only -/
example : FillSeparable (fun (_ : Unit) (_ : Key (Fill ℕ)) (f : Option (Fill ℕ)) (inside : Bool) => if inside then "interpolated" else if f = none then "ValueError" else "filled") := by
  intro o k f x
  rfl

end RetargetSec


/-! ## The defect class "the cache test is a PARTIAL comparison" (S53-C04, repaired): transparent iff the comparison of fills never raises
and is the negation of equality -/

section PartialCmpSec

/-- under a total comparison the step is the step of the core model (so `loadingAt_outcome`, `query_outcome_history_free`, … apply) -/
theorem partialCmp_total (ne : Option φ → Option φ → Option Bool) (hn : PartialCmp.TotalNe ne) (cmpErr : ρ) (E : ο → Key φ → χ → ρ)
    (B : ο → Key φ → Option ρ) (o : ο) (c : Option (Key φ)) (p : Option (Key φ)) (k : Key φ) (x : χ) :
    PartialCmp.loadingAt ne cmpErr E B o c k x = ((loadingAt E B o ⟨c, p⟩ k x).1, (loadingAt E B o ⟨c, p⟩ k x).2.l) := by
  have hm : PartialCmp.mustRebuild ne c k = some (mustRebuild c k) := by
    unfold PartialCmp.mustRebuild mustRebuild
    cases c with
    | none => rfl
    | some c =>
      by_cases hbk : (c.branch != k.branch || c.kind != k.kind) = true
      · simp [hbk]
      · simp only [hbk, hn c.fill k.fill]
        simp at hbk ⊢
  unfold PartialCmp.loadingAt loadingAt rebuild
  rw [hm]
  by_cases hr : mustRebuild c k = true
  · cases hb : B o k <;> simp [hr, evalCached]
  · simp [hr]

/-- **history independence under a total comparison**: after any history of `loading_at` calls the outcome is the one on a fresh isotherm -/
theorem partialCmp_history_free (ne : Option φ → Option φ → Option Bool) (hn : PartialCmp.TotalNe ne) (cmpErr : ρ) (E : ο → Key φ → χ → ρ)
    (B : ο → Key φ → Option ρ) (o : ο) (qs : List (Key φ × χ)) (k : Key φ) (x : χ) :
    (PartialCmp.loadingAt ne cmpErr E B o (PartialCmp.after ne cmpErr E B o none qs) k x).1
      = (PartialCmp.loadingAt ne cmpErr E B o none k x).1 := by
  -- invariant: the cached key, if any, is buildable
  have inv : ∀ (qs : List (Key φ × χ)) (c : Option (Key φ)), (∀ c', c = some c' → B o c' = none) →
      ∀ c', PartialCmp.after ne cmpErr E B o c qs = some c' → B o c' = none := by
    intro qs
    induction qs with
    | nil => intro c hc c' h; exact hc c' h
    | cons q qs ih =>
      intro c hc c' h
      refine ih (PartialCmp.loadingAt ne cmpErr E B o c q.1 q.2).2 ?_ c' h
      rw [partialCmp_total ne hn cmpErr E B o c none q.1 q.2]
      exact (run_valid ⟨E, E, B, B, fun _ _ _ => none, fun _ _ r => r, fun _ _ => cmpErr⟩ o ⟨c, none⟩
        ⟨hc, by intro c' h; cases h⟩ (.loadingAt q.1 q.2)).1
  have hv := inv qs none (by intro c' h; cases h)
  rw [partialCmp_total ne hn cmpErr E B o _ none k x, partialCmp_total ne hn cmpErr E B o none none k x]
  show (loadingAt E B o _ k x).1 = (loadingAt E B o _ k x).1
  rw [loadingAt_outcome E B o _ k x hv, loadingAt_outcome E B o _ k x (by intro c' h; cases h)]

/-- Python's `!=` between fills as numpy evaluates it: between a `(below, above)` tuple and a bare value (array / numpy number) it broadcasts
and the `if` has no truth value (`none`); between two fills of one kind, with `None` or with `'extrapolate'` it is the negation of equality -/
def numpyNe : Option (Fill ℕ) → Option (Fill ℕ) → Option Bool
  | some (.pair _ _), some (.value _) => none
  | some (.value _), some (.pair _ _) => none
  | a, b => some (a != b)

/-- an interpolator that shows which fill it was built with outside the range -/
def showsFill : Unit → Key (Fill ℕ) → Bool → String := fun _ k inside =>
  if inside then "interpolated"
  else match k.fill with
    | none => "ValueError (out of range)"
    | some (.value _) => "the value"
    | some (.pair _ _) => "above"
    | some .extrapolate => "extrapolated"

/-- **the condition is necessary** (finding S53-C04 of the unchanged library): with numpy's comparison, after one call with the pair
`(0, 20)` the call with a bare array raises the comparison's error where the same call on a fresh isotherm returns the value — also INSIDE the
range, where the fill does not even matter —, the reverse order fails in the same way, the cache is left untouched (every later call of the
other kind fails too), while value after value, `None` or `'extrapolate'` after a pair are served as on a fresh isotherm -/
theorem totalNe_necessary :
    ¬ PartialCmp.TotalNe numpyNe ∧
    (PartialCmp.loadingAt numpyNe "ValueError (truth value of an array)" showsFill (fun _ _ => none) ()
        (PartialCmp.after numpyNe "ValueError (truth value of an array)" showsFill (fun _ _ => none) () none [(⟨"ads", "linear", some (.pair 0 20)⟩, false)])
        ⟨"ads", "linear", some (.value 3)⟩ false)
      = ("ValueError (truth value of an array)", some ⟨"ads", "linear", some (.pair 0 20)⟩) ∧
    (PartialCmp.loadingAt numpyNe "ValueError (truth value of an array)" showsFill (fun _ _ => none) () none ⟨"ads", "linear", some (.value 3)⟩ false).1 = "the value" ∧
    (PartialCmp.loadingAt numpyNe "ValueError (truth value of an array)" showsFill (fun _ _ => none) ()
        (PartialCmp.after numpyNe "ValueError (truth value of an array)" showsFill (fun _ _ => none) () none [(⟨"ads", "linear", some (.pair 0 20)⟩, false)])
        ⟨"ads", "linear", some (.value 3)⟩ true).1 = "ValueError (truth value of an array)" ∧
    (PartialCmp.loadingAt numpyNe "ValueError (truth value of an array)" showsFill (fun _ _ => none) ()
        (PartialCmp.after numpyNe "ValueError (truth value of an array)" showsFill (fun _ _ => none) () none [(⟨"ads", "linear", some (.value 3)⟩, false)])
        ⟨"ads", "linear", some (.pair 0 20)⟩ false).1 = "ValueError (truth value of an array)" ∧
    (PartialCmp.loadingAt numpyNe "ValueError (truth value of an array)" showsFill (fun _ _ => none) ()
        (PartialCmp.after numpyNe "ValueError (truth value of an array)" showsFill (fun _ _ => none) () none [(⟨"ads", "linear", some (.value 3)⟩, false)])
        ⟨"ads", "linear", some (.value 4)⟩ false).1 = "the value" ∧
    (PartialCmp.loadingAt numpyNe "ValueError (truth value of an array)" showsFill (fun _ _ => none) ()
        (PartialCmp.after numpyNe "ValueError (truth value of an array)" showsFill (fun _ _ => none) () none [(⟨"ads", "linear", some (.pair 0 20)⟩, false)])
        ⟨"ads", "linear", some .extrapolate⟩ false).1 = "extrapolated" := by
  refine ⟨?_, by decide, by decide, by decide, by decide, by decide, by decide⟩
  intro h
  exact absurd (h (some (.pair 0 20)) (some (.value 3))) (by decide)

/-- **the repair**: comparing the fills kind by kind (`_same_fill`) is the equality of fills … -/
theorem sameFill_iff {ν : Type} [DecidableEq ν] (a b : Option (Fill ν)) : PartialCmp.sameFill a b = true ↔ a = b := by
  rcases a with _ | a <;> rcases b with _ | b
  · simp [PartialCmp.sameFill]
  · cases b <;> simp [PartialCmp.sameFill]
  · cases a <;> simp [PartialCmp.sameFill]
  · cases a <;> cases b <;> simp [PartialCmp.sameFill]

/-- … hence `not _same_fill(cached, requested)` is a total comparison: the repaired cache test is the one of the core model
(non-vacuity of `partialCmp_history_free`) -/
theorem sameFill_totalNe {ν : Type} [DecidableEq ν] : PartialCmp.TotalNe (fun a b : Option (Fill ν) => some (!PartialCmp.sameFill a b)) := by
  intro a b
  by_cases h : a = b
  · subst h
    simp [(sameFill_iff a a).2 rfl]
  · have : PartialCmp.sameFill a b = false := by
      cases hs : PartialCmp.sameFill a b
      · rfl
      · exact absurd ((sameFill_iff a b).1 hs) h
    simp [this, h]

end PartialCmpSec

/-! ## Generic principle: hidden state that keeps an invariant and never reaches the outcome is invisible -/

section Generic
variable {ο' η Q ρ' : Type}

private theorem afterG_fst (step : ο' → η → Q → ρ' × ο' × η) (hobs : ∀ o h q, (step o h q).2.1 = o)
    (qs : List Q) (o : ο') (h : η) : (afterG step (o, h) qs).1 = o := by
  induction qs generalizing h with
  | nil => rfl
  | cons q qs ih =>
    simp only [afterG, List.foldl_cons] at ih ⊢
    rw [hobs o h q]
    exact ih _

private theorem afterG_inv (step : ο' → η → Q → ρ' × ο' × η) (I : ο' → η → Prop) (hobs : ∀ o h q, (step o h q).2.1 = o)
    (hI : ∀ o h q, I o h → I o (step o h q).2.2) (qs : List Q) (o : ο') (h : η) (h0 : I o h) : I o (afterG step (o, h) qs).2 := by
  induction qs generalizing h with
  | nil => exact h0
  | cons q qs ih =>
    simp only [afterG, List.foldl_cons] at ih ⊢
    rw [hobs o h q]
    exact ih _ (hI o h q h0)

/-- **generic history independence**: if every query returns the observable state unchanged (`hobs`), keeps an invariant
`I` of the hidden state (`hI`; it may mention the observable state), and its outcome is the same on any two hidden states satisfying `I` (`hout`), then after ANY
history started from a hidden state satisfying `I` the observable state is the original one and every query has the outcome
it has on the fresh object -/
theorem history_free_of_invariant (step : ο' → η → Q → ρ' × ο' × η) (I : ο' → η → Prop)
    (hobs : ∀ o h q, (step o h q).2.1 = o)
    (hI : ∀ o h q, I o h → I o (step o h q).2.2)
    (hout : ∀ o h h' q, I o h → I o h' → (step o h q).1 = (step o h' q).1)
    (o : ο') (h₀ : η) (h0 : I o h₀) (qs : List Q) (q : Q) :
    (afterG step (o, h₀) qs).1 = o ∧
    (step (afterG step (o, h₀) qs).1 (afterG step (o, h₀) qs).2 q).1 = (step o h₀ q).1 := by
  refine ⟨afterG_fst step hobs qs o h₀, ?_⟩
  rw [afterG_fst step hobs qs o h₀]
  exact hout o _ _ q (afterG_inv step I hobs hI qs o h₀ h0) h0

end Generic

/-! ## Thermodynamic state of an adsorbate -/

section ThermoSec
open Thermo
variable {οa ρa : Type}

omit [DecidableEq φ] in
/-- the code's policy (every accessor updates the state with its own arguments) satisfies the invariant -/
theorem alwaysUpdate_fullUpdate : FullUpdate (alwaysUpdate (φ := φ)) := by
  intro cur req h
  simp [alwaysUpdate] at h

omit [DecidableEq φ] in
/-- under `FullUpdate` one (update, read) step returns what CoolProp returns for exactly the requested flash, and leaves
exactly that flash in the state, whatever the state held before -/
theorem flashRead_eq (w : Thermo.World φ οa ρa) (hp : FullUpdate w.policy) (o : οa) (s : Option (Flash φ)) (f : Flash φ)
    (name : String) : flashRead w o s f name = (w.F o f name, some f) := by
  unfold flashRead
  by_cases h : w.policy s f = true
  · simp [h]
  · have hs : s = some f := hp s f (by simpa using h)
    simp [hs]

omit [DecidableEq φ] in
private theorem runSteps_indep (w : Thermo.World φ οa ρa) (hp : FullUpdate w.policy) (o : οa) (steps : List (Flash φ × String))
    (s₁ s₂ : Option (Flash φ)) : (runSteps w o s₁ steps).1 = (runSteps w o s₂ steps).1 := by
  cases steps with
  | nil => rfl
  | cons st rest =>
    obtain ⟨f, name⟩ := st
    simp only [runSteps, flashRead_eq w hp]

omit [DecidableEq φ] in
/-- **the shared CoolProp state is invisible**: the outcome of every accessor is the same on any two hidden states -/
theorem thermo_outcome_independent_of_hidden (w : Thermo.World φ οa ρa) (hp : FullUpdate w.policy) (o : οa)
    (h₁ h₂ : Thermo.Hidden φ) (q : Thermo.Query φ) : (Thermo.run w o h₁ q).1 = (Thermo.run w o h₂ q).1 := by
  cases q with
  | flashes steps key =>
    simp only [Thermo.run]
    rw [runSteps_indep w hp o steps (backend h₁) (backend h₂)]
  | const name key viaState => rfl
  | lookup key => rfl

omit [DecidableEq φ] in
/-- no accessor changes the adsorbate (its name, aliases, `properties` dictionary) -/
theorem thermo_preserves_obs (w : Thermo.World φ οa ρa) (o : οa) (h : Thermo.Hidden φ) (q : Thermo.Query φ) :
    (Thermo.run w o h q).2.1 = o := by
  cases q <;> rfl

omit [DecidableEq φ] in
/-- **history independence of the thermodynamic accessors**: after any sequence of accessor calls (other temperatures,
other phases, pressure flashes, dictionary look-ups) the adsorbate is unchanged and every accessor returns the value, or the
kind of error, it returns on a fresh adsorbate (`_state is None`) -/
theorem thermo_query_history_free (w : Thermo.World φ οa ρa) (hp : FullUpdate w.policy) (o : οa)
    (qs : List (Thermo.Query φ)) (q : Thermo.Query φ) :
    (afterG (Thermo.run w) (o, none) qs).1 = o ∧
    (Thermo.run w (afterG (Thermo.run w) (o, none) qs).1 (afterG (Thermo.run w) (o, none) qs).2 q).1 = (Thermo.run w o none q).1 :=
  history_free_of_invariant (Thermo.run w) (fun _ _ => True) (thermo_preserves_obs w) (fun _ _ _ _ => trivial)
    (fun o h h' q _ _ => thermo_outcome_independent_of_hidden w hp o h h' q) o none trivial qs q

/-- a policy that skips the update when only the TEMPERATURE coordinate of the state agrees (seeded changes C04-m2, -m4) -/
def skipSameT : Option (Flash ℕ) → Flash ℕ → Bool
  | some c, req => c.v2 != req.v2
  | none, _ => true

/-- a world in which the state returns the quality it was flashed with: 0 = liquid side, 1 = vapour side -/
def witnessWorld : Thermo.World ℕ Unit ℕ := ⟨fun _ f _ => some f.v1, fun _ _ => none, fun _ _ => none, fun l => l.headD 0, skipSameT⟩

/-- **the invariant is necessary**: with `skipSameT` a liquid-side read at 77 issued after a vapour-side read at 77 returns the
vapour value, while on a fresh adsorbate it returns the liquid value -/
theorem fullUpdate_necessary :
    ¬ FullUpdate skipSameT ∧
    (Thermo.run witnessWorld () (afterG (Thermo.run witnessWorld) ((), none) [.flashes [(⟨"QT", 1, 77⟩, "rhomass")] "gas_density"]).2
        (.flashes [(⟨"QT", 0, 77⟩, "rhomass")] "liquid_density")).1
      ≠ (Thermo.run witnessWorld () none (.flashes [(⟨"QT", 0, 77⟩, "rhomass")] "liquid_density")).1 := by
  constructor
  · intro h
    have := h (some ⟨"QT", 1, 77⟩) ⟨"QT", 0, 77⟩ (by decide)
    exact absurd this (by decide)
  · decide

/-- non-vacuity of `thermo_query_history_free`: the code's policy in a concrete world -/
example : (Thermo.run ({ witnessWorld with policy := alwaysUpdate }) ()
      (afterG (Thermo.run { witnessWorld with policy := alwaysUpdate }) ((), none) [.flashes [(⟨"QT", 1, 77⟩, "rhomass")] "gas_density"]).2
      (.flashes [(⟨"QT", 0, 77⟩, "rhomass")] "liquid_density")).1 = .ok 0 := by decide

end ThermoSec


/-! ## The defect class "memoise under a coarsened argument": transparent iff the coarsened key determines the value -/

section ThermoKeyedSec
open Thermo ThermoKeyed
variable {οa ρa κa : Type} [DecidableEq κa]

omit [DecidableEq φ] in
/-- on a sound table the keyed accessor returns what CoolProp returns for exactly the requested flash (or the dictionary fallback) -/
theorem keyed_outcome (w : Thermo.World φ οa ρa) (hp : FullUpdate w.policy) (coarse : Flash φ → κa) (name key : String) (o : οa)
    (h : ThermoKeyed.Hidden φ κa ρa) (hs : ThermoKeyed.Sound w coarse name o h) (f : Flash φ) :
    (ThermoKeyed.run w coarse name key o h f).1 = (match w.F o f name with | some v => .ok v | none => lookupOut w o key) := by
  unfold ThermoKeyed.run
  cases hl : h.2.lookup (coarse f) with
  | some v => simp only [hs f v hl]
  | none =>
    simp only [flashRead_eq w hp]
    cases w.F o f name <;> rfl

omit [DecidableEq φ] in
theorem keyed_preserves_obs (w : Thermo.World φ οa ρa) (coarse : Flash φ → κa) (name key : String) (o : οa)
    (h : ThermoKeyed.Hidden φ κa ρa) (f : Flash φ) : (ThermoKeyed.run w coarse name key o h f).2.1 = o := by
  unfold ThermoKeyed.run
  cases h.2.lookup (coarse f) with
  | some v => rfl
  | none => cases (flashRead w o (backend h.1) f name).1 <;> rfl

omit [DecidableEq φ] in
/-- the table stays sound when the coarsened key determines the value -/
theorem keyed_sound (w : Thermo.World φ οa ρa) (hp : FullUpdate w.policy) (coarse : Flash φ → κa) (name key : String)
    (hc : CoarseDetermines w coarse name) (o : οa) (h : ThermoKeyed.Hidden φ κa ρa) (hs : ThermoKeyed.Sound w coarse name o h) (f : Flash φ) :
    ThermoKeyed.Sound w coarse name o (ThermoKeyed.run w coarse name key o h f).2.2 := by
  unfold ThermoKeyed.run
  cases hl : h.2.lookup (coarse f) with
  | some v => exact hs
  | none =>
    simp only [flashRead_eq w hp]
    cases hF : w.F o f name with
    | none => exact hs
    | some v =>
      intro f' v' hv'
      simp only [List.lookup_cons] at hv'
      by_cases e : coarse f' = coarse f
      · simp only [e, beq_self_eq_true] at hv'
        cases hv'
        rw [hc o f' f e, hF]
      · have : (coarse f' == coarse f) = false := by simpa using e
        simp only [this] at hv'
        exact hs f' v' hv'

omit [DecidableEq φ] in
/-- **a keyed memo is invisible when the key determines the value**: after any sequence of calls the adsorbate is unchanged and every call
returns what it returns on a fresh adsorbate (no state, empty table) -/
theorem keyed_history_free (w : Thermo.World φ οa ρa) (hp : FullUpdate w.policy) (coarse : Flash φ → κa) (name key : String)
    (hc : CoarseDetermines w coarse name) (o : οa) (fs : List (Flash φ)) (f : Flash φ) :
    (afterG (ThermoKeyed.run w coarse name key) (o, (none, [])) fs).1 = o ∧
    (ThermoKeyed.run w coarse name key (afterG (ThermoKeyed.run w coarse name key) (o, (none, [])) fs).1
        (afterG (ThermoKeyed.run w coarse name key) (o, (none, [])) fs).2 f).1 = (ThermoKeyed.run w coarse name key o (none, []) f).1 :=
  history_free_of_invariant (ThermoKeyed.run w coarse name key) (ThermoKeyed.Sound w coarse name)
    (keyed_preserves_obs w coarse name key) (fun o h q hs => keyed_sound w hp coarse name key hc o h hs q)
    (fun o h h' q hs hs' => by rw [keyed_outcome w hp coarse name key o h hs q, keyed_outcome w hp coarse name key o h' hs' q])
    o (none, []) (fun f v hv => by simp at hv) fs f

/-- saturation pressure as a strictly increasing function of the temperature (both in integer units: mK, Pa) -/
def p0World : Thermo.World ℕ Unit ℕ := ⟨fun _ f _ => some (13 * f.v2), fun _ _ => none, fun _ _ => none, fun l => l.headD 0, alwaysUpdate⟩

/-- `round(temp, 1)`: the temperature in mK coarsened to 0.1 K -/
def tenthKelvin (f : Flash ℕ) : ℕ := f.v2 / 100

/-- **the condition is necessary** (seeded change seedout5/C04-m1, memo on `round(temp, 1)`): the saturation pressure at 77.344 K asked after
the one at 77.300 K on the same adsorbate object is the one of 77.300 K; asked first it is the one of 77.344 K -/
theorem coarseKey_necessary :
    ¬ CoarseDetermines p0World tenthKelvin "p" ∧
    (ThermoKeyed.run p0World tenthKelvin "p" "saturation_pressure" ()
        (afterG (ThermoKeyed.run p0World tenthKelvin "p" "saturation_pressure") ((), (none, [])) [⟨"QT", 0, 77300⟩]).2 ⟨"QT", 0, 77344⟩).1
      ≠ (ThermoKeyed.run p0World tenthKelvin "p" "saturation_pressure" () (none, []) ⟨"QT", 0, 77344⟩).1 := by
  constructor
  · intro h
    exact absurd (h () ⟨"QT", 0, 77300⟩ ⟨"QT", 0, 77344⟩ (by decide)) (by decide)
  · decide

/-- non-vacuity of `keyed_history_free`: the exact argument as the key -/
example : CoarseDetermines p0World (fun f => f) "p" := by
  intro o f f' h
  have h' : f = f' := h
  rw [h']

end ThermoKeyedSec

/-! ## The defect class "memoise into the public dictionary": witnesses -/

section MemoSec
open Thermo ThermoMemo

/-- a fluid whose backend knows the triple-point pressure (5) but whose dictionary has no `p_triple` entry -/
def memoWorld : Thermo.World ℕ (Dict ℕ) ℕ :=
  ⟨fun _ _ _ => none, fun _ name => if name = "PTRIPLE" then some 5 else none, fun o key => o.lookup key, fun l => l.headD 0, alwaysUpdate⟩

/-- the memoising accessor returns the right value but changes the adsorbate ... -/
theorem memo_changes_adsorbate :
    (runConstMemo memoWorld [] none "PTRIPLE" "p_triple").1 = (Thermo.run memoWorld [] none (.const "PTRIPLE" "p_triple" false)).1 ∧
    (runConstMemo memoWorld [] none "PTRIPLE" "p_triple").2.1 ≠ [] := by decide

/-- ... and changes the KIND of outcome of a later `calculate=False` look-up (error on a fresh adsorbate, value afterwards) -/
theorem memo_changes_outcome_kind :
    (Thermo.run memoWorld [] none (.lookup "p_triple")).1 = .calcErr ∧
    (Thermo.run memoWorld (runConstMemo memoWorld [] none "PTRIPLE" "p_triple").2.1 none (.lookup "p_triple")).1 = .ok 5 := by decide

omit [DecidableEq φ] in
/-- when the key is already stored the memoising accessor is indistinguishable from the real one (why the defect needs an
adsorbate WITHOUT the stored key to manifest) -/
theorem memo_invisible_when_key_stored (w : Thermo.World φ (Dict ρ) ρ) (o : Dict ρ) (h : Thermo.Hidden φ) (name key : String) (v : ρ)
    (hk : o.lookup key = some v) : (runConstMemo w o h name key).2.1 = o := by
  unfold runConstMemo
  cases w.K o name with
  | none => rfl
  | some x => simp [setdefault, hk]

end MemoSec

/-! ## The defect class "a read-only query binds a new name on the isotherm": invisible iff the name is reserved -/

section ExportSec
open ThermoMemo Export

omit [DecidableEq φ] in
/-- **a name bound by a query is invisible in `to_dict()` (hence in the identifier, `==` and the exports) exactly when it is reserved** -/
theorem bound_name_invisible_iff (reserved : List String) (vars : Dict ρ) (name : String) (v : ρ) (hn : vars.lookup name = none) :
    toDict reserved (setdefault vars name v) = toDict reserved vars ↔ name ∈ reserved := by
  unfold toDict setdefault
  simp only [hn, List.filter_append]
  by_cases h : name ∈ reserved
  · simp [h]
  · simp [h]

omit [DecidableEq φ] in
/-- **an isotherm that stores its temperature in kelvin is untouched by the memoising read** whatever the name: the defect needs
another stored unit to manifest -/
theorem readTemperature_kelvin_untouched (toKelvin : ρ → ρ) (stored : ρ) (memoName : String) (vars : Dict ρ) :
    readTemperature toKelvin "K" stored memoName vars = (stored, vars) := by
  simp [readTemperature]

omit [DecidableEq φ] in
/-- the memoising read returns the right value in every stored unit (no numerical query can see the defect) -/
theorem readTemperature_value (toKelvin : ρ → ρ) (unit : String) (stored : ρ) (memoName : String) (vars : Dict ρ) :
    (readTemperature toKelvin unit stored memoName vars).1 = if unit = "K" then stored else toKelvin stored := by
  unfold readTemperature
  split <;> rfl

/-- an isotherm at -196 °C (numbers scaled by 100): instance dictionary of the constructor, reserved names of `BaseIsotherm` -/
def celsiusVars : Dict ℤ := [("_temperature", -19600), ("pressure_unit", 1), ("user", 7)]
def reservedNames : List String := ["_material", "_adsorbate", "_temperature", "m", "t", "a"]

/-- the hypothesis of `bound_name_invisible_iff` on the witness isotherm: the memo name is not bound by the constructor -/
example : celsiusVars.lookup "_kelvin" = none := by decide

/-- **witness (seedout7/C04-m1)**: stored in °C, the first read of the temperature adds a key to `to_dict()`; the same isotherm kept in
kelvin does not change; had the memo name been reserved, nothing would show -/
theorem memo_leaks_into_export :
    toDict reservedNames (readTemperature (· + 27315) "°C" (-19600) "_kelvin" celsiusVars).2 ≠ toDict reservedNames celsiusVars ∧
    (readTemperature (· + 27315) "°C" (-19600) "_kelvin" celsiusVars).1 = 7715 ∧
    toDict reservedNames (readTemperature (· + 27315) "K" 7715 "_kelvin" celsiusVars).2 = toDict reservedNames celsiusVars ∧
    toDict ("_kelvin" :: reservedNames) (readTemperature (· + 27315) "°C" (-19600) "_kelvin" celsiusVars).2 = toDict ("_kelvin" :: reservedNames) celsiusVars := by
  decide

end ExportSec

/-! ## Module-level caches of loaded curves and kernels -/

section LoadedSec
open Loaded
variable {ι κ ν : Type} [DecidableEq κ]

theorem sound_nil (keyOf : ι → κ) (loader : ι → ν) : Sound keyOf loader ([] : Loaded.Hidden κ ν) := by
  intro r v h
  simp at h

/-- a sound cache answers every request with what loading from disk gives -/
theorem load_outcome (keyOf : ι → κ) (loader : ι → ν) (c : Loaded.Hidden κ ν) (hc : Sound keyOf loader c) (r : ι) :
    (load keyOf loader c r).1 = loader r := by
  unfold load
  cases h : c.lookup (keyOf r) with
  | none => rfl
  | some v => exact hc r v h

/-- `load` never changes what is already stored, and keeps the cache sound when the key determines the content -/
theorem load_sound (keyOf : ι → κ) (loader : ι → ν) (hk : KeyDetermines keyOf loader) (c : Loaded.Hidden κ ν)
    (hc : Sound keyOf loader c) (r : ι) : Sound keyOf loader (load keyOf loader c r).2 := by
  unfold load
  cases h : c.lookup (keyOf r) with
  | some v => exact hc
  | none =>
    intro r' v hv
    simp only [List.lookup_cons] at hv
    by_cases e : keyOf r' = keyOf r
    · simp only [e, beq_self_eq_true] at hv
      cases hv
      exact hk r r' e.symm
    · have : (keyOf r' == keyOf r) = false := by simpa using e
      simp only [this] at hv
      exact hc r' v hv

private theorem after_sound (keyOf : ι → κ) (loader : ι → ν) (hk : KeyDetermines keyOf loader) (rs : List ι) (c : Loaded.Hidden κ ν)
    (hc : Sound keyOf loader c) : Sound keyOf loader (Loaded.after keyOf loader c rs) := by
  induction rs generalizing c with
  | nil => exact hc
  | cons r rs ih =>
    simp only [Loaded.after, List.foldl_cons] at ih ⊢
    exact ih _ (load_sound keyOf loader hk c hc r)

/-- **the module caches are invisible**: after any sequence of requests every request is answered as on a fresh module -/
theorem loaded_history_free (keyOf : ι → κ) (loader : ι → ν) (hk : KeyDetermines keyOf loader) (rs : List ι) (r : ι) :
    (load keyOf loader (Loaded.after keyOf loader [] rs) r).1 = (load keyOf loader [] r).1 := by
  rw [load_outcome keyOf loader _ (after_sound keyOf loader hk rs [] (sound_nil keyOf loader)) r,
      load_outcome keyOf loader [] (sound_nil keyOf loader) r]

/-- **the invariant is necessary**: a cache keyed by the file NAME only (`keyOf = Prod.fst`) answers a request for another
file of the same name with the first file's content (seeded change C18-m2) -/
theorem keyDetermines_necessary :
    ¬ KeyDetermines (Prod.fst : String × ℕ → String) Prod.snd ∧
    (load (Prod.fst : String × ℕ → String) Prod.snd (Loaded.after Prod.fst Prod.snd [] [("kernel.csv", 1)]) ("kernel.csv", 2)).1
      ≠ (load (Prod.fst : String × ℕ → String) Prod.snd [] ("kernel.csv", 2)).1 := by
  constructor
  · intro h
    exact absurd (h ("kernel.csv", 1) ("kernel.csv", 2) rfl) (by decide)
  · decide


/-- **characterisation**: a cache `keyOf r ↦ loader r` is invisible (every request after every history answered as on a fresh module)
EXACTLY when the key determines the content — any coarser key (a rounded number, a printed float, a file name without its directory,
`id()` of an object that may be replaced) is visible on some history of length one -/
theorem keyDetermines_iff_history_free (keyOf : ι → κ) (loader : ι → ν) :
    KeyDetermines keyOf loader ↔
      ∀ rs r, (load keyOf loader (Loaded.after keyOf loader [] rs) r).1 = (load keyOf loader [] r).1 := by
  constructor
  · intro hk rs r
    exact loaded_history_free keyOf loader hk rs r
  · intro h r r' e
    have := h [r] r'
    simp only [Loaded.after, List.foldl_cons, List.foldl_nil, load, List.lookup_nil, List.lookup_cons, e, beq_self_eq_true] at this
    exact this

/-- the same witness for a COARSENED numeric argument: a table keyed by the temperature rounded down to 0.1 K (temperatures in mK)
answers 77.344 K with the entry of 77.300 K -/
theorem coarsenedKey_not_transparent :
    ¬ KeyDetermines (fun t : ℕ => t / 100) (fun t => 13 * t) ∧
    (load (fun t : ℕ => t / 100) (fun t => 13 * t) (Loaded.after (fun t : ℕ => t / 100) (fun t => 13 * t) [] [77300]) 77344).1
      ≠ (load (fun t : ℕ => t / 100) (fun t => 13 * t) [] 77344).1 := by
  constructor
  · intro h
    exact absurd (h 77300 77344 (by decide)) (by decide)
  · decide

/-- non-vacuity: the code keys by the full name / path (`keyOf = id`), which determines the content -/
example (loader : String → ν) : KeyDetermines (id : String → String) loader := by
  intro r r' h
  simp only [id] at h
  rw [h]

end LoadedSec

/-! ## Session: interpolators, thermodynamic state and module caches together -/

section SessionSec
open Session
variable {ψ οi οa ι κ ν : Type} [DecidableEq κ]

theorem session_preserves_obs (w : Session.World φ ψ οi οa χ ρ ι κ ν) (o : Obs οi οa) (h : Hid φ ψ κ ν) (q : Session.Query φ ψ χ ι) :
    (Session.step w o h q).2.1 = o := by
  cases q with
  | iso q => rfl
  | ads q =>
    simp only [Session.step]
    rw [thermo_preserves_obs]
  | std r => rfl

/-- **C04 for the modelled session**: under the two invariants, after ANY history of interpolation queries, thermodynamic
accessor calls and reference-curve / kernel requests, issued in any order with any arguments, (a) the observable state
(isotherm content, adsorbate) is the original one and (b) every query has the outcome it has as the first call on fresh
objects with empty module caches -/
theorem session_history_free (w : Session.World φ ψ οi οa χ ρ ι κ ν) (hp : Thermo.FullUpdate w.ads.policy)
    (hk : Loaded.KeyDetermines w.keyOf w.loader) (o : Obs οi οa) (qs : List (Session.Query φ ψ χ ι)) (q : Session.Query φ ψ χ ι) :
    (afterG (Session.step w) (o, Session.fresh) qs).1 = o ∧
    (Session.step w (afterG (Session.step w) (o, Session.fresh) qs).1 (afterG (Session.step w) (o, Session.fresh) qs).2 q).1
      = (Session.step w o Session.fresh q).1 := by
  refine history_free_of_invariant (Session.step w)
    (fun o h => PgVerif.Model.Cache.Valid w.iso o.iso h.interp ∧ Loaded.Sound w.keyOf w.loader h.loaded)
    (session_preserves_obs w) ?_ ?_ o Session.fresh ⟨fresh_valid w.iso o.iso, sound_nil w.keyOf w.loader⟩ qs q
  · intro o h q hI
    cases q with
    | iso q => exact ⟨run_valid w.iso o.iso h.interp hI.1 q, hI.2⟩
    | ads q => exact hI
    | std r => exact ⟨hI.1, load_sound w.keyOf w.loader hk h.loaded hI.2 r⟩
  · intro o h h' q hI hI'
    cases q with
    | iso q =>
      simp only [Session.step]
      rw [outcome_independent_of_hidden w.iso o.iso h.interp h'.interp hI.1 hI'.1 q]
    | ads q =>
      simp only [Session.step]
      rw [thermo_outcome_independent_of_hidden w.ads hp o.ads h.thermo h'.thermo q]
    | std r =>
      simp only [Session.step]
      rw [load_outcome w.keyOf w.loader h.loaded hI.2 r, load_outcome w.keyOf w.loader h'.loaded hI'.2 r]

end SessionSec

end PgVerif.C04
