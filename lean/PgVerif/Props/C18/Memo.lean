/-
C18 — results kept between calls (`_LOADED` of characterisation/psd_kernel.py: the interpolators of a kernel file are
computed once and looked up by a key afterwards).

The property quantifies over inputs: the answer of a fit is a function of its arguments, whatever was fitted before in
the same process.  `PgVerif.Model.Kernel.memoRun key f tbl history` is the list of answers of a memoised function along
a history of calls.  Theorem `memo_transparent_iff`: the memo answers every history like the plain function **iff** the
function factors through the key (`key a = key b → f a = f b`).  So a cache is invisible exactly when its key
determines everything the cached value depends on: the path for the loaded kernel (`loaded_cache_transparent`, under the
explicit hypothesis that a path always denotes the same file content), the complete pressure grid for anything
evaluated on a grid (`complete_key_transparent`).  The witnesses at the end show stale answers for keys that drop part
of the argument (file name without directory, length and end points of a grid).  The harness checks the real functions
against this specification with call sequences on related grids, every answer compared with an independent evaluation.
-/
import PgVerif.Model.Kernel
import Mathlib.Tactic

namespace PgVerif.Props.C18
open PgVerif.Model.Kernel

set_option linter.unusedSectionVars false

variable {ι κ β : Type} [BEq κ] [LawfulBEq κ]

/-- table invariant: every stored value is the function value of an argument with that key -/
def memoSound (key : ι → κ) (f : ι → β) (tbl : List (κ × β)) : Prop :=
  ∀ kv ∈ tbl, ∃ a, key a = kv.1 ∧ f a = kv.2

lemma lookup_some_mem : ∀ (tbl : List (κ × β)) (k : κ) (v : β), tbl.lookup k = some v → (k, v) ∈ tbl := by
  intro tbl
  induction tbl with
  | nil => intro k v h; simp at h
  | cons kv t ih =>
    intro k v h
    obtain ⟨k', v'⟩ := kv
    by_cases hk : k == k'
    · rw [List.lookup_cons, hk] at h
      have hkk : k = k' := eq_of_beq hk
      simp only [Option.some.injEq] at h
      subst hkk; subst h
      exact List.mem_cons_self
    · have hk' : (k == k') = false := by simpa using hk
      rw [List.lookup_cons, hk'] at h
      exact List.mem_cons_of_mem _ (ih k v h)

theorem memoSound_nil (key : ι → κ) (f : ι → β) : memoSound key f [] := by
  intro kv h; simp at h

/-- one call: if the function factors through the key, the memo answers `f a` and the table stays sound -/
theorem memoStep_spec (key : ι → κ) (f : ι → β) (hfac : ∀ a b, key a = key b → f a = f b)
    (tbl : List (κ × β)) (hs : memoSound key f tbl) (a : ι) :
    (memoStep key f tbl a).1 = f a ∧ memoSound key f (memoStep key f tbl a).2 := by
  unfold memoStep
  cases h : tbl.lookup (key a) with
  | none =>
    refine ⟨rfl, ?_⟩
    intro kv hkv
    rcases List.mem_cons.1 hkv with rfl | hkv
    · exact ⟨a, rfl, rfl⟩
    · exact hs kv hkv
  | some v =>
    obtain ⟨b, hb1, hb2⟩ := hs _ (lookup_some_mem tbl (key a) v h)
    simp only at hb1 hb2
    exact ⟨by simp only; rw [← hb2]; exact hfac b a hb1, hs⟩

/-- HISTORY INDEPENDENCE: a memo whose key determines the value answers every history of calls like the function -/
theorem memoRun_eq_map (key : ι → κ) (f : ι → β) (hfac : ∀ a b, key a = key b → f a = f b) :
    ∀ (history : List ι) (tbl : List (κ × β)), memoSound key f tbl → memoRun key f tbl history = history.map f := by
  intro history
  induction history with
  | nil => intro tbl _; rfl
  | cons a as ih =>
    intro tbl hs
    obtain ⟨h1, h2⟩ := memoStep_spec key f hfac tbl hs a
    simp only [memoRun, List.map_cons]
    rw [h1, ih _ h2]

/-- a key that identifies two arguments with different values gives a stale answer: second call of the history `[a, b]` -/
theorem memoRun_stale (key : ι → κ) (f : ι → β) (a b : ι) (hk : key a = key b) (hf : f a ≠ f b) :
    memoRun key f [] [a, b] = [f a, f a] ∧ memoRun key f [] [a, b] ≠ [a, b].map f := by
  have h : memoRun key f [] [a, b] = [f a, f a] := by
    simp [memoRun, memoStep, List.lookup, hk]
  refine ⟨h, ?_⟩
  rw [h]
  intro he
  simp only [List.map_cons, List.map_nil, List.cons.injEq, and_true, true_and] at he
  exact hf he

/-- a memo is invisible for every history **iff** its key determines the value -/
theorem memo_transparent_iff (key : ι → κ) (f : ι → β) :
    (∀ history : List ι, memoRun key f [] history = history.map f) ↔ (∀ a b, key a = key b → f a = f b) := by
  constructor
  · intro h a b hk
    by_contra hf
    exact (memoRun_stale key f a b hk hf).2 (h [a, b])
  · intro hfac history
    exact memoRun_eq_map key f hfac history [] (memoSound_nil key f)

/-- a key that keeps the whole argument (an injective key) is always safe -/
theorem complete_key_transparent (key : ι → κ) (f : ι → β) (hinj : Function.Injective key) (history : List ι) :
    memoRun key f [] history = history.map f :=
  memoRun_eq_map key f (fun a b h => by rw [hinj h]) history [] (memoSound_nil key f)

/-- `_LOADED[path]`: the kernel cache is keyed by the path itself.  `load path` = the interpolators built from the
content of the file at `path` (one fixed content per path during the process: that is the hypothesis hidden in `load`
being a function of the path) -/
theorem loaded_cache_transparent {ρ : Type} (load : String → ρ) (history : List String) :
    memoRun (fun p => p) load [] history = history.map load :=
  complete_key_transparent (fun p => p) load (fun _ _ h => h) history

/-- STATE LEFT BEHIND BY A REFUSED CALL (round 8, C18-m1).  With `f = load : path → Option kernel` (`none` = the file is refused) a table entry under the
key of `a` whose value is not `f a` - the half-filled kernel that a loader publishes before it has finished - is what the next use of `a` is answered with:
the process no longer answers like a fresh one.  (Converse: from a table that is `memoSound` every history is answered by `f`: `memoRun_eq_map`.) -/
theorem memoRun_unsound_entry_visible (key : ι → κ) (f : ι → β) (tbl : List (κ × β)) (a : ι) (v : β)
    (h : tbl.lookup (key a) = some v) (hv : v ≠ f a) : memoRun key f tbl [a] ≠ [f a] := by
  simp [memoRun, memoStep, h, hv]

/-- a kernel file of 77 columns that is refused (`none`), 40 interpolators left registered: the second use is answered with them -/
example : memoRun (fun p : String => p) (fun p => if p = "my-kernel.csv" then (none : Option ℕ) else some 77) [("my-kernel.csv", some 40)] ["my-kernel.csv"]
    = [some 40] := by decide

/-! ### witnesses at concrete types -/

/-- two kernel files with the same file name in different directories, cache keyed by the file name: the second
answer is the first file's kernel -/
example : memoRun (fun p : String × String => p.2) (fun p => p.1 ++ "/" ++ p.2) []
    [("dirA", "kernel.csv"), ("dirB", "kernel.csv")] = ["dirA/kernel.csv", "dirA/kernel.csv"] := by decide

/-- a quantity evaluated on a pressure grid, cache keyed by (length, first, last): another grid with the same length
and end points gets the first grid's values -/
example : memoRun (fun g : List ℕ => (g.length, g.head?, g.getLast?)) (fun g => g.map (· * 10)) []
    [[1, 2, 9], [1, 5, 9]] = [[10, 20, 90], [10, 20, 90]] := by decide

/-- the same history with the complete grid as key -/
example : memoRun (fun g : List ℕ => g) (fun g => g.map (· * 10)) []
    [[1, 2, 9], [1, 5, 9], [1, 2, 9]] = [[10, 20, 90], [10, 50, 90], [10, 20, 90]] := by decide

/-! ### the kernel argument: a registered name, or else the path of the user's file (`KERNELS.get(kernel, kernel)`)

The property quantifies over "the shipped kernel and user-supplied kernel files": an argument that is not a registered NAME denotes the
file at that path.  `resolveKernel key registered arg` looks `key arg` up in the table of registered names.  With the argument itself as
key every unregistered argument is passed on literally (`resolveKernel_id_literal`); with ANY key the user's path is answered by a
shipped file exactly when its key is registered (`resolveKernel_ne_iff`), so a key that forgets part of the argument (file stem, file
name, case-folded name) hands the shipped kernel to a user whose own file is named like it: the fit is then made with other pore widths
and another pressure range.  The harness generates such files (names equal or similar to every shipped kernel's) through both entry points. -/

/-- an argument whose key is not registered is passed on literally -/
theorem resolveKernel_literal {ι κ : Type} [BEq κ] (key : ι → κ) (registered : List (κ × ι)) (arg : ι)
    (h : registered.lookup (key arg) = none) : resolveKernel key registered arg = arg := by
  simp [resolveKernel, h]

/-- a registered name resolves to the shipped file -/
theorem resolveKernel_registered {ι κ : Type} [BEq κ] (key : ι → κ) (registered : List (κ × ι)) (arg shippedPath : ι)
    (h : registered.lookup (key arg) = some shippedPath) : resolveKernel key registered arg = shippedPath := by
  simp [resolveKernel, h]

/-- the library's resolution (`key = id`): every argument that is not itself a registered name is the user's path, unchanged -/
theorem resolveKernel_id_literal {ι : Type} [BEq ι] (registered : List (ι × ι)) (arg : ι)
    (h : registered.lookup arg = none) : resolveKernel (fun a => a) registered arg = arg :=
  resolveKernel_literal _ registered arg h

/-- SHADOWING: the user's path is answered by another file **iff** its key is registered (for a file that is not the shipped one) -/
theorem resolveKernel_ne_iff {ι κ : Type} [BEq κ] (key : ι → κ) (registered : List (κ × ι)) (arg : ι)
    (hne : ∀ p, registered.lookup (key arg) = some p → p ≠ arg) :
    resolveKernel key registered arg ≠ arg ↔ ∃ p, registered.lookup (key arg) = some p := by
  unfold resolveKernel
  cases h : registered.lookup (key arg) with
  | none => simp
  | some p => simpa using hne p h

/-- witness: paths as (directory, stem, extension), the registry keyed by name.  Resolved by the whole argument the user's own file
`work/DFT-N2-77K-carbon-slit.csv` is used; resolved by the stem it is replaced by the shipped file -/
example : resolveKernel (fun p : String × String × String => p) [(("", "DFT-N2-77K-carbon-slit", ""), ("pygaps/data/kernels", "DFT-N2-77K-carbon-slit", ".csv"))]
    ("work", "DFT-N2-77K-carbon-slit", ".csv") = ("work", "DFT-N2-77K-carbon-slit", ".csv") := by decide

example : resolveKernel (fun p : String × String × String => p.2.1) [("DFT-N2-77K-carbon-slit", ("pygaps/data/kernels", "DFT-N2-77K-carbon-slit", ".csv"))]
    ("work", "DFT-N2-77K-carbon-slit", ".csv") = ("pygaps/data/kernels", "DFT-N2-77K-carbon-slit", ".csv") := by decide

/-- the registered name itself still resolves to the shipped file under the library's key -/
example : resolveKernel (fun p : String × String × String => p) [(("", "DFT-N2-77K-carbon-slit", ""), ("pygaps/data/kernels", "DFT-N2-77K-carbon-slit", ".csv"))]
    ("", "DFT-N2-77K-carbon-slit", "") = ("pygaps/data/kernels", "DFT-N2-77K-carbon-slit", ".csv") := by decide

end PgVerif.Props.C18
