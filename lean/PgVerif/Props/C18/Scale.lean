/-
C18 — the specification of kernel fitting is scale covariant; an absolute stopping tolerance is not.

`psd_dft_kernel_fit` minimises `sumSquares K loading ·` over the non-negative vectors.  Multiplying the isotherm by `k > 0`
multiplies the objective at `k · x` by `k²` (`sumSquares_smul`), so the minimisers of `k · loading` are exactly `k ·` the minimisers of
`loading` (`isMinimiser_smul_iff`), and the RELATIVE misfit of `k · x` on `k · loading` is that of `x` on `loading`
(`relative_misfit_smul`): the clause "an exact non-negative combination is reproduced" (`exact_combination` in Props/C18.lean: every
minimiser reproduces it) is the same statement at every magnitude of the weights.

What the code runs is not a minimiser but scipy SLSQP from the start vector 0 with the ABSOLUTE tolerance `ftol = 1e-4` on the
objective.  An acceptance rule of that kind is not scale covariant: `absolute_tolerance_accepts_start` — whenever the sum of squares of
the isotherm is within the tolerance, the start vector 0 (relative misfit 1) is within the tolerance of the minimum; the witnesses at ℚ
show the same isotherm accepted at one scale and rejected at another.  That is the small side of the candidate finding of
probes/agent_notes/S-C18.md and it is INSIDE the property as written ("matches the input to within the optimiser tolerance": the
tolerance is absolute); the harness decides it with an absolute floor.  The large side (weights above 1: SLSQP reports success at a
point whose objective is 10⁵ and more, not within any tolerance of the minimum 0) contradicts `exact_combination` and is recorded as
the known findings S45-C18a / S45-C18b: the hypothesis `IsMinimiser` of `exact_combination` is what the optimiser fails to deliver,
`fit_reproduces_exact_combination_partial` keeps that dependence visible.
-/
import PgVerif.Props.C18

namespace PgVerif.Props.C18
open PgVerif.Model.Kernel

set_option linter.unusedSectionVars false

variable {α : Type} [Field α] [LinearOrder α] [IsStrictOrderedRing α]

/-! ### helper facts -/

lemma zipWith_sub_map_mul (k : α) : ∀ a b : List α,
    List.zipWith (· - ·) (a.map (k * ·)) (b.map (k * ·)) = (List.zipWith (· - ·) a b).map (k * ·)
  | [], _ => by simp
  | _ :: _, [] => by simp
  | a :: as, b :: bs => by
    simp only [List.map_cons, List.zipWith_cons_cons, zipWith_sub_map_mul k as bs, mul_sub]

lemma sum_sq_map_mul (k : α) : ∀ l : List α,
    ((l.map (k * ·)).map (fun r => r * r)).sum = k * k * (l.map (fun r => r * r)).sum
  | [] => by simp
  | a :: as => by
    simp only [List.map_cons, List.sum_cons, sum_sq_map_mul k as]
    ring

lemma sum_sq_zero_sub : ∀ l : List α,
    ((List.zipWith (· - ·) (List.replicate l.length (0 : α)) l).map (fun r => r * r)).sum = (l.map (fun r => r * r)).sum
  | [] => by simp
  | a :: as => by
    simp only [List.length_cons, List.replicate_succ, List.zipWith_cons_cons, List.map_cons, List.sum_cons,
      sum_sq_zero_sub as]
    ring

lemma map_mul_inv_cancel {k : α} (hk : k ≠ 0) (l : List α) : (l.map (k⁻¹ * ·)).map (k * ·) = l := by
  rw [List.map_map]
  conv_rhs => rw [← List.map_id l]
  apply List.map_congr_left
  intro a _
  simp only [Function.comp, id]
  field_simp

lemma map_inv_mul_cancel {k : α} (hk : k ≠ 0) (l : List α) : (l.map (k * ·)).map (k⁻¹ * ·) = l := by
  have := map_mul_inv_cancel (inv_ne_zero hk) l
  rwa [inv_inv] at this

/-! ### the objective and its minimisers under a change of scale -/

/-- the objective of the scaled problem at the scaled vector is `k²` times the objective -/
theorem sumSquares_smul (m : ℕ) (K : List (List α)) (loading x : List α) (k : α)
    (hK : K ≠ []) (hx : K.length = x.length) (hrows : ∀ row ∈ K, row.length = m) :
    sumSquares K (loading.map (k * ·)) (x.map (k * ·)) = k * k * sumSquares K loading x := by
  unfold sumSquares
  rw [kernelLoading_smul m K x k hK hx hrows, zipWith_sub_map_mul, sum_sq_map_mul]

/-- feasibility is kept by a non-negative factor -/
theorem feasible_smul (x : List α) (k : α) (hk : 0 ≤ k) (hx : feasible x) : feasible (x.map (k * ·)) := by
  intro v hv
  obtain ⟨u, hu, rfl⟩ := List.mem_map.1 hv
  exact mul_nonneg hk (hx u hu)

/-- `k ·` a minimiser of the problem for `loading` is a minimiser of the problem for `k · loading` (`k > 0`) -/
theorem isMinimiser_smul (m : ℕ) (K : List (List α)) (loading x : List α) (k : α)
    (hK : K ≠ []) (hrows : ∀ row ∈ K, row.length = m) (hk : 0 < k) (h : IsMinimiser K loading x) :
    IsMinimiser K (loading.map (k * ·)) (x.map (k * ·)) := by
  obtain ⟨hf, hx, hmin⟩ := h
  refine ⟨feasible_smul x k hk.le hf, by simpa using hx, ?_⟩
  intro y hy hylen
  have hy' : feasible (y.map (k⁻¹ * ·)) := feasible_smul y k⁻¹ (inv_nonneg.2 hk.le) hy
  have hlen' : K.length = (y.map (k⁻¹ * ·)).length := by simpa using hylen
  have hle := hmin _ hy' hlen'
  calc sumSquares K (loading.map (k * ·)) (x.map (k * ·))
      = k * k * sumSquares K loading x := sumSquares_smul m K loading x k hK hx hrows
    _ ≤ k * k * sumSquares K loading (y.map (k⁻¹ * ·)) := mul_le_mul_of_nonneg_left hle (mul_self_nonneg k)
    _ = sumSquares K (loading.map (k * ·)) ((y.map (k⁻¹ * ·)).map (k * ·)) :=
        (sumSquares_smul m K loading _ k hK hlen' hrows).symm
    _ = sumSquares K (loading.map (k * ·)) y := by rw [map_mul_inv_cancel hk.ne']

/-- **scale covariance of the specification**: the minimisers for `k · loading` are exactly `k ·` the minimisers for `loading` -/
theorem isMinimiser_smul_iff (m : ℕ) (K : List (List α)) (loading x : List α) (k : α)
    (hK : K ≠ []) (hrows : ∀ row ∈ K, row.length = m) (hk : 0 < k) :
    IsMinimiser K (loading.map (k * ·)) (x.map (k * ·)) ↔ IsMinimiser K loading x := by
  refine ⟨fun h => ?_, isMinimiser_smul m K loading x k hK hrows hk⟩
  have := isMinimiser_smul m K _ _ k⁻¹ hK hrows (inv_pos.2 hk) h
  rwa [map_inv_mul_cancel hk.ne', map_inv_mul_cancel hk.ne'] at this

/-- the objective at the optimiser's start vector 0 is the sum of squares of the isotherm -/
theorem sumSquares_start (m : ℕ) (K : List (List α)) (loading : List α)
    (hK : K ≠ []) (hrows : ∀ row ∈ K, row.length = m) (hload : loading.length = m) :
    sumSquares K loading (List.replicate K.length 0) = (loading.map (fun r => r * r)).sum := by
  unfold sumSquares
  rw [kernelLoading_zero m K hK hrows, ← hload, sum_sq_zero_sub]

/-- the RELATIVE misfit (objective against the objective of the zero answer) does not see the scale: a solver that delivers a relative
accuracy `c` at one magnitude of the weights delivers it at every magnitude, if it is scale covariant -/
theorem relative_misfit_smul (m : ℕ) (K : List (List α)) (loading x : List α) (k c : α)
    (hK : K ≠ []) (hx : K.length = x.length) (hrows : ∀ row ∈ K, row.length = m) (hk : k ≠ 0) :
    sumSquares K (loading.map (k * ·)) (x.map (k * ·)) ≤ c * sumSquares K (loading.map (k * ·)) (List.replicate K.length 0)
      ↔ sumSquares K loading x ≤ c * sumSquares K loading (List.replicate K.length 0) := by
  have h0 : (List.replicate K.length (0 : α)) = (List.replicate K.length (0 : α)).map (k * ·) := by simp
  have hk2 : 0 < k * k := mul_self_pos.2 hk
  rw [sumSquares_smul m K loading x k hK hx hrows, h0,
    sumSquares_smul m K loading _ k hK (by simp) hrows, ← h0, mul_left_comm c (k * k)]
  exact mul_le_mul_iff_of_pos_left hk2

/-! ### an absolute tolerance is not scale covariant -/

/-- **the small side**: when the sum of squares of the isotherm is within the (absolute) tolerance, the start vector 0 is within the
tolerance of every other answer, in particular of the minimum: "to within the optimiser tolerance" holds for the zero distribution,
whose relative misfit is 1 -/
theorem absolute_tolerance_accepts_start (m : ℕ) (K : List (List α)) (loading y : List α) (tol : α)
    (hK : K ≠ []) (hrows : ∀ row ∈ K, row.length = m) (hload : loading.length = m)
    (hsmall : (loading.map (fun r => r * r)).sum ≤ tol) :
    sumSquares K loading (List.replicate K.length 0) ≤ sumSquares K loading y + tol := by
  rw [sumSquares_start m K loading hK hrows hload]
  linarith [sumSquares_nonneg K loading y]

/-- the exact-combination clause for the answer of the fit, with the hypothesis that the optimiser does not deliver on the known
findings S38 / S45-C18a / S45-C18b made explicit: IF the returned vector is a minimiser over the feasible set THEN the fitted isotherm is
the input, at every scale `k > 0` of the generating weights.  (Full strength would be: for the vector SLSQP returns.  SLSQP is not
modelled; on the unchanged tree its answer is not a minimiser for part of the inputs with weights above 1.) -/
theorem fit_reproduces_exact_combination_partial (m : ℕ) (K : List (List α)) (w x : List α) (k : α)
    (hK : K ≠ []) (hw : K.length = w.length) (hrows : ∀ row ∈ K, row.length = m) (hfeas : feasible w) (hk : 0 < k)
    (hmin : IsMinimiser K (kernelLoading K (w.map (k * ·))) x) :
    kernelLoading K x = (kernelLoading K w).map (k * ·) := by
  have h := (exact_combination m K (kernelLoading K (w.map (k * ·))) (w.map (k * ·)) hK (by simpa using hw) hrows
    (feasible_smul w k hk.le hfeas) rfl).2.2 x hmin
  rw [h, kernelLoading_smul m K w k hK hw hrows]

/-! ### witnesses at ℚ -/

/-- the hypotheses of `isMinimiser_smul` are satisfiable: `[1]` minimises for the isotherm `[1, 2]` of the one-width kernel `[[1, 2]]` -/
example : IsMinimiser [[(1 : ℚ), 2]] [1, 2] [1] := by
  refine ⟨by intro v hv; simp at hv; subst hv; norm_num, rfl, fun y _ _ => ?_⟩
  have : sumSquares [[(1 : ℚ), 2]] [1, 2] [1] = 0 := by norm_num [sumSquares, kernelLoading]
  rw [this]
  exact sumSquares_nonneg _ _ _

/-- an absolute acceptance rule `objective ≤ tol` is not scale covariant: with `tol = 1/10000` the zero answer is accepted for the isotherm
`[1/200, 1/200]` (an exact combination, weight 1/200) and rejected for 1000 × the same isotherm -/
example : sumSquares [[(1 : ℚ), 1]] [1 / 200, 1 / 200] [0] ≤ 1 / 10000 ∧
    ¬ sumSquares [[(1 : ℚ), 1]] ([1 / 200, 1 / 200].map (1000 * ·)) ([0].map (1000 * ·)) ≤ 1 / 10000 := by
  norm_num [sumSquares, kernelLoading]

/-- … although the relative misfit of the zero answer is 1 at both scales (it is as far from the data as the start vector) -/
example : sumSquares [[(1 : ℚ), 1]] [1 / 200, 1 / 200] [0] = 1 * sumSquares [[(1 : ℚ), 1]] [1 / 200, 1 / 200] (List.replicate 1 0) ∧
    sumSquares [[(1 : ℚ), 1]] [5, 5] [0] = 1 * sumSquares [[(1 : ℚ), 1]] [5, 5] (List.replicate 1 0) := by
  norm_num [sumSquares, kernelLoading]

end PgVerif.Props.C18
