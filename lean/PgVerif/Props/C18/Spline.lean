/-
C18 — the smoothing step of kernel fitting (`bspline` of utilities/math_utilities.py, open curve, degree ≥ 1).

`PgVerif.Model.Kernel.bsplineCurve` is de Boor's recursion on the clamped uniform knot vector built by the code
(`[0]*p ++ arange(n-p+1) ++ [n-p]*p`), evaluated at `linspace(0, n-p, m)`: this is what scipy's `splev` computes (the
harness compares the two on every smoothed fit, exactly at ℚ against the floats of the library).
Theorems: inside a knot span every blending ratio lies in `[0, 1]`, hence every curve value is a convex combination of
the `p+1` active control values: it stays between their bounds.  Consequences for the fit: the smoothed distribution of
a non-negative distribution is non-negative, the smoothed pore widths stay inside the range of the kernel's widths, a
constant control polygon is reproduced, the curve starts at the first control point.
-/
import PgVerif.Model.Kernel
import PgVerif.Props.C18
import Mathlib.Tactic

namespace PgVerif.Props.C18
open PgVerif.Model.Kernel

set_option linter.unusedSectionVars false

variable {α : Type} [Field α] [LinearOrder α] [IsStrictOrderedRing α]

/-! ### the knot vector -/

/-- the knot vector built by the code is non-decreasing -/
theorem knot_mono (n p : ℕ) : Monotone (knot (α := α) n p) := by
  intro i j hij
  unfold knot
  have h : min (max i p) n - p ≤ min (max j p) n - p := by omega
  exact_mod_cast h

/-- inside the open range the knots are the integers `0, 1, …, n - p` -/
theorem knot_interior (n p k : ℕ) (hp : p ≤ k) (hk : k ≤ n) : knot (α := α) n p k = ((k - p : ℕ) : α) := by
  unfold knot
  have h : min (max k p) n - p = k - p := by omega
  rw [h]

/-- every knot span `p ≤ k < n` is non-empty -/
theorem knot_span_pos (n p k : ℕ) (hp : p ≤ k) (hk : k + 1 ≤ n) : knot (α := α) n p k < knot n p (k + 1) := by
  rw [knot_interior n p k hp (by omega), knot_interior n p (k + 1) (by omega) hk]
  have h : k - p < k + 1 - p := by omega
  exact_mod_cast h

/-- `numpy.clip(degree, 1, count - 1)` is a valid degree for at least two control points -/
theorem clipDegree_spec (degree count : ℕ) (h : 2 ≤ count) :
    1 ≤ clipDegree degree count ∧ clipDegree degree count + 1 ≤ count := by
  unfold clipDegree
  omega

/-- a requested degree that the control polygon can carry is used as it is -/
theorem clipDegree_eq (degree count : ℕ) (h1 : 1 ≤ degree) (h2 : degree + 1 ≤ count) :
    clipDegree degree count = degree := by
  unfold clipDegree
  omega

/-! ### de Boor's recursion stays in the convex hull of the active control values -/

/-- inside the knot span `k` (`t k ≤ x ≤ t (k+1)`, span non-empty, knots non-decreasing) every entry `r ≤ p`,
`k - p + r ≤ j ≤ k` of the triangular scheme lies between the bounds of the control values `c (k-p) … c k` -/
theorem deBoor_mem_Icc (t c : ℕ → α) (p k : ℕ) (x lo hi : α) (ht : Monotone t)
    (hk : t k ≤ x) (hk1 : x ≤ t (k + 1)) (hlt : t k < t (k + 1)) (hpk : p ≤ k)
    (hc : ∀ j, k - p ≤ j → j ≤ k → lo ≤ c j ∧ c j ≤ hi) :
    ∀ r, r ≤ p → ∀ j, k - p + r ≤ j → j ≤ k →
      lo ≤ deBoor t c p x r j ∧ deBoor t c p x r j ≤ hi := by
  intro r
  induction r with
  | zero =>
    intro _ j h1 h2
    simpa [deBoor] using hc j (by omega) h2
  | succ r ih =>
    intro hr j h1 h2
    have ihr := ih (by omega)
    obtain ⟨l1, u1⟩ := ihr (j - 1) (by omega) (by omega)
    obtain ⟨l2, u2⟩ := ihr j (by omega) h2
    have h3 : t (k + 1) ≤ t (j + p - r) := ht (by omega)
    have h4 : t j ≤ t k := ht h2
    have hden : 0 < t (j + p - r) - t j := by linarith
    have ha0 : 0 ≤ (x - t j) / (t (j + p - r) - t j) := div_nonneg (by linarith) hden.le
    have ha1 : (x - t j) / (t (j + p - r) - t j) ≤ 1 := by
      rw [div_le_one hden]
      linarith
    simp only [deBoor]
    generalize (x - t j) / (t (j + p - r) - t j) = a at ha0 ha1
    constructor
    · nlinarith [mul_nonneg (sub_nonneg.2 ha1) (sub_nonneg.2 l1), mul_nonneg ha0 (sub_nonneg.2 l2)]
    · nlinarith [mul_nonneg (sub_nonneg.2 ha1) (sub_nonneg.2 u1), mul_nonneg ha0 (sub_nonneg.2 u2)]

/-- the curve value in span `k` lies between the bounds of the `p + 1` active control values -/
theorem deBoor_value_mem_Icc (t c : ℕ → α) (p k : ℕ) (x lo hi : α) (ht : Monotone t)
    (hk : t k ≤ x) (hk1 : x ≤ t (k + 1)) (hlt : t k < t (k + 1)) (hpk : p ≤ k)
    (hc : ∀ j, k - p ≤ j → j ≤ k → lo ≤ c j ∧ c j ≤ hi) :
    lo ≤ deBoor t c p x p k ∧ deBoor t c p x p k ≤ hi :=
  deBoor_mem_Icc t c p k x lo hi ht hk hk1 hlt hpk hc p le_rfl k (by omega) le_rfl

/-- equal active control values are reproduced (the blending weights sum to one) -/
theorem deBoor_const (t c : ℕ → α) (p k : ℕ) (x v : α) (ht : Monotone t)
    (hk : t k ≤ x) (hk1 : x ≤ t (k + 1)) (hlt : t k < t (k + 1)) (hpk : p ≤ k)
    (hc : ∀ j, k - p ≤ j → j ≤ k → c j = v) : deBoor t c p x p k = v := by
  have h := deBoor_value_mem_Icc t c p k x v v ht hk hk1 hlt hpk (fun j h1 h2 => by rw [hc j h1 h2]; exact ⟨le_rfl, le_rfl⟩)
  exact le_antisymm h.2 h.1

/-! ### the span search -/

lemma spanFrom_spec (t : ℕ → α) (x : α) : ∀ (fuel k : ℕ), t k ≤ x → x ≤ t (k + fuel + 1) →
    k ≤ spanFrom t x fuel k ∧ spanFrom t x fuel k ≤ k + fuel ∧
      t (spanFrom t x fuel k) ≤ x ∧ x ≤ t (spanFrom t x fuel k + 1) := by
  intro fuel
  induction fuel with
  | zero => intro k h1 h2; exact ⟨le_rfl, le_rfl, h1, by simpa [spanFrom] using h2⟩
  | succ f ih =>
    intro k h1 h2
    unfold spanFrom
    by_cases hx : x ≤ t (k + 1)
    · rw [if_pos hx]; exact ⟨le_rfl, by omega, h1, hx⟩
    · rw [if_neg hx]
      have h3 : t (k + 1) ≤ x := le_of_lt (not_le.1 hx)
      obtain ⟨a, b, c, d⟩ := ih (k + 1) h3 (by rw [show k + 1 + f + 1 = k + (f + 1) + 1 by omega]; exact h2)
      exact ⟨by omega, by omega, c, d⟩

/-- every query in `[0, n - p]` has a knot span `p ≤ k < n` that contains it and is non-empty -/
theorem span_spec (n p : ℕ) (x : α) (hp : p + 1 ≤ n) (h0 : 0 ≤ x) (h1 : x ≤ ((n - p : ℕ) : α)) :
    p ≤ span n p x ∧ span n p x + 1 ≤ n ∧ knot n p (span n p x) ≤ x ∧ x ≤ knot n p (span n p x + 1) ∧
      knot (α := α) n p (span n p x) < knot n p (span n p x + 1) := by
  have hkp : knot (α := α) n p p = 0 := by rw [knot_interior n p p le_rfl (by omega)]; simp
  have hkn : knot (α := α) n p (p + (n - 1 - p) + 1) = ((n - p : ℕ) : α) := by
    rw [show p + (n - 1 - p) + 1 = n by omega, knot_interior n p n (by omega) le_rfl]
  obtain ⟨a, b, c, d⟩ := spanFrom_spec (knot n p) x (n - 1 - p) p (by rw [hkp]; exact h0) (by rw [hkn]; exact h1)
  unfold span
  exact ⟨a, by omega, c, d, knot_span_pos n p _ a (by omega)⟩

/-- the queries `linspace(0, n - p, m)` lie in `[0, n - p]` -/
theorem query_mem (n p m i : ℕ) (hm : 2 ≤ m) (hi : i + 1 ≤ m) :
    0 ≤ query (α := α) n p m i ∧ query (α := α) n p m i ≤ ((n - p : ℕ) : α) := by
  unfold query
  have hm1 : (0 : α) < ((m - 1 : ℕ) : α) := by exact_mod_cast (by omega : 0 < m - 1)
  have hi1 : (i : α) ≤ ((m - 1 : ℕ) : α) := by exact_mod_cast (by omega : i ≤ m - 1)
  have hn : (0 : α) ≤ ((n - p : ℕ) : α) := Nat.cast_nonneg _
  have hi0 : (0 : α) ≤ (i : α) := Nat.cast_nonneg _
  constructor
  · exact div_nonneg (mul_nonneg hn hi0) hm1.le
  · rw [div_le_iff₀ hm1]
    exact mul_le_mul_of_nonneg_left hi1 hn

/-- first and last query are the ends of the parameter range -/
theorem query_ends (n p m : ℕ) (hm : 2 ≤ m) :
    query (α := α) n p m 0 = 0 ∧ query (α := α) n p m (m - 1) = ((n - p : ℕ) : α) := by
  unfold query
  have hm1 : ((m - 1 : ℕ) : α) ≠ 0 := by exact_mod_cast (by omega : m - 1 ≠ 0)
  constructor
  · simp
  · field_simp

/-! ### the curve of the code -/

/-- a B-spline sample lies between the bounds of the control values -/
theorem bsplineAt_mem_Icc (p : ℕ) (c : List α) (x lo hi : α) (hp : p + 1 ≤ c.length) (h0 : 0 ≤ x)
    (h1 : x ≤ ((c.length - p : ℕ) : α)) (hc : ∀ v ∈ c, lo ≤ v ∧ v ≤ hi) :
    lo ≤ bsplineAt p c x ∧ bsplineAt p c x ≤ hi := by
  obtain ⟨a, b, h3, h4, h5⟩ := span_spec c.length p x hp h0 h1
  unfold bsplineAt
  refine deBoor_value_mem_Icc _ _ p _ x lo hi (knot_mono _ _) h3 h4 h5 a ?_
  intro j _ hj
  have hjl : j < c.length := by omega
  have : c.getD j 0 = c[j] := by simp [List.getD, hjl]
  rw [this]
  exact hc _ (List.getElem_mem hjl)

theorem bsplineCurve_length (degree m : ℕ) (xs ys : List α) : (bsplineCurve degree m xs ys).length = m := by
  simp [bsplineCurve]

/-- SMOOTHING KEEPS NON-NEGATIVITY (for the curve the code evaluates, any requested degree, any number of samples):
every smoothed value of a non-negative distribution is non-negative -/
theorem bsplineCurve_nonneg (degree m : ℕ) (xs ys : List α) (hlen : xs.length = ys.length) (hn : 2 ≤ xs.length)
    (hm : 2 ≤ m) (hy : ∀ v ∈ ys, 0 ≤ v) : ∀ s ∈ bsplineCurve degree m xs ys, 0 ≤ s.2 := by
  intro s hs
  obtain ⟨hd1, hd2⟩ := clipDegree_spec degree xs.length hn
  simp only [bsplineCurve, List.mem_map, List.mem_range] at hs
  obtain ⟨i, hi, rfl⟩ := hs
  obtain ⟨q0, q1⟩ := query_mem (α := α) xs.length (clipDegree degree xs.length) m i hm (by omega)
  -- an upper bound of the control values exists: their sum
  have hub : ∀ v ∈ ys, 0 ≤ v ∧ v ≤ ys.sum := fun v hv => ⟨hy v hv, List.single_le_sum hy v hv⟩
  exact (bsplineAt_mem_Icc _ ys _ 0 ys.sum (by omega) q0 (by rw [← hlen]; exact q1) hub).1

/-- the smoothed pore widths stay inside the range of the kernel's pore widths -/
theorem bsplineCurve_widths_mem_Icc (degree m : ℕ) (xs ys : List α) (lo hi : α) (hn : 2 ≤ xs.length) (hm : 2 ≤ m)
    (hx : ∀ w ∈ xs, lo ≤ w ∧ w ≤ hi) : ∀ s ∈ bsplineCurve degree m xs ys, lo ≤ s.1 ∧ s.1 ≤ hi := by
  intro s hs
  obtain ⟨hd1, hd2⟩ := clipDegree_spec degree xs.length hn
  simp only [bsplineCurve, List.mem_map, List.mem_range] at hs
  obtain ⟨i, hi', rfl⟩ := hs
  obtain ⟨q0, q1⟩ := query_mem (α := α) xs.length (clipDegree degree xs.length) m i hm (by omega)
  exact bsplineAt_mem_Icc _ xs _ lo hi (by omega) q0 q1 hx

/-- the smoothed distribution of a fit is non-negative: contributions `x ≥ 0`, strictly increasing positive widths -/
theorem smoothed_distribution_nonneg (degree m : ℕ) (x widths : List α) (hlen : x.length = widths.length)
    (hn : 2 ≤ widths.length) (hm : 2 ≤ m) (hpos : ∀ w ∈ widths, 0 < w) (hinc : widths.Pairwise (· < ·))
    (hfeas : feasible x) : ∀ s ∈ bsplineCurve degree m widths (rawDist x widths), 0 ≤ s.2 :=
  bsplineCurve_nonneg degree m widths _ (by rw [rawDist_length x widths hlen, hlen]) hn hm
    (rawDist_nonneg x widths hpos hinc hfeas)

/-! ### the curve is clamped: it starts at the first and ends at the last control point -/

/-- when the query coincides with the knots `t (k-p+1) … t k` every blending ratio is 0: level `r` is the control
polygon shifted by `r` -/
theorem deBoor_at_left (t c : ℕ → α) (p k : ℕ) (x : α) (hx : ∀ j, k - p < j → j ≤ k → t j = x) :
    ∀ r, r ≤ p → ∀ j, k - p + r ≤ j → j ≤ k → deBoor t c p x r j = c (j - r) := by
  intro r
  induction r with
  | zero => intro _ j _ _; simp [deBoor]
  | succ r ih =>
    intro hr j h1 h2
    simp only [deBoor]
    rw [hx j (by omega) h2, sub_self, zero_div, sub_zero, one_mul, zero_mul, add_zero,
      ih (by omega) (j - 1) (by omega) (by omega)]
    congr 1
    omega

/-- when the query coincides with the knots `t (k+1) … t (k+p)` (and not with `t k`) every blending ratio is 1:
every level is the control polygon -/
theorem deBoor_at_right (t c : ℕ → α) (p k : ℕ) (x : α) (ht : Monotone t) (hlt : t k < x)
    (hx : ∀ j, k < j → j ≤ k + p → t j = x) (hpk : p ≤ k) :
    ∀ r, r ≤ p → ∀ j, k - p + r ≤ j → j ≤ k → deBoor t c p x r j = c j := by
  intro r
  induction r with
  | zero => intro _ j _ _; simp [deBoor]
  | succ r ih =>
    intro hr j h1 h2
    simp only [deBoor]
    have h3 : t (j + p - r) = x := hx _ (by omega) (by omega)
    have h4 : t j ≤ t k := ht h2
    have hne : x - t j ≠ 0 := by
      have : 0 < x - t j := by linarith
      exact this.ne'
    rw [h3, div_self hne, sub_self, zero_mul, zero_add, one_mul, ih (by omega) j (by omega) h2]

lemma spanFrom_stop (t : ℕ → α) (x : α) (fuel k : ℕ) (h : fuel = 0 ∨ x ≤ t (k + 1)) : spanFrom t x fuel k = k := by
  cases fuel with
  | zero => rfl
  | succ f =>
    rcases h with h | h
    · omega
    · simp [spanFrom, h]

lemma spanFrom_run (t : ℕ → α) (x : α) : ∀ (fuel k : ℕ), (∀ k', k ≤ k' → k' < k + fuel → ¬ x ≤ t (k' + 1)) →
    spanFrom t x fuel k = k + fuel := by
  intro fuel
  induction fuel with
  | zero => intro k _; rfl
  | succ f ih =>
    intro k h
    unfold spanFrom
    rw [if_neg (h k le_rfl (by omega)), ih (k + 1) (fun k' h1 h2 => h k' (by omega) (by omega))]
    omega

/-- the curve starts at the first control point -/
theorem bsplineAt_zero (p : ℕ) (c : List α) : bsplineAt p c 0 = c.getD 0 0 := by
  have hk : ∀ j, j ≤ p → knot (α := α) c.length p j = 0 := by
    intro j hj
    unfold knot
    have : min (max j p) c.length - p = 0 := by omega
    rw [this]; simp
  have hs : span (α := α) c.length p 0 = p := by
    unfold span
    apply spanFrom_stop
    right
    exact Nat.cast_nonneg _
  unfold bsplineAt
  rw [hs, deBoor_at_left _ _ p p 0 (fun j _ hj => hk j hj) p le_rfl p (by omega) le_rfl]
  simp

/-- the curve ends at the last control point -/
theorem bsplineAt_last (p : ℕ) (c : List α) (hp1 : 1 ≤ p) (hp : p + 1 ≤ c.length) :
    bsplineAt p c ((c.length - p : ℕ) : α) = c.getD (c.length - 1) 0 := by
  have hs : span (α := α) c.length p ((c.length - p : ℕ) : α) = c.length - 1 := by
    unfold span
    rw [spanFrom_run]
    · omega
    · intro k' h1 h2
      rw [knot_interior c.length p (k' + 1) (by omega) (by omega), not_le]
      have : k' + 1 - p < c.length - p := by omega
      exact_mod_cast this
  unfold bsplineAt
  rw [hs]
  refine deBoor_at_right _ _ p (c.length - 1) _ (knot_mono _ _) ?_ ?_ (by omega) p le_rfl _ (by omega) le_rfl
  · rw [knot_interior c.length p (c.length - 1) (by omega) (by omega)]
    have : c.length - 1 - p < c.length - p := by omega
    exact_mod_cast this
  · intro j h1 _
    unfold knot
    have : min (max j p) c.length - p = c.length - p := by omega
    rw [this]

/-- first and last sample of the smoothed curve are the first and last control point: the reported pore widths still
start at the kernel's smallest and end at its largest width -/
theorem bsplineCurve_ends (degree m : ℕ) (xs ys : List α) (hlen : xs.length = ys.length) (hn : 2 ≤ xs.length)
    (hm : 2 ≤ m) :
    (bsplineCurve degree m xs ys)[0]? = some (xs.getD 0 0, ys.getD 0 0) ∧
      (bsplineCurve degree m xs ys)[m - 1]? = some (xs.getD (xs.length - 1) 0, ys.getD (ys.length - 1) 0) := by
  obtain ⟨hd1, hd2⟩ := clipDegree_spec degree xs.length hn
  obtain ⟨q0, q1⟩ := query_ends (α := α) xs.length (clipDegree degree xs.length) m hm
  unfold bsplineCurve
  constructor
  · rw [List.getElem?_map, List.getElem?_range (by omega)]
    simp only [Option.map_some, q0]
    rw [bsplineAt_zero _ xs, bsplineAt_zero _ ys]
  · rw [List.getElem?_map, List.getElem?_range (by omega)]
    simp only [Option.map_some, q1]
    rw [bsplineAt_last _ xs hd1 hd2]
    have h2 := bsplineAt_last (clipDegree degree xs.length) ys hd1 (by omega)
    rw [← hlen] at h2
    rw [h2, hlen]

/-! ### non-vacuity at ℚ -/

/-- degree 1 is the polygon itself, sampled uniformly in the parameter -/
example : bsplineCurve 1 3 [(1 : ℚ), 2, 4] [0, 3, 1] = [(1, 0), (2, 3), (4, 1)] := by decide +kernel

/-- degree 2 on three control points (one span): the middle sample is `(c₀ + 2 c₁ + c₂) / 4` -/
example : bsplineCurve 2 3 [(1 : ℚ), 2, 4] [0, 3, 1] = [(1, 0), (9 / 4, 7 / 4), (4, 1)] := by decide +kernel

/-- a requested degree 3 on three control points is clipped to 2 -/
example : bsplineCurve 3 3 [(1 : ℚ), 2, 4] [0, 3, 1] = bsplineCurve 2 3 [(1 : ℚ), 2, 4] [0, 3, 1] := by decide +kernel

/-- the hypotheses of `deBoor_value_mem_Icc` are satisfiable (span 2 of 4 control points, degree 2) -/
example : Monotone (knot (α := ℚ) 4 2) ∧ knot (α := ℚ) 4 2 2 ≤ 1 / 2 ∧ (1 / 2 : ℚ) ≤ knot 4 2 3 ∧
    knot (α := ℚ) 4 2 2 < knot 4 2 3 := ⟨knot_mono 4 2, by decide +kernel, by decide +kernel, by decide +kernel⟩

/-- outside its knot span the recursion does leave the range of the control values (the guard is needed):
control values in `[0, 1]`, query 3 evaluated in span 1 -/
example : ¬ (deBoor (knot (α := ℚ) 4 1) (fun i => [(0 : ℚ), 1, 0, 0].getD i 0) 1 3 1 1 ≤ 1) := by decide +kernel

end PgVerif.Props.C18
