/-
C19 — enthalpy methods recover the enthalpy built into consistent synthetic data.

Statements are about the *generated* pieces of characterisation/isosteric_enth.py and enth_sorp_whittaker.py
(`PgVerif.Gen.CharR.isosteric_enthalpy`, `isosteric_inv_t`, `whit_*`), the generated model equations
(`PgVerif.Gen.R.Langmuir_loading`, `Langmuir_pressure`, `Toth_loading`, `DSLangmuir_loading`) and the hand-written model of
`scipy.stats.linregress` (`PgVerif.Model.Linear.ols`, run against the real code by the harness).

`Rgas` is the literal of the generated text, `207861565453831 / 25000000000000` (= 8.31446261815324 J/mol/K).

Sections
  A. least squares on arbitrary (unordered, unevenly spaced) abscissae is exact on affine data,
  B. Clausius-Clapeyron analysis recovers the van 't Hoff enthalpy `dH` (any number ≥ 2 of temperatures, any order, any spacing,
     any common pressure unit), instantiated for the library's own Langmuir / Toth / dual-site Langmuir equations,
  C. Whittaker closed form  λ + ΔH_vap + RT  for Toth and Langmuir,
  D. non-vacuity examples.
-/
import PgVerif.Gen.CharR
import PgVerif.Gen.ModelsR
import PgVerif.Model.Linear
import Mathlib.Tactic

namespace PgVerif.Props.C19
open PgVerif.Gen.CharR PgVerif.Gen.R PgVerif.Model.Linear

/-- the gas constant exactly as it appears in the generated text -/
local notation "Rgas" => ((207861565453831 : ℝ) / (25000000000000 : ℝ))

/-! ### helper facts (not properties) -/

private lemma sum_cons' (x : ℝ) (xs : List ℝ) : sum (x :: xs) = x + sum xs := rfl

private lemma sum_map_affine (a b : ℝ) (xs : List ℝ) :
    sum (xs.map (fun x => a * x + b)) = a * sum xs + b * (xs.length : ℝ) := by
  induction xs with
  | nil => simp [sum]
  | cons x xs ih =>
    simp only [List.map_cons, sum_cons', ih, List.length_cons]
    push_cast; ring

private lemma sum_map_const_mul (a : ℝ) (g : ℝ → ℝ) (xs : List ℝ) :
    sum (xs.map (fun x => a * g x)) = a * sum (xs.map g) := by
  induction xs with
  | nil => simp [sum]
  | cons x xs ih =>
    simp only [List.map_cons, sum_cons', ih]; ring

private lemma zipWith_self_map (g : ℝ → ℝ → ℝ) (f : ℝ → ℝ) (xs : List ℝ) :
    List.zipWith g xs (xs.map f) = xs.map (fun x => g x (f x)) := by
  induction xs with
  | nil => rfl
  | cons x xs ih => simp [ih]

private lemma zipWith_self' (g : ℝ → ℝ → ℝ) (xs : List ℝ) :
    List.zipWith g xs xs = xs.map (fun x => g x x) := by
  induction xs with
  | nil => rfl
  | cons x xs ih => simp

private lemma sum_sq_nonneg (m : ℝ) (xs : List ℝ) :
    0 ≤ sum (xs.map (fun x => (x - m) * (x - m))) := by
  induction xs with
  | nil => simp [sum]
  | cons x xs ih =>
    simp only [List.map_cons, sum_cons']
    nlinarith [mul_self_nonneg (x - m)]

private lemma sum_sq_pos (m : ℝ) (xs : List ℝ) (h : ∃ x ∈ xs, x ≠ m) :
    0 < sum (xs.map (fun x => (x - m) * (x - m))) := by
  induction xs with
  | nil => obtain ⟨x, hx, _⟩ := h; simp at hx
  | cons y ys ih =>
    simp only [List.map_cons, sum_cons']
    obtain ⟨x, hx, hne⟩ := h
    rcases List.mem_cons.mp hx with rfl | hx'
    · have h1 : 0 < (x - m) * (x - m) := mul_self_pos.mpr (sub_ne_zero.mpr hne)
      have h2 := sum_sq_nonneg m ys
      linarith
    · have h1 : 0 ≤ (y - m) * (y - m) := mul_self_nonneg _
      have h2 := ih ⟨x, hx', hne⟩
      linarith

/-- `sxy xs xs = Σ (x - x̄)²` -/
private lemma sxy_self (xs : List ℝ) :
    sxy xs xs = sum (xs.map (fun x => (x - mean xs) * (x - mean xs))) := by
  unfold sxy
  rw [zipWith_self']

private lemma sxy_self_pos (xs : List ℝ) (h : ∃ x ∈ xs, ∃ x' ∈ xs, x ≠ x') : 0 < sxy xs xs := by
  rw [sxy_self]
  apply sum_sq_pos
  obtain ⟨x, hx, x', hx', hne⟩ := h
  by_cases hm : x = mean xs
  · exact ⟨x', hx', fun h' => hne (hm.trans h'.symm)⟩
  · exact ⟨x, hx, hm⟩

private lemma mean_map_affine (a b : ℝ) (xs : List ℝ) (hne : xs ≠ []) :
    mean (xs.map (fun x => a * x + b)) = a * mean xs + b := by
  unfold mean
  rw [sum_map_affine, List.length_map]
  have hl : (xs.length : ℝ) ≠ 0 := by
    have : xs.length ≠ 0 := fun h => hne (List.length_eq_zero_iff.mp h)
    exact_mod_cast this
  field_simp

private lemma sxy_map_affine (a b : ℝ) (xs : List ℝ) (hne : xs ≠ []) :
    sxy xs (xs.map (fun x => a * x + b)) = a * sxy xs xs := by
  rw [sxy_self]
  unfold sxy
  rw [zipWith_self_map, mean_map_affine a b xs hne, ← sum_map_const_mul]
  congr 1
  apply List.map_congr_left
  intro x _
  ring

/-! ### A. least squares on arbitrary abscissae -/

/-- Ordinary least squares (the `linregress` model) is exact on affine data `y = a x + b` as soon as two abscissae differ:
no ordering, spacing or count assumption (beyond the two different values). The guard excludes the `0/0` slope of the
degenerate (all abscissae equal) case, which Lean would totalise to `0`. -/
theorem ols_exact_distinct (a b : ℝ) (xs ys : List ℝ)
    (hys : ys = xs.map (fun x => a * x + b))
    (hd : ∃ x ∈ xs, ∃ x' ∈ xs, x ≠ x') :
    ols xs ys = (a, b) := by
  subst hys
  have hne : xs ≠ [] := by
    rintro rfl
    obtain ⟨x, hx, _⟩ := hd
    simp at hx
  have hpos := sxy_self_pos xs hd
  unfold ols
  simp only
  rw [sxy_map_affine a b xs hne, mean_map_affine a b xs hne]
  have hs : a * sxy xs xs / sxy xs xs = a := by field_simp
  rw [hs]
  ext <;> simp

/-! ### B. Clausius-Clapeyron recovery -/

private lemma inv_t_distinct (Ts : List ℝ) (hpos : ∀ T ∈ Ts, 0 < T)
    (hd : ∃ T ∈ Ts, ∃ T' ∈ Ts, T ≠ T') :
    ∃ x ∈ Ts.map isosteric_inv_t, ∃ x' ∈ Ts.map isosteric_inv_t, x ≠ x' := by
  obtain ⟨T, hT, T', hT', hne⟩ := hd
  refine ⟨isosteric_inv_t T, List.mem_map_of_mem hT, isosteric_inv_t T', List.mem_map_of_mem hT', ?_⟩
  unfold isosteric_inv_t
  have h1 := (hpos T hT).ne'
  have h2 := (hpos T' hT').ne'
  intro h
  apply hne
  field_simp at h
  exact h.symm

/-- slope-to-enthalpy factor: a Clausius-Clapeyron slope `-dH*1000/R` gives back `dH` (kJ/mol) -/
theorem isosteric_enthalpy_of_slope (dH : ℝ) :
    isosteric_enthalpy (-(dH * 1000) / Rgas) = dH := by
  unfold isosteric_enthalpy
  field_simp

/-- Isosteric analysis at one loading: if the log-pressures follow the van 't Hoff law `ln p = c − dH/(R T)` (dH in kJ/mol)
at the temperatures `Ts` (all positive, at least two different; any number, order and spacing), the regression slope over
`1/T` converted by the code's formula is exactly `dH`. -/
theorem isosteric_recovers (c dH : ℝ) (Ts logp : List ℝ)
    (hpos : ∀ T ∈ Ts, 0 < T)
    (hd : ∃ T ∈ Ts, ∃ T' ∈ Ts, T ≠ T')
    (hlogp : logp = Ts.map (fun T => c - dH * 1000 / (Rgas * T))) :
    isosteric_enthalpy (ols (Ts.map isosteric_inv_t) logp).1 = dH := by
  have hmap : logp = (Ts.map isosteric_inv_t).map (fun x => (-(dH * 1000) / Rgas) * x + c) := by
    rw [hlogp, List.map_map]
    apply List.map_congr_left
    intro T hT
    have hT0 := (hpos T hT).ne'
    simp only [Function.comp, isosteric_inv_t]
    field_simp
    ring
  rw [ols_exact_distinct _ c _ _ hmap (inv_t_distinct Ts hpos hd)]
  exact isosteric_enthalpy_of_slope dH

private lemma log_vant_hoff (u K0 E : ℝ) (hu : 0 < u) (hK0 : 0 < K0) :
    Real.log (u / (K0 * Real.exp E)) = (Real.log u - Real.log K0) - E := by
  rw [Real.log_div hu.ne' (by positivity), Real.log_mul hK0.ne' (Real.exp_pos E).ne', Real.log_exp]
  ring

/-- General generator statement.  For an affinity-scaled family (loading at temperature `T` is `F (K T * p)` with
`K T = K0 * exp (dH*1000/(R T))`, `K0 > 0`) the pressure giving the loading `n = F u` (`u > 0` the reduced pressure) is
`u / K T`; the isosteric enthalpy computed from those pressures is `dH`, whatever `u` (i.e. at every loading) and
whatever the positive temperatures (two of them different).  `u > 0`, `K0 > 0` exclude `Real.log 0`. -/
theorem vant_hoff_family (u K0 dH : ℝ) (Ts ps : List ℝ)
    (hu : 0 < u) (hK0 : 0 < K0)
    (hpos : ∀ T ∈ Ts, 0 < T)
    (hd : ∃ T ∈ Ts, ∃ T' ∈ Ts, T ≠ T')
    (hps : ps = Ts.map (fun T => u / (K0 * Real.exp (dH * 1000 / (Rgas * T))))) :
    isosteric_enthalpy (ols (Ts.map isosteric_inv_t) (ps.map Real.log)).1 = dH := by
  apply isosteric_recovers (Real.log u - Real.log K0) dH Ts _ hpos hd
  rw [hps, List.map_map]
  apply List.map_congr_left
  intro T _
  simp only [Function.comp]
  exact log_vant_hoff u K0 _ hu hK0

/-- Pressure-unit invariance: multiplying every pressure by the same positive constant `k` (a change of pressure unit)
does not change the result.  (A change of *loading* unit or basis only relabels the loading `n` at which the analysis is
made — it changes `u`, which is universally quantified here and in `vant_hoff_family` — so the result is invariant under
it as well.) -/
theorem unit_invariance (k u K0 dH : ℝ) (Ts ps ps' : List ℝ)
    (hk : 0 < k) (hu : 0 < u) (hK0 : 0 < K0)
    (hpos : ∀ T ∈ Ts, 0 < T)
    (hd : ∃ T ∈ Ts, ∃ T' ∈ Ts, T ≠ T')
    (hps : ps = Ts.map (fun T => u / (K0 * Real.exp (dH * 1000 / (Rgas * T)))))
    (hps' : ps' = ps.map (k * ·)) :
    isosteric_enthalpy (ols (Ts.map isosteric_inv_t) (ps'.map Real.log)).1 = dH ∧
    isosteric_enthalpy (ols (Ts.map isosteric_inv_t) (ps'.map Real.log)).1
      = isosteric_enthalpy (ols (Ts.map isosteric_inv_t) (ps.map Real.log)).1 := by
  have h1 : isosteric_enthalpy (ols (Ts.map isosteric_inv_t) (ps'.map Real.log)).1 = dH := by
    apply vant_hoff_family (k * u) K0 dH Ts ps' (by positivity) hK0 hpos hd
    rw [hps', hps, List.map_map]
    apply List.map_congr_left
    intro T _
    simp only [Function.comp]
    ring
  exact ⟨h1, h1.trans (vant_hoff_family u K0 dH Ts ps hu hK0 hpos hd hps).symm⟩

/-- If the loading at temperature `T` is `F (K T * p)`, `F` is injective on the positive reals, and the measured pressures
`p T` all give the same loading `F u` (`u > 0`), then `p T = u / K T`: the hypothesis `hps` of `vant_hoff_family`
follows from the "same loading" condition, so the isosteric enthalpy of such a family is `dH`. -/
theorem affinity_scaled_isosteric (F : ℝ → ℝ) (hF : Set.InjOn F (Set.Ioi 0))
    (u K0 dH : ℝ) (Ts : List ℝ) (p : ℝ → ℝ)
    (hu : 0 < u) (hK0 : 0 < K0)
    (hpos : ∀ T ∈ Ts, 0 < T)
    (hd : ∃ T ∈ Ts, ∃ T' ∈ Ts, T ≠ T')
    (hp : ∀ T ∈ Ts, 0 < p T)
    (hiso : ∀ T ∈ Ts, F (K0 * Real.exp (dH * 1000 / (Rgas * T)) * p T) = F u) :
    isosteric_enthalpy (ols (Ts.map isosteric_inv_t) ((Ts.map p).map Real.log)).1 = dH := by
  apply vant_hoff_family u K0 dH Ts (Ts.map p) hu hK0 hpos hd
  apply List.map_congr_left
  intro T hT
  have hK : 0 < K0 * Real.exp (dH * 1000 / (Rgas * T)) := by positivity
  have := hF (Set.mem_Ioi.mpr (mul_pos hK (hp T hT))) (Set.mem_Ioi.mpr hu) (hiso T hT)
  rw [← this]
  field_simp

/-! #### the library's own model equations are affinity-scaled -/

/-- `Langmuir_loading` depends on `K` and `p` only through `K * p`. -/
theorem langmuir_is_affinity_scaled (K n_m p : ℝ) :
    Langmuir_loading K n_m p = (fun u => n_m * u / (1 + u)) (K * p) := by
  unfold Langmuir_loading
  rfl

/-- `Toth_loading` depends on `K` and `p` only through `K * p`. -/
theorem toth_is_affinity_scaled (n_m K t p : ℝ) :
    Toth_loading n_m K t p = (fun u => n_m * u / (1 + u ^ t) ^ (1 / t)) (K * p) := by
  unfold Toth_loading
  simp only [Real.rpow_eq_pow]

/-- dual-site Langmuir with both site constants scaled by the same factor `s` (both sites share the enthalpy):
the loading is a function of `s * p`. -/
theorem dslangmuir_is_affinity_scaled (n_m1 k1 n_m2 k2 s p : ℝ) :
    DSLangmuir_loading n_m1 (s * k1) n_m2 (s * k2) p
      = (fun u => n_m1 * (k1 * u) / (1 + k1 * u) + n_m2 * (k2 * u) / (1 + k2 * u)) (s * p) := by
  unfold DSLangmuir_loading
  simp only
  have e1 : s * k1 * p = k1 * (s * p) := by ring
  have e2 : s * k2 * p = k2 * (s * p) := by ring
  rw [e1, e2]

/-- Isosteric analysis of Langmuir isotherms generated with `K T = K0 exp(dH/(R T))`, using the library's own inverse
`Langmuir_pressure` to read the pressure at the loading `n` (`0 < n < n_m`, inside the range of the model): `dH` is
recovered at every such loading. -/
theorem langmuir_isosteric (K0 dH n_m n : ℝ) (Ts ps : List ℝ)
    (hK0 : 0 < K0) (hn : 0 < n) (hsat : n < n_m)
    (hpos : ∀ T ∈ Ts, 0 < T)
    (hd : ∃ T ∈ Ts, ∃ T' ∈ Ts, T ≠ T')
    (hps : ps = Ts.map (fun T => Langmuir_pressure (K0 * Real.exp (dH * 1000 / (Rgas * T))) n_m n)) :
    isosteric_enthalpy (ols (Ts.map isosteric_inv_t) (ps.map Real.log)).1 = dH := by
  have hnm : 0 < n_m - n := by linarith
  apply vant_hoff_family (n / (n_m - n)) K0 dH Ts ps (by positivity) hK0 hpos hd
  rw [hps]
  apply List.map_congr_left
  intro T _
  unfold Langmuir_pressure
  have hK : 0 < K0 * Real.exp (dH * 1000 / (Rgas * T)) := by positivity
  field_simp

/-! ### C. Whittaker closed form -/

/-- `p_sat / b^(1/t)` with `b = 1/K^t` is `p_sat * K` (`K > 0` so that the real powers are the genuine ones, `t ≠ 0`
excludes `1/0`). -/
theorem whittaker_first_bracket (p_sat K t : ℝ) (hK : 0 < K) (ht : t ≠ 0) :
    whit_first_bracket p_sat (whit_b K t) t = p_sat * K := by
  unfold whit_first_bracket whit_b
  simp only [Real.rpow_eq_pow]
  have h1 : (1 / K ^ t) ^ (1 / t) = 1 / K := by
    rw [Real.div_rpow zero_le_one (Real.rpow_nonneg hK.le t), Real.one_rpow, ← Real.rpow_mul hK.le,
      mul_one_div_cancel ht, Real.rpow_one]
  rw [h1]
  field_simp

/-- the argument of the logarithm in the Whittaker formula is positive under the guards (so the closed form below is not
an artefact of `Real.log` of a non-positive number) -/
lemma whittaker_log_arg_pos (p_sat K t n n_m : ℝ)
    (hK : 0 < K) (ht : 0 < t) (hp : 0 < p_sat) (hn : 0 < n) (hsat : n < n_m) :
    0 < (n / n_m) ^ t / (1 - (n / n_m) ^ t) ∧
    0 < p_sat * K * ((n / n_m) ^ t / (1 - (n / n_m) ^ t)) ^ ((t - 1) / t) := by
  have hnm : 0 < n_m := hn.trans hsat
  have hθ0 : 0 < n / n_m := div_pos hn hnm
  have hθ1 : n / n_m < 1 := (div_lt_one hnm).mpr hsat
  have h1 : 0 < (n / n_m) ^ t := Real.rpow_pos_of_pos hθ0 t
  have h2 : (n / n_m) ^ t < 1 := Real.rpow_lt_one hθ0.le hθ1 ht
  have h3 : 0 < (n / n_m) ^ t / (1 - (n / n_m) ^ t) := div_pos h1 (by linarith)
  exact ⟨h3, mul_pos (mul_pos hp hK) (Real.rpow_pos_of_pos h3 _)⟩

/-- Whittaker enthalpy for a Toth description, chained exactly as `enthalpy_sorption_whittaker_raw` does:
the result is `λ + ΔH_vap + RT` in kJ/mol with `λ = RT ln(p_sat K (θ^t/(1−θ^t))^((t−1)/t))`. -/
theorem whittaker_closed_form (T K t p_sat n n_m h_vap : ℝ)
    (hK : 0 < K) (ht : 0 < t) (_hp : 0 < p_sat) (_hn : 0 < n) (_hsat : n < n_m) :
    whit_out (whit_h_st
        (whit_d_lambda (whit_RT T) (whit_first_bracket p_sat (whit_b K t) t)
          (whit_second_bracket (whit_theta_t (whit_theta n n_m) t) t))
        h_vap (whit_RT T))
      = (Rgas * T * Real.log (p_sat * K * ((n / n_m) ^ t / (1 - (n / n_m) ^ t)) ^ ((t - 1) / t))
          + h_vap + Rgas * T) / 1000 := by
  rw [whittaker_first_bracket p_sat K t hK ht.ne']
  unfold whit_out whit_h_st whit_d_lambda whit_RT whit_second_bracket whit_theta_t whit_theta
  simp only [Real.rpow_eq_pow]

/-- Langmuir (`t = 1`): the Whittaker enthalpy does not depend on the loading. -/
theorem whittaker_langmuir (T K p_sat n n_m h_vap : ℝ)
    (hK : 0 < K) (_hp : 0 < p_sat) (_hn : 0 < n) (_hsat : n < n_m) :
    whit_out (whit_h_st
        (whit_d_lambda (whit_RT T) (whit_first_bracket p_sat (whit_b K 1) 1)
          (whit_second_bracket (whit_theta_t (whit_theta n n_m) 1) 1))
        h_vap (whit_RT T))
      = (Rgas * T * Real.log (p_sat * K) + h_vap + Rgas * T) / 1000 := by
  rw [whittaker_closed_form T K 1 p_sat n n_m h_vap hK one_pos _hp _hn _hsat]
  simp

/-- Toth: `λ = RT (ln(p_sat K) + ((t−1)/t) ln(θ^t/(1−θ^t)))`. -/
theorem whittaker_lambda_split (T K t p_sat n n_m : ℝ)
    (hK : 0 < K) (ht : 0 < t) (hp : 0 < p_sat) (hn : 0 < n) (hsat : n < n_m) :
    whit_d_lambda (whit_RT T) (whit_first_bracket p_sat (whit_b K t) t)
        (whit_second_bracket (whit_theta_t (whit_theta n n_m) t) t)
      = Rgas * T * (Real.log (p_sat * K)
          + ((t - 1) / t) * Real.log ((n / n_m) ^ t / (1 - (n / n_m) ^ t))) := by
  obtain ⟨h3, _⟩ := whittaker_log_arg_pos p_sat K t n n_m hK ht hp hn hsat
  rw [whittaker_first_bracket p_sat K t hK ht.ne']
  unfold whit_d_lambda whit_RT whit_second_bracket whit_theta_t whit_theta
  simp only [Real.rpow_eq_pow]
  rw [Real.log_mul (mul_pos hp hK).ne' (Real.rpow_pos_of_pos h3 _).ne', Real.log_rpow h3]

/-! ### D. non-vacuity: the hypotheses are satisfiable -/

/-- NON-VACUITY: three temperatures, unordered and unevenly spaced, satisfy the hypotheses of `isosteric_recovers`. -/
example : (∀ T ∈ ([300, 250, 350] : List ℝ), 0 < T) ∧
    (∃ T ∈ ([300, 250, 350] : List ℝ), ∃ T' ∈ ([300, 250, 350] : List ℝ), T ≠ T') := by
  refine ⟨?_, 300, by simp, 250, by simp, by norm_num⟩
  intro T hT
  simp only [List.mem_cons, List.not_mem_nil, or_false] at hT
  rcases hT with rfl | rfl | rfl <;> norm_num

/-- NON-VACUITY: `isosteric_recovers` applied to concrete unordered temperatures. -/
example (c dH : ℝ) :
    isosteric_enthalpy (ols (([300, 250, 350] : List ℝ).map isosteric_inv_t)
      (([300, 250, 350] : List ℝ).map (fun T => c - dH * 1000 / (Rgas * T)))).1 = dH := by
  apply isosteric_recovers c dH [300, 250, 350] _ _ ⟨300, by simp, 250, by simp, by norm_num⟩ rfl
  intro T hT
  simp only [List.mem_cons, List.not_mem_nil, or_false] at hT
  rcases hT with rfl | rfl | rfl <;> norm_num

/-- NON-VACUITY: `langmuir_isosteric` at `K0 = 1/1000`, `dH = 20` kJ/mol, half coverage. -/
example :
    isosteric_enthalpy (ols (([300, 250, 350] : List ℝ).map isosteric_inv_t)
      ((([300, 250, 350] : List ℝ).map
        (fun T => Langmuir_pressure ((1 / 1000) * Real.exp (20 * 1000 / (Rgas * T))) 2 1)).map Real.log)).1 = 20 := by
  apply langmuir_isosteric (1 / 1000) 20 2 1 [300, 250, 350] _ (by norm_num) one_pos (by norm_num) _
    ⟨300, by simp, 250, by simp, by norm_num⟩ rfl
  intro T hT
  simp only [List.mem_cons, List.not_mem_nil, or_false] at hT
  rcases hT with rfl | rfl | rfl <;> norm_num

/-- NON-VACUITY: the guards of `whittaker_closed_form` / `whittaker_lambda_split` are satisfiable
(`K = 2`, `t = 1/2`, `p_sat = 100`, `n = 1`, `n_m = 3`). -/
example : (0 : ℝ) < 2 ∧ (0 : ℝ) < 1 / 2 ∧ (0 : ℝ) < 100 ∧ (0 : ℝ) < 1 ∧ (1 : ℝ) < 3 := by norm_num

/-- NON-VACUITY: the hypothesis of `ols_exact_distinct` on a concrete unordered list, and its conclusion. -/
example : ols ([3, 1, 2] : List ℝ) (([3, 1, 2] : List ℝ).map (fun x => 5 * x + 7)) = (5, 7) :=
  ols_exact_distinct 5 7 _ _ rfl ⟨3, by simp, 1, by simp, by norm_num⟩

end PgVerif.Props.C19
