/-
C19 — enthalpy methods recover the enthalpy built into consistent synthetic data.
(stub; theorems are being added)
-/
import PgVerif.Gen.CharR
import PgVerif.Model.Linear

namespace PgVerif.Props.C19
open PgVerif.Gen.CharR

/-- slope-to-enthalpy factor: a Clausius-Clapeyron slope `-dH*1000/R` gives back `dH` (kJ/mol) -/
theorem isosteric_enthalpy_of_slope (dH : ℝ) :
    isosteric_enthalpy (-(dH * 1000) / (207861565453831 / 25000000000000)) = dH := by
  unfold isosteric_enthalpy
  field_simp

end PgVerif.Props.C19
