/-
C08 — tie of the hand-written store model to the database schema of the CURRENT source.

`PgVerif.Gen.Schema` is regenerated on every run from utilities/sqlite_db_pragmas.py (the CREATE statements, executed by SQLite and
read back through its introspection pragmas) and from parsing/sqlite.py (the connection pragma of `with_connection`, the table names
in the statements of every public entry point).  `PgVerif.Spec.Schema` is the constraint set `PgVerif.Model.Store` relies on, written
by hand from the model.  Everything below is decided by kernel evaluation on the generated data, so any schema edit — a dropped
UNIQUE / NOT NULL / REFERENCES, a renamed table or column, another declared type, a DEFAULT, an ON DELETE / ON UPDATE action, a new
constraint, CHECK, trigger or index — makes a theorem of this file fail to compile.

No Mathlib.
-/
import PgVerif.Lemmas.SchemaTie

namespace PgVerif.C08
open PgVerif.Spec.Schema (Constraint Relied relied notModelled)
open SchemaTie

/-- **Every constraint the store model relies on is in the schema of the current source**: each NOT NULL / UNIQUE / FOREIGN KEY whose
violation a model statement (`insName`, `insAdsProp`, `insMatProp`, `insType3`, `insIsoType`, `insIso`, `insIsoProp`, `insIsoData`,
`delAds`, `delMat`, `delAdsType`, `delMatType`, `delIsoType`) answers with an IntegrityError is declared by the CREATE statements. -/
theorem model_constraints_in_schema : ∀ r ∈ relied, r.c ∈ schemaConstraints := by decide

/-- **Every constraint of the schema is accounted for**: each NOT NULL / UNIQUE / PRIMARY KEY / FOREIGN KEY of the generated schema is
either enforced by the model or listed in `Spec.Schema.notModelled` with the reason why no modelled operation can violate it.  A constraint
ADDED to the schema therefore breaks the tie as well. -/
theorem schema_constraints_modelled : ∀ c ∈ schemaConstraints, c ∈ reliedCs ∨ c ∈ notModelledCs := by decide

/-- the "not modelled" list has no stale entry -/
theorem not_modelled_in_schema : ∀ c ∈ notModelledCs, c ∈ schemaConstraints := by decide

/-- the two lists do not overlap: a constraint is either enforced by the model or excused, never both -/
theorem relied_not_excused : ∀ c ∈ reliedCs, c ∉ notModelledCs := by decide

/-- the comparison as one statement: the constraints of the schema are, up to order, exactly the constraints the model enforces
plus the explicitly excused ones -/
theorem schema_constraints_exactly (c : Constraint) : c ∈ schemaConstraints ↔ (c ∈ reliedCs ∨ c ∈ notModelledCs) :=
  ⟨schema_constraints_modelled c, fun h => h.elim
    (fun hc => by
      obtain ⟨r, hr, rfl⟩ := List.mem_map.mp hc
      exact model_constraints_in_schema r hr)
    (not_modelled_in_schema c)⟩

/-- **Tables and columns**: the generated schema has exactly the tables the model's `Db` stands for, each with exactly the expected
columns in the expected order: name, declared type (affinity), NOT NULL flag, primary-key position and no DEFAULT. -/
theorem schema_columns_as_modelled :
    Gen.Schema.tables.map (fun t => (t.name, columnsOf t)) = Spec.Schema.tables := by decide

/-- every `Db` field of the model is the content of an existing table and of existing columns of that table -/
theorem model_fields_in_schema :
    ∀ f ∈ Spec.Schema.fields, ∃ t ∈ Gen.Schema.tables, t.name = f.2.1 ∧ ∀ c ∈ f.2.2, c ∈ t.columns.map (·.name) := by decide

/-- **No further constraint machinery**: apart from AUTOINCREMENT on the surrogate keys the CREATE statements carry no CHECK, COLLATE,
GENERATED, ON CONFLICT, DEFERRABLE, WITHOUT ROWID, STRICT, TEMP or VIRTUAL clause, and the schema has no trigger, view or explicit index. -/
theorem schema_no_other_constraints :
    Gen.Schema.tables.map (fun t => (t.name, t.extras)) = Spec.Schema.extras ∧ Gen.Schema.otherObjects = [] := by decide

/-- **Foreign keys are enforced and never cascade**: `with_connection` switches enforcement on for every connection (the first
statement of the model's `runOp`), and every foreign key of the schema has ON DELETE NO ACTION and ON UPDATE NO ACTION — so deleting
(or re-keying) a row that is still referenced is refused, as `delAds`, `delMat`, `delAdsType`, `delMatType`, `delIsoType` say, and
never removes or rewrites the referencing rows. -/
theorem foreign_keys_enforced_not_cascaded :
    Spec.Schema.connPragma ∈ Gen.Schema.connPragmas ∧
    ∀ t ∈ Gen.Schema.tables, ∀ f ∈ t.fks, f.onDelete = "NO ACTION" ∧ f.onUpdate = "NO ACTION" := by decide

/-- every foreign key refers to an existing table and to a column list that is a key (PRIMARY KEY or UNIQUE) of that table — otherwise
SQLite answers every write on the child table with "foreign key mismatch" (an OperationalError) instead of checking the reference -/
theorem foreign_key_targets_are_keys :
    ∀ t ∈ Gen.Schema.tables, ∀ f ∈ t.fks, ∃ p ∈ Gen.Schema.tables, p.name = f.refTable ∧ f.refCols ∈ p.uniques := by decide

/-- the referential-integrity invariant of the model (`Db.wellFormed`, the "no orphans" clauses) is, clause by clause, a foreign key
of the schema without cascading action -/
theorem wellFormed_refs_are_foreign_keys :
    ∀ r ∈ Spec.Schema.wellFormedRefs, hasPlainFk r.1 r.2.1 r.2.2.1 r.2.2.2 = true := by decide

/-- **The statements of every public entry point address the tables the model says**: for each `*_to_db / *_from_db / *_delete_db`
function of parsing/sqlite.py the table names in its statements (including the entry points it calls on the shared cursor) are the
ones of the model operation that mirrors it — and there is no public entry point the model does not know. -/
theorem op_tables_as_modelled :
    Gen.Schema.opTables = Spec.Schema.opTables.map (fun e => (e.1, e.2.2)) := by decide

/-- every table an entry point addresses exists in the schema, except for the isotherm-property-type entry points -/
theorem op_tables_exist :
    ∀ e ∈ Gen.Schema.opTables, ∀ t ∈ e.2,
      t ∈ tableNames ∨ (e.1 ∈ Spec.Schema.isoPropTypeEntryPoints ∧ t = "isotherm_properties_type") := by decide

/-- **finding S39, from the source**: the three entry points for isotherm property types address the table `isotherm_properties_type`
and nothing else, and the schema creates no such table — every call is answered by SQLite with `OperationalError: no such table`.
This is what justifies modelling them as `Op.isoPropTypeOp`, a statement that always fails (`isoPropType_other_error`). -/
theorem isoPropType_table_absent :
    "isotherm_properties_type" ∉ tableNames ∧
    Spec.Schema.isoPropTypeEntryPoints =
      ["isotherm_property_type_delete_db", "isotherm_property_type_to_db", "isotherm_property_types_from_db"] ∧
    ∀ fn ∈ Spec.Schema.isoPropTypeEntryPoints, Gen.Schema.opTables.lookup fn = some ["isotherm_properties_type"] := by decide

/-! non-vacuity: the lists compared above are the full ones -/
example : relied.length = 26 ∧ notModelled.length = 30 ∧ schemaConstraints.length = 56 := by decide
example : Gen.Schema.tables.length = 10 ∧ Gen.Schema.opTables.length = 21 := by decide
example : Constraint.unique "adsorbates" ["name"] ∈ schemaConstraints := by decide
example : Constraint.foreignKey "isotherms" ["material"] "materials" ["name"] ∈ schemaConstraints := by decide

end PgVerif.C08
