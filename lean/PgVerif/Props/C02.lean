/-
C02 — permanent isotherm conversions stay consistent over any conversion history.

Property theorems about the hand-written executable model `Model/IsoState.lean` of
`PointIsotherm.convert`, `convert_pressure`, `convert_loading`, `convert_material` (core/pointisotherm.py),
`convert_temperature` and the constructor's label checks (core/baseisotherm.py), which is tied to the code
by the driver's correspondence run.  The unit conversions underneath are `Model/Units.lean` over the
*generated* tables; their physical correctness is C01 (`Lemmas/Units.lean`, `Props/C01.lean`) and is reused here.

The model state `Iso α` holds only what a conversion can touch: labels, the pressure and loading columns,
the temperature and the two interpolator-cache flags.  Branch marks, extra data columns and metadata are
NOT part of the model state: no operation of the model can read or write them, which is the model's way of
saying "never altered" (the correspondence run checks that on the Python side).

Contents (helpers are `lemma`, properties are `theorem`):
  A. structure, any `Ctx`, any `Iso`, ANY string arguments, any field:
       `convertPressure/Loading/Material/Temperature_refused_unchanged`, `step_single_refused_unchanged`,
       `convertAll_refused_prefix`, `step_rows_scaled`, `step_lengths`, `run_lengths`,
       `successful_conversion_resets_caches`, `step_caches_monotone`, `rewriting_branch_resets_caches`.
  B. typed single steps (field of characteristic 0, context `⟨some ps, envOf a mat, true⟩`, `ps ≠ 0`, consistent
     non-zero adsorbate / material constants): `validLabels_of_valid`, `convertPressure_typed`, `convertLoading_typed`,
     `convertMaterial_typed`, `convertTemperature_typed`, and their conservation form `step_typed` (`Conserved`).
  C. histories: `history_invariant`, `history_direct`, `back_to_start`, `refusals_interleaved`.
  D. completeness of validation (full strength, all four quantities): `step_any_args`; and as consequences
     `step_any_op_good` (also the combined `convert(...)`, also when it is refused half-way) and `run_any_history`.
  Non-vacuity examples over ℚ at the end.
-/
import PgVerif.Props.C01
import PgVerif.Model.IsoState

set_option linter.unusedSectionVars false
set_option linter.unusedSimpArgs false
set_option linter.unusedVariables false
set_option linter.unusedTactic false
set_option linter.unreachableTactic false

namespace PgVerif.C02
open PgVerif.Model PgVerif.Units
open PgVerif.Spec (LB MB Ads Mat gL gM PRep LRep MRep TRep physScale fac)

variable {α : Type} [Field α]

/-! ## A. Structure: refusals, row order, caches (any context, any state, any string arguments) -/

/-! ### helpers -/

lemma map_mul_one (l : List α) : l.map (· * (1 : α)) = l := by
  simp

/-- what one call may do to the state: columns are scaled, caches are only ever cleared, and a change of a
column clears both caches -/
structure Footprint (s s' : Iso α) : Prop where
  scaled : ∃ f g : α, s'.ps = s.ps.map (· * f) ∧ s'.ls = s.ls.map (· * g)
  cachesMono : (s.lcache = false → s'.lcache = false) ∧ (s.pcache = false → s'.pcache = false)
  changed : (s'.ps ≠ s.ps ∨ s'.ls ≠ s.ls) → s'.lcache = false ∧ s'.pcache = false

lemma Footprint.refl (s : Iso α) : Footprint s s :=
  ⟨⟨1, 1, by simp, by simp⟩, ⟨id, id⟩, fun h => by rcases h with h | h <;> exact absurd rfl h⟩

lemma Footprint.trans {s s' s'' : Iso α} (h1 : Footprint s s') (h2 : Footprint s' s'') : Footprint s s'' := by
  obtain ⟨⟨f1, g1, hp1, hl1⟩, ⟨ml1, mp1⟩, c1⟩ := h1
  obtain ⟨⟨f2, g2, hp2, hl2⟩, ⟨ml2, mp2⟩, c2⟩ := h2
  refine ⟨⟨f1 * f2, g1 * g2, ?_, ?_⟩, ⟨fun h => ml2 (ml1 h), fun h => mp2 (mp1 h)⟩, ?_⟩
  · rw [hp2, hp1, List.map_map]; congr 1; funext x; simp [mul_assoc]
  · rw [hl2, hl1, List.map_map]; congr 1; funext x; simp [mul_assoc]
  · intro h
    by_cases h' : s''.ps ≠ s'.ps ∨ s''.ls ≠ s'.ls
    · exact c2 h'
    · have e1 : s''.ps = s'.ps := by by_contra hne; exact h' (Or.inl hne)
      have e2 : s''.ls = s'.ls := by by_contra hne; exact h' (Or.inr hne)
      rw [e1, e2] at h
      obtain ⟨a, b⟩ := c1 h
      exact ⟨ml2 a, mp2 b⟩

/-- `convert_pressure` after its two argument defaults have been resolved -/
def pCore (c : Ctx α) (s : Iso α) (mode' : String) (unit' : Option String) : Iso α × Outcome :=
  if mode' = s.lab.pmode ∧ unit' = s.lab.punit then (s, .ok)
  else
    match cPressure c.psat c.tempOk (1 : α) (some s.lab.pmode) (some mode') s.lab.punit unit' with
    | .error _ => (s, .err .calc)
    | .ok f =>
      let pu := if unit' ≠ s.lab.punit ∧ mode' = "absolute" then unit' else none
      ({ s with ps := s.ps.map (· * f), lab := { s.lab with pmode := mode', punit := pu }, lcache := false, pcache := false }, .ok)

def lCore (c : Ctx α) (s : Iso α) (basis' : String) (unit' : Option String) : Iso α × Outcome :=
  if basis' = s.lab.lbasis ∧ unit' = s.lab.lunit then (s, .ok)
  else if isFrac s.lab.lbasis && basis' = s.lab.lbasis then (s, .ok)
  else
    match cLoading c.env (1 : α) (some s.lab.lbasis) (some basis') s.lab.lunit unit' (some s.lab.mbasis) s.lab.munit with
    | .error e => (s, .err e)
    | .ok f =>
      let lu := if isFrac basis' then none else unit'
      ({ s with ls := s.ls.map (· * f), lab := { s.lab with lbasis := basis', lunit := lu }, lcache := false, pcache := false }, .ok)

def mCore (c : Ctx α) (s : Iso α) (basis' : String) (unit' : Option String) : Iso α × Outcome :=
  if basis' = s.lab.mbasis ∧ unit' = s.lab.munit then (s, .ok)
  else if isFrac s.lab.lbasis && basis' = s.lab.mbasis then
    match cMaterial c.env (1 : α) (some s.lab.mbasis) (some basis') s.lab.munit unit' with
    | .error e => (s, .err e)
    | .ok _ => ({ s with lab := { s.lab with munit := unit' } }, .ok)
  else
    match cMaterial c.env (1 : α) (some s.lab.mbasis) (some basis') s.lab.munit unit' with
    | .error e => (s, .err e)
    | .ok f1 =>
      let r2 : Except Err α :=
        if isFrac s.lab.lbasis then
          cLoading c.env (1 : α) (some (volLiq s.lab.mbasis)) (some (volLiq basis')) s.lab.munit unit' none none
        else .ok 1
      match r2 with
      | .error e => (s, .err e)
      | .ok f2 =>
        ({ s with ls := s.ls.map (· * f1 * f2), lab := { s.lab with mbasis := basis', munit := unit' },
                  lcache := false, pcache := false }, .ok)

/-- the resolved second argument: an omitted (falsy) unit keeps the current one only if the mode/basis stays -/
def unitArg (u : Option String) (same : Bool) (cur : Option String) : Option String :=
  if !truthy u && same then cur else u

lemma convertPressure_core (c : Ctx α) (s : Iso α) (m u : Option String) :
    convertPressure c s m u =
      pCore c s (orCurrent m s.lab.pmode) (unitArg u (orCurrent m s.lab.pmode = s.lab.pmode) s.lab.punit) := rfl

lemma convertLoading_core (c : Ctx α) (s : Iso α) (b u : Option String) :
    convertLoading c s b u =
      lCore c s (orCurrent b s.lab.lbasis) (unitArg u (orCurrent b s.lab.lbasis = s.lab.lbasis) s.lab.lunit) := rfl

lemma convertMaterial_core (c : Ctx α) (s : Iso α) (b u : Option String) :
    convertMaterial c s b u =
      mCore c s (orCurrent b s.lab.mbasis) (unitArg u (orCurrent b s.lab.mbasis = s.lab.mbasis) s.lab.munit) := rfl

lemma pCore_footprint (c : Ctx α) (s : Iso α) (m : String) (u : Option String) :
    Footprint s (pCore c s m u).1 := by
  unfold pCore
  split
  · exact Footprint.refl s
  · split
    · exact Footprint.refl s
    · rename_i f _
      exact ⟨⟨f, 1, rfl, by simp⟩, ⟨fun _ => rfl, fun _ => rfl⟩, fun _ => ⟨rfl, rfl⟩⟩

lemma lCore_footprint (c : Ctx α) (s : Iso α) (b : String) (u : Option String) :
    Footprint s (lCore c s b u).1 := by
  unfold lCore
  split
  · exact Footprint.refl s
  · split
    · exact Footprint.refl s
    · split
      · exact Footprint.refl s
      · rename_i f _
        exact ⟨⟨1, f, by simp, rfl⟩, ⟨fun _ => rfl, fun _ => rfl⟩, fun _ => ⟨rfl, rfl⟩⟩

lemma mCore_footprint (c : Ctx α) (s : Iso α) (b : String) (u : Option String) :
    Footprint s (mCore c s b u).1 := by
  unfold mCore
  split
  · exact Footprint.refl s
  · split
    · split
      · exact Footprint.refl s
      · exact ⟨⟨1, 1, by simp, by simp⟩, ⟨id, id⟩, fun h => by rcases h with h | h <;> exact absurd rfl h⟩
    · split
      · exact Footprint.refl s
      · simp only
        split
        · exact Footprint.refl s
        · rename_i f1 _ _ f2 _
          exact ⟨⟨1, f1 * f2, by simp, by simp [mul_assoc]⟩, ⟨fun _ => rfl, fun _ => rfl⟩, fun _ => ⟨rfl, rfl⟩⟩

lemma convertPressure_footprint (c : Ctx α) (s : Iso α) (m u : Option String) :
    Footprint s (convertPressure c s m u).1 := by
  rw [convertPressure_core]; exact pCore_footprint ..

lemma convertLoading_footprint (c : Ctx α) (s : Iso α) (b u : Option String) :
    Footprint s (convertLoading c s b u).1 := by
  rw [convertLoading_core]; exact lCore_footprint ..

lemma convertMaterial_footprint (c : Ctx α) (s : Iso α) (b u : Option String) :
    Footprint s (convertMaterial c s b u).1 := by
  rw [convertMaterial_core]; exact mCore_footprint ..

lemma convertTemperature_footprint (s : Iso α) (u : Option String) :
    Footprint s (convertTemperature s u).1 := by
  unfold convertTemperature
  split
  · exact Footprint.refl s
  · exact ⟨⟨1, 1, by simp, by simp⟩, ⟨id, id⟩, fun h => by rcases h with h | h <;> exact absurd rfl h⟩

lemma pCore_refused (c : Ctx α) (s : Iso α) (m : String) (u : Option String)
    (h : (pCore c s m u).2 ≠ .ok) : (pCore c s m u).1 = s := by
  unfold pCore at h ⊢
  split
  · rfl
  · rename_i hne
    simp only [hne, if_false] at h
    split
    · rfl
    · rename_i f hf; simp [hf] at h

lemma lCore_refused (c : Ctx α) (s : Iso α) (b : String) (u : Option String)
    (h : (lCore c s b u).2 ≠ .ok) : (lCore c s b u).1 = s := by
  unfold lCore at h ⊢
  split
  · rfl
  · rename_i hne
    simp only [hne, if_false] at h
    split
    · rfl
    · rename_i hne2
      simp only [hne2] at h
      split
      · rfl
      · rename_i f hf; simp [hf] at h

lemma mCore_refused (c : Ctx α) (s : Iso α) (b : String) (u : Option String)
    (h : (mCore c s b u).2 ≠ .ok) : (mCore c s b u).1 = s := by
  unfold mCore at h ⊢
  split
  · rfl
  · rename_i hne
    simp only [hne, if_false] at h
    split
    · rename_i hv
      simp only [hv, if_true] at h
      split
      · rfl
      · rename_i f hf; simp [hf] at h
    · rename_i hv
      simp only [hv] at h
      split
      · rfl
      · rename_i f1 hf1
        simp only [hf1] at h ⊢
        split
        · rfl
        · rename_i f2 hf2; simp [hf2] at h

/-! ### A.1 a refused single-quantity conversion changes nothing -/

theorem convertPressure_refused_unchanged (c : Ctx α) (s : Iso α) (a b : Option String)
    (h : (convertPressure c s a b).2 ≠ .ok) : (convertPressure c s a b).1 = s := by
  rw [convertPressure_core] at h ⊢; exact pCore_refused _ _ _ _ h

theorem convertLoading_refused_unchanged (c : Ctx α) (s : Iso α) (a b : Option String)
    (h : (convertLoading c s a b).2 ≠ .ok) : (convertLoading c s a b).1 = s := by
  rw [convertLoading_core] at h ⊢; exact lCore_refused _ _ _ _ h

theorem convertMaterial_refused_unchanged (c : Ctx α) (s : Iso α) (a b : Option String)
    (h : (convertMaterial c s a b).2 ≠ .ok) : (convertMaterial c s a b).1 = s := by
  rw [convertMaterial_core] at h ⊢; exact mCore_refused _ _ _ _ h

theorem convertTemperature_refused_unchanged (s : Iso α) (u : Option String)
    (h : (convertTemperature s u).2 ≠ .ok) : (convertTemperature s u).1 = s := by
  unfold convertTemperature at h ⊢
  cases hc : cTemperature s.temp s.lab.tunit u with
  | error e => simp [hc]
  | ok t => simp [hc] at h

/-- every single-quantity call: refused ⇒ state unchanged -/
theorem step_single_refused_unchanged (c : Ctx α) (s : Iso α) (op : Op)
    (hop : ∀ pm pu lb lu mb mu, op ≠ .all pm pu lb lu mb mu)
    (h : (step c s op).2 ≠ .ok) : (step c s op).1 = s := by
  cases op with
  | pressure m u => exact convertPressure_refused_unchanged c s m u h
  | loading b u => exact convertLoading_refused_unchanged c s b u h
  | material b u => exact convertMaterial_refused_unchanged c s b u h
  | temperature u => exact convertTemperature_refused_unchanged s u h
  | all pm pu lb lu mb mu => exact absurd rfl (hop pm pu lb lu mb mu)

/-! ### A.2 a refused combined conversion leaves exactly the completed prefix -/

/-- the part of `convert(...)` after the pressure step -/
def convTail (c : Ctx α) (s1 : Iso α) (lb lu mb mu : Option String) : Iso α × Outcome :=
  let r2 := if truthy mb || truthy mu then convertMaterial c s1 mb mu else (s1, .ok)
  match r2 with
  | (s2, .err e) => (s2, .err e)
  | (s2, .ok) => if truthy lb || truthy lu then convertLoading c s2 lb lu else (s2, .ok)

lemma convertAll_eq_tail (c : Ctx α) (s : Iso α) (pm pu lb lu mb mu : Option String) :
    convertAll c s pm pu lb lu mb mu =
      match (if truthy pm || truthy pu then convertPressure c s pm pu else (s, .ok)) with
      | (s1, .err e) => (s1, .err e)
      | (s1, .ok) => convTail c s1 lb lu mb mu := rfl

lemma convTail_refused (c : Ctx α) (s1 : Iso α) (lb lu mb mu : Option String) (e : Err)
    (h : (convTail c s1 lb lu mb mu).2 = .err e) :
    let doM := truthy mb || truthy mu
    let doL := truthy lb || truthy lu
    let s2 := if doM then (convertMaterial c s1 mb mu).1 else s1
    let okM := doM = false ∨ (convertMaterial c s1 mb mu).2 = .ok
    (doM = true ∧ (convertMaterial c s1 mb mu).2 = .err e ∧ (convertMaterial c s1 mb mu).1 = s1 ∧
      (convTail c s1 lb lu mb mu).1 = s1) ∨
    (okM ∧ doL = true ∧ (convertLoading c s2 lb lu).2 = .err e ∧ (convertLoading c s2 lb lu).1 = s2 ∧
      (convTail c s1 lb lu mb mu).1 = s2) := by
  intro doM doL s2 okM
  have hM := convertMaterial_refused_unchanged c s1 mb mu
  have hL := convertLoading_refused_unchanged c s2 lb lu
  -- the state and outcome after the (optional) material step
  have key : ∀ (sm : Iso α) (om : Outcome),
      (if truthy mb || truthy mu then convertMaterial c s1 mb mu else (s1, .ok)) = (sm, om) →
      (om = .ok → s2 = sm ∧ okM) ∧ (∀ e', om = .err e' → doM = true ∧ convertMaterial c s1 mb mu = (sm, .err e')) := by
    intro sm om hr
    by_cases dM : doM = true
    · have hdm : (truthy mb || truthy mu) = true := dM
      simp only [hdm, if_true] at hr
      refine ⟨fun ho => ⟨?_, Or.inr ?_⟩, fun e' he => ⟨dM, ?_⟩⟩
      · simp only [s2, dM, if_true, hr]
      · rw [hr, ho]
      · rw [hr, he]
    · have hdm : (truthy mb || truthy mu) = false := by simpa [doM] using dM
      simp only [hdm, Bool.false_eq_true, if_false, Prod.mk.injEq] at hr
      obtain ⟨rfl, rfl⟩ := hr
      refine ⟨fun _ => ⟨?_, Or.inl (by simpa [doM] using hdm)⟩, fun e' he => by cases he⟩
      simp [s2, doM, hdm]
  unfold convTail at h ⊢
  simp only at h ⊢
  cases hr : (if truthy mb || truthy mu then convertMaterial c s1 mb mu else (s1, .ok)) with
  | mk sm om =>
  obtain ⟨kok, kerr⟩ := key sm om hr
  rw [hr] at h
  cases om with
  | err e' =>
    left
    obtain ⟨dM, hm⟩ := kerr e' rfl
    simp only at h ⊢
    cases h
    rw [hm] at hM ⊢
    exact ⟨dM, rfl, hM (by simp), hM (by simp)⟩
  | ok =>
    right
    obtain ⟨hs2, hokM⟩ := kok rfl
    simp only at h ⊢
    by_cases dL : doL = true
    · have hdl : (truthy lb || truthy lu) = true := dL
      simp only [hdl, if_true] at h ⊢
      rw [hs2] at hL ⊢
      exact ⟨hokM, dL, h, hL (by rw [h]; simp), hL (by rw [h]; simp)⟩
    · have hdl : (truthy lb || truthy lu) = false := by simpa [doL] using dL
      simp [hdl] at h

/-- `convert(...)` runs pressure, then material, then loading (each only if one of its two arguments is truthy).
If it is refused with `e`, exactly one of the three sub-steps was the refusing one: all earlier sub-steps
returned normally (or were skipped), the refusing sub-step itself changed nothing, and the resulting state is
the state reached just before it. -/
theorem convertAll_refused_prefix (c : Ctx α) (s : Iso α) (pm pu lb lu mb mu : Option String) (e : Err)
    (h : (convertAll c s pm pu lb lu mb mu).2 = .err e) :
    let doP := truthy pm || truthy pu
    let doM := truthy mb || truthy mu
    let doL := truthy lb || truthy lu
    let s1 := if doP then (convertPressure c s pm pu).1 else s
    let s2 := if doM then (convertMaterial c s1 mb mu).1 else s1
    let okP := doP = false ∨ (convertPressure c s pm pu).2 = .ok
    let okM := doM = false ∨ (convertMaterial c s1 mb mu).2 = .ok
    -- refused by the pressure step: nothing changed at all
    (doP = true ∧ (convertPressure c s pm pu).2 = .err e ∧ (convertPressure c s pm pu).1 = s ∧
      (convertAll c s pm pu lb lu mb mu).1 = s) ∨
    -- refused by the material step: exactly the pressure step's effect
    (okP ∧ doM = true ∧ (convertMaterial c s1 mb mu).2 = .err e ∧ (convertMaterial c s1 mb mu).1 = s1 ∧
      (convertAll c s pm pu lb lu mb mu).1 = s1) ∨
    -- refused by the loading step: exactly the effect of pressure then material
    (okP ∧ okM ∧ doL = true ∧ (convertLoading c s2 lb lu).2 = .err e ∧ (convertLoading c s2 lb lu).1 = s2 ∧
      (convertAll c s pm pu lb lu mb mu).1 = s2) := by
  intro doP doM doL s1 s2 okP okM
  have hP := convertPressure_refused_unchanged c s pm pu
  rw [convertAll_eq_tail] at h ⊢
  have key : ∀ (sp : Iso α) (op : Outcome),
      (if truthy pm || truthy pu then convertPressure c s pm pu else (s, .ok)) = (sp, op) →
      (op = .ok → s1 = sp ∧ okP) ∧ (∀ e', op = .err e' → doP = true ∧ convertPressure c s pm pu = (sp, .err e')) := by
    intro sp op hr
    by_cases dP : doP = true
    · have hdp : (truthy pm || truthy pu) = true := dP
      simp only [hdp, if_true] at hr
      refine ⟨fun ho => ⟨?_, Or.inr ?_⟩, fun e' he => ⟨dP, ?_⟩⟩
      · simp only [s1, dP, if_true, hr]
      · rw [hr, ho]
      · rw [hr, he]
    · have hdp : (truthy pm || truthy pu) = false := by simpa [doP] using dP
      simp only [hdp, Bool.false_eq_true, if_false, Prod.mk.injEq] at hr
      obtain ⟨rfl, rfl⟩ := hr
      refine ⟨fun _ => ⟨?_, Or.inl (by simpa [doP] using hdp)⟩, fun e' he => by cases he⟩
      simp [s1, doP, hdp]
  cases hr : (if truthy pm || truthy pu then convertPressure c s pm pu else (s, .ok)) with
  | mk sp op =>
  obtain ⟨kok, kerr⟩ := key sp op hr
  rw [hr] at h
  cases op with
  | err e' =>
    left
    obtain ⟨dP, hp⟩ := kerr e' rfl
    simp only at h ⊢
    cases h
    rw [hp] at hP ⊢
    exact ⟨dP, rfl, hP (by simp), hP (by simp)⟩
  | ok =>
    right
    obtain ⟨hs1, hokP⟩ := kok rfl
    simp only at h ⊢
    have ht := convTail_refused c sp lb lu mb mu e h
    simp only at ht
    have e2 : s2 = (if (truthy mb || truthy mu) = true then (convertMaterial c sp mb mu).1 else sp) := by
      simp only [s2, hs1, doM]
    rw [hs1, e2]
    rcases ht with ⟨a, b, c', d⟩ | ⟨a, b, c', d, f⟩
    · exact Or.inl ⟨hokP, a, b, c', d⟩
    · exact Or.inr ⟨hokP, by simpa [okM, hs1, doM] using a, b, c', d, f⟩

/-! ### A.3 rows are only ever rescaled; a rewritten column clears the caches -/

lemma convTail_footprint (c : Ctx α) (s1 : Iso α) (lb lu mb mu : Option String) :
    Footprint s1 (convTail c s1 lb lu mb mu).1 := by
  unfold convTail
  simp only
  have hM : Footprint s1 (if truthy mb || truthy mu then convertMaterial c s1 mb mu else (s1, .ok)).1 := by
    split
    · exact convertMaterial_footprint ..
    · exact Footprint.refl s1
  cases hr : (if truthy mb || truthy mu then convertMaterial c s1 mb mu else (s1, .ok)) with
  | mk sm om =>
  rw [hr] at hM
  cases om with
  | err e => exact hM
  | ok =>
    simp only
    split
    · exact hM.trans (convertLoading_footprint ..)
    · exact hM

lemma convertAll_footprint (c : Ctx α) (s : Iso α) (pm pu lb lu mb mu : Option String) :
    Footprint s (convertAll c s pm pu lb lu mb mu).1 := by
  rw [convertAll_eq_tail]
  have hP : Footprint s (if truthy pm || truthy pu then convertPressure c s pm pu else (s, .ok)).1 := by
    split
    · exact convertPressure_footprint ..
    · exact Footprint.refl s
  cases hr : (if truthy pm || truthy pu then convertPressure c s pm pu else (s, .ok)) with
  | mk sp op =>
  rw [hr] at hP
  cases op with
  | err e => exact hP
  | ok => exact hP.trans (convTail_footprint ..)

lemma step_footprint (c : Ctx α) (s : Iso α) (op : Op) : Footprint s (step c s op).1 := by
  cases op with
  | pressure m u => exact convertPressure_footprint c s m u
  | loading b u => exact convertLoading_footprint c s b u
  | material b u => exact convertMaterial_footprint c s b u
  | temperature u => exact convertTemperature_footprint s u
  | all pm pu lb lu mb mu => exact convertAll_footprint c s pm pu lb lu mb mu

/-- every call — single or combined, successful or refused, any arguments — multiplies the whole pressure column
by one factor and the whole loading column by one factor: rows are never added, dropped or reordered.
(Branch marks, extra data columns and metadata are not part of the model state: no op can touch them.) -/
theorem step_rows_scaled (c : Ctx α) (s : Iso α) (op : Op) :
    ∃ f g : α, (step c s op).1.ps = s.ps.map (· * f) ∧ (step c s op).1.ls = s.ls.map (· * g) :=
  (step_footprint c s op).scaled

theorem step_lengths (c : Ctx α) (s : Iso α) (op : Op) :
    (step c s op).1.ps.length = s.ps.length ∧ (step c s op).1.ls.length = s.ls.length := by
  obtain ⟨f, g, h1, h2⟩ := step_rows_scaled c s op
  rw [h1, h2]; simp

theorem run_lengths (c : Ctx α) (s : Iso α) (ops : List Op) :
    (run c s ops).ps.length = s.ps.length ∧ (run c s ops).ls.length = s.ls.length := by
  induction ops generalizing s with
  | nil => exact ⟨rfl, rfl⟩
  | cons op ops ih =>
    have h := step_lengths c s op
    have := ih (step c s op).1
    simp only [run, List.foldl_cons] at this ⊢
    exact ⟨this.1.trans h.1, this.2.trans h.2⟩

/-- whenever a call (any op, any arguments, successful or — for the combined call — refused half-way) has
rewritten the pressure or the loading column, both cached interpolators have been dropped.
(Stronger than asked: no `.ok` hypothesis is needed.) -/
theorem successful_conversion_resets_caches (c : Ctx α) (s : Iso α) (op : Op)
    (h : (step c s op).1.ps ≠ s.ps ∨ (step c s op).1.ls ≠ s.ls) :
    (step c s op).1.lcache = false ∧ (step c s op).1.pcache = false :=
  (step_footprint c s op).changed h

/-- no call ever *creates* a cache: once cleared, the caches stay cleared -/
theorem step_caches_monotone (c : Ctx α) (s : Iso α) (op : Op) :
    (s.lcache = false → (step c s op).1.lcache = false) ∧ (s.pcache = false → (step c s op).1.pcache = false) :=
  (step_footprint c s op).cachesMono

/-- branch-level form: in every branch of the three data conversions that rewrites a column
(i.e. that is not an early return, a refusal or the "virtual" material-unit relabelling) the caches are cleared -/
theorem rewriting_branch_resets_caches (c : Ctx α) (s : Iso α) (m : String) (u : Option String) :
    (∀ f, ¬(m = s.lab.pmode ∧ u = s.lab.punit) →
        cPressure c.psat c.tempOk (1 : α) (some s.lab.pmode) (some m) s.lab.punit u = .ok f →
        (pCore c s m u).1.lcache = false ∧ (pCore c s m u).1.pcache = false ∧ (pCore c s m u).1.ps = s.ps.map (· * f)) ∧
    (∀ f, ¬(m = s.lab.lbasis ∧ u = s.lab.lunit) → ¬((isFrac s.lab.lbasis && m = s.lab.lbasis) = true) →
        cLoading c.env (1 : α) (some s.lab.lbasis) (some m) s.lab.lunit u (some s.lab.mbasis) s.lab.munit = .ok f →
        (lCore c s m u).1.lcache = false ∧ (lCore c s m u).1.pcache = false ∧ (lCore c s m u).1.ls = s.ls.map (· * f)) := by
  refine ⟨fun f h1 h2 => ?_, fun f h1 h2 h3 => ?_⟩
  · simp [pCore, h1, h2]
  · simp only [Bool.and_eq_true, decide_eq_true_eq] at h2
    simp [lCore, h1, h2, h3]

/-! ## B. Typed single-step specifications -/

variable [CharZero α]

/-- a full representation of a point isotherm: pressure, loading, material, temperature -/
structure Rep where
  p : PRep
  l : LRep
  m : MRep
  t : TRep

/-- labels of a pressure representation (relative modes store no unit) -/
def pLabel : PRep → String × Option String
  | .abs u => ("absolute", some u) | .rel _ => ("relative", none) | .relp _ => ("relative%", none)

/-- stored temperature label (every Celsius spelling is normalised to `°C`) -/
def tLabel : TRep → Option String
  | .K => some "K" | .C _ => some "°C"

/-- the labels that name a representation -/
def labelsOf (r : Rep) : Labels :=
  { pmode := (pLabel r.p).1, punit := (pLabel r.p).2,
    lbasis := r.l.basis, lunit := r.l.unit,        -- `.phys b u ↦ (b.name, some u)`, `.frac ↦ ("fraction", none)`, `.pct ↦ ("percent", none)`
    mbasis := r.m.b.name, munit := some r.m.u,
    tunit := tLabel r.t }

/-- the representation is supported: all three scales exist w.r.t. the generated tables, the temperature scale is
K or the normalised `°C` -/
def Rep.Valid (ps : α) (a : Ads α) (mat : Mat α) (r : Rep) : Prop :=
  (r.p.scale Gen.pressureUnits ps).isSome ∧ (r.l.scale Gen.unitTable a r.m).isSome ∧
  (r.m.grams Gen.unitTable mat).isSome ∧ (r.t = .K ∨ r.t = .C "°C")

/-- Pa per stored pressure value / mol adsorbate per stored loading value / gram material per material unit
(total versions of the scales; under `Rep.Valid` they are the actual, non-zero scales) -/
def spOf (ps : α) (p : PRep) : α := (p.scale Gen.pressureUnits ps).getD 0
def slOf (a : Ads α) (l : LRep) (m : MRep) : α := (l.scale Gen.unitTable a m).getD 0
def gmOf (mat : Mat α) (m : MRep) : α := (m.grams Gen.unitTable mat).getD 0

/-- canonical content of one stored pressure: Pa -/
def canonP (ps : α) (r : Rep) (v : α) : α := v * spOf ps r.p
/-- canonical content of one stored loading: mol adsorbate per gram material -/
def canonL (a : Ads α) (mat : Mat α) (r : Rep) (v : α) : α := v * slOf a r.l r.m / gmOf mat r.m
/-- canonical content of the stored temperature: K -/
def kelvin (r : Rep) (v : α) : α := r.t.toK v

/-! ### helpers -/

lemma fac_isSome_lookup {t : List (String × Nat × Nat)} {u : String} (h : (fac t u : Option α).isSome) :
    (t.lookup u).isSome := by
  unfold fac at h; simpa using h

lemma physScale_isSome_lookup {a : Ads α} {b : LB} {u : String} (h : (physScale Gen.unitTable a b u).isSome) :
    ((Gen.unitTable b.table).lookup u).isSome := by
  unfold physScale at h
  by_cases hu : u = ""
  · simp [hu] at h
  · simp only [hu, if_false, Option.isSome_map] at h
    exact fac_isSome_lookup h

lemma grams_isSome_lookup {mat : Mat α} {m : MRep} (h : (m.grams Gen.unitTable mat).isSome) :
    ((Gen.unitTable m.b.table).lookup m.u).isSome := by
  unfold MRep.grams at h
  by_cases hu : m.u = ""
  · simp [hu] at h
  · simp only [hu, if_false, Option.isSome_map] at h
    exact fac_isSome_lookup h

/-- **labels name a representation the constructor accepts** -/
theorem validLabels_of_valid (ps : α) (a : Ads α) (mat : Mat α) (r : Rep) (h : Rep.Valid ps a mat r) :
    validLabels (labelsOf r) = true := by
  obtain ⟨hp, hl, hm, ht⟩ := h
  obtain ⟨p, l, m, t⟩ := r
  obtain ⟨mb, mu⟩ := m
  have hmu := grams_isSome_lookup hm
  simp only at hp hl hm ht hmu
  have hP : (Gen.pressureMode.lookup (pLabel p).1).isSome = true := by cases p <;> rfl
  have hL : (Gen.loadingMode.lookup l.basis).isSome = true := by
    cases l with
    | phys b u => cases b <;> rfl
    | frac => rfl
    | pct => rfl
  have hM : Gen.materialMode.lookup mb.name = some (some mb.table) := by cases mb <;> rfl
  have hT : t = .K ∨ t = .C "°C" := ht
  unfold validLabels labelsOf
  simp only [hP, hL, hM, Option.isSome_some, Bool.and_self, Bool.true_and, Bool.and_eq_true]
  refine ⟨⟨?_, ?_⟩, ?_⟩
  · cases p with
    | abs u =>
      simp only [Spec.PRep.scale] at hp
      by_cases hu : u = ""
      · simp [hu] at hp
      · simp only [hu, if_false] at hp
        simpa [pLabel] using fac_isSome_lookup hp
    | rel u => rfl
    | relp u => rfl
  · cases l with
    | frac => rfl
    | pct => rfl
    | phys b u =>
      have h1 := physScale_isSome_lookup (a := a) hl
      have hb : Gen.loadingMode.lookup b.name = some (some b.table) := by cases b <;> rfl
      simp only [LRep.basis, LRep.unit, hb, h1, hmu, Bool.and_self, Bool.or_true]
  · rcases hT with rfl | rfl <;> rfl

lemma orCurrent_some {x cur : String} (hx : x ≠ "") : orCurrent (some x) cur = x := by
  simp [orCurrent, hx]

lemma PRep.mode_ne_empty (t : PRep) : t.mode ≠ "" := by cases t <;> simp [PRep.mode]

/-- the canonical form of a pressure representation: relative modes carry no unit -/
def canonPRep : PRep → PRep
  | .abs u => .abs u | .rel _ => .rel none | .relp _ => .relp none

lemma canonPRep_mode (a : PRep) : (canonPRep a).mode = (pLabel a).1 := by cases a <;> rfl
lemma canonPRep_unit (a : PRep) : (canonPRep a).unit = (pLabel a).2 := by cases a <;> rfl
lemma canonPRep_scale (ps : α) (a : PRep) :
    (canonPRep a).scale Gen.pressureUnits ps = a.scale Gen.pressureUnits ps := by cases a <;> rfl

lemma scale_ne_zero_gen (ps : α) (hps : ps ≠ 0) (a : PRep) (sa : α)
    (ha : a.scale Gen.pressureUnits ps = some sa) : sa ≠ 0 := by
  rw [C01.tables_eq_spec.1] at ha
  exact C01.PRep.scale_ne_zero ps hps a sa ha

/-- core of the typed pressure step: from labels naming `a`, a call whose resolved arguments are the mode and the
unit of `b` (ANY `b` with a scale, canonical or not) succeeds, relabels to `b`, and multiplies by `sa / sb` -/
lemma pCore_typed (ps : α) (hps : ps ≠ 0) (env : Env α) (s : Iso α) (a b : PRep) (sa sb : α)
    (hm : s.lab.pmode = (pLabel a).1) (hu : s.lab.punit = (pLabel a).2)
    (ha : a.scale Gen.pressureUnits ps = some sa) (hb : b.scale Gen.pressureUnits ps = some sb) :
    (pCore ⟨some ps, env, true⟩ s b.mode b.unit).2 = .ok ∧
    (pCore ⟨some ps, env, true⟩ s b.mode b.unit).1.lab = { s.lab with pmode := (pLabel b).1, punit := (pLabel b).2 } ∧
    (pCore ⟨some ps, env, true⟩ s b.mode b.unit).1.ls = s.ls ∧
    (pCore ⟨some ps, env, true⟩ s b.mode b.unit).1.temp = s.temp ∧
    (pCore ⟨some ps, env, true⟩ s b.mode b.unit).1.ps = s.ps.map (· * (sa / sb)) := by
  have hsa := scale_ne_zero_gen ps hps a sa ha
  have hspec := cPressure_spec ps (1 : α) hps (canonPRep a) b sa sb (by rw [canonPRep_scale]; exact ha) hb
  rw [canonPRep_mode, canonPRep_unit, ← hm, ← hu] at hspec
  unfold pCore
  by_cases he : b.mode = s.lab.pmode ∧ b.unit = s.lab.punit
  · -- early return: `b` is the current representation
    have hab : sa = sb ∧ (pLabel b).1 = s.lab.pmode ∧ (pLabel b).2 = s.lab.punit := by
      obtain ⟨h1, h2⟩ := he
      rw [hm] at h1 ⊢; rw [hu] at h2 ⊢
      cases a <;> cases b <;> simp [PRep.mode, PRep.unit, pLabel] at h1 h2 ⊢
      all_goals (simp only [Spec.PRep.scale] at ha hb)
      · subst h2; rw [ha] at hb; exact ⟨Option.some.inj hb, rfl⟩
      · rw [ha] at hb; exact Option.some.inj hb
      · rw [ha] at hb; exact Option.some.inj hb
    obtain ⟨rfl, h1, h2⟩ := hab
    simp only [he, and_self, if_true, h1, h2, true_and]
    simp [hsa]
  · simp only [he, if_false, hspec]
    refine ⟨trivial, ?_, trivial, trivial, ?_⟩
    · have : (if b.unit ≠ s.lab.punit ∧ b.mode = "absolute" then b.unit else none) = (pLabel b).2 := by
        rw [hm, hu] at he
        rw [hu]
        cases a <;> cases b <;> simp [PRep.mode, PRep.unit, pLabel] at he ⊢
        exact he
      simp only [this]
      cases b <;> rfl
    · simp only [one_mul]

/-- replace the (ignored) unit label of a relative representation -/
def withUnit : PRep → Option String → PRep
  | .abs u, _ => .abs u | .rel _, x => .rel x | .relp _, x => .relp x

lemma withUnit_mode (t : PRep) (x) : (withUnit t x).mode = t.mode := by cases t <;> rfl
lemma withUnit_label (t : PRep) (x) : pLabel (withUnit t x) = pLabel t := by cases t <;> rfl
lemma withUnit_scale (ps : α) (t : PRep) (x) :
    (withUnit t x).scale Gen.pressureUnits ps = t.scale Gen.pressureUnits ps := by cases t <;> rfl
lemma withUnit_unit (ps : α) (t : PRep) (st : α) (ht : t.scale Gen.pressureUnits ps = some st)
    (same : Bool) (cur : Option String) :
    (withUnit t (unitArg t.unit same cur)).unit = unitArg t.unit same cur := by
  cases t with
  | abs u =>
    have hu : u ≠ "" := by
      intro h; simp [Spec.PRep.scale, h] at ht
    simp [withUnit, PRep.unit, unitArg, truthy, hu]
  | rel x => rfl
  | relp x => rfl

/-- **typed pressure step**: from a state whose labels name `r`, for ANY supported target `t : PRep` (canonical or
not — a unit given with a relative mode is ignored) `convert_pressure(t.mode, t.unit)` returns normally, the labels
name `{r with p := t}`, loading and temperature are untouched and every pressure is multiplied by `sp r.p / sp t`
(Pa per old unit over Pa per new unit): the stored column is the old column converted directly. -/
theorem convertPressure_typed (ps : α) (hps : ps ≠ 0) (env : Env α) (s : Iso α) (r : Rep) (t : PRep) (sp st : α)
    (hs : s.lab = labelsOf r)
    (hsp : r.p.scale Gen.pressureUnits ps = some sp) (hst : t.scale Gen.pressureUnits ps = some st) :
    (convertPressure ⟨some ps, env, true⟩ s (some t.mode) t.unit).2 = .ok ∧
    (convertPressure ⟨some ps, env, true⟩ s (some t.mode) t.unit).1.lab = labelsOf { r with p := t } ∧
    (convertPressure ⟨some ps, env, true⟩ s (some t.mode) t.unit).1.ls = s.ls ∧
    (convertPressure ⟨some ps, env, true⟩ s (some t.mode) t.unit).1.temp = s.temp ∧
    (convertPressure ⟨some ps, env, true⟩ s (some t.mode) t.unit).1.ps = s.ps.map (· * (sp / st)) := by
  rw [convertPressure_core, orCurrent_some (PRep.mode_ne_empty t)]
  set x := unitArg t.unit (decide (t.mode = s.lab.pmode)) s.lab.punit with hx
  have h := pCore_typed ps hps env s r.p (withUnit t x) sp st (by rw [hs]; rfl) (by rw [hs]; rfl) hsp
    (by rw [withUnit_scale]; exact hst)
  rw [withUnit_mode, hx, withUnit_unit ps t st hst, ← hx, withUnit_label] at h
  obtain ⟨h1, h2, h3, h4, h5⟩ := h
  refine ⟨h1, ?_, h3, h4, h5⟩
  rw [h2, hs]; rfl

/-! ### loading -/

lemma LRep.ext_labels {l1 l2 : LRep} (hb : l1.basis = l2.basis) (hu : l1.unit = l2.unit) : l1 = l2 := by
  cases l1 with
  | phys b1 u1 =>
    cases l2 with
    | phys b2 u2 =>
      simp only [LRep.unit, Option.some.injEq] at hu
      subst hu
      cases b1 <;> cases b2 <;> simp [LRep.basis, Spec.LB.name] at hb ⊢
    | frac => cases b1 <;> simp [LRep.basis, Spec.LB.name] at hb
    | pct => cases b1 <;> simp [LRep.basis, Spec.LB.name] at hb
  | frac =>
    cases l2 with
    | phys b2 u2 => simp [LRep.unit] at hu
    | frac => rfl
    | pct => simp [LRep.basis] at hb
  | pct =>
    cases l2 with
    | phys b2 u2 => simp [LRep.unit] at hu
    | frac => simp [LRep.basis] at hb
    | pct => rfl

lemma LRep.basis_ne_empty (l : LRep) : l.basis ≠ "" := by
  cases l with
  | phys b u => cases b <;> simp [LRep.basis, Spec.LB.name]
  | frac => simp [LRep.basis]
  | pct => simp [LRep.basis]

lemma LRep.isFrac_basis (l : LRep) : isFrac l.basis = true ↔ l.unit = none := by
  cases l with
  | phys b u => cases b <;> simp [LRep.basis, LRep.unit, Spec.LB.name, isFrac]
  | frac => simp [LRep.basis, LRep.unit, isFrac]
  | pct => simp [LRep.basis, LRep.unit, isFrac]

lemma lscale_ne_zero_gen (a : Ads α) (hp : a.Pos) (m : MRep) (l : LRep) (sl : α)
    (h : l.scale Gen.unitTable a m = some sl) : sl ≠ 0 := by
  rw [C01.unitTable_eq_spec] at h
  exact C01.LRep.scale_ne_zero a hp m l sl h

lemma grams_ne_zero_gen (mat : Mat α) (hp : Mat.Pos mat) (m : MRep) (g : α)
    (h : m.grams Gen.unitTable mat = some g) : g ≠ 0 := by
  rw [C01.unitTable_eq_spec] at h
  exact C01.MRep.grams_ne_zero mat hp m g h

/-- core of the typed loading step -/
lemma lCore_typed (a : Ads α) (mat : Mat α) (hc : a.Consistent) (hp : a.Pos) (psat : Option α) (tOk : Bool)
    (s : Iso α) (m : MRep) (l1 l2 : LRep) (s1 s2 : α)
    (hb : s.lab.lbasis = l1.basis) (hu : s.lab.lunit = l1.unit)
    (hmb : s.lab.mbasis = m.b.name) (hmu : s.lab.munit = some m.u)
    (h1 : l1.scale Gen.unitTable a m = some s1) (h2 : l2.scale Gen.unitTable a m = some s2) :
    (lCore ⟨psat, envOf a mat, tOk⟩ s l2.basis l2.unit).2 = .ok ∧
    (lCore ⟨psat, envOf a mat, tOk⟩ s l2.basis l2.unit).1.lab = { s.lab with lbasis := l2.basis, lunit := l2.unit } ∧
    (lCore ⟨psat, envOf a mat, tOk⟩ s l2.basis l2.unit).1.ps = s.ps ∧
    (lCore ⟨psat, envOf a mat, tOk⟩ s l2.basis l2.unit).1.temp = s.temp ∧
    (lCore ⟨psat, envOf a mat, tOk⟩ s l2.basis l2.unit).1.ls = s.ls.map (· * (s1 / s2)) := by
  have hs1 := lscale_ne_zero_gen a hp m l1 s1 h1
  have hspec := cLoading_spec a mat hc hp (1 : α) m l1 l2 s1 s2 h1 h2
  rw [← hb, ← hu, ← hmb, ← hmu] at hspec
  unfold lCore
  by_cases he : l2.basis = s.lab.lbasis ∧ l2.unit = s.lab.lunit
  · have : l2 = l1 := LRep.ext_labels (he.1.trans hb) (he.2.trans hu)
    subst this
    rw [h1] at h2; cases h2
    simp only [he, and_self, if_true, true_and]
    simp [hs1]
  · have he2 : ¬((isFrac s.lab.lbasis && decide (l2.basis = s.lab.lbasis)) = true) := by
      intro h
      simp only [Bool.and_eq_true, decide_eq_true_eq] at h
      apply he
      refine ⟨h.2, ?_⟩
      have e1 : l1.unit = none := (LRep.isFrac_basis l1).1 (by rw [← hb]; exact h.1)
      have e2 : l2.unit = none := (LRep.isFrac_basis l2).1 (by rw [h.2]; exact h.1)
      rw [hu, e1, e2]
    simp only [he, if_false, he2, hspec, Bool.false_eq_true]
    refine ⟨trivial, ?_, trivial, trivial, ?_⟩
    · have : (if isFrac l2.basis = true then none else l2.unit) = l2.unit := by
        by_cases hf : isFrac l2.basis = true
        · simp [hf, (LRep.isFrac_basis l2).1 hf]
        · simp [hf]
      simp only [this]
    · simp only [one_mul]

lemma unitArg_loading (a : Ads α) (m : MRep) (l1 l2 : LRep) (s2 : α)
    (h2 : l2.scale Gen.unitTable a m = some s2) :
    unitArg l2.unit (decide (l2.basis = l1.basis)) l1.unit = l2.unit := by
  cases l2 with
  | phys b u =>
    have hu : u ≠ "" := (physScale_inv (by simpa [LRep.scale] using h2)).1
    simp [unitArg, LRep.unit, truthy, hu]
  | frac =>
    by_cases hb : LRep.frac.basis = l1.basis
    · have : l1.unit = none := (LRep.isFrac_basis l1).1 (by rw [← hb]; rfl)
      show unitArg none _ l1.unit = none
      rw [this]; simp [unitArg]
    · show unitArg none _ l1.unit = none
      simp [unitArg, truthy, hb]
  | pct =>
    by_cases hb : LRep.pct.basis = l1.basis
    · have : l1.unit = none := (LRep.isFrac_basis l1).1 (by rw [← hb]; rfl)
      show unitArg none _ l1.unit = none
      rw [this]; simp [unitArg]
    · show unitArg none _ l1.unit = none
      simp [unitArg, truthy, hb]

/-- **typed loading step**: from a state whose labels name `r`, for any supported target `l : LRep` (its scale taken
w.r.t. the current material representation) `convert_loading(l.basis, l.unit)` returns normally, the labels name
`{r with l := l}`, pressure and temperature are untouched and every loading is multiplied by `sl r.l / sl l`
(mol adsorbate per old unit over mol per new unit). -/
theorem convertLoading_typed (a : Ads α) (mat : Mat α) (hc : a.Consistent) (hp : a.Pos) (psat : Option α) (tOk : Bool)
    (s : Iso α) (r : Rep) (l : LRep) (sl sl' : α) (hs : s.lab = labelsOf r)
    (hsl : r.l.scale Gen.unitTable a r.m = some sl) (hsl' : l.scale Gen.unitTable a r.m = some sl') :
    (convertLoading ⟨psat, envOf a mat, tOk⟩ s (some l.basis) l.unit).2 = .ok ∧
    (convertLoading ⟨psat, envOf a mat, tOk⟩ s (some l.basis) l.unit).1.lab = labelsOf { r with l := l } ∧
    (convertLoading ⟨psat, envOf a mat, tOk⟩ s (some l.basis) l.unit).1.ps = s.ps ∧
    (convertLoading ⟨psat, envOf a mat, tOk⟩ s (some l.basis) l.unit).1.temp = s.temp ∧
    (convertLoading ⟨psat, envOf a mat, tOk⟩ s (some l.basis) l.unit).1.ls = s.ls.map (· * (sl / sl')) := by
  rw [convertLoading_core, orCurrent_some (LRep.basis_ne_empty l)]
  have e1 : s.lab.lbasis = r.l.basis := by rw [hs]; rfl
  have e2 : s.lab.lunit = r.l.unit := by rw [hs]; rfl
  rw [e1, e2, unitArg_loading a r.m r.l l sl' hsl']
  obtain ⟨h1, h2, h3, h4, h5⟩ := lCore_typed a mat hc hp psat tOk s r.m r.l l sl sl' e1 e2
    (by rw [hs]; rfl) (by rw [hs]; rfl) hsl hsl'
  refine ⟨h1, ?_, h3, h4, h5⟩
  rw [h2, hs]; rfl

/-! ### material -/

lemma MB.name_inj {b1 b2 : MB} (h : b1.name = b2.name) : b1 = b2 := by
  cases b1 <;> cases b2 <;> simp [Spec.MB.name] at h ⊢

lemma MB.name_ne_empty (b : MB) : b.name ≠ "" := by cases b <;> simp [Spec.MB.name]

lemma volLiq_name (b : MB) : volLiq b.name = b.toLB.name := by cases b <;> rfl

/-- the material's own basis and unit always give a loading scale (same unit table) -/
lemma own_scale_of_grams (a : Ads α) (mat : Mat α) (m2 : MRep) (g2 : α)
    (hg2 : m2.grams Gen.unitTable mat = some g2) :
    ∃ p : α, physScale Gen.unitTable a m2.b.toLB m2.u = some p := by
  unfold MRep.grams at hg2
  unfold physScale
  by_cases hu : m2.u = ""
  · simp [hu] at hg2
  · simp only [hu, if_false, Option.map_eq_some_iff] at hg2 ⊢
    obtain ⟨f, hf, _⟩ := hg2
    have : m2.b.toLB.table = m2.b.table := by cases m2.b <;> rfl
    rw [this]
    exact ⟨_, f, hf, rfl⟩

/-- a fraction / percent loading has a scale w.r.t. every supported material representation; a physical one does not
depend on it -/
lemma lscale_of_grams (a : Ads α) (mat : Mat α) (l : LRep) (m1 m2 : MRep) (sl1 g2 : α)
    (hl1 : l.scale Gen.unitTable a m1 = some sl1) (hg2 : m2.grams Gen.unitTable mat = some g2) :
    ∃ sl2 : α, l.scale Gen.unitTable a m2 = some sl2 := by
  have key := own_scale_of_grams a mat m2 g2 hg2
  cases l with
  | phys b u => exact ⟨sl1, hl1⟩
  | frac => exact key
  | pct => obtain ⟨p, hp⟩ := key; exact ⟨p / 100, by simp [LRep.scale, hp]⟩

/-- fraction / percent scales: the physical scale of the material's own basis and unit, times 1 or 1/100 -/
lemma fracScale (a : Ads α) (l : LRep) (hf : isFrac l.basis = true) :
    ∃ k : α, k ≠ 0 ∧ ∀ (m : MRep) (sl : α), l.scale Gen.unitTable a m = some sl →
      ∃ p : α, physScale Gen.unitTable a m.b.toLB m.u = some p ∧ sl = p * k := by
  cases l with
  | phys b u => cases b <;> simp [LRep.basis, Spec.LB.name, isFrac] at hf
  | frac => exact ⟨1, one_ne_zero, fun m sl h => ⟨sl, h, by ring⟩⟩
  | pct =>
    refine ⟨1 / 100, by norm_num, fun m sl h => ?_⟩
    simp only [LRep.scale, Option.map_eq_some_iff] at h
    obtain ⟨p, hp, rfl⟩ := h
    exact ⟨p, hp, by ring⟩

/-- a physical loading scale does not depend on the material representation -/
lemma physScale_indep (a : Ads α) (l : LRep) (hf : ¬ isFrac l.basis = true) (m1 m2 : MRep) :
    l.scale Gen.unitTable a m1 = l.scale Gen.unitTable a m2 := by
  cases l with
  | phys b u => rfl
  | frac => simp [LRep.basis, isFrac] at hf
  | pct => simp [LRep.basis, isFrac] at hf

/-- (mol adsorbate per unit) / (gram material per unit) of the material's own basis does not depend on the unit -/
lemma own_ratio (a : Ads α) (mat : Mat α) (hmp : Mat.Pos mat) (m : MRep) (p g : α)
    (hp : physScale Gen.unitTable a m.b.toLB m.u = some p) (hg : m.grams Gen.unitTable mat = some g) :
    p / g = gL a m.b.toLB / gM mat m.b := by
  obtain ⟨_, f, hf, rfl, hn⟩ := physScale_inv hp
  obtain ⟨_, f', hf', rfl, hn', hgm⟩ := grams_inv hmp hg
  have : m.b.toLB.table = m.b.table := by cases m.b <;> rfl
  rw [this, hf'] at hf
  cases hf
  field_simp

/-- core of the typed material step -/
lemma mCore_typed (a : Ads α) (mat : Mat α) (hc : a.Consistent) (hp : a.Pos) (hmp : Mat.Pos mat)
    (psat : Option α) (tOk : Bool) (s : Iso α) (l : LRep) (m1 m2 : MRep) (g1 g2 sl1 sl2 : α)
    (hb : s.lab.lbasis = l.basis) (hmb : s.lab.mbasis = m1.b.name) (hmu : s.lab.munit = some m1.u)
    (hg1 : m1.grams Gen.unitTable mat = some g1) (hg2 : m2.grams Gen.unitTable mat = some g2)
    (hl1 : l.scale Gen.unitTable a m1 = some sl1) (hl2 : l.scale Gen.unitTable a m2 = some sl2) :
    (mCore ⟨psat, envOf a mat, tOk⟩ s m2.b.name (some m2.u)).2 = .ok ∧
    (mCore ⟨psat, envOf a mat, tOk⟩ s m2.b.name (some m2.u)).1.lab =
      { s.lab with mbasis := m2.b.name, munit := some m2.u } ∧
    (mCore ⟨psat, envOf a mat, tOk⟩ s m2.b.name (some m2.u)).1.ps = s.ps ∧
    (mCore ⟨psat, envOf a mat, tOk⟩ s m2.b.name (some m2.u)).1.temp = s.temp ∧
    (mCore ⟨psat, envOf a mat, tOk⟩ s m2.b.name (some m2.u)).1.ls = s.ls.map (· * ((sl1 / g1) / (sl2 / g2))) := by
  have hg1n := grams_ne_zero_gen mat hmp m1 g1 hg1
  have hg2n := grams_ne_zero_gen mat hmp m2 g2 hg2
  have hs1n := lscale_ne_zero_gen a hp m1 l sl1 hl1
  have hs2n := lscale_ne_zero_gen a hp m2 l sl2 hl2
  have hspecM := cMaterial_spec a mat hmp (1 : α) m1 m2 g1 g2 hg1 hg2
  rw [← hmb, ← hmu] at hspecM
  unfold mCore
  by_cases he : m2.b.name = s.lab.mbasis ∧ some m2.u = s.lab.munit
  · -- early return: same representation
    have : m2 = m1 := by
      obtain ⟨b2, u2⟩ := m2
      obtain ⟨b1, u1⟩ := m1
      obtain ⟨h1, h2⟩ := he
      simp only at h1 h2 hmb hmu
      rw [hmb] at h1; rw [hmu] at h2
      cases MB.name_inj h1
      cases h2
      rfl
    subst this
    rw [hg1] at hg2; cases hg2
    rw [hl1] at hl2; cases hl2
    have hk : sl1 / g1 / (sl1 / g1) = 1 := div_self (div_ne_zero hs1n hg1n)
    simp only [he, and_self, if_true, true_and, hk]
    simp
  · by_cases hv : (isFrac s.lab.lbasis && decide (m2.b.name = s.lab.mbasis)) = true
    · -- "virtual" unit change under a fraction / percent loading
      simp only [he, if_false, hv, if_true, hspecM]
      simp only [Bool.and_eq_true, decide_eq_true_eq] at hv
      obtain ⟨hf, hsame⟩ := hv
      refine ⟨trivial, ?_, trivial, trivial, ?_⟩
      · rw [hsame]
      · rw [hb] at hf
        obtain ⟨k, hk, hkey⟩ := fracScale a l hf
        obtain ⟨p1, hp1, rfl⟩ := hkey m1 sl1 hl1
        obtain ⟨p2, hp2, rfl⟩ := hkey m2 sl2 hl2
        have hbb : m2.b = m1.b := MB.name_inj (hsame.trans hmb)
        have r1 := own_ratio a mat hmp m1 p1 g1 hp1 hg1
        have r2 := own_ratio a mat hmp m2 p2 g2 hp2 hg2
        rw [hbb] at r2
        have hp1n : p1 ≠ 0 := left_ne_zero_of_mul hs1n
        have : p1 * k / g1 / (p2 * k / g2) = 1 := by
          have e1 : p1 * k / g1 = (p1 / g1) * k := by ring
          have e2 : p2 * k / g2 = (p2 / g2) * k := by ring
          rw [e1, e2, r1, r2, ← r1]
          exact div_self (mul_ne_zero (div_ne_zero hp1n hg1n) hk)
        rw [this]; simp
    · simp only [he, if_false, hv, hspecM, Bool.false_eq_true]
      simp only [Bool.and_eq_true, decide_eq_true_eq, not_and] at hv
      by_cases hf : isFrac s.lab.lbasis = true
      · -- fraction / percent loading, material basis changes
        simp only [hf, if_true]
        rw [hb] at hf
        obtain ⟨k, hk, hkey⟩ := fracScale a l hf
        obtain ⟨p1, hp1, rfl⟩ := hkey m1 sl1 hl1
        obtain ⟨p2, hp2, rfl⟩ := hkey m2 sl2 hl2
        have hspecL := cLoading_phys a mat hc hp (1 : α) m1.b.toLB m2.b.toLB m1.u m2.u none none p1 p2 hp1 hp2
        rw [hmb, hmu, volLiq_name, volLiq_name, hspecL]
        have hp2n : p2 ≠ 0 := left_ne_zero_of_mul hs2n
        refine ⟨rfl, rfl, rfl, rfl, ?_⟩
        show List.map (fun x => x * (1 * g2 / g1) * (1 * p1 / p2)) s.ls = _
        congr 1; funext x; field_simp
      · -- physical loading
        simp only [hf, if_false, Bool.false_eq_true]
        rw [hb] at hf
        rw [physScale_indep a l hf m1 m2, hl2] at hl1
        cases hl1
        refine ⟨trivial, trivial, trivial, trivial, ?_⟩
        congr 1; funext x; field_simp

/-- **typed material step**: from a state whose labels name `r`, for any supported target `m : MRep`
`convert_material(m.b.name, m.u)` returns normally, the labels name `{r with m := m}` (under a fraction / percent
loading the `LRep` stays, but its scale is now taken w.r.t. `m`), pressure and temperature are untouched and every
loading is multiplied by the ratio of the canonical contents `(sl / g) / (sl' / g')` (mol adsorbate per gram
material of one old stored unit over that of one new stored unit). -/
theorem convertMaterial_typed (a : Ads α) (mat : Mat α) (hc : a.Consistent) (hp : a.Pos) (hmp : Mat.Pos mat)
    (psat : Option α) (tOk : Bool) (s : Iso α) (r : Rep) (m : MRep) (sl g sl' g' : α) (hs : s.lab = labelsOf r)
    (hsl : r.l.scale Gen.unitTable a r.m = some sl) (hg : r.m.grams Gen.unitTable mat = some g)
    (hsl' : r.l.scale Gen.unitTable a m = some sl') (hg' : m.grams Gen.unitTable mat = some g') :
    (convertMaterial ⟨psat, envOf a mat, tOk⟩ s (some m.b.name) (some m.u)).2 = .ok ∧
    (convertMaterial ⟨psat, envOf a mat, tOk⟩ s (some m.b.name) (some m.u)).1.lab = labelsOf { r with m := m } ∧
    (convertMaterial ⟨psat, envOf a mat, tOk⟩ s (some m.b.name) (some m.u)).1.ps = s.ps ∧
    (convertMaterial ⟨psat, envOf a mat, tOk⟩ s (some m.b.name) (some m.u)).1.temp = s.temp ∧
    (convertMaterial ⟨psat, envOf a mat, tOk⟩ s (some m.b.name) (some m.u)).1.ls =
      s.ls.map (· * ((sl / g) / (sl' / g'))) := by
  rw [convertMaterial_core, orCurrent_some (MB.name_ne_empty m.b)]
  have hu : m.u ≠ "" := (grams_inv hmp hg').1
  have e : ∀ same cur, unitArg (some m.u) same cur = some m.u := by
    intro same cur; simp [unitArg, truthy, hu]
  rw [e]
  obtain ⟨h1, h2, h3, h4, h5⟩ := mCore_typed a mat hc hp hmp psat tOk s r.l r.m m g g' sl sl'
    (by rw [hs]; rfl) (by rw [hs]; rfl) (by rw [hs]; rfl) hg hg' hsl hsl'
  refine ⟨h1, ?_, h3, h4, h5⟩
  rw [h2, hs]; rfl

/-! ### temperature -/

/-- the temperature scale as stored: every Celsius spelling becomes `°C` -/
def normT : TRep → TRep
  | .K => .K | .C _ => .C "°C"

lemma tLabel_normT (t : TRep) : tLabel (normT t) = tLabel t := by cases t <;> rfl

/-- **typed temperature step**: for every accepted spelling of the target scale the call returns normally, the label
is the normalised one, the columns are untouched, the new value is the old one converted through Kelvin — hence the
Kelvin value is conserved. -/
theorem convertTemperature_typed (s : Iso α) (r : Rep) (t : TRep) (hs : s.lab = labelsOf r)
    (hrt : r.t = .K ∨ r.t = .C "°C") (ht : TRep.Valid t) :
    (convertTemperature s (some t.label)).2 = .ok ∧
    (convertTemperature s (some t.label)).1.lab = labelsOf { r with t := normT t } ∧
    (convertTemperature s (some t.label)).1.ps = s.ps ∧
    (convertTemperature s (some t.label)).1.ls = s.ls ∧
    (convertTemperature s (some t.label)).1.temp = t.ofK (r.t.toK s.temp) ∧
    (normT t).toK (convertTemperature s (some t.label)).1.temp = r.t.toK s.temp := by
  have hv : TRep.Valid r.t := by
    rcases hrt with h | h <;> rw [h]
    · trivial
    · exact ⟨by decide, by decide⟩
  have hl : s.lab.tunit = some r.t.label := by
    rw [hs]; rcases hrt with h | h <;> rw [labelsOf, h] <;> rfl
  have hspec := cTemperature_spec s.temp r.t t hv ht
  rw [← hl] at hspec
  have hn : normTemp (some t.label) = tLabel t := by
    rw [normTemp_label t ht]; cases t <;> rfl
  unfold convertTemperature
  simp only [hspec, hn]
  refine ⟨trivial, ?_, trivial, trivial, trivial, ?_⟩
  · rw [hs]; simp only [labelsOf, tLabel_normT]
  · cases t <;> simp [normT, Spec.TRep.toK, Spec.TRep.ofK]

/-! ### conservation form of the single steps -/

/-- state `s'` under representation `r'` carries the same physical content as `s` under `r`, row by row
(list equality: same number of rows, same order), and its labels name `r'` -/
structure Conserved (ps : α) (a : Ads α) (mat : Mat α) (s : Iso α) (r : Rep) (s' : Iso α) (r' : Rep) : Prop where
  lab : s'.lab = labelsOf r'
  ps : s'.ps.map (canonP ps r') = s.ps.map (canonP ps r)
  ls : s'.ls.map (canonL a mat r') = s.ls.map (canonL a mat r)
  temp : kelvin r' s'.temp = kelvin r s.temp

lemma Conserved.refl (ps : α) (a : Ads α) (mat : Mat α) (s : Iso α) (r : Rep) (h : s.lab = labelsOf r) :
    Conserved ps a mat s r s r := ⟨h, rfl, rfl, rfl⟩

lemma Conserved.trans {ps : α} {a : Ads α} {mat : Mat α} {s s' s'' : Iso α} {r r' r'' : Rep}
    (h1 : Conserved ps a mat s r s' r') (h2 : Conserved ps a mat s' r' s'' r'') :
    Conserved ps a mat s r s'' r'' :=
  ⟨h2.lab, h2.ps.trans h1.ps, h2.ls.trans h1.ls, h2.temp.trans h1.temp⟩

/-- row-wise reading of `Conserved`: the i-th stored pressure / loading carries the content of the i-th original one
(and there is an i-th row on one side iff there is one on the other) -/
theorem Conserved.rowwise {ps : α} {a : Ads α} {mat : Mat α} {s s' : Iso α} {r r' : Rep}
    (h : Conserved ps a mat s r s' r') (i : Nat) :
    (s'.ps[i]?).map (canonP ps r') = (s.ps[i]?).map (canonP ps r) ∧
    (s'.ls[i]?).map (canonL a mat r') = (s.ls[i]?).map (canonL a mat r) := by
  have h1 := congrArg (fun l => l[i]?) h.ps
  have h2 := congrArg (fun l => l[i]?) h.ls
  simp only [List.getElem?_map] at h1 h2
  exact ⟨h1, h2⟩

lemma conserve_map (f f' : α → α) (k : α) (l : List α) (hk : ∀ v, f' (v * k) = f v) :
    (l.map (· * k)).map f' = l.map f := by
  rw [List.map_map]; congr 1; funext v; exact hk v

lemma spOf_eq {ps : α} {p : PRep} {x : α} (h : p.scale Gen.pressureUnits ps = some x) : spOf ps p = x := by
  simp [spOf, h]
lemma slOf_eq {a : Ads α} {l : LRep} {m : MRep} {x : α} (h : l.scale Gen.unitTable a m = some x) :
    slOf a l m = x := by simp [slOf, h]
lemma gmOf_eq {mat : Mat α} {m : MRep} {x : α} (h : m.grams Gen.unitTable mat = some x) : gmOf mat m = x := by
  simp [gmOf, h]

/-- under `Rep.Valid` the three total scales are the actual scales, and they are non-zero -/
lemma Rep.Valid.scales {ps : α} {a : Ads α} {mat : Mat α} {r : Rep} (hps : ps ≠ 0) (hp : a.Pos) (hmp : Mat.Pos mat)
    (h : Rep.Valid ps a mat r) :
    (r.p.scale Gen.pressureUnits ps = some (spOf ps r.p) ∧ spOf ps r.p ≠ 0) ∧
    (r.l.scale Gen.unitTable a r.m = some (slOf a r.l r.m) ∧ slOf a r.l r.m ≠ 0) ∧
    (r.m.grams Gen.unitTable mat = some (gmOf mat r.m) ∧ gmOf mat r.m ≠ 0) := by
  obtain ⟨h1, h2, h3, _⟩ := h
  obtain ⟨x, hx⟩ := Option.isSome_iff_exists.1 h1
  obtain ⟨y, hy⟩ := Option.isSome_iff_exists.1 h2
  obtain ⟨z, hz⟩ := Option.isSome_iff_exists.1 h3
  rw [spOf_eq hx, slOf_eq hy, gmOf_eq hz]
  exact ⟨⟨hx, scale_ne_zero_gen ps hps _ _ hx⟩, ⟨hy, lscale_ne_zero_gen a hp _ _ _ hy⟩,
    ⟨hz, grams_ne_zero_gen mat hmp _ _ hz⟩⟩

/-! ## C. Histories -/

/-- typed conversion requests -/
inductive TOp | toP (t : PRep) | toL (l : LRep) | toM (m : MRep) | toT (t : TRep)

/-- the call a typed request stands for: the single-quantity method with both arguments given -/
def TOp.toOp : TOp → Op
  | .toP t => .pressure (some t.mode) t.unit
  | .toL l => .loading (some l.basis) l.unit
  | .toM m => .material (some m.b.name) (some m.u)
  | .toT t => .temperature (some t.label)

/-- its effect on the representation -/
def TOp.apply (r : Rep) : TOp → Rep
  | .toP t => { r with p := t }
  | .toL l => { r with l := l }
  | .toM m => { r with m := m }
  | .toT t => { r with t := normT t }

/-- the target is supported (a fraction / percent target needs nothing: it is expressed in the current, valid,
material representation) -/
def TOp.Valid (ps : α) (a : Ads α) (mat : Mat α) : TOp → Prop
  | .toP t => (t.scale Gen.pressureUnits ps).isSome
  | .toL (.phys b u) => (physScale Gen.unitTable a b u).isSome
  | .toL _ => True
  | .toM m => (m.grams Gen.unitTable mat).isSome
  | .toT t => TRep.Valid t

lemma valid_apply (ps : α) (a : Ads α) (mat : Mat α) (r : Rep) (op : TOp)
    (hr : Rep.Valid ps a mat r) (hop : TOp.Valid ps a mat op) : Rep.Valid ps a mat (TOp.apply r op) := by
  obtain ⟨h1, h2, h3, h4⟩ := hr
  cases op with
  | toP t => exact ⟨hop, h2, h3, h4⟩
  | toL l =>
    refine ⟨h1, ?_, h3, h4⟩
    obtain ⟨g, hg⟩ := Option.isSome_iff_exists.1 h3
    obtain ⟨p, hp⟩ := own_scale_of_grams a mat r.m g hg
    cases l with
    | phys b u => exact hop
    | frac => simp [TOp.apply, LRep.scale, hp]
    | pct => simp [TOp.apply, LRep.scale, hp]
  | toM m =>
    obtain ⟨y, hy⟩ := Option.isSome_iff_exists.1 h2
    obtain ⟨g, hg⟩ := Option.isSome_iff_exists.1 hop
    obtain ⟨y', hy'⟩ := lscale_of_grams a mat r.l r.m m y g hy hg
    exact ⟨h1, by simp [TOp.apply, hy'], hop, h4⟩
  | toT t => exact ⟨h1, h2, h3, by cases t <;> simp [TOp.apply, normT]⟩

/-- **one typed step**: returns normally, conserves the physical content, stays valid -/
theorem step_typed (ps : α) (hps : ps ≠ 0) (a : Ads α) (mat : Mat α) (hc : a.Consistent) (hp : a.Pos) (hmp : Mat.Pos mat)
    (s : Iso α) (r : Rep) (op : TOp) (hs : s.lab = labelsOf r)
    (hr : Rep.Valid ps a mat r) (hop : TOp.Valid ps a mat op) :
    (step ⟨some ps, envOf a mat, true⟩ s op.toOp).2 = .ok ∧
    Conserved ps a mat s r (step ⟨some ps, envOf a mat, true⟩ s op.toOp).1 (TOp.apply r op) ∧
    Rep.Valid ps a mat (TOp.apply r op) := by
  have hv' := valid_apply ps a mat r op hr hop
  obtain ⟨⟨hsp, hspn⟩, ⟨hsl, hsln⟩, ⟨hg, hgn⟩⟩ := hr.scales hps hp hmp
  obtain ⟨⟨hsp', hspn'⟩, ⟨hsl', hsln'⟩, ⟨hg', hgn'⟩⟩ := hv'.scales hps hp hmp
  refine ⟨?_, ?_, hv'⟩
  · cases op with
    | toP t => exact (convertPressure_typed ps hps _ s r t _ _ hs hsp hsp').1
    | toL l => exact (convertLoading_typed a mat hc hp _ _ s r l _ _ hs hsl hsl').1
    | toM m => exact (convertMaterial_typed a mat hc hp hmp _ _ s r m _ _ _ _ hs hsl hg hsl' hg').1
    | toT t => exact (convertTemperature_typed s r t hs hr.2.2.2 hop).1
  · cases op with
    | toP t =>
      obtain ⟨_, h2, h3, h4, h5⟩ := convertPressure_typed ps hps (envOf a mat) s r t _ _ hs hsp hsp'
      refine ⟨h2, ?_, ?_, ?_⟩
      · simp only [step, TOp.toOp]
        rw [h5]
        apply conserve_map
        intro v
        simp only [canonP, TOp.apply]
        have : spOf ps t ≠ 0 := hspn'
        field_simp
      · simp only [step, TOp.toOp]; rw [h3]; rfl
      · simp only [step, TOp.toOp]; rw [h4]; rfl
    | toL l =>
      obtain ⟨_, h2, h3, h4, h5⟩ := convertLoading_typed a mat hc hp (some ps) true s r l _ _ hs hsl hsl'
      refine ⟨h2, ?_, ?_, ?_⟩
      · simp only [step, TOp.toOp]; rw [h3]; rfl
      · simp only [step, TOp.toOp]
        rw [h5]
        apply conserve_map
        intro v
        simp only [canonL, TOp.apply]
        have : slOf a l r.m ≠ 0 := hsln'
        field_simp
      · simp only [step, TOp.toOp]; rw [h4]; rfl
    | toM m =>
      obtain ⟨_, h2, h3, h4, h5⟩ :=
        convertMaterial_typed a mat hc hp hmp (some ps) true s r m _ _ _ _ hs hsl hg hsl' hg'
      refine ⟨h2, ?_, ?_, ?_⟩
      · simp only [step, TOp.toOp]; rw [h3]; rfl
      · simp only [step, TOp.toOp]
        rw [h5]
        apply conserve_map
        intro v
        simp only [canonL, TOp.apply]
        have e1 : slOf a r.l m ≠ 0 := hsln'
        have e2 : gmOf mat m ≠ 0 := hgn'
        field_simp
      · simp only [step, TOp.toOp]; rw [h4]; rfl
    | toT t =>
      obtain ⟨_, h2, h3, h4, _, h6⟩ := convertTemperature_typed s r t hs hr.2.2.2 hop
      refine ⟨h2, ?_, ?_, ?_⟩
      · simp only [step, TOp.toOp]; rw [h3]; rfl
      · simp only [step, TOp.toOp]; rw [h4]; rfl
      · exact h6

lemma run_cons (c : Ctx α) (s : Iso α) (op : Op) (ops : List Op) :
    run c s (op :: ops) = run c (step c s op).1 ops := rfl

/-- **history invariant**: after ANY list of typed conversions with supported targets, the labels name exactly the
representation obtained by applying the requests in order, those labels would be accepted by the constructor, and the
stored pressures, loadings and temperature carry row by row the same Pa, mol/g and K as the original data. -/
theorem history_invariant (ps : α) (hps : ps ≠ 0) (a : Ads α) (mat : Mat α) (hc : a.Consistent) (hp : a.Pos)
    (hmp : Mat.Pos mat) (ops : List TOp) (hops : ∀ op ∈ ops, TOp.Valid ps a mat op)
    (s0 : Iso α) (r0 : Rep) (hs : s0.lab = labelsOf r0) (hr : Rep.Valid ps a mat r0) :
    (run ⟨some ps, envOf a mat, true⟩ s0 (ops.map TOp.toOp)).lab = labelsOf (ops.foldl TOp.apply r0) ∧
    validLabels (run ⟨some ps, envOf a mat, true⟩ s0 (ops.map TOp.toOp)).lab = true ∧
    Rep.Valid ps a mat (ops.foldl TOp.apply r0) ∧
    Conserved ps a mat s0 r0 (run ⟨some ps, envOf a mat, true⟩ s0 (ops.map TOp.toOp)) (ops.foldl TOp.apply r0) := by
  induction ops generalizing s0 r0 with
  | nil =>
    refine ⟨hs, ?_, hr, Conserved.refl ps a mat s0 r0 hs⟩
    show validLabels s0.lab = true
    rw [hs]; exact validLabels_of_valid ps a mat r0 hr
  | cons op ops ih =>
    obtain ⟨_, hcons, hval⟩ := step_typed ps hps a mat hc hp hmp s0 r0 op hs hr (hops op (by simp))
    obtain ⟨i1, i2, i3, i4⟩ := ih (fun o ho => hops o (by simp [ho])) _ _ hcons.lab hval
    simp only [List.map_cons, run_cons, List.foldl_cons]
    exact ⟨i1, i2, i3, hcons.trans i4⟩

lemma map_mul_cancel (l1 l2 : List α) (x y : α) (hx : x ≠ 0)
    (h : l1.map (· * x) = l2.map (· * y)) : l1 = l2.map (· * (y / x)) := by
  have h' := congrArg (List.map (fun v => v * x⁻¹)) h
  rw [List.map_map, List.map_map] at h'
  have e1 : ((fun v => v * x⁻¹) ∘ (fun v => v * x)) = id := by
    funext v; simp [mul_assoc, hx]
  have e2 : ((fun v => v * x⁻¹) ∘ (fun v => v * y)) = (fun v => v * (y / x)) := by
    funext v; simp [mul_assoc, div_eq_mul_inv]
  rw [e1, e2, List.map_id] at h'
  exact h'

/-- conservation under a valid final representation, solved for the stored numbers -/
lemma Conserved.direct {ps : α} {a : Ads α} {mat : Mat α} {s0 sf : Iso α} {r0 rf : Rep}
    (hps : ps ≠ 0) (hp : a.Pos) (hmp : Mat.Pos mat)
    (hvf : Rep.Valid ps a mat rf) (hcons : Conserved ps a mat s0 r0 sf rf) :
    sf.ps = s0.ps.map (· * (spOf ps r0.p / spOf ps rf.p)) ∧
    sf.ls = s0.ls.map (· * ((slOf a r0.l r0.m / gmOf mat r0.m) / (slOf a rf.l rf.m / gmOf mat rf.m))) ∧
    sf.temp = rf.t.ofK (r0.t.toK s0.temp) := by
  obtain ⟨⟨_, hspn⟩, ⟨_, hsln⟩, ⟨_, hgn⟩⟩ := hvf.scales hps hp hmp
  refine ⟨?_, ?_, ?_⟩
  · exact map_mul_cancel _ _ _ _ hspn hcons.ps
  · have e : ∀ r : Rep, canonL a mat r = (· * (slOf a r.l r.m / gmOf mat r.m)) := by
      intro r; funext v; simp only [canonL]; ring
    have h := hcons.ls
    rw [e, e] at h
    exact map_mul_cancel _ _ _ _ (div_ne_zero hsln hgn) h
  · have h := hcons.temp
    simp only [kelvin] at h
    rw [← h]
    cases rf.t <;> simp [Spec.TRep.toK, Spec.TRep.ofK]

/-- **history = direct conversion**: the final columns are the ORIGINAL columns converted in one step to the final
representation (pressure: Pa per original unit over Pa per final unit; loading: ratio of the canonical contents,
mol adsorbate per gram material), and the final temperature is the original one converted through Kelvin. -/
theorem history_direct (ps : α) (hps : ps ≠ 0) (a : Ads α) (mat : Mat α) (hc : a.Consistent) (hp : a.Pos)
    (hmp : Mat.Pos mat) (ops : List TOp) (hops : ∀ op ∈ ops, TOp.Valid ps a mat op)
    (s0 : Iso α) (r0 : Rep) (hs : s0.lab = labelsOf r0) (hr : Rep.Valid ps a mat r0) :
    let sf := run ⟨some ps, envOf a mat, true⟩ s0 (ops.map TOp.toOp)
    let rf := ops.foldl TOp.apply r0
    sf.ps = s0.ps.map (· * (spOf ps r0.p / spOf ps rf.p)) ∧
    sf.ls = s0.ls.map (· * ((slOf a r0.l r0.m / gmOf mat r0.m) / (slOf a rf.l rf.m / gmOf mat rf.m))) ∧
    sf.temp = rf.t.ofK (r0.t.toK s0.temp) := by
  intro sf rf
  obtain ⟨_, _, hvf, hcons⟩ := history_invariant ps hps a mat hc hp hmp ops hops s0 r0 hs hr
  exact hcons.direct hps hp hmp hvf

/-- **back to start**: a history that ends in the starting representation restores the original numbers -/
theorem back_to_start (ps : α) (hps : ps ≠ 0) (a : Ads α) (mat : Mat α) (hc : a.Consistent) (hp : a.Pos)
    (hmp : Mat.Pos mat) (ops : List TOp) (hops : ∀ op ∈ ops, TOp.Valid ps a mat op)
    (s0 : Iso α) (r0 : Rep) (hs : s0.lab = labelsOf r0) (hr : Rep.Valid ps a mat r0)
    (hback : ops.foldl TOp.apply r0 = r0) :
    let sf := run ⟨some ps, envOf a mat, true⟩ s0 (ops.map TOp.toOp)
    sf.ps = s0.ps ∧ sf.ls = s0.ls ∧ sf.temp = s0.temp ∧ sf.lab = s0.lab := by
  intro sf
  obtain ⟨h1, h2, h3⟩ := history_direct ps hps a mat hc hp hmp ops hops s0 r0 hs hr
  obtain ⟨hl, _, _, _⟩ := history_invariant ps hps a mat hc hp hmp ops hops s0 r0 hs hr
  obtain ⟨⟨_, hspn⟩, ⟨_, hsln⟩, ⟨_, hgn⟩⟩ := hr.scales hps hp hmp
  simp only [hback] at h1 h2 h3 hl
  refine ⟨?_, ?_, ?_, ?_⟩
  · rw [h1, div_self hspn]; simp
  · rw [h2, div_self (div_ne_zero hsln hgn)]; simp
  · rw [h3]; cases r0.t <;> simp [Spec.TRep.toK, Spec.TRep.ofK]
  · rw [hl, hs]

/-! ### refused calls in between -/

/-- a step of a mixed history: a typed request, or an arbitrary call (any strings) -/
inductive HStep | typed (t : TOp) | raw (o : Op)

def HStep.toOp : HStep → Op
  | .typed t => t.toOp | .raw o => o

/-- a raw (refused) call leaves the representation alone -/
def HStep.apply (r : Rep) : HStep → Rep
  | .typed t => TOp.apply r t | .raw _ => r

/-- every typed request has a supported target; every raw call is a single-quantity call (not `convert(...)`) that is
REFUSED at the state in which it is issued -/
def Admissible (ps : α) (a : Ads α) (mat : Mat α) (c : Ctx α) : Iso α → List HStep → Prop
  | _, [] => True
  | s, .typed t :: rest => TOp.Valid ps a mat t ∧ Admissible ps a mat c (step c s t.toOp).1 rest
  | s, .raw o :: rest =>
      (∀ pm pu lb lu mb mu, o ≠ .all pm pu lb lu mb mu) ∧ (step c s o).2 ≠ .ok ∧
      Admissible ps a mat c (step c s o).1 rest

/-- **refusals interleaved**: a history made of typed successful requests and arbitrary REFUSED single-quantity calls
(any string arguments, any error class) satisfies the same conclusions as a history of the typed requests alone:
each refused call leaves the state exactly as it was (part A), so labels, validity, conservation and the direct-conversion
form all survive. -/
theorem refusals_interleaved (ps : α) (hps : ps ≠ 0) (a : Ads α) (mat : Mat α) (hc : a.Consistent) (hp : a.Pos)
    (hmp : Mat.Pos mat) (steps : List HStep) (s0 : Iso α) (r0 : Rep)
    (hadm : Admissible ps a mat ⟨some ps, envOf a mat, true⟩ s0 steps)
    (hs : s0.lab = labelsOf r0) (hr : Rep.Valid ps a mat r0) :
    let sf := run ⟨some ps, envOf a mat, true⟩ s0 (steps.map HStep.toOp)
    let rf := steps.foldl HStep.apply r0
    sf.lab = labelsOf rf ∧ validLabels sf.lab = true ∧ Rep.Valid ps a mat rf ∧ Conserved ps a mat s0 r0 sf rf ∧
    sf.ps = s0.ps.map (· * (spOf ps r0.p / spOf ps rf.p)) ∧
    sf.ls = s0.ls.map (· * ((slOf a r0.l r0.m / gmOf mat r0.m) / (slOf a rf.l rf.m / gmOf mat rf.m))) ∧
    sf.temp = rf.t.ofK (r0.t.toK s0.temp) := by
  intro sf rf
  have main : sf.lab = labelsOf rf ∧ validLabels sf.lab = true ∧ Rep.Valid ps a mat rf ∧
      Conserved ps a mat s0 r0 sf rf := by
    simp only [sf, rf]
    clear sf rf
    induction steps generalizing s0 r0 with
    | nil =>
      refine ⟨hs, ?_, hr, Conserved.refl ps a mat s0 r0 hs⟩
      show validLabels s0.lab = true
      rw [hs]; exact validLabels_of_valid ps a mat r0 hr
    | cons st steps ih =>
      cases st with
      | typed t =>
        obtain ⟨hv, hrest⟩ := hadm
        obtain ⟨_, hcons, hval⟩ := step_typed ps hps a mat hc hp hmp s0 r0 t hs hr hv
        obtain ⟨i1, i2, i3, i4⟩ := ih _ _ hrest hcons.lab hval
        simp only [List.map_cons, run_cons, List.foldl_cons]
        exact ⟨i1, i2, i3, hcons.trans i4⟩
      | raw o =>
        obtain ⟨hsingle, hrefused, hrest⟩ := hadm
        have hun := step_single_refused_unchanged _ s0 o hsingle hrefused
        simp only [List.map_cons, run_cons, List.foldl_cons, HStep.toOp, HStep.apply]
        rw [hun] at hrest ⊢
        exact ih s0 r0 hrest hs hr
  obtain ⟨m1, m2, m3, m4⟩ := main
  obtain ⟨d1, d2, d3⟩ := m4.direct hps hp hmp m3
  exact ⟨m1, m2, m3, m4, d1, d2, d3⟩

/-! ## D. Completeness of validation: ANY single-quantity call, arbitrary string arguments -/

lemma checkUnit_cases (t : List (String × Nat × Nat)) (u : Option String) :
    (∃ y, ∃ f : α, u = some y ∧ y ≠ "" ∧ (facOf t y : Option α) = some f ∧ (checkUnit t u : Except Err α) = .ok f) ∨
    (checkUnit t u : Except Err α) = .error .param := by
  cases u with
  | none => right; rfl
  | some y =>
    by_cases hy : y = ""
    · right; simp [checkUnit, hy]
    · cases hf : (facOf t y : Option α) with
      | none => right; simp [checkUnit, hy, hf]
      | some f => left; exact ⟨y, f, rfl, hy, hf, by simp [checkUnit, hy, hf]⟩

lemma unitArg_resolved (u : Option String) (same : Bool) (cur : Option String)
    (h1 : same = true) (h2 : truthy (unitArg u same cur) = false) : unitArg u same cur = cur := by
  unfold unitArg at h2 ⊢
  cases ht : truthy u <;> simp [ht, h1] at h2 ⊢

lemma pLabel_mode_cases (a : PRep) :
    (pLabel a).1 = "absolute" ∨ (pLabel a).1 = "relative" ∨ (pLabel a).1 = "relative%" := by
  cases a <;> simp [pLabel]

/-- converting to `absolute` with an unusable unit is refused (the guard excludes the one case where the code does not
look at the unit: absolute → absolute with a falsy unit, which `convert_pressure` resolves to the current unit) -/
lemma cPressure_abs_bad (ps : α) (v : α) (a : PRep) (ut : Option String)
    (hbad : (checkUnit Gen.pressureUnits ut : Except Err α) = .error .param)
    (hg : a.mode = "absolute" → truthy ut = true) :
    ∃ e, cPressure (some ps) true v (some a.mode) (some "absolute") a.unit ut = .error e := by
  cases a with
  | abs u =>
    have := hg rfl
    refine ⟨.param, ?_⟩
    simp [cPressure, checkBasis, Gen.pressureMode, List.lookup, Spec.PRep.mode, Spec.PRep.unit, this, cUnit, hbad,
      bind, Except.bind]
  | rel u =>
    refine ⟨.param, ?_⟩
    simp [cPressure, checkBasis, Gen.pressureMode, List.lookup, Spec.PRep.mode, hbad, bind, Except.bind]
  | relp u =>
    refine ⟨.param, ?_⟩
    simp [cPressure, checkBasis, Gen.pressureMode, List.lookup, Spec.PRep.mode, hbad, bind, Except.bind]

/-- **any pressure call**: refused and unchanged, or accepted as a supported `PRep` with the typed effect -/
lemma pCore_any (ps : α) (hps : ps ≠ 0) (env : Env α) (s : Iso α) (r : Rep) (sp : α) (hs : s.lab = labelsOf r)
    (hsp : r.p.scale Gen.pressureUnits ps = some sp)
    (m' : String) (u' : Option String) (hres : m' = s.lab.pmode → truthy u' = false → u' = s.lab.punit) :
    ((pCore ⟨some ps, env, true⟩ s m' u').2 ≠ .ok ∧ (pCore ⟨some ps, env, true⟩ s m' u').1 = s) ∨
    ((pCore ⟨some ps, env, true⟩ s m' u').2 = .ok ∧ ∃ t : PRep, ∃ st : α,
      t.scale Gen.pressureUnits ps = some st ∧
      (pCore ⟨some ps, env, true⟩ s m' u').1.lab = labelsOf { r with p := t } ∧
      (pCore ⟨some ps, env, true⟩ s m' u').1.ls = s.ls ∧
      (pCore ⟨some ps, env, true⟩ s m' u').1.temp = s.temp ∧
      (pCore ⟨some ps, env, true⟩ s m' u').1.ps = s.ps.map (· * (sp / st))) := by
  have hm : s.lab.pmode = (pLabel r.p).1 := by rw [hs]; rfl
  have hu : s.lab.punit = (pLabel r.p).2 := by rw [hs]; rfl
  have hspn := scale_ne_zero_gen ps hps r.p sp hsp
  have typed : ∀ (t : PRep) (st : α), t.scale Gen.pressureUnits ps = some st → t.mode = m' → t.unit = u' →
      ((pCore ⟨some ps, env, true⟩ s m' u').2 = .ok ∧ ∃ t : PRep, ∃ st : α,
      t.scale Gen.pressureUnits ps = some st ∧
      (pCore ⟨some ps, env, true⟩ s m' u').1.lab = labelsOf { r with p := t } ∧
      (pCore ⟨some ps, env, true⟩ s m' u').1.ls = s.ls ∧
      (pCore ⟨some ps, env, true⟩ s m' u').1.temp = s.temp ∧
      (pCore ⟨some ps, env, true⟩ s m' u').1.ps = s.ps.map (· * (sp / st))) := by
    intro t st hst h1 h2
    subst h1; subst h2
    obtain ⟨a1, a2, a3, a4, a5⟩ := pCore_typed ps hps env s r.p t sp st hm hu hsp hst
    exact ⟨a1, t, st, hst, by rw [a2, hs]; rfl, a3, a4, a5⟩
  have refused : (∃ e, cPressure (some ps) true (1 : α) (some s.lab.pmode) (some m') s.lab.punit u' = .error e) →
      ¬(m' = s.lab.pmode ∧ u' = s.lab.punit) →
      ((pCore ⟨some ps, env, true⟩ s m' u').2 ≠ .ok ∧ (pCore ⟨some ps, env, true⟩ s m' u').1 = s) := by
    rintro ⟨e, he⟩ hne
    have : (pCore ⟨some ps, env, true⟩ s m' u').2 ≠ .ok := by
      unfold pCore; simp [hne, he]
    exact ⟨this, pCore_refused _ _ _ _ this⟩
  by_cases h1 : m' = "relative"
  · exact Or.inr (typed (.rel u') ps rfl h1.symm rfl)
  by_cases h2 : m' = "relative%"
  · exact Or.inr (typed (.relp u') (ps / 100) rfl h2.symm rfl)
  by_cases he : m' = s.lab.pmode ∧ u' = s.lab.punit
  · -- early return
    right
    have : pCore ⟨some ps, env, true⟩ s m' u' = (s, .ok) := by unfold pCore; simp [he]
    rw [this]
    exact ⟨rfl, r.p, sp, hsp, hs, rfl, rfl, by simp [hspn]⟩
  by_cases h3 : m' = "absolute"
  · rcases checkUnit_cases (α := α) Gen.pressureUnits u' with ⟨y, f, rfl, hy, hf, _⟩ | hbad
    · refine Or.inr (typed (.abs y) f ?_ h3.symm rfl)
      simp only [Spec.PRep.scale, hy, if_false]; exact hf
    · left
      apply refused _ he
      have := cPressure_abs_bad ps (1 : α) (canonPRep r.p) u' hbad (by
        intro hmode
        rw [canonPRep_mode, ← hm] at hmode
        by_contra hf
        have hf' : truthy u' = false := by simpa using hf
        exact he ⟨h3.trans hmode.symm, hres (h3.trans hmode.symm) hf'⟩)
      rw [canonPRep_mode, canonPRep_unit, ← hm, ← hu, ← h3] at this
      exact this
  · left
    apply refused _ he
    have hl : Gen.pressureMode.lookup m' = none := by
      have b1 : (m' == "relative") = false := by simpa using h1
      have b2 : (m' == "relative%") = false := by simpa using h2
      have b3 : (m' == "absolute") = false := by simpa using h3
      simp [Gen.pressureMode, List.lookup, b1, b2, b3]
    have hb := C01.checkBasis_refuses Gen.pressureMode (some m') (Or.inr (Or.inr ⟨m', rfl, hl⟩))
    exact ⟨.param, C01.cPressure_refuses_mode _ _ _ _ _ _ _ (Or.inr hb)⟩

/-- an accepted temperature unit is `K` or a Celsius spelling -/
lemma cTemperature_ok_inv (v x : α) (uf ut : Option String) (h : cTemperature v uf ut = .ok x) :
    ∃ t : TRep, TRep.Valid t ∧ ut = some t.label := by
  cases ut with
  | none => simp [cTemperature, normTemp, checkTemp, bind, Except.bind] at h
  | some y =>
    by_cases hy : y ≠ "" ∧ containsC y = true
    · exact ⟨.C y, hy, rfl⟩
    · have hn : normTemp (some y) = some y := by
        simp only [normTemp]
        split
        · rename_i hc
          simp only [bne_iff_ne, ne_eq, Bool.and_eq_true] at hc
          exact absurd hc hy
        · rfl
      by_cases hK : y = "K"
      · exact ⟨.K, trivial, by rw [hK]; rfl⟩
      · exfalso
        have hC : y ≠ "°C" := by
          intro hc; apply hy; rw [hc]; exact ⟨by decide, by decide⟩
        have b1 : (y == "K") = false := by simpa using hK
        have b2 : (y == "°C") = false := by simpa using hC
        have : (checkTemp (some y) : Except Err α) = .error .param := by
          simp only [checkTemp, tempOffset, Gen.temperatureUnits, List.lookup, b1, b2]
          split <;> rfl
        simp [cTemperature, hn, this, bind, Except.bind] at h

/-- **any temperature call** -/
lemma convertTemperature_any (s : Iso α) (r : Rep) (hs : s.lab = labelsOf r) (hrt : r.t = .K ∨ r.t = .C "°C")
    (u : Option String) :
    ((convertTemperature s u).2 ≠ .ok ∧ (convertTemperature s u).1 = s) ∨
    ((convertTemperature s u).2 = .ok ∧ ∃ t : TRep, TRep.Valid t ∧
      (convertTemperature s u).1.lab = labelsOf { r with t := normT t } ∧
      (convertTemperature s u).1.ps = s.ps ∧ (convertTemperature s u).1.ls = s.ls ∧
      (normT t).toK (convertTemperature s u).1.temp = r.t.toK s.temp) := by
  cases h : cTemperature s.temp s.lab.tunit u with
  | error e =>
    left
    have : (convertTemperature s u).2 ≠ .ok := by simp [convertTemperature, h]
    exact ⟨this, convertTemperature_refused_unchanged s u this⟩
  | ok x =>
    right
    obtain ⟨t, ht, rfl⟩ := cTemperature_ok_inv _ _ _ _ h
    obtain ⟨a1, a2, a3, a4, _, a6⟩ := convertTemperature_typed s r t hs hrt ht
    exact ⟨a1, t, ht, a2, a3, a4, a6⟩

lemma mb_cases (b' : String) : (∃ b : MB, b.name = b') ∨ Gen.materialMode.lookup b' = none := by
  by_cases h1 : b' = "mass"
  · exact Or.inl ⟨.mass, h1.symm⟩
  by_cases h2 : b' = "volume"
  · exact Or.inl ⟨.volume, h2.symm⟩
  by_cases h3 : b' = "molar"
  · exact Or.inl ⟨.molar, h3.symm⟩
  right
  have b1 : (b' == "mass") = false := by simpa using h1
  have b2 : (b' == "volume") = false := by simpa using h2
  have b3 : (b' == "molar") = false := by simpa using h3
  simp [Gen.materialMode, List.lookup, b1, b2, b3]

lemma checkBasis_material (b : MB) : checkBasis Gen.materialMode (some b.name) = .ok (b.name, some b.table) := by
  cases b <;> rfl

/-- a material conversion whose target unit is unusable is refused (guard: for an unchanged basis the code only looks at
a truthy unit different from the current one — `convert_material` has resolved the other cases before) -/
lemma cMaterial_bad_unit (env : Env α) (v : α) (b1 b2 : MB) (u1 : String) (ut : Option String)
    (hbad : (checkUnit (Gen.unitTable b2.table) ut : Except Err α) = .error .param)
    (hg : b1 = b2 → truthy ut = true ∧ some u1 ≠ ut) :
    ∃ e, cMaterial env v (some b1.name) (some b2.name) (some u1) ut = .error e := by
  by_cases hb : b1 = b2
  · subst hb
    obtain ⟨g1, g2⟩ := hg rfl
    refine ⟨.param, ?_⟩
    simp [cMaterial, checkBasis_material, g1, g2, cUnit, hbad, bind, Except.bind]
  · exact ⟨.param, C01.cMaterial_refuses_unit env v b1 b2 hb (some u1) ut (Or.inr hbad)⟩

/-- **any material call**: refused and unchanged, or accepted as a supported `MRep` with the typed effect -/
lemma mCore_any (a : Ads α) (mat : Mat α) (hc : a.Consistent) (hp : a.Pos) (hmp : Mat.Pos mat)
    (psat : Option α) (tOk : Bool) (s : Iso α) (r : Rep) (sl g : α) (hs : s.lab = labelsOf r)
    (hsl : r.l.scale Gen.unitTable a r.m = some sl) (hg : r.m.grams Gen.unitTable mat = some g)
    (b' : String) (u' : Option String) (hres : b' = s.lab.mbasis → truthy u' = false → u' = s.lab.munit) :
    ((mCore ⟨psat, envOf a mat, tOk⟩ s b' u').2 ≠ .ok ∧ (mCore ⟨psat, envOf a mat, tOk⟩ s b' u').1 = s) ∨
    ((mCore ⟨psat, envOf a mat, tOk⟩ s b' u').2 = .ok ∧ ∃ m : MRep, ∃ sl' g' : α,
      r.l.scale Gen.unitTable a m = some sl' ∧ m.grams Gen.unitTable mat = some g' ∧
      (mCore ⟨psat, envOf a mat, tOk⟩ s b' u').1.lab = labelsOf { r with m := m } ∧
      (mCore ⟨psat, envOf a mat, tOk⟩ s b' u').1.ps = s.ps ∧
      (mCore ⟨psat, envOf a mat, tOk⟩ s b' u').1.temp = s.temp ∧
      (mCore ⟨psat, envOf a mat, tOk⟩ s b' u').1.ls = s.ls.map (· * ((sl / g) / (sl' / g')))) := by
  have hb : s.lab.lbasis = r.l.basis := by rw [hs]; rfl
  have hmb : s.lab.mbasis = r.m.b.name := by rw [hs]; rfl
  have hmu : s.lab.munit = some r.m.u := by rw [hs]; rfl
  have hgn := grams_ne_zero_gen mat hmp r.m g hg
  have hsn := lscale_ne_zero_gen a hp r.m r.l sl hsl
  have typed : ∀ (m : MRep) (g' : α), m.grams Gen.unitTable mat = some g' → m.b.name = b' → some m.u = u' →
      ((mCore ⟨psat, envOf a mat, tOk⟩ s b' u').2 = .ok ∧ ∃ m : MRep, ∃ sl' g' : α,
      r.l.scale Gen.unitTable a m = some sl' ∧ m.grams Gen.unitTable mat = some g' ∧
      (mCore ⟨psat, envOf a mat, tOk⟩ s b' u').1.lab = labelsOf { r with m := m } ∧
      (mCore ⟨psat, envOf a mat, tOk⟩ s b' u').1.ps = s.ps ∧
      (mCore ⟨psat, envOf a mat, tOk⟩ s b' u').1.temp = s.temp ∧
      (mCore ⟨psat, envOf a mat, tOk⟩ s b' u').1.ls = s.ls.map (· * ((sl / g) / (sl' / g')))) := by
    intro m g' hg' h1 h2
    subst h1; subst h2
    obtain ⟨sl', hsl'⟩ := lscale_of_grams a mat r.l r.m m sl g' hsl hg'
    obtain ⟨a1, a2, a3, a4, a5⟩ := mCore_typed a mat hc hp hmp psat tOk s r.l r.m m g g' sl sl' hb hmb hmu hg hg' hsl hsl'
    exact ⟨a1, m, sl', g', hsl', hg', by rw [a2, hs]; rfl, a3, a4, a5⟩
  have refused : (∃ e, cMaterial (envOf a mat) (1 : α) (some s.lab.mbasis) (some b') s.lab.munit u' = .error e) →
      ¬(b' = s.lab.mbasis ∧ u' = s.lab.munit) →
      ((mCore ⟨psat, envOf a mat, tOk⟩ s b' u').2 ≠ .ok ∧ (mCore ⟨psat, envOf a mat, tOk⟩ s b' u').1 = s) := by
    rintro ⟨e, he⟩ hne
    have : (mCore ⟨psat, envOf a mat, tOk⟩ s b' u').2 ≠ .ok := by
      unfold mCore; simp only [hne, if_false, he]; split <;> simp
    exact ⟨this, mCore_refused _ _ _ _ this⟩
  by_cases he : b' = s.lab.mbasis ∧ u' = s.lab.munit
  · right
    have : mCore ⟨psat, envOf a mat, tOk⟩ s b' u' = (s, .ok) := by unfold mCore; simp [he]
    rw [this]
    exact ⟨rfl, r.m, sl, g, hsl, hg, hs, rfl, rfl, by simp [div_self (div_ne_zero hsn hgn)]⟩
  rcases mb_cases b' with ⟨b, rfl⟩ | hnone
  · rcases checkUnit_cases (α := α) (Gen.unitTable b.table) u' with ⟨y, f, rfl, hy, hf, _⟩ | hbad
    · refine Or.inr (typed ⟨b, y⟩ (f * gM mat b) ?_ rfl rfl)
      simp only [Spec.MRep.grams, hy, if_false]
      rw [← facOf_eq_fac, hf]; rfl
    · left
      apply refused _ he
      rw [hmb, hmu]
      apply cMaterial_bad_unit _ _ _ _ _ _ hbad
      intro hbb
      have e1 : b.name = s.lab.mbasis := by rw [hmb, hbb]
      have ht : truthy u' = true := by
        by_contra hf
        have hf' : truthy u' = false := by simpa using hf
        exact he ⟨e1, hres e1 hf'⟩
      refine ⟨ht, ?_⟩
      intro h
      exact he ⟨e1, by rw [hmu, h]⟩
  · left
    apply refused _ he
    have hbt := C01.checkBasis_refuses Gen.materialMode (some b') (Or.inr (Or.inr ⟨b', rfl, hnone⟩))
    refine ⟨.param, ?_⟩
    rw [hmb]
    simp [cMaterial, checkBasis_material, hbt, bind, Except.bind]

lemma lb_cases (b' : String) :
    (∃ b : LB, b.name = b') ∨ b' = "fraction" ∨ b' = "percent" ∨ Gen.loadingMode.lookup b' = none := by
  by_cases h1 : b' = "mass"
  · exact Or.inl ⟨.mass, h1.symm⟩
  by_cases h2 : b' = "volume_gas"
  · exact Or.inl ⟨.volGas, h2.symm⟩
  by_cases h3 : b' = "volume_liquid"
  · exact Or.inl ⟨.volLiq, h3.symm⟩
  by_cases h4 : b' = "molar"
  · exact Or.inl ⟨.molar, h4.symm⟩
  by_cases h5 : b' = "fraction"
  · exact Or.inr (Or.inl h5)
  by_cases h6 : b' = "percent"
  · exact Or.inr (Or.inr (Or.inl h6))
  right; right; right
  have b1 : (b' == "mass") = false := by simpa using h1
  have b2 : (b' == "volume_gas") = false := by simpa using h2
  have b3 : (b' == "volume_liquid") = false := by simpa using h3
  have b4 : (b' == "molar") = false := by simpa using h4
  have b5 : (b' == "fraction") = false := by simpa using h5
  have b6 : (b' == "percent") = false := by simpa using h6
  simp [Gen.loadingMode, List.lookup, b1, b2, b3, b4, b5, b6]

lemma checkBasis_loading_phys (b : LB) :
    checkBasis Gen.loadingMode (some b.name) = .ok (b.name, some b.table) := by cases b <;> rfl

lemma checkBasis_loading (l : LRep) : ∃ tf, checkBasis Gen.loadingMode (some l.basis) = .ok (l.basis, tf) := by
  cases l with
  | phys b u => exact ⟨_, checkBasis_loading_phys b⟩
  | frac => exact ⟨_, frac_basis⟩
  | pct => exact ⟨_, pct_basis⟩

lemma LB.name_ne_frac (b : LB) : b.name ≠ "fraction" ∧ b.name ≠ "percent" := by
  cases b <;> simp [Spec.LB.name]

/-- a loading conversion to a physical basis whose unit is unusable is refused (guard as for the material) -/
lemma cLoading_bad_unit (env : Env α) (v : α) (l1 : LRep) (b2 : LB) (ut bm um : Option String)
    (hbad : (checkUnit (Gen.unitTable b2.table) ut : Except Err α) = .error .param)
    (hg : l1.basis = b2.name → truthy ut = true ∧ l1.unit ≠ ut) :
    ∃ e, cLoading env v (some l1.basis) (some b2.name) l1.unit ut bm um = .error e := by
  cases l1 with
  | phys b1 u1 =>
    by_cases hb : b1 = b2
    · subst hb
      obtain ⟨g1, g2⟩ := hg rfl
      refine ⟨.param, ?_⟩
      simp only [LRep.unit] at g2
      simp [cLoading, LRep.basis, LRep.unit, checkBasis_loading_phys, g1, g2, cUnit, hbad, bind, Except.bind]
    · exact ⟨.param, C01.cLoading_refuses_unit env v b1 b2 hb (some u1) ut bm um (Or.inr hbad)⟩
  | frac =>
    refine ⟨.param, ?_⟩
    have hne : "fraction" ≠ b2.name := fun h => (LB.name_ne_frac b2).1 h.symm
    simp [cLoading, LRep.basis, frac_basis, checkBasis_loading_phys, hne, hbad, bind, Except.bind]
  | pct =>
    refine ⟨.param, ?_⟩
    have hne : "percent" ≠ b2.name := fun h => (LB.name_ne_frac b2).2 h.symm
    simp [cLoading, LRep.basis, pct_basis, checkBasis_loading_phys, hne, hbad, bind, Except.bind]

/-- towards fraction / percent the target unit argument is never looked at -/
lemma cLoading_frac_unit_indep (env : Env α) (v : α) (l1 : LRep) (bt : String)
    (hbt : bt = "fraction" ∨ bt = "percent") (hne : l1.basis ≠ bt) (uf ut bm um : Option String) :
    cLoading env v (some l1.basis) (some bt) uf ut bm um = cLoading env v (some l1.basis) (some bt) uf none bm um := by
  obtain ⟨tf, hb1⟩ := checkBasis_loading l1
  rcases hbt with rfl | rfl
  · simp [cLoading, hb1, frac_basis, hne, isFrac, bind, Except.bind]
  · simp [cLoading, hb1, pct_basis, hne, isFrac, bind, Except.bind]

/-- **any loading call**: refused and unchanged, or accepted as a supported `LRep` with the typed effect -/
lemma lCore_any (a : Ads α) (mat : Mat α) (hc : a.Consistent) (hp : a.Pos)
    (psat : Option α) (tOk : Bool) (s : Iso α) (r : Rep) (sl g : α) (hs : s.lab = labelsOf r)
    (hsl : r.l.scale Gen.unitTable a r.m = some sl) (hg : r.m.grams Gen.unitTable mat = some g)
    (b' : String) (u' : Option String) (hres : b' = s.lab.lbasis → truthy u' = false → u' = s.lab.lunit) :
    ((lCore ⟨psat, envOf a mat, tOk⟩ s b' u').2 ≠ .ok ∧ (lCore ⟨psat, envOf a mat, tOk⟩ s b' u').1 = s) ∨
    ((lCore ⟨psat, envOf a mat, tOk⟩ s b' u').2 = .ok ∧ ∃ l : LRep, ∃ sl' : α,
      l.scale Gen.unitTable a r.m = some sl' ∧
      (lCore ⟨psat, envOf a mat, tOk⟩ s b' u').1.lab = labelsOf { r with l := l } ∧
      (lCore ⟨psat, envOf a mat, tOk⟩ s b' u').1.ps = s.ps ∧
      (lCore ⟨psat, envOf a mat, tOk⟩ s b' u').1.temp = s.temp ∧
      (lCore ⟨psat, envOf a mat, tOk⟩ s b' u').1.ls = s.ls.map (· * (sl / sl'))) := by
  have hb : s.lab.lbasis = r.l.basis := by rw [hs]; rfl
  have hu : s.lab.lunit = r.l.unit := by rw [hs]; rfl
  have hmb : s.lab.mbasis = r.m.b.name := by rw [hs]; rfl
  have hmu : s.lab.munit = some r.m.u := by rw [hs]; rfl
  have hsn := lscale_ne_zero_gen a hp r.m r.l sl hsl
  have typed : ∀ (l : LRep) (sl' : α), l.scale Gen.unitTable a r.m = some sl' → l.basis = b' →
      lCore ⟨psat, envOf a mat, tOk⟩ s b' u' = lCore ⟨psat, envOf a mat, tOk⟩ s l.basis l.unit →
      ((lCore ⟨psat, envOf a mat, tOk⟩ s b' u').2 = .ok ∧ ∃ l : LRep, ∃ sl' : α,
      l.scale Gen.unitTable a r.m = some sl' ∧
      (lCore ⟨psat, envOf a mat, tOk⟩ s b' u').1.lab = labelsOf { r with l := l } ∧
      (lCore ⟨psat, envOf a mat, tOk⟩ s b' u').1.ps = s.ps ∧
      (lCore ⟨psat, envOf a mat, tOk⟩ s b' u').1.temp = s.temp ∧
      (lCore ⟨psat, envOf a mat, tOk⟩ s b' u').1.ls = s.ls.map (· * (sl / sl'))) := by
    intro l sl' hsl' h1 h2
    rw [h2]
    obtain ⟨a1, a2, a3, a4, a5⟩ := lCore_typed a mat hc hp psat tOk s r.m r.l l sl sl' hb hu hmb hmu hsl hsl'
    exact ⟨a1, l, sl', hsl', by rw [a2, hs]; rfl, a3, a4, a5⟩
  have unchanged : lCore ⟨psat, envOf a mat, tOk⟩ s b' u' = (s, .ok) →
      ((lCore ⟨psat, envOf a mat, tOk⟩ s b' u').2 = .ok ∧ ∃ l : LRep, ∃ sl' : α,
      l.scale Gen.unitTable a r.m = some sl' ∧
      (lCore ⟨psat, envOf a mat, tOk⟩ s b' u').1.lab = labelsOf { r with l := l } ∧
      (lCore ⟨psat, envOf a mat, tOk⟩ s b' u').1.ps = s.ps ∧
      (lCore ⟨psat, envOf a mat, tOk⟩ s b' u').1.temp = s.temp ∧
      (lCore ⟨psat, envOf a mat, tOk⟩ s b' u').1.ls = s.ls.map (· * (sl / sl'))) := by
    intro h
    rw [h]
    exact ⟨rfl, r.l, sl, hsl, hs, rfl, rfl, by simp [hsn]⟩
  by_cases he : b' = s.lab.lbasis ∧ u' = s.lab.lunit
  · exact Or.inr (unchanged (by unfold lCore; simp [he]))
  by_cases he2 : (isFrac s.lab.lbasis && decide (b' = s.lab.lbasis)) = true
  · exact Or.inr (unchanged (by unfold lCore; simp only [he, if_false, he2, if_true]))
  have refused : (∃ e, cLoading (envOf a mat) (1 : α) (some s.lab.lbasis) (some b') s.lab.lunit u'
        (some s.lab.mbasis) s.lab.munit = .error e) →
      ((lCore ⟨psat, envOf a mat, tOk⟩ s b' u').2 ≠ .ok ∧ (lCore ⟨psat, envOf a mat, tOk⟩ s b' u').1 = s) := by
    rintro ⟨e, hee⟩
    have : (lCore ⟨psat, envOf a mat, tOk⟩ s b' u').2 ≠ .ok := by
      unfold lCore; simp [he, he2, hee]
    exact ⟨this, lCore_refused _ _ _ _ this⟩
  -- towards fraction / percent: the unit argument is irrelevant
  have fracTarget : ∀ l : LRep, (l = .frac ∨ l = .pct) → l.basis = b' →
      lCore ⟨psat, envOf a mat, tOk⟩ s b' u' = lCore ⟨psat, envOf a mat, tOk⟩ s l.basis l.unit := by
    intro l hl hlb
    have hbt : b' = "fraction" ∨ b' = "percent" := by
      rcases hl with rfl | rfl
      · exact Or.inl hlb.symm
      · exact Or.inr hlb.symm
    have hlu : l.unit = none := by rcases hl with rfl | rfl <;> rfl
    have hfb : isFrac b' = true := by rcases hbt with rfl | rfl <;> rfl
    have hne : b' ≠ s.lab.lbasis := by
      intro h
      apply he2
      simp only [Bool.and_eq_true, decide_eq_true_eq]
      exact ⟨by rw [← h]; exact hfb, h⟩
    have hne' : r.l.basis ≠ b' := fun h => hne (by rw [hb, h])
    have hind := cLoading_frac_unit_indep (envOf a mat) (1 : α) r.l b' hbt hne' s.lab.lunit u'
      (some s.lab.mbasis) s.lab.munit
    rw [hlb, hlu]
    unfold lCore
    simp only [hne, false_and, if_false, Bool.and_false, decide_false, Bool.false_eq_true, hfb, if_true]
    rw [← hb] at hind
    rw [hind]
  obtain ⟨p, hpown⟩ := own_scale_of_grams a mat r.m g hg
  rcases lb_cases b' with ⟨b, rfl⟩ | rfl | rfl | hnone
  · rcases checkUnit_cases (α := α) (Gen.unitTable b.table) u' with ⟨y, f, rfl, hy, hf, _⟩ | hbad
    · refine Or.inr (typed (.phys b y) (f * gL a b) ?_ rfl rfl)
      simp only [Spec.LRep.scale, Spec.physScale, hy, if_false]
      rw [← facOf_eq_fac, hf]; rfl
    · left
      apply refused
      rw [hb, hu]
      apply cLoading_bad_unit _ _ _ _ _ _ _ hbad
      intro hbb
      have e1 : b.name = s.lab.lbasis := by rw [hb, hbb]
      have ht : truthy u' = true := by
        by_contra hf
        have hf' : truthy u' = false := by simpa using hf
        exact he ⟨e1, hres e1 hf'⟩
      refine ⟨ht, ?_⟩
      intro h
      exact he ⟨e1, by rw [hu, h]⟩
  · exact Or.inr (typed .frac p hpown rfl (fracTarget .frac (Or.inl rfl) rfl))
  · exact Or.inr (typed .pct (p / 100) (by simp [Spec.LRep.scale, hpown]) rfl (fracTarget .pct (Or.inr rfl) rfl))
  · left
    apply refused
    have hbt := C01.checkBasis_refuses Gen.loadingMode (some b') (Or.inr (Or.inr ⟨b', rfl, hnone⟩))
    obtain ⟨tf, hb1⟩ := checkBasis_loading r.l
    refine ⟨.param, ?_⟩
    rw [hb]
    simp [cLoading, hb1, hbt, bind, Except.bind]

lemma orCurrent_cases (arg : Option String) (cur : String) :
    orCurrent arg cur = cur ∨ ∃ x, arg = some x ∧ x ≠ "" ∧ orCurrent arg cur = x := by
  cases arg with
  | none => exact Or.inl rfl
  | some x =>
    by_cases hx : x = ""
    · left; simp [orCurrent, hx]
    · right; exact ⟨x, rfl, hx, by simp [orCurrent, hx]⟩

lemma unitArg_hres (u : Option String) (m' cur' : String) (cur : Option String) :
    m' = cur' → truthy (unitArg u (decide (m' = cur')) cur) = false → unitArg u (decide (m' = cur')) cur = cur := by
  intro h1 h2
  exact unitArg_resolved u _ cur (by simp [h1]) h2

/-- **completeness of validation** (`step_any_args`, full strength for all four quantities): from a valid typed state,
ANY single-quantity call with ARBITRARY optional-string arguments (unknown modes, bases and units, empty strings,
omitted arguments, …) either is refused — then the state is exactly unchanged — or returns normally — then the new
labels are again `labelsOf` of a supported representation `r'` (so the constructor would accept them) and pressures,
loadings and temperature carry row by row the same Pa, mol/g and K as before.  No argument can drive the isotherm
into a state whose labels do not describe its data. -/
theorem step_any_args (ps : α) (hps : ps ≠ 0) (a : Ads α) (mat : Mat α) (hc : a.Consistent) (hp : a.Pos)
    (hmp : Mat.Pos mat) (s : Iso α) (r : Rep) (hs : s.lab = labelsOf r) (hr : Rep.Valid ps a mat r)
    (op : Op) (hop : ∀ pm pu lb lu mb mu, op ≠ .all pm pu lb lu mb mu) :
    ((step ⟨some ps, envOf a mat, true⟩ s op).2 ≠ .ok ∧ (step ⟨some ps, envOf a mat, true⟩ s op).1 = s) ∨
    ((step ⟨some ps, envOf a mat, true⟩ s op).2 = .ok ∧ ∃ r' : Rep, Rep.Valid ps a mat r' ∧
      validLabels (step ⟨some ps, envOf a mat, true⟩ s op).1.lab = true ∧
      Conserved ps a mat s r (step ⟨some ps, envOf a mat, true⟩ s op).1 r') := by
  obtain ⟨⟨hsp, hspn⟩, ⟨hsl, hsln⟩, ⟨hg, hgn⟩⟩ := hr.scales hps hp hmp
  obtain ⟨v1, v2, v3, v4⟩ := hr
  have fin : ∀ (s' : Iso α) (r' : Rep), Rep.Valid ps a mat r' → Conserved ps a mat s r s' r' →
      ∃ r' : Rep, Rep.Valid ps a mat r' ∧ validLabels s'.lab = true ∧ Conserved ps a mat s r s' r' :=
    fun s' r' hv hcn => ⟨r', hv, by rw [hcn.lab]; exact validLabels_of_valid ps a mat r' hv, hcn⟩
  cases op with
  | all pm pu lb lu mb mu => exact absurd rfl (hop pm pu lb lu mb mu)
  | pressure m u =>
    simp only [step]
    rw [convertPressure_core]
    rcases pCore_any ps hps (envOf a mat) s r _ hs hsp _ _ (unitArg_hres u _ _ _) with h | ⟨hok, t, st, hst, a2, a3, a4, a5⟩
    · exact Or.inl h
    · refine Or.inr ⟨hok, fin _ { r with p := t } ⟨by simp [hst], v2, v3, v4⟩ ⟨a2, ?_, ?_, ?_⟩⟩
      · rw [a5]
        apply conserve_map
        intro v
        simp only [canonP, spOf_eq hst]
        have : st ≠ 0 := scale_ne_zero_gen ps hps t st hst
        field_simp
      · rw [a3]; rfl
      · rw [a4]; rfl
  | loading b u =>
    simp only [step]
    rw [convertLoading_core]
    rcases lCore_any a mat hc hp (some ps) true s r _ _ hs hsl hg _ _ (unitArg_hres u _ _ _) with
      h | ⟨hok, l, sl', hsl', a2, a3, a4, a5⟩
    · exact Or.inl h
    · refine Or.inr ⟨hok, fin _ { r with l := l } ⟨v1, by simp [hsl'], v3, v4⟩ ⟨a2, ?_, ?_, ?_⟩⟩
      · rw [a3]; rfl
      · rw [a5]
        apply conserve_map
        intro v
        simp only [canonL, slOf_eq hsl']
        have : sl' ≠ 0 := lscale_ne_zero_gen a hp r.m l sl' hsl'
        field_simp
      · rw [a4]; rfl
  | material b u =>
    simp only [step]
    rw [convertMaterial_core]
    rcases mCore_any a mat hc hp hmp (some ps) true s r _ _ hs hsl hg _ _ (unitArg_hres u _ _ _) with
      h | ⟨hok, m, sl', g', hsl', hg', a2, a3, a4, a5⟩
    · exact Or.inl h
    · refine Or.inr ⟨hok, fin _ { r with m := m } ⟨v1, by simp [hsl'], by simp [hg'], v4⟩ ⟨a2, ?_, ?_, ?_⟩⟩
      · rw [a3]; rfl
      · rw [a5]
        apply conserve_map
        intro v
        simp only [canonL, slOf_eq hsl', gmOf_eq hg']
        have e1 : sl' ≠ 0 := lscale_ne_zero_gen a hp m r.l sl' hsl'
        have e2 : g' ≠ 0 := grams_ne_zero_gen mat hmp m g' hg'
        field_simp
      · rw [a4]; rfl
  | temperature u =>
    simp only [step]
    rcases convertTemperature_any s r hs v4 u with h | ⟨hok, t, ht, a2, a3, a4, a6⟩
    · exact Or.inl h
    · refine Or.inr ⟨hok, fin _ { r with t := normT t } ⟨v1, v2, v3, by cases t <;> simp [normT]⟩ ⟨a2, ?_, ?_, a6⟩⟩
      · rw [a3]; rfl
      · rw [a4]; rfl

/-- "still a valid isotherm, consistent with its data": the labels name a supported representation under which the
stored numbers carry the reference content -/
def Good (ps : α) (a : Ads α) (mat : Mat α) (s0 : Iso α) (r0 : Rep) (s : Iso α) : Prop :=
  ∃ r : Rep, Rep.Valid ps a mat r ∧ validLabels s.lab = true ∧ Conserved ps a mat s0 r0 s r

lemma good_single (ps : α) (hps : ps ≠ 0) (a : Ads α) (mat : Mat α) (hc : a.Consistent) (hp : a.Pos)
    (hmp : Mat.Pos mat) (s0 : Iso α) (r0 : Rep) (s : Iso α) (hgood : Good ps a mat s0 r0 s)
    (op : Op) (hop : ∀ pm pu lb lu mb mu, op ≠ .all pm pu lb lu mb mu) :
    Good ps a mat s0 r0 (step ⟨some ps, envOf a mat, true⟩ s op).1 := by
  obtain ⟨r, hv, hl, hcn⟩ := hgood
  rcases step_any_args ps hps a mat hc hp hmp s r hcn.lab hv op hop with ⟨_, h⟩ | ⟨_, r', hv', hl', hcn'⟩
  · rw [h]; exact ⟨r, hv, hl, hcn⟩
  · exact ⟨r', hv', hl', hcn.trans hcn'⟩

lemma good_all (ps : α) (hps : ps ≠ 0) (a : Ads α) (mat : Mat α) (hc : a.Consistent) (hp : a.Pos)
    (hmp : Mat.Pos mat) (s0 : Iso α) (r0 : Rep) (s : Iso α) (hgood : Good ps a mat s0 r0 s)
    (pm pu lb lu mb mu : Option String) :
    Good ps a mat s0 r0 (convertAll ⟨some ps, envOf a mat, true⟩ s pm pu lb lu mb mu).1 := by
  have gP : Good ps a mat s0 r0
      (if truthy pm || truthy pu then convertPressure ⟨some ps, envOf a mat, true⟩ s pm pu else (s, .ok)).1 := by
    split
    · exact good_single ps hps a mat hc hp hmp s0 r0 s hgood (.pressure pm pu) (by intros; simp)
    · exact hgood
  rw [convertAll_eq_tail]
  cases hr : (if truthy pm || truthy pu then convertPressure ⟨some ps, envOf a mat, true⟩ s pm pu else (s, .ok)) with
  | mk sp op =>
  rw [hr] at gP
  cases op with
  | err e => exact gP
  | ok =>
    simp only
    have gM : Good ps a mat s0 r0
        (if truthy mb || truthy mu then convertMaterial ⟨some ps, envOf a mat, true⟩ sp mb mu else (sp, .ok)).1 := by
      split
      · exact good_single ps hps a mat hc hp hmp s0 r0 sp gP (.material mb mu) (by intros; simp)
      · exact gP
    unfold convTail
    simp only
    cases hr2 : (if truthy mb || truthy mu then convertMaterial ⟨some ps, envOf a mat, true⟩ sp mb mu else (sp, .ok)) with
    | mk sm om =>
    rw [hr2] at gM
    cases om with
    | err e => exact gM
    | ok =>
      simp only
      split
      · exact good_single ps hps a mat hc hp hmp s0 r0 sm gM (.loading lb lu) (by intros; simp)
      · exact gM

/-- **after every call, successful or refused, single or combined, with any arguments, the isotherm is still valid
and consistent with its data** -/
theorem step_any_op_good (ps : α) (hps : ps ≠ 0) (a : Ads α) (mat : Mat α) (hc : a.Consistent) (hp : a.Pos)
    (hmp : Mat.Pos mat) (s0 : Iso α) (r0 : Rep) (s : Iso α) (hgood : Good ps a mat s0 r0 s) (op : Op) :
    Good ps a mat s0 r0 (step ⟨some ps, envOf a mat, true⟩ s op).1 := by
  cases op with
  | all pm pu lb lu mb mu => exact good_all ps hps a mat hc hp hmp s0 r0 s hgood pm pu lb lu mb mu
  | pressure m u => exact good_single ps hps a mat hc hp hmp s0 r0 s hgood _ (by intros; simp)
  | loading b u => exact good_single ps hps a mat hc hp hmp s0 r0 s hgood _ (by intros; simp)
  | material b u => exact good_single ps hps a mat hc hp hmp s0 r0 s hgood _ (by intros; simp)
  | temperature u => exact good_single ps hps a mat hc hp hmp s0 r0 s hgood _ (by intros; simp)

/-- **any history whatsoever** (arbitrary ops, arbitrary string arguments, refused or not): the final labels are
accepted by the constructor, they name a supported representation `rf`, and under `rf` the stored pressures, loadings
and temperature are row by row the original Pa, mol/g and K — equivalently the final columns are the original columns
converted directly to `rf`. -/
theorem run_any_history (ps : α) (hps : ps ≠ 0) (a : Ads α) (mat : Mat α) (hc : a.Consistent) (hp : a.Pos)
    (hmp : Mat.Pos mat) (s0 : Iso α) (r0 : Rep) (hs : s0.lab = labelsOf r0) (hr : Rep.Valid ps a mat r0)
    (ops : List Op) :
    ∃ rf : Rep, Rep.Valid ps a mat rf ∧
      validLabels (run ⟨some ps, envOf a mat, true⟩ s0 ops).lab = true ∧
      Conserved ps a mat s0 r0 (run ⟨some ps, envOf a mat, true⟩ s0 ops) rf ∧
      (run ⟨some ps, envOf a mat, true⟩ s0 ops).ps = s0.ps.map (· * (spOf ps r0.p / spOf ps rf.p)) ∧
      (run ⟨some ps, envOf a mat, true⟩ s0 ops).ls =
        s0.ls.map (· * ((slOf a r0.l r0.m / gmOf mat r0.m) / (slOf a rf.l rf.m / gmOf mat rf.m))) ∧
      (run ⟨some ps, envOf a mat, true⟩ s0 ops).temp = rf.t.ofK (r0.t.toK s0.temp) := by
  have main : ∀ (ops : List Op) (s : Iso α), Good ps a mat s0 r0 s →
      Good ps a mat s0 r0 (run ⟨some ps, envOf a mat, true⟩ s ops) := by
    intro ops
    induction ops with
    | nil => intro s h; exact h
    | cons op ops ih =>
      intro s h
      rw [run_cons]
      exact ih _ (step_any_op_good ps hps a mat hc hp hmp s0 r0 s h op)
  obtain ⟨rf, hv, hl, hcn⟩ := main ops s0
    ⟨r0, hr, by rw [hs]; exact validLabels_of_valid ps a mat r0 hr, Conserved.refl ps a mat s0 r0 hs⟩
  obtain ⟨d1, d2, d3⟩ := hcn.direct hps hp hmp hv
  exact ⟨rf, hv, hl, hcn, d1, d2, d3⟩

/-! ## Non-vacuity: a concrete valid representation over ℚ and a three-step history through `relative%` and `fraction` -/

section Example

/-- N2-like rationals (as in `Props/C01.lean`): M = 28 g/mol, consistent densities; a material of density 2 g/cm3 and
molar mass 60 g/mol; p_sat = 101325 Pa -/
def exAds : Ads ℚ := ⟨28, 4 / 5, 1 / 35, 7 / 1000, 1 / 4000⟩
def exMat : Mat ℚ := ⟨2, 60⟩
def exCtx : Ctx ℚ := ⟨some 101325, envOf exAds exMat, true⟩
def exRep : Rep := ⟨.abs "bar", .phys .molar "mmol", ⟨.mass, "g"⟩, .K⟩
def exIso : Iso ℚ := ⟨labelsOf exRep, [1, 2], [3, 4], 77, true, true⟩
def exOps : List TOp := [.toP (.relp none), .toL .frac, .toP (.abs "kPa")]

example : exAds.Consistent ∧ exAds.Pos ∧ Mat.Pos exMat ∧ (101325 : ℚ) ≠ 0 := by
  refine ⟨⟨?_, ?_⟩, ⟨?_, ?_, ?_, ?_, ?_⟩, ⟨?_, ?_⟩, ?_⟩ <;> norm_num [exAds, exMat]

example : Rep.Valid (101325 : ℚ) exAds exMat exRep :=
  ⟨by decide +kernel, by decide +kernel, by decide +kernel, Or.inl rfl⟩

example : ∀ op ∈ exOps, TOp.Valid (101325 : ℚ) exAds exMat op := by
  intro op hop
  simp only [exOps, List.mem_cons, List.not_mem_nil, or_false] at hop
  rcases hop with rfl | rfl | rfl
  · show (PRep.scale Gen.pressureUnits (101325 : ℚ) (.relp none)).isSome = true; decide +kernel
  · trivial
  · show (PRep.scale Gen.pressureUnits (101325 : ℚ) (.abs "kPa")).isSome = true; decide +kernel

/-- 1 bar, 2 bar → % of p_sat → (loading to g/g) → kPa: 100 kPa, 200 kPa; 3 mmol/g, 4 mmol/g of M = 28 → 0.084, 0.112 g/g -/
example : (run exCtx exIso (exOps.map TOp.toOp)).ps = [100, 200] := by decide +kernel
example : (run exCtx exIso (exOps.map TOp.toOp)).ls = [21 / 250, 14 / 125] := by decide +kernel
example : (run exCtx exIso (exOps.map TOp.toOp)).lab =
    ⟨"absolute", some "kPa", "fraction", none, "mass", some "g", some "K"⟩ := by decide +kernel
example : (run exCtx exIso (exOps.map TOp.toOp)).lab = labelsOf (exOps.foldl TOp.apply exRep) := by decide +kernel
/-- the intermediate state really is in `relative%` (labels carry no pressure unit there) -/
example : (run exCtx exIso ((exOps.take 1).map TOp.toOp)).lab.pmode = "relative%" ∧
    (run exCtx exIso ((exOps.take 1).map TOp.toOp)).lab.punit = none ∧
    (run exCtx exIso ((exOps.take 1).map TOp.toOp)).ps = [10000000 / 101325, 20000000 / 101325] := by decide +kernel
/-- and a refused call in between (unknown unit) changes nothing -/
example : (step exCtx exIso (.pressure none (some "psi"))).2 = .err .calc ∧
    (step exCtx exIso (.pressure none (some "psi"))).1.ps = exIso.ps ∧
    (step exCtx exIso (.pressure none (some "psi"))).1.lab = exIso.lab := by decide +kernel

end Example

end PgVerif.C02
