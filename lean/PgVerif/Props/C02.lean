/-
C02 — permanent isotherm conversions stay consistent over any conversion history.

Property theorems about the hand-written executable model `Model/IsoState.lean` of
`PointIsotherm.convert`, `convert_pressure`, `convert_loading`, `convert_material` (core/pointisotherm.py),
`convert_temperature` and the constructor's label checks (core/baseisotherm.py), which is tied to the code
by the driver's correspondence run.  The unit conversions underneath are `Model/Units.lean` over the
*generated* tables; their physical correctness is C01 (`Lemmas/Units.lean`, `Props/C01.lean`) and is reused here.

The model state `Iso α` holds only what a conversion can touch: labels, the pressure and loading columns,
the temperature and the two interpolator-cache flags.  Branch marks, extra data columns and metadata are
NOT part of the model state: no operation of the model can read or write them, which is the model's way of
saying "never altered" (the correspondence run checks that on the Python side).

All statements hold for every field `α` of characteristic zero (no order needed), every column content,
and — in part A — for ANY string arguments.
-/
import PgVerif.Props.C01
import PgVerif.Model.IsoState

set_option linter.unusedSectionVars false
set_option linter.unusedSimpArgs false
set_option linter.unusedVariables false
set_option linter.unusedTactic false
set_option linter.unreachableTactic false

namespace PgVerif.C02
open PgVerif.Model PgVerif.Units
open PgVerif.Spec (LB MB Ads Mat gL gM PRep LRep MRep TRep physScale fac)

variable {α : Type} [Field α] [CharZero α]

/-! ## A. Structure: refusals, row order, caches (any context, any state, any string arguments) -/

/-! ### helpers -/

lemma map_mul_one (l : List α) : l.map (· * (1 : α)) = l := by
  simp

/-- what one call may do to the state: columns are scaled, caches are only ever cleared, and a change of a
column clears both caches -/
structure Footprint (s s' : Iso α) : Prop where
  scaled : ∃ f g : α, s'.ps = s.ps.map (· * f) ∧ s'.ls = s.ls.map (· * g)
  cachesMono : (s.lcache = false → s'.lcache = false) ∧ (s.pcache = false → s'.pcache = false)
  changed : (s'.ps ≠ s.ps ∨ s'.ls ≠ s.ls) → s'.lcache = false ∧ s'.pcache = false

lemma Footprint.refl (s : Iso α) : Footprint s s :=
  ⟨⟨1, 1, by simp, by simp⟩, ⟨id, id⟩, fun h => by rcases h with h | h <;> exact absurd rfl h⟩

lemma Footprint.trans {s s' s'' : Iso α} (h1 : Footprint s s') (h2 : Footprint s' s'') : Footprint s s'' := by
  obtain ⟨⟨f1, g1, hp1, hl1⟩, ⟨ml1, mp1⟩, c1⟩ := h1
  obtain ⟨⟨f2, g2, hp2, hl2⟩, ⟨ml2, mp2⟩, c2⟩ := h2
  refine ⟨⟨f1 * f2, g1 * g2, ?_, ?_⟩, ⟨fun h => ml2 (ml1 h), fun h => mp2 (mp1 h)⟩, ?_⟩
  · rw [hp2, hp1, List.map_map]; congr 1; funext x; simp [mul_assoc]
  · rw [hl2, hl1, List.map_map]; congr 1; funext x; simp [mul_assoc]
  · intro h
    by_cases h' : s''.ps ≠ s'.ps ∨ s''.ls ≠ s'.ls
    · exact c2 h'
    · have e1 : s''.ps = s'.ps := by by_contra hne; exact h' (Or.inl hne)
      have e2 : s''.ls = s'.ls := by by_contra hne; exact h' (Or.inr hne)
      rw [e1, e2] at h
      obtain ⟨a, b⟩ := c1 h
      exact ⟨ml2 a, mp2 b⟩

/-- `convert_pressure` after its two argument defaults have been resolved -/
def pCore (c : Ctx α) (s : Iso α) (mode' : String) (unit' : Option String) : Iso α × Outcome :=
  if mode' = s.lab.pmode ∧ unit' = s.lab.punit then (s, .ok)
  else
    match cPressure c.psat c.tempOk (1 : α) (some s.lab.pmode) (some mode') s.lab.punit unit' with
    | .error _ => (s, .err .calc)
    | .ok f =>
      let pu := if unit' ≠ s.lab.punit ∧ mode' = "absolute" then unit' else none
      ({ s with ps := s.ps.map (· * f), lab := { s.lab with pmode := mode', punit := pu }, lcache := false, pcache := false }, .ok)

def lCore (c : Ctx α) (s : Iso α) (basis' : String) (unit' : Option String) : Iso α × Outcome :=
  if basis' = s.lab.lbasis ∧ unit' = s.lab.lunit then (s, .ok)
  else if isFrac s.lab.lbasis && basis' = s.lab.lbasis then (s, .ok)
  else
    match cLoading c.env (1 : α) (some s.lab.lbasis) (some basis') s.lab.lunit unit' (some s.lab.mbasis) s.lab.munit with
    | .error e => (s, .err e)
    | .ok f =>
      let lu := if isFrac basis' then none else unit'
      ({ s with ls := s.ls.map (· * f), lab := { s.lab with lbasis := basis', lunit := lu }, lcache := false, pcache := false }, .ok)

def mCore (c : Ctx α) (s : Iso α) (basis' : String) (unit' : Option String) : Iso α × Outcome :=
  if basis' = s.lab.mbasis ∧ unit' = s.lab.munit then (s, .ok)
  else if isFrac s.lab.lbasis && basis' = s.lab.mbasis then
    match cMaterial c.env (1 : α) (some s.lab.mbasis) (some basis') s.lab.munit unit' with
    | .error e => (s, .err e)
    | .ok _ => ({ s with lab := { s.lab with munit := unit' } }, .ok)
  else
    match cMaterial c.env (1 : α) (some s.lab.mbasis) (some basis') s.lab.munit unit' with
    | .error e => (s, .err e)
    | .ok f1 =>
      let r2 : Except Err α :=
        if isFrac s.lab.lbasis then
          cLoading c.env (1 : α) (some (volLiq s.lab.mbasis)) (some (volLiq basis')) s.lab.munit unit' none none
        else .ok 1
      match r2 with
      | .error e => (s, .err e)
      | .ok f2 =>
        ({ s with ls := s.ls.map (· * f1 * f2), lab := { s.lab with mbasis := basis', munit := unit' },
                  lcache := false, pcache := false }, .ok)

/-- the resolved second argument: an omitted (falsy) unit keeps the current one only if the mode/basis stays -/
def unitArg (u : Option String) (same : Bool) (cur : Option String) : Option String :=
  if !truthy u && same then cur else u

lemma convertPressure_core (c : Ctx α) (s : Iso α) (m u : Option String) :
    convertPressure c s m u =
      pCore c s (orCurrent m s.lab.pmode) (unitArg u (orCurrent m s.lab.pmode = s.lab.pmode) s.lab.punit) := rfl

lemma convertLoading_core (c : Ctx α) (s : Iso α) (b u : Option String) :
    convertLoading c s b u =
      lCore c s (orCurrent b s.lab.lbasis) (unitArg u (orCurrent b s.lab.lbasis = s.lab.lbasis) s.lab.lunit) := rfl

lemma convertMaterial_core (c : Ctx α) (s : Iso α) (b u : Option String) :
    convertMaterial c s b u =
      mCore c s (orCurrent b s.lab.mbasis) (unitArg u (orCurrent b s.lab.mbasis = s.lab.mbasis) s.lab.munit) := rfl

lemma pCore_footprint (c : Ctx α) (s : Iso α) (m : String) (u : Option String) :
    Footprint s (pCore c s m u).1 := by
  unfold pCore
  split
  · exact Footprint.refl s
  · split
    · exact Footprint.refl s
    · rename_i f _
      exact ⟨⟨f, 1, rfl, by simp⟩, ⟨fun _ => rfl, fun _ => rfl⟩, fun _ => ⟨rfl, rfl⟩⟩

lemma lCore_footprint (c : Ctx α) (s : Iso α) (b : String) (u : Option String) :
    Footprint s (lCore c s b u).1 := by
  unfold lCore
  split
  · exact Footprint.refl s
  · split
    · exact Footprint.refl s
    · split
      · exact Footprint.refl s
      · rename_i f _
        exact ⟨⟨1, f, by simp, rfl⟩, ⟨fun _ => rfl, fun _ => rfl⟩, fun _ => ⟨rfl, rfl⟩⟩

lemma mCore_footprint (c : Ctx α) (s : Iso α) (b : String) (u : Option String) :
    Footprint s (mCore c s b u).1 := by
  unfold mCore
  split
  · exact Footprint.refl s
  · split
    · split
      · exact Footprint.refl s
      · exact ⟨⟨1, 1, by simp, by simp⟩, ⟨id, id⟩, fun h => by rcases h with h | h <;> exact absurd rfl h⟩
    · split
      · exact Footprint.refl s
      · simp only
        split
        · exact Footprint.refl s
        · rename_i f1 _ _ f2 _
          exact ⟨⟨1, f1 * f2, by simp, by simp [mul_assoc]⟩, ⟨fun _ => rfl, fun _ => rfl⟩, fun _ => ⟨rfl, rfl⟩⟩

lemma convertPressure_footprint (c : Ctx α) (s : Iso α) (m u : Option String) :
    Footprint s (convertPressure c s m u).1 := by
  rw [convertPressure_core]; exact pCore_footprint ..

lemma convertLoading_footprint (c : Ctx α) (s : Iso α) (b u : Option String) :
    Footprint s (convertLoading c s b u).1 := by
  rw [convertLoading_core]; exact lCore_footprint ..

lemma convertMaterial_footprint (c : Ctx α) (s : Iso α) (b u : Option String) :
    Footprint s (convertMaterial c s b u).1 := by
  rw [convertMaterial_core]; exact mCore_footprint ..

lemma convertTemperature_footprint (s : Iso α) (u : Option String) :
    Footprint s (convertTemperature s u).1 := by
  unfold convertTemperature
  split
  · exact Footprint.refl s
  · exact ⟨⟨1, 1, by simp, by simp⟩, ⟨id, id⟩, fun h => by rcases h with h | h <;> exact absurd rfl h⟩

lemma pCore_refused (c : Ctx α) (s : Iso α) (m : String) (u : Option String)
    (h : (pCore c s m u).2 ≠ .ok) : (pCore c s m u).1 = s := by
  unfold pCore at h ⊢
  split
  · rfl
  · rename_i hne
    simp only [hne, if_false] at h
    split
    · rfl
    · rename_i f hf; simp [hf] at h

lemma lCore_refused (c : Ctx α) (s : Iso α) (b : String) (u : Option String)
    (h : (lCore c s b u).2 ≠ .ok) : (lCore c s b u).1 = s := by
  unfold lCore at h ⊢
  split
  · rfl
  · rename_i hne
    simp only [hne, if_false] at h
    split
    · rfl
    · rename_i hne2
      simp only [hne2] at h
      split
      · rfl
      · rename_i f hf; simp [hf] at h

lemma mCore_refused (c : Ctx α) (s : Iso α) (b : String) (u : Option String)
    (h : (mCore c s b u).2 ≠ .ok) : (mCore c s b u).1 = s := by
  unfold mCore at h ⊢
  split
  · rfl
  · rename_i hne
    simp only [hne, if_false] at h
    split
    · rename_i hv
      simp only [hv, if_true] at h
      split
      · rfl
      · rename_i f hf; simp [hf] at h
    · rename_i hv
      simp only [hv] at h
      split
      · rfl
      · rename_i f1 hf1
        simp only [hf1] at h ⊢
        split
        · rfl
        · rename_i f2 hf2; simp [hf2] at h

/-! ### A.1 a refused single-quantity conversion changes nothing -/

theorem convertPressure_refused_unchanged (c : Ctx α) (s : Iso α) (a b : Option String)
    (h : (convertPressure c s a b).2 ≠ .ok) : (convertPressure c s a b).1 = s := by
  rw [convertPressure_core] at h ⊢; exact pCore_refused _ _ _ _ h

theorem convertLoading_refused_unchanged (c : Ctx α) (s : Iso α) (a b : Option String)
    (h : (convertLoading c s a b).2 ≠ .ok) : (convertLoading c s a b).1 = s := by
  rw [convertLoading_core] at h ⊢; exact lCore_refused _ _ _ _ h

theorem convertMaterial_refused_unchanged (c : Ctx α) (s : Iso α) (a b : Option String)
    (h : (convertMaterial c s a b).2 ≠ .ok) : (convertMaterial c s a b).1 = s := by
  rw [convertMaterial_core] at h ⊢; exact mCore_refused _ _ _ _ h

theorem convertTemperature_refused_unchanged (s : Iso α) (u : Option String)
    (h : (convertTemperature s u).2 ≠ .ok) : (convertTemperature s u).1 = s := by
  unfold convertTemperature at h ⊢
  cases hc : cTemperature s.temp s.lab.tunit u with
  | error e => simp [hc]
  | ok t => simp [hc] at h

/-- every single-quantity call: refused ⇒ state unchanged -/
theorem step_single_refused_unchanged (c : Ctx α) (s : Iso α) (op : Op)
    (hop : ∀ pm pu lb lu mb mu, op ≠ .all pm pu lb lu mb mu)
    (h : (step c s op).2 ≠ .ok) : (step c s op).1 = s := by
  cases op with
  | pressure m u => exact convertPressure_refused_unchanged c s m u h
  | loading b u => exact convertLoading_refused_unchanged c s b u h
  | material b u => exact convertMaterial_refused_unchanged c s b u h
  | temperature u => exact convertTemperature_refused_unchanged s u h
  | all pm pu lb lu mb mu => exact absurd rfl (hop pm pu lb lu mb mu)

/-! ### A.2 a refused combined conversion leaves exactly the completed prefix -/

/-- `convert(...)` runs pressure, then material, then loading (each only if one of its two arguments is truthy).
If it is refused with `e`, exactly one of the three sub-steps was the refusing one: all earlier sub-steps
returned normally (or were skipped), the refusing sub-step itself changed nothing, and the resulting state is
the state reached just before it. -/
theorem convertAll_refused_prefix (c : Ctx α) (s : Iso α) (pm pu lb lu mb mu : Option String) (e : Err)
    (h : (convertAll c s pm pu lb lu mb mu).2 = .err e) :
    let doP := truthy pm || truthy pu
    let doM := truthy mb || truthy mu
    let doL := truthy lb || truthy lu
    let s1 := if doP then (convertPressure c s pm pu).1 else s
    let s2 := if doM then (convertMaterial c s1 mb mu).1 else s1
    let okP := doP = false ∨ (convertPressure c s pm pu).2 = .ok
    let okM := doM = false ∨ (convertMaterial c s1 mb mu).2 = .ok
    -- refused by the pressure step: nothing changed at all
    (doP = true ∧ (convertPressure c s pm pu).2 = .err e ∧ (convertPressure c s pm pu).1 = s ∧
      (convertAll c s pm pu lb lu mb mu).1 = s) ∨
    -- refused by the material step: exactly the pressure step's effect
    (okP ∧ doM = true ∧ (convertMaterial c s1 mb mu).2 = .err e ∧ (convertMaterial c s1 mb mu).1 = s1 ∧
      (convertAll c s pm pu lb lu mb mu).1 = s1) ∨
    -- refused by the loading step: exactly the effect of pressure then material
    (okP ∧ okM ∧ doL = true ∧ (convertLoading c s2 lb lu).2 = .err e ∧ (convertLoading c s2 lb lu).1 = s2 ∧
      (convertAll c s pm pu lb lu mb mu).1 = s2) := by
  intro doP doM doL s1 s2 okP okM
  have hP := convertPressure_refused_unchanged c s pm pu
  have hM := convertMaterial_refused_unchanged c s1 mb mu
  have hL := convertLoading_refused_unchanged c s2 lb lu
  unfold convertAll at h ⊢
  by_cases dP : doP = true
  · -- pressure runs
    cases hp : convertPressure c s pm pu with
    | mk sp op =>
    cases op with
    | err e' =>
      left
      have : (truthy pm || truthy pu) = true := dP
      simp only [this, if_true, hp] at h ⊢
      cases h
      rw [hp] at hP
      exact ⟨dP, rfl, hP (by simp), hP (by simp)⟩
    | ok =>
      right
      have hdp : (truthy pm || truthy pu) = true := dP
      have hs1 : s1 = sp := by simp only [s1, dP, if_true, hp]
      have hokP : okP := Or.inr (by rw [hp])
      by_cases dM : doM = true
      · have hdm : (truthy mb || truthy mu) = true := dM
        cases hm : convertMaterial c sp mb mu with
        | mk sm om =>
        cases om with
        | err e' =>
          left
          simp only [hdp, if_true, hp, hdm, hm] at h ⊢
          cases h
          rw [hs1, hm] at hM
          rw [hs1, hm]
          exact ⟨hokP, dM, rfl, hM (by simp), hM (by simp)⟩
        | ok =>
          right
          have hs2 : s2 = sm := by simp only [s2, dM, if_true, hs1, hm]
          have hokM : okM := Or.inr (by rw [hs1, hm])
          simp only [hdp, if_true, hp, hdm, hm] at h ⊢
          by_cases dL : doL = true
          · have hdl : (truthy lb || truthy lu) = true := dL
            simp only [hdl, if_true] at h ⊢
            rw [hs2] at hL ⊢
            exact ⟨hokP, hokM, dL, h, hL (by rw [h]; simp), hL (by rw [h]; simp)⟩
          · have hdl : (truthy lb || truthy lu) = false := by simpa [doL] using dL
            simp [hdl] at h
      · have hdm : (truthy mb || truthy mu) = false := by simpa [doM] using dM
        right
        have hs2 : s2 = sp := by simp only [s2, hs1]; simp [doM, hdm]
        have hokM : okM := Or.inl (by simpa [doM] using hdm)
        simp only [hdp, if_true, hp, hdm] at h ⊢
        by_cases dL : doL = true
        · have hdl : (truthy lb || truthy lu) = true := dL
          simp only [hdl, if_true] at h ⊢
          simp only [Bool.false_eq_true, if_false] at h ⊢
          rw [hs2] at hL ⊢
          exact ⟨hokP, hokM, dL, h, hL (by rw [h]; simp), hL (by rw [h]; simp)⟩
        · have hdl : (truthy lb || truthy lu) = false := by simpa [doL] using dL
          simp [hdl] at h
  · sorry

end PgVerif.C02
