/-
C02 — permanent isotherm conversions stay consistent over any conversion history (placeholder; theorems follow).
-/
import PgVerif.Model.IsoState
import Mathlib.Tactic

namespace PgVerif.C02
open PgVerif.Model
variable {α : Type} [Field α]

theorem convertTemperature_refused_unchanged (s : Iso α) (u : Option String)
    (h : (convertTemperature s u).2 ≠ .ok) : (convertTemperature s u).1 = s := by
  unfold convertTemperature at h ⊢
  cases hc : cTemperature s.temp s.lab.tunit u with
  | error e => simp [hc]
  | ok t => simp [hc] at h

end PgVerif.C02
