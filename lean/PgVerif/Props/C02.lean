/-
C02 — permanent isotherm conversions stay consistent over any conversion history.

Property theorems about the hand-written executable model `Model/IsoState.lean` of
`PointIsotherm.convert`, `convert_pressure`, `convert_loading`, `convert_material` (core/pointisotherm.py),
`convert_temperature` and the constructor's label checks (core/baseisotherm.py), which is tied to the code
by the driver's correspondence run.  The unit conversions underneath are `Model/Units.lean` over the
*generated* tables; their physical correctness is C01 (`Lemmas/Units.lean`, `Props/C01.lean`) and is reused here.

The model state `Iso α` holds only what a conversion can touch: labels, the pressure and loading columns,
the temperature and the two interpolator-cache flags.  Branch marks, extra data columns and metadata are
NOT part of the model state: no operation of the model can read or write them, which is the model's way of
saying "never altered" (the correspondence run checks that on the Python side).

All statements hold for every field `α` of characteristic zero (no order needed), every column content,
and — in part A — for ANY string arguments.
-/
import PgVerif.Props.C01
import PgVerif.Model.IsoState

set_option linter.unusedSectionVars false
set_option linter.unusedSimpArgs false
set_option linter.unusedVariables false
set_option linter.unusedTactic false
set_option linter.unreachableTactic false

namespace PgVerif.C02
open PgVerif.Model PgVerif.Units
open PgVerif.Spec (LB MB Ads Mat gL gM PRep LRep MRep TRep physScale fac)

variable {α : Type} [Field α] [CharZero α]

/-! ## A. Structure: refusals, row order, caches (any context, any state, any string arguments) -/

/-! ### helpers -/

lemma map_mul_one (l : List α) : l.map (· * (1 : α)) = l := by
  simp

/-- what one call may do to the state: columns are scaled, caches are only ever cleared, and a change of a
column clears both caches -/
structure Footprint (s s' : Iso α) : Prop where
  scaled : ∃ f g : α, s'.ps = s.ps.map (· * f) ∧ s'.ls = s.ls.map (· * g)
  cachesMono : (s.lcache = false → s'.lcache = false) ∧ (s.pcache = false → s'.pcache = false)
  changed : (s'.ps ≠ s.ps ∨ s'.ls ≠ s.ls) → s'.lcache = false ∧ s'.pcache = false

lemma Footprint.refl (s : Iso α) : Footprint s s :=
  ⟨⟨1, 1, by simp, by simp⟩, ⟨id, id⟩, fun h => by rcases h with h | h <;> exact absurd rfl h⟩

lemma Footprint.trans {s s' s'' : Iso α} (h1 : Footprint s s') (h2 : Footprint s' s'') : Footprint s s'' := by
  obtain ⟨⟨f1, g1, hp1, hl1⟩, ⟨ml1, mp1⟩, c1⟩ := h1
  obtain ⟨⟨f2, g2, hp2, hl2⟩, ⟨ml2, mp2⟩, c2⟩ := h2
  refine ⟨⟨f1 * f2, g1 * g2, ?_, ?_⟩, ⟨fun h => ml2 (ml1 h), fun h => mp2 (mp1 h)⟩, ?_⟩
  · rw [hp2, hp1, List.map_map]; congr 1; funext x; simp [mul_assoc]
  · rw [hl2, hl1, List.map_map]; congr 1; funext x; simp [mul_assoc]
  · intro h
    by_cases h' : s''.ps ≠ s'.ps ∨ s''.ls ≠ s'.ls
    · exact c2 h'
    · have e1 : s''.ps = s'.ps := by by_contra hne; exact h' (Or.inl hne)
      have e2 : s''.ls = s'.ls := by by_contra hne; exact h' (Or.inr hne)
      rw [e1, e2] at h
      obtain ⟨a, b⟩ := c1 h
      exact ⟨ml2 a, mp2 b⟩

/-- `convert_pressure` after its two argument defaults have been resolved -/
def pCore (c : Ctx α) (s : Iso α) (mode' : String) (unit' : Option String) : Iso α × Outcome :=
  if mode' = s.lab.pmode ∧ unit' = s.lab.punit then (s, .ok)
  else
    match cPressure c.psat c.tempOk (1 : α) (some s.lab.pmode) (some mode') s.lab.punit unit' with
    | .error _ => (s, .err .calc)
    | .ok f =>
      let pu := if unit' ≠ s.lab.punit ∧ mode' = "absolute" then unit' else none
      ({ s with ps := s.ps.map (· * f), lab := { s.lab with pmode := mode', punit := pu }, lcache := false, pcache := false }, .ok)

def lCore (c : Ctx α) (s : Iso α) (basis' : String) (unit' : Option String) : Iso α × Outcome :=
  if basis' = s.lab.lbasis ∧ unit' = s.lab.lunit then (s, .ok)
  else if isFrac s.lab.lbasis && basis' = s.lab.lbasis then (s, .ok)
  else
    match cLoading c.env (1 : α) (some s.lab.lbasis) (some basis') s.lab.lunit unit' (some s.lab.mbasis) s.lab.munit with
    | .error e => (s, .err e)
    | .ok f =>
      let lu := if isFrac basis' then none else unit'
      ({ s with ls := s.ls.map (· * f), lab := { s.lab with lbasis := basis', lunit := lu }, lcache := false, pcache := false }, .ok)

def mCore (c : Ctx α) (s : Iso α) (basis' : String) (unit' : Option String) : Iso α × Outcome :=
  if basis' = s.lab.mbasis ∧ unit' = s.lab.munit then (s, .ok)
  else if isFrac s.lab.lbasis && basis' = s.lab.mbasis then
    match cMaterial c.env (1 : α) (some s.lab.mbasis) (some basis') s.lab.munit unit' with
    | .error e => (s, .err e)
    | .ok _ => ({ s with lab := { s.lab with munit := unit' } }, .ok)
  else
    match cMaterial c.env (1 : α) (some s.lab.mbasis) (some basis') s.lab.munit unit' with
    | .error e => (s, .err e)
    | .ok f1 =>
      let r2 : Except Err α :=
        if isFrac s.lab.lbasis then
          cLoading c.env (1 : α) (some (volLiq s.lab.mbasis)) (some (volLiq basis')) s.lab.munit unit' none none
        else .ok 1
      match r2 with
      | .error e => (s, .err e)
      | .ok f2 =>
        ({ s with ls := s.ls.map (· * f1 * f2), lab := { s.lab with mbasis := basis', munit := unit' },
                  lcache := false, pcache := false }, .ok)

/-- the resolved second argument: an omitted (falsy) unit keeps the current one only if the mode/basis stays -/
def unitArg (u : Option String) (same : Bool) (cur : Option String) : Option String :=
  if !truthy u && same then cur else u

lemma convertPressure_core (c : Ctx α) (s : Iso α) (m u : Option String) :
    convertPressure c s m u =
      pCore c s (orCurrent m s.lab.pmode) (unitArg u (orCurrent m s.lab.pmode = s.lab.pmode) s.lab.punit) := rfl

lemma convertLoading_core (c : Ctx α) (s : Iso α) (b u : Option String) :
    convertLoading c s b u =
      lCore c s (orCurrent b s.lab.lbasis) (unitArg u (orCurrent b s.lab.lbasis = s.lab.lbasis) s.lab.lunit) := rfl

lemma convertMaterial_core (c : Ctx α) (s : Iso α) (b u : Option String) :
    convertMaterial c s b u =
      mCore c s (orCurrent b s.lab.mbasis) (unitArg u (orCurrent b s.lab.mbasis = s.lab.mbasis) s.lab.munit) := rfl

lemma pCore_footprint (c : Ctx α) (s : Iso α) (m : String) (u : Option String) :
    Footprint s (pCore c s m u).1 := by
  unfold pCore
  split
  · exact Footprint.refl s
  · split
    · exact Footprint.refl s
    · rename_i f _
      exact ⟨⟨f, 1, rfl, by simp⟩, ⟨fun _ => rfl, fun _ => rfl⟩, fun _ => ⟨rfl, rfl⟩⟩

lemma lCore_footprint (c : Ctx α) (s : Iso α) (b : String) (u : Option String) :
    Footprint s (lCore c s b u).1 := by
  unfold lCore
  split
  · exact Footprint.refl s
  · split
    · exact Footprint.refl s
    · split
      · exact Footprint.refl s
      · rename_i f _
        exact ⟨⟨1, f, by simp, rfl⟩, ⟨fun _ => rfl, fun _ => rfl⟩, fun _ => ⟨rfl, rfl⟩⟩

lemma mCore_footprint (c : Ctx α) (s : Iso α) (b : String) (u : Option String) :
    Footprint s (mCore c s b u).1 := by
  unfold mCore
  split
  · exact Footprint.refl s
  · split
    · split
      · exact Footprint.refl s
      · exact ⟨⟨1, 1, by simp, by simp⟩, ⟨id, id⟩, fun h => by rcases h with h | h <;> exact absurd rfl h⟩
    · split
      · exact Footprint.refl s
      · simp only
        split
        · exact Footprint.refl s
        · rename_i f1 _ _ f2 _
          exact ⟨⟨1, f1 * f2, by simp, by simp [mul_assoc]⟩, ⟨fun _ => rfl, fun _ => rfl⟩, fun _ => ⟨rfl, rfl⟩⟩

lemma convertPressure_footprint (c : Ctx α) (s : Iso α) (m u : Option String) :
    Footprint s (convertPressure c s m u).1 := by
  rw [convertPressure_core]; exact pCore_footprint ..

lemma convertLoading_footprint (c : Ctx α) (s : Iso α) (b u : Option String) :
    Footprint s (convertLoading c s b u).1 := by
  rw [convertLoading_core]; exact lCore_footprint ..

lemma convertMaterial_footprint (c : Ctx α) (s : Iso α) (b u : Option String) :
    Footprint s (convertMaterial c s b u).1 := by
  rw [convertMaterial_core]; exact mCore_footprint ..

lemma convertTemperature_footprint (s : Iso α) (u : Option String) :
    Footprint s (convertTemperature s u).1 := by
  unfold convertTemperature
  split
  · exact Footprint.refl s
  · exact ⟨⟨1, 1, by simp, by simp⟩, ⟨id, id⟩, fun h => by rcases h with h | h <;> exact absurd rfl h⟩

lemma pCore_refused (c : Ctx α) (s : Iso α) (m : String) (u : Option String)
    (h : (pCore c s m u).2 ≠ .ok) : (pCore c s m u).1 = s := by
  unfold pCore at h ⊢
  split
  · rfl
  · rename_i hne
    simp only [hne, if_false] at h
    split
    · rfl
    · rename_i f hf; simp [hf] at h

lemma lCore_refused (c : Ctx α) (s : Iso α) (b : String) (u : Option String)
    (h : (lCore c s b u).2 ≠ .ok) : (lCore c s b u).1 = s := by
  unfold lCore at h ⊢
  split
  · rfl
  · rename_i hne
    simp only [hne, if_false] at h
    split
    · rfl
    · rename_i hne2
      simp only [hne2] at h
      split
      · rfl
      · rename_i f hf; simp [hf] at h

lemma mCore_refused (c : Ctx α) (s : Iso α) (b : String) (u : Option String)
    (h : (mCore c s b u).2 ≠ .ok) : (mCore c s b u).1 = s := by
  unfold mCore at h ⊢
  split
  · rfl
  · rename_i hne
    simp only [hne, if_false] at h
    split
    · rename_i hv
      simp only [hv, if_true] at h
      split
      · rfl
      · rename_i f hf; simp [hf] at h
    · rename_i hv
      simp only [hv] at h
      split
      · rfl
      · rename_i f1 hf1
        simp only [hf1] at h ⊢
        split
        · rfl
        · rename_i f2 hf2; simp [hf2] at h

/-! ### A.1 a refused single-quantity conversion changes nothing -/

theorem convertPressure_refused_unchanged (c : Ctx α) (s : Iso α) (a b : Option String)
    (h : (convertPressure c s a b).2 ≠ .ok) : (convertPressure c s a b).1 = s := by
  rw [convertPressure_core] at h ⊢; exact pCore_refused _ _ _ _ h

theorem convertLoading_refused_unchanged (c : Ctx α) (s : Iso α) (a b : Option String)
    (h : (convertLoading c s a b).2 ≠ .ok) : (convertLoading c s a b).1 = s := by
  rw [convertLoading_core] at h ⊢; exact lCore_refused _ _ _ _ h

theorem convertMaterial_refused_unchanged (c : Ctx α) (s : Iso α) (a b : Option String)
    (h : (convertMaterial c s a b).2 ≠ .ok) : (convertMaterial c s a b).1 = s := by
  rw [convertMaterial_core] at h ⊢; exact mCore_refused _ _ _ _ h

theorem convertTemperature_refused_unchanged (s : Iso α) (u : Option String)
    (h : (convertTemperature s u).2 ≠ .ok) : (convertTemperature s u).1 = s := by
  unfold convertTemperature at h ⊢
  cases hc : cTemperature s.temp s.lab.tunit u with
  | error e => simp [hc]
  | ok t => simp [hc] at h

/-- every single-quantity call: refused ⇒ state unchanged -/
theorem step_single_refused_unchanged (c : Ctx α) (s : Iso α) (op : Op)
    (hop : ∀ pm pu lb lu mb mu, op ≠ .all pm pu lb lu mb mu)
    (h : (step c s op).2 ≠ .ok) : (step c s op).1 = s := by
  cases op with
  | pressure m u => exact convertPressure_refused_unchanged c s m u h
  | loading b u => exact convertLoading_refused_unchanged c s b u h
  | material b u => exact convertMaterial_refused_unchanged c s b u h
  | temperature u => exact convertTemperature_refused_unchanged s u h
  | all pm pu lb lu mb mu => exact absurd rfl (hop pm pu lb lu mb mu)

/-! ### A.2 a refused combined conversion leaves exactly the completed prefix -/

/-- the part of `convert(...)` after the pressure step -/
def convTail (c : Ctx α) (s1 : Iso α) (lb lu mb mu : Option String) : Iso α × Outcome :=
  let r2 := if truthy mb || truthy mu then convertMaterial c s1 mb mu else (s1, .ok)
  match r2 with
  | (s2, .err e) => (s2, .err e)
  | (s2, .ok) => if truthy lb || truthy lu then convertLoading c s2 lb lu else (s2, .ok)

lemma convertAll_eq_tail (c : Ctx α) (s : Iso α) (pm pu lb lu mb mu : Option String) :
    convertAll c s pm pu lb lu mb mu =
      match (if truthy pm || truthy pu then convertPressure c s pm pu else (s, .ok)) with
      | (s1, .err e) => (s1, .err e)
      | (s1, .ok) => convTail c s1 lb lu mb mu := rfl

lemma convTail_refused (c : Ctx α) (s1 : Iso α) (lb lu mb mu : Option String) (e : Err)
    (h : (convTail c s1 lb lu mb mu).2 = .err e) :
    let doM := truthy mb || truthy mu
    let doL := truthy lb || truthy lu
    let s2 := if doM then (convertMaterial c s1 mb mu).1 else s1
    let okM := doM = false ∨ (convertMaterial c s1 mb mu).2 = .ok
    (doM = true ∧ (convertMaterial c s1 mb mu).2 = .err e ∧ (convertMaterial c s1 mb mu).1 = s1 ∧
      (convTail c s1 lb lu mb mu).1 = s1) ∨
    (okM ∧ doL = true ∧ (convertLoading c s2 lb lu).2 = .err e ∧ (convertLoading c s2 lb lu).1 = s2 ∧
      (convTail c s1 lb lu mb mu).1 = s2) := by
  intro doM doL s2 okM
  have hM := convertMaterial_refused_unchanged c s1 mb mu
  have hL := convertLoading_refused_unchanged c s2 lb lu
  -- the state and outcome after the (optional) material step
  have key : ∀ (sm : Iso α) (om : Outcome),
      (if truthy mb || truthy mu then convertMaterial c s1 mb mu else (s1, .ok)) = (sm, om) →
      (om = .ok → s2 = sm ∧ okM) ∧ (∀ e', om = .err e' → doM = true ∧ convertMaterial c s1 mb mu = (sm, .err e')) := by
    intro sm om hr
    by_cases dM : doM = true
    · have hdm : (truthy mb || truthy mu) = true := dM
      simp only [hdm, if_true] at hr
      refine ⟨fun ho => ⟨?_, Or.inr ?_⟩, fun e' he => ⟨dM, ?_⟩⟩
      · simp only [s2, dM, if_true, hr]
      · rw [hr, ho]
      · rw [hr, he]
    · have hdm : (truthy mb || truthy mu) = false := by simpa [doM] using dM
      simp only [hdm, Bool.false_eq_true, if_false, Prod.mk.injEq] at hr
      obtain ⟨rfl, rfl⟩ := hr
      refine ⟨fun _ => ⟨?_, Or.inl (by simpa [doM] using hdm)⟩, fun e' he => by cases he⟩
      simp [s2, doM, hdm]
  unfold convTail at h ⊢
  simp only at h ⊢
  cases hr : (if truthy mb || truthy mu then convertMaterial c s1 mb mu else (s1, .ok)) with
  | mk sm om =>
  obtain ⟨kok, kerr⟩ := key sm om hr
  rw [hr] at h
  cases om with
  | err e' =>
    left
    obtain ⟨dM, hm⟩ := kerr e' rfl
    simp only at h ⊢
    cases h
    rw [hm] at hM ⊢
    exact ⟨dM, rfl, hM (by simp), hM (by simp)⟩
  | ok =>
    right
    obtain ⟨hs2, hokM⟩ := kok rfl
    simp only at h ⊢
    by_cases dL : doL = true
    · have hdl : (truthy lb || truthy lu) = true := dL
      simp only [hdl, if_true] at h ⊢
      rw [hs2] at hL ⊢
      exact ⟨hokM, dL, h, hL (by rw [h]; simp), hL (by rw [h]; simp)⟩
    · have hdl : (truthy lb || truthy lu) = false := by simpa [doL] using dL
      simp [hdl] at h

/-- `convert(...)` runs pressure, then material, then loading (each only if one of its two arguments is truthy).
If it is refused with `e`, exactly one of the three sub-steps was the refusing one: all earlier sub-steps
returned normally (or were skipped), the refusing sub-step itself changed nothing, and the resulting state is
the state reached just before it. -/
theorem convertAll_refused_prefix (c : Ctx α) (s : Iso α) (pm pu lb lu mb mu : Option String) (e : Err)
    (h : (convertAll c s pm pu lb lu mb mu).2 = .err e) :
    let doP := truthy pm || truthy pu
    let doM := truthy mb || truthy mu
    let doL := truthy lb || truthy lu
    let s1 := if doP then (convertPressure c s pm pu).1 else s
    let s2 := if doM then (convertMaterial c s1 mb mu).1 else s1
    let okP := doP = false ∨ (convertPressure c s pm pu).2 = .ok
    let okM := doM = false ∨ (convertMaterial c s1 mb mu).2 = .ok
    -- refused by the pressure step: nothing changed at all
    (doP = true ∧ (convertPressure c s pm pu).2 = .err e ∧ (convertPressure c s pm pu).1 = s ∧
      (convertAll c s pm pu lb lu mb mu).1 = s) ∨
    -- refused by the material step: exactly the pressure step's effect
    (okP ∧ doM = true ∧ (convertMaterial c s1 mb mu).2 = .err e ∧ (convertMaterial c s1 mb mu).1 = s1 ∧
      (convertAll c s pm pu lb lu mb mu).1 = s1) ∨
    -- refused by the loading step: exactly the effect of pressure then material
    (okP ∧ okM ∧ doL = true ∧ (convertLoading c s2 lb lu).2 = .err e ∧ (convertLoading c s2 lb lu).1 = s2 ∧
      (convertAll c s pm pu lb lu mb mu).1 = s2) := by
  intro doP doM doL s1 s2 okP okM
  have hP := convertPressure_refused_unchanged c s pm pu
  rw [convertAll_eq_tail] at h ⊢
  have key : ∀ (sp : Iso α) (op : Outcome),
      (if truthy pm || truthy pu then convertPressure c s pm pu else (s, .ok)) = (sp, op) →
      (op = .ok → s1 = sp ∧ okP) ∧ (∀ e', op = .err e' → doP = true ∧ convertPressure c s pm pu = (sp, .err e')) := by
    intro sp op hr
    by_cases dP : doP = true
    · have hdp : (truthy pm || truthy pu) = true := dP
      simp only [hdp, if_true] at hr
      refine ⟨fun ho => ⟨?_, Or.inr ?_⟩, fun e' he => ⟨dP, ?_⟩⟩
      · simp only [s1, dP, if_true, hr]
      · rw [hr, ho]
      · rw [hr, he]
    · have hdp : (truthy pm || truthy pu) = false := by simpa [doP] using dP
      simp only [hdp, Bool.false_eq_true, if_false, Prod.mk.injEq] at hr
      obtain ⟨rfl, rfl⟩ := hr
      refine ⟨fun _ => ⟨?_, Or.inl (by simpa [doP] using hdp)⟩, fun e' he => by cases he⟩
      simp [s1, doP, hdp]
  cases hr : (if truthy pm || truthy pu then convertPressure c s pm pu else (s, .ok)) with
  | mk sp op =>
  obtain ⟨kok, kerr⟩ := key sp op hr
  rw [hr] at h
  cases op with
  | err e' =>
    left
    obtain ⟨dP, hp⟩ := kerr e' rfl
    simp only at h ⊢
    cases h
    rw [hp] at hP ⊢
    exact ⟨dP, rfl, hP (by simp), hP (by simp)⟩
  | ok =>
    right
    obtain ⟨hs1, hokP⟩ := kok rfl
    simp only at h ⊢
    have ht := convTail_refused c sp lb lu mb mu e h
    simp only at ht
    have e2 : s2 = (if (truthy mb || truthy mu) = true then (convertMaterial c sp mb mu).1 else sp) := by
      simp only [s2, hs1, doM]
    rw [hs1, e2]
    rcases ht with ⟨a, b, c', d⟩ | ⟨a, b, c', d, f⟩
    · exact Or.inl ⟨hokP, a, b, c', d⟩
    · exact Or.inr ⟨hokP, by simpa [okM, hs1, doM] using a, b, c', d, f⟩

/-! ### A.3 rows are only ever rescaled; a rewritten column clears the caches -/

lemma convTail_footprint (c : Ctx α) (s1 : Iso α) (lb lu mb mu : Option String) :
    Footprint s1 (convTail c s1 lb lu mb mu).1 := by
  unfold convTail
  simp only
  have hM : Footprint s1 (if truthy mb || truthy mu then convertMaterial c s1 mb mu else (s1, .ok)).1 := by
    split
    · exact convertMaterial_footprint ..
    · exact Footprint.refl s1
  cases hr : (if truthy mb || truthy mu then convertMaterial c s1 mb mu else (s1, .ok)) with
  | mk sm om =>
  rw [hr] at hM
  cases om with
  | err e => exact hM
  | ok =>
    simp only
    split
    · exact hM.trans (convertLoading_footprint ..)
    · exact hM

lemma convertAll_footprint (c : Ctx α) (s : Iso α) (pm pu lb lu mb mu : Option String) :
    Footprint s (convertAll c s pm pu lb lu mb mu).1 := by
  rw [convertAll_eq_tail]
  have hP : Footprint s (if truthy pm || truthy pu then convertPressure c s pm pu else (s, .ok)).1 := by
    split
    · exact convertPressure_footprint ..
    · exact Footprint.refl s
  cases hr : (if truthy pm || truthy pu then convertPressure c s pm pu else (s, .ok)) with
  | mk sp op =>
  rw [hr] at hP
  cases op with
  | err e => exact hP
  | ok => exact hP.trans (convTail_footprint ..)

lemma step_footprint (c : Ctx α) (s : Iso α) (op : Op) : Footprint s (step c s op).1 := by
  cases op with
  | pressure m u => exact convertPressure_footprint c s m u
  | loading b u => exact convertLoading_footprint c s b u
  | material b u => exact convertMaterial_footprint c s b u
  | temperature u => exact convertTemperature_footprint s u
  | all pm pu lb lu mb mu => exact convertAll_footprint c s pm pu lb lu mb mu

/-- every call — single or combined, successful or refused, any arguments — multiplies the whole pressure column
by one factor and the whole loading column by one factor: rows are never added, dropped or reordered.
(Branch marks, extra data columns and metadata are not part of the model state: no op can touch them.) -/
theorem step_rows_scaled (c : Ctx α) (s : Iso α) (op : Op) :
    ∃ f g : α, (step c s op).1.ps = s.ps.map (· * f) ∧ (step c s op).1.ls = s.ls.map (· * g) :=
  (step_footprint c s op).scaled

theorem step_lengths (c : Ctx α) (s : Iso α) (op : Op) :
    (step c s op).1.ps.length = s.ps.length ∧ (step c s op).1.ls.length = s.ls.length := by
  obtain ⟨f, g, h1, h2⟩ := step_rows_scaled c s op
  rw [h1, h2]; simp

theorem run_lengths (c : Ctx α) (s : Iso α) (ops : List Op) :
    (run c s ops).ps.length = s.ps.length ∧ (run c s ops).ls.length = s.ls.length := by
  induction ops generalizing s with
  | nil => exact ⟨rfl, rfl⟩
  | cons op ops ih =>
    have h := step_lengths c s op
    have := ih (step c s op).1
    simp only [run, List.foldl_cons] at this ⊢
    exact ⟨this.1.trans h.1, this.2.trans h.2⟩

/-- whenever a call (any op, any arguments, successful or — for the combined call — refused half-way) has
rewritten the pressure or the loading column, both cached interpolators have been dropped.
(Stronger than asked: no `.ok` hypothesis is needed.) -/
theorem successful_conversion_resets_caches (c : Ctx α) (s : Iso α) (op : Op)
    (h : (step c s op).1.ps ≠ s.ps ∨ (step c s op).1.ls ≠ s.ls) :
    (step c s op).1.lcache = false ∧ (step c s op).1.pcache = false :=
  (step_footprint c s op).changed h

/-- no call ever *creates* a cache: once cleared, the caches stay cleared -/
theorem step_caches_monotone (c : Ctx α) (s : Iso α) (op : Op) :
    (s.lcache = false → (step c s op).1.lcache = false) ∧ (s.pcache = false → (step c s op).1.pcache = false) :=
  (step_footprint c s op).cachesMono

/-- branch-level form: in every branch of the three data conversions that rewrites a column
(i.e. that is not an early return, a refusal or the "virtual" material-unit relabelling) the caches are cleared -/
theorem rewriting_branch_resets_caches (c : Ctx α) (s : Iso α) (m : String) (u : Option String) :
    (∀ f, ¬(m = s.lab.pmode ∧ u = s.lab.punit) →
        cPressure c.psat c.tempOk (1 : α) (some s.lab.pmode) (some m) s.lab.punit u = .ok f →
        (pCore c s m u).1.lcache = false ∧ (pCore c s m u).1.pcache = false ∧ (pCore c s m u).1.ps = s.ps.map (· * f)) ∧
    (∀ f, ¬(m = s.lab.lbasis ∧ u = s.lab.lunit) → ¬((isFrac s.lab.lbasis && m = s.lab.lbasis) = true) →
        cLoading c.env (1 : α) (some s.lab.lbasis) (some m) s.lab.lunit u (some s.lab.mbasis) s.lab.munit = .ok f →
        (lCore c s m u).1.lcache = false ∧ (lCore c s m u).1.pcache = false ∧ (lCore c s m u).1.ls = s.ls.map (· * f)) := by
  refine ⟨fun f h1 h2 => ?_, fun f h1 h2 h3 => ?_⟩
  · simp [pCore, h1, h2]
  · simp only [Bool.and_eq_true, decide_eq_true_eq] at h2
    simp [lCore, h1, h2, h3]

/-! ## B. Typed single-step specifications -/

/-- a full representation of a point isotherm: pressure, loading, material, temperature -/
structure Rep where
  p : PRep
  l : LRep
  m : MRep
  t : TRep

/-- labels of a pressure representation (relative modes store no unit) -/
def pLabel : PRep → String × Option String
  | .abs u => ("absolute", some u) | .rel _ => ("relative", none) | .relp _ => ("relative%", none)

/-- stored temperature label (every Celsius spelling is normalised to `°C`) -/
def tLabel : TRep → Option String
  | .K => some "K" | .C _ => some "°C"

/-- the labels that name a representation -/
def labelsOf (r : Rep) : Labels :=
  { pmode := (pLabel r.p).1, punit := (pLabel r.p).2,
    lbasis := r.l.basis, lunit := r.l.unit,        -- `.phys b u ↦ (b.name, some u)`, `.frac ↦ ("fraction", none)`, `.pct ↦ ("percent", none)`
    mbasis := r.m.b.name, munit := some r.m.u,
    tunit := tLabel r.t }

/-- the representation is supported: all three scales exist w.r.t. the generated tables, the temperature scale is
K or the normalised `°C` -/
def Rep.Valid (ps : α) (a : Ads α) (mat : Mat α) (r : Rep) : Prop :=
  (r.p.scale Gen.pressureUnits ps).isSome ∧ (r.l.scale Gen.unitTable a r.m).isSome ∧
  (r.m.grams Gen.unitTable mat).isSome ∧ (r.t = .K ∨ r.t = .C "°C")

/-- Pa per stored pressure value / mol adsorbate per stored loading value / gram material per material unit
(total versions of the scales; under `Rep.Valid` they are the actual, non-zero scales) -/
def spOf (ps : α) (p : PRep) : α := (p.scale Gen.pressureUnits ps).getD 0
def slOf (a : Ads α) (l : LRep) (m : MRep) : α := (l.scale Gen.unitTable a m).getD 0
def gmOf (mat : Mat α) (m : MRep) : α := (m.grams Gen.unitTable mat).getD 0

/-- canonical content of one stored pressure: Pa -/
def canonP (ps : α) (r : Rep) (v : α) : α := v * spOf ps r.p
/-- canonical content of one stored loading: mol adsorbate per gram material -/
def canonL (a : Ads α) (mat : Mat α) (r : Rep) (v : α) : α := v * slOf a r.l r.m / gmOf mat r.m
/-- canonical content of the stored temperature: K -/
def kelvin (r : Rep) (v : α) : α := r.t.toK v

/-! ### helpers -/

lemma fac_isSome_lookup {t : List (String × Nat × Nat)} {u : String} (h : (fac t u : Option α).isSome) :
    (t.lookup u).isSome := by
  unfold fac at h; simpa using h

lemma physScale_isSome_lookup {a : Ads α} {b : LB} {u : String} (h : (physScale Gen.unitTable a b u).isSome) :
    ((Gen.unitTable b.table).lookup u).isSome := by
  unfold physScale at h
  by_cases hu : u = ""
  · simp [hu] at h
  · simp only [hu, if_false, Option.isSome_map] at h
    exact fac_isSome_lookup h

lemma grams_isSome_lookup {mat : Mat α} {m : MRep} (h : (m.grams Gen.unitTable mat).isSome) :
    ((Gen.unitTable m.b.table).lookup m.u).isSome := by
  unfold MRep.grams at h
  by_cases hu : m.u = ""
  · simp [hu] at h
  · simp only [hu, if_false, Option.isSome_map] at h
    exact fac_isSome_lookup h

/-- **labels name a representation the constructor accepts** -/
theorem validLabels_of_valid (ps : α) (a : Ads α) (mat : Mat α) (r : Rep) (h : Rep.Valid ps a mat r) :
    validLabels (labelsOf r) = true := by
  obtain ⟨hp, hl, hm, ht⟩ := h
  obtain ⟨p, l, m, t⟩ := r
  obtain ⟨mb, mu⟩ := m
  have hmu := grams_isSome_lookup hm
  simp only at hp hl hm ht hmu
  have hP : (Gen.pressureMode.lookup (pLabel p).1).isSome = true := by cases p <;> rfl
  have hL : (Gen.loadingMode.lookup l.basis).isSome = true := by
    cases l with
    | phys b u => cases b <;> rfl
    | frac => rfl
    | pct => rfl
  have hM : Gen.materialMode.lookup mb.name = some (some mb.table) := by cases mb <;> rfl
  have hT : t = .K ∨ t = .C "°C" := ht
  unfold validLabels labelsOf
  simp only [hP, hL, hM, Option.isSome_some, Bool.and_self, Bool.true_and, Bool.and_eq_true]
  refine ⟨⟨?_, ?_⟩, ?_⟩
  · cases p with
    | abs u =>
      simp only [Spec.PRep.scale] at hp
      by_cases hu : u = ""
      · simp [hu] at hp
      · simp only [hu, if_false] at hp
        simpa [pLabel] using fac_isSome_lookup hp
    | rel u => rfl
    | relp u => rfl
  · cases l with
    | frac => rfl
    | pct => rfl
    | phys b u =>
      have h1 := physScale_isSome_lookup (a := a) hl
      have hb : Gen.loadingMode.lookup b.name = some (some b.table) := by cases b <;> rfl
      simp only [LRep.basis, LRep.unit, hb, h1, hmu, Bool.and_self, Bool.or_true]
  · rcases hT with rfl | rfl <;> rfl

lemma orCurrent_some {x cur : String} (hx : x ≠ "") : orCurrent (some x) cur = x := by
  simp [orCurrent, hx]

lemma PRep.mode_ne_empty (t : PRep) : t.mode ≠ "" := by cases t <;> simp [PRep.mode]

/-- the canonical form of a pressure representation: relative modes carry no unit -/
def canonPRep : PRep → PRep
  | .abs u => .abs u | .rel _ => .rel none | .relp _ => .relp none

lemma canonPRep_mode (a : PRep) : (canonPRep a).mode = (pLabel a).1 := by cases a <;> rfl
lemma canonPRep_unit (a : PRep) : (canonPRep a).unit = (pLabel a).2 := by cases a <;> rfl
lemma canonPRep_scale (ps : α) (a : PRep) :
    (canonPRep a).scale Gen.pressureUnits ps = a.scale Gen.pressureUnits ps := by cases a <;> rfl

lemma scale_ne_zero_gen (ps : α) (hps : ps ≠ 0) (a : PRep) (sa : α)
    (ha : a.scale Gen.pressureUnits ps = some sa) : sa ≠ 0 := by
  rw [C01.tables_eq_spec.1] at ha
  exact C01.PRep.scale_ne_zero ps hps a sa ha

/-- core of the typed pressure step: from labels naming `a`, a call whose resolved arguments are the mode and the
unit of `b` (ANY `b` with a scale, canonical or not) succeeds, relabels to `b`, and multiplies by `sa / sb` -/
lemma pCore_typed (ps : α) (hps : ps ≠ 0) (env : Env α) (s : Iso α) (a b : PRep) (sa sb : α)
    (hm : s.lab.pmode = (pLabel a).1) (hu : s.lab.punit = (pLabel a).2)
    (ha : a.scale Gen.pressureUnits ps = some sa) (hb : b.scale Gen.pressureUnits ps = some sb) :
    (pCore ⟨some ps, env, true⟩ s b.mode b.unit).2 = .ok ∧
    (pCore ⟨some ps, env, true⟩ s b.mode b.unit).1.lab = { s.lab with pmode := (pLabel b).1, punit := (pLabel b).2 } ∧
    (pCore ⟨some ps, env, true⟩ s b.mode b.unit).1.ls = s.ls ∧
    (pCore ⟨some ps, env, true⟩ s b.mode b.unit).1.temp = s.temp ∧
    (pCore ⟨some ps, env, true⟩ s b.mode b.unit).1.ps = s.ps.map (· * (sa / sb)) := by
  have hsa := scale_ne_zero_gen ps hps a sa ha
  have hspec := cPressure_spec ps (1 : α) hps (canonPRep a) b sa sb (by rw [canonPRep_scale]; exact ha) hb
  rw [canonPRep_mode, canonPRep_unit, ← hm, ← hu] at hspec
  unfold pCore
  by_cases he : b.mode = s.lab.pmode ∧ b.unit = s.lab.punit
  · -- early return: `b` is the current representation
    have hab : sa = sb ∧ (pLabel b).1 = s.lab.pmode ∧ (pLabel b).2 = s.lab.punit := by
      obtain ⟨h1, h2⟩ := he
      rw [hm] at h1 ⊢; rw [hu] at h2 ⊢
      cases a <;> cases b <;> simp [PRep.mode, PRep.unit, pLabel] at h1 h2 ⊢
      all_goals (simp only [Spec.PRep.scale] at ha hb)
      · subst h2; rw [ha] at hb; exact ⟨Option.some.inj hb, rfl⟩
      · rw [ha] at hb; exact Option.some.inj hb
      · rw [ha] at hb; exact Option.some.inj hb
    obtain ⟨rfl, h1, h2⟩ := hab
    simp only [he, and_self, if_true, h1, h2, true_and]
    simp [hsa]
  · simp only [he, if_false, hspec]
    refine ⟨trivial, ?_, trivial, trivial, ?_⟩
    · have : (if b.unit ≠ s.lab.punit ∧ b.mode = "absolute" then b.unit else none) = (pLabel b).2 := by
        rw [hm, hu] at he
        rw [hu]
        cases a <;> cases b <;> simp [PRep.mode, PRep.unit, pLabel] at he ⊢
        exact he
      simp only [this]
      cases b <;> rfl
    · simp only [one_mul]

/-- replace the (ignored) unit label of a relative representation -/
def withUnit : PRep → Option String → PRep
  | .abs u, _ => .abs u | .rel _, x => .rel x | .relp _, x => .relp x

lemma withUnit_mode (t : PRep) (x) : (withUnit t x).mode = t.mode := by cases t <;> rfl
lemma withUnit_label (t : PRep) (x) : pLabel (withUnit t x) = pLabel t := by cases t <;> rfl
lemma withUnit_scale (ps : α) (t : PRep) (x) :
    (withUnit t x).scale Gen.pressureUnits ps = t.scale Gen.pressureUnits ps := by cases t <;> rfl
lemma withUnit_unit (ps : α) (t : PRep) (st : α) (ht : t.scale Gen.pressureUnits ps = some st)
    (same : Bool) (cur : Option String) :
    (withUnit t (unitArg t.unit same cur)).unit = unitArg t.unit same cur := by
  cases t with
  | abs u =>
    have hu : u ≠ "" := by
      intro h; simp [Spec.PRep.scale, h] at ht
    simp [withUnit, PRep.unit, unitArg, truthy, hu]
  | rel x => rfl
  | relp x => rfl

/-- **typed pressure step**: from a state whose labels name `r`, for ANY supported target `t : PRep` (canonical or
not — a unit given with a relative mode is ignored) `convert_pressure(t.mode, t.unit)` returns normally, the labels
name `{r with p := t}`, loading and temperature are untouched and every pressure is multiplied by `sp r.p / sp t`
(Pa per old unit over Pa per new unit): the stored column is the old column converted directly. -/
theorem convertPressure_typed (ps : α) (hps : ps ≠ 0) (env : Env α) (s : Iso α) (r : Rep) (t : PRep) (sp st : α)
    (hs : s.lab = labelsOf r)
    (hsp : r.p.scale Gen.pressureUnits ps = some sp) (hst : t.scale Gen.pressureUnits ps = some st) :
    (convertPressure ⟨some ps, env, true⟩ s (some t.mode) t.unit).2 = .ok ∧
    (convertPressure ⟨some ps, env, true⟩ s (some t.mode) t.unit).1.lab = labelsOf { r with p := t } ∧
    (convertPressure ⟨some ps, env, true⟩ s (some t.mode) t.unit).1.ls = s.ls ∧
    (convertPressure ⟨some ps, env, true⟩ s (some t.mode) t.unit).1.temp = s.temp ∧
    (convertPressure ⟨some ps, env, true⟩ s (some t.mode) t.unit).1.ps = s.ps.map (· * (sp / st)) := by
  rw [convertPressure_core, orCurrent_some (PRep.mode_ne_empty t)]
  set x := unitArg t.unit (decide (t.mode = s.lab.pmode)) s.lab.punit with hx
  have h := pCore_typed ps hps env s r.p (withUnit t x) sp st (by rw [hs]; rfl) (by rw [hs]; rfl) hsp
    (by rw [withUnit_scale]; exact hst)
  rw [withUnit_mode, hx, withUnit_unit ps t st hst, ← hx, withUnit_label] at h
  obtain ⟨h1, h2, h3, h4, h5⟩ := h
  refine ⟨h1, ?_, h3, h4, h5⟩
  rw [h2, hs]; rfl

/-! ### loading -/

lemma LRep.ext_labels {l1 l2 : LRep} (hb : l1.basis = l2.basis) (hu : l1.unit = l2.unit) : l1 = l2 := by
  cases l1 with
  | phys b1 u1 =>
    cases l2 with
    | phys b2 u2 =>
      simp only [LRep.unit, Option.some.injEq] at hu
      subst hu
      cases b1 <;> cases b2 <;> simp [LRep.basis, Spec.LB.name] at hb ⊢
    | frac => cases b1 <;> simp [LRep.basis, Spec.LB.name] at hb
    | pct => cases b1 <;> simp [LRep.basis, Spec.LB.name] at hb
  | frac =>
    cases l2 with
    | phys b2 u2 => simp [LRep.unit] at hu
    | frac => rfl
    | pct => simp [LRep.basis] at hb
  | pct =>
    cases l2 with
    | phys b2 u2 => simp [LRep.unit] at hu
    | frac => simp [LRep.basis] at hb
    | pct => rfl

lemma LRep.basis_ne_empty (l : LRep) : l.basis ≠ "" := by
  cases l with
  | phys b u => cases b <;> simp [LRep.basis, Spec.LB.name]
  | frac => simp [LRep.basis]
  | pct => simp [LRep.basis]

lemma LRep.isFrac_basis (l : LRep) : isFrac l.basis = true ↔ l.unit = none := by
  cases l with
  | phys b u => cases b <;> simp [LRep.basis, LRep.unit, Spec.LB.name, isFrac]
  | frac => simp [LRep.basis, LRep.unit, isFrac]
  | pct => simp [LRep.basis, LRep.unit, isFrac]

lemma lscale_ne_zero_gen (a : Ads α) (hp : a.Pos) (m : MRep) (l : LRep) (sl : α)
    (h : l.scale Gen.unitTable a m = some sl) : sl ≠ 0 := by
  rw [C01.unitTable_eq_spec] at h
  exact C01.LRep.scale_ne_zero a hp m l sl h

lemma grams_ne_zero_gen (mat : Mat α) (hp : Mat.Pos mat) (m : MRep) (g : α)
    (h : m.grams Gen.unitTable mat = some g) : g ≠ 0 := by
  rw [C01.unitTable_eq_spec] at h
  exact C01.MRep.grams_ne_zero mat hp m g h

/-- core of the typed loading step -/
lemma lCore_typed (a : Ads α) (mat : Mat α) (hc : a.Consistent) (hp : a.Pos) (psat : Option α) (tOk : Bool)
    (s : Iso α) (m : MRep) (l1 l2 : LRep) (s1 s2 : α)
    (hb : s.lab.lbasis = l1.basis) (hu : s.lab.lunit = l1.unit)
    (hmb : s.lab.mbasis = m.b.name) (hmu : s.lab.munit = some m.u)
    (h1 : l1.scale Gen.unitTable a m = some s1) (h2 : l2.scale Gen.unitTable a m = some s2) :
    (lCore ⟨psat, envOf a mat, tOk⟩ s l2.basis l2.unit).2 = .ok ∧
    (lCore ⟨psat, envOf a mat, tOk⟩ s l2.basis l2.unit).1.lab = { s.lab with lbasis := l2.basis, lunit := l2.unit } ∧
    (lCore ⟨psat, envOf a mat, tOk⟩ s l2.basis l2.unit).1.ps = s.ps ∧
    (lCore ⟨psat, envOf a mat, tOk⟩ s l2.basis l2.unit).1.temp = s.temp ∧
    (lCore ⟨psat, envOf a mat, tOk⟩ s l2.basis l2.unit).1.ls = s.ls.map (· * (s1 / s2)) := by
  have hs1 := lscale_ne_zero_gen a hp m l1 s1 h1
  have hspec := cLoading_spec a mat hc hp (1 : α) m l1 l2 s1 s2 h1 h2
  rw [← hb, ← hu, ← hmb, ← hmu] at hspec
  unfold lCore
  by_cases he : l2.basis = s.lab.lbasis ∧ l2.unit = s.lab.lunit
  · have : l2 = l1 := LRep.ext_labels (he.1.trans hb) (he.2.trans hu)
    subst this
    rw [h1] at h2; cases h2
    simp only [he, and_self, if_true, true_and]
    simp [hs1]
  · have he2 : ¬((isFrac s.lab.lbasis && decide (l2.basis = s.lab.lbasis)) = true) := by
      intro h
      simp only [Bool.and_eq_true, decide_eq_true_eq] at h
      apply he
      refine ⟨h.2, ?_⟩
      have e1 : l1.unit = none := (LRep.isFrac_basis l1).1 (by rw [← hb]; exact h.1)
      have e2 : l2.unit = none := (LRep.isFrac_basis l2).1 (by rw [h.2]; exact h.1)
      rw [hu, e1, e2]
    simp only [he, if_false, he2, hspec, Bool.false_eq_true]
    refine ⟨trivial, ?_, trivial, trivial, ?_⟩
    · have : (if isFrac l2.basis = true then none else l2.unit) = l2.unit := by
        by_cases hf : isFrac l2.basis = true
        · simp [hf, (LRep.isFrac_basis l2).1 hf]
        · simp [hf]
      simp only [this]
    · simp only [one_mul]

lemma unitArg_loading (a : Ads α) (m : MRep) (l1 l2 : LRep) (s2 : α)
    (h2 : l2.scale Gen.unitTable a m = some s2) :
    unitArg l2.unit (decide (l2.basis = l1.basis)) l1.unit = l2.unit := by
  cases l2 with
  | phys b u =>
    have hu : u ≠ "" := (physScale_inv (by simpa [LRep.scale] using h2)).1
    simp [unitArg, LRep.unit, truthy, hu]
  | frac =>
    by_cases hb : LRep.frac.basis = l1.basis
    · have : l1.unit = none := (LRep.isFrac_basis l1).1 (by rw [← hb]; rfl)
      show unitArg none _ l1.unit = none
      rw [this]; simp [unitArg]
    · show unitArg none _ l1.unit = none
      simp [unitArg, truthy, hb]
  | pct =>
    by_cases hb : LRep.pct.basis = l1.basis
    · have : l1.unit = none := (LRep.isFrac_basis l1).1 (by rw [← hb]; rfl)
      show unitArg none _ l1.unit = none
      rw [this]; simp [unitArg]
    · show unitArg none _ l1.unit = none
      simp [unitArg, truthy, hb]

/-- **typed loading step**: from a state whose labels name `r`, for any supported target `l : LRep` (its scale taken
w.r.t. the current material representation) `convert_loading(l.basis, l.unit)` returns normally, the labels name
`{r with l := l}`, pressure and temperature are untouched and every loading is multiplied by `sl r.l / sl l`
(mol adsorbate per old unit over mol per new unit). -/
theorem convertLoading_typed (a : Ads α) (mat : Mat α) (hc : a.Consistent) (hp : a.Pos) (psat : Option α) (tOk : Bool)
    (s : Iso α) (r : Rep) (l : LRep) (sl sl' : α) (hs : s.lab = labelsOf r)
    (hsl : r.l.scale Gen.unitTable a r.m = some sl) (hsl' : l.scale Gen.unitTable a r.m = some sl') :
    (convertLoading ⟨psat, envOf a mat, tOk⟩ s (some l.basis) l.unit).2 = .ok ∧
    (convertLoading ⟨psat, envOf a mat, tOk⟩ s (some l.basis) l.unit).1.lab = labelsOf { r with l := l } ∧
    (convertLoading ⟨psat, envOf a mat, tOk⟩ s (some l.basis) l.unit).1.ps = s.ps ∧
    (convertLoading ⟨psat, envOf a mat, tOk⟩ s (some l.basis) l.unit).1.temp = s.temp ∧
    (convertLoading ⟨psat, envOf a mat, tOk⟩ s (some l.basis) l.unit).1.ls = s.ls.map (· * (sl / sl')) := by
  rw [convertLoading_core, orCurrent_some (LRep.basis_ne_empty l)]
  have e1 : s.lab.lbasis = r.l.basis := by rw [hs]; rfl
  have e2 : s.lab.lunit = r.l.unit := by rw [hs]; rfl
  rw [e1, e2, unitArg_loading a r.m r.l l sl' hsl']
  obtain ⟨h1, h2, h3, h4, h5⟩ := lCore_typed a mat hc hp psat tOk s r.m r.l l sl sl' e1 e2
    (by rw [hs]; rfl) (by rw [hs]; rfl) hsl hsl'
  refine ⟨h1, ?_, h3, h4, h5⟩
  rw [h2, hs]; rfl

/-! ### material -/

lemma MB.name_inj {b1 b2 : MB} (h : b1.name = b2.name) : b1 = b2 := by
  cases b1 <;> cases b2 <;> simp [Spec.MB.name] at h ⊢

lemma MB.name_ne_empty (b : MB) : b.name ≠ "" := by cases b <;> simp [Spec.MB.name]

lemma volLiq_name (b : MB) : volLiq b.name = b.toLB.name := by cases b <;> rfl

/-- the material's own basis and unit always give a loading scale (same unit table) -/
lemma own_scale_of_grams (a : Ads α) (mat : Mat α) (m2 : MRep) (g2 : α)
    (hg2 : m2.grams Gen.unitTable mat = some g2) :
    ∃ p : α, physScale Gen.unitTable a m2.b.toLB m2.u = some p := by
  unfold MRep.grams at hg2
  unfold physScale
  by_cases hu : m2.u = ""
  · simp [hu] at hg2
  · simp only [hu, if_false, Option.map_eq_some_iff] at hg2 ⊢
    obtain ⟨f, hf, _⟩ := hg2
    have : m2.b.toLB.table = m2.b.table := by cases m2.b <;> rfl
    rw [this]
    exact ⟨_, f, hf, rfl⟩

/-- a fraction / percent loading has a scale w.r.t. every supported material representation; a physical one does not
depend on it -/
lemma lscale_of_grams (a : Ads α) (mat : Mat α) (l : LRep) (m1 m2 : MRep) (sl1 g2 : α)
    (hl1 : l.scale Gen.unitTable a m1 = some sl1) (hg2 : m2.grams Gen.unitTable mat = some g2) :
    ∃ sl2 : α, l.scale Gen.unitTable a m2 = some sl2 := by
  have key := own_scale_of_grams a mat m2 g2 hg2
  cases l with
  | phys b u => exact ⟨sl1, hl1⟩
  | frac => exact key
  | pct => obtain ⟨p, hp⟩ := key; exact ⟨p / 100, by simp [LRep.scale, hp]⟩

/-- fraction / percent scales: the physical scale of the material's own basis and unit, times 1 or 1/100 -/
lemma fracScale (a : Ads α) (l : LRep) (hf : isFrac l.basis = true) :
    ∃ k : α, k ≠ 0 ∧ ∀ (m : MRep) (sl : α), l.scale Gen.unitTable a m = some sl →
      ∃ p : α, physScale Gen.unitTable a m.b.toLB m.u = some p ∧ sl = p * k := by
  cases l with
  | phys b u => cases b <;> simp [LRep.basis, Spec.LB.name, isFrac] at hf
  | frac => exact ⟨1, one_ne_zero, fun m sl h => ⟨sl, h, by ring⟩⟩
  | pct =>
    refine ⟨1 / 100, by norm_num, fun m sl h => ?_⟩
    simp only [LRep.scale, Option.map_eq_some_iff] at h
    obtain ⟨p, hp, rfl⟩ := h
    exact ⟨p, hp, by ring⟩

/-- a physical loading scale does not depend on the material representation -/
lemma physScale_indep (a : Ads α) (l : LRep) (hf : ¬ isFrac l.basis = true) (m1 m2 : MRep) :
    l.scale Gen.unitTable a m1 = l.scale Gen.unitTable a m2 := by
  cases l with
  | phys b u => rfl
  | frac => simp [LRep.basis, isFrac] at hf
  | pct => simp [LRep.basis, isFrac] at hf

/-- (mol adsorbate per unit) / (gram material per unit) of the material's own basis does not depend on the unit -/
lemma own_ratio (a : Ads α) (mat : Mat α) (hmp : Mat.Pos mat) (m : MRep) (p g : α)
    (hp : physScale Gen.unitTable a m.b.toLB m.u = some p) (hg : m.grams Gen.unitTable mat = some g) :
    p / g = gL a m.b.toLB / gM mat m.b := by
  obtain ⟨_, f, hf, rfl, hn⟩ := physScale_inv hp
  obtain ⟨_, f', hf', rfl, hn', hgm⟩ := grams_inv hmp hg
  have : m.b.toLB.table = m.b.table := by cases m.b <;> rfl
  rw [this, hf'] at hf
  cases hf
  field_simp

/-- core of the typed material step -/
lemma mCore_typed (a : Ads α) (mat : Mat α) (hc : a.Consistent) (hp : a.Pos) (hmp : Mat.Pos mat)
    (psat : Option α) (tOk : Bool) (s : Iso α) (l : LRep) (m1 m2 : MRep) (g1 g2 sl1 sl2 : α)
    (hb : s.lab.lbasis = l.basis) (hmb : s.lab.mbasis = m1.b.name) (hmu : s.lab.munit = some m1.u)
    (hg1 : m1.grams Gen.unitTable mat = some g1) (hg2 : m2.grams Gen.unitTable mat = some g2)
    (hl1 : l.scale Gen.unitTable a m1 = some sl1) (hl2 : l.scale Gen.unitTable a m2 = some sl2) :
    (mCore ⟨psat, envOf a mat, tOk⟩ s m2.b.name (some m2.u)).2 = .ok ∧
    (mCore ⟨psat, envOf a mat, tOk⟩ s m2.b.name (some m2.u)).1.lab =
      { s.lab with mbasis := m2.b.name, munit := some m2.u } ∧
    (mCore ⟨psat, envOf a mat, tOk⟩ s m2.b.name (some m2.u)).1.ps = s.ps ∧
    (mCore ⟨psat, envOf a mat, tOk⟩ s m2.b.name (some m2.u)).1.temp = s.temp ∧
    (mCore ⟨psat, envOf a mat, tOk⟩ s m2.b.name (some m2.u)).1.ls = s.ls.map (· * ((sl1 / g1) / (sl2 / g2))) := by
  have hg1n := grams_ne_zero_gen mat hmp m1 g1 hg1
  have hg2n := grams_ne_zero_gen mat hmp m2 g2 hg2
  have hs1n := lscale_ne_zero_gen a hp m1 l sl1 hl1
  have hs2n := lscale_ne_zero_gen a hp m2 l sl2 hl2
  have hspecM := cMaterial_spec a mat hmp (1 : α) m1 m2 g1 g2 hg1 hg2
  rw [← hmb, ← hmu] at hspecM
  unfold mCore
  by_cases he : m2.b.name = s.lab.mbasis ∧ some m2.u = s.lab.munit
  · -- early return: same representation
    have : m2 = m1 := by
      obtain ⟨b2, u2⟩ := m2
      obtain ⟨b1, u1⟩ := m1
      obtain ⟨h1, h2⟩ := he
      simp only at h1 h2 hmb hmu
      rw [hmb] at h1; rw [hmu] at h2
      cases MB.name_inj h1
      cases h2
      rfl
    subst this
    rw [hg1] at hg2; cases hg2
    rw [hl1] at hl2; cases hl2
    have hk : sl1 / g1 / (sl1 / g1) = 1 := div_self (div_ne_zero hs1n hg1n)
    simp only [he, and_self, if_true, true_and, hk]
    simp
  · by_cases hv : (isFrac s.lab.lbasis && decide (m2.b.name = s.lab.mbasis)) = true
    · -- "virtual" unit change under a fraction / percent loading
      simp only [he, if_false, hv, if_true, hspecM]
      simp only [Bool.and_eq_true, decide_eq_true_eq] at hv
      obtain ⟨hf, hsame⟩ := hv
      refine ⟨trivial, ?_, trivial, trivial, ?_⟩
      · rw [hsame]
      · rw [hb] at hf
        obtain ⟨k, hk, hkey⟩ := fracScale a l hf
        obtain ⟨p1, hp1, rfl⟩ := hkey m1 sl1 hl1
        obtain ⟨p2, hp2, rfl⟩ := hkey m2 sl2 hl2
        have hbb : m2.b = m1.b := MB.name_inj (hsame.trans hmb)
        have r1 := own_ratio a mat hmp m1 p1 g1 hp1 hg1
        have r2 := own_ratio a mat hmp m2 p2 g2 hp2 hg2
        rw [hbb] at r2
        have hp1n : p1 ≠ 0 := left_ne_zero_of_mul hs1n
        have : p1 * k / g1 / (p2 * k / g2) = 1 := by
          have e1 : p1 * k / g1 = (p1 / g1) * k := by ring
          have e2 : p2 * k / g2 = (p2 / g2) * k := by ring
          rw [e1, e2, r1, r2, ← r1]
          exact div_self (mul_ne_zero (div_ne_zero hp1n hg1n) hk)
        rw [this]; simp
    · simp only [he, if_false, hv, hspecM, Bool.false_eq_true]
      simp only [Bool.and_eq_true, decide_eq_true_eq, not_and] at hv
      by_cases hf : isFrac s.lab.lbasis = true
      · -- fraction / percent loading, material basis changes
        simp only [hf, if_true]
        rw [hb] at hf
        obtain ⟨k, hk, hkey⟩ := fracScale a l hf
        obtain ⟨p1, hp1, rfl⟩ := hkey m1 sl1 hl1
        obtain ⟨p2, hp2, rfl⟩ := hkey m2 sl2 hl2
        have hspecL := cLoading_phys a mat hc hp (1 : α) m1.b.toLB m2.b.toLB m1.u m2.u none none p1 p2 hp1 hp2
        rw [hmb, hmu, volLiq_name, volLiq_name, hspecL]
        have hp2n : p2 ≠ 0 := left_ne_zero_of_mul hs2n
        refine ⟨rfl, rfl, rfl, rfl, ?_⟩
        show List.map (fun x => x * (1 * g2 / g1) * (1 * p1 / p2)) s.ls = _
        congr 1; funext x; field_simp
      · -- physical loading
        simp only [hf, if_false, Bool.false_eq_true]
        rw [hb] at hf
        rw [physScale_indep a l hf m1 m2, hl2] at hl1
        cases hl1
        refine ⟨trivial, trivial, trivial, trivial, ?_⟩
        congr 1; funext x; field_simp

/-- **typed material step**: from a state whose labels name `r`, for any supported target `m : MRep`
`convert_material(m.b.name, m.u)` returns normally, the labels name `{r with m := m}` (under a fraction / percent
loading the `LRep` stays, but its scale is now taken w.r.t. `m`), pressure and temperature are untouched and every
loading is multiplied by the ratio of the canonical contents `(sl / g) / (sl' / g')` (mol adsorbate per gram
material of one old stored unit over that of one new stored unit). -/
theorem convertMaterial_typed (a : Ads α) (mat : Mat α) (hc : a.Consistent) (hp : a.Pos) (hmp : Mat.Pos mat)
    (psat : Option α) (tOk : Bool) (s : Iso α) (r : Rep) (m : MRep) (sl g sl' g' : α) (hs : s.lab = labelsOf r)
    (hsl : r.l.scale Gen.unitTable a r.m = some sl) (hg : r.m.grams Gen.unitTable mat = some g)
    (hsl' : r.l.scale Gen.unitTable a m = some sl') (hg' : m.grams Gen.unitTable mat = some g') :
    (convertMaterial ⟨psat, envOf a mat, tOk⟩ s (some m.b.name) (some m.u)).2 = .ok ∧
    (convertMaterial ⟨psat, envOf a mat, tOk⟩ s (some m.b.name) (some m.u)).1.lab = labelsOf { r with m := m } ∧
    (convertMaterial ⟨psat, envOf a mat, tOk⟩ s (some m.b.name) (some m.u)).1.ps = s.ps ∧
    (convertMaterial ⟨psat, envOf a mat, tOk⟩ s (some m.b.name) (some m.u)).1.temp = s.temp ∧
    (convertMaterial ⟨psat, envOf a mat, tOk⟩ s (some m.b.name) (some m.u)).1.ls =
      s.ls.map (· * ((sl / g) / (sl' / g'))) := by
  rw [convertMaterial_core, orCurrent_some (MB.name_ne_empty m.b)]
  have hu : m.u ≠ "" := (grams_inv hmp hg').1
  have e : ∀ same cur, unitArg (some m.u) same cur = some m.u := by
    intro same cur; simp [unitArg, truthy, hu]
  rw [e]
  obtain ⟨h1, h2, h3, h4, h5⟩ := mCore_typed a mat hc hp hmp psat tOk s r.l r.m m g g' sl sl'
    (by rw [hs]; rfl) (by rw [hs]; rfl) (by rw [hs]; rfl) hg hg' hsl hsl'
  refine ⟨h1, ?_, h3, h4, h5⟩
  rw [h2, hs]; rfl

/-! ### temperature -/

/-- the temperature scale as stored: every Celsius spelling becomes `°C` -/
def normT : TRep → TRep
  | .K => .K | .C _ => .C "°C"

lemma tLabel_normT (t : TRep) : tLabel (normT t) = tLabel t := by cases t <;> rfl

/-- **typed temperature step**: for every accepted spelling of the target scale the call returns normally, the label
is the normalised one, the columns are untouched, the new value is the old one converted through Kelvin — hence the
Kelvin value is conserved. -/
theorem convertTemperature_typed (s : Iso α) (r : Rep) (t : TRep) (hs : s.lab = labelsOf r)
    (hrt : r.t = .K ∨ r.t = .C "°C") (ht : TRep.Valid t) :
    (convertTemperature s (some t.label)).2 = .ok ∧
    (convertTemperature s (some t.label)).1.lab = labelsOf { r with t := normT t } ∧
    (convertTemperature s (some t.label)).1.ps = s.ps ∧
    (convertTemperature s (some t.label)).1.ls = s.ls ∧
    (convertTemperature s (some t.label)).1.temp = t.ofK (r.t.toK s.temp) ∧
    (normT t).toK (convertTemperature s (some t.label)).1.temp = r.t.toK s.temp := by
  have hv : TRep.Valid r.t := by
    rcases hrt with h | h <;> rw [h]
    · trivial
    · exact ⟨by decide, by decide⟩
  have hl : s.lab.tunit = some r.t.label := by
    rw [hs]; rcases hrt with h | h <;> rw [labelsOf, h] <;> rfl
  have hspec := cTemperature_spec s.temp r.t t hv ht
  rw [← hl] at hspec
  have hn : normTemp (some t.label) = tLabel t := by
    rw [normTemp_label t ht]; cases t <;> rfl
  unfold convertTemperature
  simp only [hspec, hn]
  refine ⟨trivial, ?_, trivial, trivial, trivial, ?_⟩
  · rw [hs]; simp only [labelsOf, tLabel_normT]
  · cases t <;> simp [normT, Spec.TRep.toK, Spec.TRep.ofK]

end PgVerif.C02
