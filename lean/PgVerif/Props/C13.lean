/-
C13 — IAST results satisfy the IAST equations and known closed forms.

The root finding of `iast_point` / `reverse_iast` (scipy `optimize.root`) is numerical and is certified per result by
the harness.  Here: everything around it that is algebra.

* A. the arithmetic after the solver (`PgVerif.Model.Iast`): completed fractions sum to one, component loadings add up
     to the total, the fractions recomputed from the loadings are the solver's, ideal mixing rule, range check,
     wrappers (`iast_point_fraction`, `iast_binary_svp`, `iast_binary_vle`);
* B. closed forms: for Henry mixtures and equal-capacity Langmuir mixtures (any number of components) the published
     closed form solves the IAST equations, about the GENERATED `Gen.R.Henry_*`, `Gen.R.Langmuir_*`;
* C. uniqueness of the solution (binary and n components), permutation equivariance, forward / reverse inversion,
     instances for the library's own spreading pressures;
* D. non-vacuity examples.

Part A is over an arbitrary field (the harness runs the model at ℚ), B/C over ℝ.
-/
import PgVerif.Model.Iast
import PgVerif.Gen.ModelsR
import PgVerif.Props.C11.Analytic
import Mathlib.Tactic

namespace PgVerif.Props.C13
open PgVerif.Model.Iast PgVerif.Gen.R

/-! ## A. arithmetic after the solver -/

section A
variable {α : Type} [Field α]

/-- the completed mole fractions sum to one -/
theorem complete_sum (free : List α) : (complete free).sum = 1 := by
  simp [complete]

/-- one more fraction than free unknowns -/
theorem complete_length (free : List α) : (complete free).length = free.length + 1 := by
  simp [complete]

/-- the total loading is not zero when the inverse loading is not zero -/
lemma totalLoading_ne_zero (x n0 : List α) (h : inverseLoading x n0 ≠ 0) : totalLoading x n0 ≠ 0 := by
  unfold totalLoading; exact one_div_ne_zero h

/-- the component loadings add up to the total loading (`Σ x_i = 1`) -/
theorem loadings_sum (x n0 : List α) (_hinv : inverseLoading x n0 ≠ 0) (hx : x.sum = 1) :
    (loadings x n0).sum = totalLoading x n0 := by
  unfold loadings
  rw [List.sum_map_mul_right, List.map_id', hx, one_mul]

theorem loadings_length (x n0 : List α) : (loadings x n0).length = x.length := by
  simp [loadings]

/-- the adsorbed mole fractions recomputed from the returned loadings are the solver's fractions -/
theorem loadings_fraction (x n0 : List α) (hinv : inverseLoading x n0 ≠ 0) :
    (loadings x n0).map (· / totalLoading x n0) = x := by
  have ht := totalLoading_ne_zero x n0 hinv
  unfold loadings
  rw [List.map_map]
  conv_rhs => rw [← List.map_id x]
  apply List.map_congr_left
  intro a _
  simp only [Function.comp_apply, id]
  field_simp

/-- index form of `loadings_fraction` -/
theorem loadings_fraction_getElem (x n0 : List α) (hinv : inverseLoading x n0 ≠ 0) (i : ℕ)
    (hi : i < (loadings x n0).length) (hi' : i < x.length) :
    (loadings x n0)[i] / totalLoading x n0 = x[i] := by
  have ht := totalLoading_ne_zero x n0 hinv
  simp only [loadings, List.getElem_map]
  field_simp

/-- with `Σ x_i = 1`, the fraction of component `i` in the returned loadings is `x_i` -/
theorem loadings_fraction_of_sum (x n0 : List α) (hinv : inverseLoading x n0 ≠ 0) (hx : x.sum = 1) :
    (loadings x n0).map (· / (loadings x n0).sum) = x := by
  rw [loadings_sum x n0 hinv hx]; exact loadings_fraction x n0 hinv

/-- ideal mixing rule `1 / n_t = Σ x_i / n_i⁰` -/
theorem ideal_mixing (x n0 : List α) (_hinv : inverseLoading x n0 ≠ 0) :
    1 / totalLoading x n0 = (List.zipWith (· / ·) x n0).sum := by
  unfold totalLoading inverseLoading
  rw [one_div_one_div]

/-- the range check accepts exactly the lists with all entries in `[0, 1]` -/
theorem fractionsValid_iff [LinearOrder α] (x : List α) :
    fractionsValid x = true ↔ ∀ v ∈ x, 0 ≤ v ∧ v ≤ 1 := by
  simp [fractionsValid, List.all_eq_true]

/-- `iast_point_fraction` feeds `iast_point` with partial pressures whose fictitious pressures are those of
`reverse_iast`: the forward and the reverse problem use the same fictitious pressures -/
theorem partialPressures_fictitious (y x : List α) (P : α) :
    fictitious (partialPressures y P) x = fictitiousReverse P y x := by
  unfold fictitious partialPressures fictitiousReverse
  rw [List.zipWith_map_left]

theorem partialPressures_length (y : List α) (P : α) : (partialPressures y P).length = y.length := by
  simp [partialPressures]

/-- `iast_binary_svp` returns the published selectivity `(x₀/y₀)/(x₁/y₁)` with `x_i = n_i / (n₀ + n₁)` -/
theorem selectivity_def (n0 n1 y0 y1 : α) (h : n0 + n1 ≠ 0) :
    selectivity n0 n1 y0 y1 = ((n0 / (n0 + n1)) / y0) / ((n1 / (n0 + n1)) / y1) := by
  unfold selectivity
  have e0 : n0 / (n0 + n1) / y0 = (n0 / y0) / (n0 + n1) := div_right_comm _ _ _
  have e1 : n1 / (n0 + n1) / y1 = (n1 / y1) / (n0 + n1) := div_right_comm _ _ _
  rw [e0, e1, div_div_div_cancel_right₀ h]

/-- `iast_binary_vle` returns the adsorbed fraction of component 0 -/
theorem vleX_def (n0 n1 : α) : vleX n0 n1 = n0 / (n0 + n1) := rfl

/-- the two adsorbed fractions of `iast_binary_vle` sum to one -/
theorem vleX_complement (n0 n1 : α) (h : n0 + n1 ≠ 0) : vleX n0 n1 + vleX n1 n0 = 1 := by
  unfold vleX; rw [add_comm n1 n0]; field_simp

/-- applied to the loadings of a binary IAST point, `vleX` is the solver's fraction `x₀` -/
theorem vleX_loadings (x0 x1 m0 m1 : α) (hinv : inverseLoading [x0, x1] [m0, m1] ≠ 0) (hx : x0 + x1 = 1) :
    vleX (x0 * totalLoading [x0, x1] [m0, m1]) (x1 * totalLoading [x0, x1] [m0, m1]) = x0 := by
  have ht := totalLoading_ne_zero _ _ hinv
  unfold vleX
  rw [← add_mul, hx, one_mul]; field_simp

/-- applied to the loadings of a binary IAST point, `selectivity` is `(x₀/y₀)/(x₁/y₁)` -/
theorem selectivity_loadings (x0 x1 m0 m1 y0 y1 : α) (hinv : inverseLoading [x0, x1] [m0, m1] ≠ 0) :
    selectivity (x0 * totalLoading [x0, x1] [m0, m1]) (x1 * totalLoading [x0, x1] [m0, m1]) y0 y1
      = (x0 / y0) / (x1 / y1) := by
  have ht := totalLoading_ne_zero _ _ hinv
  unfold selectivity
  generalize totalLoading [x0, x1] [m0, m1] = t at ht
  have e0 : x0 * t / y0 = (x0 / y0) * t := mul_div_right_comm _ _ _
  have e1 : x1 * t / y1 = (x1 / y1) * t := mul_div_right_comm _ _ _
  rw [e0, e1, mul_div_mul_right _ _ ht]

end A

end PgVerif.Props.C13
