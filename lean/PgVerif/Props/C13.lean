/-
C13 — IAST results satisfy the IAST equations and known closed forms.

The root finding of `iast_point` / `reverse_iast` (scipy `optimize.root`) is numerical and is certified per result by
the harness.  Here: everything around it that is algebra.

* A. the arithmetic after the solver (`PgVerif.Model.Iast`): completed fractions sum to one, component loadings add up
     to the total, the fractions recomputed from the loadings are the solver's, ideal mixing rule, range check,
     wrappers (`iast_point_fraction`, `iast_binary_svp`, `iast_binary_vle`);
* B. closed forms: for Henry mixtures and equal-capacity Langmuir mixtures (any number of components) the published
     closed form solves the IAST equations, about the GENERATED `Gen.R.Henry_*`, `Gen.R.Langmuir_*`;
* C. uniqueness of the solution (binary and n components), permutation equivariance, forward / reverse inversion,
     instances for the library's own spreading pressures;
* D. non-vacuity examples.
(E–H, the raw-data certificate for point-isotherm mixtures and its uniqueness: `Props/C13/Point.lean`.)

Part A is over an arbitrary field (the harness runs the model at ℚ), B/C over ℝ.
-/
import PgVerif.Model.Iast
import PgVerif.Gen.ModelsR
import PgVerif.Props.C11.Analytic
import Mathlib.Tactic

namespace PgVerif.Props.C13
open PgVerif.Model.Iast PgVerif.Gen.R

/-! ## A. arithmetic after the solver -/

section A
variable {α : Type} [Field α]

/-- the completed mole fractions sum to one -/
theorem complete_sum (free : List α) : (complete free).sum = 1 := by
  simp [complete]

/-- one more fraction than free unknowns -/
theorem complete_length (free : List α) : (complete free).length = free.length + 1 := by
  simp [complete]

/-- the total loading is not zero when the inverse loading is not zero -/
lemma totalLoading_ne_zero (x n0 : List α) (h : inverseLoading x n0 ≠ 0) : totalLoading x n0 ≠ 0 := by
  unfold totalLoading; exact one_div_ne_zero h

/-- the component loadings add up to the total loading (`Σ x_i = 1`) -/
theorem loadings_sum (x n0 : List α) (_hinv : inverseLoading x n0 ≠ 0) (hx : x.sum = 1) :
    (loadings x n0).sum = totalLoading x n0 := by
  unfold loadings
  rw [List.sum_map_mul_right, List.map_id', hx, one_mul]

theorem loadings_length (x n0 : List α) : (loadings x n0).length = x.length := by
  simp [loadings]

/-- the adsorbed mole fractions recomputed from the returned loadings are the solver's fractions -/
theorem loadings_fraction (x n0 : List α) (hinv : inverseLoading x n0 ≠ 0) :
    (loadings x n0).map (· / totalLoading x n0) = x := by
  have ht := totalLoading_ne_zero x n0 hinv
  unfold loadings
  rw [List.map_map]
  conv_rhs => rw [← List.map_id x]
  apply List.map_congr_left
  intro a _
  simp only [Function.comp_apply, id]
  field_simp

/-- index form of `loadings_fraction` -/
theorem loadings_fraction_getElem (x n0 : List α) (hinv : inverseLoading x n0 ≠ 0) (i : ℕ)
    (hi : i < (loadings x n0).length) (hi' : i < x.length) :
    (loadings x n0)[i] / totalLoading x n0 = x[i] := by
  have ht := totalLoading_ne_zero x n0 hinv
  simp only [loadings, List.getElem_map]
  field_simp

/-- with `Σ x_i = 1`, the fraction of component `i` in the returned loadings is `x_i` -/
theorem loadings_fraction_of_sum (x n0 : List α) (hinv : inverseLoading x n0 ≠ 0) (hx : x.sum = 1) :
    (loadings x n0).map (· / (loadings x n0).sum) = x := by
  rw [loadings_sum x n0 hinv hx]; exact loadings_fraction x n0 hinv

/-- ideal mixing rule `1 / n_t = Σ x_i / n_i⁰` -/
theorem ideal_mixing (x n0 : List α) (_hinv : inverseLoading x n0 ≠ 0) :
    1 / totalLoading x n0 = (List.zipWith (· / ·) x n0).sum := by
  unfold totalLoading inverseLoading
  rw [one_div_one_div]

/-- the range check accepts exactly the lists with all entries in `[0, 1]` -/
theorem fractionsValid_iff [LinearOrder α] (x : List α) :
    fractionsValid x = true ↔ ∀ v ∈ x, 0 ≤ v ∧ v ≤ 1 := by
  simp [fractionsValid, List.all_eq_true]

/-- `iast_point_fraction` feeds `iast_point` with partial pressures whose fictitious pressures are those of
`reverse_iast`: the forward and the reverse problem use the same fictitious pressures -/
theorem partialPressures_fictitious (y x : List α) (P : α) :
    fictitious (partialPressures y P) x = fictitiousReverse P y x := by
  unfold fictitious partialPressures fictitiousReverse
  rw [List.zipWith_map_left]

theorem partialPressures_length (y : List α) (P : α) : (partialPressures y P).length = y.length := by
  simp [partialPressures]

/-- `iast_binary_svp` returns the published selectivity `(x₀/y₀)/(x₁/y₁)` with `x_i = n_i / (n₀ + n₁)` -/
theorem selectivity_def (n0 n1 y0 y1 : α) (h : n0 + n1 ≠ 0) :
    selectivity n0 n1 y0 y1 = ((n0 / (n0 + n1)) / y0) / ((n1 / (n0 + n1)) / y1) := by
  unfold selectivity
  have e0 : n0 / (n0 + n1) / y0 = (n0 / y0) / (n0 + n1) := div_right_comm _ _ _
  have e1 : n1 / (n0 + n1) / y1 = (n1 / y1) / (n0 + n1) := div_right_comm _ _ _
  rw [e0, e1, div_div_div_cancel_right₀ h]

/-- `iast_binary_vle` returns the adsorbed fraction of component 0 -/
theorem vleX_def (n0 n1 : α) : vleX n0 n1 = n0 / (n0 + n1) := rfl

/-- the two adsorbed fractions of `iast_binary_vle` sum to one -/
theorem vleX_complement (n0 n1 : α) (h : n0 + n1 ≠ 0) : vleX n0 n1 + vleX n1 n0 = 1 := by
  unfold vleX; rw [add_comm n1 n0]; field_simp

/-- applied to the loadings of a binary IAST point, `vleX` is the solver's fraction `x₀` -/
theorem vleX_loadings (x0 x1 m0 m1 : α) (hinv : inverseLoading [x0, x1] [m0, m1] ≠ 0) (hx : x0 + x1 = 1) :
    vleX (x0 * totalLoading [x0, x1] [m0, m1]) (x1 * totalLoading [x0, x1] [m0, m1]) = x0 := by
  have ht := totalLoading_ne_zero _ _ hinv
  unfold vleX
  rw [← add_mul, hx, one_mul]; field_simp

/-- applied to the loadings of a binary IAST point, `selectivity` is `(x₀/y₀)/(x₁/y₁)` -/
theorem selectivity_loadings (x0 x1 m0 m1 y0 y1 : α) (hinv : inverseLoading [x0, x1] [m0, m1] ≠ 0) :
    selectivity (x0 * totalLoading [x0, x1] [m0, m1]) (x1 * totalLoading [x0, x1] [m0, m1]) y0 y1
      = (x0 / y0) / (x1 / y1) := by
  have ht := totalLoading_ne_zero _ _ hinv
  unfold selectivity
  generalize totalLoading [x0, x1] [m0, m1] = t at ht
  have e0 : x0 * t / y0 = (x0 / y0) * t := mul_div_right_comm _ _ _
  have e1 : x1 * t / y1 = (x1 / y1) * t := mul_div_right_comm _ _ _
  rw [e0, e1, mul_div_mul_right _ _ ht]

end A

/-! ## B. closed forms -/

/-- `S = Σ K_i p_i` -/
noncomputable def mixS (Ks ps : List ℝ) : ℝ := (List.zipWith (· * ·) Ks ps).sum

/-- the closed-form adsorbed fractions `x_i = K_i p_i / S` -/
noncomputable def mixX (Ks ps : List ℝ) : List ℝ := List.zipWith (fun K p => K * p / mixS Ks ps) Ks ps

section helpersB

lemma zipWith_mul_pos : ∀ (Ks ps : List ℝ), (∀ K ∈ Ks, 0 < K) → (∀ p ∈ ps, 0 < p) →
    ∀ w ∈ List.zipWith (· * ·) Ks ps, 0 < w
  | [], _, _, _ => by simp
  | _ :: _, [], _, _ => by simp
  | K :: Ks, p :: ps, hK, hp => by
    intro w hw
    rw [List.zipWith_cons_cons, List.mem_cons] at hw
    rcases hw with rfl | hw
    · exact mul_pos (hK K (by simp)) (hp p (by simp))
    · exact zipWith_mul_pos Ks ps (fun K' h => hK K' (List.mem_cons_of_mem _ h))
        (fun p' h => hp p' (List.mem_cons_of_mem _ h)) w hw

lemma mixS_pos (Ks ps : List ℝ) (hlen : Ks.length = ps.length) (hne : Ks ≠ [])
    (hK : ∀ K ∈ Ks, 0 < K) (hp : ∀ p ∈ ps, 0 < p) : 0 < mixS Ks ps := by
  apply List.sum_pos _ (zipWith_mul_pos Ks ps hK hp)
  intro h
  have h' := congrArg List.length h
  simp only [List.length_zipWith, ← hlen, min_self, List.length_nil] at h'
  exact hne (List.length_eq_zero_iff.mp h')

lemma mixX_eq_map (Ks ps : List ℝ) :
    mixX Ks ps = (List.zipWith (· * ·) Ks ps).map (· / mixS Ks ps) := by
  unfold mixX; rw [List.map_zipWith]

lemma mixX_length (Ks ps : List ℝ) (hlen : Ks.length = ps.length) : (mixX Ks ps).length = Ks.length := by
  simp [mixX, hlen]

lemma mixX_getElem (Ks ps : List ℝ) (i : ℕ) (h : i < (mixX Ks ps).length) (h1 : i < Ks.length)
    (h2 : i < ps.length) : (mixX Ks ps)[i] = Ks[i] * ps[i] / mixS Ks ps := by
  simp [mixX]

lemma mixX_sum (Ks ps : List ℝ) (hS : mixS Ks ps ≠ 0) : (mixX Ks ps).sum = 1 := by
  rw [mixX_eq_map]
  simp only [div_eq_mul_inv]
  rw [List.sum_map_mul_right, List.map_id']
  exact mul_inv_cancel₀ hS

lemma mixX_mem (Ks ps : List ℝ) (hlen : Ks.length = ps.length) (hne : Ks ≠ [])
    (hK : ∀ K ∈ Ks, 0 < K) (hp : ∀ p ∈ ps, 0 < p) : ∀ v ∈ mixX Ks ps, 0 < v ∧ v ≤ 1 := by
  have hS := mixS_pos Ks ps hlen hne hK hp
  intro v hv
  rw [mixX_eq_map, List.mem_map] at hv
  obtain ⟨w, hw, rfl⟩ := hv
  have hw0 := zipWith_mul_pos Ks ps hK hp w hw
  have hwS : w ≤ mixS Ks ps :=
    List.single_le_sum (fun y hy => (zipWith_mul_pos Ks ps hK hp y hy).le) w hw
  exact ⟨div_pos hw0 hS, (div_le_one hS).mpr hwS⟩

/-- if every pure-component loading at the fictitious pressure is the same number `N`, the mixture loadings are
`x_i N` -/
lemma loadings_of_const (x n0 : List ℝ) (N : ℝ) (hx : x.sum = 1) (hlen : n0.length = x.length)
    (h : ∀ i (hi : i < n0.length), n0[i] = N) : loadings x n0 = x.map (· * N) := by
  have e : List.zipWith (· / ·) x n0 = x.map (· / N) := by
    apply List.ext_getElem
    · simp [hlen]
    · intro i h1 h2
      simp only [List.length_zipWith, lt_min_iff] at h1
      simp [h i h1.2]
  have hinv : inverseLoading x n0 = 1 / N := by
    unfold inverseLoading
    rw [e]
    simp only [div_eq_mul_inv]
    rw [List.sum_map_mul_right, List.map_id', hx]
  unfold loadings totalLoading
  rw [hinv, one_div_one_div]

/-- the fictitious pressure of component `i` in the closed form, times `K_i`, is `S` -/
lemma K_mul_fict (K p S : ℝ) (hK : 0 < K) (hp : 0 < p) (hS : 0 < S) : K * (p / (K * p / S)) = S := by
  field_simp

lemma henry_sp_eq (K q : ℝ) : Henry_spreading_pressure K q = K * q := rfl
lemma henry_loading_eq (K q : ℝ) : Henry_loading K q = K * q := rfl
lemma langmuir_sp_eq (K nm q : ℝ) : Langmuir_spreading_pressure K nm q = nm * Real.log (1 + K * q) := rfl
lemma langmuir_loading_eq (K nm q : ℝ) : Langmuir_loading K nm q = nm * (K * q) / (1 + K * q) := rfl

end helpersB

/-- Binary Henry mixture: `x_i = K_i p_i / (K₁ p₁ + K₂ p₂)` are valid fractions, give both components the
spreading pressure `K₁ p₁ + K₂ p₂`, and the IAST loadings are `n_i = K_i p_i`. -/
theorem henry_binary (K1 K2 p1 p2 : ℝ) (hK1 : 0 < K1) (hK2 : 0 < K2) (hp1 : 0 < p1) (hp2 : 0 < p2) :
    let S := K1 * p1 + K2 * p2
    let x1 := K1 * p1 / S
    let x2 := K2 * p2 / S
    x1 + x2 = 1 ∧ (0 < x1 ∧ x1 < 1) ∧ (0 < x2 ∧ x2 < 1) ∧
    Henry_spreading_pressure K1 (p1 / x1) = S ∧ Henry_spreading_pressure K2 (p2 / x2) = S ∧
    loadings [x1, x2] [Henry_loading K1 (p1 / x1), Henry_loading K2 (p2 / x2)] = [K1 * p1, K2 * p2] := by
  intro S x1 x2
  have h1 : 0 < K1 * p1 := mul_pos hK1 hp1
  have h2 : 0 < K2 * p2 := mul_pos hK2 hp2
  have hS : 0 < S := add_pos h1 h2
  have hsum : x1 + x2 = 1 := by simp only [x1, x2]; field_simp; rfl
  have e1 : K1 * (p1 / x1) = S := K_mul_fict K1 p1 S hK1 hp1 hS
  have e2 : K2 * (p2 / x2) = S := K_mul_fict K2 p2 S hK2 hp2 hS
  refine ⟨hsum, ⟨div_pos h1 hS, ?_⟩, ⟨div_pos h2 hS, ?_⟩, e1, e2, ?_⟩
  · rw [div_lt_one hS]; simp only [S]; linarith
  · rw [div_lt_one hS]; simp only [S]; linarith
  · rw [loadings_of_const [x1, x2] _ S (by simpa using hsum) (by simp)]
    · simp only [List.map_cons, List.map_nil, x1, x2]
      rw [div_mul_cancel₀ _ hS.ne', div_mul_cancel₀ _ hS.ne']
    · intro i hi
      simp only [List.length_cons, List.length_nil] at hi
      interval_cases i <;> simp [henry_loading_eq, e1, e2]

/-- Henry mixture with any number of components (`Ks`, `ps` of the same positive length, all positive):
(a) the closed-form fractions sum to one and lie in `(0, 1]`; (b) every component has spreading pressure `S` at its
fictitious pressure `p_i / x_i`; (c) the IAST loadings computed from these fractions are `n_i = K_i p_i`. -/
theorem henry_closed_form_solves (Ks ps : List ℝ) (hlen : Ks.length = ps.length) (hne : Ks ≠ [])
    (hK : ∀ K ∈ Ks, 0 < K) (hp : ∀ p ∈ ps, 0 < p) :
    (mixX Ks ps).length = Ks.length ∧ (mixX Ks ps).sum = 1 ∧ (∀ v ∈ mixX Ks ps, 0 < v ∧ v ≤ 1) ∧
    (∀ i (h1 : i < Ks.length) (h2 : i < (fictitious ps (mixX Ks ps)).length),
      Henry_spreading_pressure Ks[i] (fictitious ps (mixX Ks ps))[i] = mixS Ks ps) ∧
    loadings (mixX Ks ps) (List.zipWith Henry_loading Ks (fictitious ps (mixX Ks ps)))
      = List.zipWith (· * ·) Ks ps := by
  have hS := mixS_pos Ks ps hlen hne hK hp
  have hxl := mixX_length Ks ps hlen
  have key : ∀ i (h1 : i < Ks.length) (h2 : i < (fictitious ps (mixX Ks ps)).length),
      Ks[i] * (fictitious ps (mixX Ks ps))[i] = mixS Ks ps := by
    intro i h1 h2
    have h3 : i < ps.length := hlen ▸ h1
    simp only [fictitious, List.getElem_zipWith, mixX_getElem Ks ps i (hxl ▸ h1) h1 h3]
    exact K_mul_fict _ _ _ (hK _ (List.getElem_mem h1)) (hp _ (List.getElem_mem h3)) hS
  refine ⟨hxl, mixX_sum Ks ps hS.ne', mixX_mem Ks ps hlen hne hK hp, key, ?_⟩
  rw [loadings_of_const (mixX Ks ps) _ (mixS Ks ps) (mixX_sum Ks ps hS.ne')]
  · rw [mixX_eq_map, List.map_map]
    conv_rhs => rw [← List.map_id (List.zipWith (· * ·) Ks ps)]
    apply List.map_congr_left
    intro a _
    simp only [Function.comp_apply, id]
    exact div_mul_cancel₀ _ hS.ne'
  · simp [fictitious, hxl, hlen]
  · intro i hi
    simp only [List.length_zipWith, lt_min_iff] at hi
    rw [List.getElem_zipWith, henry_loading_eq]
    exact key i hi.1 (by simpa [fictitious] using hi.2)

/-- Binary Langmuir mixture with equal capacities `n_m`: the same fractions solve the IAST equations, the common
spreading pressure is `n_m log (1 + K₁ p₁ + K₂ p₂)` and the IAST loadings are the extended-Langmuir loadings. -/
theorem langmuir_equal_capacity_binary (nm K1 K2 p1 p2 : ℝ) (hnm : 0 < nm) (hK1 : 0 < K1) (hK2 : 0 < K2)
    (hp1 : 0 < p1) (hp2 : 0 < p2) :
    let S := K1 * p1 + K2 * p2
    let x1 := K1 * p1 / S
    let x2 := K2 * p2 / S
    x1 + x2 = 1 ∧ (0 < x1 ∧ x1 < 1) ∧ (0 < x2 ∧ x2 < 1) ∧
    Langmuir_spreading_pressure K1 nm (p1 / x1) = nm * Real.log (1 + S) ∧
    Langmuir_spreading_pressure K2 nm (p2 / x2) = nm * Real.log (1 + S) ∧
    loadings [x1, x2] [Langmuir_loading K1 nm (p1 / x1), Langmuir_loading K2 nm (p2 / x2)]
      = [nm * K1 * p1 / (1 + S), nm * K2 * p2 / (1 + S)] := by
  intro S x1 x2
  have h1 : 0 < K1 * p1 := mul_pos hK1 hp1
  have h2 : 0 < K2 * p2 := mul_pos hK2 hp2
  have hS : 0 < S := add_pos h1 h2
  have hS1 : 0 < 1 + S := by linarith
  have hsum : x1 + x2 = 1 := by simp only [x1, x2]; field_simp; rfl
  have e1 : K1 * (p1 / x1) = S := K_mul_fict K1 p1 S hK1 hp1 hS
  have e2 : K2 * (p2 / x2) = S := K_mul_fict K2 p2 S hK2 hp2 hS
  refine ⟨hsum, ⟨div_pos h1 hS, ?_⟩, ⟨div_pos h2 hS, ?_⟩, ?_, ?_, ?_⟩
  · rw [div_lt_one hS]; simp only [S]; linarith
  · rw [div_lt_one hS]; simp only [S]; linarith
  · rw [langmuir_sp_eq, e1]
  · rw [langmuir_sp_eq, e2]
  · rw [loadings_of_const [x1, x2] _ (nm * S / (1 + S)) (by simpa using hsum) (by simp)]
    · simp only [List.map_cons, List.map_nil, x1, x2]
      congr 1
      · field_simp
      · congr 1; field_simp
    · intro i hi
      simp only [List.length_cons, List.length_nil] at hi
      interval_cases i <;> simp [langmuir_loading_eq, e1, e2]

/-- Equal-capacity Langmuir mixture with any number of components: (a) the closed-form fractions `K_i p_i / S` are
valid; (b) every component has spreading pressure `n_m log (1 + S)` at its fictitious pressure; (c) the IAST loadings
computed from these fractions are the extended-Langmuir loadings `n_m K_i p_i / (1 + S)`. -/
theorem langmuir_equal_capacity_closed_form_solves (nm : ℝ) (Ks ps : List ℝ) (hnm : 0 < nm)
    (hlen : Ks.length = ps.length) (hne : Ks ≠ []) (hK : ∀ K ∈ Ks, 0 < K) (hp : ∀ p ∈ ps, 0 < p) :
    (mixX Ks ps).length = Ks.length ∧ (mixX Ks ps).sum = 1 ∧ (∀ v ∈ mixX Ks ps, 0 < v ∧ v ≤ 1) ∧
    (∀ i (h1 : i < Ks.length) (h2 : i < (fictitious ps (mixX Ks ps)).length),
      Langmuir_spreading_pressure Ks[i] nm (fictitious ps (mixX Ks ps))[i] = nm * Real.log (1 + mixS Ks ps)) ∧
    loadings (mixX Ks ps) (List.zipWith (fun K q => Langmuir_loading K nm q) Ks (fictitious ps (mixX Ks ps)))
      = List.zipWith (fun K p => nm * K * p / (1 + mixS Ks ps)) Ks ps := by
  have hS := mixS_pos Ks ps hlen hne hK hp
  have hS1 : 0 < 1 + mixS Ks ps := by linarith
  have hxl := mixX_length Ks ps hlen
  have key : ∀ i (h1 : i < Ks.length) (h2 : i < (fictitious ps (mixX Ks ps)).length),
      Ks[i] * (fictitious ps (mixX Ks ps))[i] = mixS Ks ps := by
    intro i h1 h2
    have h3 : i < ps.length := hlen ▸ h1
    simp only [fictitious, List.getElem_zipWith, mixX_getElem Ks ps i (hxl ▸ h1) h1 h3]
    exact K_mul_fict _ _ _ (hK _ (List.getElem_mem h1)) (hp _ (List.getElem_mem h3)) hS
  refine ⟨hxl, mixX_sum Ks ps hS.ne', mixX_mem Ks ps hlen hne hK hp, ?_, ?_⟩
  · intro i h1 h2
    rw [langmuir_sp_eq, key i h1 h2]
  rw [loadings_of_const (mixX Ks ps) _ (nm * mixS Ks ps / (1 + mixS Ks ps)) (mixX_sum Ks ps hS.ne')]
  · unfold mixX
    rw [List.map_zipWith]
    apply List.ext_getElem
    · simp
    · intro i h1 h2
      simp only [List.getElem_zipWith]
      field_simp
  · simp [fictitious, hxl, hlen]
  · intro i hi
    simp only [List.length_zipWith, lt_min_iff] at hi
    rw [List.getElem_zipWith, langmuir_loading_eq]
    rw [key i hi.1 (by simpa [fictitious] using hi.2)]

/-! ## C. uniqueness, permutation, forward / reverse -/

/-- The IAST equations for components with spreading pressures `πs` and partial pressures `ps`: the adsorbed
fractions `xs` are positive, sum to one, and every component has the same spreading pressure `c` at its fictitious
pressure `p_i / x_i` (`fictitious` is the model of `pressure0` in `iast_point`). -/
def Solves (πs : List (ℝ → ℝ)) (ps xs : List ℝ) (c : ℝ) : Prop :=
  πs.length = ps.length ∧ xs.length = ps.length ∧ xs.sum = 1 ∧ (∀ x ∈ xs, 0 < x) ∧
  ∀ i (h1 : i < πs.length) (h2 : i < (fictitious ps xs).length), πs[i] (fictitious ps xs)[i] = c

/-- The equations of `reverse_iast`: adsorbed fractions `xs` given, gas fractions `ys` positive, summing to one, and
every component has the same spreading pressure `c` at `P y_i / x_i`. -/
def SolvesReverse (πs : List (ℝ → ℝ)) (P : ℝ) (xs ys : List ℝ) (c : ℝ) : Prop :=
  πs.length = xs.length ∧ ys.length = xs.length ∧ ys.sum = 1 ∧ (∀ y ∈ ys, 0 < y) ∧
  ∀ i (h1 : i < πs.length) (h2 : i < (fictitiousReverse P ys xs).length), πs[i] (fictitiousReverse P ys xs)[i] = c

section helpersC

lemma sum_lt_sum_getElem : ∀ (l l' : List ℝ), l.length = l'.length → l ≠ [] →
    (∀ i (h : i < l.length) (h' : i < l'.length), l[i] < l'[i]) → l.sum < l'.sum
  | [], _, _, hne, _ => absurd rfl hne
  | _ :: _, [], hlen, _, _ => by simp at hlen
  | a :: l, b :: l', hlen, _, h => by
    have hab : a < b := h 0 (by simp) (by simp)
    have hlen' : l.length = l'.length := by simpa using hlen
    have htail : ∀ i (h1 : i < l.length) (h2 : i < l'.length), l[i] < l'[i] := fun i h1 h2 => by
      have := h (i + 1) (by simpa using h1) (by simpa using h2)
      simp only [List.getElem_cons_succ] at this
      exact this
    rw [List.sum_cons, List.sum_cons]
    by_cases hl : l = []
    · subst hl
      have hl' : l' = [] := List.length_eq_zero_iff.mp hlen'.symm
      subst hl'
      simpa using hab
    · exact add_lt_add hab (sum_lt_sum_getElem l l' hlen' hl htail)

/-- two lists with the same sum that are comparable componentwise in the same direction are equal -/
lemma eq_of_sum_eq_of_trichotomy (l l' : List ℝ) (hlen : l.length = l'.length) (hne : l ≠ [])
    (hsum : l.sum = l'.sum)
    (h : (∀ i (h : i < l.length) (h' : i < l'.length), l[i] < l'[i]) ∨
         (∀ i (h : i < l.length) (h' : i < l'.length), l'[i] < l[i]) ∨
         (∀ i (h : i < l.length) (h' : i < l'.length), l[i] = l'[i])) : l = l' := by
  rcases h with h | h | h
  · exact absurd hsum (sum_lt_sum_getElem l l' hlen hne h).ne
  · have hne' : l' ≠ [] := fun h0 => hne (List.length_eq_zero_iff.mp (by rw [hlen, h0]; rfl))
    exact absurd hsum.symm (sum_lt_sum_getElem l' l hlen.symm hne' (fun i h1 h2 => h i h2 h1)).ne
  · exact List.ext_getElem hlen h

lemma ne_nil_of_sum_eq_one (l : List ℝ) (h : l.sum = 1) : l ≠ [] := by
  rintro rfl; simp at h

/-- pointwise form of the forward equations -/
lemma Solves.point {πs : List (ℝ → ℝ)} {ps xs : List ℝ} {c : ℝ} (h : Solves πs ps xs c) (i : ℕ)
    (h1 : i < πs.length) (h2 : i < ps.length) (h3 : i < xs.length) : πs[i] (ps[i] / xs[i]) = c := by
  have := h.2.2.2.2 i h1 (by simp [fictitious, h2, h3])
  simpa [fictitious] using this

/-- pointwise form of the reverse equations -/
lemma SolvesReverse.point {πs : List (ℝ → ℝ)} {P : ℝ} {xs ys : List ℝ} {c : ℝ} (h : SolvesReverse πs P xs ys c)
    (i : ℕ) (h1 : i < πs.length) (h2 : i < ys.length) (h3 : i < xs.length) :
    πs[i] (P * ys[i] / xs[i]) = c := by
  have := h.2.2.2.2 i h1 (by simp [fictitiousReverse, h2, h3])
  simpa [fictitiousReverse] using this

end helpersC

/-- Binary mixture: with strictly increasing spreading pressures the residual of the solver,
`g x = π₁ (p₁ / x) − π₂ (p₂ / (1 − x))`, is strictly decreasing on `(0, 1)`. -/
theorem binary_residual_strictAntiOn (π₁ π₂ : ℝ → ℝ) (h₁ : StrictMonoOn π₁ (Set.Ioi 0))
    (h₂ : StrictMonoOn π₂ (Set.Ioi 0)) (p₁ p₂ : ℝ) (hp₁ : 0 < p₁) (hp₂ : 0 < p₂) :
    StrictAntiOn (fun x => π₁ (p₁ / x) - π₂ (p₂ / (1 - x))) (Set.Ioo 0 1) := by
  intro a ha b hb hab
  simp only [Set.mem_Ioo] at ha hb
  have ha1 : 0 < 1 - a := by linarith
  have hb1 : 0 < 1 - b := by linarith
  have e1 : π₁ (p₁ / b) < π₁ (p₁ / a) :=
    h₁ (div_pos hp₁ hb.1) (div_pos hp₁ ha.1) ((div_lt_div_iff_of_pos_left hp₁ hb.1 ha.1).mpr hab)
  have e2 : π₂ (p₂ / (1 - a)) < π₂ (p₂ / (1 - b)) :=
    h₂ (div_pos hp₂ ha1) (div_pos hp₂ hb1) ((div_lt_div_iff_of_pos_left hp₂ ha1 hb1).mpr (by linarith))
  simp only
  linarith

/-- Binary mixture: at most one `x ∈ (0, 1)` equalises the two spreading pressures. -/
theorem binary_solution_unique (π₁ π₂ : ℝ → ℝ) (h₁ : StrictMonoOn π₁ (Set.Ioi 0))
    (h₂ : StrictMonoOn π₂ (Set.Ioi 0)) (p₁ p₂ : ℝ) (hp₁ : 0 < p₁) (hp₂ : 0 < p₂)
    (x x' : ℝ) (hx : x ∈ Set.Ioo (0 : ℝ) 1) (hx' : x' ∈ Set.Ioo (0 : ℝ) 1)
    (e : π₁ (p₁ / x) = π₂ (p₂ / (1 - x))) (e' : π₁ (p₁ / x') = π₂ (p₂ / (1 - x'))) : x = x' := by
  apply (binary_residual_strictAntiOn π₁ π₂ h₁ h₂ p₁ p₂ hp₁ hp₂).injOn hx hx'
  simp only
  rw [e, e', sub_self, sub_self]

/-- n components: the IAST equations have at most one solution (and the common spreading pressure is determined). -/
theorem solution_unique (πs : List (ℝ → ℝ)) (ps xs xs' : List ℝ) (c c' : ℝ)
    (hπ : ∀ π ∈ πs, StrictMonoOn π (Set.Ioi 0)) (hp : ∀ p ∈ ps, 0 < p)
    (h : Solves πs ps xs c) (h' : Solves πs ps xs' c') : xs = xs' ∧ c = c' := by
  obtain ⟨hl1, hl2, hs, hpos, -⟩ := id h
  obtain ⟨-, hl2', hs', hpos', -⟩ := id h'
  have hne := ne_nil_of_sum_eq_one xs hs
  have hlen : xs.length = xs'.length := hl2.trans hl2'.symm
  -- pointwise comparison
  have cmp : ∀ i (h3 : i < xs.length) (h3' : i < xs'.length),
      (c < c' ↔ xs'[i] < xs[i]) ∧ (c = c' → xs[i] = xs'[i]) := by
    intro i h3 h3'
    have h2 : i < ps.length := hl2 ▸ h3
    have h1 : i < πs.length := hl1 ▸ h2
    have hm := hπ _ (List.getElem_mem h1)
    have hpi := hp _ (List.getElem_mem h2)
    have hxi := hpos _ (List.getElem_mem h3)
    have hxi' := hpos' _ (List.getElem_mem h3')
    have e := h.point i h1 h2 h3
    have e' := h'.point i h1 h2 h3'
    have m : ps[i] / xs[i] ∈ Set.Ioi (0 : ℝ) := div_pos hpi hxi
    have m' : ps[i] / xs'[i] ∈ Set.Ioi (0 : ℝ) := div_pos hpi hxi'
    constructor
    · rw [← e, ← e', hm.lt_iff_lt m m', div_lt_div_iff_of_pos_left hpi hxi hxi']
    · intro hcc
      have : ps[i] / xs[i] = ps[i] / xs'[i] := hm.injOn m m' (by rw [e, e', hcc])
      field_simp at this
      linarith
  have hxs : xs = xs' := by
    apply eq_of_sum_eq_of_trichotomy xs xs' hlen hne (hs.trans hs'.symm)
    rcases lt_trichotomy c c' with hc | hc | hc
    · exact Or.inr (Or.inl fun i h3 h3' => ((cmp i h3 h3').1).mp hc)
    · exact Or.inr (Or.inr fun i h3 h3' => (cmp i h3 h3').2 hc)
    · left
      intro i h3 h3'
      have h2 : i < ps.length := hl2 ▸ h3
      have h1 : i < πs.length := hl1 ▸ h2
      have hm := hπ _ (List.getElem_mem h1)
      have hpi := hp _ (List.getElem_mem h2)
      have hxi := hpos _ (List.getElem_mem h3)
      have hxi' := hpos' _ (List.getElem_mem h3')
      have e := h.point i h1 h2 h3
      have e' := h'.point i h1 h2 h3'
      have m : ps[i] / xs[i] ∈ Set.Ioi (0 : ℝ) := div_pos hpi hxi
      have m' : ps[i] / xs'[i] ∈ Set.Ioi (0 : ℝ) := div_pos hpi hxi'
      rw [← e, ← e', hm.lt_iff_lt m' m, div_lt_div_iff_of_pos_left hpi hxi' hxi] at hc
      exact hc
  refine ⟨hxs, ?_⟩
  subst hxs
  have h3 : 0 < xs.length := List.length_pos_iff.mpr hne
  have h2 : 0 < ps.length := hl2 ▸ h3
  have h1 : 0 < πs.length := hl1 ▸ h2
  rw [← h.point 0 h1 h2 h3, ← h'.point 0 h1 h2 h3]

/-- a solution of the IAST equations passes the range check of `iast_point` (all fractions in `[0, 1]`) -/
theorem Solves.fractionsValid {πs : List (ℝ → ℝ)} {ps xs : List ℝ} {c : ℝ} (h : Solves πs ps xs c) :
    fractionsValid xs = true := by
  rw [fractionsValid_iff]
  intro v hv
  refine ⟨(h.2.2.2.1 v hv).le, ?_⟩
  rw [← h.2.2.1]
  exact List.single_le_sum (fun y hy => (h.2.2.2.1 y hy).le) v hv

/-! ### permutation of the components -/

/-- binary mixture: swapping the two components swaps the two fractions -/
theorem binary_swap (π₁ π₂ : ℝ → ℝ) (p₁ p₂ x₁ x₂ c : ℝ) :
    Solves [π₁, π₂] [p₁, p₂] [x₁, x₂] c ↔ Solves [π₂, π₁] [p₂, p₁] [x₂, x₁] c := by
  have aux : ∀ (π₁ π₂ : ℝ → ℝ) (p₁ p₂ x₁ x₂ : ℝ),
      Solves [π₁, π₂] [p₁, p₂] [x₁, x₂] c → Solves [π₂, π₁] [p₂, p₁] [x₂, x₁] c := by
    intro π₁ π₂ p₁ p₂ x₁ x₂ h
    have e0 := h.point 0 (by simp) (by simp) (by simp)
    have e1 := h.point 1 (by simp) (by simp) (by simp)
    obtain ⟨-, -, hs, hpos, -⟩ := h
    refine ⟨rfl, rfl, ?_, ?_, ?_⟩
    · simp only [List.sum_cons, List.sum_nil] at hs ⊢; linarith
    · intro x hx
      apply hpos
      simp only [List.mem_cons, List.not_mem_nil, or_false] at hx ⊢
      tauto
    · intro i h1 h2
      simp only [List.length_cons, List.length_nil] at h1
      interval_cases i
      · simpa [fictitious] using e1
      · simpa [fictitious] using e0
  exact ⟨aux _ _ _ _ _ _, aux _ _ _ _ _ _⟩

/-- a mixture given as a list of components `(π_i, p_i, x_i)`: the IAST equations in membership form -/
lemma solves_triples_iff (l : List ((ℝ → ℝ) × ℝ × ℝ)) (c : ℝ) :
    Solves (l.map (·.1)) (l.map (·.2.1)) (l.map (·.2.2)) c ↔
      (l.map (·.2.2)).sum = 1 ∧ ∀ t ∈ l, 0 < t.2.2 ∧ t.1 (t.2.1 / t.2.2) = c := by
  constructor
  · intro h
    refine ⟨h.2.2.1, fun t ht => ?_⟩
    obtain ⟨i, hi, rfl⟩ := List.getElem_of_mem ht
    refine ⟨h.2.2.2.1 _ (List.mem_map_of_mem (List.getElem_mem hi)), ?_⟩
    have := h.point i (by simpa using hi) (by simpa using hi) (by simpa using hi)
    simpa using this
  · rintro ⟨hs, hall⟩
    refine ⟨by simp, by simp, hs, ?_, ?_⟩
    · intro x hx
      obtain ⟨t, ht, rfl⟩ := List.mem_map.mp hx
      exact (hall t ht).1
    · intro i h1 h2
      have hi : i < l.length := by simpa using h1
      have := (hall _ (List.getElem_mem hi)).2
      simpa [fictitious] using this

/-- The IAST equations are symmetric under permutation of the components: a mixture given as a list of
components `(π_i, p_i, x_i)` solves the equations iff any reordering of that list does. -/
theorem permutation_equivariant (l l' : List ((ℝ → ℝ) × ℝ × ℝ)) (hperm : l.Perm l') (c : ℝ) :
    Solves (l.map (·.1)) (l.map (·.2.1)) (l.map (·.2.2)) c ↔
      Solves (l'.map (·.1)) (l'.map (·.2.1)) (l'.map (·.2.2)) c := by
  rw [solves_triples_iff, solves_triples_iff, (hperm.map _).sum_eq]
  constructor
  · rintro ⟨a, b⟩; exact ⟨a, fun t ht => b t (hperm.mem_iff.mpr ht)⟩
  · rintro ⟨a, b⟩; exact ⟨a, fun t ht => b t (hperm.mem_iff.mp ht)⟩

/-- With uniqueness: the result for reordered data is the reordered result.  If `l` (components with their
fractions) solves the equations and `xs'` is any solution for the data of the reordering `l'`, then `xs'` is the
list of fractions of `l'`, and the common spreading pressure is the same. -/
theorem permutation_result (l l' : List ((ℝ → ℝ) × ℝ × ℝ)) (hperm : l.Perm l') (c c' : ℝ) (xs' : List ℝ)
    (hπ : ∀ t ∈ l, StrictMonoOn t.1 (Set.Ioi 0)) (hp : ∀ t ∈ l, 0 < t.2.1)
    (h : Solves (l.map (·.1)) (l.map (·.2.1)) (l.map (·.2.2)) c)
    (h' : Solves (l'.map (·.1)) (l'.map (·.2.1)) xs' c') :
    xs' = l'.map (·.2.2) ∧ c' = c := by
  have h2 := (permutation_equivariant l l' hperm c).mp h
  apply solution_unique (l'.map (·.1)) (l'.map (·.2.1)) xs' (l'.map (·.2.2)) c' c _ _ h' h2
  · intro π hm
    obtain ⟨t, ht, rfl⟩ := List.mem_map.mp hm
    exact hπ t (hperm.mem_iff.mpr ht)
  · intro p hm
    obtain ⟨t, ht, rfl⟩ := List.mem_map.mp hm
    exact hp t (hperm.mem_iff.mpr ht)

/-! ### forward and reverse IAST -/

/-- `reverse_iast` and `iast_point` solve the same equations: for valid adsorbed fractions `xs` and gas fractions
`ys`, `ys` solves the reverse problem for `xs` at total pressure `P` iff `xs` solves the forward problem for the
partial pressures `P y_i`. -/
theorem forward_reverse_inverse (πs : List (ℝ → ℝ)) (P : ℝ) (xs ys : List ℝ) (c : ℝ)
    (hx : xs.sum = 1) (hxpos : ∀ x ∈ xs, 0 < x) (hy : ys.sum = 1) (hypos : ∀ y ∈ ys, 0 < y) :
    SolvesReverse πs P xs ys c ↔ Solves πs (partialPressures ys P) xs c := by
  unfold SolvesReverse Solves
  rw [partialPressures_fictitious, partialPressures_length]
  constructor
  · rintro ⟨a, b, -, -, e⟩; exact ⟨a.trans b.symm, b.symm, hx, hxpos, e⟩
  · rintro ⟨a, b, -, -, e⟩; exact ⟨a.trans b.symm, b.symm, hy, hypos, e⟩

/-- the reverse problem has at most one solution -/
theorem reverse_solution_unique (πs : List (ℝ → ℝ)) (P : ℝ) (xs ys ys' : List ℝ) (c c' : ℝ) (hP : 0 < P)
    (hπ : ∀ π ∈ πs, StrictMonoOn π (Set.Ioi 0)) (hxpos : ∀ x ∈ xs, 0 < x)
    (h : SolvesReverse πs P xs ys c) (h' : SolvesReverse πs P xs ys' c') : ys = ys' ∧ c = c' := by
  obtain ⟨hl1, hl2, hs, hpos, -⟩ := id h
  obtain ⟨-, hl2', hs', hpos', -⟩ := id h'
  have hne := ne_nil_of_sum_eq_one ys hs
  have hlen : ys.length = ys'.length := hl2.trans hl2'.symm
  have cmp : ∀ i (h3 : i < ys.length) (h3' : i < ys'.length),
      (c < c' ↔ ys[i] < ys'[i]) ∧ (c' < c ↔ ys'[i] < ys[i]) ∧ (c = c' → ys[i] = ys'[i]) := by
    intro i h3 h3'
    have h2 : i < xs.length := hl2 ▸ h3
    have h1 : i < πs.length := hl1 ▸ h2
    have hm := hπ _ (List.getElem_mem h1)
    have hxi := hxpos _ (List.getElem_mem h2)
    have hyi := hpos _ (List.getElem_mem h3)
    have hyi' := hpos' _ (List.getElem_mem h3')
    have e := h.point i h1 h3 h2
    have e' := h'.point i h1 h3' h2
    have m : P * ys[i] / xs[i] ∈ Set.Ioi (0 : ℝ) := div_pos (mul_pos hP hyi) hxi
    have m' : P * ys'[i] / xs[i] ∈ Set.Ioi (0 : ℝ) := div_pos (mul_pos hP hyi') hxi
    have key : ∀ a b : ℝ, P * a / xs[i] < P * b / xs[i] ↔ a < b := fun a b => by
      rw [div_lt_div_iff_of_pos_right hxi]
      exact ⟨fun hh => lt_of_mul_lt_mul_left hh hP.le, fun hh => mul_lt_mul_of_pos_left hh hP⟩
    refine ⟨?_, ?_, ?_⟩
    · rw [← e, ← e', hm.lt_iff_lt m m', key]
    · rw [← e, ← e', hm.lt_iff_lt m' m, key]
    · intro hcc
      have : P * ys[i] / xs[i] = P * ys'[i] / xs[i] := hm.injOn m m' (by rw [e, e', hcc])
      rcases lt_trichotomy ys[i] ys'[i] with hlt | heq | hgt
      · exact absurd this ((key _ _).mpr hlt).ne
      · exact heq
      · exact absurd this ((key _ _).mpr hgt).ne'
  have hys : ys = ys' := by
    apply eq_of_sum_eq_of_trichotomy ys ys' hlen hne (hs.trans hs'.symm)
    rcases lt_trichotomy c c' with hc | hc | hc
    · exact Or.inl fun i h3 h3' => ((cmp i h3 h3').1).mp hc
    · exact Or.inr (Or.inr fun i h3 h3' => (cmp i h3 h3').2.2 hc)
    · exact Or.inr (Or.inl fun i h3 h3' => ((cmp i h3 h3').2.1).mp hc)
  refine ⟨hys, ?_⟩
  subst hys
  have h3 : 0 < ys.length := List.length_pos_iff.mpr hne
  have h2 : 0 < xs.length := hl2 ▸ h3
  have h1 : 0 < πs.length := hl1 ▸ h2
  rw [← h.point 0 h1 h3 h2, ← h'.point 0 h1 h3 h2]

/-- reverse then forward: if `reverse_iast` finds gas fractions `ys` for the wanted adsorbed fractions `xs`, any
result of the forward calculation at the partial pressures `P y_i` is `xs` again. -/
theorem reverse_then_forward (πs : List (ℝ → ℝ)) (P : ℝ) (xs ys xs' : List ℝ) (c c' : ℝ) (hP : 0 < P)
    (hπ : ∀ π ∈ πs, StrictMonoOn π (Set.Ioi 0)) (hx : xs.sum = 1) (hxpos : ∀ x ∈ xs, 0 < x)
    (hr : SolvesReverse πs P xs ys c) (hf : Solves πs (partialPressures ys P) xs' c') :
    xs' = xs ∧ c' = c := by
  have hf0 := (forward_reverse_inverse πs P xs ys c hx hxpos hr.2.2.1 hr.2.2.2.1).mp hr
  apply solution_unique πs (partialPressures ys P) xs' xs c' c hπ _ hf hf0
  intro p hm
  obtain ⟨y, hy, rfl⟩ := List.mem_map.mp hm
  exact mul_pos hP (hr.2.2.2.1 y hy)

/-- forward then reverse: if `iast_point` finds adsorbed fractions `xs` at the partial pressures `P y_i`
(`ys` valid gas fractions), any result of `reverse_iast` for `xs` at total pressure `P` is `ys` again. -/
theorem forward_then_reverse (πs : List (ℝ → ℝ)) (P : ℝ) (xs ys ys' : List ℝ) (c c' : ℝ) (hP : 0 < P)
    (hπ : ∀ π ∈ πs, StrictMonoOn π (Set.Ioi 0)) (hy : ys.sum = 1) (hypos : ∀ y ∈ ys, 0 < y)
    (hf : Solves πs (partialPressures ys P) xs c) (hr : SolvesReverse πs P xs ys' c') :
    ys' = ys ∧ c' = c := by
  have hr0 := (forward_reverse_inverse πs P xs ys c hf.2.2.1 hf.2.2.2.1 hy hypos).mpr hf
  exact reverse_solution_unique πs P xs ys' ys c' c hP hπ hf.2.2.2.1 hr hr0

/-! ### instances: the library's own spreading pressures

The generated spreading pressures are strictly increasing on `(0, ∞)` for positive parameters (Props/C11), so the
uniqueness, permutation and inversion theorems above apply to mixtures of these models.  (BET and GAB are strictly
increasing only below their pole, `TemkinApprox` only for `θ < 4` — `PgVerif.C11.temkin_spread_strictMonoOn_false`
shows that it is not monotone for `θ = 8`, so uniqueness of the IAST solution is not guaranteed there.) -/

theorem henry_spreading_strictMonoOn (K : ℝ) (hK : 0 < K) :
    StrictMonoOn (Henry_spreading_pressure K) (Set.Ioi 0) :=
  (PgVerif.C11.henry_spread_strictMonoOn K hK).mono Set.Ioi_subset_Ici_self

theorem langmuir_spreading_strictMonoOn (K nm : ℝ) (hK : 0 < K) (hnm : 0 < nm) :
    StrictMonoOn (Langmuir_spreading_pressure K nm) (Set.Ioi 0) :=
  (PgVerif.C11.langmuir_spread_strictMonoOn K nm hK hnm).mono Set.Ioi_subset_Ici_self

theorem dslangmuir_spreading_strictMonoOn (nm1 K1 nm2 K2 : ℝ) (hnm1 : 0 < nm1) (hK1 : 0 < K1) (hnm2 : 0 < nm2)
    (hK2 : 0 < K2) : StrictMonoOn (DSLangmuir_spreading_pressure nm1 K1 nm2 K2) (Set.Ioi 0) :=
  (PgVerif.C11.dslangmuir_spread_strictMonoOn nm1 K1 nm2 K2 hnm1 hK1 hnm2 hK2).mono Set.Ioi_subset_Ici_self

theorem tslangmuir_spreading_strictMonoOn (nm1 nm2 nm3 K1 K2 K3 : ℝ) (hnm1 : 0 < nm1) (hnm2 : 0 < nm2)
    (hnm3 : 0 < nm3) (hK1 : 0 < K1) (hK2 : 0 < K2) (hK3 : 0 < K3) :
    StrictMonoOn (TSLangmuir_spreading_pressure nm1 nm2 nm3 K1 K2 K3) (Set.Ioi 0) :=
  (PgVerif.C11.tslangmuir_spread_strictMonoOn nm1 nm2 nm3 K1 K2 K3 hnm1 hnm2 hnm3 hK1 hK2 hK3).mono
    Set.Ioi_subset_Ici_self

theorem quadratic_spreading_strictMonoOn (nm Ka Kb : ℝ) (hnm : 0 < nm) (hKa : 0 < Ka) (hKb : 0 < Kb) :
    StrictMonoOn (Quadratic_spreading_pressure nm Ka Kb) (Set.Ioi 0) :=
  (PgVerif.C11.quadratic_spread_strictMonoOn nm Ka Kb hnm hKa hKb).mono Set.Ioi_subset_Ici_self

theorem freundlich_spreading_strictMonoOn (K m : ℝ) (hK : 0 < K) (hm : 0 < m) :
    StrictMonoOn (Freundlich_spreading_pressure K m) (Set.Ioi 0) :=
  (PgVerif.C11.freundlich_spread_strictMonoOn K m hK hm).mono Set.Ioi_subset_Ici_self

theorem temkin_spreading_strictMonoOn (nm K tht : ℝ) (hnm : 0 < nm) (hK : 0 < K) (htht : tht < 4) :
    StrictMonoOn (TemkinApprox_spreading_pressure nm K tht) (Set.Ioi 0) :=
  PgVerif.C11.temkin_spread_strictMonoOn_partial nm K tht hnm hK htht

/-- the closed form is a solution in the sense of `Solves` (Henry) -/
theorem henry_closed_form_Solves (Ks ps : List ℝ) (hlen : Ks.length = ps.length) (hne : Ks ≠ [])
    (hK : ∀ K ∈ Ks, 0 < K) (hp : ∀ p ∈ ps, 0 < p) :
    Solves (Ks.map Henry_spreading_pressure) ps (mixX Ks ps) (mixS Ks ps) := by
  obtain ⟨hl, hsum, hmem, hsp, -⟩ := henry_closed_form_solves Ks ps hlen hne hK hp
  refine ⟨by simp [hlen], hl.trans hlen, hsum, fun v hv => (hmem v hv).1, ?_⟩
  intro i h1 h2
  rw [List.getElem_map]
  exact hsp i (by simpa using h1) h2

/-- Henry mixtures: whatever the root finder returns, if it satisfies the IAST equations it IS the closed form:
fractions `K_i p_i / S`, spreading pressure `S`, loadings `n_i = K_i p_i`. -/
theorem henry_result_unique (Ks ps xs : List ℝ) (c : ℝ) (hlen : Ks.length = ps.length) (hne : Ks ≠ [])
    (hK : ∀ K ∈ Ks, 0 < K) (hp : ∀ p ∈ ps, 0 < p) (h : Solves (Ks.map Henry_spreading_pressure) ps xs c) :
    xs = mixX Ks ps ∧ c = mixS Ks ps ∧
    loadings xs (List.zipWith Henry_loading Ks (fictitious ps xs)) = List.zipWith (· * ·) Ks ps := by
  have hu := solution_unique (Ks.map Henry_spreading_pressure) ps xs (mixX Ks ps) c (mixS Ks ps)
    (by
      intro π hm
      obtain ⟨K, hKm, rfl⟩ := List.mem_map.mp hm
      exact henry_spreading_strictMonoOn K (hK K hKm)) hp h
    (henry_closed_form_Solves Ks ps hlen hne hK hp)
  refine ⟨hu.1, hu.2, ?_⟩
  rw [hu.1]
  exact (henry_closed_form_solves Ks ps hlen hne hK hp).2.2.2.2

/-- the closed form is a solution in the sense of `Solves` (equal-capacity Langmuir) -/
theorem langmuir_equal_capacity_closed_form_Solves (nm : ℝ) (Ks ps : List ℝ) (hnm : 0 < nm)
    (hlen : Ks.length = ps.length) (hne : Ks ≠ []) (hK : ∀ K ∈ Ks, 0 < K) (hp : ∀ p ∈ ps, 0 < p) :
    Solves (Ks.map fun K => Langmuir_spreading_pressure K nm) ps (mixX Ks ps)
      (nm * Real.log (1 + mixS Ks ps)) := by
  obtain ⟨hl, hsum, hmem, hsp, -⟩ := langmuir_equal_capacity_closed_form_solves nm Ks ps hnm hlen hne hK hp
  refine ⟨by simp [hlen], hl.trans hlen, hsum, fun v hv => (hmem v hv).1, ?_⟩
  intro i h1 h2
  rw [List.getElem_map]
  exact hsp i (by simpa using h1) h2

/-- Equal-capacity Langmuir mixtures: any solution of the IAST equations is the extended-Langmuir closed form. -/
theorem langmuir_equal_capacity_result_unique (nm : ℝ) (Ks ps xs : List ℝ) (c : ℝ) (hnm : 0 < nm)
    (hlen : Ks.length = ps.length) (hne : Ks ≠ []) (hK : ∀ K ∈ Ks, 0 < K) (hp : ∀ p ∈ ps, 0 < p)
    (h : Solves (Ks.map fun K => Langmuir_spreading_pressure K nm) ps xs c) :
    xs = mixX Ks ps ∧ c = nm * Real.log (1 + mixS Ks ps) ∧
    loadings xs (List.zipWith (fun K q => Langmuir_loading K nm q) Ks (fictitious ps xs))
      = List.zipWith (fun K p => nm * K * p / (1 + mixS Ks ps)) Ks ps := by
  have hu := solution_unique (Ks.map fun K => Langmuir_spreading_pressure K nm) ps xs (mixX Ks ps) c
    (nm * Real.log (1 + mixS Ks ps))
    (by
      intro π hm
      obtain ⟨K, hKm, rfl⟩ := List.mem_map.mp hm
      exact langmuir_spreading_strictMonoOn K nm (hK K hKm) hnm) hp h
    (langmuir_equal_capacity_closed_form_Solves nm Ks ps hnm hlen hne hK hp)
  refine ⟨hu.1, hu.2, ?_⟩
  rw [hu.1]
  exact (langmuir_equal_capacity_closed_form_solves nm Ks ps hnm hlen hne hK hp).2.2.2.2

/-- binary Langmuir mixture with arbitrary (different) capacities: at most one solution in `(0, 1)` -/
theorem langmuir_binary_unique (K1 nm1 K2 nm2 p1 p2 x x' : ℝ) (hK1 : 0 < K1) (hnm1 : 0 < nm1) (hK2 : 0 < K2)
    (hnm2 : 0 < nm2) (hp1 : 0 < p1) (hp2 : 0 < p2) (hx : x ∈ Set.Ioo (0 : ℝ) 1) (hx' : x' ∈ Set.Ioo (0 : ℝ) 1)
    (e : Langmuir_spreading_pressure K1 nm1 (p1 / x) = Langmuir_spreading_pressure K2 nm2 (p2 / (1 - x)))
    (e' : Langmuir_spreading_pressure K1 nm1 (p1 / x') = Langmuir_spreading_pressure K2 nm2 (p2 / (1 - x'))) :
    x = x' :=
  binary_solution_unique _ _ (langmuir_spreading_strictMonoOn K1 nm1 hK1 hnm1)
    (langmuir_spreading_strictMonoOn K2 nm2 hK2 hnm2) p1 p2 hp1 hp2 x x' hx hx' e e'

/-! ## D. non-vacuity -/

example : complete [(1 / 4 : ℚ), 1 / 4] = [1 / 4, 1 / 4, 1 / 2] := by norm_num [complete]

example : fractionsValid (complete [(1 / 4 : ℚ), 1 / 4]) = true := by decide +kernel

example : fractionsValid (complete [(3 / 4 : ℚ), 1 / 2]) = false := by decide +kernel

/-- `x = [1/4, 3/4]`, pure-component loadings `[2, 6]`: `1/n_t = 1/8 + 1/8`, `n_t = 4`, loadings `[1, 3]` -/
example : loadings [(1 / 4 : ℚ), 3 / 4] [2, 6] = [1, 3] := by
  norm_num [loadings, totalLoading, inverseLoading]

example : inverseLoading [(1 / 4 : ℚ), 3 / 4] [2, 6] ≠ 0 := by norm_num [inverseLoading]

example : fictitious (partialPressures [(1 / 4 : ℚ), 3 / 4] 2) [1 / 2, 1 / 2] = [1, 3] := by
  norm_num [fictitious, partialPressures]

example : selectivity (1 : ℚ) 3 (1 / 2) (1 / 2) = 1 / 3 := by norm_num [selectivity]

example : vleX (1 : ℚ) 3 = 1 / 4 := by norm_num [vleX]

/-- a concrete binary Henry mixture `K = [2, 1]`, `p = [1, 2]`: `S = 4`, `x = [1/2, 1/2]` -/
example : mixS [2, 1] [1, 2] = 4 ∧ mixX [2, 1] [1, 2] = [1 / 2, 1 / 2] := by
  norm_num [mixS, mixX]

/-- the hypotheses of the uniqueness theorems are satisfiable: this mixture solves the IAST equations -/
example : Solves [Henry_spreading_pressure 2, Henry_spreading_pressure 1] [1, 2] [1 / 2, 1 / 2] 4 := by
  have h := henry_closed_form_Solves [2, 1] [1, 2] rfl (by simp) (by simp) (by simp)
  have e : mixS [2, 1] [1, 2] = 4 ∧ mixX [2, 1] [1, 2] = [1 / 2, 1 / 2] := by norm_num [mixS, mixX]
  rw [e.1, e.2] at h
  simpa using h

/-- and its IAST loadings are `n_i = K_i p_i = [2, 2]` -/
example : loadings [(1 / 2 : ℝ), 1 / 2]
    [Henry_loading 2 (1 / (1 / 2)), Henry_loading 1 (2 / (1 / 2))] = [2, 2] := by
  norm_num [loadings, totalLoading, inverseLoading, henry_loading_eq]

end PgVerif.Props.C13
