/-
C14 — linearised characterisation methods recover the generating parameters.
(theorems are being added; see Props/C14 task)
-/
import PgVerif.Gen.CharR
import PgVerif.Model.Linear

namespace PgVerif.Props.C14
open PgVerif.Gen.CharR

/-- Langmuir linearisation: `p/n` is a straight line in `p` with slope `1/n_m` and intercept `1/(n_m K)`. -/
theorem langmuir_transform_linear (nm K p : ℝ) (hnm : nm ≠ 0) (hK : K ≠ 0) (hp : p ≠ 0) (h1 : 1 + K * p ≠ 0) :
    langmuir_transform p (simple_lang p nm K) = (1 / nm) * p + 1 / (nm * K) := by
  unfold langmuir_transform simple_lang
  field_simp
  ring

end PgVerif.Props.C14
