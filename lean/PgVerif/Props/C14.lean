/-
C14 — linearised characterisation methods recover the generating parameters.

Statements are about
  * the GENERATED per-point transforms and parameter formulas `PgVerif.Gen.CharR.*` (characterisation/*.py now), and
  * the hand-written, harness-tested model `PgVerif.Model.Linear` of window selection and least squares.

A. least squares (`ols`): exact data on a line are fitted exactly (guard: two distinct abscissae).
B. recovery: BET, Langmuir, t-plot, alpha-s, Dubinin–Astakhov: transform of exact model data is linear and the
   parameter formulas invert slope/intercept; end-to-end through `ols`.
C. window selection: `searchsorted`, `limitWindow`, `decide3`, `slice`, `rouquerolMax`, `betWindow`, `openSection`;
   tables of fewer than three points are refused for every value of the limits (`short_table_refused`).
D. non-vacuity examples and concrete evaluations (tests, not properties).
-/
import PgVerif.Gen.CharR
import PgVerif.Model.Linear
import Mathlib.Tactic
import Mathlib.Data.List.GetD

namespace PgVerif.Props.C14
open PgVerif.Gen.CharR PgVerif.Model.Linear

/-! ## A. least squares -/
section OlsAlgebra
variable {α : Type} [Field α]

@[simp] lemma sum_nil : sum ([] : List α) = 0 := rfl
@[simp] lemma sum_cons (x : α) (xs : List α) : sum (x :: xs) = x + sum xs := rfl

lemma sum_map_affine (a b : α) (xs : List α) :
    sum (xs.map fun x => a * x + b) = a * sum xs + b * (xs.length : α) := by
  induction xs with
  | nil => simp
  | cons x xs ih => simp only [List.map_cons, sum_cons, ih, List.length_cons]; push_cast; ring

lemma sum_map_mul_left (a : α) (g : α → α) (xs : List α) :
    sum (xs.map fun x => a * g x) = a * sum (xs.map g) := by
  induction xs with
  | nil => simp
  | cons x xs ih => simp only [List.map_cons, sum_cons, ih]; ring

lemma sum_zipWith_map (g : α → α → α) (f : α → α) (xs : List α) :
    sum (List.zipWith g xs (xs.map f)) = sum (xs.map fun x => g x (f x)) := by
  induction xs with
  | nil => simp
  | cons x xs ih => simp only [List.map_cons, List.zipWith_cons_cons, sum_cons, ih]

lemma sum_zipWith_self (g : α → α → α) (xs : List α) :
    sum (List.zipWith g xs xs) = sum (xs.map fun x => g x x) := by
  have := sum_zipWith_map g id xs
  simp only [List.map_id, id] at this
  exact this

/-- `sxy xs xs` is the sum of squared deviations from the mean. -/
lemma sxy_self_eq (xs : List α) :
    sxy xs xs = sum (xs.map fun x => (x - mean xs) * (x - mean xs)) := by
  unfold sxy; exact sum_zipWith_self _ xs

lemma sum_zipWith_scale (k m m' : α) (xs ys : List α) :
    sum (List.zipWith (fun x y => (x - m) * (y - k * m')) xs (ys.map fun y => k * y))
      = k * sum (List.zipWith (fun x y => (x - m) * (y - m')) xs ys) := by
  induction xs generalizing ys with
  | nil => simp
  | cons x xs ih =>
    cases ys with
    | nil => simp
    | cons y ys => simp only [List.map_cons, List.zipWith_cons_cons, sum_cons, ih]; ring

lemma sxy_nil_left (ys : List α) : sxy ([] : List α) ys = 0 := by
  unfold sxy; simp

lemma mean_map_scale (k : α) (ys : List α) : mean (ys.map fun y => k * y) = k * mean ys := by
  unfold mean
  have := sum_map_mul_left k id ys
  simp only [id, List.map_id] at this
  rw [this, List.length_map, mul_div_assoc]

variable [CharZero α]

lemma length_cast_ne_zero {xs : List α} (h : xs ≠ []) : (xs.length : α) ≠ 0 := by
  have : xs.length ≠ 0 := by simpa using h
  exact_mod_cast this

lemma mean_map_affine (a b : α) (xs : List α) (h : xs ≠ []) :
    mean (xs.map fun x => a * x + b) = a * mean xs + b := by
  have hl := length_cast_ne_zero h
  unfold mean
  rw [sum_map_affine, List.length_map]
  field_simp

/-- the covariance of `xs` with an affine image of itself -/
lemma sxy_map_affine (a b : α) (xs : List α) (h : xs ≠ []) :
    sxy xs (xs.map fun x => a * x + b) = a * sxy xs xs := by
  rw [sxy_self_eq]
  unfold sxy
  rw [mean_map_affine a b xs h, sum_zipWith_map, ← sum_map_mul_left]
  congr 1
  apply List.map_congr_left
  intro x _
  ring

/-- **A1.** Least squares through points lying exactly on the line `y = a x + b` returns `(a, b)`,
provided the abscissae are not all equal (`sxy xs xs ≠ 0`; see `sxy_self_pos`, `sxy_self_pos_of_ne`). -/
theorem ols_exact (a b : α) (xs ys : List α) (hys : ys = xs.map fun x => a * x + b)
    (hx : sxy xs xs ≠ 0) : ols xs ys = (a, b) := by
  have hne : xs ≠ [] := by
    rintro rfl; exact hx (sxy_nil_left _)
  subst hys
  unfold ols
  simp only [sxy_map_affine a b xs hne, mean_map_affine a b xs hne]
  rw [mul_div_assoc, div_self hx, mul_one]
  simp

/-- **A3.** Scaling the ordinates by `k` scales slope and intercept by `k` (no side condition). -/
theorem ols_scale (k : α) (xs ys : List α) :
    ols xs (ys.map fun y => k * y) = (k * (ols xs ys).1, k * (ols xs ys).2) := by
  have hs : sxy xs (ys.map fun y => k * y) = k * sxy xs ys := by
    unfold sxy
    rw [mean_map_scale, sum_zipWith_scale]
  unfold ols
  simp only [hs, mean_map_scale, Prod.mk.injEq]
  constructor <;> ring

end OlsAlgebra

section OlsOrder
variable {α : Type} [Field α] [LinearOrder α] [IsStrictOrderedRing α]

lemma sum_map_nonneg (g : α → α) (xs : List α) (h : ∀ x ∈ xs, 0 ≤ g x) : 0 ≤ sum (xs.map g) := by
  induction xs with
  | nil => simp
  | cons x xs ih =>
    simp only [List.map_cons, sum_cons]
    have h1 := h x (by simp)
    have h2 := ih (fun y hy => h y (by simp [hy]))
    linarith

lemma le_sum_map_of_mem (g : α → α) (xs : List α) (h : ∀ x ∈ xs, 0 ≤ g x) {u : α} (hu : u ∈ xs) :
    g u ≤ sum (xs.map g) := by
  induction xs with
  | nil => simp at hu
  | cons x xs ih =>
    simp only [List.map_cons, sum_cons]
    have h1 := h x (by simp)
    have h2 := sum_map_nonneg g xs (fun y hy => h y (by simp [hy]))
    rcases List.mem_cons.mp hu with rfl | hu'
    · linarith
    · have := ih (fun y hy => h y (by simp [hy])) hu'
      linarith

lemma sxy_self_nonneg (xs : List α) : 0 ≤ sxy xs xs := by
  rw [sxy_self_eq]; exact sum_map_nonneg _ _ (fun x _ => mul_self_nonneg _)

/-- two distinct abscissae make the sum of squared deviations positive -/
theorem sxy_self_pos_of_ne (xs : List α) {u v : α} (hu : u ∈ xs) (hv : v ∈ xs) (huv : u ≠ v) :
    0 < sxy xs xs := by
  rw [sxy_self_eq]
  have key : ∀ w ∈ xs, w ≠ mean xs → 0 < sum (xs.map fun x => (x - mean xs) * (x - mean xs)) := by
    intro w hw hwm
    have h1 := le_sum_map_of_mem (fun x => (x - mean xs) * (x - mean xs)) xs
      (fun x _ => mul_self_nonneg _) hw
    have h2 : 0 < (w - mean xs) * (w - mean xs) := mul_self_pos.mpr (sub_ne_zero.mpr hwm)
    exact lt_of_lt_of_le h2 h1
  by_cases hum : u = mean xs
  · exact key v hv (fun hvm => huv (hum.trans hvm.symm))
  · exact key u hu hum

omit [Field α] [LinearOrder α] [IsStrictOrderedRing α] in
/-- a pairwise-distinct list with at least two entries has two distinct members -/
lemma exists_two_of_pairwise {R : α → α → Prop} (hR : ∀ a b, R a b → a ≠ b) (xs : List α)
    (hp : xs.Pairwise R) (hl : 2 ≤ xs.length) : ∃ u ∈ xs, ∃ v ∈ xs, u ≠ v := by
  match xs, hp, hl with
  | a :: b :: rest, hp, _ =>
    refine ⟨a, by simp, b, by simp, ?_⟩
    rw [List.pairwise_cons] at hp
    exact hR a b (hp.1 b (by simp))

/-- strictly increasing abscissae (at least two) ⇒ positive sum of squared deviations -/
theorem sxy_self_pos (xs : List α) (hs : xs.Pairwise (· < ·)) (hl : 2 ≤ xs.length) : 0 < sxy xs xs := by
  obtain ⟨u, hu, v, hv, huv⟩ := exists_two_of_pairwise (fun a b h => ne_of_lt h) xs hs hl
  exact sxy_self_pos_of_ne xs hu hv huv

theorem sxy_self_pos_of_desc (xs : List α) (hs : xs.Pairwise (· > ·)) (hl : 2 ≤ xs.length) : 0 < sxy xs xs := by
  obtain ⟨u, hu, v, hv, huv⟩ := exists_two_of_pairwise (fun a b h => ne_of_gt h) xs hs hl
  exact sxy_self_pos_of_ne xs hu hv huv

/-- **A2.** `ols_exact` for strictly increasing abscissae (at least two points). -/
theorem ols_exact_of_sorted (a b : α) (xs ys : List α) (hys : ys = xs.map fun x => a * x + b)
    (hs : xs.Pairwise (· < ·)) (hl : 2 ≤ xs.length) : ols xs ys = (a, b) :=
  ols_exact a b xs ys hys (sxy_self_pos xs hs hl).ne'

/-- `ols_exact` for strictly decreasing abscissae (at least two points). -/
theorem ols_exact_of_sorted_desc (a b : α) (xs ys : List α) (hys : ys = xs.map fun x => a * x + b)
    (hs : xs.Pairwise (· > ·)) (hl : 2 ≤ xs.length) : ols xs ys = (a, b) :=
  ols_exact a b xs ys hys (sxy_self_pos_of_desc xs hs hl).ne'

/-- `ols_exact` when two of the abscissae differ. -/
theorem ols_exact_of_two_distinct (a b : α) (xs ys : List α) (hys : ys = xs.map fun x => a * x + b)
    {u v : α} (hu : u ∈ xs) (hv : v ∈ xs) (huv : u ≠ v) : ols xs ys = (a, b) :=
  ols_exact a b xs ys hys (sxy_self_pos_of_ne xs hu hv huv).ne'

/-- Conversely the guard is necessary: when all abscissae are equal `sxy xs xs = 0` and the
regression is degenerate (the totalised division returns slope 0). -/
theorem sxy_self_eq_zero_of_const (c : α) (n : ℕ) : sxy (List.replicate n c) (List.replicate n c) = 0 := by
  have hsum : ∀ (d : α) (k : ℕ), sum (List.replicate k d) = k * d := by
    intro d k
    induction k with
    | zero => simp
    | succ k ih => simp only [List.replicate_succ, sum_cons, ih]; push_cast; ring
  rcases Nat.eq_zero_or_pos n with rfl | hn
  · exact sxy_nil_left _
  · have hn' : (n : α) ≠ 0 := by exact_mod_cast hn.ne'
    have hm : mean (List.replicate n c) = c := by
      unfold mean; rw [hsum, List.length_replicate]; field_simp
    rw [sxy_self_eq, hm, List.map_replicate, hsum]
    ring

end OlsOrder

/-! ## B. recovery of the generating parameters (statements about the generated formulas `Gen.CharR`) -/
section Recovery

/-- map of a strictly increasing list under a function that is strictly increasing on its members -/
lemma pairwise_lt_map_of_mem {f : ℝ → ℝ} {l : List ℝ} (hs : l.Pairwise (· < ·))
    (hf : ∀ a ∈ l, ∀ b ∈ l, a < b → f a < f b) : (l.map f).Pairwise (· < ·) := by
  rw [List.pairwise_map]
  exact hs.imp_of_mem (fun ha hb hab => hf _ ha _ hb hab)

lemma pairwise_gt_map_of_mem {f : ℝ → ℝ} {l : List ℝ} (hs : l.Pairwise (· < ·))
    (hf : ∀ a ∈ l, ∀ b ∈ l, a < b → f b < f a) : (l.map f).Pairwise (· > ·) := by
  rw [List.pairwise_map]
  exact hs.imp_of_mem (fun ha hb hab => hf _ ha _ hb hab)

/-! ### BET -/

/-- **B4.** BET linearisation: for data generated by the BET equation, `p / (n (1 - p))` is the straight line
`(c-1)/(n_m c) · p + 1/(n_m c)`.  Guards: `0 < p < 1` (relative pressure strictly inside the range; at `p = 0` and
`p = 1` the transform divides by zero), `0 < n_m`, `0 < c`. -/
theorem bet_transform_linear (nm c p : ℝ) (hp0 : 0 < p) (hp1 : p < 1) (hnm : 0 < nm) (hc : 0 < c) :
    bet_transform p (simple_bet p nm c) = ((c - 1) / (nm * c)) * p + 1 / (nm * c) := by
  unfold bet_transform roq_transform simple_bet
  have h1 : (1 - p) ≠ 0 := (sub_pos.2 hp1).ne'
  have h2 : (1 - p) + c * p ≠ 0 := (add_pos (sub_pos.2 hp1) (mul_pos hc hp0)).ne'
  have h3 : p ≠ 0 := hp0.ne'
  have h4 : nm ≠ 0 := hnm.ne'
  have h5 : c ≠ 0 := hc.ne'
  field_simp
  ring

/-- `1e-18 · N_A` -/
lemma avogadro_scaled : ((10 : ℝ) ^ (-18 : ℤ)) * (602214076000000000000000 : ℝ) = 602214.076 := by
  norm_num

/-- **B5.** The BET parameter formulas invert slope and intercept of the BET line.
(`bet_area` has the generated argument order `cross_section n_monolayer`.) -/
theorem bet_parameters_recover (nm c cs : ℝ) (hnm : 0 < nm) (hc : 0 < c) :
    bet_c_const ((c - 1) / (nm * c)) (1 / (nm * c)) = c ∧
    bet_n_monolayer (1 / (nm * c)) c = nm ∧
    bet_p_monolayer c = 1 / (Real.sqrt c + 1) ∧
    bet_area cs nm = nm * cs * (10 : ℝ) ^ (-18 : ℤ) * 602214076000000000000000 ∧
    bet_area cs nm = nm * cs * 602214.076 := by
  have h4 : nm ≠ 0 := hnm.ne'
  have h5 : c ≠ 0 := hc.ne'
  refine ⟨?_, ?_, rfl, rfl, ?_⟩
  · unfold bet_c_const; field_simp; ring
  · unfold bet_n_monolayer; field_simp
  · unfold bet_area; rw [mul_assoc, avogadro_scaled]

/-- **B6.** BET end to end: least squares over the BET transform of exact BET data at any strictly increasing list of at
least two relative pressures in `(0,1)` returns the BET line, and the code's own chaining (`n_monolayer` computed from
the computed `c_const`) returns the generating `c` and `n_m`. -/
theorem bet_recovers (nm c : ℝ) (ps : List ℝ) (hnm : 0 < nm) (hc : 0 < c)
    (hs : ps.Pairwise (· < ·)) (hl : 2 ≤ ps.length) (hp : ∀ p ∈ ps, 0 < p ∧ p < 1) :
    let r := ols ps (ps.map fun p => bet_transform p (simple_bet p nm c))
    r = ((c - 1) / (nm * c), 1 / (nm * c)) ∧
    bet_c_const r.1 r.2 = c ∧ bet_n_monolayer r.2 (bet_c_const r.1 r.2) = nm := by
  intro r
  have hr : r = ((c - 1) / (nm * c), 1 / (nm * c)) := by
    apply ols_exact_of_sorted _ _ _ _ _ hs hl
    apply List.map_congr_left
    intro p hpm
    exact bet_transform_linear nm c p (hp p hpm).1 (hp p hpm).2 hnm hc
  obtain ⟨h1, h2, -⟩ := bet_parameters_recover nm c 0 hnm hc
  refine ⟨hr, ?_, ?_⟩
  · rw [hr]; exact h1
  · rw [hr]; simp only; rw [h1]; exact h2

/-- **B7.** The "monolayer pressure" `1/(√c+1)` is the pressure at which the BET loading equals `n_m`. -/
theorem bet_p_monolayer_is_knee (nm c : ℝ) (hc : 0 < c) : simple_bet (bet_p_monolayer c) nm c = nm := by
  unfold simple_bet bet_p_monolayer
  have hs : 0 < Real.sqrt c := Real.sqrt_pos.2 hc
  have hcs : c = Real.sqrt c * Real.sqrt c := (Real.mul_self_sqrt hc.le).symm
  set s := Real.sqrt c with hsdef
  have h1 : s + 1 ≠ 0 := by positivity
  have e1 : 1 - 1 / (s + 1) = s / (s + 1) := by field_simp; ring
  have e2 : s / (s + 1) + c * (1 / (s + 1)) = s := by rw [hcs]; field_simp; ring
  rw [e1, e2, hcs]
  field_simp

/-! ### Langmuir -/

/-- **B8a.** Langmuir linearisation: `p/n` is a straight line in `p` with slope `1/n_m` and intercept `1/(n_m K)`.
Guards `0 < p`, `0 < n_m`, `0 < K` (at `p = 0` the loading is 0 and the transform divides by zero). -/
theorem langmuir_transform_linear (nm K p : ℝ) (hnm : 0 < nm) (hK : 0 < K) (hp : 0 < p) :
    langmuir_transform p (simple_lang p nm K) = (1 / nm) * p + 1 / (nm * K) := by
  unfold langmuir_transform simple_lang
  have h1 : 1 + K * p ≠ 0 := by positivity
  have h2 : nm ≠ 0 := hnm.ne'
  have h3 : K ≠ 0 := hK.ne'
  have h4 : p ≠ 0 := hp.ne'
  field_simp
  ring

/-- **B8b.** The Langmuir parameter formulas invert slope and intercept. -/
theorem langmuir_parameters_recover (nm K cs : ℝ) (hnm : 0 < nm) (hK : 0 < K) :
    lang_n_monolayer (1 / nm) = nm ∧
    lang_const (1 / (nm * K)) nm = K ∧
    lang_area cs nm = nm * cs * (10 : ℝ) ^ (-18 : ℤ) * 602214076000000000000000 ∧
    lang_area cs nm = nm * cs * 602214.076 := by
  have h2 : nm ≠ 0 := hnm.ne'
  have h3 : K ≠ 0 := hK.ne'
  refine ⟨?_, ?_, rfl, ?_⟩
  · unfold lang_n_monolayer; field_simp
  · unfold lang_const; field_simp
  · unfold lang_area; rw [mul_assoc, avogadro_scaled]

/-- **B8c.** Langmuir end to end over any strictly increasing list of at least two positive pressures. -/
theorem langmuir_recovers (nm K : ℝ) (ps : List ℝ) (hnm : 0 < nm) (hK : 0 < K)
    (hs : ps.Pairwise (· < ·)) (hl : 2 ≤ ps.length) (hp : ∀ p ∈ ps, 0 < p) :
    let r := ols ps (ps.map fun p => langmuir_transform p (simple_lang p nm K))
    r = (1 / nm, 1 / (nm * K)) ∧
    lang_n_monolayer r.1 = nm ∧ lang_const r.2 (lang_n_monolayer r.1) = K := by
  intro r
  have hr : r = (1 / nm, 1 / (nm * K)) := by
    apply ols_exact_of_sorted _ _ _ _ _ hs hl
    apply List.map_congr_left
    intro p hpm
    exact langmuir_transform_linear nm K p hnm hK (hp p hpm)
  obtain ⟨h1, h2, -⟩ := langmuir_parameters_recover nm K 0 hnm hK
  refine ⟨hr, ?_, ?_⟩
  · rw [hr]; exact h1
  · rw [hr]; simp only; rw [h1]; exact h2

/-! ### t-plot -/

/-- **B9.** t-plot: a loading that is exactly `s·t + i` over a strictly increasing thickness list (at least 2 points) is
fitted with slope `s`, intercept `i`, and the reported area / adsorbed volume are `s M/ρ`, `i M/ρ/1000`.
(generated argument order `molar_mass liquid_density slope|intercept`). -/
theorem tplot_recovers (s i M ρ : ℝ) (ts : List ℝ) (hs : ts.Pairwise (· < ·)) (hl : 2 ≤ ts.length) :
    let r := ols ts (ts.map fun t => s * t + i)
    r = (s, i) ∧ tplot_area M ρ r.1 = s * M / ρ ∧ tplot_adsorbed_volume M ρ r.2 = i * M / ρ / 1000 := by
  intro r
  have hr : r = (s, i) := ols_exact_of_sorted s i ts _ rfl hs hl
  refine ⟨hr, ?_, ?_⟩ <;> rw [hr] <;> rfl

/-! ### alpha-s -/

/-- the alpha-s curve of a strictly increasing reference loading is strictly increasing (`0 < α_s` point loading) -/
lemma alphas_curve_sorted (apt : ℝ) (ref : List ℝ) (hapt : 0 < apt) (hs : ref.Pairwise (· < ·)) :
    (ref.map fun x => alphas_curve x apt).Pairwise (· < ·) := by
  apply pairwise_lt_map_of_mem hs
  intro a _ b _ hab
  unfold alphas_curve
  exact div_lt_div_of_pos_right hab hapt

/-- **B10.** alpha-s: loading exactly `s·α + i` over the alpha-s curve of a strictly increasing reference loading
(at least 2 points, normalising loading `0 < apt`) is fitted with `(s, i)` and the area is `A_ref/apt · s`.
(generated argument order `alphas_area alpha_s_point reference_area slope`). -/
theorem alphas_recovers (s i apt Aref : ℝ) (ref : List ℝ) (hapt : 0 < apt)
    (hs : ref.Pairwise (· < ·)) (hl : 2 ≤ ref.length) :
    let curve := ref.map fun x => alphas_curve x apt
    let r := ols curve (curve.map fun a => s * a + i)
    r = (s, i) ∧ alphas_area apt Aref r.1 = Aref / apt * s := by
  intro curve r
  have hr : r = (s, i) :=
    ols_exact_of_sorted s i curve _ rfl (alphas_curve_sorted apt ref hapt hs) (by simpa [curve] using hl)
  refine ⟨hr, ?_⟩
  rw [hr]; rfl

/-- **B11.** alpha-s of an isotherm against itself: slope `apt`, intercept `0`, and the reference area is returned. -/
theorem alphas_self_returns_reference_area (apt Aref : ℝ) (ref : List ℝ) (hapt : 0 < apt)
    (hs : ref.Pairwise (· < ·)) (hl : 2 ≤ ref.length) :
    let curve := ref.map fun x => alphas_curve x apt
    let r := ols curve ref
    r = (apt, 0) ∧ alphas_area apt Aref r.1 = Aref := by
  intro curve r
  have hr : r = (apt, 0) := by
    apply ols_exact_of_sorted apt 0 curve ref _ (alphas_curve_sorted apt ref hapt hs) (by simpa [curve] using hl)
    simp only [curve, List.map_map]
    conv_lhs => rw [← List.map_id ref]
    apply List.map_congr_left
    intro x _
    simp only [id, Function.comp, alphas_curve]
    field_simp
    ring
  refine ⟨hr, ?_⟩
  rw [hr]; unfold alphas_area
  field_simp

/-! ### Dubinin–Astakhov / Dubinin–Radushkevich -/

/-- the gas constant literal of the generated code (`scipy.constants.gas_constant`, 8.31446261815324) -/
noncomputable def Rgas : ℝ := 207861565453831 / 25000000000000

/-- the Dubinin–Astakhov governing equation (generator; loading in mmol/g from the micropore volume `V0` cm³/g) -/
noncomputable def nDA (V0 ρ M T E k p : ℝ) : ℝ :=
  V0 * ρ / M * Real.exp (-((Rgas * T * (-(Real.log p)) / (1000 * E)) ^ k))

lemma Rgas_pos : 0 < Rgas := by unfold Rgas; norm_num

/-- **B12.** DA linearisation: `log (n M/ρ)` is linear in `(-log p)^k` with slope `-(RT/(1000E))^k` and intercept `log V0`.
Guards: `0 < p < 1` (so `-log p > 0`; the real power of a negative base is not the code's value), positive constants. -/
theorem da_transform_linear (V0 ρ M T E k p : ℝ) (hp0 : 0 < p) (hp1 : p < 1) (hV : 0 < V0) (hρ : 0 < ρ)
    (hM : 0 < M) (hT : 0 < T) (hE : 0 < E) (_hk : 0 < k) :
    log_v_adj (nDA V0 ρ M T E k p) M ρ
      = Real.log V0 + (-((Rgas * T / (1000 * E)) ^ k)) * log_p_exp p k := by
  have hL : 0 ≤ -(Real.log p) := (neg_pos.2 (Real.log_neg hp0 hp1)).le
  have hA : 0 ≤ Rgas * T / (1000 * E) := by have := Rgas_pos; positivity
  unfold log_v_adj nDA log_p_exp
  simp only [Real.rpow_eq_pow]
  have e1 : V0 * ρ / M * Real.exp (-((Rgas * T * (-(Real.log p)) / (1000 * E)) ^ k)) * M / ρ
      = V0 * Real.exp (-((Rgas * T * (-(Real.log p)) / (1000 * E)) ^ k)) := by
    field_simp
  have e2 : Rgas * T * (-(Real.log p)) / (1000 * E) = (Rgas * T / (1000 * E)) * (-(Real.log p)) := by ring
  rw [e1, Real.log_mul hV.ne' (Real.exp_pos _).ne', Real.log_exp, e2, Real.mul_rpow hA hL]
  ring

/-- **B13.** The DA parameter formulas invert slope and intercept.
(generated argument order `da_potential iso_temp exp slope`). -/
theorem da_parameters_recover (V0 T E k : ℝ) (hV : 0 < V0) (hT : 0 < T) (hE : 0 < E) (hk : 0 < k) :
    da_microp_volume (Real.log V0) = V0 ∧
    da_potential T k (-((Rgas * T / (1000 * E)) ^ k)) = E := by
  have hR := Rgas_pos
  have hA : 0 ≤ Rgas * T / (1000 * E) := by positivity
  constructor
  · unfold da_microp_volume; exact Real.exp_log hV
  · unfold da_potential
    simp only [Real.rpow_eq_pow, neg_neg]
    rw [← Real.rpow_mul hA, mul_one_div_cancel hk.ne', Real.rpow_one]
    change Rgas * T / (Rgas * T / (1000 * E)) / 1000 = E
    field_simp

/-- `(-log p)^k` is strictly decreasing in `p` on `(0,1)` for `k > 0`. -/
theorem log_p_exp_strictAntiOn (k : ℝ) (hk : 0 < k) :
    StrictAntiOn (fun p => log_p_exp p k) (Set.Ioo 0 1) := by
  intro a ha b hb hab
  unfold log_p_exp
  simp only [Real.rpow_eq_pow]
  have h1 : Real.log a < Real.log b := Real.log_lt_log ha.1 hab
  have h2 : 0 ≤ -(Real.log b) := (neg_pos.2 (Real.log_neg hb.1 hb.2)).le
  exact Real.rpow_lt_rpow h2 (neg_lt_neg h1) hk

/-- DA regression over any list of pressures in `(0,1)` containing two distinct pressures. -/
theorem da_ols_eq (V0 ρ M T E k : ℝ) (ps : List ℝ) (hV : 0 < V0) (hρ : 0 < ρ)
    (hM : 0 < M) (hT : 0 < T) (hE : 0 < E) (hk : 0 < k) (hp : ∀ p ∈ ps, 0 < p ∧ p < 1)
    {u v : ℝ} (hu : u ∈ ps) (hv : v ∈ ps) (huv : u ≠ v) :
    ols (ps.map fun p => log_p_exp p k) (ps.map fun p => log_v_adj (nDA V0 ρ M T E k p) M ρ)
      = (-((Rgas * T / (1000 * E)) ^ k), Real.log V0) := by
  have hanti := log_p_exp_strictAntiOn k hk
  have hne : log_p_exp u k ≠ log_p_exp v k := by
    rcases lt_or_gt_of_ne huv with h | h
    · exact (hanti ⟨(hp u hu).1, (hp u hu).2⟩ ⟨(hp v hv).1, (hp v hv).2⟩ h).ne'
    · exact (hanti ⟨(hp v hv).1, (hp v hv).2⟩ ⟨(hp u hu).1, (hp u hu).2⟩ h).ne
  apply ols_exact_of_two_distinct _ _ _ _ _ (List.mem_map_of_mem hu) (List.mem_map_of_mem hv) hne
  rw [List.map_map]
  apply List.map_congr_left
  intro p hpm
  simp only [Function.comp]
  rw [da_transform_linear V0 ρ M T E k p (hp p hpm).1 (hp p hpm).2 hV hρ hM hT hE hk]
  ring

/-- **B14.** DA end to end over a strictly increasing list of at least two relative pressures in `(0,1)`
(the abscissae `(-log p)^k` are then strictly decreasing): the fit returns `V0` and `E`. -/
theorem da_recovers (V0 ρ M T E k : ℝ) (ps : List ℝ) (hV : 0 < V0) (hρ : 0 < ρ)
    (hM : 0 < M) (hT : 0 < T) (hE : 0 < E) (hk : 0 < k)
    (hs : ps.Pairwise (· < ·)) (hl : 2 ≤ ps.length) (hp : ∀ p ∈ ps, 0 < p ∧ p < 1) :
    let r := ols (ps.map fun p => log_p_exp p k) (ps.map fun p => log_v_adj (nDA V0 ρ M T E k p) M ρ)
    r = (-((Rgas * T / (1000 * E)) ^ k), Real.log V0) ∧
    da_microp_volume r.2 = V0 ∧ da_potential T k r.1 = E := by
  intro r
  obtain ⟨u, hu, v, hv, huv⟩ := exists_two_of_pairwise (fun a b h => ne_of_lt h) ps hs hl
  have hr : r = (-((Rgas * T / (1000 * E)) ^ k), Real.log V0) :=
    da_ols_eq V0 ρ M T E k ps hV hρ hM hT hE hk hp hu hv huv
  obtain ⟨h1, h2⟩ := da_parameters_recover V0 T E k hV hT hE hk
  exact ⟨hr, by rw [hr]; exact h1, by rw [hr]; exact h2⟩

/-- B14 for a strictly decreasing pressure list (desorption order). -/
theorem da_recovers_desc (V0 ρ M T E k : ℝ) (ps : List ℝ) (hV : 0 < V0) (hρ : 0 < ρ)
    (hM : 0 < M) (hT : 0 < T) (hE : 0 < E) (hk : 0 < k)
    (hs : ps.Pairwise (· > ·)) (hl : 2 ≤ ps.length) (hp : ∀ p ∈ ps, 0 < p ∧ p < 1) :
    let r := ols (ps.map fun p => log_p_exp p k) (ps.map fun p => log_v_adj (nDA V0 ρ M T E k p) M ρ)
    r = (-((Rgas * T / (1000 * E)) ^ k), Real.log V0) ∧
    da_microp_volume r.2 = V0 ∧ da_potential T k r.1 = E := by
  intro r
  obtain ⟨u, hu, v, hv, huv⟩ := exists_two_of_pairwise (fun a b h => ne_of_gt h) ps hs hl
  have hr : r = (-((Rgas * T / (1000 * E)) ^ k), Real.log V0) :=
    da_ols_eq V0 ρ M T E k ps hV hρ hM hT hE hk hp hu hv huv
  obtain ⟨h1, h2⟩ := da_parameters_recover V0 T E k hV hT hE hk
  exact ⟨hr, by rw [hr]; exact h1, by rw [hr]; exact h2⟩

/-- the abscissae of the DA plot of a strictly increasing pressure list in `(0,1)` are strictly decreasing -/
theorem da_abscissae_desc (k : ℝ) (hk : 0 < k) (ps : List ℝ) (hs : ps.Pairwise (· < ·))
    (hp : ∀ p ∈ ps, 0 < p ∧ p < 1) : (ps.map fun p => log_p_exp p k).Pairwise (· > ·) := by
  apply pairwise_gt_map_of_mem hs
  intro a ha b hb hab
  exact log_p_exp_strictAntiOn k hk ⟨(hp a ha).1, (hp a ha).2⟩ ⟨(hp b hb).1, (hp b hb).2⟩ hab

/-- **B15.** At the generating exponent every regression residual is zero (so the standard error that the exponent
search minimises attains its global minimum 0 there). -/
theorem da_true_exponent_has_zero_residual (V0 ρ M T E k : ℝ) (ps : List ℝ) (hV : 0 < V0) (hρ : 0 < ρ)
    (hM : 0 < M) (hT : 0 < T) (hE : 0 < E) (hk : 0 < k)
    (hs : ps.Pairwise (· < ·)) (hl : 2 ≤ ps.length) (hp : ∀ p ∈ ps, 0 < p ∧ p < 1) :
    let r := ols (ps.map fun p => log_p_exp p k) (ps.map fun p => log_v_adj (nDA V0 ρ M T E k p) M ρ)
    ∀ p ∈ ps, r.2 + r.1 * log_p_exp p k = log_v_adj (nDA V0 ρ M T E k p) M ρ := by
  intro r p hpm
  have hr := (da_recovers V0 ρ M T E k ps hV hρ hM hT hE hk hs hl hp).1
  change r = _ at hr
  rw [hr, da_transform_linear V0 ρ M T E k p (hp p hpm).1 (hp p hpm).2 hV hρ hM hT hE hk]

end Recovery

/-! ## C. window selection -/
section Search
variable {α : Type} [LinearOrder α]

lemma searchsorted_cons (x : α) (xs : List α) (v : α) :
    searchsorted (x :: xs) v = if x < v then searchsorted xs v + 1 else 0 := rfl

lemma searchsorted_le_length (ps : List α) (v : α) : searchsorted ps v ≤ ps.length := by
  induction ps with
  | nil => simp [searchsorted]
  | cons x xs ih =>
    rw [searchsorted_cons]; split_ifs <;> simp; exact ih

/-- key fact: in a sorted list the indices below `searchsorted ps v` are exactly those holding a value `< v` -/
lemma lt_searchsorted_iff (ps : List α) (hs : ps.Pairwise (· ≤ ·)) (v : α) (i : ℕ) (h : i < ps.length) :
    i < searchsorted ps v ↔ ps[i] < v := by
  induction ps generalizing i with
  | nil => simp at h
  | cons x xs ih =>
    rw [List.pairwise_cons] at hs
    rw [searchsorted_cons]
    by_cases hx : x < v
    · rw [if_pos hx]
      cases i with
      | zero => simpa using hx
      | succ j =>
        simp only [List.getElem_cons_succ, Nat.add_lt_add_iff_right]
        exact ih hs.2 j (by simpa using h)
    · rw [if_neg hx]
      simp only [Nat.not_lt_zero, false_iff, not_lt]
      have hvx : v ≤ x := not_lt.mp hx
      cases i with
      | zero => simpa using hvx
      | succ j =>
        simp only [List.getElem_cons_succ]
        exact le_trans hvx (hs.1 _ (List.getElem_mem _))

lemma searchsorted_eq_length_filter (ps : List α) (hs : ps.Pairwise (· ≤ ·)) (v : α) :
    searchsorted ps v = (ps.filter (fun p => decide (p < v))).length := by
  induction ps with
  | nil => rfl
  | cons x xs ih =>
    rw [List.pairwise_cons] at hs
    rw [searchsorted_cons]
    by_cases hx : x < v
    · rw [if_pos hx, List.filter_cons_of_pos (by simpa using hx), List.length_cons, ih hs.2]
    · rw [if_neg hx]
      have : (x :: xs).filter (fun p => decide (p < v)) = [] := by
        rw [List.filter_eq_nil_iff]
        intro a ha
        simp only [decide_eq_true_eq, not_lt]
        rcases List.mem_cons.mp ha with rfl | ha'
        · exact not_lt.mp hx
        · exact le_trans (not_lt.mp hx) (hs.1 a ha')
      rw [this]; rfl

/-- **C16.** `numpy.searchsorted(ps, v)` (side = left) on a sorted (non-decreasing) list: it is the number of elements
`< v`; every index below it holds a value `< v`, every index from it on holds a value `≥ v`. -/
theorem searchsorted_spec (ps : List α) (hs : ps.Pairwise (· ≤ ·)) (v : α) :
    searchsorted ps v = (ps.filter (fun p => decide (p < v))).length ∧
    searchsorted ps v ≤ ps.length ∧
    (∀ i (h : i < ps.length), i < searchsorted ps v → ps[i] < v) ∧
    (∀ i (h : i < ps.length), searchsorted ps v ≤ i → v ≤ ps[i]) := by
  refine ⟨searchsorted_eq_length_filter ps hs v, searchsorted_le_length ps v, ?_, ?_⟩
  · intro i h hi; exact (lt_searchsorted_iff ps hs v i h).1 hi
  · intro i h hi
    by_contra hc
    exact absurd ((lt_searchsorted_iff ps hs v i h).2 (not_le.mp hc)) (not_lt.mpr hi)

/-- **contiguous-window lemma**: if the members of a list satisfying `P` are exactly those at the indices `a ≤ i < b`,
then filtering by `P` is the slice `[a, b)`. -/
lemma filter_eq_drop_take {β : Type} (P : β → Bool) (l : List β) (a b : ℕ)
    (h : ∀ i (hi : i < l.length), P l[i] = true ↔ (a ≤ i ∧ i < b)) :
    l.filter P = (l.take b).drop a := by
  induction l generalizing a b with
  | nil => simp
  | cons x xs ih =>
    have h0 := h 0 (by simp)
    simp only [List.getElem_cons_zero] at h0
    have ht : ∀ j (hj : j < xs.length), P xs[j] = true ↔ (a - 1 ≤ j ∧ j < b - 1) := by
      intro j hj
      have := h (j + 1) (by simpa using hj)
      simp only [List.getElem_cons_succ] at this
      rw [this]; omega
    have iht := ih (a - 1) (b - 1) ht
    cases b with
    | zero =>
      have hPx : ¬ (P x = true) := by rw [h0]; omega
      rw [List.filter_cons_of_neg hPx, iht]; simp
    | succ b' =>
      cases a with
      | zero =>
        have hPx : P x = true := by rw [h0]; omega
        rw [List.filter_cons_of_pos hPx, iht]; simp
      | succ a' =>
        have hPx : ¬ (P x = true) := by rw [h0]; omega
        rw [List.filter_cons_of_neg hPx, iht]; simp

end Search

section Window
variable {α : Type} [Field α] [LinearOrder α]

lemma given_none : given (none : Option α) = none := rfl
lemma given_some_zero : given (some (0 : α)) = none := by simp [given]
lemma given_some_ne {v : α} (h : v ≠ 0) : given (some v) = some v := by simp [given, h]

/-- "inside the user's limits" with the Python truthiness of the limits (`None` and `0` = not given):
`lo ≤ p` if the lower limit is given, `p < hi` if the upper limit is given. -/
def inLimits (lo hi : Option α) (p : α) : Bool :=
  (match given lo with | some v => decide (v ≤ p) | none => true) &&
  (match given hi with | some v => decide (p < v) | none => true)

lemma inLimits_both {lo hi : α} (hlo : lo ≠ 0) (hhi : hi ≠ 0) (p : α) :
    inLimits (some lo) (some hi) p = decide (lo ≤ p ∧ p < hi) := by
  simp [inLimits, given_some_ne hlo, given_some_ne hhi]

lemma limitWindow_snd_ge (ps : List α) (lo hi : Option α) : -1 ≤ (limitWindow ps lo hi).2 := by
  unfold limitWindow
  cases given hi <;> simp <;> omega

lemma limitWindow_snd_lt (ps : List α) (lo hi : Option α) : (limitWindow ps lo hi).2 < ps.length := by
  unfold limitWindow
  cases given hi with
  | none => simp
  | some v => have := searchsorted_le_length ps v; simp; omega

/-- **C17 (general form).** For a sorted pressure list, index `i` lies in `[minimum, maximum]` exactly when `ps[i]` is
inside the limits that are given (every combination of given / `None` / `0` limits). -/
theorem limitWindow_spec_general (ps : List α) (hs : ps.Pairwise (· ≤ ·)) (lo hi : Option α)
    (i : ℕ) (h : i < ps.length) :
    ((limitWindow ps lo hi).1 ≤ i ∧ (i : ℤ) ≤ (limitWindow ps lo hi).2) ↔ inLimits lo hi ps[i] = true := by
  unfold limitWindow inLimits
  have key : ∀ v, i < searchsorted ps v ↔ ps[i] < v := fun v => lt_searchsorted_iff ps hs v i h
  cases hglo : given lo with
  | none =>
    cases hghi : given hi with
    | none => simp; exact h
    | some vh => simp; rw [← key vh]
  | some vl =>
    have kl : searchsorted ps vl ≤ i ↔ vl ≤ ps[i] := by
      rw [← not_lt, key vl, not_lt]
    cases hghi : given hi with
    | none => simp; rw [kl]; exact and_iff_left h
    | some vh => simp; rw [kl, ← key vh]

/-- **C17.** Both limits given (non-zero): the selected indices are exactly those with `lo ≤ ps[i] < hi`
(a half-open pressure interval: a point equal to the upper limit is excluded). -/
theorem limitWindow_spec (ps : List α) (hs : ps.Pairwise (· ≤ ·)) (lo hi : α) (hlo : lo ≠ 0) (hhi : hi ≠ 0)
    (i : ℕ) (h : i < ps.length) :
    ((limitWindow ps (some lo) (some hi)).1 ≤ i ∧ (i : ℤ) ≤ (limitWindow ps (some lo) (some hi)).2)
      ↔ (lo ≤ ps[i] ∧ ps[i] < hi) := by
  rw [limitWindow_spec_general ps hs _ _ i h, inLimits_both hlo hhi]; simp

/-- C17 variant: lower limit not given (`None` or `0`): only `ps[i] < hi` is required. -/
theorem limitWindow_spec_hi_only (ps : List α) (hs : ps.Pairwise (· ≤ ·)) (lo : Option α) (hi : α)
    (hlo : lo = none ∨ lo = some 0) (hhi : hi ≠ 0) (i : ℕ) (h : i < ps.length) :
    ((limitWindow ps lo (some hi)).1 ≤ i ∧ (i : ℤ) ≤ (limitWindow ps lo (some hi)).2) ↔ ps[i] < hi := by
  have hg : given lo = none := by rcases hlo with rfl | rfl; exacts [rfl, given_some_zero]
  rw [limitWindow_spec_general ps hs _ _ i h]; simp [inLimits, hg, given_some_ne hhi]

/-- C17 variant: upper limit not given (`None` or `0`): only `lo ≤ ps[i]` is required. -/
theorem limitWindow_spec_lo_only (ps : List α) (hs : ps.Pairwise (· ≤ ·)) (lo : α) (hi : Option α)
    (hlo : lo ≠ 0) (hhi : hi = none ∨ hi = some 0) (i : ℕ) (h : i < ps.length) :
    ((limitWindow ps (some lo) hi).1 ≤ i ∧ (i : ℤ) ≤ (limitWindow ps (some lo) hi).2) ↔ lo ≤ ps[i] := by
  have hg : given hi = none := by rcases hhi with rfl | rfl; exacts [rfl, given_some_zero]
  rw [limitWindow_spec_general ps hs _ _ i h]; simp [inLimits, hg, given_some_ne hlo]

/-- C17 variant: no limit given: the whole list. -/
theorem limitWindow_none (ps : List α) (lo hi : Option α)
    (hlo : lo = none ∨ lo = some 0) (hhi : hi = none ∨ hi = some 0) :
    limitWindow ps lo hi = (0, (ps.length : ℤ) - 1) := by
  have hg : given lo = none := by rcases hlo with rfl | rfl; exacts [rfl, given_some_zero]
  have hg' : given hi = none := by rcases hhi with rfl | rfl; exacts [rfl, given_some_zero]
  simp [limitWindow, hg, hg']

/-- The points inside the limits form the contiguous slice `[minimum, maximum]`. -/
theorem filter_inLimits_eq (ps : List α) (hs : ps.Pairwise (· ≤ ·)) (lo hi : Option α) :
    ps.filter (inLimits lo hi)
      = (ps.take ((limitWindow ps lo hi).2 + 1).toNat).drop (limitWindow ps lo hi).1 := by
  apply filter_eq_drop_take
  intro i h
  rw [← limitWindow_spec_general ps hs lo hi i h]
  have := limitWindow_snd_ge ps lo hi
  omega

/-- number of points inside the limits -/
theorem countP_inLimits_eq (ps : List α) (hs : ps.Pairwise (· ≤ ·)) (lo hi : Option α) :
    (ps.countP (inLimits lo hi) : ℤ)
      = max 0 ((limitWindow ps lo hi).2 + 1 - (limitWindow ps lo hi).1) := by
  rw [List.countP_eq_length_filter, filter_inLimits_eq ps hs lo hi]
  have h1 := limitWindow_snd_ge ps lo hi
  have h2 := limitWindow_snd_lt ps lo hi
  simp only [List.length_drop, List.length_take]
  omega

/-- **C18 (general form).** The window is refused (`CalculationError`) exactly when fewer than three points lie inside
the given limits. -/
theorem window_refused_iff_general (ps : List α) (hs : ps.Pairwise (· ≤ ·)) (lo hi : Option α) :
    decide3 (limitWindow ps lo hi) = none ↔ ps.countP (inLimits lo hi) < 3 := by
  have hc := countP_inLimits_eq ps hs lo hi
  unfold decide3
  split_ifs with hw
  · simp only [true_iff]; omega
  · simp only [false_iff]; omega

/-- **C18.** Both limits given: refusal ⇔ fewer than three points with `lo ≤ p < hi`. -/
theorem window_refused_iff (ps : List α) (hs : ps.Pairwise (· ≤ ·)) (lo hi : α) (hlo : lo ≠ 0) (hhi : hi ≠ 0) :
    decide3 (limitWindow ps (some lo) (some hi)) = none
      ↔ ps.countP (fun p => decide (lo ≤ p ∧ p < hi)) < 3 := by
  rw [window_refused_iff_general ps hs]
  have : inLimits (some lo) (some hi) = fun p => decide (lo ≤ p ∧ p < hi) :=
    funext (inLimits_both hlo hhi)
  rw [this]

/-- what an accepted window looks like -/
theorem decide3_some (w : ℕ × ℤ) (a b : ℕ) (h : decide3 w = some (a, b)) :
    a = w.1 ∧ (b : ℤ) = w.2 ∧ 3 ≤ b + 1 - a := by
  unfold decide3 at h
  split_ifs at h with hw
  simp only [Option.some.injEq, Prod.mk.injEq] at h
  omega

omit [LinearOrder α] [Field α] in
lemma slice_length (xs : List α) (a b : ℕ) : (slice xs (a, b)).length = min (b + 1) xs.length - a := by
  simp [slice]

omit [LinearOrder α] [Field α] in
/-- **C18b.** An accepted window has at least three points. -/
theorem slice_length_ge_three (ps : List α) (w : ℕ × ℤ) (a b : ℕ) (h : decide3 w = some (a, b))
    (hb : b < ps.length) : 3 ≤ (slice ps (a, b)).length := by
  have := decide3_some w a b h
  rw [slice_length]; omega

/-- accepted windows from `limitWindow` always lie inside the list -/
theorem decide3_limitWindow_lt (ps : List α) (lo hi : Option α) (a b : ℕ)
    (h : decide3 (limitWindow ps lo hi) = some (a, b)) : b < ps.length := by
  have h1 := decide3_some _ a b h
  have h2 := limitWindow_snd_lt ps lo hi
  omega

/-- **C19 (general form).** When the window is accepted, the fitted slice is exactly the list of points inside the
given limits. -/
theorem slice_eq_filter_general (ps : List α) (hs : ps.Pairwise (· ≤ ·)) (lo hi : Option α) (w : ℕ × ℕ)
    (h : decide3 (limitWindow ps lo hi) = some w) : slice ps w = ps.filter (inLimits lo hi) := by
  obtain ⟨a, b⟩ := w
  have h1 := decide3_some _ a b h
  rw [filter_inLimits_eq ps hs lo hi]
  unfold slice
  have e1 : ((limitWindow ps lo hi).2 + 1).toNat = b + 1 := by omega
  rw [e1, ← h1.1]

/-- **C19.** Both limits given, window accepted: `slice ps w = ps.filter (lo ≤ p < hi)`. -/
theorem slice_eq_filter (ps : List α) (hs : ps.Pairwise (· ≤ ·)) (lo hi : α) (hlo : lo ≠ 0) (hhi : hi ≠ 0)
    (w : ℕ × ℕ) (h : decide3 (limitWindow ps (some lo) (some hi)) = some w) :
    slice ps w = ps.filter (fun p => decide (lo ≤ p ∧ p < hi)) := by
  rw [slice_eq_filter_general ps hs _ _ w h]
  have : inLimits (some lo) (some hi) = fun p => decide (lo ≤ p ∧ p < hi) :=
    funext (inLimits_both hlo hhi)
  rw [this]

/-! ### C20: the per-method windows -/

theorem betWindow_limits (ps roq : List α) (tenth : α) (lo hi : Option α) :
    betWindow ps roq tenth (some (lo, hi)) = decide3 (limitWindow ps lo hi) := rfl

theorem langWindow_limits (ps : List α) (c05 c90 : α) (lo hi : Option α) :
    langWindow ps c05 c90 (some (lo, hi)) = decide3 (limitWindow ps lo hi) := rfl

theorem daWindow_limits (ps : List α) (lo hi : Option α) :
    daWindow ps (some (lo, hi)) = decide3 (limitWindow ps lo hi) := rfl

/-- Langmuir default: the explicit window `[0.05·p_last, 0.9·p_last)`. -/
theorem langWindow_default (ps : List α) (c05 c90 : α) :
    langWindow ps c05 c90 none
      = decide3 (limitWindow ps (some (ps.getD (ps.length - 1) 0 * c05)) (some (ps.getD (ps.length - 1) 0 * c90))) := rfl

theorem daWindow_default (ps : List α) : daWindow ps none = decide3 (0, (ps.length : ℤ) - 1) := rfl

/-- DA default: all points; accepted iff there are at least three. -/
theorem daWindow_default_accepts_iff (ps : List α) :
    daWindow ps none = some (0, ps.length - 1) ↔ 3 ≤ ps.length := by
  rw [daWindow_default]; unfold decide3
  split_ifs with hw
  · simp only [false_iff]; omega
  · simp only [Option.some.injEq, Prod.mk.injEq, true_and]
    constructor
    · intro _; omega
    · intro _; omega

theorem daWindow_default_refused_iff (ps : List α) : daWindow ps none = none ↔ ps.length < 3 := by
  rw [daWindow_default]; unfold decide3
  split_ifs with hw
  · simp only [true_iff]; omega
  · simp only [false_iff]; omega

end Window

/-! ### C21: the Rouquerol maximum -/
section Rouquerol
variable {α : Type} [LinearOrder α]

lemma rouquerolMaxAux_cons_cons (a b : α) (rest : List α) (i : ℕ) :
    rouquerolMaxAux (a :: b :: rest) i
      = if a > b then some (i + 1) else rouquerolMaxAux (b :: rest) (i + 1) := rfl

lemma rouquerolMaxAux_some (l : List α) (i m : ℕ) (h : rouquerolMaxAux l i = some m) :
    ∃ (j : ℕ) (hj : j + 1 < l.length), m = i + j + 1 ∧ l[j + 1] < l[j] ∧
      ∀ j' (hj' : j' < j), l[j'] ≤ l[j' + 1] := by
  induction l generalizing i with
  | nil => simp [rouquerolMaxAux] at h
  | cons a tl ih =>
    cases tl with
    | nil => simp [rouquerolMaxAux] at h
    | cons b rest =>
      rw [rouquerolMaxAux_cons_cons] at h
      by_cases hab : a > b
      · rw [if_pos hab] at h
        refine ⟨0, by simp, ?_, by simpa using hab, ?_⟩
        · simp at h; omega
        · intro j' hj'; omega
      · rw [if_neg hab] at h
        obtain ⟨j, hj, hm, hdec, hbefore⟩ := ih (i + 1) h
        refine ⟨j + 1, by simpa using hj, by omega, by simpa using hdec, ?_⟩
        intro j' hj'
        cases j' with
        | zero => simpa using not_lt.mp hab
        | succ k =>
          have := hbefore k (by omega)
          simpa using this

lemma rouquerolMaxAux_none (l : List α) (i : ℕ) (h : rouquerolMaxAux l i = none) :
    ∀ j (hj : j + 1 < l.length), l[j] ≤ l[j + 1] := by
  induction l generalizing i with
  | nil => intro j hj; simp at hj
  | cons a tl ih =>
    cases tl with
    | nil => intro j hj; simp at hj
    | cons b rest =>
      rw [rouquerolMaxAux_cons_cons] at h
      by_cases hab : a > b
      · rw [if_pos hab] at h; simp at h
      · rw [if_neg hab] at h
        intro j hj
        cases j with
        | zero => simpa using not_lt.mp hab
        | succ k =>
          have := ih (i + 1) h k (by simpa using hj)
          simpa using this

/-- a list that never decreases from one entry to the next is sorted -/
lemma pairwise_le_of_steps (l : List α) (h : ∀ j (hj : j + 1 < l.length), l[j] ≤ l[j + 1]) :
    l.Pairwise (· ≤ ·) := by
  rw [List.pairwise_iff_getElem]
  intro i j hi hj hij
  obtain ⟨d, rfl⟩ := Nat.exists_eq_add_of_lt hij
  induction d with
  | zero => exact h i (by omega)
  | succ d ih =>
    have h1 := ih (by omega) (by omega)
    have h2 := h (i + d + 1) (by omega)
    exact le_trans h1 h2

/-- **C21.** The Rouquerol maximum `m` of a non-empty transform list: `m` is a valid index; the transform never decreases
between consecutive entries strictly before `m`; and either `m = j+1` where `(j, j+1)` is the FIRST decrease
(`roq[j] > roq[j+1]`), or there is no decrease at all (the list is sorted) and `m` is the last index. -/
theorem rouquerolMax_spec (roq : List α) (hne : roq ≠ []) :
    rouquerolMax roq < roq.length ∧
    (∀ j (hj : j + 1 < roq.length), j + 1 < rouquerolMax roq → roq[j] ≤ roq[j + 1]) ∧
    ((∃ (j : ℕ) (hj : j + 1 < roq.length), rouquerolMax roq = j + 1 ∧ roq[j + 1] < roq[j]) ∨
     (rouquerolMax roq = roq.length - 1 ∧ (∀ j (hj : j + 1 < roq.length), roq[j] ≤ roq[j + 1]) ∧
        roq.Pairwise (· ≤ ·))) := by
  have hlen : 0 < roq.length := List.length_pos_iff.mpr hne
  have hmdef : rouquerolMax roq = (rouquerolMaxAux roq 0).getD (roq.length - 1) := rfl
  cases haux : rouquerolMaxAux roq 0 with
  | none =>
    have hsteps := rouquerolMaxAux_none roq 0 haux
    have hm : rouquerolMax roq = roq.length - 1 := by rw [hmdef, haux]; rfl
    refine ⟨by omega, fun j hj _ => hsteps j hj, Or.inr ⟨hm, hsteps, pairwise_le_of_steps roq hsteps⟩⟩
  | some m =>
    obtain ⟨j, hj, hm, hdec, hbefore⟩ := rouquerolMaxAux_some roq 0 m haux
    have hm' : rouquerolMax roq = j + 1 := by rw [hmdef, haux]; simp only [Option.getD_some]; omega
    refine ⟨by omega, ?_, Or.inl ⟨j, hj, hm', hdec⟩⟩
    intro j' hj' hlt
    exact hbefore j' (by omega)

/-- C21 in the index form of the task: in the first-decrease case `roq[m-1] > roq[m]` with `1 ≤ m < length`. -/
theorem rouquerolMax_decrease_form (roq : List α) (hne : roq ≠ []) :
    (∃ (_ : 1 ≤ rouquerolMax roq) (_ : rouquerolMax roq < roq.length),
        roq[rouquerolMax roq] < roq[rouquerolMax roq - 1]) ∨
    (rouquerolMax roq = roq.length - 1 ∧ roq.Pairwise (· ≤ ·)) := by
  obtain ⟨_, _, h | h⟩ := rouquerolMax_spec roq hne
  · left
    obtain ⟨j, hj, hm, hdec⟩ := h
    have key : ∀ m, m = j + 1 → ∃ (_ : 1 ≤ m) (_ : m < roq.length), roq[m] < roq[m - 1] := by
      rintro m rfl
      exact ⟨by omega, hj, by simpa using hdec⟩
    exact key _ hm
  · exact Or.inr ⟨h.1, h.2.2⟩

theorem rouquerolMax_lt (roq : List α) (hne : roq ≠ []) : rouquerolMax roq < roq.length :=
  (rouquerolMax_spec roq hne).1

/-- sorted transform (no decrease anywhere) ⇒ the maximum is the last index -/
theorem rouquerolMax_of_sorted (roq : List α) (hs : roq.Pairwise (· ≤ ·)) :
    rouquerolMax roq = roq.length - 1 := by
  by_cases hne : roq = []
  · subst hne; rfl
  obtain ⟨_, _, h | h⟩ := rouquerolMax_spec roq hne
  · obtain ⟨j, hj, _, hdec⟩ := h
    rw [List.pairwise_iff_getElem] at hs
    exact absurd (hs j (j + 1) (by omega) hj (by omega)) (not_le.mpr hdec)
  · exact h.1

end Rouquerol

/-! ### C22: the automatic BET window -/
section AutoWindow
variable {α : Type} [Field α] [LinearOrder α]

/-- `p_limits = None`: the code's window is `[searchsorted(ps, 0.1·ps[m]), m]` with `m` the Rouquerol maximum. -/
theorem betWindow_auto (ps roq : List α) (tenth : α) :
    betWindow ps roq tenth none
      = decide3 (searchsorted ps (ps.getD (rouquerolMax roq) 0 * tenth), (rouquerolMax roq : ℤ)) := rfl

omit [Field α] in
/-- the window `[searchsorted ps v, m]` of a sorted list consists of the indices `i ≤ m` with `v ≤ ps[i]` -/
theorem autoWindow_index_iff (ps : List α) (hs : ps.Pairwise (· ≤ ·)) (v : α) (m i : ℕ) (h : i < ps.length) :
    (searchsorted ps v ≤ i ∧ i ≤ m) ↔ (v ≤ ps[i] ∧ i ≤ m) := by
  rw [← not_lt, lt_searchsorted_iff ps hs v i h, not_lt]

omit [Field α] in
/-- the slice `[searchsorted ps v, m]` is the first `m+1` points filtered by `v ≤ p` -/
theorem autoWindow_filter (ps : List α) (hs : ps.Pairwise (· ≤ ·)) (v : α) (m : ℕ) :
    (ps.take (m + 1)).filter (fun p => decide (v ≤ p)) = (ps.take (m + 1)).drop (searchsorted ps v) := by
  have := filter_eq_drop_take (fun p => decide (v ≤ p)) (ps.take (m + 1)) (searchsorted ps v) (m + 1) ?_
  · rw [this, List.take_take, min_self]
  · intro i hi
    have hi' : i < ps.length := by
      rw [List.length_take] at hi; omega
    have hi'' : i < m + 1 := by
      rw [List.length_take] at hi; omega
    rw [List.getElem_take, decide_eq_true_eq, ← not_lt, ← lt_searchsorted_iff ps hs v i hi', not_lt]
    exact (and_iff_left hi'').symm

omit [Field α] in
/-- refusal of `[searchsorted ps v, m]` ⇔ fewer than three of the first `m+1` points have `v ≤ p` -/
theorem autoWindow_refused_iff (ps : List α) (hs : ps.Pairwise (· ≤ ·)) (v : α) (m : ℕ) (hm : m < ps.length) :
    decide3 (searchsorted ps v, (m : ℤ)) = none
      ↔ (ps.take (m + 1)).countP (fun p => decide (v ≤ p)) < 3 := by
  rw [List.countP_eq_length_filter, autoWindow_filter ps hs v m, List.length_drop, List.length_take]
  unfold decide3
  split_ifs with hw
  · simp only [true_iff]; omega
  · simp only [false_iff]; omega

/-- **C22.** Automatic BET window (`p_limits = None`) for a sorted pressure list and a Rouquerol transform of the same
(non-zero) length, `m` the Rouquerol maximum: `m` is a valid index, the window is
`decide3 (searchsorted ps (0.1·ps[m]), m)`, it selects exactly the indices `i ≤ m` with `0.1·ps[m] ≤ ps[i]`,
it is refused iff fewer than three such points exist, and when accepted the fitted slice is those points. -/
theorem betWindow_auto_spec (ps roq : List α) (tenth : α) (hs : ps.Pairwise (· ≤ ·))
    (hlen : roq.length = ps.length) (hne : ps ≠ []) :
    ∃ hm : rouquerolMax roq < ps.length,
      betWindow ps roq tenth none
        = decide3 (searchsorted ps (ps[rouquerolMax roq] * tenth), (rouquerolMax roq : ℤ)) ∧
      (∀ i (h : i < ps.length),
        (searchsorted ps (ps[rouquerolMax roq] * tenth) ≤ i ∧ i ≤ rouquerolMax roq)
          ↔ (ps[rouquerolMax roq] * tenth ≤ ps[i] ∧ i ≤ rouquerolMax roq)) ∧
      (betWindow ps roq tenth none = none
        ↔ (ps.take (rouquerolMax roq + 1)).countP (fun p => decide (ps[rouquerolMax roq] * tenth ≤ p)) < 3) ∧
      (∀ w, betWindow ps roq tenth none = some w →
        slice ps w = (ps.take (rouquerolMax roq + 1)).filter (fun p => decide (ps[rouquerolMax roq] * tenth ≤ p))) := by
  have hroq : roq ≠ [] := by
    intro h; rw [h] at hlen; exact hne (List.length_eq_zero_iff.mp hlen.symm)
  have hm : rouquerolMax roq < ps.length := hlen ▸ rouquerolMax_lt roq hroq
  have hget : ps.getD (rouquerolMax roq) 0 = ps[rouquerolMax roq] := List.getD_eq_getElem _ _ hm
  have hbw : betWindow ps roq tenth none
        = decide3 (searchsorted ps (ps[rouquerolMax roq] * tenth), (rouquerolMax roq : ℤ)) := by
    rw [betWindow_auto, hget]
  refine ⟨hm, hbw, fun i h => autoWindow_index_iff ps hs _ _ i h, ?_, ?_⟩
  · rw [hbw]; exact autoWindow_refused_iff ps hs _ _ hm
  · intro w hw
    rw [hbw] at hw
    obtain ⟨a, b⟩ := w
    have h1 := decide3_some _ a b hw
    simp only at h1
    rw [autoWindow_filter ps hs]
    unfold slice
    have hb : b = rouquerolMax roq := by omega
    rw [hb, h1.1]

end AutoWindow

/-! ### C23: the open section of the t-plot / alpha-s methods -/
section OpenSection
variable {α : Type} [Field α] [LinearOrder α]

/-- **C23a.** `openSection` returns exactly the indices whose curve value lies strictly between the limits. -/
theorem mem_openSection (curve : List α) (lo hi : α) (i : ℕ) :
    i ∈ openSection curve lo hi ↔ ∃ h : i < curve.length, lo < curve[i] ∧ curve[i] < hi := by
  unfold openSection
  rw [List.mem_filter, List.mem_range]
  constructor
  · rintro ⟨h, hp⟩
    rw [List.getD_eq_getElem _ _ h] at hp
    exact ⟨h, by simpa using hp⟩
  · rintro ⟨h, hp⟩
    refine ⟨h, ?_⟩
    rw [List.getD_eq_getElem _ _ h]
    simpa using hp

/-- **C23b.** The returned indices are strictly increasing (in particular without repetition). -/
theorem openSection_sorted (curve : List α) (lo hi : α) : (openSection curve lo hi).Pairwise (· < ·) := by
  unfold openSection
  exact List.Pairwise.filter _ List.pairwise_lt_range

/-- **C23 (combined form asked for in the task).** -/
theorem openSection_spec (curve : List α) (lo hi : α) :
    (∀ i, i ∈ openSection curve lo hi ↔ ∃ h : i < curve.length, lo < curve[i] ∧ curve[i] < hi) ∧
    (openSection curve lo hi).Pairwise (· < ·) :=
  ⟨mem_openSection curve lo hi, openSection_sorted curve lo hi⟩

/-- the points picked by the open section are the points of the curve strictly between the limits, in order -/
theorem pick_openSection (curve : List α) (lo hi : α) :
    pick curve (openSection curve lo hi) = curve.filter (fun t => decide (lo < t ∧ t < hi)) := by
  have hmap : (List.range curve.length).map (fun i => curve.getD i 0) = curve := by
    apply List.ext_getElem
    · simp
    · intro i h1 h2
      simp only [List.getElem_map, List.getElem_range]
      exact List.getD_eq_getElem _ _ h2
  unfold pick openSection
  conv_rhs => rw [← hmap, List.filter_map]
  rfl

end OpenSection

/-! ### C20 (continued): content of the per-method defaults -/
section Defaults
variable {α : Type} [Field α] [LinearOrder α]

/-- explicit limits in BET / Langmuir / DA: refused ⇔ fewer than three points inside the given limits -/
theorem betWindow_limits_refused_iff (ps roq : List α) (tenth : α) (hs : ps.Pairwise (· ≤ ·)) (lo hi : Option α) :
    betWindow ps roq tenth (some (lo, hi)) = none ↔ ps.countP (inLimits lo hi) < 3 :=
  window_refused_iff_general ps hs lo hi

theorem langWindow_limits_refused_iff (ps : List α) (c05 c90 : α) (hs : ps.Pairwise (· ≤ ·)) (lo hi : Option α) :
    langWindow ps c05 c90 (some (lo, hi)) = none ↔ ps.countP (inLimits lo hi) < 3 :=
  window_refused_iff_general ps hs lo hi

theorem daWindow_limits_refused_iff (ps : List α) (hs : ps.Pairwise (· ≤ ·)) (lo hi : Option α) :
    daWindow ps (some (lo, hi)) = none ↔ ps.countP (inLimits lo hi) < 3 :=
  window_refused_iff_general ps hs lo hi

/-- Langmuir default window for a sorted list whose last pressure `p_last` makes both default limits non-zero
(e.g. `p_last > 0`, `c05, c90 ≠ 0`): refused ⇔ fewer than three points in `[c05·p_last, c90·p_last)`; when accepted
the fitted slice is exactly those points. -/
theorem langWindow_default_spec (ps : List α) (c05 c90 : α) (hs : ps.Pairwise (· ≤ ·))
    (hlo : ps.getD (ps.length - 1) 0 * c05 ≠ 0) (hhi : ps.getD (ps.length - 1) 0 * c90 ≠ 0) :
    (langWindow ps c05 c90 none = none ↔
      ps.countP (fun p => decide (ps.getD (ps.length - 1) 0 * c05 ≤ p ∧ p < ps.getD (ps.length - 1) 0 * c90)) < 3) ∧
    (∀ w, langWindow ps c05 c90 none = some w →
      slice ps w
        = ps.filter (fun p => decide (ps.getD (ps.length - 1) 0 * c05 ≤ p ∧ p < ps.getD (ps.length - 1) 0 * c90))) := by
  rw [langWindow_default]
  exact ⟨window_refused_iff ps hs _ _ hlo hhi, fun w hw => slice_eq_filter ps hs _ _ hlo hhi w hw⟩

/-- DA default: when accepted, the whole list is fitted. -/
theorem daWindow_default_slice (ps : List α) (w : ℕ × ℕ) (h : daWindow ps none = some w) : slice ps w = ps := by
  rw [daWindow_default] at h
  obtain ⟨a, b⟩ := w
  have h1 := decide3_some _ a b h
  simp only at h1
  unfold slice
  have ha : a = 0 := h1.1
  have hb : b + 1 = ps.length := by omega
  simp only [ha, hb, List.take_length, List.drop_zero]

end Defaults

/-! ### C23: a table of fewer than three points is refused by every fit, whatever the limits (also none at all) -/
section ShortTables
variable {α : Type} [Field α] [LinearOrder α]

omit [Field α] [LinearOrder α] in
/-- a window whose upper index is at most `1` holds fewer than three points: refused -/
lemma decide3_none_of_le_one (w : ℕ × ℤ) (h : w.2 ≤ 1) : decide3 w = none := by
  unfold decide3
  rw [if_pos]
  omega

omit [Field α] in
/-- the Rouquerol maximum is an index of the table (also of the empty one) -/
lemma rouquerolMax_le (roq : List α) : rouquerolMax roq ≤ roq.length - 1 := by
  rcases eq_or_ne roq [] with h | h
  · subst h; simp [rouquerolMax, rouquerolMaxAux]
  · have := rouquerolMax_lt roq h; omega

/-- every combination of given / `None` / `0` limits on a table of fewer than three points is refused -/
theorem limitWindow_refused_of_short (ps : List α) (lo hi : Option α) (h : ps.length < 3) :
    decide3 (limitWindow ps lo hi) = none := by
  apply decide3_none_of_le_one
  have := limitWindow_snd_lt ps lo hi
  omega

/-- BET: user limits or the automatic (Rouquerol) window, `roq` the transform of the same table -/
theorem betWindow_refused_of_short (ps roq : List α) (tenth : α) (limits : Option (Option α × Option α))
    (h : ps.length < 3) (hlen : roq.length = ps.length) : betWindow ps roq tenth limits = none := by
  cases limits with
  | none =>
    rw [betWindow_auto]
    apply decide3_none_of_le_one
    have := rouquerolMax_le roq
    simp only
    omega
  | some l => exact limitWindow_refused_of_short ps l.1 l.2 h

/-- Langmuir: user limits or the default 5 %..90 % region -/
theorem langWindow_refused_of_short (ps : List α) (c05 c90 : α) (limits : Option (Option α × Option α))
    (h : ps.length < 3) : langWindow ps c05 c90 limits = none := by
  cases limits with
  | none => rw [langWindow_default]; exact limitWindow_refused_of_short ps _ _ h
  | some l => exact limitWindow_refused_of_short ps l.1 l.2 h

/-- Dubinin: user limits or the whole table -/
theorem daWindow_refused_of_short (ps : List α) (limits : Option (Option α × Option α))
    (h : ps.length < 3) : daWindow ps limits = none := by
  cases limits with
  | none => exact limitWindow_refused_of_short ps none none h
  | some l => exact limitWindow_refused_of_short ps l.1 l.2 h

/-- **C23.** "A BET, Langmuir or Dubinin fit on fewer than three points is refused" for a table that has fewer than three
points in total: for EVERY value of `p_limits` — `None`, `(None, None)`, one-sided, `0`, all-including. -/
theorem short_table_refused (ps roq : List α) (tenth c05 c90 : α) (limits : Option (Option α × Option α))
    (h : ps.length < 3) (hlen : roq.length = ps.length) :
    betWindow ps roq tenth limits = none ∧ langWindow ps c05 c90 limits = none ∧ daWindow ps limits = none :=
  ⟨betWindow_refused_of_short ps roq tenth limits h hlen, langWindow_refused_of_short ps c05 c90 limits h,
    daWindow_refused_of_short ps limits h⟩

/-- hypotheses of `short_table_refused` on a two-point table, and the three evaluations without limits -/
example : ([1/10, 2/10] : List ℚ).length < 3 ∧ ([9/100, 16/100] : List ℚ).length = ([1/10, 2/10] : List ℚ).length := by
  decide
example : betWindow (α := ℚ) [1/10, 2/10] [9/100, 16/100] (1/10) none = none := by decide +kernel
example : langWindow (α := ℚ) [1/10, 2/10] (1/20) (9/10) none = none := by decide +kernel
example : daWindow (α := ℚ) [1/10] (some (none, some (1/2))) = none := by decide +kernel

end ShortTables

/-! ## D. non-vacuity: the hypothesis bundles are satisfiable, and concrete evaluations of the model (TESTS, not properties) -/
section Examples

/-- the hypothesis bundle of `bet_recovers` / `da_recovers` / `langmuir_recovers` is satisfiable -/
example : ([1/10, 2/10, 3/10] : List ℝ).Pairwise (· < ·) ∧ 2 ≤ ([1/10, 2/10, 3/10] : List ℝ).length ∧
    ∀ p ∈ ([1/10, 2/10, 3/10] : List ℝ), 0 < p ∧ p < 1 := by
  refine ⟨by simp; norm_num, by simp, ?_⟩
  intro p hp
  simp only [List.mem_cons, List.not_mem_nil, or_false] at hp
  rcases hp with rfl | rfl | rfl <;> norm_num

/-- `bet_recovers` instantiated (n_m = 2, c = 100) -/
example :
    let r := ols ([1/10, 2/10, 3/10] : List ℝ) (([1/10, 2/10, 3/10] : List ℝ).map fun p => bet_transform p (simple_bet p 2 100))
    bet_c_const r.1 r.2 = 100 ∧ bet_n_monolayer r.2 (bet_c_const r.1 r.2) = 2 := by
  have h := bet_recovers 2 100 [1/10, 2/10, 3/10] (by norm_num) (by norm_num) (by simp; norm_num) (by simp)
    (by intro p hp
        simp only [List.mem_cons, List.not_mem_nil, or_false] at hp
        rcases hp with rfl | rfl | rfl <;> norm_num)
  exact h.2

/-- `langmuir_recovers` instantiated -/
example :
    let r := ols ([1, 2, 5] : List ℝ) (([1, 2, 5] : List ℝ).map fun p => langmuir_transform p (simple_lang p 3 (1/2)))
    lang_n_monolayer r.1 = 3 ∧ lang_const r.2 (lang_n_monolayer r.1) = 1/2 := by
  have h := langmuir_recovers 3 (1/2) [1, 2, 5] (by norm_num) (by norm_num) (by simp; norm_num) (by simp)
    (by intro p hp
        simp only [List.mem_cons, List.not_mem_nil, or_false] at hp
        rcases hp with rfl | rfl | rfl <;> norm_num)
  exact h.2

/-- `da_recovers` instantiated (DR: k = 2) -/
example :
    let r := ols (([1/10, 2/10, 3/10] : List ℝ).map fun p => log_p_exp p 2)
      (([1/10, 2/10, 3/10] : List ℝ).map fun p => log_v_adj (nDA (1/2) (4/5) 28 77 6 2 p) 28 (4/5))
    da_microp_volume r.2 = 1/2 ∧ da_potential 77 2 r.1 = 6 := by
  have h := da_recovers (1/2) (4/5) 28 77 6 2 [1/10, 2/10, 3/10] (by norm_num) (by norm_num) (by norm_num)
    (by norm_num) (by norm_num) (by norm_num) (by simp; norm_num) (by simp)
    (by intro p hp
        simp only [List.mem_cons, List.not_mem_nil, or_false] at hp
        rcases hp with rfl | rfl | rfl <;> norm_num)
  exact h.2

/-- t-plot / alpha-s bundles -/
example : (ols ([1, 2, 4] : List ℝ) (([1, 2, 4] : List ℝ).map fun t => 3 * t + 7)) = (3, 7) :=
  (tplot_recovers 3 7 1 1 [1, 2, 4] (by simp; norm_num) (by simp)).1

example : alphas_area 5 100 (ols (([1, 2, 4] : List ℝ).map fun x => alphas_curve x 5) [1, 2, 4]).1 = 100 :=
  (alphas_self_returns_reference_area 5 100 [1, 2, 4] (by norm_num) (by simp; norm_num) (by simp)).2

/-! concrete evaluations of the model at ℚ -/

example : ols (α := ℚ) [1, 2, 3] [3, 5, 7] = (2, 1) := by
  norm_num [ols, sxy, mean, PgVerif.Model.Linear.sum]

/-- all abscissae equal: degenerate, the totalised division returns slope 0 (this is why `ols_exact` carries a guard) -/
example : ols (α := ℚ) [2, 2, 2] [3, 5, 7] = (0, 5) := by
  norm_num [ols, sxy, mean, PgVerif.Model.Linear.sum]

example : searchsorted (α := ℚ) [1/10, 2/10, 3/10, 4/10] (1/4) = 2 := by decide +kernel
example : searchsorted (α := ℚ) [1/10, 2/10, 3/10, 4/10] (2/10) = 1 := by decide +kernel

/-- half-open: a point equal to the lower limit is kept, a point equal to the upper limit is dropped -/
example : limitWindow (α := ℚ) [1/20, 1/10, 2/10, 3/10, 4/10] (some (1/10)) (some (3/10)) = (1, 2) := by decide +kernel
/-- Python truthiness: a limit `0` is "not given" -/
example : limitWindow (α := ℚ) [1/20, 1/10, 2/10, 3/10, 4/10] (some 0) (some 0) = (0, 4) := by decide +kernel
/-- upper limit below every point: `maximum = -1`, refused -/
example : limitWindow (α := ℚ) [1/20, 1/10, 2/10] (some 5) (some (1/1000)) = (3, -1) := by decide +kernel
example : decide3 (limitWindow (α := ℚ) [1/20, 1/10, 2/10] (some 5) (some (1/1000))) = none := by decide +kernel
/-- two points inside the limits: refused; three: accepted -/
example : betWindow (α := ℚ) [1/20, 1/10, 2/10, 3/10, 4/10] [] (1/10) (some (some (1/10), some (3/10))) = none := by decide +kernel
example : betWindow (α := ℚ) [1/20, 1/10, 2/10, 3/10, 4/10] [] (1/10) (some (some (1/10), some (7/20))) = some (1, 3) := by
  decide +kernel

/-- automatic BET window on a 6-point list: Rouquerol transform first decreases from index 3 to 4, so `m = 4`,
`0.1·ps[4] = 0.03`, window `[1, 4]` -/
example : rouquerolMax (α := ℚ) [1, 2, 3, 4, 3, 2] = 4 := by decide +kernel
example : betWindow (α := ℚ) [1/100, 1/20, 1/10, 2/10, 3/10, 1/2] [1, 2, 3, 4, 3, 2] (1/10) none = some (1, 4) := by
  decide +kernel
/-- never-decreasing Rouquerol transform: `m` is the last index -/
example : rouquerolMax (α := ℚ) [1, 2, 2, 4] = 3 := by decide +kernel

example : langWindow (α := ℚ) [1/100, 1/10, 2/10, 1/2, 8/10, 1] (1/20) (9/10) none = some (1, 4) := by decide +kernel
example : daWindow (α := ℚ) [1/100, 1/10] none = none := by decide +kernel
example : daWindow (α := ℚ) [1/100, 1/10, 2/10] none = some (0, 2) := by decide +kernel

/-- hypothesis bundle of `betWindow_auto_spec` / `limitWindow_spec` / `window_refused_iff` -/
example : ([1/100, 1/20, 1/10, 2/10, 3/10, 1/2] : List ℚ).Pairwise (· ≤ ·) ∧
    ([1, 2, 3, 4, 3, 2] : List ℚ).length = ([1/100, 1/20, 1/10, 2/10, 3/10, 1/2] : List ℚ).length ∧
    ([1/100, 1/20, 1/10, 2/10, 3/10, 1/2] : List ℚ) ≠ [] ∧ (1/10 : ℚ) ≠ 0 ∧ (3/10 : ℚ) ≠ 0 := by
  refine ⟨by decide +kernel, rfl, by simp, by norm_num, by norm_num⟩
/-- `window_refused_iff` on a concrete list: two points in `[0.1, 0.3)`, refused -/
example : ([1/20, 1/10, 2/10, 3/10, 4/10] : List ℚ).countP (fun p => decide ((1/10 : ℚ) ≤ p ∧ p < 3/10)) = 2 := by
  decide +kernel

example : slice (α := ℚ) [10, 11, 12, 13, 14, 15] (1, 4) = [11, 12, 13, 14] := by decide +kernel
example : openSection (α := ℚ) [1/10, 3/10, 5/10, 7/10, 3/10] (2/10) (6/10) = [1, 2, 4] := by decide +kernel

end Examples

end PgVerif.Props.C14
