/-
C14 — linearised characterisation methods recover the generating parameters.

Statements are about
  * the GENERATED per-point transforms and parameter formulas `PgVerif.Gen.CharR.*` (characterisation/*.py now), and
  * the hand-written, harness-tested model `PgVerif.Model.Linear` of window selection and least squares.

A. least squares (`ols`): exact data on a line are fitted exactly (guard: two distinct abscissae).
B. recovery: BET, Langmuir, t-plot, alpha-s, Dubinin–Astakhov: transform of exact model data is linear and the
   parameter formulas invert slope/intercept; end-to-end through `ols`.
C. window selection: `searchsorted`, `limitWindow`, `decide3`, `slice`, `rouquerolMax`, `betWindow`, `openSection`.
D. non-vacuity examples and concrete evaluations (tests, not properties).
-/
import PgVerif.Gen.CharR
import PgVerif.Model.Linear
import Mathlib.Tactic

namespace PgVerif.Props.C14
open PgVerif.Gen.CharR PgVerif.Model.Linear

/-! ## A. least squares -/
section OlsAlgebra
variable {α : Type} [Field α]

@[simp] lemma sum_nil : sum ([] : List α) = 0 := rfl
@[simp] lemma sum_cons (x : α) (xs : List α) : sum (x :: xs) = x + sum xs := rfl

lemma sum_map_affine (a b : α) (xs : List α) :
    sum (xs.map fun x => a * x + b) = a * sum xs + b * (xs.length : α) := by
  induction xs with
  | nil => simp
  | cons x xs ih => simp only [List.map_cons, sum_cons, ih, List.length_cons]; push_cast; ring

lemma sum_map_mul_left (a : α) (g : α → α) (xs : List α) :
    sum (xs.map fun x => a * g x) = a * sum (xs.map g) := by
  induction xs with
  | nil => simp
  | cons x xs ih => simp only [List.map_cons, sum_cons, ih]; ring

lemma sum_zipWith_map (g : α → α → α) (f : α → α) (xs : List α) :
    sum (List.zipWith g xs (xs.map f)) = sum (xs.map fun x => g x (f x)) := by
  induction xs with
  | nil => simp
  | cons x xs ih => simp only [List.map_cons, List.zipWith_cons_cons, sum_cons, ih]

lemma sum_zipWith_self (g : α → α → α) (xs : List α) :
    sum (List.zipWith g xs xs) = sum (xs.map fun x => g x x) := by
  have := sum_zipWith_map g id xs
  simp only [List.map_id, id] at this
  exact this

/-- `sxy xs xs` is the sum of squared deviations from the mean. -/
lemma sxy_self_eq (xs : List α) :
    sxy xs xs = sum (xs.map fun x => (x - mean xs) * (x - mean xs)) := by
  unfold sxy; exact sum_zipWith_self _ xs

lemma sum_zipWith_scale (k m m' : α) (xs ys : List α) :
    sum (List.zipWith (fun x y => (x - m) * (y - k * m')) xs (ys.map fun y => k * y))
      = k * sum (List.zipWith (fun x y => (x - m) * (y - m')) xs ys) := by
  induction xs generalizing ys with
  | nil => simp
  | cons x xs ih =>
    cases ys with
    | nil => simp
    | cons y ys => simp only [List.map_cons, List.zipWith_cons_cons, sum_cons, ih]; ring

lemma sxy_nil_left (ys : List α) : sxy ([] : List α) ys = 0 := by
  unfold sxy; simp

lemma mean_map_scale (k : α) (ys : List α) : mean (ys.map fun y => k * y) = k * mean ys := by
  unfold mean
  have := sum_map_mul_left k id ys
  simp only [id, List.map_id] at this
  rw [this, List.length_map, mul_div_assoc]

variable [CharZero α]

lemma length_cast_ne_zero {xs : List α} (h : xs ≠ []) : (xs.length : α) ≠ 0 := by
  have : xs.length ≠ 0 := by simpa using h
  exact_mod_cast this

lemma mean_map_affine (a b : α) (xs : List α) (h : xs ≠ []) :
    mean (xs.map fun x => a * x + b) = a * mean xs + b := by
  have hl := length_cast_ne_zero h
  unfold mean
  rw [sum_map_affine, List.length_map]
  field_simp

/-- the covariance of `xs` with an affine image of itself -/
lemma sxy_map_affine (a b : α) (xs : List α) (h : xs ≠ []) :
    sxy xs (xs.map fun x => a * x + b) = a * sxy xs xs := by
  rw [sxy_self_eq]
  unfold sxy
  rw [mean_map_affine a b xs h, sum_zipWith_map, ← sum_map_mul_left]
  congr 1
  apply List.map_congr_left
  intro x _
  ring

/-- **A1.** Least squares through points lying exactly on the line `y = a x + b` returns `(a, b)`,
provided the abscissae are not all equal (`sxy xs xs ≠ 0`; see `sxy_self_pos`, `sxy_self_pos_of_ne`). -/
theorem ols_exact (a b : α) (xs ys : List α) (hys : ys = xs.map fun x => a * x + b)
    (hx : sxy xs xs ≠ 0) : ols xs ys = (a, b) := by
  have hne : xs ≠ [] := by
    rintro rfl; exact hx (sxy_nil_left _)
  subst hys
  unfold ols
  simp only [sxy_map_affine a b xs hne, mean_map_affine a b xs hne]
  rw [mul_div_assoc, div_self hx, mul_one]
  simp

/-- **A3.** Scaling the ordinates by `k` scales slope and intercept by `k` (no side condition). -/
theorem ols_scale (k : α) (xs ys : List α) :
    ols xs (ys.map fun y => k * y) = (k * (ols xs ys).1, k * (ols xs ys).2) := by
  have hs : sxy xs (ys.map fun y => k * y) = k * sxy xs ys := by
    unfold sxy
    rw [mean_map_scale, sum_zipWith_scale]
  unfold ols
  simp only [hs, mean_map_scale, Prod.mk.injEq]
  constructor <;> ring

end OlsAlgebra

section OlsOrder
variable {α : Type} [Field α] [LinearOrder α] [IsStrictOrderedRing α]

lemma sum_map_nonneg (g : α → α) (xs : List α) (h : ∀ x ∈ xs, 0 ≤ g x) : 0 ≤ sum (xs.map g) := by
  induction xs with
  | nil => simp
  | cons x xs ih =>
    simp only [List.map_cons, sum_cons]
    have h1 := h x (by simp)
    have h2 := ih (fun y hy => h y (by simp [hy]))
    linarith

lemma le_sum_map_of_mem (g : α → α) (xs : List α) (h : ∀ x ∈ xs, 0 ≤ g x) {u : α} (hu : u ∈ xs) :
    g u ≤ sum (xs.map g) := by
  induction xs with
  | nil => simp at hu
  | cons x xs ih =>
    simp only [List.map_cons, sum_cons]
    have h1 := h x (by simp)
    have h2 := sum_map_nonneg g xs (fun y hy => h y (by simp [hy]))
    rcases List.mem_cons.mp hu with rfl | hu'
    · linarith
    · have := ih (fun y hy => h y (by simp [hy])) hu'
      linarith

lemma sxy_self_nonneg (xs : List α) : 0 ≤ sxy xs xs := by
  rw [sxy_self_eq]; exact sum_map_nonneg _ _ (fun x _ => mul_self_nonneg _)

/-- two distinct abscissae make the sum of squared deviations positive -/
theorem sxy_self_pos_of_ne (xs : List α) {u v : α} (hu : u ∈ xs) (hv : v ∈ xs) (huv : u ≠ v) :
    0 < sxy xs xs := by
  rw [sxy_self_eq]
  have key : ∀ w ∈ xs, w ≠ mean xs → 0 < sum (xs.map fun x => (x - mean xs) * (x - mean xs)) := by
    intro w hw hwm
    have h1 := le_sum_map_of_mem (fun x => (x - mean xs) * (x - mean xs)) xs
      (fun x _ => mul_self_nonneg _) hw
    have h2 : 0 < (w - mean xs) * (w - mean xs) := mul_self_pos.mpr (sub_ne_zero.mpr hwm)
    exact lt_of_lt_of_le h2 h1
  by_cases hum : u = mean xs
  · exact key v hv (fun hvm => huv (hum.trans hvm.symm))
  · exact key u hu hum

omit [Field α] [LinearOrder α] [IsStrictOrderedRing α] in
/-- a pairwise-distinct list with at least two entries has two distinct members -/
lemma exists_two_of_pairwise {R : α → α → Prop} (hR : ∀ a b, R a b → a ≠ b) (xs : List α)
    (hp : xs.Pairwise R) (hl : 2 ≤ xs.length) : ∃ u ∈ xs, ∃ v ∈ xs, u ≠ v := by
  match xs, hp, hl with
  | a :: b :: rest, hp, _ =>
    refine ⟨a, by simp, b, by simp, ?_⟩
    rw [List.pairwise_cons] at hp
    exact hR a b (hp.1 b (by simp))

/-- strictly increasing abscissae (at least two) ⇒ positive sum of squared deviations -/
theorem sxy_self_pos (xs : List α) (hs : xs.Pairwise (· < ·)) (hl : 2 ≤ xs.length) : 0 < sxy xs xs := by
  obtain ⟨u, hu, v, hv, huv⟩ := exists_two_of_pairwise (fun a b h => ne_of_lt h) xs hs hl
  exact sxy_self_pos_of_ne xs hu hv huv

theorem sxy_self_pos_of_desc (xs : List α) (hs : xs.Pairwise (· > ·)) (hl : 2 ≤ xs.length) : 0 < sxy xs xs := by
  obtain ⟨u, hu, v, hv, huv⟩ := exists_two_of_pairwise (fun a b h => ne_of_gt h) xs hs hl
  exact sxy_self_pos_of_ne xs hu hv huv

/-- **A2.** `ols_exact` for strictly increasing abscissae (at least two points). -/
theorem ols_exact_of_sorted (a b : α) (xs ys : List α) (hys : ys = xs.map fun x => a * x + b)
    (hs : xs.Pairwise (· < ·)) (hl : 2 ≤ xs.length) : ols xs ys = (a, b) :=
  ols_exact a b xs ys hys (sxy_self_pos xs hs hl).ne'

/-- `ols_exact` for strictly decreasing abscissae (at least two points). -/
theorem ols_exact_of_sorted_desc (a b : α) (xs ys : List α) (hys : ys = xs.map fun x => a * x + b)
    (hs : xs.Pairwise (· > ·)) (hl : 2 ≤ xs.length) : ols xs ys = (a, b) :=
  ols_exact a b xs ys hys (sxy_self_pos_of_desc xs hs hl).ne'

/-- `ols_exact` when two of the abscissae differ. -/
theorem ols_exact_of_two_distinct (a b : α) (xs ys : List α) (hys : ys = xs.map fun x => a * x + b)
    {u v : α} (hu : u ∈ xs) (hv : v ∈ xs) (huv : u ≠ v) : ols xs ys = (a, b) :=
  ols_exact a b xs ys hys (sxy_self_pos_of_ne xs hu hv huv).ne'

/-- Conversely the guard is necessary: when all abscissae are equal `sxy xs xs = 0` and the
regression is degenerate (the totalised division returns slope 0). -/
theorem sxy_self_eq_zero_of_const (c : α) (n : ℕ) : sxy (List.replicate n c) (List.replicate n c) = 0 := by
  have hsum : ∀ (d : α) (k : ℕ), sum (List.replicate k d) = k * d := by
    intro d k
    induction k with
    | zero => simp
    | succ k ih => simp only [List.replicate_succ, sum_cons, ih]; push_cast; ring
  rcases Nat.eq_zero_or_pos n with rfl | hn
  · exact sxy_nil_left _
  · have hn' : (n : α) ≠ 0 := by exact_mod_cast hn.ne'
    have hm : mean (List.replicate n c) = c := by
      unfold mean; rw [hsum, List.length_replicate]; field_simp
    rw [sxy_self_eq, hm, List.map_replicate, hsum]
    ring

end OlsOrder

/-! ## B. recovery of the generating parameters (statements about the generated formulas `Gen.CharR`) -/
section Recovery

/-- map of a strictly increasing list under a function that is strictly increasing on its members -/
lemma pairwise_lt_map_of_mem {f : ℝ → ℝ} {l : List ℝ} (hs : l.Pairwise (· < ·))
    (hf : ∀ a ∈ l, ∀ b ∈ l, a < b → f a < f b) : (l.map f).Pairwise (· < ·) := by
  rw [List.pairwise_map]
  exact hs.imp_of_mem (fun ha hb hab => hf _ ha _ hb hab)

lemma pairwise_gt_map_of_mem {f : ℝ → ℝ} {l : List ℝ} (hs : l.Pairwise (· < ·))
    (hf : ∀ a ∈ l, ∀ b ∈ l, a < b → f b < f a) : (l.map f).Pairwise (· > ·) := by
  rw [List.pairwise_map]
  exact hs.imp_of_mem (fun ha hb hab => hf _ ha _ hb hab)

/-! ### BET -/

/-- **B4.** BET linearisation: for data generated by the BET equation, `p / (n (1 - p))` is the straight line
`(c-1)/(n_m c) · p + 1/(n_m c)`.  Guards: `0 < p < 1` (relative pressure strictly inside the range; at `p = 0` and
`p = 1` the transform divides by zero), `0 < n_m`, `0 < c`. -/
theorem bet_transform_linear (nm c p : ℝ) (hp0 : 0 < p) (hp1 : p < 1) (hnm : 0 < nm) (hc : 0 < c) :
    bet_transform p (simple_bet p nm c) = ((c - 1) / (nm * c)) * p + 1 / (nm * c) := by
  unfold bet_transform roq_transform simple_bet
  have h1 : (1 - p) ≠ 0 := (sub_pos.2 hp1).ne'
  have h2 : (1 - p) + c * p ≠ 0 := (add_pos (sub_pos.2 hp1) (mul_pos hc hp0)).ne'
  have h3 : p ≠ 0 := hp0.ne'
  have h4 : nm ≠ 0 := hnm.ne'
  have h5 : c ≠ 0 := hc.ne'
  field_simp
  ring

/-- `1e-18 · N_A` -/
lemma avogadro_scaled : ((10 : ℝ) ^ (-18 : ℤ)) * (602214076000000000000000 : ℝ) = 602214.076 := by
  norm_num

/-- **B5.** The BET parameter formulas invert slope and intercept of the BET line.
(`bet_area` has the generated argument order `cross_section n_monolayer`.) -/
theorem bet_parameters_recover (nm c cs : ℝ) (hnm : 0 < nm) (hc : 0 < c) :
    bet_c_const ((c - 1) / (nm * c)) (1 / (nm * c)) = c ∧
    bet_n_monolayer (1 / (nm * c)) c = nm ∧
    bet_p_monolayer c = 1 / (Real.sqrt c + 1) ∧
    bet_area cs nm = nm * cs * (10 : ℝ) ^ (-18 : ℤ) * 602214076000000000000000 ∧
    bet_area cs nm = nm * cs * 602214.076 := by
  have h4 : nm ≠ 0 := hnm.ne'
  have h5 : c ≠ 0 := hc.ne'
  refine ⟨?_, ?_, rfl, rfl, ?_⟩
  · unfold bet_c_const; field_simp; ring
  · unfold bet_n_monolayer; field_simp
  · unfold bet_area; rw [mul_assoc, avogadro_scaled]

/-- **B6.** BET end to end: least squares over the BET transform of exact BET data at any strictly increasing list of at
least two relative pressures in `(0,1)` returns the BET line, and the code's own chaining (`n_monolayer` computed from
the computed `c_const`) returns the generating `c` and `n_m`. -/
theorem bet_recovers (nm c : ℝ) (ps : List ℝ) (hnm : 0 < nm) (hc : 0 < c)
    (hs : ps.Pairwise (· < ·)) (hl : 2 ≤ ps.length) (hp : ∀ p ∈ ps, 0 < p ∧ p < 1) :
    let r := ols ps (ps.map fun p => bet_transform p (simple_bet p nm c))
    r = ((c - 1) / (nm * c), 1 / (nm * c)) ∧
    bet_c_const r.1 r.2 = c ∧ bet_n_monolayer r.2 (bet_c_const r.1 r.2) = nm := by
  intro r
  have hr : r = ((c - 1) / (nm * c), 1 / (nm * c)) := by
    apply ols_exact_of_sorted _ _ _ _ _ hs hl
    apply List.map_congr_left
    intro p hpm
    exact bet_transform_linear nm c p (hp p hpm).1 (hp p hpm).2 hnm hc
  obtain ⟨h1, h2, -⟩ := bet_parameters_recover nm c 0 hnm hc
  refine ⟨hr, ?_, ?_⟩
  · rw [hr]; exact h1
  · rw [hr]; simp only; rw [h1]; exact h2

/-- **B7.** The "monolayer pressure" `1/(√c+1)` is the pressure at which the BET loading equals `n_m`. -/
theorem bet_p_monolayer_is_knee (nm c : ℝ) (hc : 0 < c) : simple_bet (bet_p_monolayer c) nm c = nm := by
  unfold simple_bet bet_p_monolayer
  have hs : 0 < Real.sqrt c := Real.sqrt_pos.2 hc
  have hcs : c = Real.sqrt c * Real.sqrt c := (Real.mul_self_sqrt hc.le).symm
  set s := Real.sqrt c with hsdef
  have h1 : s + 1 ≠ 0 := by positivity
  have e1 : 1 - 1 / (s + 1) = s / (s + 1) := by field_simp; ring
  have e2 : s / (s + 1) + c * (1 / (s + 1)) = s := by rw [hcs]; field_simp; ring
  rw [e1, e2, hcs]
  field_simp

/-! ### Langmuir -/

/-- **B8a.** Langmuir linearisation: `p/n` is a straight line in `p` with slope `1/n_m` and intercept `1/(n_m K)`.
Guards `0 < p`, `0 < n_m`, `0 < K` (at `p = 0` the loading is 0 and the transform divides by zero). -/
theorem langmuir_transform_linear (nm K p : ℝ) (hnm : 0 < nm) (hK : 0 < K) (hp : 0 < p) :
    langmuir_transform p (simple_lang p nm K) = (1 / nm) * p + 1 / (nm * K) := by
  unfold langmuir_transform simple_lang
  have h1 : 1 + K * p ≠ 0 := by positivity
  have h2 : nm ≠ 0 := hnm.ne'
  have h3 : K ≠ 0 := hK.ne'
  have h4 : p ≠ 0 := hp.ne'
  field_simp
  ring

/-- **B8b.** The Langmuir parameter formulas invert slope and intercept. -/
theorem langmuir_parameters_recover (nm K cs : ℝ) (hnm : 0 < nm) (hK : 0 < K) :
    lang_n_monolayer (1 / nm) = nm ∧
    lang_const (1 / (nm * K)) nm = K ∧
    lang_area cs nm = nm * cs * (10 : ℝ) ^ (-18 : ℤ) * 602214076000000000000000 ∧
    lang_area cs nm = nm * cs * 602214.076 := by
  have h2 : nm ≠ 0 := hnm.ne'
  have h3 : K ≠ 0 := hK.ne'
  refine ⟨?_, ?_, rfl, ?_⟩
  · unfold lang_n_monolayer; field_simp
  · unfold lang_const; field_simp
  · unfold lang_area; rw [mul_assoc, avogadro_scaled]

/-- **B8c.** Langmuir end to end over any strictly increasing list of at least two positive pressures. -/
theorem langmuir_recovers (nm K : ℝ) (ps : List ℝ) (hnm : 0 < nm) (hK : 0 < K)
    (hs : ps.Pairwise (· < ·)) (hl : 2 ≤ ps.length) (hp : ∀ p ∈ ps, 0 < p) :
    let r := ols ps (ps.map fun p => langmuir_transform p (simple_lang p nm K))
    r = (1 / nm, 1 / (nm * K)) ∧
    lang_n_monolayer r.1 = nm ∧ lang_const r.2 (lang_n_monolayer r.1) = K := by
  intro r
  have hr : r = (1 / nm, 1 / (nm * K)) := by
    apply ols_exact_of_sorted _ _ _ _ _ hs hl
    apply List.map_congr_left
    intro p hpm
    exact langmuir_transform_linear nm K p hnm hK (hp p hpm)
  obtain ⟨h1, h2, -⟩ := langmuir_parameters_recover nm K 0 hnm hK
  refine ⟨hr, ?_, ?_⟩
  · rw [hr]; exact h1
  · rw [hr]; simp only; rw [h1]; exact h2

/-! ### t-plot -/

/-- **B9.** t-plot: a loading that is exactly `s·t + i` over a strictly increasing thickness list (at least 2 points) is
fitted with slope `s`, intercept `i`, and the reported area / adsorbed volume are `s M/ρ`, `i M/ρ/1000`.
(generated argument order `molar_mass liquid_density slope|intercept`). -/
theorem tplot_recovers (s i M ρ : ℝ) (ts : List ℝ) (hs : ts.Pairwise (· < ·)) (hl : 2 ≤ ts.length) :
    let r := ols ts (ts.map fun t => s * t + i)
    r = (s, i) ∧ tplot_area M ρ r.1 = s * M / ρ ∧ tplot_adsorbed_volume M ρ r.2 = i * M / ρ / 1000 := by
  intro r
  have hr : r = (s, i) := ols_exact_of_sorted s i ts _ rfl hs hl
  refine ⟨hr, ?_, ?_⟩ <;> rw [hr] <;> rfl

/-! ### alpha-s -/

/-- the alpha-s curve of a strictly increasing reference loading is strictly increasing (`0 < α_s` point loading) -/
lemma alphas_curve_sorted (apt : ℝ) (ref : List ℝ) (hapt : 0 < apt) (hs : ref.Pairwise (· < ·)) :
    (ref.map fun x => alphas_curve x apt).Pairwise (· < ·) := by
  apply pairwise_lt_map_of_mem hs
  intro a _ b _ hab
  unfold alphas_curve
  exact div_lt_div_of_pos_right hab hapt

/-- **B10.** alpha-s: loading exactly `s·α + i` over the alpha-s curve of a strictly increasing reference loading
(at least 2 points, normalising loading `0 < apt`) is fitted with `(s, i)` and the area is `A_ref/apt · s`.
(generated argument order `alphas_area alpha_s_point reference_area slope`). -/
theorem alphas_recovers (s i apt Aref : ℝ) (ref : List ℝ) (hapt : 0 < apt)
    (hs : ref.Pairwise (· < ·)) (hl : 2 ≤ ref.length) :
    let curve := ref.map fun x => alphas_curve x apt
    let r := ols curve (curve.map fun a => s * a + i)
    r = (s, i) ∧ alphas_area apt Aref r.1 = Aref / apt * s := by
  intro curve r
  have hr : r = (s, i) :=
    ols_exact_of_sorted s i curve _ rfl (alphas_curve_sorted apt ref hapt hs) (by simpa [curve] using hl)
  refine ⟨hr, ?_⟩
  rw [hr]; rfl

/-- **B11.** alpha-s of an isotherm against itself: slope `apt`, intercept `0`, and the reference area is returned. -/
theorem alphas_self_returns_reference_area (apt Aref : ℝ) (ref : List ℝ) (hapt : 0 < apt)
    (hs : ref.Pairwise (· < ·)) (hl : 2 ≤ ref.length) :
    let curve := ref.map fun x => alphas_curve x apt
    let r := ols curve ref
    r = (apt, 0) ∧ alphas_area apt Aref r.1 = Aref := by
  intro curve r
  have hr : r = (apt, 0) := by
    apply ols_exact_of_sorted apt 0 curve ref _ (alphas_curve_sorted apt ref hapt hs) (by simpa [curve] using hl)
    simp only [curve, List.map_map]
    conv_lhs => rw [← List.map_id ref]
    apply List.map_congr_left
    intro x _
    simp only [id, Function.comp, alphas_curve]
    field_simp
    ring
  refine ⟨hr, ?_⟩
  rw [hr]; unfold alphas_area
  field_simp

/-! ### Dubinin–Astakhov / Dubinin–Radushkevich -/

/-- the gas constant literal of the generated code (`scipy.constants.gas_constant`, 8.31446261815324) -/
noncomputable def Rgas : ℝ := 207861565453831 / 25000000000000

/-- the Dubinin–Astakhov governing equation (generator; loading in mmol/g from the micropore volume `V0` cm³/g) -/
noncomputable def nDA (V0 ρ M T E k p : ℝ) : ℝ :=
  V0 * ρ / M * Real.exp (-((Rgas * T * (-(Real.log p)) / (1000 * E)) ^ k))

lemma Rgas_pos : 0 < Rgas := by unfold Rgas; norm_num

/-- **B12.** DA linearisation: `log (n M/ρ)` is linear in `(-log p)^k` with slope `-(RT/(1000E))^k` and intercept `log V0`.
Guards: `0 < p < 1` (so `-log p > 0`; the real power of a negative base is not the code's value), positive constants. -/
theorem da_transform_linear (V0 ρ M T E k p : ℝ) (hp0 : 0 < p) (hp1 : p < 1) (hV : 0 < V0) (hρ : 0 < ρ)
    (hM : 0 < M) (hT : 0 < T) (hE : 0 < E) (_hk : 0 < k) :
    log_v_adj (nDA V0 ρ M T E k p) M ρ
      = Real.log V0 + (-((Rgas * T / (1000 * E)) ^ k)) * log_p_exp p k := by
  have hL : 0 ≤ -(Real.log p) := (neg_pos.2 (Real.log_neg hp0 hp1)).le
  have hA : 0 ≤ Rgas * T / (1000 * E) := by have := Rgas_pos; positivity
  unfold log_v_adj nDA log_p_exp
  simp only [Real.rpow_eq_pow]
  have e1 : V0 * ρ / M * Real.exp (-((Rgas * T * (-(Real.log p)) / (1000 * E)) ^ k)) * M / ρ
      = V0 * Real.exp (-((Rgas * T * (-(Real.log p)) / (1000 * E)) ^ k)) := by
    field_simp
  have e2 : Rgas * T * (-(Real.log p)) / (1000 * E) = (Rgas * T / (1000 * E)) * (-(Real.log p)) := by ring
  rw [e1, Real.log_mul hV.ne' (Real.exp_pos _).ne', Real.log_exp, e2, Real.mul_rpow hA hL]
  ring

/-- **B13.** The DA parameter formulas invert slope and intercept.
(generated argument order `da_potential iso_temp exp slope`). -/
theorem da_parameters_recover (V0 T E k : ℝ) (hV : 0 < V0) (hT : 0 < T) (hE : 0 < E) (hk : 0 < k) :
    da_microp_volume (Real.log V0) = V0 ∧
    da_potential T k (-((Rgas * T / (1000 * E)) ^ k)) = E := by
  have hR := Rgas_pos
  have hA : 0 ≤ Rgas * T / (1000 * E) := by positivity
  constructor
  · unfold da_microp_volume; exact Real.exp_log hV
  · unfold da_potential
    simp only [Real.rpow_eq_pow, neg_neg]
    rw [← Real.rpow_mul hA, mul_one_div_cancel hk.ne', Real.rpow_one]
    change Rgas * T / (Rgas * T / (1000 * E)) / 1000 = E
    field_simp

/-- `(-log p)^k` is strictly decreasing in `p` on `(0,1)` for `k > 0`. -/
theorem log_p_exp_strictAntiOn (k : ℝ) (hk : 0 < k) :
    StrictAntiOn (fun p => log_p_exp p k) (Set.Ioo 0 1) := by
  intro a ha b hb hab
  unfold log_p_exp
  simp only [Real.rpow_eq_pow]
  have h1 : Real.log a < Real.log b := Real.log_lt_log ha.1 hab
  have h2 : 0 ≤ -(Real.log b) := (neg_pos.2 (Real.log_neg hb.1 hb.2)).le
  exact Real.rpow_lt_rpow h2 (neg_lt_neg h1) hk

/-- DA regression over any list of pressures in `(0,1)` containing two distinct pressures. -/
theorem da_ols_eq (V0 ρ M T E k : ℝ) (ps : List ℝ) (hV : 0 < V0) (hρ : 0 < ρ)
    (hM : 0 < M) (hT : 0 < T) (hE : 0 < E) (hk : 0 < k) (hp : ∀ p ∈ ps, 0 < p ∧ p < 1)
    {u v : ℝ} (hu : u ∈ ps) (hv : v ∈ ps) (huv : u ≠ v) :
    ols (ps.map fun p => log_p_exp p k) (ps.map fun p => log_v_adj (nDA V0 ρ M T E k p) M ρ)
      = (-((Rgas * T / (1000 * E)) ^ k), Real.log V0) := by
  have hanti := log_p_exp_strictAntiOn k hk
  have hne : log_p_exp u k ≠ log_p_exp v k := by
    rcases lt_or_gt_of_ne huv with h | h
    · exact (hanti ⟨(hp u hu).1, (hp u hu).2⟩ ⟨(hp v hv).1, (hp v hv).2⟩ h).ne'
    · exact (hanti ⟨(hp v hv).1, (hp v hv).2⟩ ⟨(hp u hu).1, (hp u hu).2⟩ h).ne
  apply ols_exact_of_two_distinct _ _ _ _ _ (List.mem_map_of_mem hu) (List.mem_map_of_mem hv) hne
  rw [List.map_map]
  apply List.map_congr_left
  intro p hpm
  simp only [Function.comp]
  rw [da_transform_linear V0 ρ M T E k p (hp p hpm).1 (hp p hpm).2 hV hρ hM hT hE hk]
  ring

/-- **B14.** DA end to end over a strictly increasing list of at least two relative pressures in `(0,1)`
(the abscissae `(-log p)^k` are then strictly decreasing): the fit returns `V0` and `E`. -/
theorem da_recovers (V0 ρ M T E k : ℝ) (ps : List ℝ) (hV : 0 < V0) (hρ : 0 < ρ)
    (hM : 0 < M) (hT : 0 < T) (hE : 0 < E) (hk : 0 < k)
    (hs : ps.Pairwise (· < ·)) (hl : 2 ≤ ps.length) (hp : ∀ p ∈ ps, 0 < p ∧ p < 1) :
    let r := ols (ps.map fun p => log_p_exp p k) (ps.map fun p => log_v_adj (nDA V0 ρ M T E k p) M ρ)
    r = (-((Rgas * T / (1000 * E)) ^ k), Real.log V0) ∧
    da_microp_volume r.2 = V0 ∧ da_potential T k r.1 = E := by
  intro r
  obtain ⟨u, hu, v, hv, huv⟩ := exists_two_of_pairwise (fun a b h => ne_of_lt h) ps hs hl
  have hr : r = (-((Rgas * T / (1000 * E)) ^ k), Real.log V0) :=
    da_ols_eq V0 ρ M T E k ps hV hρ hM hT hE hk hp hu hv huv
  obtain ⟨h1, h2⟩ := da_parameters_recover V0 T E k hV hT hE hk
  exact ⟨hr, by rw [hr]; exact h1, by rw [hr]; exact h2⟩

/-- B14 for a strictly decreasing pressure list (desorption order). -/
theorem da_recovers_desc (V0 ρ M T E k : ℝ) (ps : List ℝ) (hV : 0 < V0) (hρ : 0 < ρ)
    (hM : 0 < M) (hT : 0 < T) (hE : 0 < E) (hk : 0 < k)
    (hs : ps.Pairwise (· > ·)) (hl : 2 ≤ ps.length) (hp : ∀ p ∈ ps, 0 < p ∧ p < 1) :
    let r := ols (ps.map fun p => log_p_exp p k) (ps.map fun p => log_v_adj (nDA V0 ρ M T E k p) M ρ)
    r = (-((Rgas * T / (1000 * E)) ^ k), Real.log V0) ∧
    da_microp_volume r.2 = V0 ∧ da_potential T k r.1 = E := by
  intro r
  obtain ⟨u, hu, v, hv, huv⟩ := exists_two_of_pairwise (fun a b h => ne_of_gt h) ps hs hl
  have hr : r = (-((Rgas * T / (1000 * E)) ^ k), Real.log V0) :=
    da_ols_eq V0 ρ M T E k ps hV hρ hM hT hE hk hp hu hv huv
  obtain ⟨h1, h2⟩ := da_parameters_recover V0 T E k hV hT hE hk
  exact ⟨hr, by rw [hr]; exact h1, by rw [hr]; exact h2⟩

/-- the abscissae of the DA plot of a strictly increasing pressure list in `(0,1)` are strictly decreasing -/
theorem da_abscissae_desc (k : ℝ) (hk : 0 < k) (ps : List ℝ) (hs : ps.Pairwise (· < ·))
    (hp : ∀ p ∈ ps, 0 < p ∧ p < 1) : (ps.map fun p => log_p_exp p k).Pairwise (· > ·) := by
  apply pairwise_gt_map_of_mem hs
  intro a ha b hb hab
  exact log_p_exp_strictAntiOn k hk ⟨(hp a ha).1, (hp a ha).2⟩ ⟨(hp b hb).1, (hp b hb).2⟩ hab

/-- **B15.** At the generating exponent every regression residual is zero (so the standard error that the exponent
search minimises attains its global minimum 0 there). -/
theorem da_true_exponent_has_zero_residual (V0 ρ M T E k : ℝ) (ps : List ℝ) (hV : 0 < V0) (hρ : 0 < ρ)
    (hM : 0 < M) (hT : 0 < T) (hE : 0 < E) (hk : 0 < k)
    (hs : ps.Pairwise (· < ·)) (hl : 2 ≤ ps.length) (hp : ∀ p ∈ ps, 0 < p ∧ p < 1) :
    let r := ols (ps.map fun p => log_p_exp p k) (ps.map fun p => log_v_adj (nDA V0 ρ M T E k p) M ρ)
    ∀ p ∈ ps, r.2 + r.1 * log_p_exp p k = log_v_adj (nDA V0 ρ M T E k p) M ρ := by
  intro r p hpm
  have hr := (da_recovers V0 ρ M T E k ps hV hρ hM hT hE hk hs hl hp).1
  change r = _ at hr
  rw [hr, da_transform_linear V0 ρ M T E k p (hp p hpm).1 (hp p hpm).2 hV hρ hM hT hE hk]

end Recovery

end PgVerif.Props.C14
