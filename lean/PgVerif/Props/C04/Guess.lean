/-
C04, `model='guess'` and the module-level list of candidate models (round 8, change C04-m16).

`ModelIsotherm.guess` walks the candidate list `pygaps.modelling._GUESS_MODELS`, tries a fit with every candidate, skips the ones whose fit is
refused (`CalculationError`) and keeps the best of the rest.  The list is a module-level object that every later guess in the process reads:
the property ("the outcome of a query is the same whether issued first or after other queries") holds because a guess READS the list and
never writes it.  The model keeps exactly that bookkeeping (the fit is any function `fit : Model → Data → Option Err`, `none` = refused):

* `guess`                      one guess: the list it leaves behind and the winner (smallest error among the fitted candidates, first wins a tie);
* `guess_list_unchanged`       the list after a guess is the list before it;
* `guessRun`, `guessRun_list_unchanged`, `guessRun_last_eq_fresh`
                               any history of guesses leaves the list alone, hence the answer of the last guess is the answer of the same
                               guess issued first (history independence of the code as it is);
* `guessRemoving`              the defect class of C04-m16: candidates whose fit is refused are struck off the shared list;
* `guessRemoving_list_eq_iff`  it leaves the list alone iff no candidate was refused — on data that every candidate fits the defect is invisible;
* `guessRemoving_history_witness`   kernel-checked: after a guess on data that refuses candidate 0, the same later guess answers with
                               another model than it does when issued first.

The tie to the code is section 6b of harness/props/c04.py (guess fits on five data shapes through four entry points, every ordered pair)
and the oracle `follow_module_leads` (all module-level containers compared by content after every history).
-/
import Mathlib.Tactic

namespace PgVerif.Props.C04.Guess

variable {M D : Type}

/-- The best fitted candidate: smallest error, the first one wins a tie; refused candidates (`none`) are skipped. -/
def best (fit : M → D → Option Nat) (d : D) : List M → Option (M × Nat)
  | [] => none
  | m :: ms =>
    match fit m d, best fit d ms with
    | none, r => r
    | some e, none => some (m, e)
    | some e, some (m', e') => if e ≤ e' then some (m, e) else some (m', e')

/-- One guess as the code has it: the shared list is read, not written. -/
def guess (fit : M → D → Option Nat) (cands : List M) (d : D) : List M × Option (M × Nat) := (cands, best fit d cands)

theorem guess_list_unchanged (fit : M → D → Option Nat) (cands : List M) (d : D) : (guess fit cands d).1 = cands := rfl

/-- A history of guesses on the shared list: the list left behind and the answers. -/
def guessRun (step : List M → D → List M × Option (M × Nat)) : List M → List D → List M × List (Option (M × Nat))
  | cands, [] => (cands, [])
  | cands, d :: ds =>
    let r := step cands d
    let rest := guessRun step r.1 ds
    (rest.1, r.2 :: rest.2)

theorem guessRun_list_unchanged (fit : M → D → Option Nat) (cands : List M) (ds : List D) :
    (guessRun (guess fit) cands ds).1 = cands := by
  induction ds generalizing cands with
  | nil => rfl
  | cons d ds ih => simp [guessRun, guess, ih]

/-- History independence: after any history the answer to `d` is the answer of the same guess issued first. -/
theorem guessRun_last_eq_fresh (fit : M → D → Option Nat) (cands : List M) (ds : List D) (d : D) :
    (guess fit (guessRun (guess fit) cands ds).1 d).2 = (guess fit cands d).2 := by
  rw [guessRun_list_unchanged]

/-- The defect class of C04-m16: a candidate whose fit is refused is struck off the shared list. -/
def guessRemoving (fit : M → D → Option Nat) (cands : List M) (d : D) : List M × Option (M × Nat) :=
  (cands.filter (fun m => (fit m d).isSome), best fit d cands)

/-- The defect leaves the list alone iff no candidate was refused: invisible on data that every candidate fits. -/
theorem guessRemoving_list_eq_iff (fit : M → D → Option Nat) (cands : List M) (d : D) :
    (guessRemoving fit cands d).1 = cands ↔ ∀ m ∈ cands, (fit m d).isSome = true := by
  simp [guessRemoving, List.filter_eq_self]

/-- The answer of ONE guess is the same under the defect: only a LATER guess can show it. -/
theorem guessRemoving_answer_eq (fit : M → D → Option Nat) (cands : List M) (d : D) :
    (guessRemoving fit cands d).2 = (guess fit cands d).2 := rfl

/-- Candidates 0, 1, 2; data 0 refuses candidate 0 (errors 5, 7 for the others); on data 1 candidate 0 is the best (error 1 against 4, 6).
After a guess on data 0 the defective bookkeeping answers data 1 with candidate 1; issued first it answers with candidate 0. -/
def witnessFit : Nat → Nat → Option Nat
  | 0, 0 => none
  | 1, 0 => some 5
  | 2, 0 => some 7
  | 0, 1 => some 1
  | 1, 1 => some 4
  | 2, 1 => some 6
  | _, _ => none

theorem guessRemoving_history_witness :
    (guessRun (guessRemoving witnessFit) [0, 1, 2] [0, 1]).2 = [some (1, 5), some (1, 4)]
    ∧ (guessRun (guessRemoving witnessFit) [0, 1, 2] [1]).2 = [some (0, 1)]
    ∧ (guessRun (guess witnessFit) [0, 1, 2] [0, 1]).2 = [some (1, 5), some (0, 1)] := by
  decide

/-- Non-vacuity of `guessRemoving_list_eq_iff`: on data 1 every candidate is fitted and the list survives. -/
example : (guessRemoving witnessFit [0, 1, 2] 1).1 = [0, 1, 2] :=
  (guessRemoving_list_eq_iff witnessFit [0, 1, 2] 1).2 (by decide)

end PgVerif.Props.C04.Guess
