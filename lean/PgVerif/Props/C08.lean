/-
C08 — the SQLite store behaves as a keyed collection over any operation history.

All statements are about `runOp db mem op fault : Result` of `PgVerif.Model.Store`; the fault-free call is `fault = none`.
The program logic and the fault-free `exec` lemmas are in `PgVerif.Lemmas.Store`.
-/
import PgVerif.Model.Store
import PgVerif.Lemmas.Store
import Mathlib.Tactic

set_option linter.unusedSimpArgs false

namespace PgVerif.C08
open PgVerif.Model.Store PgVerif.StoreL

/-- the empty store is well formed -/
theorem empty_wellFormed : Db.empty.wellFormed = true := by decide

/-! ### referential integrity as a proposition, and its preservation by every single statement -/

/-- `Db.wellFormed` as a proposition -/
structure WF (db : Db) : Prop where
  adsProps : ∀ r ∈ db.adsProps, r.1 ∈ db.ads ∧ r.2.1 ∈ db.adsTypes.map (·.1)
  matProps : ∀ r ∈ db.matProps, r.1 ∈ db.mats ∧ r.2.1 ∈ db.matTypes.map (·.1)
  isos : ∀ r ∈ db.isos, r.2.1 ∈ db.isoTypes.map (·.1) ∧ r.2.2.1 ∈ db.mats ∧ r.2.2.2.1 ∈ db.ads
  isoProps : ∀ r ∈ db.isoProps, r.1 ∈ db.isos.map (·.1)
  isoData : ∀ r ∈ db.isoData, r.1 ∈ db.isos.map (·.1)

lemma any_fst_eq {α β : Type} [BEq α] [LawfulBEq α] (l : List (α × β)) (t : α) :
    (l.any (·.1 == t)) = true ↔ t ∈ l.map (·.1) := by
  simp only [List.any_eq_true, beq_iff_eq, List.mem_map]

lemma mem_map_fst_filter_ne {β : Type} (l : List (String × β)) (t x : String) :
    x ∈ (l.filter (fun r => r.1 != t)).map (·.1) ↔ x ∈ l.map (·.1) ∧ x ≠ t := by
  simp only [List.mem_map, List.mem_filter, bne_iff_ne]
  constructor
  · rintro ⟨r, ⟨h1, h2⟩, rfl⟩; exact ⟨⟨r, h1, rfl⟩, h2⟩
  · rintro ⟨⟨r, h1, rfl⟩, h2⟩; exact ⟨r, ⟨h1, h2⟩, rfl⟩

lemma wf_iff (db : Db) : db.wellFormed = true ↔ WF db := by
  constructor
  · intro h
    simp only [Db.wellFormed, Bool.and_eq_true, List.all_eq_true, any_fst_eq, List.contains_iff_mem] at h
    obtain ⟨⟨⟨⟨h1, h2⟩, h3⟩, h4⟩, h5⟩ := h
    exact ⟨h1, h2, fun r hr => by have := h3 r hr; tauto, h4, h5⟩
  · rintro ⟨h1, h2, h3, h4, h5⟩
    simp only [Db.wellFormed, Bool.and_eq_true, List.all_eq_true, any_fst_eq, List.contains_iff_mem]
    exact ⟨⟨⟨⟨h1, h2⟩, fun r hr => by have := h3 r hr; tauto⟩, h4⟩, h5⟩

macro "wf_fin" h:ident : tactic => `(tactic|
  (obtain ⟨h1, h2, h3, h4, h5⟩ := $h
   constructor <;> simp only [List.map_append, List.mem_append, List.map_cons, List.map_nil, List.mem_singleton, mem_map_fst_filter_ne] <;> grind))

lemma wf_insAds (name : Option String) (d : Db) (h : WF d) :
    okP WF anyErr (insAds name d) := by
  unfold insAds insName
  cases name with
  | none => trivial
  | some n =>
    simp only
    split_ifs
    · trivial
    · obtain ⟨h1, h2, h3, h4, h5⟩ := h
      constructor <;> simp only <;> grind


lemma wf_insMat (name : Option String) (d : Db) (h : WF d) :
    okP WF anyErr (insMat name d) := by
  unfold insMat insName
  cases name with
  | none => trivial
  | some n =>
    simp only
    split_ifs
    · trivial
    · wf_fin h

lemma wf_insAdsProp (a t : String) (v : Option String) (d : Db) (h : WF d) :
    okP WF anyErr (insAdsProp a t v d) := by
  unfold insAdsProp
  cases v with
  | none => trivial
  | some v =>
    simp only
    split_ifs with c
    · simp only [Bool.and_eq_true, any_fst_eq, List.contains_iff_mem] at c
      wf_fin h
    · trivial

lemma wf_insMatProp (a t : String) (v : Option String) (d : Db) (h : WF d) :
    okP WF anyErr (insMatProp a t v d) := by
  unfold insMatProp
  cases v with
  | none => trivial
  | some v =>
    simp only
    split_ifs with c
    · simp only [Bool.and_eq_true, any_fst_eq, List.contains_iff_mem] at c
      wf_fin h
    · trivial

lemma wf_insAdsType (t : Option String) (u de : String) (d : Db) (h : WF d) :
    okP WF anyErr (insType3 (·.adsTypes) (fun d l => { d with adsTypes := l }) t u de d) := by
  unfold insType3
  cases t with
  | none => trivial
  | some t =>
    simp only
    split_ifs
    · trivial
    · wf_fin h

lemma wf_insMatType (t : Option String) (u de : String) (d : Db) (h : WF d) :
    okP WF anyErr (insType3 (·.matTypes) (fun d l => { d with matTypes := l }) t u de d) := by
  unfold insType3
  cases t with
  | none => trivial
  | some t =>
    simp only
    split_ifs
    · trivial
    · wf_fin h

lemma wf_updAdsType (t : Option String) (u de : String) (d : Db) (h : WF d) :
    okP WF anyErr (updType3 (·.adsTypes) (fun d l => { d with adsTypes := l }) t u de d) := by
  unfold updType3
  cases t with
  | none => exact h
  | some t =>
    simp only
    wf_fin h


lemma wf_updMatType (t : Option String) (u de : String) (d : Db) (h : WF d) :
    okP WF anyErr (updType3 (·.matTypes) (fun d l => { d with matTypes := l }) t u de d) := by
  unfold updType3
  cases t with
  | none => exact h
  | some t =>
    simp only
    wf_fin h

lemma wf_insIsoType (t : Option String) (de : String) (d : Db) (h : WF d) :
    okP WF anyErr (insIsoType t de d) := by
  unfold insIsoType
  cases t with
  | none => trivial
  | some t =>
    simp only
    split_ifs
    · trivial
    · wf_fin h

lemma wf_updIsoType (t : Option String) (de : String) (d : Db) (h : WF d) :
    okP WF anyErr (updIsoType t de d) := by
  unfold updIsoType
  cases t with
  | none => exact h
  | some t =>
    simp only
    wf_fin h

lemma wf_delAds (a : String) (d : Db) (h : WF d) :
    okP WF anyErr (delAds a d) := by
  unfold delAds
  split_ifs with c
  · trivial
  · simp only [Bool.or_eq_true, any_fst_eq, List.any_eq_true, beq_iff_eq, not_or, not_exists, not_and] at c
    wf_fin h

lemma wf_delMat (a : String) (d : Db) (h : WF d) :
    okP WF anyErr (delMat a d) := by
  unfold delMat
  split_ifs with c
  · trivial
  · simp only [Bool.or_eq_true, any_fst_eq, List.any_eq_true, beq_iff_eq, not_or, not_exists, not_and] at c
    wf_fin h

lemma wf_delAdsType (t : String) (d : Db) (h : WF d) :
    okP WF anyErr (delAdsType t d) := by
  unfold delAdsType
  split_ifs with c
  · trivial
  · simp only [List.any_eq_true, beq_iff_eq, not_exists, not_and] at c
    wf_fin h

lemma wf_delMatType (t : String) (d : Db) (h : WF d) :
    okP WF anyErr (delMatType t d) := by
  unfold delMatType
  split_ifs with c
  · trivial
  · simp only [List.any_eq_true, beq_iff_eq, not_exists, not_and] at c
    wf_fin h

lemma wf_delIsoType (t : String) (d : Db) (h : WF d) :
    okP WF anyErr (delIsoType t d) := by
  unfold delIsoType
  split_ifs with c
  · trivial
  · simp only [List.any_eq_true, beq_iff_eq, not_exists, not_and] at c
    wf_fin h

lemma wf_insIso (id ty : String) (mat ads temp : Option String) (d : Db) (h : WF d) :
    okP WF anyErr (insIso id ty mat ads temp d) := by
  unfold insIso
  cases mat <;> cases ads <;> cases temp <;> simp only [] <;> try trivial
  split_ifs with c1 c2
  · trivial
  · simp only [Bool.and_eq_true, any_fst_eq, List.contains_iff_mem] at c2
    wf_fin h
  · trivial

lemma wf_insIsoProp (id t : String) (v : PVal) (d : Db) (h : WF d) :
    okP WF anyErr (insIsoProp id t v d) := by
  unfold insIsoProp
  cases v with
  | unsupported => trivial
  | null => trivial
  | val s =>
    simp only
    split_ifs with c
    · simp only [any_fst_eq] at c
      wf_fin h
    · trivial

lemma wf_insIsoData (id t dt da : String) (d : Db) (h : WF d) :
    okP WF anyErr (insIsoData id t dt da d) := by
  unfold insIsoData
  split_ifs with c
  · simp only [any_fst_eq] at c
    wf_fin h
  · trivial

lemma wf_filterAdsProps (nm : String) (d : Db) (h : WF d) :
    okP WF anyErr (Except.ok { d with adsProps := d.adsProps.filter (·.1 != nm) } : Except SqlErr Db) := by
  rw [okP_ok]
  wf_fin h

lemma wf_filterMatProps (nm : String) (d : Db) (h : WF d) :
    okP WF anyErr (Except.ok { d with matProps := d.matProps.filter (·.1 != nm) } : Except SqlErr Db) := by
  rw [okP_ok]
  wf_fin h


/-! ### every fault-free operation preserves well-formedness -/

macro "wf_disch" : tactic => `(tactic|
  first
    | exact wf_insAds _ | exact wf_insMat _ | exact wf_insAdsProp _ _ _ | exact wf_insMatProp _ _ _
    | exact wf_insAdsType _ _ _ | exact wf_insMatType _ _ _ | exact wf_updAdsType _ _ _ | exact wf_updMatType _ _ _
    | exact wf_insIsoType _ _ | exact wf_updIsoType _ _ | exact wf_delAds _ | exact wf_delMat _
    | exact wf_delAdsType _ | exact wf_delMatType _ | exact wf_delIsoType _ | exact wf_insIso _ _ _ _ _
    | exact wf_insIsoProp _ _ _ | exact wf_insIsoData _ _ _ _ | exact wf_filterAdsProps _ | exact wf_filterMatProps _)


lemma wfRel_adsToDb (name props ai ow) : Inv anyErr WF (adsToDb name props ai ow) := by
  unfold adsToDb
  sql_inv [wf_disch] [trivial]

lemma wfRel_matToDb (name props ai ow) : Inv anyErr WF (matToDb name props ai ow) := by
  unfold matToDb
  sql_inv [wf_disch] [trivial]

lemma wfRel_adsDelete (name) : Inv anyErr WF (adsDelete name) := by
  unfold adsDelete
  sql_inv [wf_disch] [trivial]

lemma wfRel_matDelete (name) : Inv anyErr WF (matDelete name) := by
  unfold matDelete
  sql_inv [wf_disch] [trivial]

lemma wfRel_typeToDb (tb t u d o) : Inv anyErr WF (typeToDb tb t u d o) := by
  unfold typeToDb
  cases o <;> sql_inv [wf_disch] [trivial]

lemma wfRel_typeDelete (tb t) : Inv anyErr WF (typeDelete tb t) := by
  unfold typeDelete
  sql_inv [wf_disch] [trivial]


lemma wfRel_isoToDb (i am aa) : Inv anyErr WF (isoToDb i am aa) := by
  unfold isoToDb
  repeat (first
    | with_reducible exact Inv.pure _
    | with_reducible exact Inv.readStmt _ | with_reducible exact Inv.modifyMem _
    | with_reducible exact wfRel_adsToDb _ _ _ _ | with_reducible exact wfRel_matToDb _ _ _ _
    | with_reducible refine Inv.writeStmt _ (by wf_disch)
    | with_reducible apply Inv.bind | with_reducible apply Inv.ite | with_reducible apply Inv.forIn
    | with_reducible intro _
    | (split)
    | dsimp only)

/-- the fault-free `isoDelete`, computed -/
lemma exec_isoDelete_none (id : String) (db : Db) (mem : Mem) (n : Nat) :
    exec (isoDelete id) ⟨db, mem, n, none⟩ =
      if db.isos.any (·.1 == id) then
        (.ok (), ⟨{ db with isoData := db.isoData.filter (·.1 != id), isoProps := db.isoProps.filter (·.1 != id),
                            isos := db.isos.filter (·.1 != id) }, mem, n + 4, none⟩)
      else (.error .integrity, ⟨db, mem, n + 1, none⟩) := by
  unfold isoDelete
  by_cases h : db.isos.any (·.1 == id) = true
  · simp [exec_bind, exec_writeStmt_none, h]
  · simp [exec_bind, exec_writeStmt_none, h]

lemma wf_isoDelete_result (id : String) (d : Db) (h : WF d) :
    WF { d with isoData := d.isoData.filter (·.1 != id), isoProps := d.isoProps.filter (·.1 != id),
                isos := d.isos.filter (·.1 != id) } := by
  obtain ⟨h1, h2, h3, h4, h5⟩ := h
  constructor <;> simp only [mem_map_fst_filter_ne, List.mem_filter, bne_iff_ne] <;> grind

/-- **every fault-free operation body that returns normally maps a well-formed working copy to a well-formed one** -/
theorem wf_opBody (op : Op) (db : Db) (mem : Mem) (n : Nat) (h : WF db)
    (hok : (exec op.body ⟨db, mem, n, none⟩).1 = .ok ()) : WF (exec op.body ⟨db, mem, n, none⟩).2.db := by
  have key : ∀ {p : Sql Unit}, Inv anyErr WF p → (exec p ⟨db, mem, n, none⟩).1 = .ok () →
      WF (exec p ⟨db, mem, n, none⟩).2.db := by
    intro p hp hk
    rcases hp ⟨db, mem, n, none⟩ rfl h with ⟨e, _, he⟩ | ⟨_, _, _, h2⟩
    · rw [hk] at he; cases he
    · exact h2
  cases op with
  | adsToDb n p a o => exact key (wfRel_adsToDb n p a o) hok
  | matToDb n p a o => exact key (wfRel_matToDb n p a o) hok
  | adsDelete n => exact key (wfRel_adsDelete n) hok
  | matDelete n => exact key (wfRel_matDelete n) hok
  | typeToDb tb t u d o => exact key (wfRel_typeToDb tb t u d o) hok
  | typeDelete tb t => exact key (wfRel_typeDelete tb t) hok
  | isoToDb i am aa => exact key (wfRel_isoToDb i am aa) hok
  | isoDelete id =>
    simp only [Op.body] at hok ⊢
    rw [exec_isoDelete_none] at hok ⊢
    split_ifs at hok ⊢ with c
    · exact wf_isoDelete_result id db h



/-! ### general theorems -/

/-- A refused (or otherwise unsuccessful) fault-free call changes nothing. -/
theorem refused_changes_nothing (db : Db) (mem : Mem) (op : Op) :
    (runOp db mem op none).out ≠ .ok → (runOp db mem op none).db = db := by
  obtain ⟨h1, h2⟩ := runOp_none db mem op
  rw [h1, h2]
  rcases (exec op.body ⟨db, mem, 1, none⟩).1 with e | a
  · intro _; rfl
  · intro h; exact absurd rfl h

/-- The result for the target file (committed content and outcome) is a function of that file's content and of the
operation only: it does not depend on the process-global lists, i.e. on uploads earlier in the session; other
database files are not even an input of `runOp`. -/
theorem outcome_depends_only_on_file (db : Db) (mem₁ mem₂ : Mem) (op : Op) (f : Option (Nat × FaultKind)) :
    (runOp db mem₁ op f).db = (runOp db mem₂ op f).db ∧ (runOp db mem₁ op f).out = (runOp db mem₂ op f).out := by
  rw [runOp_eq, runOp_eq]
  rcases rel_prog (fun b => memR_stmt b) memR_modifyMem op ⟨db, mem₁, 0, f⟩ ⟨db, mem₂, 0, f⟩ ⟨rfl, rfl, rfl⟩ with
    ⟨_, h, _⟩ | ⟨h1, h2, h3, _⟩
  · exact h.elim
  · have := finish_congr db mem₁ mem₂ f _ _ h1 h2 h3
    exact ⟨this.1, this.2.1⟩

/-! ### no orphans, ever -/

/-- the fault-free call preserves referential integrity -/
theorem wellFormed_preserved_none (db : Db) (mem : Mem) (op : Op) (h : db.wellFormed = true) :
    (runOp db mem op none).db.wellFormed = true := by
  rw [(runOp_none db mem op).2]
  rcases hr : (exec op.body ⟨db, mem, 1, none⟩).1 with e | a
  · exact h
  · exact (wf_iff _).2 (wf_opBody op db mem 1 ((wf_iff _).1 h) hr)

/-- **Referential integrity is preserved by every operation under every fault** (isotherms reference existing
material / adsorbate / type; property and data rows reference existing owners). -/
theorem wellFormed_preserved (db : Db) (mem : Mem) (op : Op) (fault : Option (Nat × FaultKind))
    (h : db.wellFormed = true) : (runOp db mem op fault).db.wellFormed = true := by
  rcases fault with _ | ⟨k, kind⟩
  · exact wellFormed_preserved_none db mem op h
  · rcases runOp_atomic db mem op k kind with h' | h'
    · rw [h']; exact h
    · rw [h']; exact wellFormed_preserved_none db mem op h

/-- one step of a history: the call sees the committed file and the current process-global lists -/
def step (s : Db × Mem) (c : Op × Option (Nat × FaultKind)) : Db × Mem :=
  ((runOp s.1 s.2 c.1 c.2).db, (runOp s.1 s.2 c.1 c.2).mem)

/-- **History lifting**: any sequence of operations, each with any fault, from a well-formed file leaves a well-formed file. -/
theorem history_wellFormed (h : List (Op × Option (Nat × FaultKind))) (db : Db) (mem : Mem)
    (hw : db.wellFormed = true) : (h.foldl step (db, mem)).1.wellFormed = true := by
  induction h generalizing db mem with
  | nil => exact hw
  | cons c h ih =>
    rw [List.foldl_cons]
    exact ih _ _ (wellFormed_preserved db mem c.1 c.2 hw)

/-- in particular starting from the empty file -/
theorem history_wellFormed_from_empty (h : List (Op × Option (Nat × FaultKind))) (mem : Mem) :
    (h.foldl step (Db.empty, mem)).1.wellFormed = true :=
  history_wellFormed h _ _ empty_wellFormed

/-- the committed file after a history does not depend on the initial process-global lists -/
theorem history_db_independent_of_mem (h : List (Op × Option (Nat × FaultKind))) (db : Db) (mem₁ mem₂ : Mem) :
    (h.foldl step (db, mem₁)).1 = (h.foldl step (db, mem₂)).1 := by
  induction h generalizing db mem₁ mem₂ with
  | nil => rfl
  | cons c h ih =>
    rw [List.foldl_cons, List.foldl_cons]
    unfold step
    simp only
    rw [(outcome_depends_only_on_file db mem₁ mem₂ c.1 c.2).1]
    exact ih _ _ _

end PgVerif.C08
